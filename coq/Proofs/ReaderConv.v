(* Proofs/ReaderConv.v — the hypothesis `conv_lookup_only` is what the QName converter does:
   QNameConverter.resolve (Model/ConvQName.v, property C05's model, tied to the real converter by
   C05's correspondence) reads the prefix map only through `ns_map.get(prefix)`, and the default
   namespace only through its truth value.  `qconv` is an executable converter built on it,
   used by the witnesses and the non-vacuity examples of C08 / C09. *)
From Coq Require Import NArith ZArith List Bool.
From XV Require Import Base.Str Base.Eqb Base.PyInt Model.Bind Model.Parser Model.Reader Model.ReaderCorr
  Proofs.ReaderMaps Proofs.ReaderAgree.
From XV Require Model.ConvQName.
Import ListNotations.

Lemma cq_ns_get k m : ConvQName.ns_get k m = ns_get k m.
Proof. induction m as [|[k0 v0] m IH]; cbn [ConvQName.ns_get ns_get]; [reflexivity|]. unfold ConvQName.okey_eqb, ostr_eqb. rewrite IH. reflexivity. Qed.

Lemma clark_norm (ua ub : option str) name : norm_uri ua = norm_uri ub -> ConvQName.clark ua name = ConvQName.clark ub name.
Proof. destruct ua as [[|x a]|], ub as [[|y b]|]; cbn [norm_uri ConvQName.clark]; intros H; try reflexivity; try discriminate; congruence. Qed.

Lemma truthy_norm (ua ub : option str) : norm_uri ua = norm_uri ub -> ConvQName.truthy ua = ConvQName.truthy ub.
Proof. destruct ua as [[|x a]|], ub as [[|y b]|]; cbn [norm_uri ConvQName.truthy]; intros H; try reflexivity; discriminate. Qed.

Theorem qname_deser_lookup_only : forall a b s, ns_equiv a b ->
  ConvQName.qname_deser s (Some a) = ConvQName.qname_deser s (Some b).
Proof.
  intros a b s H. unfold ConvQName.qname_deser, ConvQName.qname_resolve.
  destruct (py_strip s) as [|ch rest]; [reflexivity|].
  destruct (N.eqb ch 123); [reflexivity|].
  destruct (ConvQName.text_split 58 (ch :: rest)) as [prefix name].
  assert (Ea : match a with e :: mm => ConvQName.ns_get prefix (e :: mm) | [] => None end = ns_get prefix a)
    by (destruct a; [reflexivity|apply cq_ns_get]).
  assert (Eb : match b with e :: mm => ConvQName.ns_get prefix (e :: mm) | [] => None end = ns_get prefix b)
    by (destruct b; [reflexivity|apply cq_ns_get]).
  rewrite Ea, Eb. clear Ea Eb.
  destruct prefix as [p|].
  - pose proof (H (Some p)) as Hp. cbn [ns_read] in Hp. rewrite Hp. reflexivity.
  - pose proof (H None) as Hn. cbn [ns_read] in Hn. cbn [ConvQName.truthy andb].
    destruct (ConvQName.name_ok name); [|reflexivity]. cbn [ConvQName.clark]. f_equal. apply clark_norm. exact Hn.
Qed.

(* an executable converter: QName-typed values through the modelled QNameConverter, everything
   else kept as text *)
Definition qconv : conv :=
  mk_conv (fun tys _ ns s => if existsb (ptype_eqb TQName) tys
                             then option_map PQName (ConvQName.qname_deser s (Some ns))
                             else Some (PStr s))
          (fun _ p => match p with PStr s => s | PQName s => s | _ => [] end)
          (fun _ _ => false)
          (fun _ => ([], false))
          (fun _ => None).

Theorem qconv_lookup_only : conv_lookup_only qconv.
Proof.
  intros a b tys fmt s H. cbn [qconv c_deser]. destruct (existsb (ptype_eqb TQName) tys); [|reflexivity].
  rewrite (qname_deser_lookup_only a b s H). reflexivity.
Qed.
