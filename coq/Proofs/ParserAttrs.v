(* Proofs/ParserAttrs.v — C10, unknown ATTRIBUTES at the level of the whole parse: a
   simulation between the run on the stream with the extra attribute and the run without it.
   The two runs differ only in the `attrs` field of one ElementNode while it is on the
   queue; when it binds, the attribute is dropped (unknown_attr_dropped) and the states
   coincide. *)
From Coq Require Import NArith ZArith List Bool Arith Lia.
From XV Require Import Base.Str Base.Eqb Base.PyInt Model.Bind Model.Parser Model.ParserCorr Spec.Inject
  Proofs.ParserSkip Proofs.ParserMatrix.
Import ListNotations.

Definition with_attrs (e : enode) (a : list (qname * str)) : enode :=
  mk_enode (en_meta e) a (en_ns e) (en_position e) (en_derived e) (en_xsi_type e) (en_xsi_nil e)
           (en_assigned e) (en_wrappers e).

Definition node_set_attrs (a : list (qname * str)) (n : node) : node :=
  match n with
  | NElement e => NElement (with_attrs e a)
  | NWildcard v _ ns pos => NWildcard v a ns pos
  | _ => n
  end.

Definition rmap {A B} (f : A -> B) (r : res A) : res B :=
  match r with ROk a => ROk (f a) | RErr k => RErr k end.

Lemma assoc_skip {A} (x a : str) (v : A) l1 l2 :
  str_eqb x a = false -> assoc x (l1 ++ (a, v) :: l2) = assoc x (l1 ++ l2).
Proof.
  intros H. induction l1 as [|[k w] l1 IH]; cbn [app assoc].
  - rewrite H. reflexivity.
  - destruct (str_eqb x k); [reflexivity|exact IH].
Qed.

Lemma str_eqb_sym a b : str_eqb a b = str_eqb b a.
Proof.
  destruct (str_eqb_spec a b) as [E|H]; destruct (str_eqb_spec b a) as [E'|H']; try reflexivity; congruence.
Qed.

(* ---------------------------------------------------------------- node construction is uniform in attrs *)
Section BuildAttrs.
  Variable c : conv.
  Variable u : universe.
  Variables X Y : list (qname * str).
  Hypothesis same_type : forall ns, xsi_type_of c X ns = xsi_type_of c Y ns.
  Hypothesis same_nil : xsi_nil_of X = xsi_nil_of Y.

  Lemma build_element_node_attrs p cl d nl ns pos df xt xn :
    build_element_node c u p cl d nl X ns pos df xt xn
    = rmap (option_map (node_set_attrs X)) (build_element_node c u p cl d nl Y ns pos df xt xn).
  Proof.
    unfold build_element_node. destruct (fetch c u cl xt) as [meta|k]; cbn [rbind rmap]; [|reflexivity].
    destruct (match xn with Some b => negb (Bool.eqb (nl || m_nillable meta) b) | None => false end);
      reflexivity.
  Qed.

  Lemma build_node_attrs p q var ns pos :
    v_is_clazz_union var = false ->
    build_node c u p q var X ns pos
    = rmap (option_map (node_set_attrs X)) (build_node c u p q var Y ns pos).
  Proof.
    intros Hu. unfold build_node. rewrite Hu, same_type, same_nil.
    destruct (xsi_type_of c Y ns) as [xt|k]; cbn [rbind rmap]; [|reflexivity].
    destruct (v_clazz var) as [cl|].
    - apply build_element_node_attrs.
    - destruct (negb (v_any_type var) && negb (v_is KWildcard var)); [reflexivity|].
      destruct (match xt with Some x => c_from_qname c x | None => None end) as [[[ty fmt] wr]|]; [reflexivity|].
      set (cl1 := match xt with Some x => ctx_find_type c u x | None => None end).
      destruct cl1 as [cl|].
      + rewrite (build_element_node_attrs p cl _ _ ns pos true xt (xsi_nil_of Y)).
        destruct (build_element_node c u p cl (v_is KWildcard var) (v_nillable var) Y ns pos true xt (xsi_nil_of Y))
          as [[n|]|k]; cbn [rbind rmap option_map]; try reflexivity.
        set (cl2 := if negb (str_eqb (v_process_contents var) s_skip) then ctx_find_type c u q else Some cl).
        destruct cl2 as [cl'|]; cbn [rbind rmap option_map]; [|reflexivity].
        rewrite (build_element_node_attrs p cl' _ _ ns pos false xt (xsi_nil_of Y)).
        destruct (build_element_node c u p cl' false (v_nillable var) Y ns pos false xt (xsi_nil_of Y))
          as [[n|]|k]; reflexivity.
      + cbn [rbind].
        set (cl2 := if negb (str_eqb (v_process_contents var) s_skip) then ctx_find_type c u q else None).
        destruct cl2 as [cl'|]; cbn [rbind rmap option_map]; [|reflexivity].
        rewrite (build_element_node_attrs p cl' _ _ ns pos false xt (xsi_nil_of Y)).
        destruct (build_element_node c u p cl' false (v_nillable var) Y ns pos false xt (xsi_nil_of Y))
          as [[n|]|k]; reflexivity.
  Qed.

  Lemma filter_candidates_shape l :
    (exists k, filter_candidates c u X l = RErr k /\ filter_candidates c u Y l = RErr k)
    \/ (exists lx ly, filter_candidates c u X l = ROk lx /\ filter_candidates c u Y l = ROk ly).
  Proof.
    induction l as [|t l IH]; cbn [filter_candidates]; [right; eauto|].
    assert (Hf : (exists k, filter_fixed_attrs c u X t = RErr k /\ filter_fixed_attrs c u Y t = RErr k)
                 \/ (exists bx by_, filter_fixed_attrs c u X t = ROk bx /\ filter_fixed_attrs c u Y t = ROk by_)).
    { unfold filter_fixed_attrs. destruct t as [ | | | | | | | | | | | | |e|cl]; try solve [right; eauto].
      destruct (get_meta u cl); cbn [rbind]; [right; eauto|left; eauto]. }
    destruct Hf as [[k [-> ->]]|[bx [by_ [-> ->]]]]; cbn [rbind]; [left; eauto|].
    destruct IH as [[k [-> ->]]|[lx [ly [-> ->]]]]; cbn [rbind]; [left; eauto|right; eauto].
  Qed.

  (* a union field: whatever the attributes, an error or a UnionNode *)
  Lemma build_node_union p q var ns pos :
    v_is_clazz_union var = true ->
    (exists k, build_node c u p q var X ns pos = RErr k /\ build_node c u p q var Y ns pos = RErr k)
    \/ (exists ux uy, build_node c u p q var X ns pos = ROk (Some (NUnion ux))
                      /\ build_node c u p q var Y ns pos = ROk (Some (NUnion uy))).
  Proof.
    intros Hu. unfold build_node. rewrite Hu.
    destruct (filter_candidates_shape (v_types var)) as [[k [-> ->]]|[lx [ly [-> ->]]]]; cbn [rbind];
      [left; eauto|right; eauto].
  Qed.
End BuildAttrs.

(* ---------------------------------------------------------------- the parent's attrs are never read by child() *)
Section ParentAttrs.
  Variable cfg : pconfig.
  Variable c : conv.
  Variable u : universe.

  Lemma build_node_parent en X q var B ns pos :
    build_node c u (with_attrs en X) q var B ns pos = build_node c u en q var B ns pos.
  Proof. reflexivity. Qed.

  Definition reattr (X : list (qname * str)) (r : node * enode) : node * enode := (fst r, with_attrs (snd r) X).

  Lemma child_loop_parent en X q B ns pos w vars :
    child_loop c u (with_attrs en X) q B ns pos w vars
    = rmap (option_map (reattr X)) (child_loop c u en q B ns pos w vars).
  Proof.
    induction vars as [|var rest IH]; cbn [child_loop]; [reflexivity|].
    destruct (wrapper_mismatch w var); [exact IH|].
    cbn [with_attrs en_assigned].
    set (unique := if v_is KElement var && negb (v_list_element var) then v_index var else 0%N).
    destruct ((unique =? 0)%N || negb (existsb (N.eqb unique) (en_assigned en))); [|exact IH].
    rewrite build_node_parent.
    destruct (build_node c u en q var B ns pos) as [[n|]|k]; cbn [rbind rmap option_map]; [|exact IH|reflexivity].
    destruct (unique =? 0)%N; destruct (truthy_str w); reflexivity.
  Qed.

  Lemma element_child_parent en X q B ns pos w :
    element_child cfg c u (with_attrs en X) q B ns pos w
    = rmap (reattr X) (element_child cfg c u en q B ns pos w).
  Proof.
    unfold element_child. cbn [with_attrs en_meta]. rewrite child_loop_parent.
    destruct (child_loop c u en q B ns pos w (find_children (en_meta en) q)) as [[r|]|k]; cbn [rbind rmap option_map];
      try reflexivity.
    destruct (fail_unknown_props cfg); reflexivity.
  Qed.

  Lemma child_loop_meta en q B ns pos w vars n en2 :
    child_loop c u en q B ns pos w vars = ROk (Some (n, en2)) -> en_meta en2 = en_meta en.
  Proof.
    induction vars as [|var rest IH]; cbn [child_loop]; [discriminate|].
    destruct (wrapper_mismatch w var); [exact IH|].
    set (unique := if v_is KElement var && negb (v_list_element var) then v_index var else 0%N).
    destruct ((unique =? 0)%N || negb (existsb (N.eqb unique) (en_assigned en))); [|exact IH].
    destruct (build_node c u en q var B ns pos) as [[n0|]|k]; cbn [rbind]; [|exact IH|discriminate].
    intros H. injection H as _ <-.
    destruct (unique =? 0)%N; destruct (truthy_str w); reflexivity.
  Qed.

  Lemma element_child_meta en q B ns pos w n en2 :
    element_child cfg c u en q B ns pos w = ROk (n, en2) -> en_meta en2 = en_meta en.
  Proof.
    unfold element_child.
    destruct (child_loop c u en q B ns pos w (find_children (en_meta en) q)) as [[[n0 e0]|]|k] eqn:H; cbn [rbind];
      try discriminate.
    - intros E. injection E as _ <-. exact (child_loop_meta _ _ _ _ _ _ _ _ _ H).
    - destruct (fail_unknown_props cfg); [discriminate|]. intros E. injection E as _ <-. reflexivity.
  Qed.

  (* ---------------------------------------------------------------- bind: attrs are read by bind_attrs and bind_wild_text only *)
  Lemma loop_en_attrs X en l : forall p ws,
    bind_attrs_loop cfg c (with_attrs en X) l p ws = bind_attrs_loop cfg c en l p ws.
  Proof.
    induction l as [|[q sval] l IH]; intros p ws; [reflexivity|].
    cbn [bind_attrs_loop with_attrs en_meta].
    assert (Ha : forall var, bind_attr cfg c (with_attrs en X) var sval p = bind_attr cfg c en var sval p) by reflexivity.
    assert (Hb : forall var, bind_any_attr (with_attrs en X) var q sval p = bind_any_attr en var q sval p) by reflexivity.
    destruct (find_attribute (en_meta en) q) as [var|].
    - destruct (pmem (v_name var) p).
      + destruct (find_any_attributes (en_meta en) q) as [av|].
        * rewrite Hb. destruct (bind_any_attr en av q sval p); cbn [rbind]; [apply IH|reflexivity].
        * destruct (fail_unknown_attrs cfg && negb (ostr_eqb (target_uri q) (Some XSI_NS))); [reflexivity|apply IH].
      + rewrite Ha. destruct (bind_attr cfg c en var sval p); cbn [rbind]; [apply IH|reflexivity].
    - destruct (find_any_attributes (en_meta en) q) as [av|].
      + rewrite Hb. destruct (bind_any_attr en av q sval p); cbn [rbind]; [apply IH|reflexivity].
      + destruct (fail_unknown_attrs cfg && negb (ostr_eqb (target_uri q) (Some XSI_NS))); [reflexivity|apply IH].
  Qed.

  Lemma bind_content_attrs en X p t tl objs :
    attrs_not_captured (en_meta en) = true ->
    bind_content cfg c (with_attrs en X) p t tl objs = bind_content cfg c en p t tl objs.
  Proof.
    intros Hn. unfold attrs_not_captured in Hn. unfold bind_content. cbn [with_attrs en_meta en_position en_wrappers].
    assert (Ht : forall p0, bind_text cfg c (with_attrs en X) p0 t = bind_text cfg c en p0 t) by reflexivity.
    destruct (find_any_wildcard (en_meta en)) as [wv|].
    - assert (Hw : forall p0, bind_wild_text (with_attrs en X) wv p0 t tl = bind_wild_text en wv p0 t tl).
      { intros p0. unfold bind_wild_text. rewrite Hn. reflexivity. }
      destruct (v_mixed wv).
      + cbn [rbind]. rewrite Hw. reflexivity.
      + destruct (bind_objects_loop c (en_meta en) (skipn (en_position en) objs) p (en_wrappers en) []) as [r|k];
          cbn [rbind]; [|reflexivity].
        rewrite Ht. destruct (bind_text cfg c en (fst r) t) as [[[bt p'] ws']|k]; cbn [rbind]; [|reflexivity].
        destruct bt; [reflexivity|]. rewrite Hw. reflexivity.
    - destruct (bind_objects_loop c (en_meta en) (skipn (en_position en) objs) p (en_wrappers en) []) as [r|k];
        cbn [rbind]; [|reflexivity].
      rewrite Ht. reflexivity.
  Qed.

  Lemma element_bind_attrs en X Y q t tl objs :
    attrs_not_captured (en_meta en) = true ->
    bind_attrs_loop cfg c en X [] [] = bind_attrs_loop cfg c en Y [] [] ->
    element_bind cfg c (with_attrs en X) q t tl objs = element_bind cfg c (with_attrs en Y) q t tl objs.
  Proof.
    intros Hn Hl. unfold element_bind, bind_attrs. cbn [with_attrs en_meta en_attrs en_derived en_xsi_type].
    assert (Hx : forall Z, xsi_nil_true (with_attrs en Z) = xsi_nil_true en) by reflexivity.
    rewrite !Hx. rewrite !loop_en_attrs, Hl.
    destruct (negb (xsi_nil_true en) || m_nillable (en_meta en)); [|reflexivity].
    destruct (bind_attrs_loop cfg c en Y [] []) as [pa|k]; cbn [rbind]; [|reflexivity].
    pose proof (bind_content_attrs en X (fst pa) t tl objs Hn) as Hc1.
    pose proof (bind_content_attrs en Y (fst pa) t tl objs Hn) as Hc2.
    cbn [with_attrs] in Hc1, Hc2. rewrite Hc1, Hc2. reflexivity.
  Qed.
End ParentAttrs.

(* ---------------------------------------------------------------- the simulation *)
Section AttrSim.
  Variable cfg : pconfig.
  Variable c : conv.
  Variable u : universe.
  Variable replay : pconfig -> option cls -> list pevent -> outcome.
  Variable root : option cls.

  (* the injected attribute and the two attribute lists *)
  Variable a : qname.
  Variable v : str.
  Variables a1 a2 : list (qname * str).
  Let A' := a1 ++ (a, v) :: a2.
  Let A := a1 ++ a2.

  Hypothesis a_not_type : str_eqb a XSI_TYPE = false.
  Hypothesis a_not_nil : str_eqb a XSI_NIL = false.

  Lemma xsi_type_same ns : xsi_type_of c A' ns = xsi_type_of c A ns.
  Proof.
    unfold xsi_type_of, A', A. rewrite assoc_skip; [reflexivity|].
    rewrite str_eqb_sym. exact a_not_type.
  Qed.
  Lemma xsi_nil_same : xsi_nil_of A' = xsi_nil_of A.
  Proof.
    unfold xsi_nil_of, A', A. rewrite assoc_skip; [reflexivity|].
    rewrite str_eqb_sym. exact a_not_nil.
  Qed.

  (* the node drops the attribute when it binds *)
  Definition cond (e : enode) : Prop :=
    unknown_attr (en_meta e) a = true /\ attrs_not_captured (en_meta e) = true
    /\ fail_unknown_attrs cfg && negb (in_xsi_namespace a) = false.

  Lemma cond_meta e e2 : en_meta e2 = en_meta e -> cond e -> cond e2.
  Proof. unfold cond. intros ->. exact (fun H => H). Qed.

  Lemma element_bind_cond e q t tl objs :
    cond e ->
    element_bind cfg c (with_attrs e A') q t tl objs = element_bind cfg c (with_attrs e A) q t tl objs.
  Proof.
    intros [Hu [Hn Hf]]. apply (element_bind_attrs cfg c e A' A q t tl objs Hn).
    unfold A', A. apply unknown_attr_dropped; assumption.
  Qed.

  (* what child() returns for A' determines what it returns for A *)
  Lemma child_loop_some en q ns pos w vars n' en2 :
    child_loop c u en q A' ns pos w vars = ROk (Some (n', en2)) ->
    (exists un, n' = NUnion un)
    \/ (exists n0, n' = node_set_attrs A' n0
                   /\ child_loop c u en q A ns pos w vars = ROk (Some (node_set_attrs A n0, en2))).
  Proof.
    induction vars as [|var rest IH]; cbn [child_loop]; [discriminate|].
    destruct (wrapper_mismatch w var); [exact IH|].
    set (unique := if v_is KElement var && negb (v_list_element var) then v_index var else 0%N).
    destruct ((unique =? 0)%N || negb (existsb (N.eqb unique) (en_assigned en))); [|exact IH].
    destruct (v_is_clazz_union var) eqn:Hu.
    - destruct (build_node_union c u A' A en q var ns pos Hu) as [[k [-> ->]]|[ux [uy [-> ->]]]]; cbn [rbind];
        [discriminate|].
      intros H. injection H as <- _. left. eauto.
    - rewrite (build_node_attrs c u A' A xsi_type_same xsi_nil_same en q var ns pos Hu).
      pose proof (build_node_attrs c u A A (fun _ => eq_refl) eq_refl en q var ns pos Hu) as Hself.
      destruct (build_node c u en q var A ns pos) as [[n|]|k]; cbn [rbind rmap option_map] in *;
        [|exact IH|discriminate].
      injection Hself as Hself.
      intros H. injection H as <- <-. right. exists n. split; [reflexivity|].
      rewrite <- Hself. reflexivity.
  Qed.

  Lemma child_loop_none en q ns pos w vars :
    child_loop c u en q A' ns pos w vars = ROk None ->
    child_loop c u en q A ns pos w vars = ROk None.
  Proof.
    induction vars as [|var rest IH]; cbn [child_loop]; [reflexivity|].
    destruct (wrapper_mismatch w var); [exact IH|].
    set (unique := if v_is KElement var && negb (v_list_element var) then v_index var else 0%N).
    destruct ((unique =? 0)%N || negb (existsb (N.eqb unique) (en_assigned en))); [|exact IH].
    destruct (v_is_clazz_union var) eqn:Hu.
    - destruct (build_node_union c u A' A en q var ns pos Hu) as [[k [-> ->]]|[ux [uy [-> ->]]]]; cbn [rbind];
        discriminate.
    - rewrite (build_node_attrs c u A' A xsi_type_same xsi_nil_same en q var ns pos Hu).
      destruct (build_node c u en q var A ns pos) as [[n|]|k]; cbn [rbind rmap option_map];
        [discriminate|exact IH|discriminate].
  Qed.

  (* ---------------------------------------------------------------- related states *)
  Inductive qrel : list node -> list node -> Prop :=
  | qrel_here e rest : cond e -> qrel (NElement (with_attrs e A') :: rest) (NElement (with_attrs e A) :: rest)
  | qrel_cons n q' q : qrel q' q -> qrel (n :: q') (n :: q).

  Definition srel (st' st : pstate) : Prop :=
    qrel (st_queue st') (st_queue st) /\ st_objects st' = st_objects st /\ st_warn st' = st_warn st.

  Inductive rrel : res pstate -> res pstate -> Prop :=
  | rr_err k : rrel (RErr k) (RErr k)
  | rr_ok st' st : srel st' st \/ st' = st -> rrel (ROk st') (ROk st).

  Lemma rrel_refl r : rrel r r.
  Proof. destruct r; constructor. right; reflexivity. Qed.

  Local Notation step' := (step cfg c u replay root).
  Local Notation run' := (run cfg c u replay root).

  Lemma start_rel st' st q B ns :
    srel st' st -> rrel (start cfg c u root st' q B ns) (start cfg c u root st q B ns).
  Proof.
    intros [Hq [Ho Hw]]. unfold start. rewrite Ho, Hw.
    inversion Hq as [e rest Hc E1 E2 | n Q' Q Hrel E1 E2].
    - (* the special node is on top *)
      cbn [with_attrs en_meta].
      destruct (is_some (assoc q (m_wrappers (en_meta e)))).
      + constructor. left. unfold srel, push. rewrite <- E1, <- E2, Ho, Hw. cbn [st_queue st_objects st_warn].
        split; [|split; reflexivity]. apply qrel_cons. apply qrel_here. exact Hc.
      + rewrite !element_child_parent.
        destruct (element_child cfg c u e q B ns (length (st_objects st)) None) as [[n e2]|k] eqn:Hch;
          cbn [rbind rmap reattr fst snd]; [|constructor].
        constructor. left. unfold srel. cbn [st_queue st_objects st_warn].
        split; [|split; reflexivity]. apply qrel_cons. apply qrel_here.
        apply (cond_meta e e2); [|exact Hc]. exact (element_child_meta cfg c u e q B ns _ None n e2 Hch).
    - (* the top node is the same on both sides *)
      destruct n as [en|m var ns0|m var ty fmt wr ns0 nl dv|var at_ ns0 pos|wq| |un].
      + destruct (is_some (assoc q (m_wrappers (en_meta en)))).
        * constructor. left. unfold srel, push. rewrite <- E1, <- E2, Ho, Hw. cbn [st_queue st_objects st_warn].
          split; [|split; reflexivity]. apply qrel_cons. apply qrel_cons. exact Hrel.
        * destruct (element_child cfg c u en q B ns (length (st_objects st)) None) as [[n e2]|k];
            cbn [rbind fst snd]; [|constructor].
          constructor. left. unfold srel. cbn [st_queue st_objects st_warn].
          split; [|split; reflexivity]. apply qrel_cons. apply qrel_cons. exact Hrel.
      + constructor.
      + constructor.
      + constructor. left. unfold srel, push. rewrite <- E1, <- E2, Ho, Hw. cbn [st_queue st_objects st_warn].
        split; [|split; reflexivity]. apply qrel_cons. apply qrel_cons. exact Hrel.
      + (* WrapperNode: its parent is the second entry *)
        inversion Hrel as [e rest Hc F1 F2 | n2 R' R Hrel2 F1 F2].
        * rewrite !element_child_parent.
          destruct (element_child cfg c u e q B ns (length (st_objects st)) (Some wq)) as [[n e2]|k] eqn:Hch;
            cbn [rbind rmap reattr fst snd]; [|constructor].
          constructor. left. unfold srel. cbn [st_queue st_objects st_warn].
          split; [|split; reflexivity]. apply qrel_cons. apply qrel_cons. apply qrel_here.
          apply (cond_meta e e2); [|exact Hc]. exact (element_child_meta cfg c u e q B ns _ (Some wq) n e2 Hch).
        * destruct n2 as [en| | | | | |]; try constructor.
          destruct (element_child cfg c u en q B ns (length (st_objects st)) (Some wq)) as [[n e2]|k];
            cbn [rbind fst snd]; [|constructor].
          constructor. left. unfold srel. cbn [st_queue st_objects st_warn].
          split; [|split; reflexivity]. apply qrel_cons. apply qrel_cons. apply qrel_cons. exact Hrel2.
      + constructor. left. unfold srel, push. rewrite <- E1, <- E2, Ho, Hw. cbn [st_queue st_objects st_warn].
        split; [|split; reflexivity]. apply qrel_cons. apply qrel_cons. exact Hrel.
      + constructor. left. unfold srel. cbn [st_queue st_objects st_warn].
        split; [|split; reflexivity]. apply qrel_cons. exact Hrel.
  Qed.

  Lemma pend_rel st' st q t tl :
    srel st' st -> rrel (pend cfg c replay st' q t tl) (pend cfg c replay st q t tl).
  Proof.
    intros [Hq [Ho Hw]]. unfold pend. rewrite Ho, Hw.
    inversion Hq as [e rest Hc E1 E2 | n Q' Q Hrel E1 E2].
    - (* the special node binds: the attribute is dropped, the states coincide *)
      rewrite (element_bind_cond e q t tl (st_objects st) Hc).
      unfold finish_end. rewrite Hw.
      destruct (element_bind cfg c (with_attrs e A) q t tl (st_objects st)) as [x|k]; cbn [rbind]; constructor.
      right. reflexivity.
    - assert (Hs : forall objs ws, rrel (ROk (mk_pstate Q' objs ws)) (ROk (mk_pstate Q objs ws))).
      { intros objs ws. constructor. left. unfold srel. cbn [st_queue st_objects st_warn]. auto. }
      assert (Hf : forall r, rrel (finish_end Q' st' r) (finish_end Q st r)).
      { intros r. unfold finish_end. rewrite Hw. destruct r as [x|k]; cbn [rbind]; [apply Hs|constructor]. }
      destruct n as [en|m var ns0|m var ty fmt wr ns0 nl dv|var at_ ns0 pos|wq| |un]; try apply Hf; try apply Hs.
      destruct (un_level un) as [|l].
      + destruct (union_bind cfg c replay un q t tl (st_objects st)); cbn [rbind]; [apply Hs|constructor].
      + constructor. left. unfold srel. cbn [st_queue st_objects st_warn].
        split; [|split; reflexivity]. apply qrel_cons. exact Hrel.
  Qed.

  Lemma step_rel st' st ev : srel st' st -> rrel (step' st' ev) (step' st ev).
  Proof.
    intros H. destruct ev as [q B ns|q t tl|p uri]; cbn [step].
    - apply start_rel; exact H.
    - apply pend_rel; exact H.
    - constructor. left. exact H.
  Qed.

  Lemma run_rel evs : forall st' st, srel st' st \/ st' = st -> rrel (run' st' evs) (run' st evs).
  Proof.
    induction evs as [|ev evs IH]; intros st' st H.
    - cbn [run]. constructor. exact H.
    - destruct H as [H| ->]; [|apply rrel_refl].
      cbn [run]. destruct (step_rel st' st ev H) as [k|s' s Hs]; cbn [rbind]; [constructor|].
      apply IH. exact Hs.
  Qed.

  Lemma finish_rel r' r : rrel r' r -> finish r' = finish r.
  Proof.
    intros [k|st' st [[_ [Ho Hw]]| ->]]; [reflexivity| |reflexivity].
    unfold finish. rewrite Ho, Hw. reflexivity.
  Qed.

  (* ---------------------------------------------------------------- the start event that carries the attribute *)
  Lemma node_set_elem X n0 e' : node_set_attrs X n0 = NElement e' -> exists e0, n0 = NElement e0 /\ e' = with_attrs e0 X.
  Proof. destruct n0; cbn [node_set_attrs]; try discriminate. intros H. injection H as <-. eauto. Qed.
  Lemma node_set_skip X n0 : node_set_attrs X n0 = NSkip -> n0 = NSkip.
  Proof. destruct n0; cbn [node_set_attrs]; try discriminate. reflexivity. Qed.

  Definition drops (st : pstate) : Prop :=
    match st_queue st with
    | NSkip :: _ => True
    | NElement en :: _ => cond en
    | _ => False
    end.

  Lemma element_child_inject en q ns pos w objs ws (tailq : list node) :
    forall r', element_child cfg c u en q A' ns pos w = ROk r' ->
    drops (mk_pstate (fst r' :: tailq) objs ws) ->
    exists r, element_child cfg c u en q A ns pos w = ROk r /\ snd r = snd r'
              /\ ((exists e0, fst r' = NElement (with_attrs e0 A') /\ fst r = NElement (with_attrs e0 A) /\ cond e0)
                  \/ fst r' = fst r).
  Proof.
    intros r' H Hd. unfold element_child in *.
    destruct (child_loop c u en q A' ns pos w (find_children (en_meta en) q)) as [[[n' en2]|]|k] eqn:Hl;
      cbn [rbind] in H; [| |discriminate].
    - injection H as <-. cbn [fst snd] in *.
      destruct (child_loop_some _ _ _ _ _ _ _ _ Hl) as [[un ->]|[n0 [-> Hl2]]].
      + exfalso. exact Hd.
      + rewrite Hl2. cbn [rbind]. eexists. split; [reflexivity|]. cbn [fst snd]. split; [reflexivity|].
        unfold drops in Hd. cbn [st_queue] in Hd.
        destruct n0 as [e0| | | | | |]; cbn [node_set_attrs] in *; try (right; reflexivity); try (exfalso; exact Hd).
        left. exists e0. repeat split; try reflexivity; apply Hd.
    - rewrite (child_loop_none _ _ _ _ _ _ Hl). cbn [rbind].
      destruct (fail_unknown_props cfg); [discriminate|]. injection H as <-.
      eexists. split; [reflexivity|]. cbn [fst snd]. split; [reflexivity|]. right. reflexivity.
  Qed.

  Lemma start_inject st0 q ns st1' :
    start cfg c u root st0 q A' ns = ROk st1' -> drops st1' ->
    exists st1, start cfg c u root st0 q A ns = ROk st1 /\ (srel st1' st1 \/ st1' = st1).
  Proof.
    unfold start. destruct (st_queue st0) as [|n Q] eqn:Hq.
    - (* root element *)
      unfold root_node. rewrite xsi_type_same, xsi_nil_same.
      destruct (xsi_type_of c A ns) as [xt|k]; cbn [rbind]; [|discriminate].
      set (clazz := match root with Some r => Some r | None => _ end).
      destruct clazz as [cl|]; cbn [rbind]; [|discriminate].
      destruct (fetch c u cl xt) as [meta|k]; cbn [rbind]; [|discriminate].
      intros H Hd. injection H as <-. eexists. split; [reflexivity|]. left.
      unfold drops, push in Hd. rewrite Hq in Hd. cbn [st_queue] in Hd.
      unfold srel, push. rewrite Hq. cbn [st_queue st_objects st_warn]. split; [|split; reflexivity].
      set (e0 := mk_enode meta A ns 0 (negb (negb (is_some xt) || str_eqb (m_qname meta) q))
                   (if negb (negb (is_some xt) || str_eqb (m_qname meta) q) then xt else None) (xsi_nil_of A) [] []).
      apply (qrel_here e0 []). exact Hd.
    - destruct n as [en|m var ns0|m var ty fmt wr ns0 nl dv|var at_ ns0 pos|wq| |un].
      + destruct (is_some (assoc q (m_wrappers (en_meta en)))).
        * intros H Hd. injection H as <-. exfalso. unfold drops, push in Hd. cbn [st_queue] in Hd. exact Hd.
        * destruct (element_child cfg c u en q A' ns (length (st_objects st0)) None) as [r'|k] eqn:Hc;
            cbn [rbind]; [|discriminate].
          intros H Hd. injection H as <-.
          destruct (element_child_inject en q ns _ None _ _ (NElement (snd r') :: Q) r' Hc Hd)
            as [r [Hr [Hs Hk]]].
          rewrite Hr. cbn [rbind]. eexists. split; [reflexivity|]. rewrite Hs.
          destruct Hk as [[e0 [E1 [E2 Hc0]]]|E].
          -- left. unfold srel. cbn [st_queue st_objects st_warn]. rewrite E1, E2.
             split; [|split; reflexivity]. apply qrel_here. exact Hc0.
          -- right. rewrite E. reflexivity.
      + discriminate.
      + discriminate.
      + intros H Hd. injection H as <-. exfalso. unfold drops, push in Hd. cbn [st_queue] in Hd. exact Hd.
      + destruct Q as [|n2 Q2]; [discriminate|]. destruct n2 as [en| | | | | |]; try discriminate.
        destruct (element_child cfg c u en q A' ns (length (st_objects st0)) (Some wq)) as [r'|k] eqn:Hc;
          cbn [rbind]; [|discriminate].
        intros H Hd. injection H as <-.
        destruct (element_child_inject en q ns _ (Some wq) _ _ (NWrapper wq :: NElement (snd r') :: Q2) r' Hc Hd)
          as [r [Hr [Hs Hk]]].
        rewrite Hr. cbn [rbind]. eexists. split; [reflexivity|]. rewrite Hs.
        destruct Hk as [[e0 [E1 [E2 Hc0]]]|E].
        * left. unfold srel. cbn [st_queue st_objects st_warn]. rewrite E1, E2.
          split; [|split; reflexivity]. apply qrel_here. exact Hc0.
        * right. rewrite E. reflexivity.
      + intros H Hd. injection H as <-. eexists. split; [reflexivity|]. right. reflexivity.
      + intros H Hd. injection H as <-. exfalso. unfold drops in Hd. cbn [st_queue] in Hd. exact Hd.
  Qed.

  Theorem attr_inject_run st0 q ns post st1' :
    start cfg c u root st0 q A' ns = ROk st1' -> drops st1' ->
    finish (run' st0 (PStart q A' ns :: post)) = finish (run' st0 (PStart q A ns :: post)).
  Proof.
    intros H Hd. destruct (start_inject st0 q ns st1' H Hd) as [st1 [H1 Hrel]].
    cbn [run step]. rewrite H, H1. cbn [rbind].
    apply finish_rel. apply run_rel. exact Hrel.
  Qed.
End AttrSim.

(* ---------------------------------------------------------------- in the vocabulary of the oracle *)
Lemma nth_split {A} (l : list A) i x : nth_error l i = Some x -> l = firstn i l ++ x :: skipn (S i) l.
Proof.
  revert l. induction i as [|i IH]; intros [|y l] H; try discriminate.
  - injection H as ->. reflexivity.
  - cbn [firstn skipn app]. f_equal. exact (IH l H).
Qed.

Lemma remove_nth_split {A} (l : list A) k x : nth_error l k = Some x -> remove_nth k l = firstn k l ++ skipn (S k) l.
Proof.
  revert l. induction k as [|k IH]; intros [|y l] H; try discriminate.
  - reflexivity.
  - cbn [remove_nth firstn skipn app]. f_equal. exact (IH l H).
Qed.

Lemma firstn_S_nth {A} (l : list A) i x : nth_error l i = Some x -> firstn (S i) l = firstn i l ++ [x].
Proof.
  revert l. induction i as [|i IH]; intros [|y l] H; try discriminate.
  - injection H as ->. reflexivity.
  - cbn [firstn app]. f_equal. exact (IH l H).
Qed.

Lemma run_app_gen cfg c u replay root st x y :
  run cfg c u replay root st (x ++ y) = rbind (run cfg c u replay root st x) (fun st' => run cfg c u replay root st' y).
Proof. apply run_app. Qed.

Theorem undo_attr_transparent : forall n cfg c u root d' i k d,
  admissible_step n cfg c u root d' (UndoAttr i k) = true ->
  undo_step d' (UndoAttr i k) = Some d ->
  parse_n n cfg c u root d' = parse_n n cfg c u root d.
Proof.
  intros n cfg c u root d' i k d Ha Hu.
  cbn [admissible_step] in Ha. cbn [undo_step] in Hu.
  destruct (nth_error d' i) as [[q attrs ns| |]|] eqn:Hi; try discriminate.
  destruct (nth_error attrs k) as [[a v]|] eqn:Hk; [|discriminate].
  destruct (run_n n cfg c u root (firstn (S i) d')) as [st1'|] eqn:Hrun; [|discriminate].
  assert (Hlt : (k <? length attrs)%nat = true).
  { apply Nat.ltb_lt. apply nth_error_Some. rewrite Hk. discriminate. }
  rewrite Hlt in Hu. injection Hu as <-.
  unfold drops_attr in Ha.
  apply andb_true_iff in Ha as [Ha Hd]. apply andb_true_iff in Ha as [Hty Hnil].
  apply negb_true_iff in Hty. apply negb_true_iff in Hnil.
  rewrite (remove_nth_split attrs k (a, v) Hk).
  rewrite (nth_split d' i _ Hi) at 1.
  rewrite (nth_split attrs k _ Hk) at 1.
  rewrite !parse_n_unfold, !run_app_gen.
  unfold run_n in Hrun. rewrite (firstn_S_nth d' i _ Hi), run_app_gen in Hrun.
  destruct (run cfg c u (replay_n n c u) root init_state (firstn i d')) as [st0|k0]; cbn [rbind] in *; [|discriminate].
  cbn [run] in Hrun.
  destruct (step cfg c u (replay_n n c u) root st0 (PStart q attrs ns)) as [s1|k1] eqn:Hs; cbn [rbind] in Hrun; [|discriminate].
  injection Hrun as ->. cbn [step] in Hs.
  rewrite (nth_split attrs k _ Hk) in Hs.
  apply (attr_inject_run cfg c u (replay_n n c u) root a v (firstn k attrs) (skipn (S k) attrs) Hty Hnil
           st0 q ns (skipn (S i) d') st1' Hs).
  unfold drops. destruct (st_queue st1') as [|nd Q]; [discriminate|].
  destruct nd as [en| | | | | |]; try discriminate; [|exact I].
  apply andb_true_iff in Hd as [Hd Hf]. apply andb_true_iff in Hd as [Hun Hnc].
  unfold cond. repeat split; try assumption.
  destruct (fail_unknown_attrs cfg); [|reflexivity]. cbn [negb orb] in Hf. rewrite Hf. reflexivity.
Qed.

(* any admissible injection set: the closure used by the oracle *)
Theorem undo_admissible_transparent : forall n cfg c u root steps d' d,
  undo_admissible n cfg c u root d' steps = Some d ->
  parse_n n cfg c u root d' = parse_n n cfg c u root d.
Proof.
  intros n cfg c u root steps. induction steps as [|s rest IH]; intros d' d H; cbn [undo_admissible] in H.
  - injection H as ->. reflexivity.
  - destruct (undo_step d' s) as [d1|] eqn:Hu; [|discriminate].
    destruct (admissible_step n cfg c u root d' s) eqn:Ha; [|discriminate].
    rewrite <- (IH d1 d H).
    destruct s as [i k|i k].
    + exact (undo_sub_transparent n cfg c u root d' i k d1 Ha Hu).
    + exact (undo_attr_transparent n cfg c u root d' i k d1 Ha Hu).
Qed.
