(* Proofs/ContextLemmas.v — failed calls, the namespace memo, the parser's recorder. *)
From Coq Require Import NArith List Bool Lia.
From XV Require Import Base.Str Base.Eqb Model.Context Proofs.ContextEq Proofs.ContextInv Proofs.ContextHist.
Import ListNotations.
Open Scope N_scope.

(* a build that fails stores nothing *)
Lemma failed_build_stores_nothing w x c pns x' t :
  ctx_build w x c pns = (x', None, t) -> x' = x.
Proof.
  unfold ctx_build. destruct (cache_get (cache x) c); [intros H; inversion H|].
  destruct (ideal_build w c pns); intros H; inversion H; reflexivity.
Qed.

(* whatever a call answers — in particular when it raises — the cache keeps
   holding exactly the canonical metadata and the index stays current *)
Lemma failed_call_leaves_cache_consistent w canon x c x' k t :
  0 < w_modules w -> Inv w canon x -> exec_call w x c = (x', AErr k, t) ->
  canon_ok canon t -> quiet t = true -> Inv w canon x'.
Proof. intros Hw I E Hc Q. eapply exec_call_sound; eauto. Qed.

(* the same for a whole client operation that ends in an exception *)
Lemma failed_operation_leaves_cache_consistent w canon x s x' k m t :
  0 < w_modules w -> Inv w canon x -> run_script w x s = (x', RErr k m, t) ->
  canon_ok canon t -> quiet t = true -> Inv w canon x'.
Proof. intros Hw I E Hc Q. eapply run_script_sound; eauto. Qed.

(* ---- XmlVar.match_namespace: the memo stores a function of its key ---- *)
Definition memo_ok (nss : list str) (m : memo) : Prop :=
  forall q b, memo_get m q = Some b -> b = match_namespace_pure nss q.

Lemma memo_get_app m q q' b :
  memo_get (m ++ [(q', b)]) q =
  match memo_get m q with Some v => Some v | None => if str_eqb q' q then Some b else None end.
Proof.
  induction m as [|[k v] m IH]; cbn; [reflexivity|]. destruct (str_eqb k q); auto.
Qed.

Lemma memo_is_pure nss m q :
  memo_ok nss m ->
  snd (match_namespace nss m q) = match_namespace_pure nss q /\ memo_ok nss (fst (match_namespace nss m q)).
Proof.
  intros H. unfold match_namespace. destruct (memo_get m q) as [b|] eqn:G; cbn.
  - split; [apply H; exact G|exact H].
  - split; [reflexivity|]. intros q' b'. rewrite memo_get_app.
    destruct (memo_get m q') eqn:G'.
    + intros E; inversion E; subst. apply H; exact G'.
    + destruct (str_eqb_spec q q') as [->|_]; [|discriminate]. intros E; inversion E; reflexivity.
Qed.

Lemma memo_ok_nil nss : memo_ok nss [].
Proof. intros q b H. discriminate. Qed.

(* any sequence of queries against a var that starts without memo *)
Fixpoint memo_run (nss : list str) (m : memo) (qs : list str) : memo * list bool :=
  match qs with
  | [] => (m, [])
  | q :: r => let '(m1, b) := match_namespace nss m q in
              let '(m2, bs) := memo_run nss m1 r in (m2, b :: bs)
  end.

Lemma memo_run_pure nss qs : forall m, memo_ok nss m ->
  snd (memo_run nss m qs) = map (match_namespace_pure nss) qs.
Proof.
  induction qs as [|q qs IH]; intros m H; cbn; [reflexivity|].
  destruct (match_namespace nss m q) as [m1 b] eqn:E.
  destruct (memo_is_pure nss m q H) as [Hb Hm]. rewrite E in Hb, Hm. cbn in Hb, Hm.
  specialize (IH m1 Hm). destruct (memo_run nss m1 qs) as [m2 bs]. cbn in *. subst. reflexivity.
Qed.

(* ---- the parser's ns_map recorder is write-only ---- *)
Definition set_rec (x : ctx) (r : list (ostr * str)) : ctx :=
  mkCtx (cache x) (xsi x) (seen x) r (built_n x) (unsup x).
Definition lift3 {A} (r : list (ostr * str)) (p : ctx * A * trace) : ctx * A * trace :=
  let '(x, a, t) := p in (set_rec x r, a, t).

Lemma rec_build w x r c p : ctx_build w (set_rec x r) c p = lift3 r (ctx_build w x c p).
Proof.
  unfold ctx_build. cbn [cache set_rec xsi seen rec built_n].
  destruct (cache_get (cache x) c); [reflexivity|]. destruct (ideal_build w c p); reflexivity.
Qed.

Lemma rec_build_xsi w x r : ctx_build_xsi w (set_rec x r) = set_rec (ctx_build_xsi w x) r.
Proof. unfold ctx_build_xsi. cbn [seen set_rec]. destruct (N.eqb (w_modules w) (seen x)); reflexivity. Qed.

Lemma rec_find_types w x r q : ctx_find_types w (set_rec x r) q = lift3 r (ctx_find_types w x q).
Proof.
  unfold ctx_find_types. destruct (is_datatype_qname q); [reflexivity|]. rewrite rec_build_xsi. reflexivity.
Qed.

Lemma rec_find_type w x r q : ctx_find_type w (set_rec x r) q = lift3 r (ctx_find_type w x q).
Proof.
  unfold ctx_find_type. rewrite rec_find_types. destruct (ctx_find_types w x q) as [[x1 l] t]. reflexivity.
Qed.

Lemma rec_find_subclass w x r c q : ctx_find_subclass w (set_rec x r) c q = lift3 r (ctx_find_subclass w x c q).
Proof.
  unfold ctx_find_subclass. rewrite rec_find_types. destruct (ctx_find_types w x q) as [[x1 l] t]. reflexivity.
Qed.

Lemma rec_fetch w x r c p xt : ctx_fetch w (set_rec x r) c p xt = lift3 r (ctx_fetch w x c p xt).
Proof.
  unfold ctx_fetch. rewrite rec_build. destruct (ctx_build w x c p) as [[x1 om] t1]. cbn [lift3].
  destruct om as [m|]; [|reflexivity]. destruct (truthy xt) as [q|]; [|reflexivity].
  destruct (ostr_eqb (m_tq m) (Some q)); [reflexivity|].
  rewrite rec_find_subclass. destruct (ctx_find_subclass w x1 c q) as [[x2 sub] t2]. cbn [lift3].
  destruct sub as [s|]; [|reflexivity].
  rewrite rec_build. destruct (ctx_build w x2 s p) as [[x3 om3] t3]. reflexivity.
Qed.

Lemma rec_lnm w x r names c :
  ctx_local_names_match w (set_rec x r) names c = lift3 r (ctx_local_names_match w x names c).
Proof.
  unfold ctx_local_names_match. cbn [unsup set_rec]. destruct (memN c (unsup x)); [reflexivity|].
  rewrite rec_build. destruct (ctx_build w x c None) as [[x1 om] t1]. cbn [lift3].
  destruct om; [reflexivity|]. destruct (find_class w c) as [cd|]; reflexivity.
Qed.

Lemma rec_scan_types l : forall w x r names,
  scan_types w (set_rec x r) names l = lift3 r (scan_types w x names l).
Proof.
  induction l as [|c l IH]; intros; cbn [scan_types]; [reflexivity|].
  rewrite rec_lnm. destruct (ctx_local_names_match w x names c) as [[x1 ok] t1]. cbn [lift3].
  rewrite IH. destruct (scan_types w x1 names l) as [[x2 cs] t2]. reflexivity.
Qed.

Lemma rec_find_by_fields w x r names :
  ctx_find_by_fields w (set_rec x r) names = lift3 r (ctx_find_by_fields w x names).
Proof.
  unfold ctx_find_by_fields. rewrite rec_build_xsi. cbn [xsi set_rec built_n].
  rewrite rec_scan_types. destruct (scan_types w (ctx_build_xsi w x) names _) as [[x1 cs] t]. reflexivity.
Qed.

Lemma rec_build_rec fuel : forall nested w x r c p,
  ctx_build_rec fuel nested w (set_rec x r) c p = lift3 r (ctx_build_rec fuel nested w x c p).
Proof.
  induction fuel as [|f IH]; intros; [reflexivity|]. rewrite !ctx_build_rec_S. cbn [cache set_rec].
  destruct (cache_get (cache x) c); [reflexivity|]. rewrite rec_build.
  destruct (ctx_build w x c p) as [[x1 om] t1]. cbn [lift3]. destruct om as [m|]; [|reflexivity].
  generalize (m_vars m) as vars. generalize true as ok. generalize t1 as ta. generalize x1 as xa.
  intros xa ta ok vars. revert xa ta ok. induction vars as [|v vars IHv]; intros xa ta ok; [reflexivity|].
  cbn [fold_left]. unfold rec_step at 2 4. destruct ok.
  - destruct (v_type v) as [|tc|]; try apply IHv.
    rewrite IH. destruct (ctx_build_rec f true w xa tc (m_ns m)) as [[xb ok'] tb]. cbn [lift3]. apply IHv.
  - apply IHv.
Qed.

Lemma rec_exec_call w x r c : exists r', exec_call w (set_rec x r) c = lift3 r' (exec_call w x c).
Proof.
  destruct c as [c pns|c pns xt|q|q|c q|names|names c|c pns| | |p u]; unfold exec_call.
  - exists r. rewrite rec_build. destruct (ctx_build w x c pns) as [[x1 om] t1]. reflexivity.
  - exists r. rewrite rec_fetch. destruct (ctx_fetch w x c pns xt) as [[x1 om] t1]. reflexivity.
  - exists r. rewrite rec_find_type. destruct (ctx_find_type w x q) as [[x1 om] t1]. reflexivity.
  - exists r. rewrite rec_find_types. destruct (ctx_find_types w x q) as [[x1 om] t1]. reflexivity.
  - exists r. rewrite rec_find_subclass. destruct (ctx_find_subclass w x c q) as [[x1 om] t1]. reflexivity.
  - exists r. rewrite rec_find_by_fields. destruct (ctx_find_by_fields w x names) as [[x1 oc] t1]. reflexivity.
  - exists r. rewrite rec_lnm. destruct (ctx_local_names_match w x names c) as [[x1 b] t1]. reflexivity.
  - exists r. rewrite rec_build_rec. destruct (ctx_build_rec _ false w x c pns) as [[x1 ok] t1]. reflexivity.
  - exists r. rewrite rec_build_xsi. reflexivity.
  - exists r. reflexivity.
  - unfold ctx_register. cbn [rec set_rec cache xsi seen built_n].
    destruct (existsb (fun e => ostr_eqb (fst e) p) r), (existsb (fun e => ostr_eqb (fst e) p) (rec x));
      eexists; unfold lift3, set_rec; cbn; reflexivity.
Qed.

Lemma rec_run_script s : forall w x r, exists r', run_script w (set_rec x r) s = lift3 r' (run_script w x s).
Proof.
  induction s as [r0|c k IH]; intros w x r; cbn [run_script].
  - exists r. reflexivity.
  - destruct (rec_exec_call w x r c) as [r1 E1]. rewrite E1.
    destruct (exec_call w x c) as [[x1 a] t1]. cbn [lift3].
    destruct (IH a w x1 r1) as [r2 E2]. rewrite E2.
    destruct (run_script w x1 (k a)) as [[x2 res] t2]. exists r2. reflexivity.
Qed.

(* no result and no context access of any client depends on what the recorder holds *)
Theorem recorder_not_read w x r s :
  result w (set_rec x r) s = result w x s /\ snd (run_script w (set_rec x r) s) = snd (run_script w x s).
Proof.
  unfold result. destruct (rec_run_script s w x r) as [r' E]. rewrite E.
  destruct (run_script w x s) as [[x1 res] t]. split; reflexivity.
Qed.
