(* Proofs/DatesOrder.v — ordering/equality of dateTime values against the timeline:
   refutations (the comparison is computed from an approximate float "duration"). *)
From Coq Require Import NArith ZArith List Bool Lia PrimFloat.
From XV Require Import Base.Str Model.Dates Model.DatesCorr Spec.XsdDates.
Import ListNotations.
Open Scope Z_scope.

Definition dt (y m d h mi s f : Z) (o : option Z) := mk_xdatetime y m d h mi s f o.

(* months are taken as 2 629 743 s: a later instant compares as earlier *)
Lemma datetime_order_refuted_month_length :
  exists a b, valid_datetime_value a = true /\ valid_datetime_value b = true /\
              datetime_lt a b = true /\ dt_instant b < dt_instant a.
Proof.
  exists (dt 2001 2 28 23 0 0 0 (Some 0)), (dt 2001 3 1 0 30 0 0 (Some 120)).
  vm_compute. repeat split; reflexivity.
Qed.

(* nanoseconds vanish in a binary64 holding ~6e10 seconds *)
Lemma datetime_eq_refuted_nanoseconds :
  exists a b, valid_datetime_value a = true /\ valid_datetime_value b = true /\
              datetime_eq a b = true /\ dt_instant a <> dt_instant b.
Proof.
  exists (dt 2001 1 1 0 0 0 1 None), (dt 2001 1 1 0 0 0 2 None).
  vm_compute. repeat split; try reflexivity. discriminate.
Qed.

(* for negative years the whole sum is negated, reversing month/day/time order *)
Lemma datetime_order_refuted_negative_year :
  exists a b, valid_datetime_value a = true /\ valid_datetime_value b = true /\
              datetime_lt a b = true /\ dt_instant b < dt_instant a.
Proof.
  exists (dt (-2751) 7 28 11 47 20 0 None), (dt (-2751) 7 27 11 47 20 0 None).
  vm_compute. repeat split; reflexivity.
Qed.

(* 24:00:00 is the first instant of the next day *)
Lemma datetime_eq_refuted_end_of_day :
  exists a b, valid_datetime_value a = true /\ valid_datetime_value b = true /\
              dt_instant a = dt_instant b /\ datetime_eq a b = false.
Proof.
  exists (dt 2001 1 31 24 0 0 0 None), (dt 2001 2 1 0 0 0 0 None).
  vm_compute. repeat split; reflexivity.
Qed.

(* the full statement, kept visible: it is false of the faithful model *)
Definition datetime_order_agrees_statement : Prop :=
  forall a b, valid_datetime_value a = true -> valid_datetime_value b = true ->
    datetime_lt a b = (dt_instant a <? dt_instant b) /\ datetime_eq a b = (dt_instant a =? dt_instant b).

Theorem datetime_order_agrees_refuted : ~ datetime_order_agrees_statement.
Proof.
  intros H. destruct datetime_order_refuted_month_length as [a [b [Va [Vb [L I]]]]].
  destruct (H a b Va Vb) as [E _]. rewrite L in E. symmetry in E. apply Z.ltb_lt in E. lia.
Qed.

(* ---- xs:time: the same instant written with two offsets ---------------------- *)
Definition tm (h mi s f : Z) (o : option Z) := mk_xtime h mi s f o.
Definition t_instant (x : xtime) : Z := time_ns (t_hour x) (t_minute x) (t_second x) (t_frac x) (t_offset x).

(* hours/minutes/seconds, the fraction and the offset are added in floating point one after the
   other: two spellings of one instant round differently *)
Lemma time_eq_refuted_offsets :
  exists a b, valid_time_value a = true /\ valid_time_value b = true /\
              t_instant a = t_instant b /\ time_eq a b = false.
Proof.
  exists (tm 9 7 31 817077202 (Some 45)), (tm 8 22 31 817077202 (Some 0)).
  vm_compute. repeat split; reflexivity.
Qed.

Definition time_order_agrees_statement : Prop :=
  forall a b, valid_time_value a = true -> valid_time_value b = true ->
    time_lt a b = (t_instant a <? t_instant b) /\ time_eq a b = (t_instant a =? t_instant b).

Theorem time_order_agrees_refuted : ~ time_order_agrees_statement.
Proof.
  intros H. destruct time_eq_refuted_offsets as [a [b [Va [Vb [I E]]]]].
  destruct (H a b Va Vb) as [_ Q]. rewrite E, I, Z.eqb_refl in Q. discriminate.
Qed.
