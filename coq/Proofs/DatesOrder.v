(* Proofs/DatesOrder.v — ordering/equality of xs:dateTime and xs:time values agree with the timeline.

   History: on the pinned tree `_cmp` compared the float `duration` properties (every month 2 629 743 s,
   every year 31 556 926 s, the whole sum negated for negative years, nanoseconds lost in a binary64):
   the statements below were REFUTED of the faithful model (findings C06-F2, C06-F3).  After the repair
   (`fix: compare XmlTime and XmlDateTime on the exact timeline`) `_cmp` compares `_timeline`, an exact
   integer; the same statements are now theorems.  The old witnesses are kept as regression lemmas. *)
From Coq Require Import NArith ZArith List Bool Lia ZifyBool PrimFloat.
From XV Require Import Base.Str Gen.DatesTables Model.Dates Model.DatesCorr Spec.XsdDates Proofs.DatesCal.
Import ListNotations.
Open Scope Z_scope.
Ltac Zify.zify_post_hook ::= Z.to_euclidean_division_equations.

Definition dt (y m d h mi s f : Z) (o : option Z) := mk_xdatetime y m d h mi s f o.
Definition tm (h mi s f : Z) (o : option Z) := mk_xtime h mi s f o.
Definition t_instant (x : xtime) : Z := time_ns (t_hour x) (t_minute x) (t_second x) (t_frac x) (t_offset x).

(* ---- the day number ------------------------------------------------------------------------ *)
(* `date_ordinal` (days before the year + days before the month + day, CPython's _ymd2ord extended to
   every year) against the specification's era arithmetic: they differ by a constant, for EVERY year. *)
Ltac close_consts :=
  repeat match goal with
  | |- context [sum_z ?l] => let v := eval vm_compute in (sum_z l) in change (sum_z l) with v
  | |- context [Z.ltb (Zpos ?a) (Zpos ?b)] =>
      let v := eval vm_compute in (Z.ltb (Zpos a) (Zpos b)) in change (Z.ltb (Zpos a) (Zpos b)) with v
  | |- context [Z.leb (Zpos ?a) (Zpos ?b)] =>
      let v := eval vm_compute in (Z.leb (Zpos a) (Zpos b)) in change (Z.leb (Zpos a) (Zpos b)) with v
  end; cbv beta iota zeta.

Ltac leap_cases y :=
  destruct (y mod 4 =? 0) eqn:?E4; destruct (y mod 100 =? 0) eqn:?E100;
  destruct (y mod 400 =? 0) eqn:?E400; cbn [andb orb negb]; cbv beta iota zeta.

Lemma date_ordinal_spec y m d :
  1 <= m <= 12 -> date_ordinal y m d = days_from_civil y m d - 305.
Proof.
  intros Hm.
  assert (C : m = 1 \/ m = 2 \/ m = 3 \/ m = 4 \/ m = 5 \/ m = 6 \/ m = 7 \/ m = 8 \/ m = 9
              \/ m = 10 \/ m = 11 \/ m = 12) by lia.
  unfold date_ordinal, days_from_civil. rewrite isleap_spec. unfold spec_leap.
  destruct (m <? 0) eqn:Eneg; [lia|]. cbv beta iota zeta.
  repeat (destruct C as [C|C]); subst m; close_consts; leap_cases y; lia.
Qed.

(* ---- the constants of the regenerated table are the exact integers the timeline needs --------- *)
Lemma K_DAY_int : K_DAY = PI 86400.      Proof. reflexivity. Qed.
Lemma K_HOUR_int : K_HOUR = PI 3600.     Proof. reflexivity. Qed.
Lemma K_MINUTE_int : K_MINUTE = PI 60.   Proof. reflexivity. Qed.
Lemma K_OFFSET_int : K_OFFSET = PI (-60). Proof. reflexivity. Qed.

Lemma off_or_0_off0 o : off_or_0 o = off0 o.
Proof. destruct o; reflexivity. Qed.

Lemma timeline_of_int days h mi s f o :
  timeline_of days h mi s f o = PI (((days * 86400 + h * 3600 + mi * 60 + s) - off0 o * 60) * 1000000000 + f).
Proof.
  unfold timeline_of. rewrite K_DAY_int, K_HOUR_int, K_MINUTE_int, K_OFFSET_int, off_or_0_off0.
  cbn [pn_mul pn_add]. f_equal. lia.
Qed.

Lemma time_timeline_spec x : time_timeline x = PI (t_instant x).
Proof. unfold time_timeline, t_instant, time_ns. rewrite timeline_of_int. f_equal; lia. Qed.

Lemma datetime_timeline_spec x :
  1 <= dt_month x <= 12 -> datetime_timeline x = PI (dt_instant x - 305 * 86400 * 1000000000).
Proof.
  intros Hm. unfold datetime_timeline, dt_instant, instant_ns.
  rewrite timeline_of_int, date_ordinal_spec by exact Hm. f_equal; lia.
Qed.

Lemma valid_datetime_month x : valid_datetime_value x = true -> 1 <= dt_month x <= 12.
Proof.
  unfold valid_datetime_value, real_date. intros H.
  repeat (apply andb_prop in H; destruct H as [H ?]). lia.
Qed.

(* ---- the statements -------------------------------------------------------------------------- *)
Definition datetime_order_agrees_statement : Prop :=
  forall a b, valid_datetime_value a = true -> valid_datetime_value b = true ->
    datetime_lt a b = (dt_instant a <? dt_instant b) /\ datetime_eq a b = (dt_instant a =? dt_instant b).

Theorem datetime_order_agrees : datetime_order_agrees_statement.
Proof.
  intros a b Va Vb. unfold datetime_lt, datetime_eq.
  rewrite !datetime_timeline_spec by (apply valid_datetime_month; assumption).
  cbn [pn_ltb pn_eqb]. split.
  - destruct (dt_instant a <? dt_instant b) eqn:E; lia.
  - destruct (dt_instant a =? dt_instant b) eqn:E; lia.
Qed.

Definition time_order_agrees_statement : Prop :=
  forall a b, valid_time_value a = true -> valid_time_value b = true ->
    time_lt a b = (t_instant a <? t_instant b) /\ time_eq a b = (t_instant a =? t_instant b).

Theorem time_order_agrees : time_order_agrees_statement.
Proof.
  intros a b _ _. unfold time_lt, time_eq. rewrite !time_timeline_spec. cbn [pn_ltb pn_eqb]. split; reflexivity.
Qed.

(* the six rich comparisons are derived from lt and eq exactly as the oracle derives them *)
Corollary datetime_cmp6_agrees a b :
  valid_datetime_value a = true -> valid_datetime_value b = true ->
  cmp6 (datetime_lt a b) (datetime_eq a b) = cmp6Z (dt_instant a) (dt_instant b).
Proof. intros Va Vb. destruct (datetime_order_agrees a b Va Vb) as [-> ->]. reflexivity. Qed.

Corollary time_cmp6_agrees a b :
  valid_time_value a = true -> valid_time_value b = true ->
  cmp6 (time_lt a b) (time_eq a b) = cmp6Z (t_instant a) (t_instant b).
Proof. intros Va Vb. destruct (time_order_agrees a b Va Vb) as [-> ->]. reflexivity. Qed.

(* ---- the former witnesses, now regression lemmas ---------------------------------------------- *)
(* month length: 2001-02-28T23:00:00Z is later than 2001-03-01T00:30:00+02:00 *)
Example datetime_order_month_length :
  let a := dt 2001 2 28 23 0 0 0 (Some 0) in let b := dt 2001 3 1 0 30 0 0 (Some 120) in
  valid_datetime_value a = true /\ valid_datetime_value b = true /\ datetime_lt b a = true /\ datetime_lt a b = false.
Proof. vm_compute. repeat split; reflexivity. Qed.
(* nanoseconds *)
Example datetime_eq_nanoseconds :
  datetime_eq (dt 2001 1 1 0 0 0 1 None) (dt 2001 1 1 0 0 0 2 None) = false.
Proof. vm_compute. reflexivity. Qed.
(* negative years *)
Example datetime_order_negative_year :
  datetime_lt (dt (-2751) 7 27 11 47 20 0 None) (dt (-2751) 7 28 11 47 20 0 None) = true.
Proof. vm_compute. reflexivity. Qed.
(* 24:00:00 is the first instant of the next day *)
Example datetime_eq_end_of_day :
  datetime_eq (dt 2001 1 31 24 0 0 0 None) (dt 2001 2 1 0 0 0 0 None) = true.
Proof. vm_compute. reflexivity. Qed.
(* one instant written with two offsets *)
Example time_eq_offsets :
  time_eq (tm 9 7 31 817077202 (Some 45)) (tm 8 22 31 817077202 (Some 0)) = true.
Proof. vm_compute. reflexivity. Qed.

(* ---- sanity of the specification's timeline: consecutive calendar days are consecutive numbers -- *)
Definition next_day (y m d : Z) : Z * Z * Z :=
  if d <? spec_month_days y m then (y, m, d + 1)
  else if m <? 12 then (y, m + 1, 1) else (y + 1, 1, 1).

Ltac close_add :=
  repeat match goal with
  | |- context [Zpos ?a + Zpos ?b] =>
      let v := eval vm_compute in (Zpos a + Zpos b) in change (Zpos a + Zpos b) with v
  end.

Lemma dfc_day_step y m d : days_from_civil y m (d + 1) = days_from_civil y m d + 1.
Proof. unfold days_from_civil. lia. Qed.

Lemma dfc_month_step y m :
  1 <= m < 12 -> days_from_civil y (m + 1) 1 = days_from_civil y m (spec_month_days y m) + 1.
Proof.
  intros Hm.
  assert (C : m = 1 \/ m = 2 \/ m = 3 \/ m = 4 \/ m = 5 \/ m = 6 \/ m = 7 \/ m = 8 \/ m = 9
              \/ m = 10 \/ m = 11) by lia.
  repeat (destruct C as [C|C]); subst m; close_add; cbn [spec_month_days]; unfold days_from_civil;
    close_consts; try (unfold spec_leap; leap_cases y); lia.
Qed.

Lemma dfc_year_step y : days_from_civil (y + 1) 1 1 = days_from_civil y 12 31 + 1.
Proof. unfold days_from_civil. close_consts. lia. Qed.

Lemma spec_month_days_pos y m : 1 <= m <= 12 -> 28 <= spec_month_days y m <= 31.
Proof.
  intros Hm.
  assert (C : m = 1 \/ m = 2 \/ m = 3 \/ m = 4 \/ m = 5 \/ m = 6 \/ m = 7 \/ m = 8 \/ m = 9
              \/ m = 10 \/ m = 11 \/ m = 12) by lia.
  repeat (destruct C as [C|C]); subst m; cbn [spec_month_days]; try destruct (spec_leap y); lia.
Qed.

Lemma days_from_civil_next y m d :
  real_date y m d = true ->
  let '(y', m', d') := next_day y m d in
  real_date y' m' d' = true /\ days_from_civil y' m' d' = days_from_civil y m d + 1.
Proof.
  unfold real_date. intros H.
  repeat (apply andb_prop in H; destruct H as [H ?]).
  assert (Hm : 1 <= m <= 12) by lia.
  unfold next_day.
  destruct (d <? spec_month_days y m) eqn:Ed.
  - split; [| apply dfc_day_step]. unfold real_date. lia.
  - assert (Hd : d = spec_month_days y m) by lia. destruct (m <? 12) eqn:Em.
    + split.
      * unfold real_date. pose proof (spec_month_days_pos y (m + 1) ltac:(lia)). lia.
      * rewrite Hd. apply dfc_month_step. lia.
    + assert (m = 12) by lia. subst m. cbn [spec_month_days] in Hd. subst d. split.
      * reflexivity.
      * apply dfc_year_step.
Qed.
