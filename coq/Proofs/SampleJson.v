(* Proofs/SampleJson.v — the JSON analogue of samples_fit: DictMapper + reduce_classes give every key of
   every sample object a slot (a list slot for arrays, an optional one for nulls), and keys an object lacks
   are optional.  Hypothesis: the samples are what json.load can return (distinct keys per object; the top
   level is an object or an array of objects). *)
From Coq Require Import NArith ZArith List Bool Lia Permutation.
From XV Require Import Base.Str Base.Eqb Gen.SampleTables Model.Sample Model.SampleCorr
  Proofs.SampleBase Proofs.SampleReduce Proofs.SampleBuild Proofs.SampleFit.
Import ListNotations.
Open Scope N_scope.

(* ------------------------------------------------------------------ induction on json *)
Section JsonInd.
  Variable P : json -> Prop.
  Hypothesis HN : P JNull.
  Hypothesis HB : forall b, P (JBool b).
  Hypothesis HI : forall z, P (JInt z).
  Hypothesis HF : forall f, P (JFloat f).
  Hypothesis HS : forall s, P (JStr s).
  Hypothesis HL : forall l, Forall P l -> P (JList l).
  Hypothesis HO : forall fs, Forall (fun kv => P (snd kv)) fs -> P (JObj fs).
  Fixpoint json_ind' (v : json) : P v :=
    match v with
    | JNull => HN | JBool b => HB b | JInt z => HI z | JFloat f => HF f | JStr s => HS s
    | JList l => HL l ((fix go (l : list json) : Forall P l :=
                          match l with [] => Forall_nil P | x :: r => Forall_cons x (json_ind' x) (go r) end) l)
    | JObj fs => HO fs ((fix go (fs : list (str * json)) : Forall (fun kv => P (snd kv)) fs :=
                           match fs with
                           | [] => Forall_nil _
                           | (k, x) :: r => Forall_cons (k, x) (json_ind' x) (go r)
                           end) fs)
    end.
End JsonInd.

(* ------------------------------------------------------------------ the loops of dict_attribute, named *)
Section Loops.
  Variable rec : list attr * list klass -> str -> json -> list attr * list klass.
  Variable name : str.
  Fixpoint each_loop (l : list json) (st : list attr * list klass) {struct l} : list attr * list klass :=
    match l with
    | [] => st
    | x :: r => let '(attrs, inner) := rec st name x in each_loop r (set_last_max attrs, inner)
    end.
  Fixpoint fields_loop (fs : list (str * json)) (st : list attr * list klass) {struct fs} : list attr * list klass :=
    match fs with
    | [] => st
    | (k, x) :: r => fields_loop r (rec st k x)
    end.
End Loops.

Lemma fields_loop_fold rec fs : forall st,
  fields_loop rec fs st = fold_left (fun st kv => rec st (fst kv) (snd kv)) fs st.
Proof. induction fs as [|[k x] r IH]; intros st; cbn; [reflexivity|apply IH]. Qed.

Lemma dict_attribute_list cv st name l :
  dict_attribute cv st name (JList l) =
  match l with
  | [] => let '(attrs, inner) := st in
          (set_last_max (build_attr attrs name (build_attr_type_json cv name JNull) None tag_ELEMENT 0 true), inner)
  | _ => each_loop (dict_attribute cv) name l st
  end.
Proof. destruct l; reflexivity. Qed.

Lemma dict_attribute_obj cv attrs inner name fs :
  dict_attribute cv (attrs, inner) name (JObj fs) =
  (build_attr attrs name (mk_atype name false true) None tag_ELEMENT 0 false, inner ++ [dict_class cv name fs]).
Proof.
  cbn [dict_attribute]. unfold dict_class. rewrite <- fields_loop_fold.
  change ((fix fields (fs0 : list (str * json)) (st : list attr * list klass) {struct fs0} : list attr * list klass :=
             match fs0 with [] => st | (k, x) :: r => fields r (dict_attribute cv st k x) end) fs ([], []))
    with (fields_loop (dict_attribute cv) fs ([], [])).
  destruct (fields_loop (dict_attribute cv) fs ([], [])) as [ia ii]. reflexivity.
Qed.

Definition is_jlist (v : json) : bool := match v with JList _ => true | _ => false end.
Definition is_leaf (v : json) : bool := match v with JList _ | JObj _ => false | _ => true end.

Lemma dict_attribute_leaf cv attrs inner name v : is_leaf v = true ->
  dict_attribute cv (attrs, inner) name v =
  (build_attr attrs name (build_attr_type_json cv name v) None tag_ELEMENT 0 (is_jnull v), inner).
Proof. destruct v; cbn; try discriminate; reflexivity. Qed.

(* ------------------------------------------------------------------ one key *)
Lemma add_attribute_app pre l a : ~ In (key a) (keys pre) -> add_attribute (pre ++ l) a = pre ++ add_attribute l a.
Proof.
  induction pre as [|e r IH]; cbn; [reflexivity|]. intros H.
  destruct (attr_eqb e a) eqn:E.
  - apply attr_eqb_key in E. exfalso. apply H. left. exact E.
  - rewrite IH; [reflexivity|]. intros Hin. apply H. right. exact Hin.
Qed.

Lemma set_last_max_app pre a :
  set_last_max (pre ++ [a]) = pre ++ [mk_attr (a_tag a) (a_name a) (a_ns a) (a_types a) (a_min a) sys_maxsize (a_seq a) (a_index a)].
Proof. unfold set_last_max. rewrite rev_app_distr. cbn. rewrite rev_involutive. reflexivity. Qed.

Lemma build_attr_json attrs name ty none :
  exists a, build_attr attrs name ty None tag_ELEMENT 0 none = add_attribute attrs a
            /\ key a = key (jkey name) /\ a_min a = (if none then 0 else 1).
Proof.
  unfold build_attr, jkey, part_key. destruct (split_qname name) as [n0 nm]. eexists. repeat split.
Qed.

(* the state of the attr list while one key is processed: `pre` never has the key, `tail` is [] or the key's attr *)
Definition tail_ok (kk : K3) (tail : list attr) : Prop := tail = [] \/ exists a, tail = [a] /\ key a = kk.

Lemma add_on_tail pre tail a : ~ In (key a) (keys pre) -> tail_ok (key a) tail ->
  exists a', add_attribute (pre ++ tail) a = pre ++ [a'] /\ key a' = key a /\ (tail = [] -> a' = a).
Proof.
  intros Hp [->|[e [-> Ke]]]; rewrite add_attribute_app by exact Hp; cbn.
  - exists a. auto.
  - assert (attr_eqb e a = true) as -> by (apply attr_eqb_key; exact Ke).
    eexists. split; [reflexivity|]. split; [exact Ke|discriminate].
Qed.

Lemma dict_attribute_key cv name : forall x pre tail inner,
  ~ In (key (jkey name)) (keys pre) -> tail_ok (key (jkey name)) tail ->
  exists a' inner', dict_attribute cv (pre ++ tail, inner) name x = (pre ++ [a'], inner')
    /\ key a' = key (jkey name)
    /\ (is_jlist x = true -> a_max a' = sys_maxsize)
    /\ (tail = [] -> x = JNull -> a_min a' = 0).
Proof.
  set (kk := key (jkey name)).
  assert (Leaf : forall v pre tail inner, is_leaf v = true -> ~ In kk (keys pre) -> tail_ok kk tail ->
            exists a' inner', dict_attribute cv (pre ++ tail, inner) name v = (pre ++ [a'], inner')
              /\ key a' = kk /\ (is_jlist v = true -> a_max a' = sys_maxsize) /\ (tail = [] -> v = JNull -> a_min a' = 0)).
  { intros v pre tail inner Hl Hp Ht. rewrite dict_attribute_leaf by exact Hl.
    destruct (build_attr_json (pre ++ tail) name (build_attr_type_json cv name v) (is_jnull v)) as [a [Ea [Ka Ma]]].
    rewrite Ea. fold kk in Ka. rewrite <- Ka in Hp, Ht. destruct (add_on_tail pre tail a Hp Ht) as [a' [E1 [K1 T1]]].
    exists a', inner. rewrite E1. split; [reflexivity|]. split; [congruence|]. split.
    - destruct v; discriminate.
    - intros Et ->. rewrite (T1 Et), Ma. reflexivity. }
  induction x as [|b|z|f|s|l IHl|fs IHf] using json_ind'; intros pre tail inner Hp Ht;
    try (apply Leaf; auto; fail).
  - (* arrays *)
    rewrite dict_attribute_list. destruct l as [|x0 r].
    + destruct (build_attr_json (pre ++ tail) name (build_attr_type_json cv name JNull) true) as [a [Ea [Ka Ma]]].
      rewrite Ea. fold kk in Ka. rewrite <- Ka in Hp, Ht. destruct (add_on_tail pre tail a Hp Ht) as [a' [E1 [K1 T1]]].
      rewrite E1, set_last_max_app. eexists _, inner. split; [reflexivity|]. split; [change (key a' = kk); congruence|].
      split; [reflexivity|discriminate].
    + assert (G : forall l, Forall (fun x => forall pre tail inner, ~ In kk (keys pre) -> tail_ok kk tail ->
                       exists a' inner', dict_attribute cv (pre ++ tail, inner) name x = (pre ++ [a'], inner')
                         /\ key a' = kk /\ (is_jlist x = true -> a_max a' = sys_maxsize)
                         /\ (tail = [] -> x = JNull -> a_min a' = 0)) l ->
                  l <> [] -> forall tail inner, tail_ok kk tail ->
                  exists a' inner', each_loop (dict_attribute cv) name l (pre ++ tail, inner) = (pre ++ [a'], inner')
                    /\ key a' = kk /\ a_max a' = sys_maxsize).
      { clear - Hp. induction l as [|x r IH]; intros HF Hne tail inner Ht; [contradiction|]. inversion HF as [|? ? Hx Hr]; subst.
        cbn [each_loop]. destruct (Hx pre tail inner Hp Ht) as [a1 [inner1 [E1 [K1 _]]]]. rewrite E1, set_last_max_app.
        set (a1' := mk_attr (a_tag a1) (a_name a1) (a_ns a1) (a_types a1) (a_min a1) sys_maxsize (a_seq a1) (a_index a1)).
        destruct r as [|y r'].
        - cbn [each_loop]. exists a1', inner1. repeat split; auto.
        - apply (IH Hr ltac:(discriminate) [a1'] inner1). right. exists a1'. split; [reflexivity|exact K1]. }
      destruct (G (x0 :: r) IHl ltac:(discriminate) tail inner Ht) as [a' [inner' [E [K M]]]].
      exists a', inner'. split; [exact E|]. split; [exact K|]. split; [intros _; exact M|discriminate].
  - (* objects *)
    rewrite dict_attribute_obj.
    destruct (build_attr_json (pre ++ tail) name (mk_atype name false true) false) as [a [Ea [Ka Ma]]].
    rewrite Ea. fold kk in Ka. rewrite <- Ka in Hp, Ht. destruct (add_on_tail pre tail a Hp Ht) as [a' [E1 [K1 T1]]].
    rewrite E1. eexists _, _. split; [reflexivity|]. split; [congruence|]. split; discriminate.
Qed.

(* inner classes collected for one value *)
Fixpoint objs (cv : sconv) (name : str) (v : json) {struct v} : list klass :=
  match v with
  | JObj fs => [dict_class cv name fs]
  | JList l => (fix each (l : list json) : list klass := match l with [] => [] | x :: r => objs cv name x ++ each r end) l
  | _ => []
  end.

Lemma objs_list cv name l : objs cv name (JList l) = flat_map (objs cv name) l.
Proof. cbn [objs]. induction l as [|x r IH]; cbn; [reflexivity|]. rewrite IH. reflexivity. Qed.

Lemma dict_attribute_inner cv name : forall x attrs inner,
  snd (dict_attribute cv (attrs, inner) name x) = inner ++ objs cv name x.
Proof.
  induction x as [|b|z|f|s|l IHl|fs IHf] using json_ind'; intros attrs inner;
    try (rewrite dict_attribute_leaf by reflexivity; cbn; rewrite app_nil_r; reflexivity).
  - rewrite dict_attribute_list, objs_list. destruct l as [|x0 r]; [cbn; rewrite app_nil_r; reflexivity|].
    generalize (x0 :: r) IHl. clear. intros l HF. revert attrs inner.
    induction l as [|x r IH]; intros attrs inner; cbn [each_loop flat_map]; [cbn; rewrite app_nil_r; reflexivity|].
    inversion HF as [|? ? Hx Hr]; subst. specialize (Hx attrs inner).
    destruct (dict_attribute cv (attrs, inner) name x) as [a1 i1]. cbn [snd] in Hx. subst i1.
    rewrite (IH Hr). rewrite <- app_assoc. reflexivity.
  - rewrite dict_attribute_obj. reflexivity.
Qed.

(* ------------------------------------------------------------------ one object *)
Definition field_ok (a : attr) (kv : str * json) : Prop :=
  key a = key (jkey (fst kv)) /\ (is_jlist (snd kv) = true -> a_max a = sys_maxsize) /\ (snd kv = JNull -> a_min a = 0).

Lemma nodup_keysb_spec l : nodup_keysb l = true -> NoDup (keys l).
Proof.
  induction l as [|a r IH]; cbn; [constructor|]. intros H. apply andb_true_iff in H as [H1 H2]. constructor; [|apply IH; exact H2].
  intros Hin. apply in_keys in Hin as [x [Hx Kx]]. apply negb_true_iff in H1.
  assert (existsb (attr_eqb a) r = true); [|congruence]. apply existsb_exists. exists x. split; [exact Hx|].
  apply attr_eqb_key. congruence.
Qed.

Lemma fold_fields cv : forall fs pre inner,
  NoDup (map (fun kv => key (jkey (fst kv))) fs) ->
  (forall kv, In kv fs -> ~ In (key (jkey (fst kv))) (keys pre)) ->
  exists adds inner', fold_left (fun st kv => dict_attribute cv st (fst kv) (snd kv)) fs (pre, inner) = (pre ++ adds, inner')
    /\ Forall2 field_ok adds fs
    /\ inner' = inner ++ flat_map (fun kv => objs cv (fst kv) (snd kv)) fs.
Proof.
  induction fs as [|[k x] r IH]; intros pre inner ND Hp; cbn [fold_left].
  - exists [], inner. rewrite !app_nil_r. repeat split. constructor.
  - inversion ND as [|? ? Hn ND']; subst. cbn [fst snd] in *.
    destruct (dict_attribute_key cv k x pre [] inner) as [a' [inner1 [E [K [M1 M2]]]]];
      [apply (Hp (k, x)); left; reflexivity|left; reflexivity|].
    rewrite app_nil_r in E. pose proof (dict_attribute_inner cv k x pre inner) as Ei. rewrite E in Ei. cbn [snd] in Ei. rewrite E.
    destruct (IH (pre ++ [a']) inner1 ND') as [adds [inner' [E2 [F2 I2]]]].
    { intros kv Hkv Hin. rewrite keys_app in Hin. apply in_app_iff in Hin as [Hin|[Hin|[]]].
      - apply (Hp kv); [right; exact Hkv|exact Hin].
      - apply Hn. cbn in Hin. rewrite K in Hin. rewrite Hin. apply in_map_iff. exists kv. split; [reflexivity|exact Hkv]. }
    exists (a' :: adds), inner'. split; [rewrite E2, <- app_assoc; reflexivity|]. split.
    + constructor; [|exact F2]. split; [exact K|]. split; [exact M1|]. cbn [fst snd]. intros Hx. apply M2; [reflexivity|exact Hx].
    + rewrite I2, Ei. cbn [flat_map fst snd]. rewrite <- app_assoc. reflexivity.
Qed.

Theorem dict_class_spec cv name fs :
  NoDup (map (fun kv => key (jkey (fst kv))) fs) ->
  exists attrs,
    dict_class cv name fs = K name None false false attrs (flat_map (fun kv => objs cv (fst kv) (snd kv)) fs)
    /\ Forall2 field_ok attrs fs.
Proof.
  intros ND. unfold dict_class.
  destruct (fold_fields cv fs [] [] ND) as [adds [inner' [E [F I]]]]; [intros kv _ []|].
  rewrite E. cbn [app] in *. exists adds. subst inner'. auto.
Qed.

Definition jnode_class (cv : sconv) (name : str) (fs : list (str * json)) : fclass :=
  match dict_class cv name fs with
  | K q ns mixed nilb attrs _ => mk_fclass q ns mixed nilb (map flatten_attr attrs)
  end.

(* ------------------------------------------------------------------ every object of a value *)
Fixpoint Forall_jnodes (P : str -> list (str * json) -> Prop) (name : str) (v : json) {struct v} : Prop :=
  match v with
  | JObj fs => P name fs /\
               (fix fields (fs : list (str * json)) : Prop :=
                  match fs with [] => True | (k, x) :: r => Forall_jnodes P k x /\ fields r end) fs
  | JList l => (fix each (l : list json) : Prop := match l with [] => True | x :: r => Forall_jnodes P name x /\ each r end) l
  | _ => True
  end.

Lemma Forall_jnodes_obj P name fs :
  Forall_jnodes P name (JObj fs) <-> P name fs /\ Forall (fun kv => Forall_jnodes P (fst kv) (snd kv)) fs.
Proof.
  cbn [Forall_jnodes]. apply and_iff_compat_l. induction fs as [|[k x] r IH]; [split; auto|].
  rewrite IH. split; [intros [H1 H2]; constructor; auto|intros H; inversion H; auto].
Qed.

Lemma Forall_jnodes_list P name l :
  Forall_jnodes P name (JList l) <-> Forall (Forall_jnodes P name) l.
Proof.
  cbn [Forall_jnodes]. induction l as [|x r IH]; [split; auto|].
  rewrite IH. split; [intros [H1 H2]; constructor; auto|intros H; inversion H; auto].
Qed.

Lemma json_wf_obj fs : json_wf (JObj fs) = true ->
  NoDup (map (fun kv => key (jkey (fst kv))) fs) /\ Forall (fun kv => json_wf (snd kv) = true) fs.
Proof.
  cbn [json_wf]. intros H. apply andb_true_iff in H as [H1 H2]. split.
  - apply nodup_keysb_spec in H1. unfold keys in H1. rewrite map_map in H1. exact H1.
  - clear H1. induction fs as [|[k x] r IH]; [constructor|]. apply andb_true_iff in H2 as [H2 H3]. constructor; auto.
Qed.

Lemma json_wf_list l : json_wf (JList l) = true -> Forall (fun x => json_wf x = true) l.
Proof.
  cbn [json_wf]. induction l as [|x r IH]; [constructor|]. intros H. apply andb_true_iff in H as [H1 H2]. constructor; auto.
Qed.

(* the classes of all objects below a value are in the flattened output *)
Lemma objs_nodes cv (L : list fclass) : forall v name, json_wf v = true ->
  (forall c x, In c (objs cv name v) -> In x (flatten c) -> In x L) ->
  Forall_jnodes (fun n fs => In (jnode_class cv n fs) L) name v.
Proof.
  induction v as [|b|z|f|s|l IHl|fs IHf] using json_ind'; intros name WF HL; try exact I.
  - apply Forall_jnodes_list. apply json_wf_list in WF. rewrite objs_list in HL.
    rewrite Forall_forall in *. intros x Hx. apply IHl; auto. intros c y Hc Hy. apply (HL c y); [|exact Hy].
    apply in_flat_map. exists x. auto.
  - apply Forall_jnodes_obj. destruct (json_wf_obj fs WF) as [ND WFs].
    destruct (dict_class_spec cv name fs ND) as [attrs [E _]].
    assert (HL' : forall x, In x (flatten (dict_class cv name fs)) -> In x L).
    { intros x Hx. apply (HL (dict_class cv name fs)); [left; reflexivity|exact Hx]. }
    rewrite E, flatten_unfold in HL'. split.
    + apply HL'. unfold jnode_class. rewrite E. apply in_or_app. right. left. reflexivity.
    + rewrite Forall_forall in *. intros kv Hkv. apply IHf; auto. intros c y Hc Hy. apply HL'. apply in_or_app. left.
      eapply flatten_rev_incl; [|exact Hy]. apply in_flat_map. exists kv. auto.
Qed.

Lemma objs_from cv : forall v name c x, json_wf v = true -> In c (objs cv name v) -> In x (flatten c) ->
  exists n fs, x = jnode_class cv n fs /\ NoDup (map (fun kv => key (jkey (fst kv))) fs).
Proof.
  induction v as [|b|z|f|s|l IHl|fs IHf] using json_ind'; intros name c x WF Hc Hx; try (cbn in Hc; contradiction).
  - rewrite objs_list in Hc. apply in_flat_map in Hc as [y [Hy Hc]]. apply json_wf_list in WF.
    rewrite Forall_forall in *. eapply IHl; eauto.
  - cbn [objs] in Hc. destruct Hc as [<-|[]]. destruct (json_wf_obj fs WF) as [ND WFs].
    destruct (dict_class_spec cv name fs ND) as [attrs [E _]]. rewrite E, flatten_unfold in Hx.
    apply in_app_iff in Hx as [Hx|[<-|[]]].
    + apply flatten_rev_from in Hx as [c' [Hc' Hx]]. apply in_flat_map in Hc' as [kv [Hkv Hc']].
      rewrite Forall_forall in *. eapply IHf; eauto.
    + exists name, fs. split; [|exact ND]. unfold jnode_class. rewrite E. reflexivity.
Qed.

(* ------------------------------------------------------------------ fitting one object *)
Definition jfield_cond (a : attr) (x : json) : bool :=
  match x with JList _ => is_list a | JNull => a_min a =? 0 | _ => true end.

Lemma json_fits_obj cs name fs c :
  find_class cs name = Some c ->
  forallb (fun a => existsb (attr_eqb a) (json_parts fs) || (a_min a =? 0)) (c_attrs c) = true ->
  Forall (fun kv => exists a, find_attr c (jkey (fst kv)) = Some a /\ jfield_cond a (snd kv) = true
                              /\ json_fits cs (fst kv) (snd kv) = true) fs ->
  json_fits cs name (JObj fs) = true.
Proof.
  intros Fc Hab Hf. cbn [json_fits]. rewrite Fc, Hab. cbn [andb]. clear Hab.
  induction fs as [|[k x] r IH]; [reflexivity|]. inversion Hf as [|? ? [a [Fa [Ca Ja]]] Hr]; subst. cbn [fst snd] in *.
  rewrite Fa. unfold jfield_cond in Ca. rewrite Ja, (IH Hr). destruct x; cbn; try reflexivity; rewrite Ca; reflexivity.
Qed.

Lemma json_fits_list cs name l : Forall (fun x => json_fits cs name x = true) l -> json_fits cs name (JList l) = true.
Proof.
  cbn [json_fits]. induction l as [|x r IH]; [reflexivity|]. intros H. inversion H; subst. rewrite H2. cbn. apply IH. assumption.
Qed.

Lemma Forall2_in_r {A B} (R : A -> B -> Prop) l l' : Forall2 R l l' -> forall y, In y l' -> exists x, In x l /\ R x y.
Proof.
  induction 1 as [|x y l l' H _ IH]; intros z Hz; [contradiction|]. destruct Hz as [<-|Hz].
  - exists x. split; [left; reflexivity|exact H].
  - destruct (IH z Hz) as [x' [H1 H2]]. exists x'. split; [right; exact H1|exact H2].
Qed.

Section JFit.
  Variable cv : sconv.
  Variable all : list fclass.
  Hypothesis all_nodes : forall x, In x all ->
    exists n fs, x = jnode_class cv n fs /\ NoDup (map (fun kv => key (jkey (fst kv))) fs).

  Lemma jnode_class_attrs n fs : NoDup (map (fun kv => key (jkey (fst kv))) fs) ->
    exists attrs, jnode_class cv n fs = mk_fclass n None false false (map flatten_attr attrs) /\ Forall2 field_ok attrs fs.
  Proof.
    intros ND. destruct (dict_class_spec cv n fs ND) as [attrs [E F]]. exists attrs. unfold jnode_class. rewrite E. auto.
  Qed.

  Lemma forall2_keys attrs (fs : list (str * json)) : Forall2 field_ok attrs fs -> keys attrs = map (fun kv => key (jkey (fst kv))) fs.
  Proof. induction 1 as [|a kv l l' [K _] _ IH]; [reflexivity|]. unfold keys in *. cbn [map]. rewrite K, IH. reflexivity. Qed.

  Lemma jall_nodup : Forall (fun c => NoDup (keys (c_attrs c))) all.
  Proof.
    apply Forall_forall. intros x Hx. destruct (all_nodes x Hx) as [n [fs [-> ND]]].
    destruct (jnode_class_attrs n fs ND) as [attrs [E F]]. rewrite E. cbn [c_attrs]. rewrite keys_flatten, (forall2_keys _ _ F). exact ND.
  Qed.

  (* the node-local part of json_fits *)
  Lemma jnode_fits n fs : In (jnode_class cv n fs) all -> NoDup (map (fun kv => key (jkey (fst kv))) fs) ->
    exists c, find_class (reduce_classes all) n = Some c
      /\ forallb (fun a => existsb (attr_eqb a) (json_parts fs) || (a_min a =? 0)) (c_attrs c) = true
      /\ Forall (fun kv => exists a, find_attr c (jkey (fst kv)) = Some a /\ jfield_cond a (snd kv) = true) fs.
  Proof.
    intros Hin ND. destruct (reduce_classes_spec all jall_nodup _ Hin) as [r [Fr [NDr [_ [Cov [Opt _]]]]]].
    destruct (jnode_class_attrs n fs ND) as [attrs [E F]]. rewrite E in *. cbn [c_qname c_attrs] in *.
    exists r. split; [exact Fr|]. split.
    - apply forallb_forall. intros ry Hry.
      destruct (in_dec key_eq_dec (key ry) (map (fun kv => key (jkey (fst kv))) fs)) as [Hk|Hk].
      + apply in_map_iff in Hk as [kv [Ek Hkv]]. apply orb_true_iff. left. apply existsb_exists. exists (jkey (fst kv)).
        split; [unfold json_parts; apply in_map_iff; exists kv; auto|]. apply attr_eqb_key. congruence.
      + apply orb_true_iff. right. apply N.eqb_eq. apply Opt; [exact Hry|]. rewrite keys_flatten, (forall2_keys _ _ F). exact Hk.
    - apply Forall_forall. intros kv Hkv.
      destruct (Forall2_in_r _ _ _ F kv Hkv) as [y [Hy [Ky [My Ny]]]].
      destruct (Cov (flatten_attr y)) as [ry [I1 [K1 [D1 [D2 _]]]]]; [apply in_map; exact Hy|].
      exists ry. split; [apply find_attr_in_nodup; auto; rewrite K1, flatten_attr_key; exact Ky|].
      unfold jfield_cond. cbn [a_max a_min flatten_attr] in D1, D2. destruct (snd kv) eqn:Ev; try reflexivity.
      + apply N.eqb_eq. assert (a_min y = 0) by (apply Ny; reflexivity). lia.
      + unfold is_list. apply N.ltb_lt. assert (a_max y = sys_maxsize) by (apply My; reflexivity). pose proof maxsize_is_list. lia.
  Qed.

  Lemma json_fits_of_nodes : forall v name, json_wf v = true ->
    Forall_jnodes (fun n fs => In (jnode_class cv n fs) all) name v -> json_fits (reduce_classes all) name v = true.
  Proof.
    induction v as [|b|z|f|s|l IHl|fs IHf] using json_ind'; intros name WF HN; try reflexivity.
    - apply json_fits_list. apply Forall_jnodes_list in HN. apply json_wf_list in WF. rewrite Forall_forall in *. intros x Hx. apply IHl; auto.
    - apply Forall_jnodes_obj in HN as [H0 Hk]. destruct (json_wf_obj fs WF) as [ND WFs].
      destruct (jnode_fits name fs H0 ND) as [c [Fc [Hab Hf]]]. eapply json_fits_obj; eauto.
      rewrite Forall_forall in *. intros kv Hkv. destruct (Hf kv Hkv) as [a [Fa Ca]]. exists a. repeat split; auto.
  Qed.
End JFit.

(* ------------------------------------------------------------------ the theorem *)
Lemma map_json_objs cv name v : json_top_wf v = true ->
  forall x, In x (map_json cv name v) <-> exists c, In c (objs cv name v) /\ In x (flatten c).
Proof.
  unfold json_top_wf. intros H. apply andb_true_iff in H as [_ H]. destruct v; try discriminate.
  - intros x. cbn [map_json]. rewrite objs_list, in_concat. rewrite forallb_forall in H. split.
    + intros [fl [Hfl Hx]]. apply in_map_iff in Hfl as [o [<- Ho]]. specialize (H o Ho). destruct o; try discriminate.
      exists (dict_class cv name l0). split; [apply in_flat_map; exists (JObj l0); split; [exact Ho|left; reflexivity]|exact Hx].
    + intros [c [Hc Hx]]. apply in_flat_map in Hc as [o [Ho Hc]]. specialize (H o Ho). destruct o; try discriminate.
      cbn [objs] in Hc. destruct Hc as [<-|[]]. exists (flatten (dict_class cv name l0)). split; [|exact Hx].
      apply in_map_iff. exists (JObj l0). auto.
  - intros x. cbn [map_json objs]. split; [intros Hx; eexists; split; [left; reflexivity|exact Hx]|intros [c [[<-|[]] Hx]]; exact Hx].
Qed.

Theorem json_samples_fit : forall cv name (S : list json),
  forallb json_top_wf S = true -> forallb (json_fits (classes_of_json cv name S) name) S = true.
Proof.
  intros cv name S WF. rewrite forallb_forall in WF. apply forallb_forall. intros v Hv. unfold classes_of_json.
  set (all := concat (map (map_json cv name) S)).
  assert (Hwf : json_wf v = true) by (specialize (WF v Hv); unfold json_top_wf in WF; apply andb_true_iff in WF as [W _]; exact W).
  apply (json_fits_of_nodes cv all); [|exact Hwf|].
  - intros x Hx. unfold all in Hx. apply in_concat in Hx as [fl [Hfl Hx]]. apply in_map_iff in Hfl as [w [<- Hw]].
    apply (map_json_objs cv name w (WF w Hw)) in Hx as [c [Hc Hx]].
    assert (Hww : json_wf w = true) by (specialize (WF w Hw); unfold json_top_wf in WF; apply andb_true_iff in WF as [W _]; exact W).
    eapply objs_from; eauto.
  - apply objs_nodes; [exact Hwf|]. intros c x Hc Hx. unfold all. apply in_concat. exists (map_json cv name v). split; [apply in_map; exact Hv|].
    apply (map_json_objs cv name v (WF v Hv)). exists c. auto.
Qed.

(* ------------------------------------------------------------------ a JSON string stays a string (fix 9a0cfef) *)
Lemma json_string_table :
  forallb (fun q => existsb (str_eqb (if json_string_kept q then dt_qname json_string_fallback else q)) json_string_types)
          (DT_STRING :: map from_explicit_type (map fst explicit_type_datatype)) = true.
Proof. vm_compute. reflexivity. Qed.

Lemma first_true_In' {A} (l : list A) row x : first_true l row = Some x -> In x l.
Proof.
  revert row. induction l as [|y l IH]; intros [|b row]; cbn; try discriminate.
  destruct b; [intros [= ->]; left; reflexivity|]. intros H. right. eapply IH. exact H.
Qed.

Lemma json_str_type_ok cv c r : sc_row cv (c :: r) <> None ->
  existsb (str_eqb (json_str_type cv (c :: r))) json_string_types = true.
Proof.
  intros Hrow. unfold json_str_type, build_attr_type_json.
  assert (E : str_eqb [] qn_xsi_type = false) by (vm_compute; reflexivity). rewrite E. cbn [ty_qname].
  pose proof json_string_table as T. rewrite forallb_forall in T. apply T.
  unfold match_type_str. destruct (sc_row cv (c :: r)) as [row|]; [|congruence].
  destruct (first_true (map fst explicit_type_datatype) row) as [tp|] eqn:F.
  - right. apply in_map. eapply first_true_In'. exact F.
  - left. reflexivity.
Qed.

Theorem json_strings_kept : forall cv v, json_rows_known cv v = true -> g_json_strings cv v = true.
Proof.
  intros cv. induction v as [|b|z|f|s|l IHl|fs IHf] using json_ind'; intros H; try reflexivity.
  - destruct s as [|c r]; [reflexivity|]. cbn [g_json_strings]. apply json_str_type_ok. cbn [json_rows_known] in H.
    destruct (sc_row cv (c :: r)); [discriminate|discriminate].
  - cbn [g_json_strings json_rows_known] in *. induction l as [|x r IH]; [reflexivity|]. inversion IHl as [|? ? Hx Hr]; subst.
    apply andb_true_iff in H as [Ha Hb]. rewrite (Hx Ha). cbn. apply IH; assumption.
  - cbn [g_json_strings json_rows_known] in *. induction fs as [|[k x] r IH]; [reflexivity|]. inversion IHf as [|? ? Hx Hr]; subst. cbn [snd] in *.
    apply andb_true_iff in H as [Ha Hb]. rewrite (Hx Ha). cbn. apply IH; assumption.
Qed.
