(* Proofs/ParserCtxGuard.v — the hypothesis of C09_prefix_renaming in boolean form (evaluated by
   harness/c09.py on pairs of real recorded streams: document / document with renamed prefixes
   and re-spelled xsi:type values) and its soundness. *)
From Coq Require Import NArith ZArith List Bool.
From XV Require Import Base.Str Base.Eqb Base.PyInt Model.Bind Model.Parser Model.ParserCorr Model.Reader Model.ReaderCorr
  Model.ParserInvCorr Proofs.ReaderMaps Proofs.ParserCtx Proofs.ParserInvCombine.
Import ListNotations.

Lemma ptype_eqb_true a b : ptype_eqb a b = true -> a = b.
Proof. destruct a, b; cbn [ptype_eqb]; try discriminate; try reflexivity; intros H; apply N.eqb_eq in H; congruence. Qed.

Lemma prim_eqb_true a b : prim_eqb a b = true -> a = b.
Proof.
  destruct a, b; cbn [prim_eqb]; try discriminate; intros H;
    try (apply str_eqb_eq in H; congruence).
  - apply Z.eqb_eq in H. congruence.
  - apply Bool.eqb_prop in H. congruence.
  - apply andb_true_iff in H as [H1 H2]. apply N.eqb_eq in H1, H2. congruence.
  - apply andb_true_iff in H as [H1 H2]. apply ptype_eqb_true in H1. apply str_eqb_eq in H2. congruence.
Qed.

Lemma oprim_eqb_true (a b : option prim) : opt_eqb prim_eqb a b = true -> a = b.
Proof. destruct a, b; cbn [opt_eqb]; try discriminate; try reflexivity. intros H. apply prim_eqb_true in H. congruence. Qed.

Definition is_nil_str (s : str) : bool := match s with [] => true | _ => false end.

Definition attr_relb (P : list (option str)) (c : conv) (n n' : nsmap) (kv kv' : qname * str) : bool :=
  str_eqb (fst kv) (fst kv')
  && if str_eqb XSI_TYPE (fst kv)
     then opt_eqb prim_eqb (c_deser c [TQName] None n (snd kv)) (c_deser c [TQName] None n' (snd kv'))
          && str_eqb (parse_any_attribute (snd kv) n) (parse_any_attribute (snd kv') n')
          && Bool.eqb (is_nil_str (snd kv)) (is_nil_str (snd kv'))
     else str_eqb (snd kv) (snd kv') && goodb P (snd kv).

Definition renamedb (P : list (option str)) (c : conv) (x y : pevent) : bool :=
  match x, y with
  | PStart q a n, PStart q' a' n' =>
      str_eqb q q' && maps_agree_outsideb P n n' && forallb2 (attr_relb P c n n') a a'
  | PEnd q t tl, PEnd q' t' tl' =>
      str_eqb q q' && ostr_eqb t t' && ostr_eqb tl tl' && match t with Some s => goodb P s | None => true end
  | PStartNs _ _, PStartNs _ _ => true
  | _, _ => false
  end.

Lemma attr_relb_sound P c n n' kv kv' : attr_relb P c n n' kv kv' = true -> attr_rel_gen c (good P) n n' kv kv'.
Proof.
  unfold attr_relb, attr_rel_gen. intros H. apply andb_true_iff in H as [Hk H]. apply str_eqb_eq in Hk.
  split; [exact Hk|]. destruct (str_eqb XSI_TYPE (fst kv)).
  - apply andb_true_iff in H as [H H3]. apply andb_true_iff in H as [H1 H2].
    apply oprim_eqb_true in H1. apply str_eqb_eq in H2. apply Bool.eqb_prop in H3.
    split; [exact H1|]. split; [exact H2|].
    destruct (snd kv), (snd kv'); cbn [is_nil_str] in H3; split; intros E; try reflexivity; try discriminate.
  - apply andb_true_iff in H as [H1 H2]. apply str_eqb_eq in H1. split; [exact H1|exact H2].
Qed.

Lemma forallb2_Forall2 {A} (f : A -> A -> bool) (R : A -> A -> Prop) :
  (forall x y, f x y = true -> R x y) -> forall a b, forallb2 f a b = true -> Forall2 R a b.
Proof.
  intros H. induction a as [|x a IH]; intros [|y b] E; cbn [forallb2] in E; try discriminate; [constructor|].
  apply andb_true_iff in E as [E1 E2]. constructor; [apply H; exact E1|apply IH; exact E2].
Qed.

Lemma renamedb_sound P c x y : renamedb P c x y = true -> renamed P c x y.
Proof.
  destruct x as [q a n|q t tl|p uri], y as [q' a' n'|q' t' tl'|p' uri']; cbn [renamedb]; try discriminate; intros H.
  - apply andb_true_iff in H as [H Ha]. apply andb_true_iff in H as [Hq Hm]. apply str_eqb_eq in Hq.
    cbn. split; [exact Hq|]. split; [apply maps_agree_outsideb_sound; exact Hm|].
    apply (forallb2_Forall2 _ _ (attr_relb_sound P c n n')). exact Ha.
  - apply andb_true_iff in H as [H Hg]. apply andb_true_iff in H as [H Hl]. apply andb_true_iff in H as [Hq Ht].
    apply str_eqb_eq in Hq. apply ReaderMaps.ostr_eqb_eq in Ht, Hl. cbn. repeat split; try assumption.
    destruct t; [exact Hg|exact I].
  - exact I.
Qed.

Theorem prefix_renaming_guarded : forall P cfg c u root e1 e2,
  conv_prefix_local c -> no_xsi_type_attr u = true ->
  forallb2 (renamedb P c) (strip_ns e1) (strip_ns e2) = true ->
  parse cfg c u root e1 = parse cfg c u root e2.
Proof.
  intros P cfg c u root e1 e2 Hc Hu H.
  rewrite <- (parse_strip_ns cfg c u root e1), <- (parse_strip_ns cfg c u root e2).
  apply (prefix_renaming_invariant P); [exact Hc|exact Hu|].
  apply (forallb2_Forall2 _ _ (renamedb_sound P c)). exact H.
Qed.

(* the set of changed prefixes used by the harness: every key of every map of both streams *)
Definition all_prefixes (evs : list pevent) : list (option str) :=
  flat_map (fun ev => match ev with PStart _ _ n => map fst n | _ => [] end) evs.
Print Assumptions prefix_renaming_guarded.
