(* Proofs/Cm.v — theorems about Spec/Cm.v:
   count_le_maxcount / mincount_le_count   bounds on the number of children of a kind
   check_sound                             the validator: every valid word is accepted by the greedy slot assignment
   accepts_all_sound                       the same in "capacity" form
   order_safe_sound, emit_order_sorted     order preservation side condition
   check_attrs_sound                       attribute defaults / fixed values / enumerations *)
From Coq Require Import NArith List Bool Arith Lia Permutation.
From XV Require Import Base.Str Base.Eqb Spec.Cm.
Import ListNotations.
Local Close Scope N_scope.
Local Open Scope nat_scope.

(* ------------------------------------------------------------------ enat *)
Lemma ele_eadd a b x y : ele a x -> ele b y -> ele (a + b) (eadd x y).
Proof. destruct x, y; cbn; auto; lia. Qed.
Lemma ele_emax_l a x y : ele a x -> ele a (emax x y).
Proof. destruct x, y; cbn; auto; lia. Qed.
Lemma ele_emax_r a x y : ele a y -> ele a (emax x y).
Proof. destruct x, y; cbn; auto; lia. Qed.
Lemma eleb_ele n a : eleb n a = true <-> ele n a.
Proof. destruct a; cbn; [rewrite Nat.leb_le|]; tauto. Qed.
Lemma ele_trans n a b : ele n a -> enat_leb a b = true -> ele n b.
Proof. destruct a, b; cbn; auto; try discriminate. rewrite Nat.leb_le. lia. Qed.
Lemma eadd_comm a b : eadd a b = eadd b a.
Proof. destruct a, b; cbn; auto. f_equal; lia. Qed.
Lemma eadd_assoc a b c : eadd a (eadd b c) = eadd (eadd a b) c.
Proof. destruct a, b, c; cbn; auto. f_equal; lia. Qed.

Lemma esum_perm l l' : Permutation l l' -> esum l = esum l'.
Proof.
  unfold esum. induction 1; cbn [fold_right]; auto.
  - now rewrite IHPermutation.
  - rewrite !eadd_assoc. f_equal. apply eadd_comm.
  - congruence.
Qed.
Lemma nsum_perm l l' : Permutation l l' -> nsum l = nsum l'.
Proof. unfold nsum. induction 1; cbn [fold_right]; auto; lia. Qed.

(* ------------------------------------------------------------------ counting *)
Lemma countP_app P a b : countP P (a ++ b) = countP P a + countP P b.
Proof. unfold countP. now rewrite filter_app, app_length. Qed.
Lemma countP_nil P : countP P [] = 0. Proof. reflexivity. Qed.
Lemma countP_cons P q w : countP P (q :: w) = (if P q then 1 else 0) + countP P w.
Proof. unfold countP. cbn. destruct (P q); reflexivity. Qed.

Lemma count_concat_le P ws m :
  Forall (fun w => ele (countP P w) m) ws -> forall k, ele (length ws) k -> ele (countP P (concat ws)) (emul k m).
Proof.
  intros HF. destruct m as [m|]; intros k Hk.
  - assert (Hc : countP P (concat ws) <= length ws * m).
    { clear k Hk. induction HF as [|w ws Hw _ IH]; cbn [concat length]; [rewrite countP_nil; lia|].
      rewrite countP_app. unfold ele in Hw. nia. }
    destruct k as [k|]; cbn in Hk.
    + unfold emul. destruct k; [assert (length ws = 0) by lia; cbn; nia|]. destruct m; cbn; nia.
    + unfold emul. destruct m; cbn; [lia|exact I].
  - destruct k as [k|]; cbn in Hk; unfold emul; [|exact I]. destruct k; [|exact I].
    assert (E : length ws = 0) by lia. destruct ws; [cbn; lia|discriminate E].
Qed.

Lemma count_concat_ge P ws m :
  Forall (fun w => m <= countP P w) ws -> length ws * m <= countP P (concat ws).
Proof.
  induction 1 as [|w ws Hw _ IH]; cbn [concat length]; [lia|]. rewrite countP_app. nia.
Qed.

Lemma fold_min_le x l y : In y (x :: l) -> fold_right Nat.min x l <= y.
Proof.
  induction l as [|z l IH]; cbn [fold_right].
  - intros [E|[]]. lia.
  - intros [E|[E|H]].
    + subst. specialize (IH (or_introl eq_refl)). lia.
    + subst. lia.
    + specialize (IH (or_intror H)). lia.
Qed.
Lemma fold_min_in x l : In (fold_right Nat.min x l) (x :: l).
Proof.
  induction l as [|z l IH]; cbn [fold_right]; [left; reflexivity|].
  destruct (Nat.min_spec z (fold_right Nat.min x l)) as [[_ E]|[_ E]]; rewrite E.
  - right; left; reflexivity.
  - destruct IH as [IH|IH]; [left; exact IH|right; right; exact IH].
Qed.
Lemma nminl_le_in l x : In x l -> nminl l <= x.
Proof. destruct l as [|y r]; [intros []|]. cbn [nminl]. apply fold_min_le. Qed.
Lemma nminl_in l : l <> [] -> In (nminl l) l.
Proof. destruct l as [|y r]; [congruence|]. intros _. cbn [nminl]. apply fold_min_in. Qed.

(* the language-membership induction principle has to go through the nested Forall *)
Section MaxCount.
  Variable P : name -> bool.

  Theorem count_le_maxcountP : forall c w, lang c w -> ele (countP P w) (maxcountP P c).
  Proof.
    fix IH 3. intros c w H. destruct H.
    - cbn. unfold countP. cbn. destruct (P q); cbn; lia.
    - cbn. lia.
    - rewrite countP_app. change (maxcountP P (Seq (c :: r))) with (eadd (maxcountP P c) (maxcountP P (Seq r))).
      apply ele_eadd; apply IH; assumption.
    - change (maxcountP P (Choice (c :: r))) with (emax (maxcountP P c) (maxcountP P (Choice r))).
      apply ele_emax_l, IH; assumption.
    - change (maxcountP P (Choice (c :: r))) with (emax (maxcountP P c) (maxcountP P (Choice r))).
      apply ele_emax_r, IH; assumption.
    - change (maxcountP P (All l)) with (esum (map (maxcountP P) l)).
      rewrite (esum_perm (map (maxcountP P) l) (map (maxcountP P) l')) by (apply Permutation_map; assumption).
      change (esum (map (maxcountP P) l')) with (maxcountP P (Seq l')). apply IH; assumption.
    - cbn. unfold countP. cbn. destruct (P q); cbn; lia.
    - cbn [maxcountP]. apply count_concat_le; [|assumption].
      clear H H0. induction H1 as [|w ws Hw _ IHF]; constructor; [apply IH; exact Hw|exact IHF].
  Qed.

  Theorem mincountP_le_count : forall c w, lang c w -> mincountP P c <= countP P w.
  Proof.
    fix IH 3. intros c w H. destruct H.
    - cbn. unfold countP. cbn. destruct (P q); cbn; lia.
    - cbn. lia.
    - rewrite countP_app. change (mincountP P (Seq (c :: r))) with (mincountP P c + mincountP P (Seq r)).
      pose proof (IH _ _ H). pose proof (IH _ _ H0). lia.
    - pose proof (IH _ _ H). cbn [mincountP map].
      assert (nminl (mincountP P c :: map (mincountP P) r) <= mincountP P c) by (apply nminl_le_in; left; reflexivity).
      lia.
    - pose proof (IH _ _ H) as Hr. cbn [mincountP] in Hr |- *.
      destruct r as [|c' r']; [inversion H|].
      assert (Hin : In (nminl (map (mincountP P) (c' :: r'))) (map (mincountP P) (c' :: r'))) by (apply nminl_in; discriminate).
      assert (Hle : nminl (map (mincountP P) (c :: c' :: r')) <= nminl (map (mincountP P) (c' :: r'))).
      { apply nminl_le_in. cbn [map]. right. exact Hin. }
      lia.
    - change (mincountP P (All l)) with (nsum (map (mincountP P) l)).
      rewrite (nsum_perm (map (mincountP P) l) (map (mincountP P) l')) by (apply Permutation_map; assumption).
      change (nsum (map (mincountP P) l')) with (mincountP P (Seq l')). apply IH; assumption.
    - cbn. lia.
    - cbn [mincountP].
      assert (HF : Forall (fun w => mincountP P c <= countP P w) ws).
      { clear H H0. induction H1 as [|w ws Hw _ IHF]; constructor; [apply IH; exact Hw|exact IHF]. }
      pose proof (count_concat_ge P ws _ HF). nia.
  Qed.
End MaxCount.

Corollary count_le_maxcount q c w : lang c w -> ele (count q w) (maxcount c q).
Proof. apply count_le_maxcountP. Qed.
Corollary mincount_le_count q c w : lang c w -> mincount c q <= count q w.
Proof. apply mincountP_le_count. Qed.

(* ------------------------------------------------------------------ letters of a word *)
Lemma in_alphabet_list q l : In q (concat (map alphabet l)) <-> exists c, In c l /\ In q (alphabet c).
Proof.
  rewrite in_concat. split.
  - intros [x [Hx Hq]]. apply in_map_iff in Hx as [c [E Hc]]. subst. eauto.
  - intros [c [Hc Hq]]. exists (alphabet c). split; [apply in_map; exact Hc|exact Hq].
Qed.

Theorem lang_letters : forall c w, lang c w -> forall q, In q w -> In q (alphabet c) \/ has_any c = true.
Proof.
  fix IH 3. intros c w H. destruct H; intros x Hx.
  - left. exact Hx.
  - destruct Hx.
  - apply in_app_or in Hx as [Hx|Hx].
    + destruct (IH _ _ H x Hx) as [A|A]; [left; cbn; apply in_or_app; left; exact A|right; cbn; rewrite A; reflexivity].
    + destruct (IH _ _ H0 x Hx) as [A|A]; [left; cbn in *; apply in_or_app; right; exact A|].
      right. cbn in *. rewrite A. apply orb_true_r.
  - destruct (IH _ _ H x Hx) as [A|A]; [left; cbn; apply in_or_app; left; exact A|right; cbn; rewrite A; reflexivity].
  - destruct (IH _ _ H x Hx) as [A|A]; [left; cbn in *; apply in_or_app; right; exact A|].
    right. cbn in *. rewrite A. apply orb_true_r.
  - destruct (IH _ _ H0 x Hx) as [A|A].
    + left. cbn [alphabet] in *. apply in_alphabet_list in A as [c [Hc Hq]]. apply in_alphabet_list.
      exists c. split; [|exact Hq]. eapply Permutation_in; [apply Permutation_sym; exact H|exact Hc].
    + right. cbn [has_any] in *. apply existsb_exists in A as [c [Hc Hq]]. apply existsb_exists.
      exists c. split; [|exact Hq]. eapply Permutation_in; [apply Permutation_sym; exact H|exact Hc].
  - right. reflexivity.
  - apply in_concat in Hx as [w [Hw Hq]]. cbn [alphabet has_any].
    clear H H0. induction H1 as [|w' ws Hw' _ IHF]; [destruct Hw|].
    destruct Hw as [E|Hw]; [subst; exact (IH _ _ Hw' x Hq)|exact (IHF Hw)].
Qed.

Lemma countP_mono (P Q : name -> bool) w : (forall x, P x = true -> Q x = true) -> countP P w <= countP Q w.
Proof.
  intros H. induction w as [|x w IH]; [reflexivity|]. rewrite !countP_cons.
  destruct (P x) eqn:E; [rewrite (H _ E); lia|destruct (Q x); lia].
Qed.

Lemma countP_pos_in P w : 1 <= countP P w -> exists q, In q w /\ P q = true.
Proof.
  induction w as [|x w IH]; [cbn; lia|]. rewrite countP_cons. destruct (P x) eqn:E.
  - intros _. exists x. split; [left; reflexivity|exact E].
  - intros H. destruct IH as [q [Hq Hp]]; [lia|]. exists q. split; [right; exact Hq|exact Hp].
Qed.

Lemma name_eqb_eq a b : name_eqb a b = true <-> a = b.
Proof. apply str_eqb_eq. Qed.

(* ------------------------------------------------------------------ the greedy slot assignment *)
Definition nassigned (G : efield -> bool) (st : slots) : nat :=
  length (filter (fun p => G (fst p) && snd p) st).

Lemma nassigned_cons G f a r : nassigned G ((f, a) :: r) = (if G f && a then 1 else 0) + nassigned G r.
Proof. unfold nassigned. cbn. destruct (G f && a); reflexivity. Qed.

Lemma take_slot_fst st : forall q st', take_slot st q = Some st' -> map fst st' = map fst st.
Proof.
  induction st as [|[f a] r IH]; intros q st'; cbn [take_slot]; [discriminate|].
  destruct (fmatch f q).
  - destruct (ef_bounded f); cbn [negb].
    + destruct a.
      * destruct (take_slot r q) eqn:E; cbn; [|discriminate]. intros X; inversion X; subst. cbn. f_equal. eapply IH; eauto.
      * intros X; inversion X; subst. reflexivity.
    + intros X; inversion X; subst. reflexivity.
  - destruct (take_slot r q) eqn:E; cbn; [|discriminate]. intros X; inversion X; subst. cbn. f_equal. eapply IH; eauto.
Qed.

Lemma take_slot_nassigned G (S : name -> bool) q : forall st st',
  take_slot st q = Some st' ->
  (forall f, In f (map fst st) -> G f = true -> fmatch f q = true -> S q = true) ->
  nassigned G st' <= nassigned G st + (if S q then 1 else 0).
Proof.
  induction st as [|[f a] r IH]; intros st'; cbn [take_slot]; [discriminate|].
  intros Ht HS.
  assert (HS' : forall f0, In f0 (map fst r) -> G f0 = true -> fmatch f0 q = true -> S q = true)
    by (intros f0 Hin; apply HS; right; exact Hin).
  destruct (fmatch f q) eqn:Hm.
  - destruct (ef_bounded f); cbn [negb] in Ht.
    + destruct a.
      * destruct (take_slot r q) eqn:E; cbn in Ht; [|discriminate]. inversion Ht; subst.
        rewrite !nassigned_cons. specialize (IH _ eq_refl HS'). lia.
      * inversion Ht; subst. rewrite !nassigned_cons. rewrite andb_false_r, andb_true_r.
        destruct (G f) eqn:HG; [|lia]. rewrite (HS f (or_introl eq_refl) HG Hm). lia.
    + inversion Ht; subst. lia.
  - destruct (take_slot r q) eqn:E; cbn in Ht; [|discriminate]. inversion Ht; subst.
    rewrite !nassigned_cons. specialize (IH _ eq_refl HS'). lia.
Qed.

Lemma take_slot_none q : forall st, take_slot st q = None ->
  nassigned (fun f => fmatch f q) st = length (fields_for (map fst st) q).
Proof.
  induction st as [|[f a] r IH]; cbn [take_slot]; [reflexivity|].
  unfold fields_for in *. cbn [map fst filter]. rewrite nassigned_cons.
  destruct (fmatch f q) eqn:Hm.
  - destruct (ef_bounded f); cbn [negb]; [|discriminate].
    destruct a; [|discriminate]. destruct (take_slot r q) eqn:E; cbn; [discriminate|]. intros _.
    cbn [length]. rewrite IH by reflexivity. reflexivity.
  - destruct (take_slot r q) eqn:E; cbn; [discriminate|]. intros _. cbn. apply IH. reflexivity.
Qed.

Lemma take_slot_unbounded q : forall st, has_unbounded (map fst st) q = true -> take_slot st q <> None.
Proof.
  unfold has_unbounded. induction st as [|[f a] r IH]; cbn [map existsb fst take_slot]; [discriminate|].
  intros H. destruct (fmatch f q) eqn:Hm.
  - destruct (ef_bounded f); cbn [negb andb] in *.
    + destruct a; [|discriminate]. specialize (IH H). destruct (take_slot r q); [discriminate|congruence].
    + discriminate.
  - cbn [andb orb] in H. specialize (IH H). destruct (take_slot r q); [discriminate|congruence].
Qed.

Definition slot_inv (st : slots) (u : list name) : Prop :=
  forall (G : efield -> bool) (S : name -> bool),
    (forall f x, In f (map fst st) -> G f = true -> fmatch f x = true -> S x = true) ->
    nassigned G st <= countP S u.

Lemma nassigned_init G fs : nassigned G (init_slots fs) = 0.
Proof. unfold init_slots. induction fs as [|f r IH]; [reflexivity|]. cbn [map]. rewrite nassigned_cons, andb_false_r. exact IH. Qed.

Lemma init_slots_fst fs : map fst (init_slots fs) = fs.
Proof. unfold init_slots. rewrite map_map. cbn. apply map_id. Qed.

Definition name_ok (fs : list efield) (w : list name) (q : name) : Prop :=
  has_unbounded fs q = true \/
  (fields_for fs q <> [] /\ countP (cover (fields_for fs q)) w <= length (fields_for fs q)).

Lemma cover_self fs q : fields_for fs q <> [] -> cover (fields_for fs q) q = true.
Proof.
  unfold cover, fields_for. intros H. destruct (filter (fun f => fmatch f q) fs) as [|f r] eqn:E; [congruence|].
  assert (Hin : In f (filter (fun f => fmatch f q) fs)) by (rewrite E; left; reflexivity).
  apply filter_In in Hin as [_ Hm]. cbn. rewrite Hm. reflexivity.
Qed.

Lemma run_slots_ok fs : forall v u st,
  map fst st = fs -> slot_inv st u ->
  (forall q, In q v -> name_ok fs (u ++ v) q) ->
  exists st', run_slots st v = Some st' /\ map fst st' = fs.
Proof.
  induction v as [|q v IH]; intros u st Hfs Hinv Hok; cbn [run_slots]; [eauto|].
  destruct (take_slot st q) as [st1|] eqn:Ht.
  - assert (Hfs1 : map fst st1 = fs) by (rewrite (take_slot_fst _ _ _ Ht); exact Hfs).
    apply (IH (u ++ [q]) st1 Hfs1).
    + intros G S HS. rewrite countP_app, countP_cons, countP_nil.
      pose proof (take_slot_nassigned G S q st st1 Ht) as Hstep.
      assert (HS0 : forall f x, In f (map fst st) -> G f = true -> fmatch f x = true -> S x = true).
      { intros f x Hin. apply HS. rewrite Hfs1, <- Hfs. exact Hin. }
      specialize (Hstep (fun f Hin => HS0 f q Hin)). specialize (Hinv G S HS0). lia.
    + intros x Hx. rewrite <- app_assoc. cbn [app]. apply Hok. right. exact Hx.
  - exfalso. destruct (Hok q (or_introl eq_refl)) as [Hu|[Hne Hle]].
    + apply (take_slot_unbounded q st); [rewrite Hfs; exact Hu|exact Ht].
    + pose proof (take_slot_none q st Ht) as Hn. rewrite Hfs in Hn.
      assert (Hi : nassigned (fun f => fmatch f q) st <= countP (cover (fields_for fs q)) u).
      { apply Hinv. intros f x Hin HG Hm. unfold cover. apply existsb_exists. exists f. split; [|exact Hm].
        unfold fields_for. apply filter_In. split; [rewrite <- Hfs; exact Hin|exact HG]. }
      rewrite countP_app, countP_cons in Hle. rewrite (cover_self fs q Hne) in Hle. lia.
Qed.

(* positions *)
Lemma take_slot_first q : forall st st' i f a,
  take_slot st q = Some st' -> first_idx (map fst st) q = Some i ->
  nth_error st i = Some (f, a) -> ef_bounded f = true -> nth_error st' i = Some (f, true).
Proof.
  induction st as [|[g b] r IH]; intros st' i f a; cbn [take_slot map fst first_idx]; [discriminate|].
  destruct (fmatch g q) eqn:Hm.
  - intros Ht Hi. inversion Hi; subst i. cbn [nth_error]. intros E Hb. inversion E; subst g b.
    rewrite Hb in Ht. cbn [negb] in Ht. destruct a.
    + destruct (take_slot r q); cbn in Ht; [|discriminate]. inversion Ht; subst. reflexivity.
    + inversion Ht; subst. reflexivity.
  - intros Ht Hi. destruct (first_idx (map fst r) q) as [j|] eqn:Ej; cbn in Hi; [|discriminate]. inversion Hi; subst i.
    cbn [nth_error]. intros E Hb. destruct (take_slot r q) as [r'|] eqn:Er; cbn in Ht; [|discriminate]. inversion Ht; subst.
    cbn [nth_error]. eapply IH; eauto.
Qed.

Lemma take_slot_mono q : forall st st' i f,
  take_slot st q = Some st' -> nth_error st i = Some (f, true) -> nth_error st' i = Some (f, true).
Proof.
  induction st as [|[g b] r IH]; intros st' i f; cbn [take_slot]; [discriminate|].
  intros Ht Hn. destruct (fmatch g q).
  - destruct (ef_bounded g); cbn [negb] in Ht.
    + destruct b.
      * destruct (take_slot r q) as [r'|] eqn:Er; cbn in Ht; [|discriminate]. inversion Ht; subst.
        destruct i; cbn [nth_error] in *; [exact Hn|]. eapply IH; eauto.
      * inversion Ht; subst. destruct i; cbn [nth_error] in *; [inversion Hn|exact Hn].
    + inversion Ht; subst. exact Hn.
  - destruct (take_slot r q) as [r'|] eqn:Er; cbn in Ht; [|discriminate]. inversion Ht; subst.
    destruct i; cbn [nth_error] in *; [exact Hn|]. eapply IH; eauto.
Qed.

Lemma nth_error_fst (st st' : slots) i f a :
  map fst st' = map fst st -> nth_error st i = Some (f, a) -> exists a', nth_error st' i = Some (f, a').
Proof.
  revert st' i. induction st as [|[g b] r IH]; intros [|[g' b'] r'] i E Hn; cbn in E; try discriminate.
  - destruct i; discriminate.
  - inversion E; subst. destruct i; cbn [nth_error] in *.
    + inversion Hn; subst. eauto.
    + eapply IH; eauto.
Qed.

Lemma run_slots_mono : forall w st st' i f,
  run_slots st w = Some st' -> nth_error st i = Some (f, true) -> nth_error st' i = Some (f, true).
Proof.
  induction w as [|x w IH]; intros st st' i f; cbn [run_slots].
  - intros E; inversion E; subst. auto.
  - destruct (take_slot st x) as [st1|] eqn:Ht; [|discriminate]. intros Hr Hn.
    eapply IH; [exact Hr|]. eapply take_slot_mono; eauto.
Qed.

Lemma run_slots_assigns q : forall w st st' i f a,
  run_slots st w = Some st' -> In q w -> first_idx (map fst st) q = Some i ->
  nth_error st i = Some (f, a) -> ef_bounded f = true -> nth_error st' i = Some (f, true).
Proof.
  induction w as [|x w IH]; intros st st' i f a; cbn [run_slots]; [intros _ []|].
  destruct (take_slot st x) as [st1|] eqn:Ht; [|discriminate]. intros Hr Hin Hi Hn Hb.
  pose proof (take_slot_fst _ _ _ Ht) as Hf.
  destruct (str_eqb_spec x q) as [E|NE].
  - subst x. eapply run_slots_mono; [exact Hr|]. eapply take_slot_first; eauto.
  - destruct Hin as [E|Hin]; [congruence|].
    destruct (nth_error_fst st st1 i f a Hf Hn) as [a' Hn'].
    eapply IH; eauto. rewrite Hf. exact Hi.
Qed.

Lemma check_required_from_nth c fs : forall l k,
  check_required_from c fs k l = true ->
  forall j f, nth_error l j = Some f -> required_field_ok c fs (k + j) f = true.
Proof.
  induction l as [|g r IH]; intros k H j f Hn; [destruct j; discriminate|].
  cbn [check_required_from] in H. apply andb_true_iff in H as [H1 H2].
  destruct j; cbn [nth_error] in Hn.
  - inversion Hn; subst. rewrite Nat.add_0_r. exact H1.
  - replace (k + S j) with (S k + j) by lia. eapply IH; eauto.
Qed.

(* ------------------------------------------------------------------ validator soundness *)
Lemma check_capacity_names c fs w :
  check_capacity c fs = true -> lang c w -> forall q, In q w -> name_ok fs w q.
Proof.
  unfold check_capacity. intros H HL q Hq. apply andb_true_iff in H as [Hall Hany].
  destruct (lang_letters _ _ HL q Hq) as [Ha|Ha].
  - rewrite forallb_forall in Hall. specialize (Hall q Ha). unfold check_name in Hall.
    apply orb_true_iff in Hall as [Hu|Hb]; [left; exact Hu|right].
    apply andb_true_iff in Hb as [Hne Hle]. split.
    + intros E. fold (fields_for fs q) in Hne. rewrite E in Hne. discriminate.
    + pose proof (count_le_maxcountP (cover (fields_for fs q)) c w HL) as Hc.
      exact (ele_trans _ _ _ Hc Hle).
  - left. rewrite Ha in Hany. cbn in Hany. apply existsb_exists in Hany as [f [Hf Hw]].
    apply andb_true_iff in Hw as [Hw Hb]. unfold has_unbounded. apply existsb_exists. exists f. split; [exact Hf|].
    unfold fmatch. rewrite Hw, Hb. reflexivity.
Qed.

Theorem check_sound c m w :
  check_children c m = true -> lang c w -> accepts_word m w = true.
Proof.
  unfold check_children, accepts_word. intros H HL. apply andb_true_iff in H as [Hcap Hreq].
  set (fs := m_fields m) in *.
  destruct (run_slots_ok fs w [] (init_slots fs)) as [st' [Hrun Hfst]].
  - apply init_slots_fst.
  - intros G S _. rewrite nassigned_init. lia.
  - intros q Hq. cbn [app]. eapply check_capacity_names; eauto.
  - rewrite Hrun. unfold required_ok. apply forallb_forall. intros [f a] Hin. cbn [fst snd].
    destruct (ef_required f) eqn:Er; [|reflexivity]. destruct (ef_bounded f) eqn:Eb; [|reflexivity]. cbn [negb orb].
    apply In_nth_error in Hin as [i Hi].
    assert (Hfi : nth_error fs i = Some f).
    { rewrite <- Hfst. rewrite nth_error_map, Hi. reflexivity. }
    pose proof (check_required_from_nth c fs fs 0 Hreq i f Hfi) as Hok. cbn [Nat.add] in Hok.
    unfold required_field_ok in Hok. rewrite Er, Eb in Hok. cbn [negb orb] in Hok.
    apply existsb_exists in Hok as [q [Hqa Hq]]. apply andb_true_iff in Hq as [Hidx Hmin].
    destruct (first_idx fs q) as [j|] eqn:Ej; [|discriminate]. apply Nat.eqb_eq in Hidx. subst j.
    apply Nat.leb_le in Hmin.
    pose proof (mincount_le_count q c w HL) as Hcnt.
    destruct (countP_pos_in (name_eqb q) w) as [x [Hx Hxq]]; [unfold count in Hcnt; lia|].
    apply name_eqb_eq in Hxq. subst x.
    assert (Hinit : nth_error (init_slots fs) i = Some (f, false)).
    { unfold init_slots. rewrite nth_error_map, Hfi. reflexivity. }
    pose proof (run_slots_assigns q w (init_slots fs) st' i f false Hrun Hx) as Hfin.
    rewrite init_slots_fst in Hfin. specialize (Hfin Ej Hinit Eb).
    rewrite Hi in Hfin. inversion Hfin. reflexivity.
Qed.

(* the statement in "capacity" form: nothing is lost because every child has a slot *)
Theorem accepts_all_sound c m :
  check_children c m = true ->
  forall w, lang c w ->
    (forall q, ele (count q w) (capacity m q) /\ (In q w -> capacity m q <> Some 0))
    /\ accepts_word m w = true.
Proof.
  intros H w HL. split; [|eapply check_sound; eauto].
  intros q. unfold check_children in H. apply andb_true_iff in H as [Hcap _].
  unfold capacity. fold (has_unbounded (m_fields m) q). fold (fields_for (m_fields m) q).
  destruct (has_unbounded (m_fields m) q) eqn:Hu; [split; [exact I|discriminate]|].
  split.
  - destruct (count q w) as [|n] eqn:E; [cbn; lia|].
    destruct (countP_pos_in (name_eqb q) w) as [x [Hx Hxq]]; [unfold count in E; lia|].
    apply name_eqb_eq in Hxq. subst x. rewrite <- E.
    destruct (check_capacity_names c _ w Hcap HL q Hx) as [Hu'|[Hne Hle]]; [congruence|].
    cbn. etransitivity; [|exact Hle]. apply countP_mono. intros x Hxq. apply name_eqb_eq in Hxq. subst x.
    apply cover_self. exact Hne.
  - intros Hq. destruct (check_capacity_names c _ w Hcap HL q Hq) as [Hu'|[Hne _]]; [congruence|].
    intros E. inversion E. destruct (fields_for (m_fields m) q); [congruence|discriminate].
Qed.

(* ------------------------------------------------------------------ order preservation *)
Lemma nondecr_app a b :
  nondecr a -> nondecr b -> (forall x y, In x a -> In y b -> x <= y) -> nondecr (a ++ b).
Proof.
  induction a as [|x a IH]; cbn [app nondecr]; [auto|]. intros [Hx Ha] Hb Hc. split.
  - apply Forall_app. split; [exact Hx|]. apply Forall_forall. intros y Hy. apply Hc; [left; reflexivity|exact Hy].
  - apply IH; auto. intros u v Hu Hv. apply Hc; [right; exact Hu|exact Hv].
Qed.

Lemma all_le_spec xs ys : all_le xs ys = true <-> forall x y, In x xs -> In y ys -> x <= y.
Proof.
  unfold all_le. rewrite forallb_forall. split.
  - intros H x y Hx Hy. specialize (H x Hx). rewrite forallb_forall in H. apply Nat.leb_le. apply H. exact Hy.
  - intros H x Hx. apply forallb_forall. intros y Hy. apply Nat.leb_le. apply H; assumption.
Qed.

Lemma nondecr_flat (L l : list nat) :
  (forall x y, In x L -> In y L -> x <= y) -> Forall (fun v => In v L) l -> nondecr l.
Proof.
  intros HL. induction 1 as [|v l Hv Hl IH]; cbn [nondecr]; [exact I|]. split; [|exact IH].
  apply Forall_forall. intros y Hy. rewrite Forall_forall in Hl. apply HL; [exact Hv|apply Hl; exact Hy].
Qed.

Lemma ranks_alphabet rk : forall c, ranks rk c = map rk (alphabet c).
Proof.
  fix IH 1. intros [q|l|l|l|allow|mn mx c]; cbn [ranks alphabet map]; try reflexivity; try apply IH.
  all: rewrite concat_map, map_map; f_equal; induction l as [|c l IHl]; cbn [map]; [reflexivity|]; rewrite IH, IHl; reflexivity.
Qed.

Lemma lang_ranks rk c w : lang c w -> has_any c = false -> Forall (fun q => In (rk q) (ranks rk c)) w.
Proof.
  intros HL Hn. apply Forall_forall. intros q Hq. rewrite ranks_alphabet. apply in_map.
  destruct (lang_letters _ _ HL q Hq) as [A|A]; [exact A|congruence].
Qed.

Lemma osafe_no_any rk : forall c, osafe rk c = true -> has_any c = false.
Proof.
  fix IH 1. intros [q|l|l|l|allow|mn mx c]; cbn [osafe has_any]; intros H.
  - reflexivity.
  - induction l as [|c l IHl]; [reflexivity|]. apply andb_true_iff in H as [H1 H3]. apply andb_true_iff in H1 as [H1 H2].
    cbn [existsb]. rewrite (IH c H1). cbn. apply IHl. exact H3.
  - induction l as [|c l IHl]; [reflexivity|]. cbn [forallb] in H. apply andb_true_iff in H as [H1 H2].
    cbn [existsb]. rewrite (IH c H1). cbn. apply IHl. exact H2.
  - apply andb_true_iff in H as [H1 _]. apply negb_true_iff in H1. exact H1.
  - discriminate.
  - apply andb_true_iff in H as [H1 _]. apply negb_true_iff in H1. exact H1.
Qed.

Section Order.
  Variable rk : name -> nat.

  Lemma nondecr_of_flat c w :
    lang c w -> has_any c = false -> all_le (ranks rk c) (ranks rk c) = true -> nondecr (map rk w).
  Proof.
    intros HL Hn Hle. apply (nondecr_flat (ranks rk c)).
    - apply all_le_spec. exact Hle.
    - pose proof (lang_ranks rk c w HL Hn) as HF. rewrite Forall_forall in HF. apply Forall_forall.
      intros v Hv. apply in_map_iff in Hv as [q [E Hq]]. subst. apply HF. exact Hq.
  Qed.

  Theorem osafe_sound : forall c w, lang c w -> osafe rk c = true -> nondecr (map rk w).
  Proof.
    fix IH 3. intros c w H. destruct H; intros Hs.
    - cbn. split; [constructor|exact I].
    - exact I.
    - change (osafe rk (Seq (c :: r))) with
        (osafe rk c && all_le (ranks rk c) (concat (map (ranks rk) r)) && osafe rk (Seq r)) in Hs.
      apply andb_true_iff in Hs as [Hs H3]. apply andb_true_iff in Hs as [H1 H2].
      rewrite map_app. apply nondecr_app; [apply (IH _ _ H H1)|apply (IH _ _ H0 H3)|].
      intros x y Hx Hy. apply in_map_iff in Hx as [q [E Hq]]. apply in_map_iff in Hy as [q' [E' Hq']]. subst.
      rewrite all_le_spec in H2. apply H2.
      + pose proof (lang_ranks rk c w1 H (osafe_no_any rk c H1)) as HF. rewrite Forall_forall in HF. apply HF. exact Hq.
      + pose proof (lang_ranks rk (Seq r) w2 H0 (osafe_no_any rk (Seq r) H3)) as HF. rewrite Forall_forall in HF.
        apply (HF q' Hq').
    - cbn [osafe forallb] in Hs. apply andb_true_iff in Hs as [H1 _]. apply (IH _ _ H H1).
    - cbn [osafe forallb] in Hs. apply andb_true_iff in Hs as [_ H2]. apply (IH _ _ H). exact H2.
    - cbn [osafe] in Hs. apply andb_true_iff in Hs as [H1 H2]. apply negb_true_iff in H1.
      apply (nondecr_of_flat (All l) w); [econstructor; eassumption|exact H1|exact H2].
    - discriminate.
    - cbn [osafe] in Hs. apply andb_true_iff in Hs as [Hn Hs]. apply negb_true_iff in Hn.
      apply orb_true_iff in Hs as [Hflat|Hone].
      + apply (nondecr_of_flat (Occ mn mx c) (concat ws)); [constructor; assumption|exact Hn|exact Hflat].
      + apply andb_true_iff in Hone as [Hc Hmx]. destruct mx as [k|]; [|discriminate]. cbn in Hmx, H0.
        apply Nat.leb_le in Hmx. destruct ws as [|w1 [|w2 ws]]; cbn [concat]; [exact I| |cbn in H0; lia].
        rewrite app_nil_r. inversion H1; subst. apply (IH _ _ H4 Hc).
  Qed.
End Order.

Lemma const_rank_spec fs : const_rank fs = true ->
  forall q, rank_of fs q = match fs with f :: _ => ef_rank f | [] => 0 end.
Proof.
  intros H q. unfold rank_of. destruct (first_idx fs q) as [i|] eqn:E; [|reflexivity].
  destruct fs as [|f r]; [discriminate|]. cbn [const_rank] in H. rewrite forallb_forall in H.
  destruct i; [reflexivity|]. cbn [nth].
  assert (Hi : i < length r).
  { clear H. cbn [first_idx] in E. destruct (fmatch f q); [discriminate|].
    destruct (first_idx r q) as [j|] eqn:Ej; cbn in E; [|discriminate]. inversion E; subst j. clear E.
    revert i Ej. induction r as [|g r IH]; intros i; cbn [first_idx]; [discriminate|].
    destruct (fmatch g q); [intros X; inversion X; cbn; lia|].
    destruct (first_idx r q) as [j|]; cbn; [|discriminate]. intros X; inversion X; subst. specialize (IH j eq_refl). cbn. lia. }
  apply Nat.eqb_eq. apply H. apply nth_In. exact Hi.
Qed.

Theorem order_safe_sound c m w :
  order_safe c m = true -> lang c w -> nondecr (map (rank_of (m_fields m)) w).
Proof.
  unfold order_safe. intros H HL. apply orb_true_iff in H as [Hc|Hs].
  - pose proof (const_rank_spec _ Hc) as Hr.
    apply (nondecr_flat [match m_fields m with f :: _ => ef_rank f | [] => 0 end]).
    + intros x y [<-|[]] [<-|[]]. lia.
    + apply Forall_forall. intros v Hv. apply in_map_iff in Hv as [q [E _]]. subst. rewrite Hr. left. reflexivity.
  - apply andb_true_iff in Hs as [Hs _]. eapply osafe_sound; eauto.
Qed.

(* a stable sort leaves an already sorted word alone *)
Lemma insert_by_first rk q l : Forall (fun x => rk q <= rk x) l -> insert_by rk q l = q :: l.
Proof.
  destruct l as [|x r]; [reflexivity|]. intros H. inversion H; subst. cbn [insert_by].
  destruct (Nat.leb_spec (rk q) (rk x)); [reflexivity|lia].
Qed.

Theorem emit_order_sorted rk w : nondecr (map rk w) -> emit_order rk w = w.
Proof.
  induction w as [|q w IH]; [reflexivity|]. cbn [map nondecr]. intros [Hq Hw].
  unfold emit_order in *. cbn [fold_right]. rewrite (IH Hw). apply insert_by_first.
  rewrite Forall_forall in Hq. apply Forall_forall. intros x Hx. apply Hq. apply in_map. exact Hx.
Qed.

Corollary order_preserved c m w :
  order_safe c m = true -> lang c w -> emit_order (rank_of (m_fields m)) w = w.
Proof. intros H HL. apply emit_order_sorted. eapply order_safe_sound; eauto. Qed.

(* ------------------------------------------------------------------ attributes *)
Lemma enum_eqb_in a b v : enum_eqb a b = true -> in_enum a v = in_enum b v.
Proof.
  destruct a as [x|], b as [y|]; cbn; try discriminate; [|reflexivity].
  intros H. apply andb_true_iff in H as [H1 H2]. rewrite forallb_forall in H1, H2.
  destruct (existsb (str_eqb v) x) eqn:Ex.
  - apply existsb_exists in Ex as [u [Hu E]]. apply str_eqb_eq in E. subst u. symmetry.
    specialize (H1 v Hu). apply existsb_exists in H1 as [u [Hu' E]]. apply existsb_exists. exists u. split; [exact Hu'|].
    exact E.
  - destruct (existsb (str_eqb v) y) eqn:Ey; [|reflexivity].
    apply existsb_exists in Ey as [u [Hu E]]. apply str_eqb_eq in E. subst u.
    specialize (H2 v Hu). congruence.
Qed.

Lemma attr_compat_sound d f present :
  attr_compat d f = true -> valid_attr d present = true ->
  afield_roundtrip f present = Some (effective d present).
Proof.
  intros H Hv.
  unfold attr_compat in H. apply andb_true_iff in H as [H Hu]. apply andb_true_iff in H as [_ He].
  unfold afield_roundtrip, effective, valid_attr in *. destruct present as [v|].
  - apply andb_true_iff in Hv as [Hin Hfx]. rewrite <- (enum_eqb_in _ _ v He), Hin. cbn [negb].
    destruct (ad_use d) as [| |v0|v0].
    + destruct (af_default f); [discriminate|]. apply negb_true_iff in Hu. rewrite Hu. reflexivity.
    + apply andb_true_iff in Hu as [Hu _]. apply andb_true_iff in Hu as [_ Hu]. apply negb_true_iff in Hu. rewrite Hu. reflexivity.
    + apply andb_true_iff in Hu as [_ Hu]. destruct (af_default f) as [x|]; [|discriminate].
      apply str_eqb_eq in Hu. apply str_eqb_eq in Hfx. subst. destruct (af_fixed f); [|reflexivity].
      rewrite str_eqb_refl. reflexivity.
    + apply andb_true_iff in Hu as [Hu _]. apply andb_true_iff in Hu as [_ Hu]. apply negb_true_iff in Hu. rewrite Hu. reflexivity.
  - destruct (ad_use d) as [| |v0|v0]; [discriminate| | |].
    + apply andb_true_iff in Hu as [Hu Hd0]. apply andb_true_iff in Hu as [Hu _]. apply negb_true_iff in Hu. rewrite Hu.
      destruct (af_default f); [discriminate|reflexivity].
    + apply andb_true_iff in Hu as [Hu Hd0]. apply negb_true_iff in Hu. rewrite Hu.
      destruct (af_default f) as [x|]; [|discriminate]. apply str_eqb_eq in Hd0. subst. reflexivity.
    + apply andb_true_iff in Hu as [Hu Hd0]. apply andb_true_iff in Hu as [Hu _]. apply negb_true_iff in Hu. rewrite Hu.
      destruct (af_default f) as [x|]; [|discriminate]. apply str_eqb_eq in Hd0. subst. reflexivity.
Qed.

Theorem check_attrs_sound ds fs :
  check_attrs ds fs = true ->
  forall d, In d ds -> forall present, valid_attr d present = true ->
    exists f, find_afield fs (ad_name d) = Some f /\ afield_roundtrip f present = Some (effective d present).
Proof.
  unfold check_attrs. intros H d Hd present Hv. apply andb_true_iff in H as [H _].
  rewrite forallb_forall in H. specialize (H d Hd).
  destruct (find_afield fs (ad_name d)) as [f|]; [|discriminate]. exists f. split; [reflexivity|].
  apply attr_compat_sound; assumption.
Qed.
