(* Proofs/EventGenChoice.v — XmlVar.find_clazz_choice (Model/EventGen.v) returns the documented best
   match (Model/EventGenCorr.v expected_choice): the first choice that lists the value's exact
   class when there is one, else the first choice listing a class the value's class derives from. *)
From Coq Require Import NArith ZArith List Bool.
From XV Require Import Base.Str Base.Eqb Model.Bind Model.EventGen Model.EventGenCorr.
Import ListNotations.
Open Scope N_scope.

Lemma find_clazz_choice_aux_spec u c els derived :
  find_clazz_choice_aux u c els derived =
  match find (fun qe => lists_exact c (snd qe)) els with
  | Some qe => Some (snd qe)
  | None => match derived with
            | Some d => Some d
            | None => option_map snd (find (fun qe => lists_base u c (snd qe)) els)
            end
  end.
Proof.
  revert derived. induction els as [|[q e] els IH]; intros derived; cbn [find_clazz_choice_aux find snd].
  - destruct derived; reflexivity.
  - unfold lists_exact at 1, lists_base at 1. cbn [snd].
    destruct (v_clazz e) as [k|].
    + destruct (existsb (ptype_eqb (TClass c)) (v_types e)); [reflexivity|].
      rewrite IH. unfold type_is_base_of.
      destruct (find (fun qe => lists_exact c (snd qe)) els); [reflexivity|].
      destruct derived; [reflexivity|].
      destruct (existsb (fun t => match t with TClass d => is_subclass u c d | _ => false end) (v_types e)); reflexivity.
    + rewrite IH. reflexivity.
Qed.

Theorem find_clazz_choice_expected u var c : find_clazz_choice u var c = expected_choice u var c.
Proof. unfold find_clazz_choice, expected_choice. rewrite find_clazz_choice_aux_spec. reflexivity. Qed.

(* in particular: a choice listing the exact class always wins over an earlier base-class choice *)
Corollary find_clazz_choice_exact u var c q e :
  find (fun qe => lists_exact c (snd qe)) (v_elements var) = Some (q, e) ->
  find_clazz_choice u var c = Some e.
Proof. intros H. rewrite find_clazz_choice_expected. unfold expected_choice. rewrite H. reflexivity. Qed.
