(* Proofs/ConvBytes.v — BytesConverter against xs:hexBinary and xs:base64Binary. *)
From Coq Require Import NArith ZArith List Bool Lia.
From XV Require Import Base.Str Base.PyInt Gen.PyUnicode Gen.ConvTables Model.ConvBytes Model.ConvGuards Spec.XsdPrims Proofs.ConvLemmas.
Import ListNotations.
Open Scope N_scope.

Ltac dm := zify; Z.to_euclidean_division_equations; lia.


(* ---- finite enumeration ------------------------------------------------ *)
Fixpoint upto (n : nat) : list N :=
  match n with O => [] | S k => upto k ++ [N.of_nat k] end.

Lemma upto_In n k : k < N.of_nat n -> In k (upto n).
Proof.
  induction n as [|n IH]; intros H; [lia|].
  cbn [upto]. apply in_or_app.
  destruct (N.eq_dec k (N.of_nat n)) as [->|Hne]; [right; left; reflexivity|].
  left. apply IH. lia.
Qed.

Lemma forall_lt (p : N -> bool) n :
  forallb p (upto n) = true -> forall k, k < N.of_nat n -> p k = true.
Proof. intros H k Hk. rewrite forallb_forall in H. apply H, upto_In, Hk. Qed.

(* ---- whitespace removal -------------------------------------------------- *)
Lemma filter_none {A} (p : A -> bool) l : forallb (fun x => negb (p x)) l = true -> filter p l = [].
Proof.
  induction l as [|x l IH]; cbn; [reflexivity|]. intros H. apply andb_true_iff in H as [Hx Hl].
  apply negb_true_iff in Hx. rewrite Hx. auto.
Qed.

Lemma filter_all {A} (p : A -> bool) l : forallb p l = true -> filter p l = l.
Proof.
  induction l as [|x l IH]; cbn; [reflexivity|]. intros H. apply andb_true_iff in H as [Hx Hl].
  rewrite Hx, IH by exact Hl. reflexivity.
Qed.

Definition not_space (c : N) : bool := negb (py_isspace c).

Lemma remove_ws_wrap a core b :
  forallb py_isspace a = true -> forallb py_isspace b = true -> forallb not_space core = true ->
  remove_ws (a ++ core ++ b) = core.
Proof.
  intros Ha Hb Hc. unfold remove_ws. change (fun c : N => negb (py_isspace c)) with not_space.
  rewrite !filter_app.
  rewrite (filter_none not_space a), (filter_none not_space b), (filter_all not_space core Hc).
  - rewrite app_nil_r. reflexivity.
  - eapply forallb_impl; [|exact Hb]. intros x Hx. unfold not_space. rewrite Hx. reflexivity.
  - eapply forallb_impl; [|exact Ha]. intros x Hx. unfold not_space. rewrite Hx. reflexivity.
Qed.

(* a predicate that holds for no Python whitespace character *)
Lemma not_space_by_pred (p : N -> bool) :
  forallb (fun x => negb (p x)) py_space_tbl = true -> forall c, p c = true -> py_isspace c = false.
Proof.
  intros T c Hc. destruct (py_isspace c) eqn:E; [|reflexivity]. exfalso.
  unfold py_isspace in E. apply mem_In in E. rewrite forallb_forall in T.
  specialize (T c E). rewrite Hc in T. discriminate.
Qed.

(* ================= base16 ================================================== *)
Lemma hex_val_eq c : hex_val c = xsd_hex_digit c.
Proof.
  unfold hex_val, xsd_hex_digit, is_ascii_digit.
  destruct (N.leb_spec 48 c), (N.leb_spec c 57); cbn [andb]; try reflexivity;
  destruct (N.leb_spec 97 c), (N.leb_spec c 102); cbn [andb];
  destruct (N.leb_spec 65 c), (N.leb_spec c 70); cbn [andb]; try reflexivity; try lia; f_equal; lia.
Qed.

Lemma unhexlify_eq_len n : forall s, (length s <= n)%nat -> unhexlify s = xsd_hexBinary s.
Proof.
  induction n as [|n IH]; intros s Hl.
  - destruct s; [reflexivity|cbn in Hl; lia].
  - destruct s as [|a [|b r]]; try reflexivity.
    cbn [unhexlify xsd_hexBinary]. rewrite !hex_val_eq, IH by (cbn in Hl; lia).
    destruct (xsd_hex_digit a), (xsd_hex_digit b), (xsd_hexBinary r); cbn; try reflexivity.
    rewrite N.mul_comm. reflexivity.
Qed.

Lemma unhexlify_eq s : unhexlify s = xsd_hexBinary s.
Proof. apply (unhexlify_eq_len (length s)). lia. Qed.

Definition is_hex_char (c : N) : bool := match xsd_hex_digit c with Some _ => true | None => false end.

Lemma hex_char_not_space c : is_hex_char c = true -> py_isspace c = false.
Proof. apply not_space_by_pred. vm_compute. reflexivity. Qed.

Lemma xsd_hex_chars_len n : forall s v, (length s <= n)%nat -> xsd_hexBinary s = Some v -> forallb not_space s = true.
Proof.
  induction n as [|n IH]; intros s v Hl H.
  - destruct s; [reflexivity|cbn in Hl; lia].
  - destruct s as [|a [|b r]]; [reflexivity|discriminate|].
    cbn [xsd_hexBinary] in H.
    destruct (xsd_hex_digit a) eqn:Ea; [|discriminate]. destruct (xsd_hex_digit b) eqn:Eb; [|discriminate].
    destruct (xsd_hexBinary r) eqn:Er; [|discriminate].
    cbn [forallb]. unfold not_space at 1 2.
    rewrite (hex_char_not_space a), (hex_char_not_space b) by (unfold is_hex_char; rewrite ?Ea, ?Eb; reflexivity).
    cbn. eapply IH; [|exact Er]. cbn in Hl. lia.
Qed.

Lemma fmt16 : fmt_is (Some bytes_fmt_base16) bytes_fmt_base16 = true.
Proof. reflexivity. Qed.
Lemma fmt64_16 : fmt_is (Some bytes_fmt_base64) bytes_fmt_base16 = false.
Proof. reflexivity. Qed.
Lemma fmt64 : fmt_is (Some bytes_fmt_base64) bytes_fmt_base64 = true.
Proof. reflexivity. Qed.

(* every xs:hexBinary lexical form (either case), in XML whitespace, is accepted with its value *)
Lemma hex_accepts_xsd core v a b :
  xsd_hexBinary core = Some v -> forallb xml_ws a = true -> forallb xml_ws b = true ->
  bytes_deser (Some bytes_fmt_base16) (a ++ core ++ b) = Some v.
Proof.
  intros H Ha Hb. unfold bytes_deser. rewrite fmt16.
  rewrite remove_ws_wrap.
  - rewrite unhexlify_eq. exact H.
  - eapply forallb_impl; [apply xml_ws_py_isspace|exact Ha].
  - eapply forallb_impl; [apply xml_ws_py_isspace|exact Hb].
  - eapply xsd_hex_chars_len; [|exact H]. apply Nat.le_refl.
Qed.

Lemma hex_digit_spec k : k < 16 -> xsd_hex_digit (hex_digit k) = Some k.
Proof.
  intros H.
  assert (T : forallb (fun k => match xsd_hex_digit (hex_digit k) with Some j => j =? k | None => false end) (upto 16) = true)
    by (vm_compute; reflexivity).
  pose proof (forall_lt _ 16 T k H) as P. cbn beta in P.
  destruct (xsd_hex_digit (hex_digit k)); [|discriminate]. apply N.eqb_eq in P. congruence.
Qed.

(* the serialized string is in the lexical space of xs:hexBinary and denotes the octets *)
Lemma hex_ser_valid b : bytes_ok b = true -> xsd_hexBinary (b16encode b) = Some b.
Proof.
  induction b as [|x b IH]; [reflexivity|]. intros H. cbn in H. apply andb_true_iff in H as [Hx Hb].
  apply N.ltb_lt in Hx. cbn [b16encode xsd_hexBinary].
  rewrite !hex_digit_spec by dm. rewrite IH by exact Hb. cbn [option_map]. f_equal. f_equal. dm.
Qed.

Lemma hex_roundtrip k b s :
  bytes_ok b = true -> bytes_ser k (Some bytes_fmt_base16) b = Some s ->
  bytes_deser (Some bytes_fmt_base16) s = Some b.
Proof.
  intros Hb H. unfold bytes_ser in H. rewrite fmt16, orb_true_r in H. inversion H; subst.
  pose proof (hex_accepts_xsd (b16encode b) b [] [] (hex_ser_valid b Hb) eq_refl eq_refl) as A.
  cbn [app] in A. rewrite app_nil_r in A. exact A.
Qed.

(* ================= base64 ================================================== *)
Definition b64_char_facts (c : N) : bool :=
  match xsd_b64_char c with
  | Some k => match a2b_char c with Some j => j =? k | None => false end
              && negb (c =? 61) && (k <? 64) && negb (py_isspace c)
  | None => true
  end.

Lemma xsd_b64_char_lt c k : xsd_b64_char c = Some k -> c < 128.
Proof.
  unfold xsd_b64_char.
  destruct (N.leb_spec 65 c), (N.leb_spec c 90); cbn [andb]; try (intros _; lia);
  destruct (N.leb_spec 97 c), (N.leb_spec c 122); cbn [andb]; try (intros _; lia);
  destruct (N.leb_spec 48 c), (N.leb_spec c 57); cbn [andb]; try (intros _; lia);
  destruct (N.eqb_spec c 43); try (intros _; lia); destruct (N.eqb_spec c 47); try (intros _; lia); discriminate.
Qed.

Lemma b64_char_spec c k :
  xsd_b64_char c = Some k -> a2b_char c = Some k /\ c <> 61 /\ k < 64 /\ py_isspace c = false.
Proof.
  intros H. pose proof (xsd_b64_char_lt c k H) as Hlt.
  assert (T : forallb b64_char_facts (upto 128) = true) by (vm_compute; reflexivity).
  pose proof (forall_lt _ 128 T c Hlt) as P. unfold b64_char_facts in P. rewrite H in P.
  repeat (apply andb_true_iff in P as [P ?]).
  destruct (a2b_char c) as [j|]; [|discriminate]. apply N.eqb_eq in P. subst j.
  repeat split; try reflexivity.
  - intros ->. discriminate.
  - apply N.ltb_lt. assumption.
  - apply negb_true_iff. assumption.
Qed.

Lemma a2b_step0 c k r :
  a2b_char c = Some k -> c <> 61 -> a2b_loop (c :: r) 0 0 0 false = a2b_loop r 1 k 0 false.
Proof. intros Hc Hne. cbn [a2b_loop]. apply N.eqb_neq in Hne. rewrite Hne, Hc. reflexivity. Qed.
Lemma a2b_step1 c k r left :
  a2b_char c = Some k -> c <> 61 ->
  a2b_loop (c :: r) 1 left 0 false = option_map (cons (left * 4 + k / 16)) (a2b_loop r 2 (k mod 16) 0 false).
Proof. intros Hc Hne. cbn [a2b_loop]. apply N.eqb_neq in Hne. rewrite Hne, Hc. reflexivity. Qed.
Lemma a2b_step2 c k r left :
  a2b_char c = Some k -> c <> 61 ->
  a2b_loop (c :: r) 2 left 0 false = option_map (cons (left * 16 + k / 4)) (a2b_loop r 3 (k mod 4) 0 false).
Proof. intros Hc Hne. cbn [a2b_loop]. apply N.eqb_neq in Hne. rewrite Hne, Hc. reflexivity. Qed.
Lemma a2b_step3 c k r left :
  a2b_char c = Some k -> c <> 61 ->
  a2b_loop (c :: r) 3 left 0 false = option_map (cons (left * 64 + k)) (a2b_loop r 0 0 0 false).
Proof. intros Hc Hne. cbn [a2b_loop]. apply N.eqb_neq in Hne. rewrite Hne, Hc. reflexivity. Qed.

Lemma b64_dec_agree_len n : forall t v,
  (length t <= n)%nat -> xsd_b64_nows t = Some v -> a2b_loop t 0 0 0 false = Some v.
Proof.
  induction n as [|n IH]; intros t v Hl H.
  - destruct t; [cbn in H; inversion H; reflexivity|cbn in Hl; lia].
  - destruct t as [|a [|b [|c [|d r]]]]; try discriminate; [cbn in H; inversion H; reflexivity|].
    cbn [xsd_b64_nows] in H.
    destruct (xsd_b64_char a) as [ka|] eqn:Ea; [|discriminate].
    destruct (xsd_b64_char b) as [kb|] eqn:Eb; [|discriminate].
    apply b64_char_spec in Ea as [Aa [Na [La _]]]. apply b64_char_spec in Eb as [Ab [Nb [Lb _]]].
    rewrite (a2b_step0 a ka) by assumption. rewrite (a2b_step1 b kb) by assumption.
    destruct ((c =? 61) && (d =? 61)) eqn:Ecd.
    + apply andb_true_iff in Ecd as [Ec Ed]. apply N.eqb_eq in Ec, Ed. subst c d.
      destruct r; [|discriminate]. destruct (N.eqb_spec (kb mod 16) 0) as [Em|]; [|discriminate].
      inversion H; subst. cbn. f_equal. f_equal. dm.
    + destruct (xsd_b64_char c) as [kc|] eqn:Ec; [|discriminate].
      apply b64_char_spec in Ec as [Ac [Nc [Lc _]]].
      rewrite (a2b_step2 c kc) by assumption.
      destruct (N.eqb_spec d 61) as [->|Nd].
      * destruct r; [|discriminate]. destruct (N.eqb_spec (kc mod 4) 0) as [Em|]; [|discriminate].
        inversion H; subst. cbn. f_equal. f_equal; [dm|]. f_equal.
        assert (E : ((ka * 64 + kb) * 64 + kc) / 4 = ka * 1024 + kb * 16 + kc / 4) by dm.
        rewrite E. apply N.mod_unique with (q := ka * 4 + kb / 16); dm.
      * destruct (xsd_b64_char d) as [kd|] eqn:Ed; [|discriminate].
        apply b64_char_spec in Ed as [Ad [_ [Ld _]]].
        rewrite (a2b_step3 d kd) by assumption.
        destruct (xsd_b64_nows r) as [l|] eqn:Er; [|discriminate].
        rewrite (IH r l) by (cbn in Hl; try lia; exact Er).
        cbn [option_map] in *. inversion H; subst. f_equal. f_equal; [dm|]. f_equal.
        -- assert (E : (((ka * 64 + kb) * 64 + kc) * 64 + kd) / 256 = ka * 1024 + kb * 16 + kc / 4) by dm.
           rewrite E. apply N.mod_unique with (q := ka * 4 + kb / 16); dm.
        -- f_equal. apply N.mod_unique with (q := ka * 1024 + kb * 16 + kc / 4); dm.
Qed.

Lemma xsd_b64_nows_hd t v : xsd_b64_nows t = Some v -> match t with 61 :: _ => False | _ => True end.
Proof.
  destruct t as [|a [|b [|c [|d r]]]]; try discriminate; [intros _; exact I|].
  cbn [xsd_b64_nows]. destruct (xsd_b64_char a) as [ka|] eqn:Ea; [|discriminate].
  apply b64_char_spec in Ea as [_ [Na _]]. intros _.
  destruct a as [|p]; [exact I|]. do 6 (destruct p; try exact I). congruence.
Qed.

Lemma b64decode_agree t v : xsd_b64_nows t = Some v -> b64decode t = Some v.
Proof.
  intros H. pose proof (xsd_b64_nows_hd t v H) as Hh.
  pose proof (b64_dec_agree_len (length t) t v (Nat.le_refl _) H) as A.
  unfold b64decode. destruct t as [|a r]; [exact A|].
  destruct a as [|p]; [exact A|]. do 6 (destruct p; try exact A). contradiction.
Qed.

Definition b64_text_char (c : N) : bool :=
  (c =? 61) || match xsd_b64_char c with Some _ => true | None => false end.

Lemma b64_text_char_not_space c : b64_text_char c = true -> py_isspace c = false.
Proof. apply not_space_by_pred. vm_compute. reflexivity. Qed.

Lemma xsd_b64_nows_chars_len n : forall t v,
  (length t <= n)%nat -> xsd_b64_nows t = Some v -> forallb b64_text_char t = true.
Proof.
  induction n as [|n IH]; intros t v Hl H.
  - destruct t; [reflexivity|cbn in Hl; lia].
  - destruct t as [|a [|b [|c [|d r]]]]; try discriminate; [reflexivity|].
    cbn [xsd_b64_nows] in H.
    destruct (xsd_b64_char a) as [ka|] eqn:Ea; [|discriminate].
    destruct (xsd_b64_char b) as [kb|] eqn:Eb; [|discriminate].
    cbn [forallb]. unfold b64_text_char at 1 2. rewrite Ea, Eb, !orb_true_r. cbn [andb].
    destruct ((c =? 61) && (d =? 61)) eqn:Ecd.
    + apply andb_true_iff in Ecd as [Ec Ed]. apply N.eqb_eq in Ec, Ed. subst c d.
      destruct r; [reflexivity|discriminate].
    + destruct (xsd_b64_char c) as [kc|] eqn:Ec; [|discriminate].
      unfold b64_text_char at 1. rewrite Ec, orb_true_r. cbn [andb].
      destruct (N.eqb_spec d 61) as [->|Nd].
      * destruct r; [reflexivity|discriminate].
      * destruct (xsd_b64_char d) as [kd|] eqn:Ed; [|discriminate].
        unfold b64_text_char at 1. rewrite Ed, orb_true_r. cbn [andb].
        destruct (xsd_b64_nows r) as [l|] eqn:Er; [|discriminate].
        eapply IH; [|exact Er]. cbn in Hl. lia.
Qed.

(* Python removes every Unicode whitespace character, XSD only XML whitespace:
   on a valid literal the two coincide *)
Lemma remove_ws_xml s :
  forallb b64_text_char (filter (fun c => negb (xml_ws c)) s) = true ->
  remove_ws s = filter (fun c => negb (xml_ws c)) s.
Proof.
  unfold remove_ws. induction s as [|c s IH]; [reflexivity|]. cbn [filter].
  destruct (xml_ws c) eqn:Ew; cbn [negb].
  - rewrite (xml_ws_py_isspace c Ew). cbn [negb]. exact IH.
  - cbn [forallb]. intros H. apply andb_true_iff in H as [Hc Hs].
    rewrite (b64_text_char_not_space c Hc). cbn [negb]. f_equal. apply IH, Hs.
Qed.

(* every xs:base64Binary literal (whitespace anywhere XSD allows it, all four
   padding shapes) is accepted with the octets XSD assigns *)
Lemma b64_accepts_xsd s v :
  xsd_base64Binary s = Some v -> bytes_deser (Some bytes_fmt_base64) s = Some v.
Proof.
  unfold xsd_base64Binary. intros H. unfold bytes_deser. rewrite fmt64_16, fmt64.
  rewrite remove_ws_xml.
  - apply b64decode_agree, H.
  - eapply xsd_b64_nows_chars_len; [|exact H]. apply Nat.le_refl.
Qed.

Lemma b2a_spec k : k < 64 -> xsd_b64_char (b2a k) = Some k /\ b2a k <> 61.
Proof.
  intros H.
  assert (T : forallb (fun k => match xsd_b64_char (b2a k) with Some j => j =? k | None => false end
                                && negb (b2a k =? 61)) (upto 64) = true) by (vm_compute; reflexivity).
  pose proof (forall_lt _ 64 T k H) as P. cbn beta in P. apply andb_true_iff in P as [P Q].
  destruct (xsd_b64_char (b2a k)); [|discriminate]. apply N.eqb_eq in P.
  apply negb_true_iff, N.eqb_neq in Q. split; congruence.
Qed.

Lemma b64_enc_valid_len n : forall b,
  (length b <= n)%nat -> bytes_ok b = true -> xsd_b64_nows (b64encode b) = Some b.
Proof.
  induction n as [|n IH]; intros b Hl Hb.
  - destruct b; [reflexivity|cbn in Hl; lia].
  - destruct b as [|x [|y [|z r]]]; [reflexivity| | |].
    + cbn in Hb. rewrite andb_true_r in Hb. apply N.ltb_lt in Hb.
      cbn [b64encode xsd_b64_nows].
      destruct (b2a_spec (x / 4)) as [E1 _]; [dm|]. destruct (b2a_spec ((x mod 4) * 16)) as [E2 _]; [dm|].
      rewrite E1, E2. cbn [N.eqb Pos.eqb andb].
      replace ((x mod 4 * 16) mod 16 =? 0) with true by (symmetry; apply N.eqb_eq; dm).
      f_equal. f_equal. dm.
    + cbn in Hb. rewrite andb_true_r in Hb. apply andb_true_iff in Hb as [Hx Hy]. apply N.ltb_lt in Hx, Hy.
      cbn [b64encode xsd_b64_nows].
      destruct (b2a_spec (x / 4)) as [E1 _]; [dm|].
      destruct (b2a_spec ((x mod 4) * 16 + y / 16)) as [E2 _]; [dm|].
      destruct (b2a_spec ((y mod 16) * 4)) as [E3 N3]; [dm|].
      rewrite E1, E2, E3. apply N.eqb_neq in N3. rewrite N3. cbn [N.eqb Pos.eqb andb].
      replace ((y mod 16 * 4) mod 4 =? 0) with true by (symmetry; apply N.eqb_eq; dm).
      f_equal. f_equal; [dm|]. f_equal.
      symmetry. apply N.mod_unique with (q := x); dm.
    + cbn in Hb. apply andb_true_iff in Hb as [Hx Hb]. apply andb_true_iff in Hb as [Hy Hb].
      apply andb_true_iff in Hb as [Hz Hr]. apply N.ltb_lt in Hx, Hy, Hz.
      cbn [b64encode xsd_b64_nows].
      destruct (b2a_spec (x / 4)) as [E1 _]; [dm|].
      destruct (b2a_spec ((x mod 4) * 16 + y / 16)) as [E2 _]; [dm|].
      destruct (b2a_spec ((y mod 16) * 4 + z / 64)) as [E3 N3]; [dm|].
      destruct (b2a_spec (z mod 64)) as [E4 N4]; [dm|].
      rewrite E1, E2, E3, E4. apply N.eqb_neq in N3, N4. rewrite N3, N4. cbn [andb].
      rewrite IH by (try exact Hr; cbn in Hl; lia). cbn [option_map].
      assert (V : ((x / 4 * 64 + (x mod 4 * 16 + y / 16)) * 64 + (y mod 16 * 4 + z / 64)) * 64 + z mod 64
                  = x * 65536 + y * 256 + z) by dm.
      rewrite V. f_equal. f_equal; [dm|]. f_equal; [|f_equal].
      * symmetry. apply N.mod_unique with (q := x); dm.
      * symmetry. apply N.mod_unique with (q := x * 256 + y); lia.
Qed.

Lemma b2a_text_char k : k < 64 -> b64_text_char (b2a k) = true.
Proof. intros H. unfold b64_text_char. destruct (b2a_spec k H) as [E _]. rewrite E. apply orb_true_r. Qed.

Lemma b64encode_chars_len n : forall b,
  (length b <= n)%nat -> bytes_ok b = true -> forallb b64_text_char (b64encode b) = true.
Proof.
  intros b Hl Hb. eapply xsd_b64_nows_chars_len; [apply Nat.le_refl|].
  apply (b64_enc_valid_len (length b)); [apply Nat.le_refl|exact Hb].
Qed.

Lemma b64_text_char_not_xml_ws c : b64_text_char c = true -> xml_ws c = false.
Proof.
  intros H. destruct (xml_ws c) eqn:E; [|reflexivity].
  apply xml_ws_py_isspace in E. rewrite (b64_text_char_not_space c H) in E. discriminate.
Qed.

(* the serialized string is in the lexical space of xs:base64Binary and denotes the octets *)
Lemma b64_ser_valid b : bytes_ok b = true -> xsd_base64Binary (b64encode b) = Some b.
Proof.
  intros Hb. unfold xsd_base64Binary. rewrite filter_all.
  - apply (b64_enc_valid_len (length b)); [apply Nat.le_refl|exact Hb].
  - eapply forallb_impl; [|apply (b64encode_chars_len (length b)); [apply Nat.le_refl|exact Hb]].
    intros c Hc. cbn. rewrite (b64_text_char_not_xml_ws c Hc). reflexivity.
Qed.

Lemma b64_roundtrip k b s :
  bytes_ok b = true -> bytes_ser k (Some bytes_fmt_base64) b = Some s ->
  (k = BHex -> False) ->
  bytes_deser (Some bytes_fmt_base64) s = Some b.
Proof.
  intros Hb H Hk. unfold bytes_ser in H. rewrite fmt64_16, fmt64, orb_true_r, orb_false_r in H.
  destruct k; try contradiction (Hk eq_refl); inversion H; subst; apply b64_accepts_xsd, b64_ser_valid, Hb.
Qed.

(* laxness (informational): the strict-mode decoder accepts forms outside the XSD
   lexical space — padding after a complete quad, non-zero discarded bits *)
Lemma b64_laxness :
  bytes_deser (Some bytes_fmt_base64) [65;65;65;65;61] = Some [0;0;0]
  /\ xsd_base64Binary [65;65;65;65;61] = None
  /\ bytes_deser (Some bytes_fmt_base64) [81;82;61;61] = Some [65]
  /\ xsd_base64Binary [81;82;61;61] = None.
Proof. repeat split; vm_compute; reflexivity. Qed.
