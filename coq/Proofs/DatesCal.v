(* Proofs/DatesCal.v — the regenerated month table and validate_* agree with the
   independent calendar of Spec/XsdDates.v. *)
From Coq Require Import NArith ZArith List Bool Lia ZifyBool.
From XV Require Import Base.Str Gen.DatesTables Model.Dates Spec.XsdDates.
Import ListNotations.
Open Scope Z_scope.
Ltac Zify.zify_post_hook ::= Z.to_euclidean_division_equations.

Lemma isleap_spec y : isleap y = spec_leap y.
Proof.
  unfold isleap, spec_leap.
  destruct (y mod 4 =? 0) eqn:E4; destruct (y mod 100 =? 0) eqn:E100;
    destruct (y mod 400 =? 0) eqn:E400; cbn; try reflexivity; exfalso; lia.
Qed.

Lemma monthlen_spec y m : 1 <= m <= 12 -> monthlen y m = spec_month_days y m.
Proof.
  intros H. unfold monthlen. rewrite isleap_spec.
  assert (C : m = 1 \/ m = 2 \/ m = 3 \/ m = 4 \/ m = 5 \/ m = 6 \/ m = 7 \/ m = 8 \/ m = 9
              \/ m = 10 \/ m = 11 \/ m = 12) by lia.
  repeat (destruct C as [->|C]; [cbn; try destruct (spec_leap y); reflexivity|]).
  subst; cbn; reflexivity.
Qed.

Lemma validate_date_real y m d : validate_date y m d = real_date y m d.
Proof.
  unfold validate_date, real_date.
  destruct ((1 <=? m) && (m <=? 12)) eqn:Hm; cbn [negb].
  - rewrite monthlen_spec by lia. rewrite <- andb_assoc. reflexivity.
  - destruct (1 <=? m) eqn:A; destruct (m <=? 12) eqn:B; cbn in *; try discriminate; reflexivity.
Qed.

Lemma validate_time_real h mi s f : validate_time h mi s f = real_time h mi s f.
Proof.
  unfold validate_time, real_time.
  destruct (0 <=? h) eqn:A; destruct (h <=? 24) eqn:B; destruct (h =? 24) eqn:C;
  destruct (mi =? 0) eqn:D; destruct (s =? 0) eqn:E; destruct (f =? 0) eqn:F;
  destruct (0 <=? mi) eqn:G; destruct (mi <=? 59) eqn:H; destruct (0 <=? s) eqn:I;
  destruct (s <=? 59) eqn:J; destruct (0 <=? f) eqn:K; destruct (f <=? 999999999) eqn:L;
  destruct (h <=? 23) eqn:M; cbn; try reflexivity; exfalso; lia.
Qed.
