(* Proofs/PycodeEval.v — the two halves of "evaluates back":
     eval_repr_norm : eval (repr v) = Some (norm v)      (what exec returns)
     veq_norm       : veq true (norm v) v = true         (it equals the original) *)
From Coq Require Import NArith ZArith List Bool Lia String.
From XV Require Import Base.Str Base.Eqb Spec.PyEval Model.Pycode Proofs.PycodeBase Proofs.PycodeEq.
Import ListNotations.
Notation length := List.length.

Definition resolves (E : env) (u : value) : Prop :=
  match type_of u with
  | Some c => env_lookup E (bound_name (import_pair c)) = Some (fst c, is_from (import_pair c))
  | None => True
  end.
Definition builtins_free (E : env) : Prop := forall n, is_builtin n = true -> env_lookup E n = None.

Definition ok1 (W : world) (E : env) (u : value) : Prop :=
  wf_local W u = true /\ resolves E u.

(* a type outside the datetime module is reached through `from m import <top-level name>` *)
Lemma resolves_from E u c :
  type_of u = Some c -> str_eqb (fst c) m_stdlib_datetime = false -> resolves E u ->
  env_lookup E (hd [] (snd c)) = Some (fst c, true).
Proof. intros Ht Hm. unfold resolves, import_pair. rewrite Ht, Hm. trivial. Qed.
(* a type of the datetime module through `import datetime` *)
Lemma resolves_mod E u c :
  type_of u = Some c -> str_eqb (fst c) m_stdlib_datetime = true -> resolves E u ->
  env_lookup E (fst c) = Some (fst c, false).
Proof. intros Ht Hm. unfold resolves, import_pair. rewrite Ht, Hm. trivial. Qed.

(* ---------------------------------------------------------------- calls *)
Lemma apply_call_lib W E n m k args kws :
  env_lookup E n = Some (m, true) -> lib_kind (m, [n]) = Some k ->
  apply_call W E [n] args kws = lib_call k args kws.
Proof. intros H1 H2. unfold apply_call. rewrite H1. unfold class_call. rewrite H2. reflexivity. Qed.

Lemma apply_call_lib_mod W E n rest m k args kws :
  env_lookup E n = Some (m, false) -> lib_kind (m, rest) = Some k ->
  apply_call W E (n :: rest) args kws = lib_call k args kws.
Proof. intros H1 H2. unfold apply_call. rewrite H1. unfold class_call. rewrite H2. reflexivity. Qed.

Lemma apply_call_builtin W E n args kws :
  env_lookup E n = None -> apply_call W E [n] args kws = builtin_call n args kws.
Proof. intros H1. unfold apply_call. rewrite H1. reflexivity. Qed.

Lemma apply_call_data W E n rest m fds kws :
  env_lookup E n = Some (m, true) -> lib_kind (m, n :: rest) = None -> find_data W (m, n :: rest) = Some fds ->
  apply_call W E (n :: rest) [] kws =
  if kw_known fds kws && names_nodup (map fst kws)
  then option_map (VObj (m, n :: rest)) (construct fds kws) else None.
Proof. intros H1 H2 H3. unfold apply_call. rewrite H1. unfold class_call. rewrite H2, H3. reflexivity. Qed.

Lemma eval_list_map_EInt W E l : eval_list W E (map EInt l) = Some (map VInt l).
Proof. induction l as [|z r IH]; cbn; [reflexivity|]. cbn in IH. rewrite IH. reflexivity. Qed.

Lemma ints_of_map l : ints_of (map VInt l) = Some l.
Proof. unfold ints_of. induction l as [|z r IH]; cbn; [reflexivity|]. rewrite IH. reflexivity. Qed.

Lemma unsnoc_app {A} (l : list A) (x : A) : unsnoc (l ++ [x]) = Some (l, x).
Proof. induction l as [|y l IH]; cbn; [reflexivity|]. cbn in IH. rewrite IH. reflexivity. Qed.

(* ---------------------------------------------------------------- scalars *)
Lemma eval_scalar W E v :
  builtins_free E -> is_container v = false -> ok1 W E v -> eval W E (repr W v) = Some (norm W v).
Proof.
  intros HB Hc (Hwf & Hres0).
  destruct v; try discriminate Hc; try reflexivity;
    try (match type of Hres0 with
         | resolves _ ?u => pose proof (resolves_from E u _ eq_refl eq_refl Hres0) as Hres
         end; cbn [hd snd fst] in Hres).
  - (* VFloat *)
    cbn [repr norm]. destruct (fl_isfinite bits) eqn:Ef; [reflexivity|].
    cbn [wf_local] in Hwf. rewrite Ef in Hwf. cbn [orb] in Hwf.
    apply andb_true_iff in Hwf as [_ Hwf].
    assert (HF : env_lookup E (lit "float") = None) by (apply HB; reflexivity).
    rewrite eval_ECall. cbn [eval_list eval eval_kws]. rewrite apply_call_builtin by exact HF.
    apply orb_true_iff in Hwf as [Hwf|Hwf]; [apply orb_true_iff in Hwf as [Hwf|Hwf]|];
      apply Z.eqb_eq in Hwf; subst bits; reflexivity.
  - (* VDecimal *)
    cbn [repr norm].
    rewrite eval_ECall. cbn [eval_list eval eval_kws].
    rewrite (apply_call_lib W E _ _ LDecimal _ _ Hres) by reflexivity.
    cbn [lib_call]. cbn [wf_local] in Hwf. destruct (dec_parse s); [reflexivity|discriminate].
  - (* VQName *)
    cbn [repr norm].
    rewrite eval_ECall. cbn [eval_list eval eval_kws].
    rewrite (apply_call_lib W E _ _ LQName _ _ Hres) by reflexivity. reflexivity.
  - (* VXml *)
    cbn [repr norm].
    rewrite eval_ECall, eval_list_map_EInt. cbn [eval_kws]. cbn [wf_local] in Hwf.
    destruct k.
    + rewrite (apply_call_lib W E _ _ LDate _ _ Hres) by reflexivity.
      cbn [lib_call]. rewrite ints_of_map.
      repeat (destruct args as [|? args]; cbn in Hwf; try discriminate Hwf).
      destruct off; reflexivity.
    + rewrite (apply_call_lib W E _ _ LTime _ _ Hres) by reflexivity.
      cbn [lib_call]. rewrite ints_of_map.
      repeat (destruct args as [|? args]; cbn in Hwf; try discriminate Hwf).
      destruct off; reflexivity.
    + rewrite (apply_call_lib W E _ _ LDateTime _ _ Hres) by reflexivity.
      cbn [lib_call]. rewrite ints_of_map.
      repeat (destruct args as [|? args]; cbn in Hwf; try discriminate Hwf).
      destruct off as [o|]; [reflexivity|].
      cbn [xml_repr_args last removelast].
      destruct (Z.eqb_spec z5 0) as [->|Hne]; reflexivity.
  - (* VDuration *)
    cbn [repr norm].
    cbn [wf_local] in Hwf. unfold raw_dq. rewrite Hwf.
    rewrite eval_ECall. cbn [eval_list eval eval_kws].
    rewrite (apply_call_lib W E _ _ LDuration _ _ Hres) by reflexivity. reflexivity.
  - (* VPeriod *)
    cbn [repr norm].
    cbn [wf_local] in Hwf. unfold raw_dq. rewrite Hwf.
    rewrite eval_ECall. cbn [eval_list eval eval_kws].
    rewrite (apply_call_lib W E _ _ LPeriod _ _ Hres) by reflexivity. reflexivity.
  - (* VStd *)
    pose proof (resolves_mod E (VStd k args) _ eq_refl eq_refl Hres0) as Hres. cbn [fst] in Hres.
    cbn [repr norm]. rewrite eval_ECall, eval_list_map_EInt. cbn [eval_kws]. cbn [wf_local] in Hwf.
    destruct k.
    + rewrite (apply_call_lib_mod W E _ _ _ LSDate _ _ Hres) by reflexivity.
      cbn [lib_call std_repr_args]. rewrite ints_of_map.
      repeat (destruct args as [|? args]; cbn in Hwf; try discriminate Hwf). reflexivity.
    + rewrite (apply_call_lib_mod W E _ _ _ LSTime _ _ Hres) by reflexivity.
      cbn [lib_call]. rewrite ints_of_map.
      repeat (destruct args as [|? args]; cbn in Hwf; try discriminate Hwf).
      unfold std_repr_args, drop_last_zero. cbn [last removelast].
      destruct (z2 =? 0)%Z eqn:E2; cbn [last removelast]; rewrite ?E2.
      * apply Z.eqb_eq in E2. subst z2.
        destruct (z1 =? 0)%Z eqn:E1; cbn [last removelast]; [apply Z.eqb_eq in E1; subst z1|]; reflexivity.
      * reflexivity.
    + rewrite (apply_call_lib_mod W E _ _ _ LSDateTime _ _ Hres) by reflexivity.
      cbn [lib_call]. rewrite ints_of_map.
      repeat (destruct args as [|? args]; cbn in Hwf; try discriminate Hwf).
      unfold std_repr_args, drop_last_zero. cbn [last removelast].
      destruct (z5 =? 0)%Z eqn:E2; cbn [last removelast]; rewrite ?E2.
      * apply Z.eqb_eq in E2. subst z5.
        destruct (z4 =? 0)%Z eqn:E1; cbn [last removelast]; [apply Z.eqb_eq in E1; subst z4|]; reflexivity.
      * reflexivity.
  - (* VEnum *)
    destruct c as [md q]. cbn [wf_local snd fst] in Hwf.
    apply andb_true_iff in Hwf as [Hwf _]. apply andb_true_iff in Hwf as [Hwf Hdt].
    apply andb_true_iff in Hwf as [Hwf Hq]. apply andb_true_iff in Hwf as [Hwf _].
    destruct q as [|x q]; [discriminate Hq|].
    apply negb_true_iff in Hdt.
    pose proof (resolves_from E (VEnum (md, x :: q) m) _ eq_refl Hdt Hres0) as Hres. cbn [hd snd fst] in Hres.
    cbn [repr norm snd eval]. rewrite unsnoc_app. cbn [resolve]. rewrite Hres, Hwf. reflexivity.
  - (* VFlag *)
    destruct c as [md q]. cbn [wf_local snd fst] in Hwf.
    apply andb_true_iff in Hwf as [Hwf _]. apply andb_true_iff in Hwf as [Hwf Hdt].
    apply andb_true_iff in Hwf as [Hwf Hq]. apply andb_true_iff in Hwf as [Hfl Hlib].
    destruct q as [|x q]; [discriminate Hq|]. apply negb_true_iff in Hdt.
    pose proof (resolves_from E (VFlag (md, x :: q) z) _ eq_refl Hdt Hres0) as Hres. cbn [hd snd fst] in Hres.
    cbn [repr norm snd]. rewrite eval_ECall. cbn [eval_list eval eval_kws].
    unfold apply_call. rewrite Hres. unfold class_call.
    destruct (lib_kind (md, x :: q)); [discriminate Hlib|].
    unfold find_data, flag_call.
    destruct (find_class W (md, x :: q)) as [[fr fds|ms [vals|]]|]; try discriminate Hfl.
    destruct (flag_member ms vals z); [discriminate Hfl|]. reflexivity.
Qed.

(* ---------------------------------------------------------------- lists *)
Lemma eval_list_repr W E l :
  Forall (fun x => eval W E (repr W x) = Some (norm W x)) l ->
  eval_list W E (map (repr W) l) = Some (map (norm W) l).
Proof.
  induction 1 as [|x r Hx Hr IH]; [reflexivity|].
  cbn [map eval_list]. cbn [eval_list] in IH. rewrite Hx, IH. reflexivity.
Qed.

Lemma Forall_subs_list W (Q : value -> Prop) l :
  (forall u, In u (flat_map (subs W) l) -> Q u) ->
  Forall (fun x => forall u, In u (subs W x) -> Q u) l.
Proof.
  intros H. apply Forall_forall. intros x Hx u Hu. apply H. eapply subs_list_in; eauto.
Qed.

(* ---------------------------------------------------------------- dicts *)
Lemma norm_scalar W k : scalar_key k = true -> norm W k = k.
Proof. destruct k; try discriminate; try reflexivity. destruct k; try discriminate; reflexivity. Qed.

Lemma scalar_hashable W k : scalar_key k = true -> hashable W k = true.
Proof. destruct k; try discriminate; reflexivity. Qed.

Lemma eval_pairs_repr W E kv :
  Forall (fun p => eval W E (repr W (fst p)) = Some (norm W (fst p))
                   /\ eval W E (repr W (snd p)) = Some (norm W (snd p))) kv ->
  eval_pairs W E (repr_pairs W kv) = Some (norm_pairs W kv).
Proof.
  induction 1 as [|[k x] r [Hk Hx] Hr IH]; [reflexivity|].
  cbn [repr_pairs eval_pairs norm_pairs]. cbn [fst snd] in Hk, Hx.
  cbn [eval_pairs repr_pairs norm_pairs] in IH. rewrite Hk, Hx, IH. reflexivity.
Qed.

Lemma norm_pairs_keys W kv :
  forallb scalar_key (map fst kv) = true -> map fst (norm_pairs W kv) = map fst kv.
Proof.
  induction kv as [|[k x] r IH]; [reflexivity|]. cbn [map fst forallb norm_pairs].
  intros H. apply andb_true_iff in H as [H1 H2]. cbn [norm_pairs] in IH.
  rewrite norm_scalar by exact H1. rewrite IH by exact H2. reflexivity.
Qed.

Lemma dict_put_fresh k v d :
  (forall k', In k' (map fst d) -> veq false k' k = false) -> dict_put k v d = d ++ [(k, v)].
Proof.
  induction d as [|[k' v'] r IH]; cbn; intros H; [reflexivity|].
  rewrite (H k') by auto. rewrite IH by auto. reflexivity.
Qed.

Lemma dict_fold_distinct ps : forall acc,
  keys_distinct (map fst acc ++ map fst ps) = true ->
  fold_left (fun d p => dict_put (fst p) (snd p) d) ps acc = acc ++ ps.
Proof.
  induction ps as [|[k v] r IH]; intros acc H; cbn [fold_left]; [rewrite app_nil_r; reflexivity|].
  cbn [fst snd].
  assert (Hf : forall k', In k' (map fst acc) -> veq false k' k = false).
  { clear IH. induction acc as [|[a b] acc IHa]; cbn; [tauto|].
    cbn in H. apply andb_true_iff in H as [H1 H2].
    intros k' [<-|Hin].
    - apply negb_true_iff in H1.
      destruct (veq false a k) eqn:E; [|reflexivity].
      assert (X : existsb (fun k'0 => veq false a k'0) (map fst acc ++ k :: map fst r) = true).
      { apply existsb_exists. exists k. split; [apply in_or_app; right; left; reflexivity|exact E]. }
      cbn [map fst] in H1. congruence.
    - apply IHa; assumption. }
  rewrite dict_put_fresh by exact Hf.
  rewrite IH.
  - rewrite <- app_assoc. reflexivity.
  - rewrite map_app. cbn [map fst]. rewrite <- app_assoc. exact H.
Qed.

Lemma dict_of_distinct ps : keys_distinct (map fst ps) = true -> dict_of ps = ps.
Proof. intros H. unfold dict_of. rewrite dict_fold_distinct; [reflexivity|exact H]. Qed.

(* ---------------------------------------------------------------- dataclass instances *)
Definition normkw (W : world) : list fdesc -> list (str * value) -> list (str * value) :=
  fix go (fds : list fdesc) (fs : list (str * value)) {struct fs} : list (str * value) :=
    match fds, fs with
    | fd :: fds', (_, x) :: fs' =>
        if printed fd x then (f_name fd, norm W x) :: go fds' fs' else go fds' fs'
    | _, _ => []
    end.

Lemma eval_kws_repr_fields W E : forall fs fds,
  Forall (fun p => (forall u, In u (subs W (snd p)) -> ok1 W E u) ->
                   eval W E (repr W (snd p)) = Some (norm W (snd p))) fs ->
  (forall u, In u (subs_fields W fds fs) -> ok1 W E u) ->
  eval_kws W E (repr_fields W fds fs) = Some (normkw W fds fs).
Proof.
  induction fs as [|[n x] fs IH]; intros fds HF Hok.
  - destruct fds; reflexivity.
  - destruct fds as [|fd fds]; [reflexivity|].
    inversion HF as [|? ? Hx HF']; subst. cbn [snd] in Hx.
    cbn [repr_fields normkw subs_fields] in *.
    destruct (printed fd x).
    + cbn [eval_kws]. rewrite Hx by (intros u Hu; apply Hok; apply in_or_app; left; exact Hu).
      cbn [eval_kws] in IH. rewrite (IH fds HF') by (intros u Hu; apply Hok; apply in_or_app; right; exact Hu).
      reflexivity.
    + apply IH; assumption.
Qed.

Lemma normkw_names W : forall fs fds n, In n (map fst (normkw W fds fs)) -> In n (map f_name fds).
Proof.
  induction fs as [|[m x] fs IH]; intros fds n H.
  - destruct fds; cbn in H; tauto.
  - destruct fds as [|fd fds]; [cbn in H; tauto|]. cbn [normkw] in H.
    destruct (printed fd x).
    + cbn in H. destruct H as [<-|H]; [left; reflexivity|right; eapply IH; exact H].
    + right. eapply IH; exact H.
Qed.

Fixpoint kw_agree (W : world) (kws : list (str * value)) (fds : list fdesc) (fs : list (str * value)) {struct fs} : Prop :=
  match fds, fs with
  | fd :: fds', (_, x) :: fs' =>
      assoc (f_name fd) kws = (if printed fd x then Some (norm W x) else None) /\ kw_agree W kws fds' fs'
  | _, _ => True
  end.

Lemma assoc_app_notin {A} n (a b : list (str * A)) : ~ In n (map fst a) -> assoc n (a ++ b) = assoc n b.
Proof.
  induction a as [|[k v] r IH]; cbn; [reflexivity|]. intros H.
  destruct (str_eqb_spec k n) as [->|Hn]; [tauto|]. apply IH. tauto.
Qed.

Lemma kw_agree_normkw W : forall fs fds pre,
  NoDup (map f_name fds) ->
  (forall n, In n (map fst pre) -> ~ In n (map f_name fds)) ->
  kw_agree W (pre ++ normkw W fds fs) fds fs.
Proof.
  induction fs as [|[m x] fs IH]; intros fds pre Hnd Hpre.
  - destruct fds; exact I.
  - destruct fds as [|fd fds]; [exact I|].
    cbn [map] in Hnd. inversion Hnd as [|? ? Hnotin Hnd']; subst.
    cbn [kw_agree normkw]. split.
    + rewrite assoc_app_notin by (intros Hin; apply (Hpre _ Hin); left; reflexivity).
      destruct (printed fd x).
      * cbn [assoc]. rewrite str_eqb_refl. reflexivity.
      * apply assoc_notin. intros Hin. apply Hnotin. eapply normkw_names; exact Hin.
    + destruct (printed fd x).
      * change (pre ++ (f_name fd, norm W x) :: normkw W fds fs)
          with (pre ++ [(f_name fd, norm W x)] ++ normkw W fds fs).
        rewrite app_assoc. apply IH; [exact Hnd'|].
        intros n Hin. rewrite map_app in Hin. apply in_app_or in Hin as [Hin|Hin].
        -- intros Hn. apply (Hpre _ Hin). right. exact Hn.
        -- cbn in Hin. destruct Hin as [<-|[]]. exact Hnotin.
      * apply IH; [exact Hnd'|]. intros n Hin Hn. apply (Hpre _ Hin). right. exact Hn.
Qed.

Lemma skip_default_some fd x : skip_default fd x = true -> exists d, default_of fd = Some d.
Proof. unfold skip_default, default_of. destruct (f_default fd); [discriminate|eauto|eauto]. Qed.

Lemma construct_ok W kws : forall fs fds,
  length fds = length fs ->
  kw_agree W kws fds fs ->
  forallb (fun fd => f_init fd || match default_of fd with Some _ => true | None => false end) fds = true ->
  construct fds kws = Some (norm_fields W fds fs).
Proof.
  induction fs as [|[m x] fs IH]; intros fds Hlen Hag Hdef.
  - destruct fds; [reflexivity|discriminate Hlen].
  - destruct fds as [|fd fds]; [discriminate Hlen|].
    cbn [kw_agree] in Hag. destruct Hag as [Ha Hag].
    cbn [forallb] in Hdef. apply andb_true_iff in Hdef as [Hd Hdef].
    cbn [construct norm_fields]. cbn [norm_fields] in IH.
    rewrite (IH fds) by (try assumption; cbn in Hlen; lia).
    rewrite Ha. unfold printed in *.
    destruct (f_init fd) eqn:Ei; cbn [andb] in *.
    + destruct (skip_default fd x) eqn:Es; cbn [negb].
      * destruct (skip_default_some _ _ Es) as [d Hdd]. rewrite Hdd. reflexivity.
      * reflexivity.
    + cbn [orb] in Hd. destruct (default_of fd); [reflexivity|discriminate Hd].
Qed.

Lemma kw_known_normkw W all : forall fs fds,
  (forall fd, In fd fds -> In fd all) -> kw_known all (normkw W fds fs) = true.
Proof.
  induction fs as [|[m x] fs IH]; intros fds Hsub.
  - destruct fds; reflexivity.
  - destruct fds as [|fd fds]; [reflexivity|]. cbn [normkw].
    assert (Hsub' : forall fd0, In fd0 fds -> In fd0 all) by (intros; apply Hsub; right; assumption).
    destruct (printed fd x) eqn:Ep; [|apply IH; exact Hsub'].
    unfold kw_known. cbn [forallb fst]. fold (kw_known all (normkw W fds fs)).
    rewrite (IH fds Hsub'), andb_true_r.
    apply existsb_exists. exists fd. split; [apply Hsub; left; reflexivity|].
    unfold printed in Ep. apply andb_true_iff in Ep as [Ei _]. rewrite Ei, str_eqb_refl. reflexivity.
Qed.

Lemma normkw_nodup W : forall fs fds,
  NoDup (map f_name fds) -> NoDup (map fst (normkw W fds fs)).
Proof.
  induction fs as [|[m x] fs IH]; intros fds Hnd.
  - destruct fds; constructor.
  - destruct fds as [|fd fds]; [constructor|]. cbn [map] in Hnd. inversion Hnd as [|? ? Hnotin Hnd']; subst.
    cbn [normkw]. destruct (printed fd x); [|apply IH; exact Hnd'].
    cbn [map fst]. constructor; [|apply IH; exact Hnd'].
    intros Hin. apply Hnotin. eapply normkw_names; exact Hin.
Qed.

Lemma list_eqb_length {A} (e : A -> A -> bool) a : forall b, list_eqb e a b = true -> length a = length b.
Proof.
  induction a as [|x a IH]; intros [|y b]; cbn; try discriminate; [reflexivity|].
  intros H. apply andb_true_iff in H as [_ H]. f_equal. apply IH. exact H.
Qed.

Lemma forallb_map_fst {A B} (f : A -> bool) (l : list (A * B)) :
  forallb f (map fst l) = forallb (fun p => f (fst p)) l.
Proof. induction l as [|p r IH]; cbn; [reflexivity|]. rewrite IH. reflexivity. Qed.

(* ---------------------------------------------------------------- sets *)
Lemma map_norm_scalar W l : forallb scalar_key l = true -> map (norm W) l = l.
Proof.
  induction l as [|x r IH]; cbn [map forallb]; [reflexivity|]. intros H.
  apply andb_true_iff in H as [H1 H2]. rewrite norm_scalar by exact H1. rewrite IH by exact H2. reflexivity.
Qed.

Lemma keys_distinct_fresh acc x r :
  keys_distinct (acc ++ x :: r) = true -> existsb (fun y => veq false y x) acc = false.
Proof.
  induction acc as [|a acc IH]; cbn; [reflexivity|]. intros H.
  apply andb_true_iff in H as [H1 H2]. rewrite (IH H2), orb_false_r.
  apply negb_true_iff in H1.
  destruct (veq false a x) eqn:E; [|reflexivity].
  assert (X : existsb (fun k' => veq false a k') (acc ++ x :: r) = true).
  { apply existsb_exists. exists x. split; [apply in_or_app; right; left; reflexivity|exact E]. }
  congruence.
Qed.

Lemma set_fold_distinct ps : forall acc,
  keys_distinct (acc ++ ps) = true -> fold_left set_add ps acc = acc ++ ps.
Proof.
  induction ps as [|x r IH]; intros acc H; cbn [fold_left]; [rewrite app_nil_r; reflexivity|].
  unfold set_add at 2. rewrite (keys_distinct_fresh acc x r H).
  rewrite IH by (rewrite <- app_assoc; exact H). rewrite <- app_assoc. reflexivity.
Qed.

Lemma set_of_distinct l : keys_distinct l = true -> set_of l = l.
Proof. intros H. unfold set_of. rewrite set_fold_distinct; [reflexivity|exact H]. Qed.

(* ---------------------------------------------------------------- the first half *)
Theorem eval_repr_norm W E :
  builtins_free E ->
  forall v, (forall u, In u (subs W v) -> ok1 W E u) -> eval W E (repr W v) = Some (norm W v).
Proof.
  intros HB. induction v using value_ind'; intros Hok.
  - apply eval_scalar; [exact HB|assumption|apply Hok; apply subs_self].
  - (* list *)
    cbn [repr norm]. rewrite eval_EList, eval_list_repr; [reflexivity|].
    apply Forall_forall. intros x Hx. rewrite Forall_forall in H. apply H; [exact Hx|].
    intros u Hu. apply Hok. eapply subs_VList_in; eauto.
  - (* tuple *)
    cbn [repr norm]. rewrite eval_ETuple, eval_list_repr; [reflexivity|].
    apply Forall_forall. intros x Hx. rewrite Forall_forall in H. apply H; [exact Hx|].
    intros u Hu. apply Hok. eapply subs_VTuple_in; eauto.
  - (* set *)
    destruct (Hok (VSet f l) (subs_self _ _)) as (Hwf & _).
    cbn [wf_local] in Hwf. apply andb_true_iff in Hwf as [Hsc Hdi].
    assert (HF : forall n, is_builtin n = true -> env_lookup E n = None) by exact HB.
    assert (HE : eval_list W E (map (repr W) l) = Some l).
    { rewrite eval_list_repr; [rewrite map_norm_scalar by exact Hsc; reflexivity|].
      apply Forall_forall. intros x Hx. rewrite Forall_forall in H. apply H; [exact Hx|].
      intros u Hu. apply Hok. eapply subs_VSet_in; eauto. }
    assert (Hh : forallb (hashable W) l = true).
    { apply forallb_forall. intros x Hx. apply scalar_hashable. eapply forallb_forall in Hsc; eauto. }
    assert (HS : eval W E (ESet (map (repr W) l)) = Some (VSet false l)).
    { rewrite eval_ESet, HE, Hh, set_of_distinct by exact Hdi. reflexivity. }
    cbn [repr norm]. rewrite map_norm_scalar by exact Hsc.
    destruct l as [|y l].
    + rewrite eval_ECall. cbn [eval_list eval_kws].
      destruct f; rewrite apply_call_builtin by (apply HF; reflexivity); reflexivity.
    + destruct f; [|exact HS].
      rewrite eval_ECall. cbn [eval_list]. rewrite HS. cbn [eval_kws].
      rewrite apply_call_builtin by (apply HF; reflexivity). reflexivity.
  - (* dict *)
    rewrite repr_VDict, norm_VDict, eval_EDict.
    destruct (Hok (VDict kv) (subs_self _ _)) as (Hwf & _).
    cbn [wf_local] in Hwf. apply andb_true_iff in Hwf as [Hsc Hdi].
    rewrite eval_pairs_repr.
    + assert (Hk : map fst (norm_pairs W kv) = map fst kv) by (apply norm_pairs_keys; exact Hsc).
      assert (Hh : forallb (fun p => hashable W (fst p)) (norm_pairs W kv) = true).
      { rewrite <- (forallb_map_fst (hashable W)). rewrite Hk.
        apply forallb_forall. intros k Hkin. apply scalar_hashable.
        rewrite forallb_forall in Hsc. apply Hsc. exact Hkin. }
      rewrite Hh, dict_of_distinct by (rewrite Hk; exact Hdi). reflexivity.
    + apply Forall_forall. intros [k x] Hin. rewrite Forall_forall in H.
      destruct (H _ Hin) as [IHk IHx]. cbn [fst snd] in *. split.
      * apply IHk. intros u Hu. apply Hok. rewrite subs_VDict. right. eapply subs_pairs_in; eauto.
      * apply IHx. intros u Hu. apply Hok. rewrite subs_VDict. right. eapply subs_pairs_in; eauto.
  - (* dataclass instance *)
    destruct (Hok (VObj c fs) (subs_self _ _)) as (Hwf & Hres0).
    cbn [wf_local] in Hwf. rewrite repr_VObj, norm_VObj.
    destruct (find_data W c) as [fds|] eqn:Ef; [|discriminate Hwf].
    apply andb_true_iff in Hwf as [Hwf Hns]. apply andb_true_iff in Hwf as [Hwf Hdt].
    apply andb_true_iff in Hwf as [Hwf Hq].
    apply andb_true_iff in Hwf as [Hwf Hlib]. apply andb_true_iff in Hwf as [Hwf Hdefs].
    apply andb_true_iff in Hwf as [Hnames Hnd0].
    apply negb_true_iff in Hdt.
    pose proof (resolves_from E (VObj c fs) _ eq_refl Hdt Hres0) as Hres.
    destruct c as [md q]. cbn [snd fst] in *. destruct q as [|n rest]; [discriminate Hq|].
    cbn [hd] in Hres.
    rewrite eval_ECall. cbn [eval_list].
    rewrite (eval_kws_repr_fields W E fs fds).
    + assert (Hlib' : lib_kind (md, n :: rest) = None)
        by (destruct (lib_kind (md, n :: rest)); [discriminate Hlib|reflexivity]).
      rewrite (apply_call_data W E n rest md fds _ Hres Hlib' Ef).
      assert (Hnd : NoDup (map f_name fds)) by (apply names_nodup_NoDup; exact Hnd0).
      rewrite kw_known_normkw by auto.
      rewrite NoDup_names_nodup by (apply normkw_nodup; exact Hnd).
      cbn [andb]. rewrite (construct_ok W _ fs fds).
      * reflexivity.
      * apply list_eqb_length in Hnames. rewrite !map_length in Hnames. symmetry. exact Hnames.
      * apply (kw_agree_normkw W fs fds []); [exact Hnd|intros ? []].
      * exact Hdefs.
    + eapply Forall_impl; [|exact H]. intros p Hp. exact Hp.
    + intros u Hu. apply Hok. rewrite subs_VObj, Ef. right. exact Hu.
Qed.

(* ---------------------------------------------------------------- the second half *)
Definition ok2 (W : world) (u : value) : Prop :=
  wf_local W u = true /\ g_init_local W u = true.

Lemma skip_default_veq fd x :
  skip_default fd x = true -> exists d, default_of fd = Some d /\ veq false d x = true.
Proof. unfold skip_default, default_of. destruct (f_default fd); [discriminate|eauto|eauto]. Qed.

Lemma veq_norm_fields W : forall fs fds,
  list_eqb str_eqb (map fst fs) (map f_name fds) = true ->
  init_fields_ok fds fs = true ->
  Forall (fun p => (forall u, In u (subs W (snd p)) -> ok2 W u) ->
                   veq true (norm W (snd p)) (snd p) = true) fs ->
  (forall u, In u (subs_fields W fds fs) -> ok2 W u) ->
  veq_fields true (norm_fields W fds fs) fs = true.
Proof.
  induction fs as [|[m x] fs IH]; intros fds Hn Hi HF Hok.
  - destruct fds; [reflexivity|discriminate Hn].
  - destruct fds as [|fd fds]; [discriminate Hn|].
    cbn [map fst list_eqb] in Hn. apply andb_true_iff in Hn as [Hm Hn]. apply str_eqb_true in Hm. subst m.
    cbn [init_fields_ok] in Hi. apply andb_true_iff in Hi as [Hi0 Hi].
    inversion HF as [|? ? Hx HF']; subst. cbn [snd] in Hx.
    cbn [norm_fields veq_fields subs_fields] in *.
    rewrite str_eqb_refl. cbn [andb].
    destruct (printed fd x) eqn:Ep.
    + rewrite Hx by (intros u Hu; apply Hok; apply in_or_app; left; exact Hu). cbn [andb].
      apply IH; try assumption. intros u Hu. apply Hok. apply in_or_app. right. exact Hu.
    + assert (Hv : veq true (match default_of fd with Some d => d | None => x end) x = true).
      { unfold printed in Ep. destruct (f_init fd) eqn:Ei; cbn [andb] in Ep.
        - apply negb_false_iff in Ep. destruct (skip_default_veq _ _ Ep) as [d [Hd Hv]].
          rewrite Hd. apply veq_mono. exact Hv.
        - destruct (default_of fd); [exact Hi0|discriminate Hi0]. }
      rewrite Hv. cbn [andb]. apply IH; assumption.
Qed.

Lemma veq_norm_scalar W v : is_container v = false -> veq true (norm W v) v = true.
Proof.
  intros Hc. destruct v; try discriminate Hc; try (apply veq_refl_scalar; reflexivity).
  cbn. apply str_eqb_refl.
Qed.

Lemma veq_list_norm W l :
  Forall (fun x => veq true (norm W x) x = true) l -> veq_list true (map (norm W) l) l = true.
Proof. induction 1 as [|x r Hx Hr IH]; cbn; [reflexivity|]. rewrite Hx. exact IH. Qed.

Theorem veq_norm W :
  forall v, (forall u, In u (subs W v) -> ok2 W u) -> veq true (norm W v) v = true.
Proof.
  induction v using value_ind'; intros Hok.
  - apply veq_norm_scalar; assumption.
  - cbn [norm]. rewrite veq_VList. apply veq_list_norm.
    apply Forall_forall. intros x Hx. rewrite Forall_forall in H. apply H; [exact Hx|].
    intros u Hu. apply Hok. eapply subs_VList_in; eauto.
  - cbn [norm]. rewrite veq_VTuple. apply veq_list_norm.
    apply Forall_forall. intros x Hx. rewrite Forall_forall in H. apply H; [exact Hx|].
    intros u Hu. apply Hok. eapply subs_VTuple_in; eauto.
  - cbn [norm]. rewrite veq_VSet, map_length, Nat.eqb_refl. cbn [andb].
    apply forallb_forall. intros y Hy. apply in_map_iff in Hy as [x [<- Hx]].
    apply existsb_exists. exists x. split; [exact Hx|].
    rewrite Forall_forall in H. apply H; [exact Hx|].
    intros u Hu. apply Hok. eapply subs_VSet_in; eauto.
  - rewrite norm_VDict, veq_VDict.
    assert (HF : Forall (fun p => veq true (norm W (fst p)) (fst p) = true
                                 /\ veq true (norm W (snd p)) (snd p) = true) kv).
    { apply Forall_forall. intros [k x] Hin. rewrite Forall_forall in H.
      destruct (H _ Hin) as [IHk IHx]. cbn [fst snd] in *. split.
      - apply IHk. intros u Hu. apply Hok. rewrite subs_VDict. right. eapply subs_pairs_in; eauto.
      - apply IHx. intros u Hu. apply Hok. rewrite subs_VDict. right. eapply subs_pairs_in; eauto. }
    clear H Hok. induction HF as [|[k x] r [Hk Hx] Hr IH]; [reflexivity|].
    cbn [norm_pairs veq_pairs]. cbn [fst snd] in Hk, Hx. rewrite Hk, Hx. exact IH.
  - destruct (Hok (VObj c fs) (subs_self _ _)) as (Hwf & Hi).
    cbn [wf_local] in Hwf. rewrite g_init_local_VObj in Hi. rewrite norm_VObj.
    destruct (find_data W c) as [fds|] eqn:Ef; [|discriminate Hwf].
    apply andb_true_iff in Hwf as [Hwf _]. apply andb_true_iff in Hwf as [Hwf _].
    apply andb_true_iff in Hwf as [Hwf _]. apply andb_true_iff in Hwf as [Hwf _].
    apply andb_true_iff in Hwf as [Hwf _]. apply andb_true_iff in Hwf as [Hnames _].
    rewrite veq_VObj, cref_eqb_refl. cbn [andb].
    apply veq_norm_fields; try assumption.
    intros u Hu. apply Hok. rewrite subs_VObj, Ef. right. exact Hu.
Qed.
