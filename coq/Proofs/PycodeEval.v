(* Proofs/PycodeEval.v — the two halves of "evaluates back":
     eval_repr_norm : eval (repr v) = Some (norm v)      (what exec returns)
     veq_norm       : veq true (norm v) v = true         (it equals the original) *)
From Coq Require Import NArith ZArith List Bool Lia String.
From XV Require Import Base.Str Base.Eqb Spec.PyEval Model.Pycode Proofs.PycodeBase Proofs.PycodeEq.
Import ListNotations.
Notation length := List.length.

Definition resolves (E : env) (u : value) : Prop :=
  match type_of u with
  | Some c => env_lookup E (hd [] (snd c)) = Some (fst c)
  | None => True
  end.
Definition builtins_free (E : env) : Prop := forall n, is_builtin n = true -> env_lookup E n = None.

Definition ok1 (W : world) (E : env) (u : value) : Prop :=
  wf_local W u = true /\ g_enum_local u = true /\ g_raw_local u = true /\ resolves E u.

(* ---------------------------------------------------------------- calls *)
Lemma apply_call_lib W E n m k args kws :
  env_lookup E n = Some m -> lib_kind (m, [n]) = Some k ->
  apply_call W E [n] args kws = lib_call k args kws.
Proof. intros H1 H2. unfold apply_call. rewrite H1. unfold class_call. rewrite H2. reflexivity. Qed.

Lemma apply_call_builtin W E n args kws :
  env_lookup E n = None -> apply_call W E [n] args kws = builtin_call n args kws.
Proof. intros H1. unfold apply_call. rewrite H1. reflexivity. Qed.

Lemma apply_call_data W E n rest m fds kws :
  env_lookup E n = Some m -> lib_kind (m, n :: rest) = None -> find_data W (m, n :: rest) = Some fds ->
  apply_call W E (n :: rest) [] kws =
  if kw_known fds kws && names_nodup (map fst kws)
  then option_map (VObj (m, n :: rest)) (construct fds kws) else None.
Proof. intros H1 H2 H3. unfold apply_call. rewrite H1. unfold class_call. rewrite H2, H3. reflexivity. Qed.

Lemma eval_list_map_EInt W E l : eval_list W E (map EInt l) = Some (map VInt l).
Proof. induction l as [|z r IH]; cbn; [reflexivity|]. cbn in IH. rewrite IH. reflexivity. Qed.

Lemma ints_of_map l : ints_of (map VInt l) = Some l.
Proof. unfold ints_of. induction l as [|z r IH]; cbn; [reflexivity|]. rewrite IH. reflexivity. Qed.

(* ---------------------------------------------------------------- scalars *)
Lemma eval_scalar W E v :
  builtins_free E -> is_container v = false -> ok1 W E v -> eval W E (repr W v) = Some (norm W v).
Proof.
  intros HB Hc (Hwf & Hen & Hraw & Hres).
  destruct v; try discriminate Hc; try reflexivity.
  - (* VFloat *)
    cbn [repr norm]. destruct (fl_isfinite bits) eqn:Ef; [reflexivity|].
    cbn [wf_local] in Hwf. rewrite Ef in Hwf. cbn [orb] in Hwf.
    apply andb_true_iff in Hwf as [_ Hwf].
    assert (HF : env_lookup E (lit "float") = None) by (apply HB; reflexivity).
    rewrite eval_ECall. cbn [eval_list eval eval_kws]. rewrite apply_call_builtin by exact HF.
    apply orb_true_iff in Hwf as [Hwf|Hwf]; [apply orb_true_iff in Hwf as [Hwf|Hwf]|];
      apply Z.eqb_eq in Hwf; subst bits; reflexivity.
  - (* VDecimal *)
    cbn [repr norm]. unfold resolves in Hres. cbn [type_of hd snd fst] in Hres.
    rewrite eval_ECall. cbn [eval_list eval eval_kws].
    rewrite (apply_call_lib W E _ _ LDecimal _ _ Hres) by reflexivity.
    cbn [lib_call]. cbn [wf_local] in Hwf. destruct (dec_parse s); [reflexivity|discriminate].
  - (* VQName *)
    cbn [repr norm]. unfold resolves in Hres. cbn [type_of hd snd fst] in Hres.
    cbn [g_raw_local] in Hraw. unfold raw_dq. rewrite Hraw.
    rewrite eval_ECall. cbn [eval_list eval eval_kws].
    rewrite (apply_call_lib W E _ _ LQName _ _ Hres) by reflexivity. reflexivity.
  - (* VXml *)
    cbn [repr norm]. unfold resolves in Hres. cbn [type_of hd snd fst] in Hres.
    rewrite eval_ECall, eval_list_map_EInt. cbn [eval_kws]. cbn [wf_local] in Hwf.
    destruct k.
    + rewrite (apply_call_lib W E _ _ LDate _ _ Hres) by reflexivity.
      cbn [lib_call]. rewrite ints_of_map.
      repeat (destruct args as [|? args]; cbn in Hwf; try discriminate Hwf).
      destruct off; reflexivity.
    + rewrite (apply_call_lib W E _ _ LTime _ _ Hres) by reflexivity.
      cbn [lib_call]. rewrite ints_of_map.
      repeat (destruct args as [|? args]; cbn in Hwf; try discriminate Hwf).
      destruct off; reflexivity.
    + rewrite (apply_call_lib W E _ _ LDateTime _ _ Hres) by reflexivity.
      cbn [lib_call]. rewrite ints_of_map.
      repeat (destruct args as [|? args]; cbn in Hwf; try discriminate Hwf).
      destruct off as [o|]; [reflexivity|].
      cbn [xml_repr_args last removelast].
      destruct (Z.eqb_spec z5 0) as [->|Hne]; reflexivity.
  - (* VDuration *)
    cbn [repr norm]. unfold resolves in Hres. cbn [type_of hd snd fst] in Hres.
    cbn [g_raw_local] in Hraw. unfold raw_dq. rewrite Hraw.
    rewrite eval_ECall. cbn [eval_list eval eval_kws].
    rewrite (apply_call_lib W E _ _ LDuration _ _ Hres) by reflexivity. reflexivity.
  - (* VPeriod *)
    cbn [repr norm]. unfold resolves in Hres. cbn [type_of hd snd fst] in Hres.
    cbn [g_raw_local] in Hraw. unfold raw_dq. rewrite Hraw.
    rewrite eval_ECall. cbn [eval_list eval eval_kws].
    rewrite (apply_call_lib W E _ _ LPeriod _ _ Hres) by reflexivity. reflexivity.
  - (* VEnum *)
    destruct c as [md q]. cbn [g_enum_local snd] in Hen.
    destruct q as [|x [|y q]]; try discriminate Hen.
    unfold resolves in Hres. cbn [type_of hd snd fst] in Hres.
    cbn [wf_local] in Hwf. apply andb_true_iff in Hwf as [Hwf _]. apply andb_true_iff in Hwf as [Hwf _].
    cbn [repr norm snd last eval unsnoc resolve]. rewrite Hres, Hwf. reflexivity.
Qed.
