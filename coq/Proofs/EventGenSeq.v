(* Proofs/EventGenSeq.v — the sequence loop of EventGenerator.next_value (Model/EventGen.v
   seq_round / seq_rolling, the literal `while rolling:` loop with fuel): for a group of list
   fields every item of every list is yielded exactly once, row by row — row j holds the j-th item
   of every field that has one, in field order — whatever the lengths of the lists. *)
From Coq Require Import NArith ZArith List Bool Lia.
From XV Require Import Base.Str Base.Eqb Model.Bind Model.EventGen.
Import ListNotations.

Section Seq.
  Variables (obj : value) (lst : xvar -> list value).

  (* every field of the group holds a list (or tuple) *)
  Definition list_valued (vars : list xvar) : Prop :=
    forall v, In v vars -> exists t, getattr obj (v_name v) = Ok (VList t (lst v)).

  Definition row (vars : list xvar) (j : nat) : list (xvar * value) :=
    flat_map (fun v => match nth_error (lst v) j with Some x => emit v x | None => [] end) vars.

  Definition longest (vars : list xvar) : nat := fold_right (fun v acc => Nat.max (length (lst v)) acc) O vars.

  Lemma round_spec vars j :
    list_valued vars ->
    seq_round obj vars j = Ok (row vars j, Nat.ltb j (longest vars)).
  Proof.
    induction vars as [|v vars IH]; intros H; [reflexivity|].
    destruct (H v (or_introl eq_refl)) as [t Hg]. cbn [seq_round]. rewrite Hg. cbn [gbind].
    rewrite IH by (intros w Hw; apply H; right; exact Hw). cbn [gbind].
    cbn [row flat_map longest fold_right].
    destruct (nth_error (lst v) j) as [x|] eqn:E.
    - assert (Hlt : (j < length (lst v))%nat) by (apply nth_error_Some; congruence).
      f_equal. f_equal. symmetry. apply Nat.ltb_lt. lia.
    - assert (Hge : (length (lst v) <= j)%nat) by (apply nth_error_None; exact E).
      f_equal. f_equal. cbn [app].
      destruct (Nat.ltb_spec j (longest vars)); symmetry; [apply Nat.ltb_lt|apply Nat.ltb_ge]; unfold longest in *; lia.
  Qed.

  Lemma row_beyond vars j : (longest vars <= j)%nat -> row vars j = [].
  Proof.
    induction vars as [|v vars IH]; intros H; [reflexivity|]. cbn [row flat_map longest fold_right] in *.
    assert (E : nth_error (lst v) j = None) by (apply nth_error_None; lia).
    rewrite E. cbn [app]. apply IH. unfold longest. lia.
  Qed.

  Lemma rolling_spec vars : list_valued vars ->
    forall n j fuel, (longest vars - j = n)%nat -> (n < fuel)%nat ->
    seq_rolling fuel obj vars j = Ok (flat_map (row vars) (seq j n)).
  Proof.
    intros H. induction n as [|n IH]; intros j fuel Hn Hf; (destruct fuel as [|f]; [lia|]); cbn [seq_rolling];
      rewrite (round_spec vars j H); cbn [gbind].
    - assert (E : Nat.ltb j (longest vars) = false) by (apply Nat.ltb_ge; lia). rewrite E.
      rewrite row_beyond by lia. reflexivity.
    - assert (E : Nat.ltb j (longest vars) = true) by (apply Nat.ltb_lt; lia). rewrite E.
      rewrite (IH (S j) f) by lia. reflexivity.
  Qed.

  Lemma seq_fuel_spec vars : list_valued vars -> seq_fuel obj vars = (2 + longest vars)%nat.
  Proof.
    intros H. unfold seq_fuel. f_equal. induction vars as [|v vars IH]; [reflexivity|].
    destruct (H v (or_introl eq_refl)) as [t Hg]. cbn [fold_right longest]. rewrite Hg.
    rewrite IH by (intros w Hw; apply H; right; exact Hw). reflexivity.
  Qed.

  (* with the fuel next_value gives it, the loop yields rows 0 .. longest-1 *)
  Theorem sequence_group_rows vars :
    list_valued vars ->
    seq_rolling (seq_fuel obj vars) obj vars O = Ok (flat_map (row vars) (seq 0 (longest vars))).
  Proof.
    intros H. rewrite (seq_fuel_spec vars H). apply (rolling_spec vars H); lia.
  Qed.
End Seq.
