(* Proofs/ContextEq.v — the boolean equalities of Model/Context.v decide equality. *)
From Coq Require Import NArith List Bool Lia.
From XV Require Import Base.Str Base.Eqb Model.Context.
Import ListNotations.
Open Scope N_scope.

Lemma ostr_eqb_eq (a b : ostr) : ostr_eqb a b = true <-> a = b.
Proof. apply opt_eqb_spec. intros x y. apply str_eqb_eq. Qed.

Lemma ostr_eqb_refl (a : ostr) : ostr_eqb a a = true.
Proof. apply ostr_eqb_eq. reflexivity. Qed.

Lemma ftype_eqb_eq a b : ftype_eqb a b = true <-> a = b.
Proof.
  destruct a, b; cbn; try (split; congruence).
  rewrite N.eqb_eq. split; congruence.
Qed.

Lemma fkind_eqb_eq a b : fkind_eqb a b = true <-> a = b.
Proof. destruct a, b; cbn; split; congruence. Qed.

Lemma bool_eqb_eq a b : Bool.eqb a b = true <-> a = b.
Proof. destruct a, b; cbn; split; congruence. Qed.

Lemma lstr_eqb_eq (a b : list str) : list_eqb str_eqb a b = true <-> a = b.
Proof. apply list_eqb_spec. intros x y. apply str_eqb_eq. Qed.

Lemma var_eqb_eq a b : var_eqb a b = true <-> a = b.
Proof.
  destruct a as [i1 n1 k1 q1 s1 t1 l1], b as [i2 n2 k2 q2 s2 t2 l2]. unfold var_eqb. cbn.
  rewrite !andb_true_iff, N.eqb_eq, !str_eqb_eq, fkind_eqb_eq, lstr_eqb_eq, ftype_eqb_eq, bool_eqb_eq.
  split.
  - intros [[[[[[-> ->] ->] ->] ->] ->] ->]. reflexivity.
  - intros E. inversion E. subst. repeat split.
Qed.

Lemma lvar_eqb_eq (a b : list var) : list_eqb var_eqb a b = true <-> a = b.
Proof. apply list_eqb_spec. apply var_eqb_eq. Qed.

Lemma meta_eqb_eq a b : meta_eqb a b = true <-> a = b.
Proof.
  destruct a as [c1 q1 n1 t1 v1], b as [c2 q2 n2 t2 v2]. unfold meta_eqb. cbn.
  rewrite !andb_true_iff, N.eqb_eq, str_eqb_eq, !ostr_eqb_eq, lvar_eqb_eq.
  split.
  - intros [[[[-> ->] ->] ->] ->]. reflexivity.
  - intros E. inversion E. subst. repeat split.
Qed.

Lemma meta_eqb_refl a : meta_eqb a a = true.
Proof. apply meta_eqb_eq. reflexivity. Qed.

Lemma ometa_eqb_eq (a b : option meta) : ometa_eqb a b = true <-> a = b.
Proof. apply opt_eqb_spec. apply meta_eqb_eq. Qed.

Lemma lcid_eqb_eq (a b : list cid) : lcid_eqb a b = true <-> a = b.
Proof. apply list_eqb_spec. intros x y. apply N.eqb_eq. Qed.
