(* Proofs/SampleOrder.v — ClassUtils.sorted_attrs keeps the order of what it merges:
   (1) attrs already placed never change their relative order (every step only inserts);
   (2) an attr that is NEW when its class is merged ends up before the attr that follows it in that class
       (a run of new attrs keeps its order and sits in front of the next known attr, or at the end).
   Full "every class keeps its relative order" is false of the faithful model: two classes that list the same two
   attrs in opposite orders cannot both be respected (refutation below). *)
From Coq Require Import NArith ZArith List Bool Lia Permutation.
From XV Require Import Base.Str Base.Eqb Gen.SampleTables Model.Sample Model.SampleCorr
  Proofs.SampleBase Proofs.SampleReduce Proofs.SampleBuild.
Import ListNotations.
Open Scope N_scope.

(* k1 occurs before k2 in the key list *)
Definition kbefore (l : list attr) (k1 k2 : K3) : Prop := exists a b, keys l = a ++ k1 :: b /\ In k2 b.

Inductive Subseq {A} : list A -> list A -> Prop :=
| sub_nil l : Subseq [] l
| sub_keep x l l' : Subseq l l' -> Subseq (x :: l) (x :: l')
| sub_skip x l l' : Subseq l l' -> Subseq l (x :: l').

Lemma Subseq_refl {A} (l : list A) : Subseq l l.
Proof. induction l; constructor; auto. Qed.

Lemma Subseq_trans {A} (a b c : list A) : Subseq a b -> Subseq b c -> Subseq a c.
Proof.
  intros H1 H2. revert a H1. induction H2 as [l|x l l' H IH|x l l' H IH]; intros a H1.
  - inversion H1; constructor.
  - inversion H1; subst; [constructor|constructor; auto|apply sub_skip; auto].
  - apply sub_skip. auto.
Qed.

Lemma Subseq_app_l {A} (p l : list A) : Subseq l (p ++ l).
Proof. induction p; cbn; [apply Subseq_refl|apply sub_skip; assumption]. Qed.

Lemma Subseq_app_r {A} (l p : list A) : Subseq l (l ++ p).
Proof. induction l; cbn; constructor; assumption. Qed.

Lemma Subseq_app {A} (a a' b b' : list A) : Subseq a a' -> Subseq b b' -> Subseq (a ++ b) (a' ++ b').
Proof.
  induction 1; cbn; intros H2.
  - eapply Subseq_trans; [exact H2|apply Subseq_app_l].
  - constructor. auto.
  - apply sub_skip. auto.
Qed.

Lemma Subseq_In {A} (l l' : list A) x : Subseq l l' -> In x l -> In x l'.
Proof. induction 1; cbn; intros H0; [contradiction| |right; auto]. destruct H0; [left; assumption|right; auto]. Qed.

Lemma Subseq_map {A B} (f : A -> B) l l' : Subseq l l' -> Subseq (map f l) (map f l').
Proof. induction 1; cbn; constructor; assumption. Qed.

Lemma Subseq_before (l l' : list K3) k1 k2 a b :
  Subseq l l' -> l = a ++ k1 :: b -> In k2 b -> exists a' b', l' = a' ++ k1 :: b' /\ In k2 b'.
Proof.
  intros H. revert a. induction H as [l'|x l l' H IH|x l l' H IH]; intros a E Hin.
  - destruct a; discriminate.
  - destruct a as [|y a]; cbn in E; inversion E; subst.
    + exists [], l'. split; [reflexivity|]. eapply Subseq_In; eauto.
    + destruct (IH a eq_refl Hin) as [a' [b' [E' Hb']]]. exists (y :: a'), b'. split; [cbn; rewrite E'; reflexivity|exact Hb'].
  - destruct (IH a E Hin) as [a' [b' [E' Hb']]]. exists (x :: a'), b'. split; [cbn; rewrite E'; reflexivity|exact Hb'].
Qed.

Lemma kbefore_subseq l l' k1 k2 : Subseq l l' -> kbefore l k1 k2 -> kbefore l' k1 k2.
Proof.
  intros H [a [b [E Hin]]]. unfold kbefore. eapply Subseq_before; [apply Subseq_map; exact H|exact E|exact Hin].
Qed.

Lemma insert_at_split {A} pos (ins l : list A) : insert_at pos ins l = firstn pos l ++ ins ++ skipn pos l.
Proof.
  revert pos. induction l as [|x l IH]; intros [|p]; cbn; try (rewrite app_nil_r; reflexivity); try reflexivity.
  rewrite IH. reflexivity.
Qed.

Lemma insert_at_subseq {A} pos (ins l : list A) : Subseq l (insert_at pos ins l).
Proof.
  rewrite insert_at_split. rewrite <- (firstn_skipn pos l) at 1.
  apply Subseq_app; [apply Subseq_refl|apply Subseq_app_l].
Qed.

(* (1) what is already placed keeps its order *)
Lemma scan_subseq : forall rest attrs pending, Subseq attrs (scan attrs pending rest).
Proof.
  induction rest as [|x r IH]; intros attrs pending; cbn.
  - apply Subseq_app_r.
  - destruct (find_idx attrs x) as [pos|]; [|apply IH].
    eapply Subseq_trans; [apply insert_at_subseq|apply IH].
Qed.

Lemma scan_pending_subseq : forall rest attrs pending, Subseq pending (scan attrs pending rest).
Proof.
  induction rest as [|x r IH]; intros attrs pending; cbn.
  - apply Subseq_app_l.
  - destruct (find_idx attrs x) as [pos|].
    + eapply Subseq_trans; [|apply scan_subseq]. rewrite insert_at_split.
      eapply Subseq_trans; [|apply Subseq_app_l]. apply Subseq_app_r.
    + eapply Subseq_trans; [apply Subseq_app_r|apply IH].
Qed.

Lemma kbefore_in_list (l : list attr) u v a b : l = a ++ u :: b -> In v b -> kbefore l (key u) (key v).
Proof.
  intros -> Hin. exists (keys a), (keys b). split; [rewrite keys_app; reflexivity|apply in_map; exact Hin].
Qed.

(* (2) within the class being merged: a new attr comes before its successor *)
Lemma scan_new_before : forall rest attrs pending u v a b,
  NoDup (keys (pending ++ rest)) ->
  pending ++ rest = a ++ u :: v :: b ->
  ~ In (key u) (keys attrs) ->
  kbefore (scan attrs pending rest) (key u) (key v).
Proof.
  induction rest as [|x r IH]; intros attrs pending u v a b ND E Hnew.
  - cbn [scan]. rewrite app_nil_r in E. eapply kbefore_subseq; [apply Subseq_app_l|].
    eapply kbefore_in_list; [exact E|left; reflexivity].
  - cbn [scan]. destruct (find_idx attrs x) as [pos|] eqn:F.
    + (* x is known: the pending run goes in front of it *)
      destruct (find_idx_Some _ _ _ F) as [x' [Nx Kx]].
      assert (Hsplit : attrs = firstn pos attrs ++ x' :: skipn (S pos) attrs).
      { clear - Nx. revert pos Nx. induction attrs as [|y l IHl]; intros [|p] H; cbn in *; try discriminate.
        - inversion H. reflexivity.
        - f_equal. apply IHl. exact H. }
      set (attrs' := insert_at pos pending attrs).
      assert (Eattrs' : attrs' = firstn pos attrs ++ pending ++ x' :: skipn (S pos) attrs).
      { unfold attrs'. rewrite insert_at_split. f_equal. f_equal. rewrite Hsplit at 1.
        rewrite skipn_app, skipn_all2 by (rewrite firstn_length; lia). cbn [app].
        replace (pos - length (firstn pos attrs))%nat with O.
        - reflexivity.
        - rewrite firstn_length. assert (pos < length attrs)%nat by (apply nth_error_Some; congruence). lia. }
      (* where is u ? *)
      assert (Cases : (exists a2, pending = a ++ u :: v :: a2) \/ (pending = a ++ [u] /\ v = x)
                      \/ (exists a1, a = pending ++ x :: a1 /\ r = a1 ++ u :: v :: b) \/ (a = pending /\ u = x)).
      { clear - E. revert a E. induction pending as [|y p IHp]; intros a E; cbn in E.
        - destruct a as [|z a]; cbn in E; inversion E; subst; [right; right; right; auto|].
          right; right; left. exists a. auto.
        - destruct a as [|z a]; cbn in E; inversion E; subst.
          + destruct p as [|y2 p]; cbn in H1; inversion H1; subst; [right; left; auto|left; exists p; reflexivity].
          + destruct (IHp a H1) as [[a2 ->]|[[-> ->]|[[a1 [-> ->]]|[-> ->]]]].
            * left. exists a2. reflexivity.
            * right; left. auto.
            * right; right; left. exists a1. auto.
            * right; right; right. auto. }
      destruct Cases as [[a2 Ep]|[[Ep Ev]|[[a1 [Ea Er]]|[Ea Eu]]]].
      * eapply kbefore_subseq; [apply scan_subseq|]. fold attrs'. rewrite Eattrs', Ep.
        eapply (kbefore_in_list _ u v (firstn pos attrs ++ a) (v :: a2 ++ x' :: skipn (S pos) attrs)).
        -- rewrite <- !app_assoc. reflexivity.
        -- left. reflexivity.
      * subst v. eapply kbefore_subseq; [apply scan_subseq|]. fold attrs'. rewrite Eattrs', Ep, <- Kx.
        eapply (kbefore_in_list _ u x' (firstn pos attrs ++ a) (x' :: skipn (S pos) attrs)).
        -- rewrite <- !app_assoc. reflexivity.
        -- left. reflexivity.
      * apply (IH attrs' [] u v a1 b).
        -- cbn. apply NoDup_keys_app_inv in ND as [_ [ND _]]. unfold keys in *. cbn in ND. inversion ND; assumption.
        -- exact Er.
        -- unfold attrs'. intros Hin. apply in_map_iff in Hin as [z [Kz Hz]].
           apply (Permutation_in _ (insert_at_perm pos pending attrs)) in Hz. apply in_app_iff in Hz as [Hz|Hz].
           ++ (* u is in r, z in pending with the same key: contradicts NoDup *)
              apply NoDup_keys_app_inv in ND as [_ [_ D]]. apply (D (key u)); [rewrite <- Kz; apply in_map; exact Hz|].
              rewrite Er. unfold keys. cbn. right. rewrite map_app. apply in_or_app. right. left. reflexivity.
           ++ apply Hnew. rewrite <- Kz. apply in_map. exact Hz.
      * exfalso. subst u. apply Hnew. rewrite <- Kx. apply in_map. eapply nth_error_In; eauto.
    + apply (IH attrs (pending ++ [x]) u v a b).
      * rewrite <- app_assoc. exact ND.
      * rewrite <- app_assoc. exact E.
      * exact Hnew.
Qed.

Lemma fold_scan_subseq : forall cs acc, Subseq acc (fold_left (fun acc c => scan acc [] c) cs acc).
Proof.
  induction cs as [|c cs IH]; intros acc; cbn; [apply Subseq_refl|].
  eapply Subseq_trans; [apply scan_subseq|apply IH].
Qed.

Lemma sorted_attrs_app pre c post :
  sorted_attrs (pre ++ c :: post) = fold_left (fun acc c => scan acc [] c) post (scan (sorted_attrs pre) [] c).
Proof. unfold sorted_attrs. rewrite fold_left_app. reflexivity. Qed.

(* the attrs merged so far keep their relative order when further classes are merged *)
Theorem sorted_attrs_stable : forall pre post, Subseq (sorted_attrs pre) (sorted_attrs (pre ++ post)).
Proof. intros pre post. unfold sorted_attrs. rewrite fold_left_app. apply fold_scan_subseq. Qed.

(* an attr that is new when its class is merged precedes its successor in that class *)
Theorem sorted_attrs_new_before : forall pre c post a u v b,
  NoDup (keys c) -> c = a ++ u :: v :: b -> ~ In (key u) (keys (sorted_attrs pre)) ->
  kbefore (sorted_attrs (pre ++ c :: post)) (key u) (key v).
Proof.
  intros pre c post a u v b ND E Hnew. rewrite sorted_attrs_app.
  eapply kbefore_subseq; [apply fold_scan_subseq|].
  eapply scan_new_before; eauto.
Qed.

(* the first (largest) class is kept as it is *)
Corollary sorted_attrs_first : forall c post, Subseq c (sorted_attrs (c :: post)).
Proof.
  intros c post. change (c :: post) with ([] ++ c :: post). rewrite sorted_attrs_app.
  eapply Subseq_trans; [|apply fold_scan_subseq].
  change (sorted_attrs []) with (@nil attr). clear. 
  assert (G : forall rest pending, scan [] pending rest = pending ++ rest).
  { induction rest as [|x r IH]; intros pending; cbn; [rewrite app_nil_r; reflexivity|]. rewrite IH, <- app_assoc. reflexivity. }
  rewrite G. apply Subseq_refl.
Qed.

(* full order preservation is false: opposite orders in two classes *)
Definition ka (n : N) : attr := mk_attr tag_ELEMENT [n] None [] 1 1 0 O.
Theorem sorted_attrs_order_refuted :
  exists cs c u v, In c cs /\ c = [u; v] /\ ~ kbefore (sorted_attrs cs) (key u) (key v).
Proof.
  exists [[ka 97; ka 98; ka 99]; [ka 98; ka 97]], [ka 98; ka 97], (ka 98), (ka 97).
  split; [right; left; reflexivity|]. split; [reflexivity|].
  intros [a [b [E Hin]]]. vm_compute in E.
  destruct a as [|k0 [|k1 [|k2 a3]]]; cbn in E; inversion E; subst; cbn in Hin;
    try (destruct a3; discriminate);
    repeat (destruct Hin as [Hin|Hin]; try discriminate Hin); try contradiction.
Qed.
