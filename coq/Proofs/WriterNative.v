(* Proofs/WriterNative.v — the XMLGenerator sink on a well-formed SAX tree:
   (N) `nsteps` over `sflat n` writes exactly the tokens `rtoks r` of the raw tree
       `r = rnode_of c n` and restores its namespace context;
   (B) the reader's tree builder reads those tokens back as `r`;
   (R) namespace resolution of `r` gives `itree_of n`. *)
From Coq Require Import NArith List Bool Lia.
From XV Require Import Base.Str Base.Eqb Spec.XmlNs Model.Writer
  Proofs.WriterTree Proofs.WriterMaps Proofs.WriterEnc Proofs.WriterCtx Proofs.WriterEscape Proofs.WriterWf.
Import ListNotations.
Open Scope N_scope.

Section SnodeInd.
  Variable P : snode -> Prop.
  Hypothesis Ht : forall t, P (SText t).
  Hypothesis Hn : forall ds q ats ks, Forall P ks -> P (SNode ds q ats ks).
  Fixpoint snode_ind2 (n : snode) : P n :=
    match n with
    | SText t => Ht t
    | SNode ds q ats ks =>
        Hn ds q ats ks ((fix go (l : list snode) : Forall P l :=
                           match l with
                           | [] => Forall_nil P
                           | x :: r => Forall_cons x (snode_ind2 x) (go r)
                           end) ks)
    end.
End SnodeInd.

(* ------------------------------------------------------------------ the infoset of a SAX tree *)
Definition attr_list (ats : attrmap) : list (qname * str) :=
  map (fun a => (fst a, match snd a with Some v => v | None => [] end)) ats.
Fixpoint itree_of (n : snode) : inode :=
  match n with
  | SText t => IText t
  | SNode ds q ats ks => IElem q ds (attr_list ats) (merge_text (map itree_of ks))
  end.

(* ------------------------------------------------------------------ raw trees and their tokens *)
Definition norm_decls (ds : nsmap) : nsmap :=
  map (fun d => (match fst d with Some (_ :: _) => fst d | _ => None end, snd d)) ds.
(* the declarations as written: falsy prefixes are the default one, URIs are escaped *)
Definition esc_decls (ds : nsmap) : nsmap := map (fun d => (fst d, sax_escape_uri (snd d))) ds.
Definition wdecls (ds : nsmap) : nsmap := norm_decls (esc_decls ds).

Fixpoint rnode_of (c : nctx) (n : snode) : option rnode :=
  match n with
  | SText t => Some (RText (sax_escape_text t))
  | SNode ds q ats ks =>
      let c' := nc_sets c ds in
      match n_qname c' q, n_attrs c' ats,
            (fix go (l : list snode) : option (list rnode) :=
               match l with
               | [] => Some []
               | k :: r => match rnode_of c' k, go r with
                           | Some a, Some b => Some (a :: b)
                           | _, _ => None
                           end
               end) ks with
      | Some name, inl ats', Some rs => Some (RElem name (wdecls ds) ats' rs)
      | _, _, _ => None
      end
  end.
Lemma rnode_of_node c ds q ats ks :
  rnode_of c (SNode ds q ats ks)
  = match n_qname (nc_sets c ds) q, n_attrs (nc_sets c ds) ats, map_opt (rnode_of (nc_sets c ds)) ks with
    | Some name, inl ats', Some rs => Some (RElem name (wdecls ds) ats' rs)
    | _, _, _ => None
    end.
Proof.
  cbn [rnode_of].
  replace ((fix go (l : list snode) : option (list rnode) :=
              match l with
              | [] => Some []
              | k :: r => match rnode_of (nc_sets c ds) k, go r with
                          | Some a, Some b => Some (a :: b)
                          | _, _ => None
                          end
              end) ks) with (map_opt (rnode_of (nc_sets c ds)) ks); [reflexivity|].
  induction ks as [|k ks IH]; [reflexivity|]. cbn [map_opt]. rewrite IH. reflexivity.
Qed.

Fixpoint rtoks (r : rnode) : list xtoken :=
  match r with
  | RText raw => [XText raw]
  | RElem n ds ats [] => [XEmpty n ds ats]
  | RElem n ds ats ks => XStart n ds ats :: flat_map rtoks ks ++ [XEnd n]
  end.

Fixpoint rnode_ok (r : rnode) : Prop :=
  match r with
  | RText raw => raw <> []
  | RElem _ _ _ ks => (fix all (l : list rnode) : Prop :=
                         match l with [] => True | k :: r => rnode_ok k /\ all r end) ks
  end.
Fixpoint all_rok (l : list rnode) : Prop := match l with [] => True | k :: r => rnode_ok k /\ all_rok r end.
Lemma rnode_ok_elem n ds ats ks : rnode_ok (RElem n ds ats ks) <-> all_rok ks.
Proof. cbn [rnode_ok]. induction ks as [|k ks IH]; cbn [all_rok]; [tauto|]. rewrite IH. tauto. Qed.

Section RnodeInd.
  Variable P : rnode -> Prop.
  Hypothesis Ht : forall t, P (RText t).
  Hypothesis Hn : forall n ds ats ks, Forall P ks -> P (RElem n ds ats ks).
  Fixpoint rnode_ind2 (r : rnode) : P r :=
    match r with
    | RText t => Ht t
    | RElem n ds ats ks =>
        Hn n ds ats ks ((fix go (l : list rnode) : Forall P l :=
                           match l with
                           | [] => Forall_nil P
                           | x :: r => Forall_cons x (rnode_ind2 x) (go r)
                           end) ks)
    end.
End RnodeInd.

(* ------------------------------------------------------------------ (B) the tree builder *)
Definition build_reads (r : rnode) : Prop :=
  forall rest stack roots,
    (stack <> [] \/ match r with RElem _ _ _ _ => True | RText _ => False end) ->
    build (rtoks r ++ rest) stack roots
    = (let (st, ro) := add_kid r stack roots in build rest st ro).

Lemma build_kids ks :
  Forall build_reads ks -> all_rok ks ->
  forall rest n ds ats acc stack roots,
    build (flat_map rtoks ks ++ rest) ((n, ds, ats, acc) :: stack) roots
    = build rest ((n, ds, ats, rev ks ++ acc) :: stack) roots.
Proof.
  induction 1 as [|k ks Hk _ IH]; intros Hok rest n ds ats acc stack roots.
  - reflexivity.
  - cbn [all_rok] in Hok. destruct Hok as [Hk1 Hks].
    cbn [flat_map]. rewrite <- app_assoc.
    rewrite (Hk _ ((n, ds, ats, acc) :: stack) roots) by (left; discriminate).
    cbn [add_kid]. rewrite (IH Hks). cbn [rev]. rewrite <- app_assoc. reflexivity.
Qed.

Lemma build_reads_all r : rnode_ok r -> build_reads r.
Proof.
  induction r as [raw|n ds ats ks IH] using rnode_ind2; intros Hok rest stack roots Hs.
  - cbn [rtoks app build]. cbn [rnode_ok] in Hok. destruct raw as [|x raw]; [contradiction|].
    destruct Hs as [Hs|[]]. destruct stack as [|f stack]; [contradiction|]. reflexivity.
  - apply rnode_ok_elem in Hok.
    destruct ks as [|k ks'].
    + cbn [rtoks app build]. reflexivity.
    + change (rtoks (RElem n ds ats (k :: ks'))) with (XStart n ds ats :: flat_map rtoks (k :: ks') ++ [XEnd n]).
      cbn [app build]. rewrite <- app_assoc.
      assert (Hall : Forall build_reads (k :: ks')).
      { clear -IH Hok. revert Hok. induction IH as [|x l Hx _ IHl]; intros Hok; [constructor|].
        cbn [all_rok] in Hok. destruct Hok as [H1 H2]. constructor; [exact (Hx H1)|exact (IHl H2)]. }
      rewrite (build_kids (k :: ks') Hall Hok). cbn [app build]. rewrite str_eqb_refl.
      rewrite app_nil_r, rev_involutive. reflexivity.
Qed.

Lemma parse_tree_rtoks n ds ats ks :
  rnode_ok (RElem n ds ats ks) -> parse_tree (rtoks (RElem n ds ats ks)) = Some (RElem n ds ats ks).
Proof.
  intros Hok. unfold parse_tree.
  pose proof (build_reads_all _ Hok [] [] [] (or_intror I)) as H. rewrite app_nil_r in H. rewrite H.
  reflexivity.
Qed.

(* ------------------------------------------------------------------ (N) the sink *)
Lemma nsteps_app k a b :
  nsteps k (a ++ b) = match nsteps k a with inl k' => nsteps k' b | inr e => inr e end.
Proof.
  revert k. induction a as [|x a IH]; intros k; [reflexivity|].
  cbn [app nsteps]. destruct (nstep k x); [apply IH|reflexivity].
Qed.

Definition nst (saved : list nctx) (c : nctx) (und : nsmap) (pend : option (str * nsmap * list (str * str)))
           (out : list xtoken) : nstate :=
  {| n_saved := saved; n_cur := c; n_undecl := und; n_pend := pend; n_out := out |}.

(* the contexts saved by the startPrefixMapping calls of one element *)
Fixpoint ctxs (c : nctx) (ds : nsmap) : list nctx :=
  match ds with
  | [] => []
  | d :: r => c :: ctxs (nc_set c (snd d) (fst d)) r
  end.
Fixpoint lastd {A} (l : list A) (d : A) : A :=
  match l with [] => d | x :: r => lastd r x end.
Lemma lastd_snoc {A} (l : list A) x d : lastd (l ++ [x]) d = x.
Proof. revert d. induction l as [|a l IH]; intros d; cbn; [reflexivity|apply IH]. Qed.
Lemma ctxs_length c ds : length (ctxs c ds) = length ds.
Proof. revert c. induction ds as [|d ds IH]; intros c; cbn; [reflexivity|]. rewrite IH. reflexivity. Qed.

Lemma nsteps_cons k x l :
  nsteps k (x :: l) = match nstep k x with inl k' => nsteps k' l | inr e => inr e end.
Proof. reflexivity. Qed.
Lemma nstep_start saved c und pend out p u :
  nstep (nst saved c und pend out) (SStartPrefix p u)
  = inl (nst (c :: saved) (nc_set c u p) (und ++ [(p, sax_escape_uri u)]) pend out).
Proof. reflexivity. Qed.
Lemma nstep_end saved x c1 und pend out p :
  nstep (nst (x :: saved) c1 und pend out) (SEndPrefix p) = inl (nst saved x und pend out).
Proof. reflexivity. Qed.

Lemma nsteps_starts ds : forall saved c und pend out,
  nsteps (nst saved c und pend out) (map (fun d : option str * str => SStartPrefix (fst d) (snd d)) ds)
  = inl (nst (rev (ctxs c ds) ++ saved) (nc_sets c ds) (und ++ esc_decls ds) pend out).
Proof.
  induction ds as [|d ds IH]; intros saved c und pend out.
  - cbn [map nsteps ctxs rev app nc_sets fold_left esc_decls]. rewrite app_nil_r. reflexivity.
  - cbn [map]. rewrite nsteps_cons, nstep_start, IH. cbn [ctxs rev]. unfold nc_sets. cbn [fold_left].
    unfold esc_decls. cbn [map]. rewrite <- !app_assoc. reflexivity.
Qed.

Lemma nsteps_pops ds : forall stk saved c1 und pend out,
  length stk = length ds ->
  nsteps (nst (stk ++ saved) c1 und pend out) (map (fun d : option str * str => SEndPrefix (fst d)) ds)
  = inl (nst saved (lastd stk c1) und pend out).
Proof.
  induction ds as [|d ds IH]; intros stk saved c1 und pend out Hl.
  - destruct stk; [reflexivity|discriminate].
  - destruct stk as [|x stk]; [discriminate|]. cbn [length] in Hl. injection Hl as Hl.
    cbn [map app]. rewrite nsteps_cons, nstep_end.
    rewrite (IH stk saved x und pend out Hl). reflexivity.
Qed.

Lemma nsteps_ends ds saved c c1 und pend out :
  nsteps (nst (rev (ctxs c ds) ++ saved) c1 und pend out) (map (fun d : option str * str => SEndPrefix (fst d)) ds)
  = inl (nst saved (match ds with [] => c1 | _ => c end) und pend out).
Proof.
  rewrite nsteps_pops by (rewrite rev_length; apply ctxs_length).
  destruct ds as [|d ds]; [reflexivity|]. cbn [ctxs rev]. rewrite lastd_snoc. reflexivity.
Qed.

Definition finished (pend : option (str * nsmap * list (str * str))) (out : list xtoken) : list xtoken :=
  match pend with Some (nm, ds, ats) => XStart nm ds ats :: out | None => out end.

Lemma esc1_nonempty c : esc1 c <> [].
Proof. unfold esc1. destruct (c =? 38); [discriminate|]. destruct (c =? 62); [discriminate|]. destruct (c =? 60); discriminate. Qed.
Lemma esc1t_nonempty c : esc1t c <> [].
Proof.
  unfold esc1t. destruct (c =? 38); [discriminate|]. destruct (c =? 62); [discriminate|].
  destruct (c =? 60); [discriminate|]. destruct (c =? 13); discriminate.
Qed.
Lemma sax_escape_nonempty t : t <> [] -> sax_escape_text t <> [].
Proof.
  destruct t as [|c t]; [contradiction|]. intros _. rewrite sax_escape_text_cons.
  pose proof (esc1t_nonempty c). destruct (esc1t c); [contradiction|discriminate].
Qed.

(* attributes as written *)
Definition attr_written (c : nctx) (a : qname * option str) (a' : str * str) : Prop :=
  exists v, snd a = Some v /\ n_qname c (fst a) = Some (fst a') /\ snd a' = sax_quoteattr v.

Lemma n_attrs_fine e c ats :
  Forall (attr_fine e c) ats -> exists ats', n_attrs c ats = inl ats' /\ Forall2 (attr_written c) ats ats'.
Proof.
  induction 1 as [|[q v] ats Ha _ IH].
  - exists []. split; [reflexivity|constructor].
  - destruct Ha as [lex [val [Hq [Hv _]]]]. cbn [fst snd] in *. subst v.
    destruct IH as [ats' [Hn Hf]]. exists ((lex, sax_quoteattr val) :: ats').
    cbn [n_attrs]. rewrite Hq, Hn. split; [reflexivity|].
    constructor; [|exact Hf]. exists val. cbn [fst snd]. repeat split; assumption.
Qed.

Definition native_writes (n : snode) : Prop :=
  forall e c saved pend out,
    sn_wf e c n ->
    exists r, rnode_of c n = Some r /\ rnode_ok r
              /\ nsteps (nst saved c [] pend out) (sflat n)
                 = inl (nst saved c [] None (rev (rtoks r) ++ finished pend out)).

Lemma native_kids ks :
  Forall native_writes ks ->
  forall e c saved pend out,
    all_wf e c ks -> ks <> [] ->
    exists rs, map_opt (rnode_of c) ks = Some rs /\ all_rok rs /\ rs <> []
               /\ nsteps (nst saved c [] pend out) (flat_map sflat ks)
                  = inl (nst saved c [] None (rev (flat_map rtoks rs) ++ finished pend out)).
Proof.
  induction 1 as [|k ks Hk Hks IH]; intros e c saved pend out Hwf Hne; [contradiction|].
  cbn [all_wf] in Hwf. destruct Hwf as [Hwk Hwks].
  destruct (Hk e c saved pend out Hwk) as [r [Hr [Hok Hs]]].
  cbn [flat_map map_opt]. rewrite nsteps_app, Hs, Hr.
  destruct ks as [|k2 ks'].
  - exists [r]. cbn [map_opt flat_map nsteps all_rok]. rewrite !app_nil_r.
    repeat split; [exact Hok|discriminate].
  - destruct (IH e c saved None (rev (rtoks r) ++ finished pend out) Hwks) as [rs [Hrs [Hoks [_ Hss]]]]; [discriminate|].
    exists (r :: rs). rewrite Hrs. repeat split; [exact Hok|exact Hoks|discriminate|].
    rewrite Hss. cbn [finished flat_map]. rewrite rev_app_distr, <- app_assoc. reflexivity.
Qed.

Lemma nstep_start_elem saved c und pend out q ats name ats' :
  n_qname c q = Some name -> n_attrs c ats = inl ats' ->
  nstep (nst saved c und pend out) (SStartElem q ats)
  = inl (nst saved c [] (Some (name, norm_decls und, ats')) (finished pend out)).
Proof.
  intros Hq Ha. cbn [nstep]. unfold n_finish, nst. cbn [n_pend n_cur n_saved n_undecl n_out].
  destruct pend as [[[nm ds] at0]|]; cbn [n_cur n_saved n_undecl n_out n_pend finished]; rewrite Hq, Ha; reflexivity.
Qed.
Lemma nstep_end_elem_pending saved c und name ds ats out q :
  nstep (nst saved c und (Some (name, ds, ats)) out) (SEndElem q)
  = inl (nst saved c und None (XEmpty name ds ats :: out)).
Proof. reflexivity. Qed.
Lemma nstep_end_elem saved c und out q name :
  n_qname c q = Some name ->
  nstep (nst saved c und None out) (SEndElem q) = inl (nst saved c und None (XEnd name :: out)).
Proof. intros H. cbn [nstep nst n_pend n_cur]. rewrite H. reflexivity. Qed.

Lemma nc_sets_nil c : nc_sets c [] = c.
Proof. reflexivity. Qed.

Theorem native_writes_all n : native_writes n.
Proof.
  induction n as [t|ds q ats ks IH] using snode_ind2; intros e c saved pend out Hwf.
  - cbn [sn_wf] in Hwf. destruct Hwf as [Hne _].
    exists (RText (sax_escape_text t)). split; [reflexivity|split; [cbn; apply sax_escape_nonempty, Hne|]].
    cbn [sflat nsteps nstep]. destruct t as [|x t]; [contradiction|].
    unfold n_finish, nst. cbn [n_pend n_saved n_cur n_undecl n_out].
    destruct pend as [[[nm d0] a0]|]; reflexivity.
  - apply sn_wf_node in Hwf. destruct Hwf as [_ [_ [Hname [Hats [_ Hkids]]]]].
    destruct Hname as [name [Hq _]].
    destruct (n_attrs_fine _ _ _ Hats) as [ats' [Hna _]].
    rewrite rnode_of_node, Hq, Hna.
    cbn [sflat]. rewrite nsteps_app, nsteps_starts. cbn [app].
    rewrite nsteps_cons, (nstep_start_elem _ _ _ _ _ _ _ name ats' Hq Hna).
    change (norm_decls (esc_decls ds)) with (wdecls ds).
    destruct ks as [|k ks'].
    + cbn [map_opt flat_map app]. eexists. split; [reflexivity|split; [cbn; exact I|]].
      rewrite nsteps_cons, nstep_end_elem_pending, nsteps_ends.
      cbn [rtoks rev app]. destruct ds; reflexivity.
    + destruct (native_kids (k :: ks') IH _ _ (rev (ctxs c ds) ++ saved)
                  (Some (name, wdecls ds, ats')) (finished pend out) Hkids) as [rs [Hrs [Hok [Hne Hss]]]]; [discriminate|].
      rewrite Hrs. eexists. split; [reflexivity|split; [apply rnode_ok_elem, Hok|]].
      rewrite nsteps_app, Hss. cbn [app]. rewrite nsteps_cons, (nstep_end_elem _ _ _ _ _ name Hq), nsteps_ends.
      destruct rs as [|r0 rs']; [contradiction|].
      change (rtoks (RElem name (wdecls ds) ats' (r0 :: rs')))
        with (XStart name (wdecls ds) ats' :: flat_map rtoks (r0 :: rs') ++ [XEnd name]).
      cbn [finished rev]. rewrite rev_app_distr. cbn [rev app]. rewrite <- !app_assoc. cbn [app].
      destruct ds; reflexivity.
Qed.

(* ------------------------------------------------------------------ (R) namespace resolution *)
Lemma nodup_by_of_NoDup {A} (eqb : A -> A -> bool) (l : list A) :
  (forall x y, eqb x y = true -> x = y) -> NoDup l -> nodup_by eqb l = true.
Proof.
  intros Heq. induction 1 as [|x l Hni _ IH]; [reflexivity|]. cbn [nodup_by]. rewrite IH, andb_true_r.
  apply negb_true_iff. destruct (existsb (eqb x) l) eqn:E; [|reflexivity].
  apply existsb_exists in E as [y [Hy He]]. apply Heq in He. subst. contradiction.
Qed.

Lemma norm_decls_id ds : (forall d, In d ds -> fst d <> Some []) -> norm_decls ds = ds.
Proof.
  induction ds as [|[p u] ds IH]; intros H; [reflexivity|]. cbn [norm_decls map fst snd].
  fold (norm_decls ds). rewrite IH by (intros d Hd; apply H; right; exact Hd). f_equal.
  destruct p as [[|x p]|]; try reflexivity. exfalso. exact (H (Some [], u) (or_introl eq_refl) eq_refl).
Qed.

Lemma esc_decls_keys ds : map fst (esc_decls ds) = map fst ds.
Proof. unfold esc_decls. rewrite map_map. reflexivity. Qed.

Lemma decls_resolve ds :
  Forall decl_fine ds -> NoDup (map fst ds) ->
  wdecls ds = esc_decls ds /\ map_opt decl_value (esc_decls ds) = Some ds /\ forallb decl_ok ds = true
  /\ nodup_by ostr_eqb (map fst ds) = true.
Proof.
  intros Hf Hnd. split; [|split; [|split]].
  - unfold wdecls. apply norm_decls_id. intros d Hd. unfold esc_decls in Hd. apply in_map_iff in Hd as [d0 [E Hd0]].
    subst d. cbn [fst]. rewrite Forall_forall in Hf. apply (Hf d0 Hd0).
  - clear Hnd. induction Hf as [|[p u] ds [Hv _] _ IH]; [reflexivity|]. unfold esc_decls. cbn [map map_opt].
    unfold decl_value at 1. cbn [fst snd] in *. rewrite Hv. fold (esc_decls ds). rewrite IH. reflexivity.
  - apply forallb_forall. intros d Hd. rewrite Forall_forall in Hf. apply (Hf d Hd).
  - apply nodup_by_of_NoDup; [|exact Hnd]. intros x y H. apply ostr_eqb_eq, H.
Qed.

Lemma attrs_resolve e c ats ats' :
  Forall (attr_fine e c) ats -> NoDup (map fst ats) -> Forall2 (attr_written c) ats ats' ->
  map_opt (resolve_attr e) ats' = Some (attr_list ats)
  /\ nodup_by str_eqb (map fst ats') = true
  /\ nodup_by qname_eqb (map fst (attr_list ats)) = true.
Proof.
  intros Hf Hnd Hw.
  assert (Hkeys : map fst (attr_list ats) = map fst ats).
  { unfold attr_list. rewrite map_map. reflexivity. }
  split; [|split].
  - clear Hnd Hkeys. induction Hw as [|a a' ats ats' Ha _ IH]; [reflexivity|].
    inversion Hf as [|? ? Hfa Hfr]; subst. specialize (IH Hfr).
    destruct Ha as [v [Hv [Hq Hs]]]. destruct Hfa as [lex [v2 [Hq2 [Hv2 [Hn Hx]]]]].
    rewrite Hv in Hv2. inversion Hv2; subst v2. rewrite Hq in Hq2. inversion Hq2; subst lex.
    assert (Hone : resolve_attr e a' = Some (fst a, v)).
    { unfold resolve_attr. rewrite Hn, Hs, (hostile_text_safe_attr v Hx). reflexivity. }
    cbn [map_opt]. rewrite Hone, IH. unfold attr_list. cbn [map].
    destruct a as [qa va]. cbn [fst snd] in *. subst va. reflexivity.
  - apply nodup_by_of_NoDup; [intros x y H; apply str_eqb_eq, H|].
    (* lexical names are distinct because they resolve to distinct expanded names *)
    clear Hkeys. revert Hf Hnd. induction Hw as [|a a' ats ats' Ha Hw IH]; intros Hf Hnd; [constructor|].
    inversion Hf as [|? ? Hfa Hfr]; subst. cbn [map] in Hnd |- *. inversion Hnd as [|? ? Hni Hnd']; subst.
    constructor; [|exact (IH Hfr Hnd')].
    intros Hin. apply Hni.
    destruct Ha as [v [_ [Hq _]]]. destruct Hfa as [lex [_ [Hq2 [_ [Hn _]]]]].
    rewrite Hq in Hq2. inversion Hq2; subst lex.
    (* some later attribute has the same lexical name *)
    clear -Hin Hw Hfr Hn. induction Hw as [|b b' l l' Hb _ IHl]; [destruct Hin|].
    inversion Hfr as [|? ? Hfb Hfr']; subst. cbn [map] in Hin |- *. destruct Hin as [Hin|Hin].
    + left. destruct Hb as [_ [_ [Hqb _]]]. destruct Hfb as [lexb [_ [Hqb2 [_ [Hnb _]]]]].
      rewrite Hqb in Hqb2. inversion Hqb2; subst lexb. rewrite Hin in Hnb. rewrite Hn in Hnb. inversion Hnb. reflexivity.
    + right. exact (IHl Hfr' Hin).
  - rewrite Hkeys. apply nodup_by_of_NoDup; [intros x y H; apply qname_eqb_eq, H|exact Hnd].
Qed.

Lemma resolve_kids_fix e rs :
  (fix go (ks : list rnode) : option (list inode) :=
     match ks with
     | [] => Some []
     | k :: r => match resolve_node e k, go r with
                 | Some a, Some b => Some (a :: b)
                 | _, _ => None
                 end
     end) rs = map_opt (resolve_node e) rs.
Proof. induction rs as [|r rs IH]; [reflexivity|]. cbn [map_opt]. rewrite IH. reflexivity. Qed.

Definition resolves (n : snode) : Prop :=
  forall e c r, sn_wf e c n -> rnode_of c n = Some r -> resolve_node e r = Some (itree_of n).

Lemma resolve_kids ks :
  Forall resolves ks -> forall e c rs,
    all_wf e c ks -> map_opt (rnode_of c) ks = Some rs ->
    map_opt (resolve_node e) rs = Some (map itree_of ks).
Proof.
  induction 1 as [|k ks Hk _ IH]; intros e c rs Hwf Hrs.
  - inversion Hrs; subst. reflexivity.
  - cbn [all_wf] in Hwf. destruct Hwf as [Hwk Hwks]. cbn [map_opt] in Hrs.
    destruct (rnode_of c k) as [r|] eqn:Er; [|discriminate].
    destruct (map_opt (rnode_of c) ks) as [rs'|] eqn:Ers; [|discriminate].
    inversion Hrs; subst rs. cbn [map_opt map].
    rewrite (Hk e c r Hwk Er), (IH e c rs' Hwks Ers). reflexivity.
Qed.

Theorem resolves_all n : resolves n.
Proof.
  induction n as [t|ds q ats ks IH] using snode_ind2; intros e c r Hwf Hr.
  - cbn [rnode_of] in Hr. inversion Hr; subst r. cbn [sn_wf] in Hwf. destruct Hwf as [_ Hx].
    cbn [resolve_node itree_of]. rewrite (hostile_text_safe_data t Hx). reflexivity.
  - apply sn_wf_node in Hwf. destruct Hwf as [Hds [Hnd [Hname [Hats [Hnda Hkids]]]]].
    rewrite rnode_of_node in Hr.
    destruct Hname as [name [Hq Hen]]. rewrite Hq in Hr.
    destruct (n_attrs_fine _ _ _ Hats) as [ats' [Hna Hw]]. rewrite Hna in Hr.
    destruct (map_opt (rnode_of (nc_sets c ds)) ks) as [rs|] eqn:Ers; [|discriminate].
    inversion Hr; subst r. clear Hr.
    destruct (decls_resolve ds Hds Hnd) as [Hnorm [Hdv [Hdok Hdnd]]].
    destruct (attrs_resolve _ _ _ _ Hats Hnda Hw) as [Hra [Hlex Hexp]].
    cbn [resolve_node itree_of]. rewrite Hnorm, Hdv, Hdok, Hdnd, Hlex. cbn [andb].
    rewrite Hen, Hra, Hexp.
    rewrite resolve_kids_fix, (resolve_kids ks IH _ _ rs Hkids Ers). reflexivity.
Qed.

(* ------------------------------------------------------------------ the document *)
Theorem native_document n :
  sn_wf [] [] n -> (match n with SNode _ _ _ _ => True | SText _ => False end) ->
  exists k r,
    nsteps ninit (sflat n) = inl k /\ rev (n_out k) = rtoks r
    /\ resolve (rtoks r) = Some (itree_of n).
Proof.
  intros Hwf Hel.
  destruct (native_writes_all n [] [] [] None [] Hwf) as [r [Hr [Hok Hs]]].
  exists (nst [] [] [] None (rev (rtoks r) ++ [])), r.
  split; [exact Hs|]. cbn [nst n_out]. rewrite app_nil_r, rev_involutive. split; [reflexivity|].
  unfold resolve. destruct n as [t|ds q ats ks]; [contradiction|].
  pose proof (resolves_all _ [] [] r Hwf Hr) as Hres.
  rewrite rnode_of_node in Hr.
  destruct (n_qname (nc_sets [] ds) q) as [name|]; [|discriminate].
  destruct (n_attrs (nc_sets [] ds) ats) as [ats'|]; [|discriminate].
  destruct (map_opt (rnode_of (nc_sets [] ds)) ks) as [rs|]; [|discriminate].
  inversion Hr; subst r. rewrite (parse_tree_rtoks _ _ _ _ Hok). exact Hres.
Qed.
