(* Proofs/RenameFields.v — the field (or constant) names of one class are pairwise distinct
   after RenameDuplicateAttributes + Filters.field_name, under one computable guard:
     no name that safe_name has to adjust (prefix for a leading digit / empty slug /
     negative number, suffix for a reserved word) lands on a slug that another field
     already has                                               [adjust_fresh]
   and the two refutations that make the guard necessary.  (The former first guard, "every
   by-preference rename picked a free slug", is gone with the fix for C07-F2.) *)
From Coq Require Import NArith PeanoNat List Bool Lia String.
From XV Require Import Base.Str Base.Dec Gen.SafeTables Model.Safe Model.Rename
  Proofs.SafeText Proofs.SafeCase Proofs.SafeTerm Proofs.RenameUnique Proofs.RenameInv.
Import ListNotations.
Open Scope N_scope.

(* the name the convention is finally applied to *)
Fixpoint safe_adjust (fuel : nat) (prefix : str) (case : str -> option str) (name : str) : option str :=
  match fuel with
  | O => None
  | S k =>
      match name with
      | [] => safe_adjust k prefix case prefix
      | _ =>
          if minus_number name then safe_adjust k prefix case (prefix ++ Safe.lit "_minus_" ++ name)
          else if negb (slug_alpha name) then safe_adjust k prefix case (prefix ++ us ++ name)
          else match case name with
               | None => None
               | Some r => if is_reserved r then safe_adjust k prefix case (name ++ us ++ prefix)
                           else Some name
               end
      end
  end.

Lemma safe_adjust_spec p case fuel : forall name r,
  safe_name fuel p case name = SOk r ->
  exists adj, safe_adjust fuel p case name = Some adj /\ slug_alpha adj = true /\ case adj = Some r.
Proof.
  induction fuel as [|fuel IH]; intros name r H; [discriminate|].
  cbn [safe_name safe_adjust] in *.
  destruct name as [|c0 name0]; [apply IH; exact H|].
  destruct (minus_number (c0 :: name0)); [apply IH; exact H|].
  destruct (slug_alpha (c0 :: name0)) eqn:Ea; cbn [negb] in *; [|apply IH; exact H].
  destruct (case (c0 :: name0)) as [x|] eqn:Ec; [|discriminate].
  destruct (is_reserved x); [apply IH; exact H|].
  injection H as <-. exists (c0 :: name0). auto.
Qed.

Fixpoint others {A} (i : nat) (l : list A) : list A :=
  match l, i with
  | [], _ => []
  | _ :: r, O => r
  | a :: r, S k => a :: others k r
  end.

Lemma In_others {A} (d : A) (l : list A) : forall i j,
  (j < List.length l)%nat -> j <> i -> In (nth j l d) (others i l).
Proof.
  induction l as [|a l IH]; intros i j Hj Hn; [cbn in Hj; lia|].
  destruct i as [|i], j as [|j]; cbn in *; try congruence.
  - apply nth_In. lia.
  - left. reflexivity.
  - right. apply IH; [lia|congruence].
Qed.

Lemma NoDup_map_nth {A B} (f : A -> B) (l : list A) (d : A) :
  (forall i j, (i < List.length l)%nat -> (j < List.length l)%nat -> f (nth i l d) = f (nth j l d) -> i = j) ->
  NoDup (map f l).
Proof.
  intros H. apply (NoDup_nth _ (f d)). intros i j Hi Hj E. rewrite map_length in Hi, Hj.
  rewrite !map_nth in E. apply H; assumption.
Qed.

(* generic core: F = final name, Adj = adjusted name, case = the convention *)
Section Generic.
  Variable F : str -> sres.
  Variable Adj : str -> option str.
  Variable case : str -> option str.
  Hypothesis HF : forall nm, exists r a, F nm = SOk r /\ Adj nm = Some a /\ slug_alpha a = true /\ case a = Some r.
  Hypothesis Hcase : forall a r, slug_alpha a = true -> case a = Some r -> alnum r = alnum a.

  Definition g_adj_slug (nm : str) : str := match Adj nm with Some a => alnum a | None => [] end.
  Definition g_adjusted (nm : str) : bool := match Adj nm with Some a => negb (str_eqb a nm) | None => true end.
  Definition g_adjust_fresh (names : list str) : bool :=
    let A := map g_adj_slug names in
    forallb (fun i => negb (g_adjusted (nth i names [])) || negb (str_in (nth i A []) (others i A)))
            (seq 0 (List.length names)).

  Lemma generic_distinct names :
    NoDup (map alnum names) -> g_adjust_fresh names = true -> NoDup (map F names).
  Proof.
    intros Hs Hf. apply (NoDup_map_nth F names []). intros i j Hi Hj E.
    destruct (Nat.eq_dec i j) as [->|Hne]; [reflexivity|]. exfalso.
    remember (nth i names []) as ni eqn:Eni. remember (nth j names []) as nj eqn:Enj.
    destruct (HF ni) as [ri [ai [Eri [Ai [Si Ci]]]]].
    destruct (HF nj) as [rj [aj [Erj [Aj [Sj Cj]]]]].
    rewrite Eri, Erj in E. injection E as <-.
    assert (Eslug : alnum ai = alnum aj).
    { rewrite <- (Hcase ai ri Si Ci), <- (Hcase aj ri Sj Cj). reflexivity. }
    remember (map g_adj_slug names) as A eqn:EA.
    assert (LA : List.length A = List.length names) by (rewrite EA; apply map_length).
    assert (Ai' : nth i A [] = alnum ai).
    { rewrite (nth_indep A [] (g_adj_slug [])) by (rewrite LA; exact Hi).
      rewrite EA, map_nth, <- Eni. unfold g_adj_slug. rewrite Ai. reflexivity. }
    assert (Aj' : nth j A [] = alnum aj).
    { rewrite (nth_indep A [] (g_adj_slug [])) by (rewrite LA; exact Hj).
      rewrite EA, map_nth, <- Enj. unfold g_adj_slug. rewrite Aj. reflexivity. }
    unfold g_adjust_fresh in Hf. cbn zeta in Hf. rewrite <- EA in Hf. rewrite forallb_forall in Hf.
    assert (Fi := Hf i). assert (Fj := Hf j).
    rewrite in_seq in Fi, Fj. specialize (Fi ltac:(lia)). specialize (Fj ltac:(lia)).
    rewrite <- Eni in Fi. rewrite <- Enj in Fj.
    unfold g_adjusted in Fi, Fj. rewrite Ai in Fi. rewrite Aj in Fj.
    destruct (str_eqb_spec ai ni) as [Eai|Nai]; cbn [negb orb] in Fi.
    - destruct (str_eqb_spec aj nj) as [Eaj|Naj]; cbn [negb orb] in Fj.
      + subst ai aj. apply Hne.
        apply (proj1 (NoDup_nth (map alnum names) (alnum [])) Hs i j).
        * rewrite map_length; exact Hi.
        * rewrite map_length; exact Hj.
        * rewrite !map_nth, <- Eni, <- Enj. exact Eslug.
      + apply negb_true_iff, str_in_false in Fj. apply Fj.
        rewrite Aj', <- Eslug, <- Ai'. apply In_others; [rewrite LA; exact Hi|exact Hne].
    - apply negb_true_iff, str_in_false in Fi. apply Fi.
      rewrite Ai', Eslug, <- Aj'. apply In_others; [rewrite LA; exact Hj|congruence].
  Qed.
End Generic.

Definition final_name (p : str) (k : name_case) (nm : str) : sres := safe_name safe_fuel p (apply_case k) nm.
Definition adjust_of (p : str) (k : name_case) (nm : str) : option str := safe_adjust safe_fuel p (apply_case k) nm.
Definition adjust_fresh (p : str) (k : name_case) (names : list str) : bool := g_adjust_fresh (adjust_of p k) names.

Lemma final_adjust p k : prefix_ok p = true ->
  forall nm, exists r a, final_name p k nm = SOk r /\ adjust_of p k nm = Some a /\ slug_alpha a = true /\ apply_case k a = Some r.
Proof.
  intros Hp nm. destruct (safe_name_terminates p k nm Hp) as [r Er].
  destruct (safe_adjust_spec p _ _ _ _ Er) as [a [A1 [A2 A3]]]. exists r, a. auto.
Qed.

Theorem fields_distinct_after_rename p k (l : list attr) :
  prefix_ok p = true ->
  adjust_fresh p k (map a_name (rename_duplicate_attributes l)) = true ->
  NoDup (map (fun a => final_name p k (a_name a)) (rename_duplicate_attributes l)).
Proof.
  intros Hp Hf.
  pose proof (rename_slugs_distinct l) as Hs.
  assert (Hs' : NoDup (map alnum (map a_name (rename_duplicate_attributes l)))) by (rewrite map_map; exact Hs).
  pose proof (generic_distinct (final_name p k) (adjust_of p k) (apply_case k) (final_adjust p k Hp)
                (fun a r => case_alnum k a r) _ Hs' Hf) as G.
  rewrite map_map in G. exact G.
Qed.

(* ------------------------------------------------------------------ refutations (each a concrete class) *)
Definition fld (nm : string) (tag : str) : attr := mk_attr (Safe.lit nm) tag None.
Definition default_field (nm : str) : sres := field_name default_conventions nm.

Definition fields_of (l : list attr) : list sres :=
  map (fun a => default_field (a_name a)) (rename_duplicate_attributes l).

(* former refutation R1 (by-preference rename onto a taken slug): fixed, now a positive example *)
Definition witness_preference : list attr :=
  [fld "a" tag_ELEMENT; fld "a" tag_ATTRIBUTE; fld "a_attribute" tag_ELEMENT].
Example preference_witness_now_distinct :
  fields_of witness_preference = map SOk [Safe.lit "a"; Safe.lit "a_attribute_1"; Safe.lit "a_attribute"].
Proof. vm_compute. reflexivity. Qed.

(* R2: the safe prefix for a leading digit lands on an existing field *)
Definition witness_prefix : list attr := [fld "1a" tag_ELEMENT; fld "value_1a" tag_ELEMENT].
Theorem fields_distinct_safe_prefix_refuted :
  ~ NoDup (fields_of witness_prefix) /\
  adjust_fresh conv_field_name_prefix Snake (map a_name (rename_duplicate_attributes witness_prefix)) = false.
Proof.
  split; [|vm_compute; reflexivity].
  assert (E : fields_of witness_prefix = [SOk (Safe.lit "value_1a"); SOk (Safe.lit "value_1a")]) by (vm_compute; reflexivity).
  rewrite E. intros H. inversion H as [|? ? H3 _]. apply H3. left. reflexivity.
Qed.

(* R3: the suffix added to a reserved word lands on an existing field *)
Definition witness_suffix : list attr := [fld "class" tag_ELEMENT; fld "class_value" tag_ELEMENT].
Theorem fields_distinct_reserved_suffix_refuted :
  ~ NoDup (fields_of witness_suffix) /\
  adjust_fresh conv_field_name_prefix Snake (map a_name (rename_duplicate_attributes witness_suffix)) = false.
Proof.
  split; [|vm_compute; reflexivity].
  assert (E : fields_of witness_suffix = [SOk (Safe.lit "class_value"); SOk (Safe.lit "class_value")]) by (vm_compute; reflexivity).
  rewrite E. intros H. inversion H as [|? ? H3 _]. apply H3. left. reflexivity.
Qed.

(* non-vacuity: a class with colliding slugs, a reserved word and a leading digit that passes both guards *)
Definition example_ok : list attr :=
  [fld "a" tag_ELEMENT; fld "A" tag_ELEMENT; fld "a" tag_ATTRIBUTE; fld "class" tag_ELEMENT;
   fld "1a" tag_ELEMENT; fld "x" tag_ELEMENT; fld "x" tag_ATTRIBUTE].
Example guards_nonvacuous :
  adjust_fresh conv_field_name_prefix Snake (map a_name (rename_duplicate_attributes example_ok)) = true /\
  fields_of example_ok = map SOk [Safe.lit "a"; Safe.lit "a_1"; Safe.lit "a_2"; Safe.lit "class_value";
                                  Safe.lit "value_1a"; Safe.lit "x"; Safe.lit "x_attribute"].
Proof. split; vm_compute; reflexivity. Qed.
