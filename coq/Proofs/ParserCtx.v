(* Proofs/ParserCtx.v — the parser reads the CONTEXT of an element (its attributes and its prefix
   map) only through six functions; `parse` is invariant under any relation on contexts that
   preserves those six reads.

   PART 1 (Section Ctx): generalises the simulation of Proofs/ParserNs.v from "prefix maps related,
   everything else equal" to "contexts related": the attribute VALUES of the two runs may differ
   too, and the converter has to agree only on texts satisfying an abstract predicate `good`.
   Reads of a context made by Model/Parser.v (complete list, one hypothesis each):
     A1 xsi_type_of attrs ns            (root_node, build_node)
     A2 xsi_nil_of attrs                (root_node, build_node)
     A3 filter_candidates attrs tys     (build_node, union fields)
     A4 bind_attrs en                   (element_bind: en_attrs / en_ns through bind_attr, bind_any_attr)
     A5 parse_any_attributes attrs ns   (bind_wild_text, wildcard_bind)
     A6 parse_var .. txt ns ..          (bind_text, primitive_bind, standard_bind, union_bind) on a good text
   plus the events a UnionNode records and replays (related pointwise, texts stay good).

   PART 2 (Section Rename): the instance "consistent renaming / re-binding of the prefixes in P":
   maps agree outside P, the xsi:type value may be re-spelled, every other attribute value and
   every text (and its whitespace tokens) has a lexical prefix outside P.  Final theorem
   `prefix_renaming_invariant`, converter law `conv_prefix_local` proved for `qconv`, a
   non-vacuity example, and the refutation showing that the side condition on values is needed
   (Proofs/ParserInvNs.prefix_renaming_refuted).

   NOT covered: re-spelling of QName-typed TEXT or of QName-typed ordinary attributes (texts and
   non-xsi:type attribute values must be identical and `good`). *)
From Coq Require Import NArith ZArith List Bool Arith Lia.
From XV Require Import Proofs.ConvQName.
From XV Require Import Base.Str Base.Eqb Base.PyInt Model.Bind Model.Parser Model.Reader
  Proofs.ParserNs Proofs.ReaderMaps Proofs.ReaderAgree Proofs.ReaderConv Proofs.ReaderWitness
  Proofs.ParserInvNs.
From XV Require Model.ConvQName.
Import ListNotations.

Definition ctx := (list (qname * str) * nsmap)%type.

Definition with_ctx (e : enode) (a : list (qname * str)) (ns : nsmap) : enode :=
  mk_enode (en_meta e) a ns (en_position e) (en_derived e) (en_xsi_type e)
           (en_xsi_nil e) (en_assigned e) (en_wrappers e).

Lemma with_ctx_same e : with_ctx e (en_attrs e) (en_ns e) = e.
Proof. destruct e; reflexivity. Qed.

Lemma map_res_ext_in {A B} (f g : A -> res B) l : (forall x, In x l -> f x = g x) -> map_res f l = map_res g l.
Proof.
  induction l as [|x l IH]; intros H; cbn [map_res]; [reflexivity|].
  rewrite (H x) by (left; reflexivity). rewrite IH; [reflexivity|].
  intros y Hy. apply H. right. exact Hy.
Qed.

Lemma Forall2_app_one' {A} (P : A -> A -> Prop) l l' x x' : Forall2 P l l' -> P x x' -> Forall2 P (l ++ [x]) (l' ++ [x']).
Proof. intros H Hx. apply Forall2_app; [exact H|constructor; [exact Hx|constructor]]. Qed.

(* ================================================================ PART 1 *)
Section Ctx.
  Variable c : conv.
  Variable u : universe.
  Variable CR : ctx -> ctx -> Prop.
  Variable MP : xmeta -> Prop.
  Variable good : str -> Prop.

  Definition ogood (t : option str) : Prop := match t with Some s => good s | None => True end.

  Hypothesis MP_u : forall cl m, u_meta u cl = Some m -> MP m.
  Hypothesis A1 : forall a n a' n', CR (a, n) (a', n') -> xsi_type_of c a n = xsi_type_of c a' n'.
  Hypothesis A2 : forall a n a' n', CR (a, n) (a', n') -> xsi_nil_of a = xsi_nil_of a'.
  Hypothesis A3 : forall a n a' n', CR (a, n) (a', n') ->
    forall tys, filter_candidates c u a tys = filter_candidates c u a' tys.
  Hypothesis A4 : forall a n a' n', CR (a, n) (a', n') ->
    forall cfg en, MP (en_meta en) -> bind_attrs cfg c (with_ctx en a n) = bind_attrs cfg c (with_ctx en a' n').
  Hypothesis A5 : forall a n a' n', CR (a, n) (a', n') -> parse_any_attributes a n = parse_any_attributes a' n'.
  Hypothesis A6 : forall a n a' n', CR (a, n) (a', n') ->
    forall failc m var txt tys fmt, ogood txt ->
      parse_var c failc m var txt n tys fmt = parse_var c failc m var txt n' tys fmt.

  (* ---------------------------------------------------------------- relations *)
  Definition cev_rel (x y : pevent) : Prop :=
    match x, y with
    | PStart q a ns, PStart q' a' ns' => q = q' /\ CR (a, ns) (a', ns')
    | PEnd q t tl, PEnd q' t' tl' => q = q' /\ t = t' /\ tl = tl' /\ ogood t
    | PStartNs _ _, PStartNs _ _ => True
    | _, _ => False
    end.

  Definition cen_rel (e e' : enode) : Prop :=
    MP (en_meta e) /\ exists a' n', CR (en_attrs e, en_ns e) (a', n') /\ e' = with_ctx e a' n'.

  Definition cun_rel (x y : unode) : Prop :=
    exists a' n' evs', CR (un_attrs x, un_ns x) (a', n') /\ Forall2 cev_rel (un_events x) evs'
      /\ y = mk_unode (un_meta x) (un_var x) a' n' (un_position x) (un_level x) (un_candidates x) evs'.

  (* a node that keeps only the map of its context *)
  Definition cns_rel (n n' : nsmap) : Prop := exists a a', CR (a, n) (a', n').

  Definition cnode_rel (x y : node) : Prop :=
    match x, y with
    | NElement e, NElement e' => cen_rel e e'
    | NPrimitive m v ns, NPrimitive m' v' ns' => m = m' /\ v = v' /\ cns_rel ns ns'
    | NStandard m v ty fmt wr ns nl dv, NStandard m' v' ty' fmt' wr' ns' nl' dv' =>
        m = m' /\ v = v' /\ ty = ty' /\ fmt = fmt' /\ wr = wr' /\ cns_rel ns ns' /\ nl = nl' /\ dv = dv'
    | NWildcard v a ns pos, NWildcard v' a' ns' pos' => v = v' /\ CR (a, ns) (a', ns') /\ pos = pos'
    | NWrapper q, NWrapper q' => q = q'
    | NSkip, NSkip => True
    | NUnion a, NUnion b => cun_rel a b
    | _, _ => False
    end.

  Definition cst_rel (s s' : pstate) : Prop :=
    Forall2 cnode_rel (st_queue s) (st_queue s') /\ st_objects s = st_objects s' /\ st_warn s = st_warn s'.

  (* ---------------------------------------------------------------- metadata invariant *)
  Lemma get_meta_MP cl m : get_meta u cl = ROk m -> MP m.
  Proof.
    unfold get_meta. destruct (u_meta u cl) as [m0|] eqn:E; [|discriminate].
    intros [= <-]. exact (MP_u cl m0 E).
  Qed.

  Lemma fetch_MP cl xt m : fetch c u cl xt = ROk m -> MP m.
  Proof.
    unfold fetch. destruct (get_meta u cl) as [m0|k] eqn:E; cbn [rbind]; [|discriminate].
    pose proof (get_meta_MP cl m0 E) as H0.
    destruct (truthy_str xt) as [x|]; [|intros [= <-]; exact H0].
    destruct (ostr_eqb (m_target_qname m0) (Some x)); [intros [= <-]; exact H0|].
    destruct (find_subclass c u cl x) as [sub|]; [|intros [= <-]; exact H0].
    apply get_meta_MP.
  Qed.

  (* ---------------------------------------------------------------- building nodes *)
  Lemma build_element_node_C p p' cl d nl a n a' n' pos df xt xn : CR (a, n) (a', n') ->
    res_rel (opt_rel cnode_rel) (build_element_node c u p cl d nl a n pos df xt xn)
                                (build_element_node c u p' cl d nl a' n' pos df xt xn).
  Proof.
    intros H. unfold build_element_node.
    destruct (fetch c u cl xt) as [meta|k] eqn:Ef; cbn [rbind res_rel]; [|reflexivity].
    match goal with |- context [if ?x then _ else _] => destruct x end; cbn [res_rel opt_rel]; [exact I|].
    cbn [cnode_rel]. split; cbn [en_meta]; [exact (fetch_MP _ _ _ Ef)|].
    exists a', n'. split; [exact H|reflexivity].
  Qed.

  Lemma build_node_C p p' q var a n a' n' pos : CR (a, n) (a', n') -> en_meta p = en_meta p' ->
    res_rel (opt_rel cnode_rel) (build_node c u p q var a n pos) (build_node c u p' q var a' n' pos).
  Proof.
    intros H Hm. unfold build_node. destruct (v_is_clazz_union var).
    - rewrite (A3 a n a' n' H).
      destruct (filter_candidates c u a' (v_types var)) as [cands|k]; cbn [rbind res_rel]; [|reflexivity].
      cbn [opt_rel cnode_rel]. rewrite Hm. exists a', n', []. split; [exact H|]. split; [constructor|reflexivity].
    - rewrite (A1 a n a' n' H). rewrite (A2 a n a' n' H).
      destruct (xsi_type_of c a' n') as [xt|k]; cbn [rbind res_rel]; [|reflexivity].
      destruct (v_clazz var) as [cl|].
      + apply build_element_node_C. exact H.
      + destruct (negb (v_any_type var) && negb (v_is KWildcard var)).
        * cbn [res_rel opt_rel cnode_rel]. rewrite Hm. split; [reflexivity|]. split; [reflexivity|].
          exists a, a'. exact H.
        * destruct (match xt with Some x => c_from_qname c x | None => None end) as [[[ty fmt] wr]|].
          { cbn [res_rel opt_rel cnode_rel]. rewrite Hm. repeat split; try reflexivity. exists a, a'. exact H. }
          set (cl1 := match xt with Some x => ctx_find_type c u x | None => None end).
          assert (H1 : res_rel (opt_rel cnode_rel)
                         (match cl1 with
                          | Some cl => build_element_node c u p cl (v_is KWildcard var) (v_nillable var) a n pos true xt (xsi_nil_of a')
                          | None => ROk None end)
                         (match cl1 with
                          | Some cl => build_element_node c u p' cl (v_is KWildcard var) (v_nillable var) a' n' pos true xt (xsi_nil_of a')
                          | None => ROk None end)).
          { destruct cl1; [apply build_element_node_C; exact H|exact I]. }
          destruct (match cl1 with Some cl => build_element_node c u p cl _ _ a n pos true xt _ | None => ROk None end) as [[n1|]|k1],
                   (match cl1 with Some cl => build_element_node c u p' cl _ _ a' n' pos true xt _ | None => ROk None end) as [[n1'|]|k1'];
            cbn [res_rel opt_rel] in H1; try contradiction; cbn [rbind].
          { exact H1. }
          { set (cl2 := if negb (str_eqb (v_process_contents var) s_skip) then ctx_find_type c u q else cl1).
            assert (H2 : res_rel (opt_rel cnode_rel)
                         (match cl2 with
                          | Some cl => build_element_node c u p cl false (v_nillable var) a n pos false xt (xsi_nil_of a')
                          | None => ROk None end)
                         (match cl2 with
                          | Some cl => build_element_node c u p' cl false (v_nillable var) a' n' pos false xt (xsi_nil_of a')
                          | None => ROk None end)).
            { destruct cl2; [apply build_element_node_C; exact H|exact I]. }
            destruct (match cl2 with Some cl => build_element_node c u p cl _ _ a n pos false xt _ | None => ROk None end) as [[n2|]|k2],
                     (match cl2 with Some cl => build_element_node c u p' cl _ _ a' n' pos false xt _ | None => ROk None end) as [[n2'|]|k2'];
              cbn [res_rel opt_rel] in H2; try contradiction; cbn [rbind].
            - exact H2.
            - cbn [res_rel opt_rel cnode_rel]. repeat split; try reflexivity. exact H.
            - exact H2. }
          { exact H1. }
  Qed.

  Definition cpair_rel (x y : node * enode) : Prop := cnode_rel (fst x) (fst y) /\ cen_rel (snd x) (snd y).

  Lemma cen_rel_assigned e e' l : cen_rel e e' -> cen_rel (set_assigned e l) (set_assigned e' l).
  Proof. intros (Hm & a' & n' & H & ->). split; [exact Hm|]. exists a', n'. split; [exact H|reflexivity]. Qed.
  Lemma cen_rel_wrappers e e' l : cen_rel e e' -> cen_rel (set_wrappers e l) (set_wrappers e' l).
  Proof. intros (Hm & a' & n' & H & ->). split; [exact Hm|]. exists a', n'. split; [exact H|reflexivity]. Qed.
  Lemma cen_rel_meta e e' : cen_rel e e' -> en_meta e = en_meta e'.
  Proof. intros (_ & a' & n' & _ & ->). reflexivity. Qed.
  Lemma cen_rel_assigned_eq e e' : cen_rel e e' -> en_assigned e = en_assigned e'.
  Proof. intros (_ & a' & n' & _ & ->). reflexivity. Qed.
  Lemma cen_rel_wrappers_eq e e' : cen_rel e e' -> en_wrappers e = en_wrappers e'.
  Proof. intros (_ & a' & n' & _ & ->). reflexivity. Qed.

  Lemma child_loop_C e e' q a n a' n' pos w vars : CR (a, n) (a', n') -> cen_rel e e' ->
    res_rel (opt_rel cpair_rel) (child_loop c u e q a n pos w vars) (child_loop c u e' q a' n' pos w vars).
  Proof.
    intros H He. induction vars as [|var rest IH]; cbn [child_loop]; [exact I|].
    destruct (wrapper_mismatch w var); [exact IH|].
    rewrite <- (cen_rel_assigned_eq e e' He).
    match goal with |- context [if ?x then _ else _] => destruct x eqn:Hc end; [|exact IH].
    pose proof (build_node_C e e' q var a n a' n' pos H (cen_rel_meta _ _ He)) as Hb.
    destruct (build_node c u e q var a n pos) as [[nd|]|k], (build_node c u e' q var a' n' pos) as [[nd'|]|k'];
      cbn [res_rel opt_rel] in Hb; try contradiction; cbn [rbind].
    - cbn [res_rel opt_rel]. split; cbn [fst snd]; [exact Hb|].
      set (uq := (if v_is KElement var && negb (v_list_element var) then v_index var else 0%N)).
      assert (H1 : cen_rel (if (uq =? 0)%N then e else set_assigned e (en_assigned e ++ [uq]))
                           (if (uq =? 0)%N then e' else set_assigned e' (en_assigned e ++ [uq]))).
      { destruct (uq =? 0)%N; [exact He|apply cen_rel_assigned; exact He]. }
      destruct (truthy_str w) as [ww|]; [|exact H1].
      rewrite <- (cen_rel_wrappers_eq _ _ H1). apply cen_rel_wrappers. exact H1.
    - exact IH.
    - exact Hb.
  Qed.

  Section Sim.
  Variable cfg : pconfig.

  Lemma element_child_C e e' q a n a' n' pos w : CR (a, n) (a', n') -> cen_rel e e' ->
    res_rel cpair_rel (element_child cfg c u e q a n pos w) (element_child cfg c u e' q a' n' pos w).
  Proof.
    intros H He. unfold element_child. rewrite <- (cen_rel_meta _ _ He).
    pose proof (child_loop_C e e' q a n a' n' pos w (find_children (en_meta e) q) H He) as Hc.
    destruct (child_loop c u e q a n pos w _) as [[x|]|k], (child_loop c u e' q a' n' pos w _) as [[x'|]|k'];
      cbn [res_rel opt_rel] in Hc; try contradiction; cbn [rbind res_rel].
    - exact Hc.
    - destruct (fail_unknown_props cfg); cbn [res_rel]; [reflexivity|]. split; [exact I|exact He].
    - exact Hc.
  Qed.

  (* ---------------------------------------------------------------- binding: equal results *)
  Lemma bind_attrs_C e a' n' : MP (en_meta e) -> CR (en_attrs e, en_ns e) (a', n') ->
    bind_attrs cfg c (with_ctx e a' n') = bind_attrs cfg c e.
  Proof.
    intros Hm H. rewrite <- (with_ctx_same e) at 2. symmetry. apply (A4 _ _ _ _ H). exact Hm.
  Qed.

  Lemma bind_text_C e a' n' p text : CR (en_attrs e, en_ns e) (a', n') -> ogood text ->
    bind_text cfg c (with_ctx e a' n') p text = bind_text cfg c e p text.
  Proof.
    intros H Hg. unfold bind_text, xsi_nil_true. cbn [with_ctx en_meta en_ns en_xsi_nil].
    destruct (m_text (en_meta e)) as [var|]; [|reflexivity].
    rewrite (A6 _ _ _ _ H _ _ _ text _ _ Hg). reflexivity.
  Qed.

  Lemma bind_wild_text_C e a' n' var p text tail : CR (en_attrs e, en_ns e) (a', n') ->
    bind_wild_text (with_ctx e a' n') var p text tail = bind_wild_text e var p text tail.
  Proof.
    intros H. unfold bind_wild_text. cbn [with_ctx en_attrs en_ns].
    rewrite (A5 _ _ _ _ H). reflexivity.
  Qed.

  Lemma bind_content_C e a' n' p text tail objs : CR (en_attrs e, en_ns e) (a', n') -> ogood text ->
    bind_content cfg c (with_ctx e a' n') p text tail objs = bind_content cfg c e p text tail objs.
  Proof.
    intros H Hg. unfold bind_content.
    change (en_meta (with_ctx e a' n')) with (en_meta e).
    change (en_position (with_ctx e a' n')) with (en_position e).
    change (en_wrappers (with_ctx e a' n')) with (en_wrappers e).
    destruct (find_any_wildcard (en_meta e)) as [wv|].
    - destruct (v_mixed wv).
      + cbn [rbind]. rewrite (bind_wild_text_C e a' n' wv _ text tail H). reflexivity.
      + destruct (bind_objects_loop c (en_meta e) (skipn (en_position e) objs) p (en_wrappers e) []) as [r|k]; cbn [rbind]; [|reflexivity].
        rewrite (bind_text_C e a' n' (fst r) text H Hg).
        destruct (bind_text cfg c e (fst r) text) as [[[bt p'] ws']|k]; cbn [rbind]; [|reflexivity].
        destruct bt; [reflexivity|]. rewrite (bind_wild_text_C e a' n' wv p' text tail H). reflexivity.
    - destruct (bind_objects_loop c (en_meta e) (skipn (en_position e) objs) p (en_wrappers e) []) as [r|k]; cbn [rbind]; [|reflexivity].
      rewrite (bind_text_C e a' n' (fst r) text H Hg). reflexivity.
  Qed.

  Lemma element_bind_C e a' n' q text tail objs : MP (en_meta e) -> CR (en_attrs e, en_ns e) (a', n') -> ogood text ->
    element_bind cfg c (with_ctx e a' n') q text tail objs = element_bind cfg c e q text tail objs.
  Proof.
    intros Hm H Hg. unfold element_bind, xsi_nil_true.
    change (en_meta (with_ctx e a' n')) with (en_meta e).
    change (en_xsi_nil (with_ctx e a' n')) with (en_xsi_nil e).
    change (en_derived (with_ctx e a' n')) with (en_derived e).
    change (en_xsi_type (with_ctx e a' n')) with (en_xsi_type e).
    rewrite (bind_attrs_C e a' n' Hm H).
    destruct (negb match en_xsi_nil e with Some true => true | _ => false end || m_nillable (en_meta e)); [|reflexivity].
    destruct (bind_attrs cfg c e) as [pa|k]; cbn [rbind]; [|reflexivity].
    rewrite (bind_content_C e a' n' (fst pa) text tail objs H Hg). reflexivity.
  Qed.

  Lemma primitive_bind_C m var n n' q text tail objs : cns_rel n n' -> ogood text ->
    primitive_bind cfg c m var n q text tail objs = primitive_bind cfg c m var n' q text tail objs.
  Proof. intros (a & a' & H) Hg. unfold primitive_bind. rewrite (A6 _ _ _ _ H _ _ _ text _ _ Hg). reflexivity. Qed.

  Lemma standard_bind_C m var ty fmt wr n n' nl dv q text objs : cns_rel n n' -> ogood text ->
    standard_bind cfg c m var ty fmt wr n nl dv q text objs = standard_bind cfg c m var ty fmt wr n' nl dv q text objs.
  Proof. intros (a & a' & H) Hg. unfold standard_bind. rewrite (A6 _ _ _ _ H _ _ _ text _ _ Hg). reflexivity. Qed.

  Lemma wildcard_bind_C var a n a' n' pos q text tail objs : CR (a, n) (a', n') ->
    wildcard_bind var a n pos q text tail objs = wildcard_bind var a' n' pos q text tail objs.
  Proof. intros H. unfold wildcard_bind. rewrite (A5 _ _ _ _ H). reflexivity. Qed.

  (* ---------------------------------------------------------------- the union replay *)
  Variables replay replay' : pconfig -> option cls -> list pevent -> outcome.
  Hypothesis replay_C : forall cfg0 root0 evs evs', Forall2 cev_rel evs evs' -> replay cfg0 root0 evs = replay' cfg0 root0 evs'.

  Lemma union_bind_C un un' q text tail objs : cun_rel un un' -> ogood text ->
    union_bind cfg c replay un q text tail objs = union_bind cfg c replay' un' q text tail objs.
  Proof.
    intros (a' & n' & evs' & Hctx & Hev & ->) Hg. unfold union_bind.
    cbn [un_attrs un_ns un_events un_candidates un_meta un_var].
    assert (Hevs : Forall2 cev_rel (PStart q (un_attrs un) (un_ns un) :: un_events un ++ [PEnd q text tail])
                                   (PStart q a' n' :: evs' ++ [PEnd q text tail])).
    { constructor; [cbn [cev_rel]; auto|]. apply Forall2_app_one'; [exact Hev|cbn [cev_rel]; auto]. }
    match goal with
    | |- (if truthy (fst ?X) then _ else _) = (if truthy (fst ?Y) then _ else _) => assert (HXY : X = Y)
    end.
    { apply fold_left_ext_in. intros acc cand _.
      destruct cand; try (rewrite (A6 _ _ _ _ Hctx _ _ _ text _ _ Hg); reflexivity).
      rewrite (replay_C _ _ _ _ Hevs). reflexivity. }
    rewrite HXY. reflexivity.
  Qed.

  (* ---------------------------------------------------------------- NodeParser.start / end *)
  Variable root : option cls.

  Lemma root_node_C q a n a' n' : CR (a, n) (a', n') ->
    res_rel cnode_rel (root_node c u root q a n) (root_node c u root q a' n').
  Proof.
    intros H. unfold root_node. rewrite (A1 _ _ _ _ H), (A2 _ _ _ _ H).
    destruct (xsi_type_of c a' n') as [xt|k]; cbn [rbind res_rel]; [|reflexivity].
    match goal with |- context [match ?X with Some cl => _ | None => RErr ParserError end] => destruct X as [cl|] end;
      cbn [res_rel]; [|reflexivity].
    destruct (fetch c u cl xt) as [meta|k] eqn:Ef; cbn [rbind res_rel]; [|reflexivity].
    cbn [cnode_rel]. split; cbn [en_meta]; [exact (fetch_MP _ _ _ Ef)|].
    exists a', n'. split; [exact H|reflexivity].
  Qed.

  Lemma cst_rel_push x y s s' : cnode_rel x y -> cst_rel s s' -> cst_rel (push x s) (push y s').
  Proof.
    intros Hn (Hq & Ho & Hw). unfold push. repeat split; cbn [st_queue st_objects st_warn]; try assumption.
    constructor; assumption.
  Qed.

  Lemma cen_rel_wrapper_lookup e e' q : cen_rel e e' -> assoc q (m_wrappers (en_meta e)) = assoc q (m_wrappers (en_meta e')).
  Proof. intros H. rewrite (cen_rel_meta _ _ H). reflexivity. Qed.

  Lemma start_C s s' q a n a' n' : cst_rel s s' -> CR (a, n) (a', n') ->
    res_rel cst_rel (start cfg c u root s q a n) (start cfg c u root s' q a' n').
  Proof.
    intros Hs H. pose proof Hs as (Hq & Ho & Hw). unfold start. rewrite <- Ho.
    destruct (st_queue s) as [|x Q] eqn:E, (st_queue s') as [|x' Q'] eqn:E'; inversion Hq as [|? ? ? ? Hn HQ]; subst.
    - pose proof (root_node_C q a n a' n' H) as Hr.
      destruct (root_node c u root q a n) as [r|k], (root_node c u root q a' n') as [r'|k'];
        cbn [res_rel] in Hr; try contradiction; cbn [rbind res_rel]; [|exact Hr].
      apply cst_rel_push; assumption.
    - destruct x as [e| | | |wq| |un], x' as [e'| | | |wq'| |un']; cbn [cnode_rel] in Hn; try contradiction.
      + (* ElementNode *)
        rewrite <- (cen_rel_wrapper_lookup e e' q Hn).
        destruct (is_some (assoc q (m_wrappers (en_meta e)))).
        * cbn [res_rel]. apply cst_rel_push; [reflexivity|exact Hs].
        * pose proof (element_child_C e e' q a n a' n' (length (st_objects s)) None H Hn) as Hc.
          destruct (element_child cfg c u e q a n _ None) as [r|k], (element_child cfg c u e' q a' n' _ None) as [r'|k'];
            cbn [res_rel] in Hc; try contradiction; cbn [rbind res_rel]; [|exact Hc].
          destruct Hc as [Hc1 Hc2]. repeat split; cbn [st_queue st_objects st_warn]; try assumption.
          constructor; [exact Hc1|]. constructor; [exact Hc2|exact HQ].
      + destruct Hn as (-> & -> & _). reflexivity.
      + destruct Hn as (-> & -> & -> & -> & -> & _ & -> & ->). reflexivity.
      + (* WildcardNode.child: a new WildcardNode with the CHILD's context *)
        destruct Hn as (-> & _ & _). cbn [res_rel]. apply cst_rel_push; [|exact Hs]. cbn [cnode_rel]. auto.
      + (* WrapperNode *)
        subst wq'. destruct Q as [|x2 Q2], Q' as [|x2' Q2']; inversion HQ as [|? ? ? ? Hn2 HQ2]; subst; [reflexivity|].
        destruct x2 as [e| | | | | |], x2' as [e'| | | | | |]; cbn [cnode_rel] in Hn2; try contradiction; try reflexivity.
        pose proof (element_child_C e e' q a n a' n' (length (st_objects s)) (Some wq) H Hn2) as Hc.
        destruct (element_child cfg c u e q a n _ (Some wq)) as [r|k], (element_child cfg c u e' q a' n' _ (Some wq)) as [r'|k'];
          cbn [res_rel] in Hc; try contradiction; cbn [rbind res_rel]; [|exact Hc].
        destruct Hc as [Hc1 Hc2]. repeat split; cbn [st_queue st_objects st_warn]; try assumption.
        constructor; [exact Hc1|]. constructor; [reflexivity|]. constructor; [exact Hc2|exact HQ2].
      + cbn [res_rel]. apply cst_rel_push; [exact I|exact Hs].
      + (* UnionNode: the start event is recorded *)
        destruct Hn as (ua' & un'' & evs' & Hctx & Hev & ->). cbn [res_rel].
        cbn [un_meta un_var un_attrs un_ns un_position un_level un_candidates un_events].
        repeat split; cbn [st_queue st_objects st_warn]; try assumption.
        constructor; [|exact HQ]. cbn [cnode_rel]. exists ua', un'', (evs' ++ [PStart q a' n']).
        split; [exact Hctx|]. split; [|reflexivity].
        apply Forall2_app_one'; [exact Hev|]. cbn [cev_rel]. auto.
  Qed.

  Lemma pend_C s s' q text tail : cst_rel s s' -> ogood text ->
    res_rel cst_rel (pend cfg c replay s q text tail) (pend cfg c replay' s' q text tail).
  Proof.
    intros Hs Hg. pose proof Hs as (Hq & Ho & Hw). unfold pend.
    destruct (st_queue s) as [|x Q] eqn:E, (st_queue s') as [|x' Q'] eqn:E'; inversion Hq as [|? ? ? ? Hn HQ]; subst;
      [reflexivity|].
    rewrite <- Ho, <- Hw.
    destruct x as [e|m v ns|m v ty fmt wr ns nl dv|v at_ ns pos|wq| |un],
             x' as [e'|m' v' ns'|m' v' ty' fmt' wr' ns' nl' dv'|v' at' ns' pos'|wq'| |un']; cbn [cnode_rel] in Hn; try contradiction.
    - destruct Hn as (Hm & a' & n' & Hctx & ->). rewrite (element_bind_C e a' n' q text tail (st_objects s) Hm Hctx Hg).
      unfold finish_end. rewrite <- Hw.
      destruct (element_bind cfg c e q text tail (st_objects s)) as [r|k]; cbn [rbind res_rel]; [|reflexivity].
      repeat split; cbn [st_queue st_objects st_warn]; assumption || reflexivity.
    - destruct Hn as (-> & -> & Hns). rewrite (primitive_bind_C m' v' ns ns' q text tail (st_objects s) Hns Hg).
      unfold finish_end. rewrite <- Hw.
      destruct (primitive_bind cfg c m' v' ns' q text tail (st_objects s)) as [r|k]; cbn [rbind res_rel]; [|reflexivity].
      repeat split; cbn [st_queue st_objects st_warn]; assumption || reflexivity.
    - destruct Hn as (-> & -> & -> & -> & -> & Hns & -> & ->).
      rewrite (standard_bind_C m' v' ty' fmt' wr' ns ns' nl' dv' q text (st_objects s) Hns Hg).
      unfold finish_end. rewrite <- Hw.
      destruct (standard_bind cfg c m' v' ty' fmt' wr' ns' nl' dv' q text (st_objects s)) as [r|k]; cbn [rbind res_rel]; [|reflexivity].
      repeat split; cbn [st_queue st_objects st_warn]; assumption || reflexivity.
    - destruct Hn as (-> & Hctx & ->). rewrite (wildcard_bind_C v' at_ ns at' ns' pos' q text tail (st_objects s) Hctx).
      cbn [res_rel]. repeat split; cbn [st_queue st_objects st_warn]; assumption || reflexivity.
    - cbn [res_rel]. repeat split; cbn [st_queue st_objects st_warn]; assumption || reflexivity.
    - cbn [res_rel]. repeat split; cbn [st_queue st_objects st_warn]; assumption || reflexivity.
    - pose proof Hn as (ua' & un'' & evs' & Hctx & Hev & Eun). rewrite Eun.
      cbn [un_level un_meta un_var un_attrs un_ns un_position un_candidates un_events].
      destruct (un_level un) as [|l] eqn:El.
      + rewrite <- Eun. rewrite (union_bind_C un un' q text tail (st_objects s) Hn Hg).
        destruct (union_bind cfg c replay' un' q text tail (st_objects s)) as [r|k]; cbn [rbind res_rel]; [|reflexivity].
        repeat split; cbn [st_queue st_objects st_warn]; assumption || reflexivity.
      + cbn [res_rel]. repeat split; cbn [st_queue st_objects st_warn]; try assumption.
        constructor; [|exact HQ]. cbn [cnode_rel]. exists ua', un'', (evs' ++ [PEnd q text tail]).
        split; [exact Hctx|]. split; [|reflexivity]. apply Forall2_app_one'; [exact Hev|]. cbn [cev_rel]. auto.
  Qed.

  Lemma step_C s s' ev ev' : cst_rel s s' -> cev_rel ev ev' ->
    res_rel cst_rel (step cfg c u replay root s ev) (step cfg c u replay' root s' ev').
  Proof.
    intros Hs He. destruct ev as [q a ns|q t tl|p v], ev' as [q' a' ns'|q' t' tl'|p' v']; cbn [cev_rel] in He; try contradiction; cbn [step].
    - destruct He as (-> & H). apply start_C; assumption.
    - destruct He as (-> & -> & -> & Hg). apply pend_C; assumption.
    - exact Hs.
  Qed.

  Lemma run_C evs evs' : Forall2 cev_rel evs evs' -> forall s s', cst_rel s s' ->
    res_rel cst_rel (run cfg c u replay root s evs) (run cfg c u replay' root s' evs').
  Proof.
    induction 1 as [|ev ev' r r' He Hr IH]; intros s s' Hs; cbn [run]; [exact Hs|].
    pose proof (step_C s s' ev ev' Hs He) as H1.
    destruct (step cfg c u replay root s ev) as [x|k], (step cfg c u replay' root s' ev') as [x'|k'];
      cbn [res_rel] in H1; try contradiction; cbn [rbind]; [apply IH; exact H1|exact H1].
  Qed.

  Lemma finish_C r r' : res_rel cst_rel r r' -> finish r = finish r'.
  Proof.
    destruct r as [s|k], r' as [s'|k']; cbn [res_rel]; try contradiction.
    - intros (_ & Ho & Hw). unfold finish. rewrite Ho, Hw. reflexivity.
    - intros ->. reflexivity.
  Qed.
  End Sim.

  (* ---------------------------------------------------------------- parse level *)
  Lemma cst_rel_init : cst_rel init_state init_state.
  Proof. repeat split. constructor. Qed.

  Lemma parse_n_C k : forall cfg root evs evs', Forall2 cev_rel evs evs' ->
    parse_n k cfg c u root evs = parse_n k cfg c u root evs'.
  Proof.
    induction k as [|k IH]; intros cfg root evs evs' H; cbn [parse_n].
    - apply finish_C. apply (run_C cfg); [|exact H|exact cst_rel_init]. reflexivity.
    - apply finish_C. apply (run_C cfg); [|exact H|exact cst_rel_init].
      intros cfg0 root0 e e' He. apply IH. exact He.
  Qed.

  Theorem parse_C cfg root evs evs' : Forall2 cev_rel evs evs' ->
    parse cfg c u root evs = parse cfg c u root evs'.
  Proof.
    intros H. unfold parse. rewrite <- (Forall2_len _ _ _ H). apply parse_n_C. exact H.
  Qed.
End Ctx.

(* ================================================================ PART 2 *)
(* ---------------------------------------------------------------- lexical prefixes, good texts *)
Definition lexprefix (s : str) : option str := fst (text_split 58 s).

Definition inP (P : list (option str)) (k : option str) : bool := existsb (ostr_eqb k) P.

Lemma inP_false P k : ~ In k P -> inP P k = false.
Proof.
  intros H. unfold inP. destruct (existsb (ostr_eqb k) P) eqn:E; [|reflexivity].
  apply existsb_exists in E as (x & Hx & Ex). apply ostr_eqb_eq in Ex. subst x. contradiction.
Qed.
Lemma inP_false_inv P k : inP P k = false -> ~ In k P.
Proof.
  intros H Hin. unfold inP in H. assert (E : existsb (ostr_eqb k) P = true).
  { apply existsb_exists. exists k. split; [exact Hin|apply ostr_eqb_refl]. }
  congruence.
Qed.

(* a text none of whose readings uses a prefix of P: the text itself (parse_any_attribute), the
   stripped text (QNameConverter.resolve strips), every whitespace token (tokens fields) *)
Definition goodb (P : list (option str)) (s : str) : bool :=
  negb (inP P (lexprefix s)) && negb (inP P (lexprefix (py_strip s)))
  && forallb (fun w => negb (inP P (lexprefix w))) (split_ws py_isspace s).
Definition good (P : list (option str)) (s : str) : Prop := goodb P s = true.

Lemma good_self P s : good P s -> ~ In (lexprefix s) P.
Proof.
  unfold good, goodb. intros H. apply andb_true_iff in H as [H _]. apply andb_true_iff in H as [H _].
  apply inP_false_inv. apply negb_true_iff. exact H.
Qed.
Lemma good_strip P s : good P s -> ~ In (lexprefix (py_strip s)) P.
Proof.
  unfold good, goodb. intros H. apply andb_true_iff in H as [H _]. apply andb_true_iff in H as [_ H].
  apply inP_false_inv. apply negb_true_iff. exact H.
Qed.
Lemma good_token P s w : good P s -> In w (split_ws py_isspace s) -> ~ In (lexprefix w) P.
Proof.
  unfold good, goodb. intros H Hw. apply andb_true_iff in H as [_ H].
  rewrite forallb_forall in H. apply inP_false_inv. apply negb_true_iff. exact (H w Hw).
Qed.

(* a whitespace token is its own strip *)
Lemma split_ws_aux_token ws : forall s cur w,
  forallb (fun ch => negb (ws ch)) cur = true -> In w (split_ws_aux ws cur s) ->
  w <> [] /\ forallb (fun ch => negb (ws ch)) w = true.
Proof.
  induction s as [|x r IH]; intros cur w Hcur Hw; cbn [split_ws_aux] in Hw.
  - destruct cur as [|y cur']; [contradiction|]. destruct Hw as [<-|[]]. split.
    + intros E. apply (f_equal (@rev N)) in E. rewrite rev_involutive in E. discriminate.
    + rewrite forallb_rev. exact Hcur.
  - destruct (ws x) eqn:Ex.
    + destruct cur as [|y cur'].
      * exact (IH [] w eq_refl Hw).
      * destruct Hw as [<-|Hw]; [|exact (IH [] w eq_refl Hw)]. split.
        { intros E. apply (f_equal (@rev N)) in E. rewrite rev_involutive in E. discriminate. }
        { rewrite forallb_rev. exact Hcur. }
    + apply (IH (x :: cur) w); [|exact Hw]. cbn [forallb]. rewrite Ex. exact Hcur.
Qed.

Lemma strip_by_nows ws w : forallb (fun ch => negb (ws ch)) w = true -> strip_by ws w = w.
Proof.
  intros H. pose proof (strip_by_wrap ws [] w [] eq_refl eq_refl) as S. cbn [app] in S. rewrite app_nil_r in S.
  apply S.
  - intros ch r ->. cbn [forallb] in H. apply andb_true_iff in H as [H _]. apply negb_true_iff. exact H.
  - intros ch r E. rewrite <- forallb_rev in H. rewrite E in H. cbn [forallb] in H.
    apply andb_true_iff in H as [H _]. apply negb_true_iff. exact H.
Qed.

Lemma py_strip_token s w : In w (split_ws py_isspace s) -> py_strip w = w.
Proof.
  intros H. unfold py_strip. apply strip_by_nows.
  exact (proj2 (split_ws_aux_token py_isspace s [] w eq_refl H)).
Qed.

(* ---------------------------------------------------------------- the converter law *)
(* the converter reads the prefix map only at the lexical prefix of the stripped text (the default
   namespace only through its truth value: ns_read) *)
Definition conv_prefix_local (c : conv) : Prop :=
  forall tys fmt n n' s,
    ns_read (lexprefix (py_strip s)) n = ns_read (lexprefix (py_strip s)) n' ->
    c_deser c tys fmt n s = c_deser c tys fmt n' s.

Lemma cq_partition1 sep s :
  ConvQName.partition1 sep s = match split_at sep s with Some lr => lr | None => (s, []) end.
Proof.
  induction s as [|x r IH]; cbn [ConvQName.partition1 split_at]; [reflexivity|].
  destruct (N.eqb x sep); [reflexivity|]. rewrite IH.
  destruct (split_at sep r) as [[l rr]|]; reflexivity.
Qed.

Lemma cq_text_split sep s : ConvQName.text_split sep s = text_split sep s.
Proof.
  unfold ConvQName.text_split, text_split. rewrite cq_partition1.
  destruct (split_at sep s) as [[l r]|]; reflexivity.
Qed.

Theorem qname_deser_prefix_local : forall n n' s,
  ns_read (lexprefix (py_strip s)) n = ns_read (lexprefix (py_strip s)) n' ->
  ConvQName.qname_deser s (Some n) = ConvQName.qname_deser s (Some n').
Proof.
  intros n n' s H. unfold ConvQName.qname_deser, ConvQName.qname_resolve.
  destruct (py_strip s) as [|ch rest]; [reflexivity|].
  destruct (N.eqb ch 123); [reflexivity|].
  rewrite cq_text_split. unfold lexprefix in H.
  destruct (text_split 58 (ch :: rest)) as [prefix name]. cbn [fst] in H.
  assert (Ea : match n with e :: mm => ConvQName.ns_get prefix (e :: mm) | [] => None end = ns_get prefix n)
    by (destruct n; [reflexivity|apply cq_ns_get]).
  assert (Eb : match n' with e :: mm => ConvQName.ns_get prefix (e :: mm) | [] => None end = ns_get prefix n')
    by (destruct n'; [reflexivity|apply cq_ns_get]).
  rewrite Ea, Eb. clear Ea Eb.
  destruct prefix as [p|].
  - cbn [ns_read] in H. rewrite H. reflexivity.
  - cbn [ns_read] in H. cbn [ConvQName.truthy andb].
    destruct (ConvQName.name_ok name); [|reflexivity]. cbn [ConvQName.clark]. f_equal. apply clark_norm. exact H.
Qed.

Theorem qconv_prefix_local : conv_prefix_local qconv.
Proof.
  intros tys fmt n n' s H. cbn [qconv c_deser]. destruct (existsb (ptype_eqb TQName) tys); [|reflexivity].
  rewrite (qname_deser_prefix_local n n' s H). reflexivity.
Qed.

(* ---------------------------------------------------------------- the renaming relation *)
Definition maps_agree_outside (P : list (option str)) (n n' : nsmap) : Prop :=
  forall k, ~ In k P -> ns_read k n = ns_read k n'.

(* computable on the keys that occur *)
Definition maps_agree_outsideb (P : list (option str)) (n n' : nsmap) : bool :=
  forallb (fun k => inP P k || opt_eqb str_eqb (ns_read k n) (ns_read k n')) (None :: map fst n ++ map fst n').

Lemma maps_agree_outsideb_sound P n n' : maps_agree_outsideb P n n' = true -> maps_agree_outside P n n'.
Proof.
  unfold maps_agree_outsideb. intros H k Hk. rewrite forallb_forall in H.
  destruct (in_dec (fun x y => match ostr_eqb x y as r return (ostr_eqb x y = r -> _) with
                               | true => fun E => left (proj1 (ostr_eqb_eq x y) E)
                               | false => fun E => right (proj1 (ostr_eqb_neq x y) E)
                               end eq_refl) k (None :: map fst n ++ map fst n')) as [Hin|Hnin].
  - specialize (H k Hin). rewrite (inP_false P k Hk) in H. cbn [orb] in H. apply ostr_opt_eqb_eq. exact H.
  - assert (Ha : ~ In k (map fst n)) by (intros X; apply Hnin; right; apply in_or_app; left; exact X).
    assert (Hb : ~ In k (map fst n')) by (intros X; apply Hnin; right; apply in_or_app; right; exact X).
    destruct k as [p|]; [|exfalso; apply Hnin; left; reflexivity].
    unfold ns_read. rewrite (ns_get_not_key _ _ Ha), (ns_get_not_key _ _ Hb). reflexivity.
Qed.

(* no class declares an attribute field named xsi:type *)
Definition MPi (m : xmeta) : Prop := find_attribute m XSI_TYPE = None.
Definition no_xsi_type_attr (u : universe) : bool :=
  forallb (fun cm => negb (is_some (find_attribute (snd cm) XSI_TYPE))) (u_metas u).

Lemma assocN_In {A} k (l : list (N * A)) v : assocN k l = Some v -> exists k', In (k', v) l.
Proof.
  induction l as [|[k0 v0] l IH]; cbn [assocN]; [discriminate|].
  destruct (N.eqb k k0).
  - intros [= <-]. exists k0. left. reflexivity.
  - intros H. destruct (IH H) as (k' & Hk). exists k'. right. exact Hk.
Qed.

Lemma no_xsi_type_attr_MP u : no_xsi_type_attr u = true -> forall cl m, u_meta u cl = Some m -> MPi m.
Proof.
  intros H cl m E. unfold u_meta in E. destruct (assocN_In _ _ _ E) as (k' & Hin).
  unfold no_xsi_type_attr in H. rewrite forallb_forall in H. specialize (H _ Hin). cbn [snd] in H.
  unfold MPi. destruct (find_attribute m XSI_TYPE); [discriminate|reflexivity].
Qed.

(* one attribute of the two start events: same name; the xsi:type value may be re-spelled as long as
   it resolves to the same QName (and expands to the same generic attribute value); any other value
   is unchanged and satisfies `g` *)
Definition attr_rel_gen (c : conv) (g : str -> Prop) (n n' : nsmap) (kv kv' : qname * str) : Prop :=
  fst kv = fst kv' /\
  if str_eqb XSI_TYPE (fst kv)
  then c_deser c [TQName] None n (snd kv) = c_deser c [TQName] None n' (snd kv')
       /\ parse_any_attribute (snd kv) n = parse_any_attribute (snd kv') n'
       /\ (snd kv = [] <-> snd kv' = [])
  else snd kv = snd kv' /\ g (snd kv).

Definition renamed_gen (P : list (option str)) (c : conv) (g : str -> Prop) (x y : pevent) : Prop :=
  match x, y with
  | PStart q a n, PStart q' a' n' =>
      q = q' /\ maps_agree_outside P n n' /\ Forall2 (attr_rel_gen c g n n') a a'
  | PEnd q t tl, PEnd q' t' tl' => q = q' /\ t = t' /\ tl = tl' /\ ogood g t
  | PStartNs _ _, PStartNs _ _ => True
  | _, _ => False
  end.

Section Rename.
  Variable P : list (option str).
  Variable c : conv.
  Hypothesis c_local : conv_prefix_local c.

  Definition attr_rel := attr_rel_gen c (good P).

  Definition CRi (x y : ctx) : Prop :=
    maps_agree_outside P (snd x) (snd y) /\ Forall2 (attr_rel (snd x) (snd y)) (fst x) (fst y).

  (* ---------------------------------------------------------------- reads of the map *)
  Lemma deser_outside n n' tys fmt s : maps_agree_outside P n n' -> ~ In (lexprefix (py_strip s)) P ->
    deser c tys fmt n s = deser c tys fmt n' s.
  Proof.
    intros Hm Hs. unfold deser. rewrite (c_local tys fmt n n' s (Hm _ Hs)). reflexivity.
  Qed.

  Lemma parse_value_outside n n' txt tys d tf fmt : maps_agree_outside P n n' -> ogood (good P) txt ->
    parse_value c txt tys d n tf fmt = parse_value c txt tys d n' tf fmt.
  Proof.
    intros Hm Hg. unfold parse_value. destruct txt as [s|]; [|reflexivity]. cbn [ogood] in Hg.
    destruct tf as [f|].
    - rewrite (map_res_ext_in (deser c tys fmt n) (deser c tys fmt n')); [reflexivity|].
      intros w Hw. apply deser_outside; [exact Hm|]. rewrite (py_strip_token s w Hw).
      exact (good_token P s w Hg Hw).
    - apply deser_outside; [exact Hm|]. exact (good_strip P s Hg).
  Qed.

  Lemma parse_var_outside n n' failc m var txt tys fmt : maps_agree_outside P n n' -> ogood (good P) txt ->
    parse_var c failc m var txt n tys fmt = parse_var c failc m var txt n' tys fmt.
  Proof. intros Hm Hg. unfold parse_var. rewrite (parse_value_outside n n' _ _ _ _ _ Hm Hg). reflexivity. Qed.

  Lemma parse_any_attribute_outside n n' v : maps_agree_outside P n n' -> ~ In (lexprefix v) P ->
    parse_any_attribute v n = parse_any_attribute v n'.
  Proof.
    intros Hm Hv. unfold parse_any_attribute. unfold lexprefix in Hv.
    destruct (text_split 58 v) as [[[|x p]|] sfx]; try reflexivity. cbn [fst] in Hv.
    rewrite !ns_lookup_get. pose proof (Hm _ Hv) as E. cbn [ns_read] in E. rewrite E. reflexivity.
  Qed.

  (* every attribute is expanded to the same generic value *)
  Lemma attr_rel_any n n' kv kv' : maps_agree_outside P n n' -> attr_rel n n' kv kv' ->
    parse_any_attribute (snd kv) n = parse_any_attribute (snd kv') n'.
  Proof.
    intros Hm (_ & H). destruct (str_eqb XSI_TYPE (fst kv)).
    - exact (proj1 (proj2 H)).
    - destruct H as (<- & Hg). apply parse_any_attribute_outside; [exact Hm|]. exact (good_self P _ Hg).
  Qed.

  (* ---------------------------------------------------------------- lookups in the attribute list *)
  Lemma assoc_other n n' a a' k : str_eqb XSI_TYPE k = false -> Forall2 (attr_rel n n') a a' ->
    assoc k a = assoc k a'.
  Proof.
    intros Hk H. induction H as [|[k0 v0] [k0' v0'] r r' (Ek & Hkv) Hr IH]; [reflexivity|].
    cbn [fst snd] in Ek, Hkv. subst k0'. cbn [assoc].
    destruct (str_eqb k k0) eqn:E; [|exact IH].
    apply str_eqb_eq in E. subst k0. rewrite Hk in Hkv. destruct Hkv as (-> & _). reflexivity.
  Qed.

  Lemma assoc_xsi_type n n' a a' : Forall2 (attr_rel n n') a a' ->
    opt_rel (fun v v' => c_deser c [TQName] None n v = c_deser c [TQName] None n' v' /\ (v = [] <-> v' = []))
            (assoc XSI_TYPE a) (assoc XSI_TYPE a').
  Proof.
    intros H. induction H as [|[k0 v0] [k0' v0'] r r' (Ek & Hkv) Hr IH]; [exact I|].
    cbn [fst snd] in Ek, Hkv. subst k0'. cbn [assoc].
    destruct (str_eqb XSI_TYPE k0); [|exact IH].
    cbn [opt_rel]. destruct Hkv as (H1 & _ & H3). split; assumption.
  Qed.

  (* ---------------------------------------------------------------- A1 - A6 *)
  Lemma I_A1 a n a' n' : CRi (a, n) (a', n') -> xsi_type_of c a n = xsi_type_of c a' n'.
  Proof.
    intros (_ & Ha). cbn [fst snd] in Ha. unfold xsi_type_of.
    pose proof (assoc_xsi_type n n' a a' Ha) as H.
    destruct (assoc XSI_TYPE a) as [v|], (assoc XSI_TYPE a') as [v'|]; cbn [opt_rel] in H; try contradiction; [|reflexivity].
    destruct H as (Hd & Hnil).
    destruct v as [|x v], v' as [|x' v']; cbn [truthy_str].
    - reflexivity.
    - exfalso. assert (E : x' :: v' = []) by (apply Hnil; reflexivity). discriminate.
    - exfalso. assert (E : x :: v = []) by (apply Hnil; reflexivity). discriminate.
    - rewrite Hd. reflexivity.
  Qed.

  Lemma xsi_type_nil_neq : str_eqb XSI_TYPE XSI_NIL = false.
  Proof. vm_compute. reflexivity. Qed.

  Lemma I_A2 a n a' n' : CRi (a, n) (a', n') -> xsi_nil_of a = xsi_nil_of a'.
  Proof.
    intros (_ & Ha). cbn [fst snd] in Ha. unfold xsi_nil_of.
    rewrite (assoc_other n n' a a' XSI_NIL xsi_type_nil_neq Ha). reflexivity.
  Qed.

  Section WithU.
  Variable u : universe.
  Hypothesis u_ok : no_xsi_type_attr u = true.

  Lemma filter_fixed_attrs_I n n' a a' cand : Forall2 (attr_rel n n') a a' ->
    filter_fixed_attrs c u a cand = filter_fixed_attrs c u a' cand.
  Proof.
    intros Ha. unfold filter_fixed_attrs.
    assert (Hnil : match a with [] => true | _ => false end = match a' with [] => true | _ => false end)
      by (destruct Ha; reflexivity).
    destruct cand; try (rewrite Hnil; reflexivity).
    unfold get_meta. destruct (u_meta u c0) as [meta|] eqn:E; cbn [rbind]; [|reflexivity].
    pose proof (no_xsi_type_attr_MP u u_ok c0 meta E) as Hmp. unfold MPi in Hmp.
    clear Hnil. f_equal. induction Ha as [|[k0 v0] [k0' v0'] r r' (Ek & Hkv) Hr IH]; [reflexivity|].
    cbn [fst snd] in Ek, Hkv. subst k0'. cbn [forallb fst snd]. rewrite IH. f_equal.
    destruct (str_eqb XSI_TYPE k0) eqn:E0.
    - apply str_eqb_eq in E0. subst k0. rewrite Hmp. reflexivity.
    - destruct Hkv as (-> & _). reflexivity.
  Qed.

  Lemma I_A3 a n a' n' : CRi (a, n) (a', n') -> forall tys, filter_candidates c u a tys = filter_candidates c u a' tys.
  Proof.
    intros (_ & Ha) tys. cbn [fst snd] in Ha. induction tys as [|t r IH]; cbn [filter_candidates]; [reflexivity|].
    rewrite (filter_fixed_attrs_I n n' a a' t Ha), IH. reflexivity.
  Qed.
  End WithU.

  (* bind_attrs_loop, one iteration, with the `other` branch named *)
  Definition other_branch (cfg : pconfig) (en : enode) (q : qname) (sval : str) (rest : list (qname * str))
             (p : params) (ws : list warning) : res (params * list warning) :=
    match find_any_attributes (en_meta en) q with
    | Some var => rbind (bind_any_attr en var q sval p) (fun p' => bind_attrs_loop cfg c en rest p' ws)
    | None =>
        if fail_unknown_attrs cfg && negb (ostr_eqb (target_uri q) (Some XSI_NS))
        then RErr ParserError
        else bind_attrs_loop cfg c en rest p ws
    end.

  Lemma bind_attrs_loop_cons cfg en q sval rest p ws :
    bind_attrs_loop cfg c en ((q, sval) :: rest) p ws =
    match find_attribute (en_meta en) q with
    | Some var =>
        if pmem (v_name var) p then other_branch cfg en q sval rest p ws
        else rbind (bind_attr cfg c en var sval p) (fun r => bind_attrs_loop cfg c en rest (fst r) (ws ++ snd r))
    | None => other_branch cfg en q sval rest p ws
    end.
  Proof. reflexivity. Qed.

  Lemma bind_attrs_loop_I cfg en a0 a0' n n' : MPi (en_meta en) -> maps_agree_outside P n n' ->
    forall a a', Forall2 (attr_rel n n') a a' -> forall p ws,
    bind_attrs_loop cfg c (with_ctx en a0 n) a p ws = bind_attrs_loop cfg c (with_ctx en a0' n') a' p ws.
  Proof.
    intros Hmp Hm a a' Ha. induction Ha as [|[q sval] [q' sval'] r r' Hkv Hr IH]; intros p ws; [reflexivity|].
    pose proof (attr_rel_any n n' _ _ Hm Hkv) as Hany. cbn [snd] in Hany.
    destruct Hkv as (Ek & Hkv). cbn [fst snd] in Ek, Hkv. subst q'.
    rewrite !bind_attrs_loop_cons.
    change (en_meta (with_ctx en a0 n)) with (en_meta en). change (en_meta (with_ctx en a0' n')) with (en_meta en).
    assert (Ho : other_branch cfg (with_ctx en a0 n) q sval r p ws = other_branch cfg (with_ctx en a0' n') q sval' r' p ws).
    { unfold other_branch.
      change (en_meta (with_ctx en a0 n)) with (en_meta en). change (en_meta (with_ctx en a0' n')) with (en_meta en).
      destruct (find_any_attributes (en_meta en) q) as [var|].
      - assert (Eb : bind_any_attr (with_ctx en a0 n) var q sval p = bind_any_attr (with_ctx en a0' n') var q sval' p).
        { unfold bind_any_attr. cbn [with_ctx en_ns]. rewrite Hany. reflexivity. }
        rewrite Eb. destruct (bind_any_attr (with_ctx en a0' n') var q sval' p); cbn [rbind]; [apply IH|reflexivity].
      - destruct (fail_unknown_attrs cfg && negb (ostr_eqb (target_uri q) (Some XSI_NS))); [reflexivity|apply IH]. }
    destruct (str_eqb XSI_TYPE q) eqn:E0.
    - apply str_eqb_eq in E0. subst q. unfold MPi in Hmp. rewrite Hmp. exact Ho.
    - destruct Hkv as (<- & Hg).
      destruct (find_attribute (en_meta en) q) as [var|]; [|exact Ho].
      destruct (pmem (v_name var) p); [exact Ho|].
      assert (Eb : bind_attr cfg c (with_ctx en a0 n) var sval p = bind_attr cfg c (with_ctx en a0' n') var sval p).
      { unfold bind_attr. cbn [with_ctx en_meta en_ns].
        rewrite (parse_var_outside n n' _ _ _ (Some sval) None None Hm Hg). reflexivity. }
      rewrite Eb. destruct (bind_attr cfg c (with_ctx en a0' n') var sval p); cbn [rbind]; [apply IH|reflexivity].
  Qed.

  Lemma I_A4 a n a' n' : CRi (a, n) (a', n') -> forall cfg en, MPi (en_meta en) ->
    bind_attrs cfg c (with_ctx en a n) = bind_attrs cfg c (with_ctx en a' n').
  Proof.
    intros (Hm & Ha) cfg en Hmp. cbn [fst snd] in Hm, Ha. unfold bind_attrs.
    change (en_attrs (with_ctx en a n)) with a. change (en_attrs (with_ctx en a' n')) with a'.
    apply bind_attrs_loop_I; assumption.
  Qed.

  Lemma I_A5 a n a' n' : CRi (a, n) (a', n') -> parse_any_attributes a n = parse_any_attributes a' n'.
  Proof.
    intros (Hm & Ha). cbn [fst snd] in Hm, Ha. unfold parse_any_attributes.
    induction Ha as [|kv kv' r r' Hkv Hr IH]; [reflexivity|]. cbn [map].
    rewrite IH, (attr_rel_any n n' kv kv' Hm Hkv). rewrite (proj1 Hkv). reflexivity.
  Qed.

  Lemma I_A6 a n a' n' : CRi (a, n) (a', n') -> forall failc m var txt tys fmt, ogood (good P) txt ->
    parse_var c failc m var txt n tys fmt = parse_var c failc m var txt n' tys fmt.
  Proof. intros (Hm & _) failc m var txt tys fmt Hg. apply parse_var_outside; assumption. Qed.

  (* ---------------------------------------------------------------- events *)
  Definition renamed : pevent -> pevent -> Prop := renamed_gen P c (good P).

  Lemma renamed_cev x y : renamed x y -> cev_rel CRi (good P) x y.
  Proof. destruct x, y; exact (fun h => h). Qed.
End Rename.

(* ================================================================ the theorem *)
Theorem prefix_renaming_invariant : forall P cfg c u root evs evs',
  conv_prefix_local c -> no_xsi_type_attr u = true ->
  Forall2 (renamed P c) evs evs' ->
  parse cfg c u root evs = parse cfg c u root evs'.
Proof.
  intros P cfg c u root evs evs' Hc Hu H.
  apply (parse_C c u (CRi P c) MPi (good P)
           (no_xsi_type_attr_MP u Hu)
           (I_A1 P c) (I_A2 P c) (I_A3 P c u Hu) (I_A4 P c Hc) (I_A5 P c) (I_A6 P c Hc)).
  clear -H. induction H as [|x y r r' Hxy Hr IH]; constructor; [apply renamed_cev; exact Hxy|exact IH].
Qed.

(* ---------------------------------------------------------------- building the relation *)
Lemma attr_rel_xsi_type P c n n' v v' :
  c_deser c [TQName] None n v = c_deser c [TQName] None n' v' ->
  parse_any_attribute v n = parse_any_attribute v' n' ->
  (v = [] <-> v' = []) ->
  attr_rel P c n n' (XSI_TYPE, v) (XSI_TYPE, v').
Proof.
  intros H1 H2 H3. unfold attr_rel, attr_rel_gen. cbn [fst snd]. split; [reflexivity|].
  rewrite str_eqb_refl. split; [exact H1|]. split; [exact H2|exact H3].
Qed.

Lemma attr_rel_plain P c n n' k v : str_eqb XSI_TYPE k = false -> goodb P v = true ->
  attr_rel P c n n' (k, v) (k, v).
Proof.
  intros Hk Hg. unfold attr_rel, attr_rel_gen. cbn [fst snd]. split; [reflexivity|].
  rewrite Hk. split; [reflexivity|exact Hg].
Qed.

(* the xsi:type clause for `qconv`, from the function-level result of Proofs/ParserInvNs.v: the
   value "p:local" re-spelled "p':local" where p (in n) and p' (in n') are bound to the same
   non-empty namespace name *)
Lemma nc_not_slash : ConvQName.ncname_char 47%N = false.
Proof. vm_compute. reflexivity. Qed.

Lemma text_split_qlex p local : ConvQName.is_ncname local = true -> ConvQName.is_ncname p = true ->
  text_split 58 (qlex (Some p) local) = (Some p, local).
Proof.
  intros Hl Hp. rewrite <- cq_text_split. cbn [qlex].
  destruct (is_ncname_chars local Hl) as [Ln _]. destruct (is_ncname_chars p Hp) as [_ Pc].
  apply text_split_at; [|exact Ln]. apply (forallb_not_mem ConvQName.ncname_char 58%N p nc_not_colon Pc).
Qed.

Lemma parse_any_attribute_qlex p local n uri :
  ConvQName.is_ncname local = true -> ConvQName.is_ncname p = true -> ns_get (Some p) n = Some uri ->
  parse_any_attribute (qlex (Some p) local) n = build_qname (Some uri) local.
Proof.
  intros Hl Hp Hn. unfold parse_any_attribute. rewrite (text_split_qlex p local Hl Hp).
  destruct (is_ncname_chars p Hp) as [Pn _]. destruct p as [|x r]; [congruence|].
  rewrite ns_lookup_get, Hn.
  destruct (is_ncname_chars local Hl) as [Ln Lc]. destruct local as [|y l]; [congruence|].
  cbn [forallb] in Lc. apply andb_true_iff in Lc as [Ly _].
  cbn [startswith]. destruct (N.eqb_spec 47%N y) as [<-|_]; [|reflexivity].
  rewrite nc_not_slash in Ly. discriminate.
Qed.

Lemma attr_rel_respelled P n n' p p' local uri :
  good_name local = true -> good_name p = true -> good_name p' = true ->
  ns_get (Some p) n = Some uri -> ns_get (Some p') n' = Some uri -> uri <> [] ->
  attr_rel P qconv n n' (XSI_TYPE, qlex (Some p) local) (XSI_TYPE, qlex (Some p') local).
Proof.
  intros Gl Gp Gp' Hn Hn' Hu.
  destruct (good_name_parts local Gl) as [Hl _]. destruct (good_name_parts p Gp) as [Hp _]. destruct (good_name_parts p' Gp') as [Hp' _].
  apply attr_rel_xsi_type.
  - cbn [qconv c_deser existsb ptype_eqb orb].
    pose proof (qname_respelling (Some p) (Some p') local n n' [] [] [] [] Gl Gp Gp' eq_refl eq_refl eq_refl eq_refl) as H.
    cbn [app] in H. rewrite !app_nil_r in H. rewrite H; [reflexivity| |].
    + rewrite Hn, Hn'. reflexivity.
    + left. rewrite Hn. destruct uri; [congruence|discriminate].
  - rewrite (parse_any_attribute_qlex p local n uri Hl Hp Hn), (parse_any_attribute_qlex p' local n' uri Hl Hp' Hn').
    reflexivity.
  - destruct (is_ncname_chars p Hp) as [Pn _]. destruct (is_ncname_chars p' Hp') as [Pn' _].
    cbn [qlex]. split; intros E; apply app_eq_nil in E as [E _]; congruence.
Qed.

(* ================================================================ non-vacuity *)
(* <AW xmlns:p="urn:p" xmlns:xsi=".." xsi:type="p:T" k="v"><c xsi:type="p:T" m="x:n">hi</c></AW>
   against the same document with the prefix p renamed to z everywhere: in the declarations (hence
   in the prefix maps of both start events) and in the two xsi:type values.  The root class AW has an
   Attributes field and a wildcard; the child becomes a generic element whose xsi:type attribute is
   expanded to "{urn:p}T" by parse_any_attribute in both runs. *)
Definition ex_P : list (option str) := [Some [112]%N; Some [122]%N].
Definition ex_urn : str := [117;114;110;58;112]%N.
Definition ex_n : nsmap := [(Some [112]%N, ex_urn); (Some [120;115;105]%N, XSI_NS)].
Definition ex_n' : nsmap := [(Some [122]%N, ex_urn); (Some [120;115;105]%N, XSI_NS)].
Definition ex_pT : str := [112;58;84]%N.
Definition ex_zT : str := [122;58;84]%N.
Definition ex_evs : list pevent :=
  [PStartNs (Some [112]%N) ex_urn;
   PStart [65;87]%N [(XSI_TYPE, ex_pT); ([107]%N, [118]%N)] ex_n;
   PStart [99]%N [(XSI_TYPE, ex_pT); ([109]%N, [120;58;110]%N)] ex_n;
   PEnd [99]%N (Some [104;105]%N) None;
   PEnd [65;87]%N None None].
Definition ex_evs' : list pevent :=
  [PStartNs (Some [122]%N) ex_urn;
   PStart [65;87]%N [(XSI_TYPE, ex_zT); ([107]%N, [118]%N)] ex_n';
   PStart [99]%N [(XSI_TYPE, ex_zT); ([109]%N, [120;58;110]%N)] ex_n';
   PEnd [99]%N (Some [104;105]%N) None;
   PEnd [65;87]%N None None].

Lemma ex_maps : maps_agree_outside ex_P ex_n ex_n'.
Proof. apply maps_agree_outsideb_sound. vm_compute. reflexivity. Qed.

Lemma ex_xsi_attr : attr_rel ex_P qconv ex_n ex_n' (XSI_TYPE, ex_pT) (XSI_TYPE, ex_zT).
Proof.
  apply (attr_rel_respelled ex_P ex_n ex_n' [112]%N [122]%N [84]%N ex_urn); try (vm_compute; reflexivity).
  discriminate.
Qed.

Example ex_renamed : Forall2 (renamed ex_P qconv) ex_evs ex_evs'.
Proof.
  unfold ex_evs, ex_evs'. constructor; [exact I|].
  constructor.
  { split; [reflexivity|]. split; [exact ex_maps|].
    constructor; [exact ex_xsi_attr|]. constructor; [|constructor].
    apply attr_rel_plain; vm_compute; reflexivity. }
  constructor.
  { split; [reflexivity|]. split; [exact ex_maps|].
    constructor; [exact ex_xsi_attr|]. constructor; [|constructor].
    apply attr_rel_plain; vm_compute; reflexivity. }
  constructor.
  { split; [reflexivity|]. split; [reflexivity|]. split; [reflexivity|]. vm_compute. reflexivity. }
  constructor; [|constructor].
  split; [reflexivity|]. split; [reflexivity|]. split; [reflexivity|]. exact I.
Qed.

(* the theorem applies; both runs succeed; the streams really differ, and renaming the maps WITHOUT
   re-spelling the xsi:type values is visible (the old prefix no longer resolves) *)
Example prefix_renaming_example :
  parse default_config qconv u_any_attrs (Some root_any_attrs) ex_evs
  = parse default_config qconv u_any_attrs (Some root_any_attrs) ex_evs'
  /\ (exists v, parse default_config qconv u_any_attrs (Some root_any_attrs) ex_evs = Ok v []
             /\ parse default_config qconv u_any_attrs (Some root_any_attrs) ex_evs' = Ok v [])
  /\ ex_evs <> ex_evs'
  /\ parse default_config qconv u_any_attrs (Some root_any_attrs) (map (rename_event [112]%N [122]%N) ex_evs)
     = Err ConverterError.
Proof.
  split.
  { apply (prefix_renaming_invariant ex_P); [exact qconv_prefix_local|vm_compute; reflexivity|exact ex_renamed]. }
  split.
  { eexists. split; vm_compute; reflexivity. }
  split; [discriminate|]. vm_compute. reflexivity.
Qed.

(* ================================================================ the side condition is needed *)
(* Proofs/ParserInvNs.prefix_renaming_refuted: renaming a prefix in the maps alone changes the
   result when an ordinary attribute value has the renamed prefix as its lexical prefix. *)
Definition renaming_maps_only_refuted := prefix_renaming_refuted.

(* The same witness, stated against the relation of this file: with `good` replaced by the trivial
   predicate (everything else kept: maps agree outside P, names and values equal, no xsi:type
   attribute at all) the conclusion fails. *)
Definition weak_renamedb (P : list (option str)) (p z : str) (ev : pevent) : bool :=
  match ev with
  | PStart q a n => maps_agree_outsideb P n (rename_prefix p z n)
                    && forallb (fun kv : qname * str => negb (str_eqb XSI_TYPE (fst kv))) a
  | _ => true
  end.

Lemma weak_renamedb_sound P c p z ev : weak_renamedb P p z ev = true ->
  renamed_gen P c (fun _ => True) ev (rename_event p z ev).
Proof.
  destruct ev as [q a n|q t tl|pf uri]; cbn [weak_renamedb rename_event renamed_gen]; intros H.
  - apply andb_true_iff in H as [Hm Ha]. split; [reflexivity|]. split; [apply maps_agree_outsideb_sound; exact Hm|].
    induction a as [|kv r IH]; [constructor|]. cbn [forallb] in Ha. apply andb_true_iff in Ha as [Hk Hr].
    constructor; [|exact (IH Hr)]. unfold attr_rel_gen. split; [reflexivity|].
    apply negb_true_iff in Hk. rewrite Hk. split; [reflexivity|exact I].
  - split; [reflexivity|]. split; [reflexivity|]. split; [reflexivity|]. destruct t; exact I.
  - exact I.
Qed.

Lemma Forall2_map_self {A} (R : A -> A -> Prop) f l : (forall x, In x l -> R x (f x)) -> Forall2 R l (map f l).
Proof.
  induction l as [|x l IH]; intros H; cbn [map]; constructor.
  - apply H. left. reflexivity.
  - apply IH. intros y Hy. apply H. right. exact Hy.
Qed.

Theorem good_side_condition_needed :
  exists P cfg c u root evs evs',
    conv_prefix_local c /\ no_xsi_type_attr u = true
    /\ Forall2 (renamed_gen P c (fun _ => True)) evs evs'
    /\ parse cfg c u root evs <> parse cfg c u root evs'.
Proof.
  exists ex_P, default_config, qconv, u_any_attrs, (Some root_any_attrs),
         (lxml_pump (doc_tokens doc_any_attrs_0)),
         (map (rename_event [112]%N [122]%N) (lxml_pump (doc_tokens doc_any_attrs_0))).
  split; [exact qconv_prefix_local|]. split; [vm_compute; reflexivity|]. split.
  - apply Forall2_map_self. intros x Hx. apply weak_renamedb_sound. revert x Hx. apply forallb_forall.
    vm_compute. reflexivity.
  - vm_compute. discriminate.
Qed.

Print Assumptions parse_C.
Print Assumptions qconv_prefix_local.
Print Assumptions prefix_renaming_invariant.
Print Assumptions prefix_renaming_example.
Print Assumptions good_side_condition_needed.
