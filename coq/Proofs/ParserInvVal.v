(* Proofs/ParserInvVal.v — C09(d): XSD whitespace around non-string values.

   The parser hands the text of an element (PrimitiveNode / StandardNode / the text field of an
   ElementNode) and each attribute value to the converter (`parse_value`): whole, or split at
   whitespace for a tokens field.  Whenever the converter reads the padded text like the original
   one — a law of the converter for the value's type, `reads_alike` below, which property C05
   proves for the XSD lexical forms of bool / integer / decimal / float / hexBinary / base64Binary
   / QName (`C05_*_accepts_xsd`: `deser (a ++ lex ++ b) = Some value` for all XML whitespace a b)
   — the parse is unchanged.  Event level: texts (`val_invariant`); attribute values: function
   level (`bind_attr_reads_alike`, see the note at the end). *)
From Coq Require Import NArith ZArith List Bool Arith Lia.
From XV Require Import Base.Str Base.Eqb Base.PyInt Model.Bind Model.Parser Proofs.ParserSkip Proofs.ConvLemmas.
Import ListNotations.

Section Val.
  Variable cfg : pconfig.
  Variable c : conv.
  Variable u : universe.
  Variable replay : pconfig -> option cls -> list pevent -> outcome.
  Variable root : option cls.

  (* the converter reads s' like s, successfully, for a field with these settings *)
  Definition reads_alike (tys : list ptype) (d : vdefault) (ns : nsmap) (tf : option factory) (fmt : option str)
             (s s' : str) : Prop :=
    exists v, parse_value c (Some s) tys d ns tf fmt = ROk v /\ parse_value c (Some s') tys d ns tf fmt = ROk v.

  Definition eff_types (var : xvar) (tys : option (list ptype)) : list ptype :=
    match tys with Some ((_ :: _) as t) => t | _ => v_types var end.
  Definition eff_format (var : xvar) (fmt : option str) : option str :=
    match truthy_str fmt with Some f => Some f | None => v_format var end.

  Lemma parse_var_alike failc m var ns tys fmt s s' :
    reads_alike (eff_types var tys) (v_default var) ns (v_tokens_factory var) (eff_format var fmt) s s' ->
    parse_var c failc m var (Some s) ns tys fmt = parse_var c failc m var (Some s') ns tys fmt.
  Proof.
    intros (v & H1 & H2). unfold parse_var. fold (eff_types var tys). fold (eff_format var fmt).
    rewrite H1, H2. reflexivity.
  Qed.

  (* ---- where the law comes from ------------------------------------------------------- *)
  (* a single value: the converter law for this type and this text *)
  Lemma reads_alike_single tys d ns fmt s s' p :
    c_deser c tys fmt ns s = Some p -> c_deser c tys fmt ns s' = Some p ->
    reads_alike tys d ns None fmt s s'.
  Proof. intros H1 H2. exists (VP p). unfold parse_value, deser. rewrite H1, H2. split; reflexivity. Qed.

  (* a tokens field: str.split() drops the padding *)
  Lemma split_ws_aux_lead ws a s : forallb ws a = true -> split_ws_aux ws [] (a ++ s) = split_ws_aux ws [] s.
  Proof.
    induction a as [|x a IH]; intros H; [reflexivity|]. cbn [forallb] in H. apply andb_true_iff in H as [Hx Ha].
    cbn [app split_ws_aux]. rewrite Hx. exact (IH Ha).
  Qed.
  Lemma split_ws_aux_all ws b : forallb ws b = true -> split_ws_aux ws [] b = [].
  Proof.
    induction b as [|y b IH]; intros H; [reflexivity|]. cbn [forallb] in H. apply andb_true_iff in H as [Hy Hb].
    cbn [split_ws_aux]. rewrite Hy. exact (IH Hb).
  Qed.
  Lemma split_ws_aux_trail ws b : forallb ws b = true -> forall s cur,
    split_ws_aux ws cur (s ++ b) = split_ws_aux ws cur s.
  Proof.
    intros Hb. induction s as [|x s IH]; intros cur; cbn [app].
    - destruct b as [|y b]; [reflexivity|]. cbn [forallb] in Hb. apply andb_true_iff in Hb as [Hy Hb'].
      cbn [split_ws_aux]. rewrite Hy. rewrite (split_ws_aux_all ws b Hb'). destruct cur; reflexivity.
    - cbn [split_ws_aux]. destruct (ws x); [destruct cur|]; rewrite ?IH; reflexivity.
  Qed.
  Lemma split_ws_pad ws a s b : forallb ws a = true -> forallb ws b = true ->
    split_ws ws (a ++ s ++ b) = split_ws ws s.
  Proof. intros Ha Hb. unfold split_ws. rewrite split_ws_aux_lead by exact Ha. apply split_ws_aux_trail. exact Hb. Qed.

  Lemma reads_alike_tokens tys d ns f fmt s a b v :
    forallb xml_ws a = true -> forallb xml_ws b = true ->
    parse_value c (Some s) tys d ns (Some f) fmt = ROk v ->
    reads_alike tys d ns (Some f) fmt s (a ++ s ++ b).
  Proof.
    intros Ha Hb H. exists v. split; [exact H|]. unfold parse_value in *.
    rewrite split_ws_pad; [exact H| |]; eapply forallb_impl; try apply xml_ws_py_isspace; assumption.
  Qed.

  (* ---- the nodes that read a text ------------------------------------------------------ *)
  Lemma primitive_bind_alike m var ns q s s' tail objs :
    reads_alike (v_types var) (v_default var) ns (v_tokens_factory var) (v_format var) s s' ->
    primitive_bind cfg c m var ns q (Some s) tail objs = primitive_bind cfg c m var ns q (Some s') tail objs.
  Proof. intros H. unfold primitive_bind. rewrite (parse_var_alike _ m var ns None None s s' H). reflexivity. Qed.

  Lemma standard_bind_alike m var ty fmt wr ns nl dv q s s' objs :
    reads_alike [ty] (v_default var) ns (v_tokens_factory var) (eff_format var fmt) s s' ->
    standard_bind cfg c m var ty fmt wr ns nl dv q (Some s) objs = standard_bind cfg c m var ty fmt wr ns nl dv q (Some s') objs.
  Proof. intros H. unfold standard_bind. rewrite (parse_var_alike _ m var ns (Some [ty]) fmt s s' H). reflexivity. Qed.

  Definition text_field_plain (en : enode) : Prop :=
    xsi_nil_true en = false
    /\ match find_any_wildcard (en_meta en) with Some wv => v_mixed wv = false | None => True end.

  Lemma bind_text_alike en var p s s' :
    m_text (en_meta en) = Some var -> xsi_nil_true en = false ->
    reads_alike (v_types var) (v_default var) (en_ns en) (v_tokens_factory var) (v_format var) s s' ->
    bind_text cfg c en p (Some s) = bind_text cfg c en p (Some s').
  Proof.
    intros Hm Hn H. unfold bind_text. rewrite Hm, Hn. cbn [is_some negb andb].
    rewrite (parse_var_alike _ (en_meta en) var (en_ns en) None None s s' H). reflexivity.
  Qed.

  Lemma bind_text_some_true en var p s : m_text (en_meta en) = Some var -> xsi_nil_true en = false ->
    match bind_text cfg c en p (Some s) with ROk (bt, _, _) => bt = true | RErr _ => True end.
  Proof.
    intros Hm Hn. unfold bind_text. rewrite Hm, Hn. cbn [is_some negb andb].
    destruct (parse_var c (fail_conv_warnings cfg) (en_meta en) var (Some s) (en_ns en) None None) as [[v ws]|k]; cbn [rbind]; [|exact I].
    destruct (v_init var); [reflexivity|]. destruct (validate_fixed c var v); cbn [rbind]; [reflexivity|exact I].
  Qed.

  Lemma bind_content_alike en var p s s' tail objs :
    m_text (en_meta en) = Some var -> text_field_plain en ->
    reads_alike (v_types var) (v_default var) (en_ns en) (v_tokens_factory var) (v_format var) s s' ->
    bind_content cfg c en p (Some s) tail objs = bind_content cfg c en p (Some s') tail objs.
  Proof.
    intros Hm [Hn Hw] H. unfold bind_content.
    destruct (find_any_wildcard (en_meta en)) as [wv|].
    - rewrite Hw.
      destruct (bind_objects_loop c (en_meta en) (skipn (en_position en) objs) p (en_wrappers en) []) as [r|k]; cbn [rbind]; [|reflexivity].
      pose proof (bind_text_some_true en var (fst r) s' Hm Hn) as Hbt.
      rewrite (bind_text_alike en var (fst r) s s' Hm Hn H) in *.
      destruct (bind_text cfg c en (fst r) (Some s')) as [[[bt p'] ws']|k]; cbn [rbind]; [|reflexivity].
      subst bt. reflexivity.
    - destruct (bind_objects_loop c (en_meta en) (skipn (en_position en) objs) p (en_wrappers en) []) as [r|k]; cbn [rbind]; [|reflexivity].
      rewrite (bind_text_alike en var (fst r) s s' Hm Hn H). reflexivity.
  Qed.

  Lemma element_bind_alike en var q s s' tail objs :
    m_text (en_meta en) = Some var -> text_field_plain en ->
    reads_alike (v_types var) (v_default var) (en_ns en) (v_tokens_factory var) (v_format var) s s' ->
    element_bind cfg c en q (Some s) tail objs = element_bind cfg c en q (Some s') tail objs.
  Proof.
    intros Hm Hp H. unfold element_bind.
    destruct (negb (xsi_nil_true en) || m_nillable (en_meta en)); [|reflexivity].
    destruct (bind_attrs cfg c en) as [pa|k]; cbn [rbind]; [|reflexivity].
    rewrite (bind_content_alike en var (fst pa) s s' tail objs Hm Hp H). reflexivity.
  Qed.

  (* attribute values (function level) *)
  Lemma bind_attr_reads_alike en var s s' p :
    reads_alike (v_types var) (v_default var) (en_ns en) (v_tokens_factory var) (v_format var) s s' ->
    bind_attr cfg c en var s p = bind_attr cfg c en var s' p.
  Proof. intros H. unfold bind_attr. rewrite (parse_var_alike _ (en_meta en) var (en_ns en) None None s s' H). reflexivity. Qed.

  (* ---- event level: the texts ---------------------------------------------------------- *)
  Definition text_alike (Q : list node) (t t' : option str) : Prop :=
    match Q, t, t' with
    | NPrimitive m var ns :: _, Some s, Some s' =>
        reads_alike (v_types var) (v_default var) ns (v_tokens_factory var) (v_format var) s s'
    | NStandard m var ty fmt wr ns nl dv :: _, Some s, Some s' =>
        reads_alike [ty] (v_default var) ns (v_tokens_factory var) (eff_format var fmt) s s'
    | NElement en :: _, Some s, Some s' =>
        match m_text (en_meta en) with
        | Some var => text_field_plain en
                      /\ reads_alike (v_types var) (v_default var) (en_ns en) (v_tokens_factory var) (v_format var) s s'
        | None => False
        end
    | _, _, _ => False
    end.

  Definition val_ev_ok (st : pstate) (ev ev' : pevent) : Prop :=
    match ev, ev' with
    | PEnd q t tl, PEnd q' t' tl' => q = q' /\ tl = tl' /\ (t = t' \/ text_alike (st_queue st) t t')
    | _, _ => ev = ev'
    end.

  (* evaluated along the parser's own run on the first stream *)
  Fixpoint val_variant (st : pstate) (evs evs' : list pevent) : Prop :=
    match evs, evs' with
    | [], [] => True
    | ev :: r, ev' :: r' =>
        val_ev_ok st ev ev'
        /\ match step cfg c u replay root st ev with
           | ROk st1 => val_variant st1 r r'
           | RErr _ => True
           end
    | _, _ => False
    end.

  Lemma step_alike st ev ev' : val_ev_ok st ev ev' ->
    step cfg c u replay root st ev = step cfg c u replay root st ev'.
  Proof.
    destruct ev as [q a ns|q t tl|p uri]; cbn [val_ev_ok].
    - intros <-. reflexivity.
    - destruct ev' as [|q' t' tl'|]; try discriminate. intros (<- & <- & [<-|H]); [reflexivity|].
      cbn [step]. unfold pend. destruct (st_queue st) as [|nd Q]; [reflexivity|].
      destruct nd as [en|m var ns|m var ty fmt wr ns nl dv| | | |]; cbn [text_alike] in H;
        destruct t as [s|], t' as [s'|]; try contradiction.
      + destruct (m_text (en_meta en)) as [var|] eqn:Hm; [|contradiction]. destruct H as [Hp H].
        rewrite (element_bind_alike en var q s s' tl (st_objects st) Hm Hp H). reflexivity.
      + rewrite (primitive_bind_alike m var ns q s s' tl (st_objects st) H). reflexivity.
      + rewrite (standard_bind_alike m var ty fmt wr ns nl dv q s s' (st_objects st) H). reflexivity.
    - intros <-. reflexivity.
  Qed.

  Lemma run_alike : forall evs evs' st, val_variant st evs evs' ->
    run cfg c u replay root st evs = run cfg c u replay root st evs'.
  Proof.
    induction evs as [|ev r IH]; intros [|ev' r'] st H; cbn [val_variant] in H; try contradiction; [reflexivity|].
    destruct H as [Hev Hr]. cbn [run]. rewrite <- (step_alike st ev ev' Hev).
    destruct (step cfg c u replay root st ev) as [st1|k]; cbn [rbind]; [apply IH; exact Hr|reflexivity].
  Qed.
End Val.

Theorem val_invariant : forall n cfg c u root evs evs',
  val_variant cfg c u (replay_n n c u) root init_state evs evs' ->
  parse_n n cfg c u root evs = parse_n n cfg c u root evs'.
Proof.
  intros n cfg c u root evs evs' H. rewrite !parse_n_unfold.
  rewrite (run_alike cfg c u (replay_n n c u) root evs evs' init_state H). reflexivity.
Qed.

(* NOTE (what is not proved here): padded ATTRIBUTE values at event level.  The attributes of an
   element are stored in its node at `start` and read at `end` (bind_attrs, xsi:type, xsi:nil,
   parse_any_attributes): an event-level statement needs the simulation of Proofs/ParserNs.v with
   attribute lists related by `reads_alike` per field; the per-attribute step is
   bind_attr_reads_alike above.  Inside a UnionNode (recorded events, several candidate classes)
   texts must be identical. *)
Print Assumptions val_invariant.
