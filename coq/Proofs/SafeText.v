(* Proofs/SafeText.v — facts about the model of xsdata/utils/text.py. *)
From Coq Require Import NArith List Bool Lia String.
From XV Require Import Base.Str Base.PyInt Gen.SafeTables Model.Safe.
Import ListNotations.
Open Scope N_scope.

(* ------------------------------------------------------------------ classify *)
Ltac cmp_split :=
  repeat match goal with
         | |- context [N.ltb ?a ?b] => destruct (N.ltb_spec a b); try (exfalso; lia)
         | |- context [N.leb ?a ?b] => destruct (N.leb_spec a b); try (exfalso; lia)
         | |- context [N.eqb ?a ?b] => destruct (N.eqb_spec a b); try (exfalso; lia)
         end.

Definition classify_check (c : N) : bool :=
  match classify c with
  | CUpper => is_ascii_upper c
  | CLower => is_ascii_lower c
  | CNumeric => is_ascii_digit c
  | COther => negb (is_ascii_alnum c)
  end.

Lemma classify_check_all c : classify_check c = true.
Proof.
  unfold classify_check, classify, in_open, is_ascii_alnum, is_ascii_alpha, is_ascii_upper,
    is_ascii_lower, is_ascii_digit.
  change (fst classify_upper) with 64; change (snd classify_upper) with 91.
  change (fst classify_lower) with 96; change (snd classify_lower) with 123.
  change (fst classify_numeric) with 47; change (snd classify_numeric) with 58.
  cmp_split; reflexivity.
Qed.

Lemma classify_other c : classify c = COther <-> is_ascii_alnum c = false.
Proof.
  pose proof (classify_check_all c) as H. unfold classify_check in H.
  unfold is_ascii_alnum, is_ascii_alpha in *.
  destruct (classify c); split; intros E; try discriminate; try reflexivity;
    destruct (is_ascii_digit c), (is_ascii_upper c), (is_ascii_lower c); cbn in *; congruence.
Qed.

Lemma classify_not_other c : classify c <> COther -> is_ascii_alnum c = true.
Proof.
  intros H. destruct (is_ascii_alnum c) eqn:E; [reflexivity|].
  exfalso. apply H. apply classify_other. exact E.
Qed.

Lemma classify_us : classify 95 = COther.
Proof. reflexivity. Qed.

Lemma alnum_not_us c : is_ascii_alnum c = true -> c <> 95.
Proof.
  unfold is_ascii_alnum, is_ascii_alpha, is_ascii_upper, is_ascii_lower, is_ascii_digit.
  intros H E. subst. discriminate.
Qed.

(* ------------------------------------------------------------------ case mapping of single characters *)
Ltac char_solve :=
  intros;
  unfold is_ascii_alnum, is_ascii_alpha, ascii_lower, ascii_upper in *;
  repeat match goal with |- context [if ?b then _ else _] => destruct b eqn:? end;
  unfold is_ascii_upper, is_ascii_lower, is_ascii_digit in *;
  try apply eq_true_iff_eq;
  repeat (progress rewrite ?orb_true_iff, ?orb_false_iff, ?andb_true_iff, ?andb_false_iff,
    ?N.leb_le, ?N.leb_gt, ?N.ltb_lt, ?N.ltb_ge, ?N.eqb_eq, ?N.eqb_neq in * );
  lia.

Lemma lower_alnum c : is_ascii_alnum c = true -> is_ascii_alnum (ascii_lower c) = true.
Proof. char_solve. Qed.

Lemma upper_alnum c : is_ascii_alnum c = true -> is_ascii_alnum (ascii_upper c) = true.
Proof. char_solve. Qed.

Lemma lower_lower c : ascii_lower (ascii_lower c) = ascii_lower c.
Proof.
  unfold ascii_lower. destruct (is_ascii_upper c) eqn:E; [|rewrite E; reflexivity].
  destruct (is_ascii_upper (c + 32)) eqn:E2; [|reflexivity]. exfalso. revert E E2. char_solve.
Qed.

Lemma lower_upper c : ascii_lower (ascii_upper c) = ascii_lower c.
Proof.
  unfold ascii_upper. destruct (is_ascii_lower c) eqn:El; [|reflexivity].
  assert (R : 97 <= c <= 122) by (revert El; unfold is_ascii_lower; rewrite andb_true_iff, !N.leb_le; tauto).
  assert (E1 : is_ascii_upper (c - 32) = true)
    by (unfold is_ascii_upper; rewrite andb_true_iff, !N.leb_le; lia).
  assert (E2 : is_ascii_upper c = false)
    by (unfold is_ascii_upper; rewrite andb_false_iff, !N.leb_gt; lia).
  unfold ascii_lower. rewrite E1, E2. lia.
Qed.

Lemma lower_alpha c : is_ascii_alpha (ascii_lower c) = is_ascii_alpha c.
Proof. char_solve. Qed.

Lemma upper_alpha c : is_ascii_alpha (ascii_upper c) = is_ascii_alpha c.
Proof. char_solve. Qed.

Lemma alpha_alnum c : is_ascii_alpha c = true -> is_ascii_alnum c = true.
Proof. unfold is_ascii_alnum. intros ->. apply orb_true_r. Qed.

Lemma lower_not_alnum c : is_ascii_alnum c = false -> ascii_lower c = c.
Proof.
  unfold is_ascii_alnum, is_ascii_alpha, ascii_lower. intros H.
  apply orb_false_iff in H as [_ H]. apply orb_false_iff in H as [H _]. rewrite H. reflexivity.
Qed.

Lemma upper_us : ascii_upper 95 = 95. Proof. reflexivity. Qed.

(* ------------------------------------------------------------------ split_words *)
Definition word_ok (w : str) : Prop := w <> [] /\ forallb is_ascii_alnum w = true.

Lemma flush_concat buf rest : List.concat (flush buf rest) = rev buf ++ List.concat rest.
Proof. destruct buf; reflexivity. Qed.

Lemma flush_app buf a b : flush buf (a ++ b) = flush buf a ++ b.
Proof. destruct buf; reflexivity. Qed.

Lemma flush_words buf rest :
  forallb is_ascii_alnum buf = true -> Forall word_ok rest -> Forall word_ok (flush buf rest).
Proof.
  intros Hb Hr. destruct buf as [|c buf]; [exact Hr|].
  cbn [flush]. constructor; [|exact Hr]. split.
  - intros E. apply (f_equal (@List.length N)) in E. rewrite rev_length in E. discriminate.
  - rewrite forallb_rev. exact Hb.
Qed.

Lemma split_words_aux_words s : forall prev buf,
  forallb is_ascii_alnum buf = true -> Forall word_ok (split_words_aux prev buf s).
Proof.
  induction s as [|c s IH]; intros prev buf Hb.
  - cbn. apply flush_words; [exact Hb|constructor].
  - cbn [split_words_aux].
    destruct (classify c) eqn:Ec.
    all: try (assert (Hc : is_ascii_alnum c = true) by (apply classify_not_other; congruence);
              assert (Hcb : forallb is_ascii_alnum (c :: buf) = true) by (cbn; rewrite Hc; exact Hb);
              assert (Hc1 : forallb is_ascii_alnum [c] = true) by (cbn; rewrite Hc; reflexivity)).
    4: { apply flush_words; [exact Hb|]. apply IH. reflexivity. }
    all: destruct prev as [p|]; [|apply IH; exact Hcb].
    all: destruct (ctype_eqb _ p); [apply IH; exact Hcb|].
    all: cbn [ctype_eqb andb]; try (apply IH; exact Hcb).
    destruct (negb (ctype_eqb p CUpper)); [|apply IH; exact Hcb].
    apply flush_words; [exact Hb|]. apply IH. exact Hc1.
Qed.

Lemma split_words_words s : Forall word_ok (split_words s).
Proof. apply split_words_aux_words. reflexivity. Qed.

Lemma split_words_aux_concat s : forall prev buf,
  List.concat (split_words_aux prev buf s) = rev buf ++ filter is_ascii_alnum s.
Proof.
  induction s as [|c s IH]; intros prev buf.
  - cbn. rewrite flush_concat. reflexivity.
  - cbn [split_words_aux filter].
    destruct (classify c) eqn:Ec.
    4: { assert (Hc : is_ascii_alnum c = false) by (apply classify_other; exact Ec).
         rewrite Hc, flush_concat, IH. reflexivity. }
    all: assert (Hc : is_ascii_alnum c = true) by (apply classify_not_other; congruence); rewrite Hc.
    all: assert (Happ : forall b, rev (c :: b) ++ filter is_ascii_alnum s = rev b ++ c :: filter is_ascii_alnum s)
      by (intros b; cbn; rewrite <- app_assoc; reflexivity).
    all: destruct prev as [p|]; [|rewrite IH; apply Happ].
    all: destruct (ctype_eqb _ p); [rewrite IH; apply Happ|].
    all: cbn [ctype_eqb andb]; try (rewrite IH; apply Happ).
    destruct (negb (ctype_eqb p CUpper)); [|rewrite IH; apply Happ].
    rewrite flush_concat, IH. reflexivity.
Qed.

Lemma split_words_concat s : List.concat (split_words s) = filter is_ascii_alnum s.
Proof. unfold split_words. rewrite split_words_aux_concat. reflexivity. Qed.

Lemma split_words_aux_other_none b :
  split_words_aux (Some COther) [] b = split_words_aux None [] b.
Proof.
  destruct b as [|c b]; [reflexivity|]. cbn [split_words_aux].
  destruct (classify c); cbn; reflexivity.
Qed.

Lemma split_words_aux_app_us a : forall prev buf b,
  split_words_aux prev buf (a ++ 95 :: b) = split_words_aux prev buf a ++ split_words b.
Proof.
  induction a as [|c a IH]; intros prev buf b.
  - cbn [app split_words_aux]. rewrite classify_us.
    rewrite split_words_aux_other_none. rewrite <- flush_app. reflexivity.
  - cbn [app split_words_aux].
    destruct (classify c).
    4: { rewrite IH, flush_app. reflexivity. }
    all: destruct prev as [p|]; [|apply IH].
    all: destruct (ctype_eqb _ p); [apply IH|].
    all: cbn [ctype_eqb andb]; try apply IH.
    destruct (negb (ctype_eqb p CUpper)); [|apply IH].
    rewrite IH, flush_app. reflexivity.
Qed.

Lemma split_words_app_us a b : split_words (a ++ us ++ b) = split_words a ++ split_words b.
Proof. unfold split_words, us. cbn [app]. apply split_words_aux_app_us. Qed.

(* ------------------------------------------------------------------ alnum *)
Lemma alnum_app a b : alnum (a ++ b) = alnum a ++ alnum b.
Proof. unfold alnum. rewrite filter_app, map_app. reflexivity. Qed.

Lemma alnum_us : alnum us = []. Proof. reflexivity. Qed.

Lemma alnum_split s : alnum s = map ascii_lower (List.concat (split_words s)).
Proof. unfold alnum. rewrite split_words_concat. reflexivity. Qed.

Lemma filter_length_le' {A} (f : A -> bool) l : (List.length (filter f l) <= List.length l)%nat.
Proof. induction l as [|x l IH]; cbn; [lia|]. destruct (f x); cbn; lia. Qed.

Lemma alnum_length s : (List.length (alnum s) <= List.length s)%nat.
Proof. unfold alnum. rewrite map_length. apply filter_length_le'. Qed.

Lemma filter_all {A} (f : A -> bool) l : forallb f l = true -> filter f l = l.
Proof.
  induction l as [|x l IH]; cbn; [reflexivity|]. intros H.
  apply andb_true_iff in H as [Hx Hl]. rewrite Hx, IH by exact Hl. reflexivity.
Qed.

(* a word and its re-cased image *)
Definition same_fold (w w' : str) : Prop :=
  map ascii_lower w' = map ascii_lower w /\ forallb is_ascii_alnum w' = true.

Lemma same_fold_lower w : forallb is_ascii_alnum w = true -> same_fold w (lower w).
Proof.
  intros H. split.
  - unfold lower. rewrite map_map. apply map_ext. intros; apply lower_lower.
  - unfold lower. rewrite forallb_forall in *. intros c Hc. apply in_map_iff in Hc as [d [<- Hd]].
    apply lower_alnum. apply H. exact Hd.
Qed.

Lemma same_fold_refl w : forallb is_ascii_alnum w = true -> same_fold w w.
Proof. intros H. split; [reflexivity|exact H]. Qed.

Lemma title_aux_fold w : forall p, forallb is_ascii_alnum w = true -> same_fold w (title_aux p w).
Proof.
  induction w as [|c w IH]; intros p H; [split; reflexivity|].
  cbn in H. apply andb_true_iff in H as [Hc Hw].
  cbn [title_aux]. destruct (is_ascii_alpha c) eqn:Ea.
  - destruct (IH true Hw) as [I1 I2]. split.
    + cbn [map]. rewrite I1. f_equal. destruct p; [apply lower_lower|apply lower_upper].
    + cbn [forallb]. rewrite I2, andb_true_r. destruct p; [apply lower_alnum|apply upper_alnum]; exact Hc.
  - destruct (IH false Hw) as [I1 I2]. split.
    + cbn [map]. rewrite I1. reflexivity.
    + cbn [forallb]. rewrite I2, Hc. reflexivity.
Qed.

Lemma same_fold_title w : forallb is_ascii_alnum w = true -> same_fold w (title w).
Proof. apply title_aux_fold. Qed.

(* all characters of a joined word list *)
Definition wordchar (c : N) : bool := is_ascii_alnum c || (c =? 95).

Lemma forallb_app_iff {A} (f : A -> bool) a b : forallb f (a ++ b) = true <-> forallb f a = true /\ forallb f b = true.
Proof. rewrite forallb_app, andb_true_iff. tauto. Qed.

Lemma alnum_is_wordchar w : forallb is_ascii_alnum w = true -> forallb wordchar w = true.
Proof.
  rewrite !forallb_forall. intros H c Hc. unfold wordchar. rewrite (H c Hc). reflexivity.
Qed.

Section Joined.
  (* sep is [] or "_" *)
  Variable sep : str.
  Hypothesis sep_ok : sep = [] \/ sep = us.

  Lemma sep_alnum : filter is_ascii_alnum sep = [].
  Proof. destruct sep_ok as [-> | ->]; reflexivity. Qed.

  Lemma sep_wordchar : forallb wordchar sep = true.
  Proof. destruct sep_ok as [-> | ->]; reflexivity. Qed.

  Lemma join_alnum ws ws' :
    Forall2 same_fold ws ws' -> alnum (join sep ws') = map ascii_lower (List.concat ws).
  Proof.
    induction 1 as [|w w' ws ws' [Hf Ha] HF IH]; [reflexivity|].
    assert (Hw : alnum w' = map ascii_lower w) by (unfold alnum; rewrite filter_all by exact Ha; exact Hf).
    destruct ws' as [|w2 ws'].
    - inversion HF; subst. cbn [join List.concat]. rewrite app_nil_r. exact Hw.
    - change (join sep (w' :: w2 :: ws')) with (w' ++ sep ++ join sep (w2 :: ws')).
      rewrite !alnum_app, IH, Hw. cbn [List.concat]. rewrite map_app. f_equal.
      unfold alnum at 1. rewrite sep_alnum. reflexivity.
  Qed.

  Lemma join_wordchar ws ws' :
    Forall2 same_fold ws ws' -> forallb wordchar (join sep ws') = true.
  Proof.
    induction 1 as [|w w' ws ws' [Hf Ha] HF IH]; [reflexivity|].
    destruct ws' as [|w2 ws'].
    - cbn [join]. apply alnum_is_wordchar; exact Ha.
    - change (join sep (w' :: w2 :: ws')) with (w' ++ sep ++ join sep (w2 :: ws')).
      apply forallb_app_iff; split; [apply alnum_is_wordchar; exact Ha|].
      apply forallb_app_iff; split; [apply sep_wordchar|exact IH].
  Qed.

  (* the first character of the joined text is the (re-cased) first character of the first word *)
  Lemma join_head ws ws' c0 w0 rest :
    Forall2 same_fold ws ws' -> ws = (c0 :: w0) :: rest ->
    exists d t, join sep ws' = d :: t /\ ascii_lower d = ascii_lower c0 /\ is_ascii_alnum d = true.
  Proof.
    intros HF E. subst. inversion HF as [|w w' l l' [Hf Ha] HF' E1 E2]; subst.
    destruct w' as [|d t']; [discriminate|].
    cbn in Hf. injection Hf as Hd _. cbn in Ha. apply andb_true_iff in Ha as [Hda _].
    destruct l' as [|w2 l'].
    - exists d, t'. cbn [join]. auto.
    - exists d, (t' ++ sep ++ join sep (w2 :: l')). split; [reflexivity|auto].
  Qed.
End Joined.

Lemma Forall2_map_same {A B} (P : A -> B -> Prop) (f : A -> B) l :
  Forall (fun x => P x (f x)) l -> Forall2 P l (map f l).
Proof. induction 1; cbn; constructor; auto. Qed.

Lemma words_fold (f : str -> str) s :
  (forall w, forallb is_ascii_alnum w = true -> same_fold w (f w)) ->
  Forall2 same_fold (split_words s) (map f (split_words s)).
Proof.
  intros Hf. apply Forall2_map_same.
  eapply Forall_impl; [|apply split_words_words]. intros w [_ Hw]. apply Hf; exact Hw.
Qed.

Lemma words_fold_id s : Forall2 same_fold (split_words s) (split_words s).
Proof.
  rewrite <- (map_id (split_words s)) at 2. apply words_fold. apply same_fold_refl.
Qed.

Lemma join_nil_concat l : join [] l = List.concat l.
Proof.
  induction l as [|x l IH]; [reflexivity|]. destruct l as [|y l]; [cbn; rewrite app_nil_r; reflexivity|].
  change (join [] (x :: y :: l)) with (x ++ [] ++ join [] (y :: l)). rewrite IH. reflexivity.
Qed.

(* upper-casing a joined text *)
Lemma upper_fold s : forallb wordchar s = true ->
  map ascii_lower (upper s) = map ascii_lower s /\ forallb wordchar (upper s) = true.
Proof.
  induction s as [|c s IH]; intros H; [split; reflexivity|].
  cbn in H. apply andb_true_iff in H as [Hc Hs]. destruct (IH Hs) as [I1 I2].
  unfold upper in *. cbn [map forallb]. split.
  - rewrite I1, lower_upper. reflexivity.
  - rewrite I2, andb_true_r. unfold wordchar in *.
    apply orb_true_iff in Hc as [Hc|Hc].
    + rewrite upper_alnum by exact Hc. reflexivity.
    + apply N.eqb_eq in Hc. subst. reflexivity.
Qed.


(* is_ascii_alnum only depends on the lower-cased character *)
Lemma alnum_lower_inv c : is_ascii_alnum (ascii_lower c) = is_ascii_alnum c.
Proof. char_solve. Qed.

Lemma alnum_of_lowered r s : map ascii_lower r = map ascii_lower s -> alnum r = alnum s.
Proof.
  revert s; induction r as [|c r IH]; intros [|d s] H; try discriminate; [reflexivity|].
  cbn in H. injection H as Hc Hr. unfold alnum in *. cbn [filter].
  rewrite <- (alnum_lower_inv c), <- (alnum_lower_inv d), Hc.
  destruct (is_ascii_alnum (ascii_lower d)); cbn [map]; rewrite (IH s Hr); [rewrite Hc|]; reflexivity.
Qed.
