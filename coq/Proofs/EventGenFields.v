(* Proofs/EventGenFields.v — what XmlVarBuilder.build makes of one well-formed field
   description (Model/Builder.v build_var), in the terms of the specification. *)
From Coq Require Import NArith ZArith List Bool Lia.
From XV Require Import Base.Str Base.Eqb Model.Bind Model.EventGen Spec.MetaSpec Model.Builder
  Proofs.EventGenNames.
Import ListNotations.
Open Scope N_scope.

Definition oplain (o : option str) : Prop := match o with Some n => plain_ns n = true | None => True end.

(* ---------------------------------------------------------------- wf_field, unfolded *)
Record wf_field_facts (D : mdesc) (f : fdesc) : Prop := {
  wff_kind : fd_kind f = KText \/ fd_kind f = KElement \/ fd_kind f = KAttribute;
  wff_name : plain_name (fd_name f) = true;
  wff_gen : plain_name (derived_field_name f) = true;
  wff_xml_name : oplain_name (fd_xml_name f) = true;
  wff_ns : oplain_ns (fd_namespace f) = true;
  wff_type : ftype_ok D f = true;
  wff_default : default_ok f = true;
  wff_mixed : fd_mixed f = false;
  wff_choices : fd_choices f = [];
  wff_list : fd_list f = true -> fd_kind f = KElement;
  wff_default_scalar : forall d, fd_default f = Some d ->
                       fd_tokens f = false /\ fd_list f = false /\ fd_optional f = false;
  wff_shape : fd_tokens f || fd_list f || fd_optional f || match fd_default f with Some _ => true | None => false end = true;
  wff_wrapper : forall w, fd_wrapper f = Some w ->
                plain_name w = true /\ fd_kind f = KElement /\ fd_list f = true /\ fd_tokens f = false /\ fd_sequence f = None
}.

Lemma wf_field_inv D f : wf_field D f = true -> wf_field_facts D f.
Proof.
  unfold wf_field. intros H.
  repeat (apply andb_true_iff in H; destruct H as [H ?]).
  repeat match goal with Hx : negb _ = true |- _ => apply negb_true_iff in Hx end.
  constructor; try assumption.
  - unfold is_kind in H. destruct (fd_kind f); cbn in H; try discriminate; auto.
  - destruct (fd_choices f); [reflexivity|discriminate].
  - intros Hl. match goal with Hx : negb (fd_list f) || is_kind KElement f = true |- _ => rewrite Hl in Hx; cbn in Hx;
      unfold is_kind in Hx; destruct (fd_kind f); try discriminate; reflexivity end.
  - intros d Hd. match goal with Hx : match fd_default f with Some _ => negb _ | None => true end = true |- _ =>
      rewrite Hd in Hx; apply negb_true_iff in Hx; apply orb_false_iff in Hx as [Hx Ho]; apply orb_false_iff in Hx as [Ht Hl] end.
    auto.
  - intros w Hw. match goal with Hx : match fd_wrapper f with Some _ => _ | None => true end = true |- _ => rewrite Hw in Hx;
      repeat (apply andb_true_iff in Hx; destruct Hx as [Hx ?]) end.
    repeat match goal with Hx : negb _ = true |- _ => apply negb_true_iff in Hx end.
    repeat split; try assumption.
    + unfold is_kind in *. destruct (fd_kind f); try discriminate; reflexivity.
    + destruct (fd_sequence f); [discriminate|reflexivity].
Qed.

(* ---------------------------------------------------------------- the field's namespace *)
Lemma field_dns D f P :
  wf_field D f = true -> oplain P -> fd_kind f <> KText ->
  default_namespace (resolve_namespaces (fd_kind f) (fd_namespace f) P) = field_ns f (some_ns P).
Proof.
  intros Hwf HP Hk. destruct (wf_field_inv D f Hwf). unfold field_ns.
  destruct wff_kind0 as [E|[E|E]]; [contradiction| |]; rewrite E.
  - destruct (fd_namespace f) as [[|x r]|] eqn:En.
    + apply resolve_stated_empty.
    + rewrite resolve_stated; [reflexivity|exact wff_ns0|discriminate].
    + apply resolve_inherit. exact HP.
  - destruct (fd_namespace f) as [[|x r]|] eqn:En.
    + apply resolve_stated_empty.
    + rewrite resolve_stated; [reflexivity|exact wff_ns0|discriminate].
    + apply resolve_empty; discriminate.
Qed.

Lemma field_ns_some f cns : some_ns (field_ns f (some_ns cns)) = field_ns f (some_ns cns).
Proof.
  unfold field_ns. destruct (fd_kind f); try (destruct (fd_namespace f)); try apply some_ns_idem.
Qed.

Lemma field_local_nonempty D f : wf_field D f = true -> field_local f <> [].
Proof.
  intros H. destruct (wf_field_inv D f H). unfold field_local.
  destruct (fd_xml_name f) as [[|x r]|]; try discriminate.
  all: intros E; rewrite E in wff_gen0; discriminate.
Qed.

(* ---------------------------------------------------------------- build_var in the terms of the description *)
Record var_facts (f : fdesc) (cns : option str) (var : xvar) : Prop := {
  vf_name : v_name var = fd_name f;
  vf_kind : v_kind var = fd_kind f;
  vf_qname : fd_kind f <> KText -> v_qname var = field_qname f cns;
  vf_wrapper : fd_kind f <> KText -> v_wrapper_qname var = wrapper_qname f cns;
  vf_wrapper_none : fd_wrapper f = None -> v_wrapper_qname var = None;
  vf_mixed : v_mixed var = false;
  vf_tokens : v_tokens var = fd_tokens f;
  vf_list : v_list_element var = fd_list f;
  vf_format : v_format var = fd_format f;
  vf_any : v_any_type var = false;
  vf_nillable : v_nillable var = fd_nillable f;
  vf_sequence : v_sequence var = fd_sequence f;
  vf_types : v_types var = [fd_type f];
  vf_required : fd_kind f = KAttribute -> v_required var = match default_of f with
                                              | DNone => negb (fd_optional f) && negb (fd_tokens f)
                                              | _ => fd_required f
                                              end;
  vf_default : v_default var = default_of f
}.

Lemma build_var_facts D i P f :
  wf_field D f = true -> oplain P -> var_facts f (some_ns P) (build_var i P f).
Proof.
  intros Hwf HP. pose proof (wf_field_inv D f Hwf) as W. destruct W.
  assert (Hloc : match fd_xml_name f with
                 | Some ((_ :: _) as n) => n
                 | _ => match fd_gen_name f with Some ((_ :: _) as g) => g | _ => fd_name f end
                 end = field_local f) by reflexivity.
  constructor; try reflexivity.
  - (* kind *)
    unfold build_var. cbn [v_kind]. unfold final_kind.
    destruct wff_kind0 as [E|[E|E]]; rewrite E; try reflexivity.
    + (* Text: not of class type *)
      unfold analysed. rewrite E. unfold ftype_ok in wff_type0.
      destruct (fd_type f); try reflexivity; try (destruct (fd_tokens f); reflexivity).
      unfold is_kind in wff_type0. rewrite E in wff_type0. discriminate.
    + unfold analysed. rewrite E. unfold ftype_ok in wff_type0.
      destruct (fd_type f); try reflexivity; try (destruct (fd_tokens f); reflexivity).
      unfold is_kind in wff_type0. rewrite E in wff_type0. discriminate.
  - (* qname *)
    intros Hk. unfold build_var. cbn [v_qname]. rewrite Hloc.
    rewrite (field_dns D f P Hwf HP Hk).
    rewrite build_qname_clark by (apply (field_local_nonempty D); exact Hwf).
    rewrite field_ns_some. reflexivity.
  - (* wrapper *)
    intros Hk. unfold build_var. cbn [v_wrapper_qname]. unfold wrapper_qname.
    destruct (fd_wrapper f) as [[|x r]|]; try reflexivity.
    rewrite (field_dns D f P Hwf HP Hk), build_qname_clark by discriminate.
    rewrite field_ns_some. reflexivity.
  - (* no wrapper *)
    intros Hw. unfold build_var. cbn [v_wrapper_qname]. rewrite Hw. reflexivity.
  - (* mixed *) exact wff_mixed0.
  - (* tokens *)
    unfold build_var, v_tokens. cbn [v_tokens_factory]. unfold analysed.
    destruct wff_kind0 as [E|[E|E]]; rewrite E; destruct (fd_tokens f); try reflexivity; destruct (fd_list f); reflexivity.
  - (* list element *)
    unfold build_var, v_list_element. cbn [v_factory]. unfold analysed.
    destruct wff_kind0 as [E|[E|E]]; rewrite E.
    + destruct (fd_list f) eqn:El; [rewrite (wff_list0 eq_refl) in E; discriminate|]. destruct (fd_tokens f); reflexivity.
    + destruct (fd_tokens f), (fd_list f); reflexivity.
    + destruct (fd_list f) eqn:El; [rewrite (wff_list0 eq_refl) in E; discriminate|]. destruct (fd_tokens f); reflexivity.
  - (* any_type *)
    unfold build_var. cbn [v_any_type]. unfold analysed, ftype_ok in *.
    destruct wff_kind0 as [E|[E|E]]; rewrite E; try reflexivity.
    destruct (fd_tokens f), (fd_list f); cbn; destruct (fd_type f); try reflexivity; discriminate.
  - (* types *)
    unfold build_var. cbn [v_types]. unfold analysed.
    destruct wff_kind0 as [E|[E|E]]; rewrite E; destruct (fd_tokens f); try reflexivity; destruct (fd_list f); reflexivity.
  - (* required *)
    intros Hk. unfold build_var. cbn [v_required]. rewrite Hk. unfold analysed. rewrite Hk.
    destruct (default_of f); destruct (fd_tokens f); cbn; rewrite ?andb_true_r, ?andb_false_r; reflexivity.
Qed.
