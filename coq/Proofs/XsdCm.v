(* Proofs/XsdCm.v — the XSD validator of Spec/XsdCm.v is sound.
   The content model and the metadata are encoded over a finite alphabet (known names + one letter per
   namespace class); the encoding preserves the language (enc_lang) and simulates the slot assignment
   of the namespace-constrained fields (xaccepts_enc), so the theorems of Proofs/Cm.v carry over:
     xcheck_sound        xcheck_children c m = true -> xlang c w -> xaccepts_word m w = true
     xorder_preserved    xorder_safe c m = true -> xlang c w -> emit_order (xrank_of ...) w = w
     xlossless           what the serializer emits is a permutation of what was parsed *)
From Coq Require Import NArith List Bool Arith Lia Permutation.
From XV Require Import Base.Str Base.Eqb Spec.Cm Spec.XsdVal Spec.XsdCm Proofs.Cm.
Import ListNotations.
Local Close Scope N_scope.
Local Open Scope nat_scope.

(* ------------------------------------------------------------------ small facts *)
Lemma ns_eqb_eq a b : ns_eqb a b = true <-> a = b.
Proof. unfold ns_eqb. apply opt_eqb_spec. apply str_eqb_eq. Qed.

Lemma ns_eqb_refl a : ns_eqb a a = true.
Proof. apply ns_eqb_eq. reflexivity. Qed.

Lemma existsb_name_in q l : existsb (name_eqb q) l = true <-> In q l.
Proof.
  rewrite existsb_exists. split.
  - intros [x [Hx E]]. apply name_eqb_eq in E. subst. exact Hx.
  - intros H. exists q. split; [exact H|apply name_eqb_eq; reflexivity].
Qed.

Lemma existsb_ns_in n l : existsb (ns_eqb n) l = true <-> In n l.
Proof.
  rewrite existsb_exists. split.
  - intros [x [Hx E]]. apply ns_eqb_eq in E. subst. exact Hx.
  - intros H. exists n. split; [exact H|apply ns_eqb_refl].
Qed.

Lemma existsb_false_not_in {A} (e : A -> A -> bool) (Heq : forall a b, e a b = true <-> a = b) x l :
  existsb (e x) l = false <-> ~ In x l.
Proof.
  split.
  - intros H Hin. assert (existsb (e x) l = true) by (apply existsb_exists; exists x; split; [exact Hin|apply Heq; reflexivity]).
    congruence.
  - intros H. destruct (existsb (e x) l) eqn:E; [|reflexivity]. exfalso. apply H.
    apply existsb_exists in E as [y [Hy Ey]]. apply Heq in Ey. subst. exact Hy.
Qed.

Lemma wname_not_clean cls : clean_name (wname cls) = false.
Proof. destruct cls as [[u|]|]; reflexivity. Qed.

Lemma wname_inj a b : wname a = wname b -> a = b.
Proof.
  destruct a as [[u|]|], b as [[v|]|]; cbn; intros H; try discriminate; try reflexivity.
  inversion H. reflexivity.
Qed.

(* ------------------------------------------------------------------ wildcards are uniform off the mentioned namespaces *)
Lemma wns_uniform NSS c n :
  incl (wns_mentions c) NSS -> existsb (ns_eqb n) NSS = false -> wns_allows c n = wns_fresh c.
Proof.
  intros Hi Hn. apply (existsb_false_not_in ns_eqb ns_eqb_eq) in Hn.
  destruct c as [|t|l]; cbn in *.
  - reflexivity.
  - assert (Ht : ns_eqb n t = false).
    { destruct (ns_eqb n t) eqn:E; [|reflexivity]. apply ns_eqb_eq in E. subst. exfalso. apply Hn, Hi. left. reflexivity. }
    assert (H0 : ns_eqb n None = false).
    { destruct (ns_eqb n None) eqn:E; [|reflexivity]. apply ns_eqb_eq in E. subst. exfalso. apply Hn, Hi. right. left. reflexivity. }
    rewrite Ht, H0. reflexivity.
  - apply (existsb_false_not_in ns_eqb ns_eqb_eq). intros H. apply Hn, Hi, H.
Qed.

Lemma fatom_uniform NSS a n :
  incl (fatom_mentions a) NSS -> existsb (ns_eqb n) NSS = false -> fatom_allows a n = fatom_fresh a.
Proof.
  intros Hi Hn. apply (existsb_false_not_in ns_eqb ns_eqb_eq) in Hn.
  destruct a as [|m|u]; cbn in *.
  - reflexivity.
  - destruct (ns_eqb n m) eqn:E; [|reflexivity]. apply ns_eqb_eq in E. subst. exfalso. apply Hn, Hi. left. reflexivity.
  - destruct (ns_eqb n (Some u)) eqn:E; [|reflexivity]. apply ns_eqb_eq in E. subst. exfalso. apply Hn, Hi. left. reflexivity.
Qed.

Lemma fns_uniform NSS c n :
  incl (fns_mentions c) NSS -> existsb (ns_eqb n) NSS = false -> fns_allows c n = fns_fresh c.
Proof.
  unfold fns_allows, fns_fresh, fns_mentions. induction c as [|a c IH]; cbn [existsb map concat]; intros Hi Hn; [reflexivity|].
  rewrite (fatom_uniform NSS a n); [|intros x Hx; apply Hi, in_or_app; left; exact Hx|exact Hn].
  rewrite IH; [reflexivity|intros x Hx; apply Hi, in_or_app; right; exact Hx|exact Hn].
Qed.

(* ------------------------------------------------------------------ the encoding *)
Section Enc.
  Variable K : list name.
  Variable NSS : list ns.
  Hypothesis HK : names_clean K = true.
  Notation abs := (abs_name K NSS).

  Lemma K_clean k : In k K -> clean_name k = true.
  Proof. intros H. unfold names_clean in HK. rewrite forallb_forall in HK. apply HK, H. Qed.

  Lemma wname_not_in_K cls : ~ In (wname cls) K.
  Proof. intros H. apply K_clean in H. rewrite wname_not_clean in H. discriminate. Qed.

  Lemma abs_in_K q : In q K -> abs q = q.
  Proof. intros H. unfold abs_name. apply existsb_name_in in H. rewrite H. reflexivity. Qed.

  Lemma abs_not_in_K q : ~ In q K -> abs q = wname (cls_of NSS (ns_of q)).
  Proof.
    intros H. unfold abs_name. destruct (existsb (name_eqb q) K) eqn:E; [|reflexivity].
    apply existsb_name_in in E. contradiction.
  Qed.

  Lemma in_K_dec q : {In q K} + {~ In q K}.
  Proof.
    destruct (existsb (name_eqb q) K) eqn:E; [left; apply existsb_name_in; exact E|right].
    intros H. apply existsb_name_in in H. congruence.
  Qed.

  (* the letters of a wildcard with a uniform namespace predicate *)
  Section Wild.
    Variable allows : ns -> bool.
    Variable fresh : bool.
    Hypothesis Hu : forall n, existsb (ns_eqb n) NSS = false -> allows n = fresh.

    Lemma wild_names_abs q : In (abs q) (wild_names K NSS allows fresh) <-> allows (ns_of q) = true.
    Proof.
      unfold wild_names. rewrite !in_app_iff, filter_In, in_map_iff.
      destruct (in_K_dec q) as [Hq|Hq].
      - rewrite (abs_in_K q Hq). split.
        + intros [[_ H]|[[n [E _]]|H]]; [exact H| |].
          * exfalso. apply (wname_not_in_K (Some n)). rewrite E. exact Hq.
          * exfalso. destruct fresh; [|destruct H]. destruct H as [E|[]]. apply (wname_not_in_K None). rewrite E. exact Hq.
        + intros H. left. split; [exact Hq|exact H].
      - rewrite (abs_not_in_K q Hq). unfold cls_of.
        destruct (existsb (ns_eqb (ns_of q)) NSS) eqn:En.
        + split.
          * intros [[H _]|[[n [E Hn]]|H]].
            -- exfalso. exact (wname_not_in_K _ H).
            -- apply wname_inj in E. inversion E; subst n. apply filter_In in Hn as [_ Hn]. exact Hn.
            -- exfalso. destruct fresh; [|destruct H]. destruct H as [E|[]]. apply wname_inj in E. discriminate.
          * intros H. right. left. exists (ns_of q). split; [reflexivity|]. apply filter_In. split; [|exact H].
            apply existsb_ns_in. exact En.
        + rewrite (Hu _ En). split.
          * intros [[H _]|[[n [E _]]|H]].
            -- exfalso. exact (wname_not_in_K _ H).
            -- apply wname_inj in E. discriminate.
            -- destruct fresh; [reflexivity|destruct H].
          * intros H. right. right. rewrite H. left. reflexivity.
    Qed.

    Lemma wild_names_abs_b q : existsb (name_eqb (abs q)) (wild_names K NSS allows fresh) = allows (ns_of q).
    Proof.
      destruct (allows (ns_of q)) eqn:E.
      - apply existsb_name_in. apply wild_names_abs. exact E.
      - destruct (existsb (name_eqb (abs q)) (wild_names K NSS allows fresh)) eqn:E'; [|reflexivity].
        apply existsb_name_in in E'. apply wild_names_abs in E'. congruence.
    Qed.
  End Wild.

  (* --- the language *)
  Lemma lang_choice_elem_in x L : In x L -> lang (Choice (map Elem L)) [x].
  Proof.
    induction L as [|y L IH]; [intros []|]. intros [E|H]; cbn [map].
    - subst. apply L_choice_here. constructor.
    - apply L_choice_there. apply IH. exact H.
  Qed.

  Lemma incl_concat_perm {A B} (f : A -> list B) l l' X :
    Permutation l l' -> incl (concat (map f l)) X -> incl (concat (map f l')) X.
  Proof.
    intros HP Hi x Hx. apply Hi. apply in_concat in Hx as [y [Hy Hxy]]. apply in_map_iff in Hy as [a [E Ha]]. subst.
    apply in_concat. exists (f a). split; [|exact Hxy]. apply in_map. eapply Permutation_in; [apply Permutation_sym; exact HP|exact Ha].
  Qed.

  Theorem enc_lang : forall c w,
    xlang c w -> incl (xalphabet c) K -> incl (xmentioned c) NSS -> lang (enc_cm K NSS c) (map abs w).
  Proof.
    fix IH 3. intros c w H. destruct H; intros HA HM.
    - cbn. rewrite abs_in_K; [constructor|apply HA; left; reflexivity].
    - cbn. constructor.
    - rewrite map_app. change (enc_cm K NSS (XSeq (c :: r))) with (Seq (enc_cm K NSS c :: map (enc_cm K NSS) r)).
      cbn [xalphabet xmentioned map concat] in HA, HM. apply L_seq_cons.
      + apply IH; [exact H| |]; intros x Hx; [apply HA|apply HM]; apply in_or_app; left; exact Hx.
      + change (Seq (map (enc_cm K NSS) r)) with (enc_cm K NSS (XSeq r)).
        apply IH; [exact H0| |]; intros x Hx; [apply HA|apply HM]; apply in_or_app; right; exact Hx.
    - change (enc_cm K NSS (XChoice (c :: r))) with (Choice (enc_cm K NSS c :: map (enc_cm K NSS) r)).
      cbn [xalphabet xmentioned map concat] in HA, HM. apply L_choice_here.
      apply IH; [exact H| |]; intros x Hx; [apply HA|apply HM]; apply in_or_app; left; exact Hx.
    - change (enc_cm K NSS (XChoice (c :: r))) with (Choice (enc_cm K NSS c :: map (enc_cm K NSS) r)).
      cbn [xalphabet xmentioned map concat] in HA, HM. apply L_choice_there.
      change (Choice (map (enc_cm K NSS) r)) with (enc_cm K NSS (XChoice r)).
      apply IH; [exact H| |]; intros x Hx; [apply HA|apply HM]; apply in_or_app; right; exact Hx.
    - cbn [enc_cm]. apply (L_all _ (map (enc_cm K NSS) l')); [apply Permutation_map; exact H|].
      change (Seq (map (enc_cm K NSS) l')) with (enc_cm K NSS (XSeq l')).
      apply IH; [exact H0| |]; cbn [xalphabet xmentioned] in *.
      + eapply incl_concat_perm; eassumption.
      + eapply incl_concat_perm; eassumption.
    - cbn [enc_cm map]. apply lang_choice_elem_in.
      apply (wild_names_abs (wns_allows c) (wns_fresh c)); [|exact H].
      intros n Hn. apply (wns_uniform NSS); [exact HM|exact Hn].
    - cbn [enc_cm]. rewrite concat_map.
      apply L_occ; [rewrite map_length; exact H|rewrite map_length; exact H0|].
      cbn [xalphabet xmentioned] in HA, HM.
      clear H H0. induction H1 as [|w ws Hw _ IHF]; cbn [map]; constructor; [|exact IHF].
      apply IH; assumption.
  Qed.

  (* --- the fields *)
  Definition field_ok (f : xfield) : Prop := incl (xf_names f) K /\ incl (field_mentions f) NSS.

  Lemma xfmatch_enc f q : field_ok f -> fmatch (enc_field K NSS f) (abs q) = xfmatch f q.
  Proof.
    intros [Hn Hm]. unfold fmatch, xfmatch, enc_field. cbn [ef_wild ef_names orb]. rewrite existsb_app. f_equal.
    - destruct (in_K_dec q) as [Hq|Hq].
      + rewrite abs_in_K by exact Hq. reflexivity.
      + rewrite abs_not_in_K by exact Hq.
        assert (E1 : existsb (name_eqb (wname (cls_of NSS (ns_of q)))) (xf_names f) = false).
        { apply (existsb_false_not_in name_eqb name_eqb_eq). intros H. exact (wname_not_in_K _ (Hn _ H)). }
        assert (E2 : existsb (name_eqb q) (xf_names f) = false).
        { apply (existsb_false_not_in name_eqb name_eqb_eq). intros H. exact (Hq (Hn _ H)). }
        rewrite E1, E2. reflexivity.
    - unfold field_mentions in Hm. destruct (xf_wild f) as [c|]; [|reflexivity].
      apply wild_names_abs_b. intros n Hn'. apply (fns_uniform NSS); assumption.
  Qed.

  Definition enc_slots (st : xslots) : slots := map (fun p => (enc_field K NSS (fst p), snd p)) st.

  Lemma xtake_slot_fst st : forall q st', xtake_slot st q = Some st' -> map fst st' = map fst st.
  Proof.
    induction st as [|[f a] r IH]; intros q st'; cbn [xtake_slot]; [discriminate|].
    destruct (xfmatch f q).
    - destruct (xf_bounded f); cbn [negb].
      + destruct a.
        * destruct (xtake_slot r q) eqn:E; cbn; [|discriminate]. intros X; inversion X; subst. cbn. f_equal. eapply IH; eauto.
        * intros X; inversion X; subst. reflexivity.
      + intros X; inversion X; subst. reflexivity.
    - destruct (xtake_slot r q) eqn:E; cbn; [|discriminate]. intros X; inversion X; subst. cbn. f_equal. eapply IH; eauto.
  Qed.

  Lemma xtake_slot_enc q : forall st,
    (forall f, In f (map fst st) -> field_ok f) ->
    take_slot (enc_slots st) (abs q) = option_map enc_slots (xtake_slot st q).
  Proof.
    induction st as [|[f a] r IH]; intros Hok; [reflexivity|].
    assert (Hf : field_ok f) by (apply Hok; left; reflexivity).
    assert (Hr : forall g, In g (map fst r) -> field_ok g) by (intros g Hg; apply Hok; right; exact Hg).
    cbn [enc_slots map fst snd take_slot xtake_slot]. rewrite (xfmatch_enc f q Hf).
    change (ef_bounded (enc_field K NSS f)) with (xf_bounded f).
    fold (enc_slots r). rewrite (IH Hr).
    destruct (xfmatch f q); [destruct (xf_bounded f); cbn [negb]; [destruct a|]|]; try reflexivity;
      destruct (xtake_slot r q); reflexivity.
  Qed.

  Lemma xrun_slots_enc : forall w st,
    (forall f, In f (map fst st) -> field_ok f) ->
    run_slots (enc_slots st) (map abs w) = option_map enc_slots (xrun_slots st w).
  Proof.
    induction w as [|q w IH]; intros st Hok; [reflexivity|].
    cbn [map run_slots xrun_slots]. rewrite (xtake_slot_enc q st Hok).
    destruct (xtake_slot st q) as [st'|] eqn:E; cbn [option_map]; [|reflexivity].
    apply IH. intros f Hf. apply Hok. rewrite <- (xtake_slot_fst _ _ _ E). exact Hf.
  Qed.

  Lemma xrequired_ok_enc st : required_ok (enc_slots st) = xrequired_ok st.
  Proof.
    unfold required_ok, xrequired_ok, enc_slots. induction st as [|[f a] r IH]; [reflexivity|].
    cbn [map forallb fst snd]. rewrite IH. reflexivity.
  Qed.

  Theorem xaccepts_enc m w :
    (forall f, In f (xm_fields m) -> field_ok f) ->
    accepts_word (enc_meta K NSS m) (map abs w) = xaccepts_word m w.
  Proof.
    intros Hok. unfold accepts_word, xaccepts_word, enc_meta. cbn [m_fields].
    assert (E : init_slots (map (enc_field K NSS) (xm_fields m)) = enc_slots (xinit_slots (xm_fields m))).
    { unfold init_slots, xinit_slots, enc_slots. rewrite !map_map. reflexivity. }
    rewrite E, xrun_slots_enc.
    - destruct (xrun_slots (xinit_slots (xm_fields m)) w); cbn [option_map]; [apply xrequired_ok_enc|reflexivity].
    - intros f Hf. apply Hok. unfold xinit_slots in Hf. rewrite map_map in Hf. cbn in Hf. rewrite map_id in Hf. exact Hf.
  Qed.

  (* --- ranks *)
  Lemma xfirst_idx_enc q : forall fs,
    (forall f, In f fs -> field_ok f) -> first_idx (map (enc_field K NSS) fs) (abs q) = xfirst_idx fs q.
  Proof.
    induction fs as [|f r IH]; intros Hok; [reflexivity|]. cbn [map first_idx xfirst_idx].
    rewrite (xfmatch_enc f q) by (apply Hok; left; reflexivity).
    rewrite IH by (intros g Hg; apply Hok; right; exact Hg). reflexivity.
  Qed.

  Lemma enc_dflt : enc_field K NSS xdflt_field = dflt_field.
  Proof. reflexivity. Qed.

  Lemma xrank_of_enc fs q :
    (forall f, In f fs -> field_ok f) -> rank_of (map (enc_field K NSS) fs) (abs q) = xrank_of fs q.
  Proof.
    intros Hok. unfold rank_of, xrank_of. rewrite (xfirst_idx_enc q fs Hok).
    destruct (xfirst_idx fs q) as [i|].
    - rewrite <- enc_dflt, map_nth. reflexivity.
    - destruct fs; reflexivity.
  Qed.
End Enc.

(* ------------------------------------------------------------------ the validator's own K and NSS are adequate *)
Lemma known_fields_ok c m f : In f (xm_fields m) -> field_ok (known_names c m) (known_nss c m) f.
Proof.
  intros Hf. split; intros x Hx.
  - unfold known_names. apply in_or_app. right. apply in_concat. exists (xf_names f). split; [apply in_map; exact Hf|exact Hx].
  - unfold known_nss. apply in_or_app. right. apply in_concat. exists (field_mentions f). split; [|exact Hx].
    apply (in_map field_mentions). exact Hf.
Qed.

Lemma known_alphabet c m : incl (xalphabet c) (known_names c m).
Proof. intros x Hx. unfold known_names. apply in_or_app. left. exact Hx. Qed.
Lemma known_mentioned c m : incl (xmentioned c) (known_nss c m).
Proof. intros x Hx. unfold known_nss. apply in_or_app. left. exact Hx. Qed.

(* ------------------------------------------------------------------ soundness of the validator *)
Theorem xcheck_sound c m w :
  xcheck_children c m = true -> xlang c w -> xaccepts_word m w = true.
Proof.
  unfold xcheck_children. intros H HL. apply andb_true_iff in H as [HK Hc].
  rewrite <- (xaccepts_enc (known_names c m) (known_nss c m) HK m w) by (intros f Hf; apply known_fields_ok; exact Hf).
  apply (check_sound (xenc_cm c m)); [exact Hc|].
  apply enc_lang; [exact HK|exact HL|apply known_alphabet|apply known_mentioned].
Qed.

(* every child finds a slot, capacity form (through the encoding) *)
Theorem xaccepts_all_sound c m :
  xcheck_children c m = true ->
  forall w, xlang c w ->
    let K := known_names c m in let NSS := known_nss c m in
    (forall q, ele (count q (map (abs_name K NSS) w)) (capacity (xenc_meta c m) q))
    /\ xaccepts_word m w = true.
Proof.
  intros H w HL K NSS. split; [|eapply xcheck_sound; eauto].
  unfold xcheck_children in H. apply andb_true_iff in H as [HK Hc].
  intros q. apply (accepts_all_sound (xenc_cm c m) (xenc_meta c m) Hc).
  apply enc_lang; [exact HK|exact HL|apply known_alphabet|apply known_mentioned].
Qed.

(* ------------------------------------------------------------------ order *)
Theorem xorder_safe_sound c m w :
  xorder_safe c m = true -> xlang c w -> nondecr (map (xrank_of (xm_fields m)) w).
Proof.
  unfold xorder_safe. intros H HL. apply andb_true_iff in H as [HK Ho].
  pose proof (order_safe_sound (xenc_cm c m) (xenc_meta c m) (map (abs_name (known_names c m) (known_nss c m)) w) Ho) as Hs.
  rewrite map_map in Hs.
  assert (E : map (fun x => rank_of (m_fields (xenc_meta c m)) (abs_name (known_names c m) (known_nss c m) x)) w
              = map (xrank_of (xm_fields m)) w).
  { apply map_ext. intros q. unfold xenc_meta, enc_meta. cbn [m_fields].
    apply xrank_of_enc; [exact HK|]. intros f Hf. apply known_fields_ok. exact Hf. }
  rewrite <- E. apply Hs. apply enc_lang; [exact HK|exact HL|apply known_alphabet|apply known_mentioned].
Qed.

Corollary xorder_preserved c m w :
  xorder_safe c m = true -> xlang c w -> emit_order (xrank_of (xm_fields m)) w = w.
Proof. intros H HL. apply emit_order_sorted. eapply xorder_safe_sound; eauto. Qed.

(* ------------------------------------------------------------------ nothing lost, nothing invented (children)
   The parser stores each child in the field it was routed to; the serializer emits the fields by rank,
   the items of one field in arrival order: the stable sort of the input word by rank. *)
Lemma insert_by_perm rk q l : Permutation (q :: l) (insert_by rk q l).
Proof.
  induction l as [|x r IH]; cbn [insert_by]; [apply Permutation_refl|].
  destruct (rk q <=? rk x); [apply Permutation_refl|].
  eapply Permutation_trans; [apply perm_swap|]. apply perm_skip. exact IH.
Qed.

Theorem emit_order_perm rk w : Permutation w (emit_order rk w).
Proof.
  unfold emit_order. induction w as [|q w IH]; cbn [fold_right]; [apply Permutation_refl|].
  eapply Permutation_trans; [apply perm_skip; exact IH|apply insert_by_perm].
Qed.

Theorem xlossless c m w :
  xcheck_children c m = true -> xlang c w ->
  xaccepts_word m w = true /\ Permutation w (emit_order (xrank_of (xm_fields m)) w).
Proof. intros H HL. split; [eapply xcheck_sound; eauto|apply emit_order_perm]. Qed.

(* ------------------------------------------------------------------ options: metadata equal up to what output-only options change *)
Lemma fatom_eqb_eq x y :
  (match x, y with FAny, FAny => true | FIs m, FIs n => ns_eqb m n | FNot u, FNot v => str_eqb u v | _, _ => false end) = true
  <-> x = y.
Proof.
  destruct x, y; split; intros H; try discriminate; try reflexivity; try (inversion H; fail).
  - apply ns_eqb_eq in H. subst. reflexivity.
  - inversion H. apply ns_eqb_refl.
  - apply str_eqb_eq in H. subst. reflexivity.
  - inversion H. apply str_eqb_refl.
Qed.

Lemma xfield_eqb_eq a b : xfield_eqb a b = true -> a = b.
Proof.
  unfold xfield_eqb. intros H. repeat (apply andb_true_iff in H as [H ?]).
  destruct a, b; cbn in *.
  apply (list_eqb_spec name_eqb name_eqb_eq) in H.
  apply (opt_eqb_spec _ (list_eqb_spec _ fatom_eqb_eq)) in H3.
  apply Bool.eqb_prop in H2, H1. apply Nat.eqb_eq in H0. subst. reflexivity.
Qed.

Lemma list_eqb_xfield_eq : forall l l', list_eqb xfield_eqb l l' = true -> l = l'.
Proof.
  induction l as [|a l IH]; intros [|b l']; cbn; intros H; try discriminate; [reflexivity|].
  apply andb_true_iff in H as [H1 H2]. apply xfield_eqb_eq in H1. subst. f_equal. apply IH. exact H2.
Qed.

Theorem options_irrelevant m m' :
  meta_equiv m m' = true -> forall w, xaccepts_word m w = xaccepts_word m' w.
Proof.
  unfold meta_equiv. intros H w. apply andb_true_iff in H as [H _]. apply andb_true_iff in H as [H _].
  apply list_eqb_xfield_eq in H. unfold xaccepts_word. rewrite H. reflexivity.
Qed.
