(* Proofs/WsdlClient.v — Client.prepare_headers / prepare_payload / send (Model/Wsdl.v). *)
From Coq Require Import NArith List Bool.
From XV Require Import Base.Str Base.Eqb Gen.WsdlTables Spec.WsdlSpec Model.Wsdl.
Import ListNotations.
Open Scope N_scope.

(* the constants the code uses are the ones SOAP 1.1 prescribes (breaks when a table changes) *)
Lemma soap_transport_const : c_soap_transport = SOAP_HTTP. Proof. reflexivity. Qed.
Lemma content_type_const : c_content_type = s_content_type. Proof. reflexivity. Qed.
Lemma text_xml_const : c_text_xml = s_text_xml. Proof. reflexivity. Qed.
Lemma soap_action_const : c_soap_action = s_SOAPAction. Proof. reflexivity. Qed.

Lemma dict_set_same h k v : hdr_lookup (dict_set h k v) k = Some v.
Proof.
  induction h as [|[k' v'] r IH]; cbn.
  - rewrite str_eqb_refl. reflexivity.
  - destruct (str_eqb k' k) eqn:E; cbn.
    + rewrite str_eqb_refl. reflexivity.
    + rewrite E. exact IH.
Qed.

Lemma dict_set_other h k v k0 : k0 <> k -> hdr_lookup (dict_set h k v) k0 = hdr_lookup h k0.
Proof.
  intros Hne. induction h as [|[k' v'] r IH]; cbn.
  - destruct (str_eqb_spec k k0) as [->|_]; [congruence | reflexivity].
  - destruct (str_eqb_spec k' k) as [->|Hk]; cbn.
    + destruct (str_eqb_spec k k0) as [->|_]; [congruence | reflexivity].
    + destruct (str_eqb k' k0); [reflexivity | exact IH].
Qed.

Lemma ct_neq_action : s_content_type <> s_SOAPAction. Proof. discriminate. Qed.

(* headers with the SOAP/HTTP transport *)
Lemma prepare_headers_soap : forall act h,
  exists h', prepare_headers (Some SOAP_HTTP) act h = Some h'
    /\ hdr_lookup h' s_content_type = Some s_text_xml
    /\ (forall a, act = Some a -> hdr_lookup h' s_SOAPAction = Some a)
    /\ (act = None -> hdr_lookup h' s_SOAPAction = hdr_lookup h s_SOAPAction)
    /\ (forall k, k <> s_content_type -> k <> s_SOAPAction -> hdr_lookup h' k = hdr_lookup h k).
Proof.
  intros act h. unfold prepare_headers.
  replace (ostr_eqb (Some SOAP_HTTP) (Some c_soap_transport)) with true by reflexivity.
  rewrite content_type_const, text_xml_const, soap_action_const.
  destruct act as [a|].
  - eexists; split; [reflexivity|]. repeat split.
    + rewrite dict_set_other by apply ct_neq_action. apply dict_set_same.
    + intros a' E; inversion E; subst. apply dict_set_same.
    + intros E; discriminate.
    + intros k H1 H2. rewrite dict_set_other by exact H2. apply dict_set_other; exact H1.
  - eexists; split; [reflexivity|]. repeat split.
    + apply dict_set_same.
    + intros; discriminate.
    + intros _. apply dict_set_other. intro E; symmetry in E; revert E; apply ct_neq_action.
    + intros k H1 _. apply dict_set_other; exact H1.
Qed.

(* any other transport: ClientValueError *)
Lemma prepare_headers_foreign : forall tr act h,
  tr <> Some SOAP_HTTP -> prepare_headers tr act h = None.
Proof.
  intros tr act h Hne. unfold prepare_headers.
  destruct (ostr_eqb tr (Some c_soap_transport)) eqn:E; [|reflexivity].
  exfalso. apply Hne. destruct tr as [t|]; cbn in E; [|discriminate].
  apply str_eqb_eq in E. subst. reflexivity.
Qed.

(* SOAPAction present iff the binding declares one (the empty action included; repaired in
   /repo d4f6af6 — before, a declared soapAction="" was dropped) *)
Lemma soapaction_iff_declared : forall act h h',
  prepare_headers (Some SOAP_HTTP) act h = Some h' ->
  hdr_lookup h s_SOAPAction = None ->
  hdr_lookup h' s_SOAPAction = act.
Proof.
  intros act h h' Hp Hu.
  destruct (prepare_headers_soap act h) as [h0 [E [_ [Hs [Hn _]]]]].
  rewrite E in Hp; inversion Hp; subst h0; clear Hp.
  destruct act as [a|].
  - apply (Hs a eq_refl).
  - rewrite Hn by reflexivity. exact Hu.
Qed.

Section Send.
  Variables Obj Cls Parsed : Type.
  Variable isinstance : Obj -> Cls -> bool.
  Variable as_dict : Obj -> bool.
  Variable decode_dict : Obj -> Cls -> option Obj.
  Variable render : Obj -> str.
  Variable encode : str -> str -> option (list N).
  Variable post : str -> payload -> headers -> list N.
  Variable parse : list N -> Cls -> Parsed.

  Notation prepare_payload' := (prepare_payload Obj Cls isinstance as_dict decode_dict render encode).
  Notation send' := (send Obj Cls Parsed isinstance as_dict decode_dict render encode post parse).

  (* a model instance of the input class is rendered as is, encoded when configured *)
  Lemma payload_of_instance : forall cfg obj,
    as_dict obj = false -> isinstance obj (cc_input _ cfg) = true ->
    prepare_payload' cfg obj =
      match cc_encoding _ cfg with
      | Some (c :: e) => match encode (c :: e) (render obj) with Some b => inr (PBytes b) | None => inl EncodeError end
      | _ => inr (PStr (render obj))
      end.
  Proof. intros cfg obj Hd Hi. unfold prepare_payload. rewrite Hd. cbn. rewrite Hi. reflexivity. Qed.

  (* a pure dict is decoded into the input class first *)
  Lemma payload_of_dict : forall cfg obj o,
    as_dict obj = true -> decode_dict obj (cc_input _ cfg) = Some o -> isinstance o (cc_input _ cfg) = true ->
    cc_encoding _ cfg = None ->
    prepare_payload' cfg obj = inr (PStr (render o)).
  Proof. intros cfg obj o Hd He Hi Hn. unfold prepare_payload. rewrite Hd, He, Hi, Hn. reflexivity. Qed.

  (* send posts exactly the prepared payload with the prepared headers to the configured
     location, once, and returns the parse of the transport's answer into the output class *)
  Lemma send_posts_payload : forall cfg obj h data h',
    prepare_payload' cfg obj = inr data ->
    prepare_headers (cc_transport _ cfg) (cc_soap_action _ cfg) h = Some h' ->
    send' cfg obj h =
      ([mk_call (cc_location _ cfg) data h'],
       inr (parse (post (cc_location _ cfg) data h') (cc_output _ cfg))).
  Proof. intros cfg obj h data h' Hp Hh. unfold send. rewrite Hp, Hh. reflexivity. Qed.

  (* wrong input type: ClientValueError and nothing is posted *)
  Lemma send_wrong_input : forall cfg obj h,
    as_dict obj = false -> isinstance obj (cc_input _ cfg) = false ->
    send' cfg obj h = ([], inl ClientValueError).
  Proof. intros cfg obj h Hd Hi. unfold send, prepare_payload. rewrite Hd. cbn. rewrite Hi. reflexivity. Qed.

  (* foreign transport: ClientValueError and nothing is posted *)
  Lemma send_foreign_transport : forall cfg obj h data,
    prepare_payload' cfg obj = inr data ->
    cc_transport _ cfg <> Some SOAP_HTTP ->
    send' cfg obj h = ([], inl ClientValueError).
  Proof.
    intros cfg obj h data Hp Ht. unfold send. rewrite Hp.
    rewrite prepare_headers_foreign by exact Ht. reflexivity.
  Qed.

  (* the whole story for a model instance, no encoding, SOAP/HTTP *)
  Lemma send_instance : forall cfg obj h,
    as_dict obj = false -> isinstance obj (cc_input _ cfg) = true ->
    cc_encoding _ cfg = None -> cc_transport _ cfg = Some SOAP_HTTP ->
    exists h',
      send' cfg obj h =
        ([mk_call (cc_location _ cfg) (PStr (render obj)) h'],
         inr (parse (post (cc_location _ cfg) (PStr (render obj)) h') (cc_output _ cfg)))
      /\ hdr_lookup h' s_content_type = Some s_text_xml
      /\ (forall a, cc_soap_action _ cfg = Some a -> hdr_lookup h' s_SOAPAction = Some a)
      /\ (forall k, k <> s_content_type -> k <> s_SOAPAction -> hdr_lookup h' k = hdr_lookup h k).
  Proof.
    intros cfg obj h Hd Hi He Ht.
    destruct (prepare_headers_soap (cc_soap_action _ cfg) h) as [h' [E [Hc [Hs [_ Hk]]]]].
    exists h'. split; [|repeat split; assumption].
    apply send_posts_payload.
    - rewrite payload_of_instance by assumption. rewrite He. reflexivity.
    - rewrite Ht. exact E.
  Qed.
End Send.
