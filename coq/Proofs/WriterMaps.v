(* Proofs/WriterMaps.v — prefix maps: dictionary lemmas and the invariant `minv` that the
   guards on the user map establish and that every map operation of the writer
   (generate_prefix, load_prefix, add_namespace, encode_data, reset_default_namespace)
   preserves.  The key consequence: under the guard no binding is ever overwritten
   (`ext`), except the default namespace being reset to "". *)
From Coq Require Import NArith List Bool Lia FinFun.
From XV Require Import Base.Str Base.Dec Base.Eqb Spec.XmlNs Gen.WriterTables Model.Writer.
Import ListNotations.
Open Scope N_scope.

(* ------------------------------------------------------------------ equality tests *)
Lemma ostr_eqb_eq a b : ostr_eqb a b = true <-> a = b.
Proof. unfold ostr_eqb. apply opt_eqb_spec. apply str_eqb_eq. Qed.
Lemma ostr_eqb_refl a : ostr_eqb a a = true.
Proof. apply ostr_eqb_eq. reflexivity. Qed.
Lemma ostr_eqb_neq a b : a <> b -> ostr_eqb a b = false.
Proof. intros H. destruct (ostr_eqb a b) eqn:E; [apply ostr_eqb_eq in E; contradiction|reflexivity]. Qed.
Lemma str_eqb_neq a b : a <> b -> str_eqb a b = false.
Proof. intros H. destruct (str_eqb a b) eqn:E; [apply str_eqb_eq in E; contradiction|reflexivity]. Qed.
Lemma str_eqb_sym a b : str_eqb a b = str_eqb b a.
Proof.
  destruct (str_eqb a b) eqn:E.
  - apply str_eqb_eq in E. subst. symmetry. apply str_eqb_refl.
  - symmetry. apply str_eqb_neq. intros ->. rewrite str_eqb_refl in E. discriminate.
Qed.

(* ------------------------------------------------------------------ dictionaries *)
Lemma NoDup_snoc {A} (l : list A) x : NoDup l -> ~ In x l -> NoDup (l ++ [x]).
Proof.
  induction l as [|a l IH]; cbn; intros H Hn.
  - constructor; [tauto|constructor].
  - inversion H as [|? ? Hni Hnd]; subst. constructor.
    + intros Hin. apply in_app_or in Hin as [Hin|[Hin|[]]]; [exact (Hni Hin)|subst; apply Hn; left; reflexivity].
    + apply IH; [exact Hnd|]. intros Hin. apply Hn. right. exact Hin.
Qed.
Lemma nm_get_set_same m p u : nm_get (nm_set m p u) p = Some u.
Proof.
  induction m as [|[p' u'] m IH]; cbn.
  - rewrite ostr_eqb_refl. reflexivity.
  - destruct (ostr_eqb p p') eqn:E; cbn; rewrite E; [reflexivity|exact IH].
Qed.
Lemma nm_get_set_other m p u p' : p' <> p -> nm_get (nm_set m p u) p' = nm_get m p'.
Proof.
  intros Hn. induction m as [|[p0 u0] m IH]; cbn.
  - rewrite ostr_eqb_neq by exact Hn. reflexivity.
  - destruct (ostr_eqb p p0) eqn:E; cbn.
    + apply ostr_eqb_eq in E. subst p0. rewrite ostr_eqb_neq by exact Hn. reflexivity.
    + destruct (ostr_eqb p' p0); [reflexivity|exact IH].
Qed.
Lemma nm_get_In m p u : nm_get m p = Some u -> In (p, u) m.
Proof.
  induction m as [|[p' u'] m IH]; cbn; [discriminate|].
  destruct (ostr_eqb p p') eqn:E.
  - apply ostr_eqb_eq in E. subst. intros H; inversion H; subst. left; reflexivity.
  - intros H. right. apply IH, H.
Qed.
Lemma nm_get_None_notin m p : nm_get m p = None -> ~ In p (map fst m).
Proof.
  induction m as [|[p' u'] m IH]; cbn; [tauto|].
  destruct (ostr_eqb p p') eqn:E; [discriminate|].
  intros H [H1|H1].
  - subst. rewrite ostr_eqb_refl in E. discriminate.
  - exact (IH H H1).
Qed.
Lemma In_nm_get m p u : NoDup (map fst m) -> In (p, u) m -> nm_get m p = Some u.
Proof.
  induction m as [|[p' u'] m IH]; cbn; [tauto|].
  intros Hnd [H|H].
  - inversion H; subst. rewrite ostr_eqb_refl. reflexivity.
  - inversion Hnd as [|? ? Hni Hnd']; subst.
    destruct (ostr_eqb p p') eqn:E.
    + apply ostr_eqb_eq in E. subst. exfalso. apply Hni. apply (in_map fst) in H. exact H.
    + apply IH; assumption.
Qed.
Lemma nm_has_key_get m p : nm_has_key m p = true <-> nm_get m p <> None.
Proof. unfold nm_has_key. destruct (nm_get m p); split; congruence. Qed.

Lemma nm_set_keys m p u :
  map fst (nm_set m p u) = if nm_has_key m p then map fst m else map fst m ++ [p].
Proof.
  unfold nm_has_key. induction m as [|[p' u'] m IH]; cbn; [reflexivity|].
  destruct (ostr_eqb p p') eqn:E; cbn; [reflexivity|].
  rewrite IH. destruct (nm_get m p); reflexivity.
Qed.
Lemma nm_set_nodup m p u : NoDup (map fst m) -> NoDup (map fst (nm_set m p u)).
Proof.
  intros H. rewrite nm_set_keys. destruct (nm_has_key m p) eqn:E; [exact H|].
  apply NoDup_snoc; [exact H|].
  unfold nm_has_key in E. destruct (nm_get m p) eqn:G; [discriminate|].
  exact (nm_get_None_notin _ _ G).
Qed.
Lemma nm_set_length m p u :
  length (nm_set m p u) = if nm_has_key m p then length m else S (length m).
Proof.
  unfold nm_has_key. induction m as [|[p' u'] m IH]; cbn; [reflexivity|].
  destruct (ostr_eqb p p') eqn:E; cbn; [reflexivity|].
  rewrite IH. destruct (nm_get m p); reflexivity.
Qed.

Lemma prefix_exists_iff u m : prefix_exists u m = true <-> exists p, In (p, u) m.
Proof.
  unfold prefix_exists. rewrite existsb_exists. split.
  - intros [[p u'] [Hin He]]. cbn in He. apply str_eqb_eq in He. subst. eauto.
  - intros [p Hin]. exists (p, u). split; [exact Hin|apply str_eqb_refl].
Qed.
Lemma find_prefix_Some u m p : find_prefix u m = Some p -> In (p, u) m.
Proof.
  induction m as [|[p' u'] m IH]; cbn; [discriminate|].
  destruct (str_eqb u' u) eqn:E.
  - apply str_eqb_eq in E. subst. intros H; inversion H; subst. left; reflexivity.
  - intros H. right. exact (IH H).
Qed.
Lemma find_prefix_None u m : find_prefix u m = None -> prefix_exists u m = false.
Proof.
  unfold prefix_exists. induction m as [|[p' u'] m IH]; cbn; [reflexivity|].
  destruct (str_eqb u' u); [discriminate|]. exact IH.
Qed.

(* ------------------------------------------------------------------ generated prefixes *)
Lemma to_dec_inj a b : to_dec a = to_dec b -> a = b.
Proof. intros H. rewrite <- (str_val_to_dec a), <- (str_val_to_dec b), H. reflexivity. Qed.

Lemma is_digit_ncname_char c : is_ascii_digit c = true -> is_ncname_char c = true.
Proof.
  unfold is_ascii_digit, is_ncname_char, in_range. intros H. rewrite H.
  rewrite !orb_true_r. reflexivity.
Qed.
Lemma ns_prefix_ncname k : is_ncname (s_ns ++ to_dec k) = true.
Proof.
  unfold s_ns. cbn [app is_ncname]. apply andb_true_iff. split; [reflexivity|].
  cbn [forallb]. apply andb_true_iff. split; [reflexivity|].
  pose proof (to_dec_digits k) as H. unfold all_digits in H.
  rewrite forallb_forall in *. intros x Hx. apply is_digit_ncname_char, H, Hx.
Qed.

(* ------------------------------------------------------------------ the standard table *)
Definition std_entry_ok (e : str * str) : bool :=
  let (u, p) := e in
  is_ncname p && negb (str_eqb p s_xmlns) && uri_ok u && Bool.eqb (str_eqb p s_xml) (str_eqb u ns_xml).
Definition std_table_ok : bool :=
  forallb std_entry_ok std_namespaces
  && nodup_by str_eqb (map fst std_namespaces) && nodup_by str_eqb (map snd std_namespaces)
  && existsb (fun e => str_eqb (fst e) ns_xml && str_eqb (snd e) s_xml) std_namespaces.
(* decided on the regenerated table: an edit of the Namespace enum that breaks one of
   these facts breaks this proof *)
Lemma std_table_ok_true : std_table_ok = true.
Proof. vm_compute. reflexivity. Qed.

Lemma std_prefix_In tbl u p : std_prefix tbl u = Some p -> In (u, p) tbl.
Proof.
  induction tbl as [|[u' p'] tbl IH]; cbn; [discriminate|].
  destruct (str_eqb u u') eqn:E.
  - apply str_eqb_eq in E. subst. intros H; inversion H; subst. left; reflexivity.
  - intros H. right. exact (IH H).
Qed.
Lemma std_prefix_None tbl u : std_prefix tbl u = None -> forall p, ~ In (u, p) tbl.
Proof.
  induction tbl as [|[u' p'] tbl IH]; cbn; [tauto|].
  destruct (str_eqb u u') eqn:E; [discriminate|].
  intros H p [H1|H1].
  - inversion H1; subst. rewrite str_eqb_refl in E. discriminate.
  - exact (IH H p H1).
Qed.

Lemma nodup_by_str_In_fst (l : list (str * str)) a b b' :
  nodup_by str_eqb (map fst l) = true -> In (a, b) l -> In (a, b') l -> b = b'.
Proof.
  induction l as [|[x y] l IH]; cbn; [tauto|].
  intros H. apply andb_true_iff in H as [Hn Hr].
  intros [H1|H1] [H2|H2].
  - inversion H1; inversion H2; subst. reflexivity.
  - inversion H1; subst. exfalso. apply negb_true_iff in Hn.
    assert (existsb (str_eqb a) (map fst l) = true); [|congruence].
    apply existsb_exists. exists a. split; [apply (in_map fst) in H2; exact H2|apply str_eqb_refl].
  - inversion H2; subst. exfalso. apply negb_true_iff in Hn.
    assert (existsb (str_eqb a) (map fst l) = true); [|congruence].
    apply existsb_exists. exists a. split; [apply (in_map fst) in H1; exact H1|apply str_eqb_refl].
  - exact (IH Hr H1 H2).
Qed.
Lemma nodup_by_str_In_snd (l : list (str * str)) a a' b :
  nodup_by str_eqb (map snd l) = true -> In (a, b) l -> In (a', b) l -> a = a'.
Proof.
  induction l as [|[x y] l IH]; cbn; [tauto|].
  intros H. apply andb_true_iff in H as [Hn Hr].
  intros [H1|H1] [H2|H2].
  - inversion H1; inversion H2; subst. reflexivity.
  - inversion H1; subst. exfalso. apply negb_true_iff in Hn.
    assert (existsb (str_eqb b) (map snd l) = true); [|congruence].
    apply existsb_exists. exists b. split; [apply (in_map snd) in H2; exact H2|apply str_eqb_refl].
  - inversion H2; subst. exfalso. apply negb_true_iff in Hn.
    assert (existsb (str_eqb b) (map snd l) = true); [|congruence].
    apply existsb_exists. exists b. split; [apply (in_map snd) in H1; exact H1|apply str_eqb_refl].
  - exact (IH Hr H1 H2).
Qed.

Lemma std_facts :
  (forall u p, In (u, p) std_namespaces -> std_entry_ok (u, p) = true)
  /\ (forall u p p', In (u, p) std_namespaces -> In (u, p') std_namespaces -> p = p')
  /\ (forall u u' p, In (u, p) std_namespaces -> In (u', p) std_namespaces -> u = u')
  /\ In (ns_xml, s_xml) std_namespaces.
Proof.
  pose proof std_table_ok_true as H. unfold std_table_ok in H.
  apply andb_true_iff in H as [H H4]. apply andb_true_iff in H as [H H3].
  apply andb_true_iff in H as [H1 H2].
  repeat split.
  - intros u p Hin. rewrite forallb_forall in H1. exact (H1 _ Hin).
  - intros u p p'. apply nodup_by_str_In_fst, H2.
  - intros u u' p. apply nodup_by_str_In_snd, H3.
  - apply existsb_exists in H4 as [[u p] [Hin He]]. cbn in He.
    apply andb_true_iff in He as [E1 E2]. apply str_eqb_eq in E1, E2. subst. exact Hin.
Qed.

(* ------------------------------------------------------------------ the invariant *)
Definition legal_entry (p : option str) (u : str) : Prop :=
  match p with
  | None => u = [] \/ (uri_ok u = true /\ u <> ns_xml)
  | Some p' => is_ncname p' = true /\ p' <> s_xmlns /\ uri_ok u = true /\ (p' = s_xml <-> u = ns_xml)
  end.

Record minv (u0 : option str) (m : nsmap) : Prop := {
  mi_uniq : NoDup (map fst m);
  mi_legal : forall p u, In (p, u) m -> legal_entry p u;
  (* a prefixed binding of the default namespace comes after the default entry: it was generated *)
  mi_default_first : forall u l1 p l2, u <> [] -> nm_get m None = Some u ->
                                       m = l1 ++ (Some p, u) :: l2 -> In None (map fst l1);
  mi_default_user : forall u, nm_get m None = Some u -> u = [] \/ u0 = Some u;
  mi_has_default : forall u, u0 = Some u -> nm_get m None <> None
}.

(* no binding is lost or changed *)
Definition ext (m m' : nsmap) : Prop := forall p u, nm_get m p = Some u -> nm_get m' p = Some u.
Lemma ext_refl m : ext m m.
Proof. intros p u H; exact H. Qed.
Lemma ext_trans a b c : ext a b -> ext b c -> ext a c.
Proof. intros H1 H2 p u H. apply H2, H1, H. Qed.

Lemma minv_In_get u0 m p u : minv u0 m -> In (p, u) m -> nm_get m p = Some u.
Proof. intros [H _ _ _ _]. apply In_nm_get, H. Qed.

(* adding a binding under a key that is not present *)
Lemma nm_set_fresh_get m p u p' u' :
  nm_get m p = None -> nm_get m p' = Some u' -> nm_get (nm_set m p u) p' = Some u'.
Proof.
  intros Hn Hg. rewrite nm_get_set_other; [exact Hg|]. intros ->. congruence.
Qed.
Lemma nm_set_In_fresh m p u x :
  nm_get m p = None -> In x (nm_set m p u) -> In x m \/ x = (p, u).
Proof.
  induction m as [|[p0 u0] m IH]; cbn.
  - intros _ [H|[]]. right. symmetry. exact H.
  - destruct (ostr_eqb p p0) eqn:E; [discriminate|]. intros Hn [H|H].
    + left. left. exact H.
    + destruct (IH Hn H) as [H1|H1]; [left; right; exact H1|right; exact H1].
Qed.

(* the while loop of generate_prefix finds a free key: pigeonhole *)
Lemma nm_get_Some_In_keys m p u : nm_get m p = Some u -> In p (map fst m).
Proof. intros H. apply nm_get_In in H. apply (in_map fst) in H. exact H. Qed.

Lemma free_ns_spec m fuel : forall k,
  nm_get m (Some (free_ns m k fuel)) = None
  \/ (forall i, (i < fuel)%nat -> nm_get m (Some (s_ns ++ to_dec (k + N.of_nat i))) <> None).
Proof.
  induction fuel as [|f IH]; intros k.
  - right. intros i Hi. lia.
  - cbn [free_ns]. unfold nm_has_key. destruct (nm_get m (Some (s_ns ++ to_dec k))) as [x|] eqn:G.
    + destruct (IH (k + 1)) as [H|H]; [left; exact H|]. right. intros i Hi.
      destruct i as [|i].
      * rewrite N.add_0_r, G. discriminate.
      * replace (k + N.of_nat (S i)) with (k + 1 + N.of_nat i) by lia. apply H. lia.
    + left. exact G.
Qed.

Lemma free_ns_form m fuel : forall k, exists j, free_ns m k fuel = s_ns ++ to_dec j.
Proof.
  induction fuel as [|f IH]; intros k; cbn [free_ns]; [eauto|].
  destruct (nm_has_key m (Some (s_ns ++ to_dec k))); [apply IH|eauto].
Qed.

Lemma free_ns_free m k : NoDup (map fst m) -> nm_get m (Some (free_ns m k (S (length m)))) = None.
Proof.
  intros Hnd. destruct (free_ns_spec m (S (length m)) k) as [H|H]; [exact H|]. exfalso.
  set (cands := map (fun i => Some (s_ns ++ to_dec (k + N.of_nat i))) (seq 0 (S (length m)))).
  assert (Hnd2 : NoDup cands).
  { unfold cands. apply FinFun.Injective_map_NoDup; [|apply seq_NoDup].
    intros a b E. inversion E as [E']. try apply app_inv_head in E'. apply to_dec_inj in E'. lia. }
  assert (Hincl : incl cands (map fst m)).
  { intros x Hx. unfold cands in Hx. apply in_map_iff in Hx as [i [Hi Hin]]. subst x.
    apply in_seq in Hin. destruct (nm_get m (Some (s_ns ++ to_dec (k + N.of_nat i)))) as [u|] eqn:G.
    - exact (nm_get_Some_In_keys _ _ _ G).
    - exfalso. apply (H i); [lia|exact G]. }
  pose proof (NoDup_incl_length Hnd2 Hincl) as Hl. unfold cands in Hl.
  rewrite !map_length, seq_length in Hl. lia.
Qed.

Lemma nm_set_append m p u : nm_get m p = None -> nm_set m p u = m ++ [(p, u)].
Proof.
  induction m as [|[p' u'] m IH]; cbn; [reflexivity|].
  destruct (ostr_eqb p p'); [discriminate|]. intros H. rewrite (IH H). reflexivity.
Qed.

Lemma generate_prefix_ok u0 m u :
  minv u0 m -> uri_ok u = true -> (forall q, nm_get m (Some q) <> Some u) ->
  let '(p, m') := generate_prefix u m in
  minv u0 m' /\ ext m m' /\ nm_get m' (Some p) = Some u /\ nm_get m (Some p) = None.
Proof.
  intros Hinv Hu Hne.
  destruct std_facts as [Sok [Sfun [Sinj Sxml]]].
  unfold generate_prefix.
  assert (Hune : u <> []) by (intros ->; discriminate).
  destruct u as [|c0 u']; [contradiction|]. set (u := c0 :: u') in *.
  set (fresh := free_ns m (N.of_nat (length m)) (S (length m))).
  pose proof (free_ns_free m (N.of_nat (length m)) (mi_uniq _ _ Hinv)) as Hfree. fold fresh in Hfree.
  destruct (free_ns_form m (S (length m)) (N.of_nat (length m))) as [j Hj]. fold fresh in Hj.
  set (p := match std_prefix std_namespaces u with
            | Some sp => match nm_get m (Some sp) with
                         | None => sp
                         | Some u' => if str_eqb u' u then sp else fresh
                         end
            | None => fresh
            end).
  (* the key is not in the map, and the facts about the new prefix *)
  assert (Hfacts : nm_get m (Some p) = None
                   /\ is_ncname p = true /\ p <> s_xmlns /\ (p = s_xml <-> u = ns_xml)).
  { assert (Hfr : nm_get m (Some fresh) = None /\ is_ncname fresh = true /\ fresh <> s_xmlns /\ fresh <> s_xml).
    { split; [exact Hfree|]. rewrite Hj. split; [apply ns_prefix_ncname|].
      split; intros H; unfold s_ns, s_xmlns, s_xml in H; discriminate. }
    destruct Hfr as [F1 [F2 [F3 F4]]].
    unfold p. destruct (std_prefix std_namespaces u) as [sp|] eqn:Es.
    - apply std_prefix_In in Es. pose proof (Sok _ _ Es) as Hok. unfold std_entry_ok in Hok.
      apply andb_true_iff in Hok as [Hok Hx]. apply andb_true_iff in Hok as [Hok _].
      apply andb_true_iff in Hok as [Hnc Hnx]. apply Bool.eqb_prop in Hx.
      assert (Hsp : is_ncname sp = true /\ sp <> s_xmlns /\ (sp = s_xml <-> u = ns_xml)).
      { split; [exact Hnc|split].
        - intros ->. rewrite str_eqb_refl in Hnx. discriminate.
        - split; intros E.
          + subst sp. rewrite str_eqb_refl in Hx. apply str_eqb_eq. symmetry. exact Hx.
          + rewrite E, str_eqb_refl in Hx. apply str_eqb_eq. exact Hx. }
      destruct (nm_get m (Some sp)) as [ux|] eqn:G.
      + destruct (str_eqb_spec ux u) as [E|E].
        * subst ux. exfalso. exact (Hne sp G).
        * split; [exact F1|split; [exact F2|split; [exact F3|]]]. split; [intros E2; contradiction|].
          (* u = ns_xml would make sp = xml, a key bound to another namespace: not legal *)
          intros E2. exfalso. destruct Hsp as [_ [_ Hxml]]. apply Hxml in E2. subst sp.
          apply nm_get_In in G. pose proof (mi_legal _ _ Hinv _ _ G) as Hl. cbn in Hl.
          destruct Hl as [_ [_ [_ Hl]]]. apply E. rewrite (proj1 Hl eq_refl).
          symmetry. apply Hxml. reflexivity.
      + split; [exact G|exact Hsp].
    - split; [exact F1|split; [exact F2|split; [exact F3|]]]. split; [intros E2; contradiction|].
      intros ->. exfalso. exact (std_prefix_None _ _ Es _ Sxml). }
  destruct Hfacts as [Habs [Hnc [Hnx Hxml]]].
  assert (Hext : ext m (nm_set m (Some p) u)).
  { intros p' x Hg. apply nm_set_fresh_get; assumption. }
  split; [|split; [exact Hext|split; [apply nm_get_set_same|exact Habs]]].
  constructor.
  - apply nm_set_nodup, (mi_uniq _ _ Hinv).
  - intros p' x Hin. apply nm_set_In_fresh in Hin; [|exact Habs]. destruct Hin as [Hin|Hin].
    + exact (mi_legal _ _ Hinv _ _ Hin).
    + inversion Hin; subst. cbn. repeat split; try assumption; apply Hxml.
  - intros x l1 q l2 Hx Hd Hsplit.
    rewrite nm_get_set_other in Hd by discriminate.
    rewrite (nm_set_append m (Some p) u Habs) in Hsplit.
    (* either the split lies inside the old map, or it is the appended entry *)
    destruct l2 as [|y l2'] using rev_ind.
    + apply app_inj_tail in Hsplit as [Hm _]. subst l1. exact (nm_get_Some_In_keys _ _ _ Hd).
    + clear IHl2'. rewrite app_comm_cons, app_assoc in Hsplit. apply app_inj_tail in Hsplit as [Hm _].
      exact (mi_default_first _ _ Hinv x l1 q l2' Hx Hd Hm).
  - intros x Hd. rewrite nm_get_set_other in Hd by discriminate.
    exact (mi_default_user _ _ Hinv _ Hd).
  - intros x Hx. rewrite nm_get_set_other by discriminate. exact (mi_has_default _ _ Hinv x Hx).
Qed.

(* add_namespace *)
Lemma add_namespace_ok u0 m (ou : option str) :
  minv u0 m -> ouri_ok ou = true ->
  minv u0 (add_namespace ou m) /\ ext m (add_namespace ou m)
  /\ (forall u, ou = Some u -> u <> [] -> prefix_exists u (add_namespace ou m) = true).
Proof.
  intros Hinv Hu. unfold add_namespace.
  destruct ou as [[|c u]|].
  - split; [exact Hinv|split; [apply ext_refl|]]. intros u H; inversion H; subst. tauto.
  - set (uu := c :: u) in *. destruct (prefix_exists uu m) eqn:E.
    + split; [exact Hinv|split; [apply ext_refl|]]. intros x H _; inversion H; subst. exact E.
    + assert (Hno : forall q, nm_get m (Some q) <> Some uu).
      { intros q G. apply nm_get_In in G.
        assert (prefix_exists uu m = true) by (apply prefix_exists_iff; eauto). congruence. }
      pose proof (generate_prefix_ok u0 m uu Hinv Hu Hno) as H.
      destruct (generate_prefix uu m) as [p m']. destruct H as [H1 [H2 [H3 _]]]. cbn [snd].
      split; [exact H1|split; [exact H2|]]. intros x Hx _; inversion Hx; subst.
      apply prefix_exists_iff. exists (Some p). apply nm_get_In, H3.
  - split; [exact Hinv|split; [apply ext_refl|]]. intros u H; discriminate.
Qed.

(* load_prefix *)
Lemma load_prefix_ok u0 m u :
  minv u0 m -> uri_ok u = true ->
  let '(p, m') := load_prefix u m in
  minv u0 m' /\ ext m m' /\ nm_get m' p = Some u.
Proof.
  intros Hinv Hu. unfold load_prefix.
  destruct (find_prefix u m) as [p|] eqn:E.
  - split; [exact Hinv|split; [apply ext_refl|]].
    apply find_prefix_Some in E. exact (minv_In_get _ _ _ _ Hinv E).
  - apply find_prefix_None in E.
    assert (Hno : forall q, nm_get m (Some q) <> Some u).
    { intros q G. apply nm_get_In in G.
      assert (prefix_exists u m = true) by (apply prefix_exists_iff; eauto). congruence. }
    pose proof (generate_prefix_ok u0 m u Hinv Hu Hno) as H.
    destruct (generate_prefix u m) as [p m']. destruct H as [H1 [H2 [H3 _]]].
    split; [exact H1|split; [exact H2|exact H3]].
Qed.

(* reset_default_namespace *)
Lemma reset_default_ok u0 m :
  minv u0 m -> nm_has_key m None = true ->
  minv u0 (nm_set m None []) /\ (forall p u, p <> None -> nm_get m p = Some u -> nm_get (nm_set m None []) p = Some u)
  /\ nm_get (nm_set m None []) None = Some [].
Proof.
  intros Hinv Hk.
  assert (Hlen : length (nm_set m None []) = length m) by (rewrite nm_set_length, Hk; reflexivity).
  split; [|split; [|apply nm_get_set_same]].
  - constructor.
    + apply nm_set_nodup, (mi_uniq _ _ Hinv).
    + intros p u Hin.
      assert (Hnd : NoDup (map fst (nm_set m None []))) by (apply nm_set_nodup, (mi_uniq _ _ Hinv)).
      pose proof (In_nm_get _ _ _ Hnd Hin) as Hg.
      destruct p as [p|].
      * rewrite nm_get_set_other in Hg by discriminate. apply nm_get_In in Hg.
        exact (mi_legal _ _ Hinv _ _ Hg).
      * rewrite nm_get_set_same in Hg. inversion Hg; subst. left. reflexivity.
    + intros u l1 p l2 Hu Hd _. rewrite nm_get_set_same in Hd. inversion Hd; subst. contradiction.
    + intros u Hd. rewrite nm_get_set_same in Hd. inversion Hd; subst. left. reflexivity.
    + intros u _. rewrite nm_get_set_same. discriminate.
  - intros p u Hp Hg. rewrite nm_get_set_other by exact Hp. exact Hg.
Qed.

(* ------------------------------------------------------------------ the user map *)
Lemma clean_collect_keys raw : forall acc,
  NoDup (map fst acc) -> NoDup (map fst (clean_collect raw acc)).
Proof.
  induction raw as [|[p u] raw IH]; intros acc H; cbn; [exact H|].
  destruct u as [|c u]; [apply IH, H|].
  destruct (nm_has_key acc (key_or_none p)) eqn:E; [apply IH, H|].
  apply IH. rewrite map_app. cbn.
  apply NoDup_snoc; [exact H|]. unfold nm_has_key in E.
  destruct (nm_get acc (key_or_none p)) eqn:G; [discriminate|].
  exact (nm_get_None_notin _ _ G).
Qed.
Lemma nm_remove_keys_nodup m p : NoDup (map fst m) -> NoDup (map fst (nm_remove m p)).
Proof.
  induction m as [|[p' u'] m IH]; cbn; [tauto|]. intros H. inversion H as [|? ? Hni Hnd]; subst.
  destruct (ostr_eqb p p'); [exact Hnd|]. cbn. constructor; [|exact (IH Hnd)].
  intros Hin. apply Hni. clear -Hin. induction m as [|[a b] m IH]; cbn in *; [tauto|].
  destruct (ostr_eqb p a); [right; exact Hin|]. destruct Hin as [H|H]; [left; exact H|right; exact (IH H)].
Qed.
Lemma nm_remove_get_other m p p' : p' <> p -> nm_get (nm_remove m p) p' = nm_get m p'.
Proof.
  intros Hn. induction m as [|[a b] m IH]; cbn; [reflexivity|].
  destruct (ostr_eqb p a) eqn:E.
  - apply ostr_eqb_eq in E. subst a. rewrite ostr_eqb_neq by exact Hn. reflexivity.
  - cbn. destruct (ostr_eqb p' a); [reflexivity|exact IH].
Qed.
Lemma nm_remove_get_same m p : NoDup (map fst m) -> nm_get (nm_remove m p) p = None.
Proof.
  induction m as [|[a b] m IH]; cbn; [reflexivity|]. intros H. inversion H as [|? ? Hni Hnd]; subst.
  destruct (ostr_eqb p a) eqn:E.
  - apply ostr_eqb_eq in E. subst a. destruct (nm_get m p) eqn:G; [|reflexivity].
    exfalso. apply Hni. apply nm_get_In in G. apply (in_map fst) in G. exact G.
  - cbn. rewrite E. exact (IH Hnd).
Qed.
Lemma nm_remove_In m p x : In x (nm_remove m p) -> In x m.
Proof.
  induction m as [|[a b] m IH]; cbn; [tauto|].
  destruct (ostr_eqb p a); [intros H; right; exact H|].
  intros [H|H]; [left; exact H|right; exact (IH H)].
Qed.
Lemma nm_remove_length m p : (length (nm_remove m p) <= length m)%nat.
Proof. induction m as [|[a b] m IH]; cbn; [lia|]. destruct (ostr_eqb p a); cbn; lia. Qed.

Lemma serializer_ns_map_nodup user : NoDup (map fst (serializer_ns_map user)).
Proof.
  unfold serializer_ns_map. destruct user as [|e user]; [constructor|].
  unfold clean_prefixes.
  assert (H : NoDup (map fst (clean_collect (e :: user) []))) by (apply clean_collect_keys; constructor).
  destruct (nm_get (clean_collect (e :: user) []) None) as [[|c d]|]; try exact H.
  destruct (existsb _ _); [apply nm_remove_keys_nodup, H|exact H].
Qed.

(* the guard on the user map gives the invariant *)
Lemma forallb_In {A} (f : A -> bool) l x : forallb f l = true -> In x l -> f x = true.
Proof. intros H Hin. rewrite forallb_forall in H. exact (H _ Hin). Qed.

Lemma user_default_alone user u p :
  let m := serializer_ns_map user in
  u <> [] -> nm_get m None = Some u -> nm_get m p = Some u -> forallb user_prefix_legal m = true -> p = None.
Proof.
  intros m Hu Hd Hg Hleg. destruct p as [p|]; [exfalso|reflexivity].
  unfold m, serializer_ns_map in *. destruct user as [|e user]; [discriminate|].
  unfold clean_prefixes in *.
  set (res := clean_collect (e :: user) []) in *.
  assert (Hnd : NoDup (map fst res)) by (apply clean_collect_keys; constructor).
  destruct (nm_get res None) as [[|c d]|] eqn:Gd.
  - rewrite Gd in Hd. inversion Hd; subst. contradiction.
  - destruct (existsb (fun e0 => truthy_prefix (fst e0) && str_eqb (snd e0) (c :: d)) res) eqn:Ex.
    + rewrite nm_remove_get_same in Hd by exact Hnd. discriminate.
    + rewrite Gd in Hd. inversion Hd; subst u.
      assert (existsb (fun e0 => truthy_prefix (fst e0) && str_eqb (snd e0) (c :: d)) res = true); [|congruence].
      apply existsb_exists. exists (Some p, c :: d). split; [apply nm_get_In, Hg|].
      cbn [fst snd]. rewrite str_eqb_refl, andb_true_r.
      apply nm_get_In in Hg. pose proof (forallb_In _ _ _ Hleg Hg) as Hl.
      unfold user_prefix_legal in Hl. cbn [fst] in Hl.
      destruct p as [|x p]; [cbn in Hl; discriminate|reflexivity].
  - rewrite Gd in Hd. discriminate.
Qed.

Lemma user_minv user :
  user_prefixes_legal user = true ->
  minv (user_default user) (serializer_ns_map user).
Proof.
  intros Hleg. unfold user_prefixes_legal in *.
  set (m := serializer_ns_map user) in *.
  assert (Hnd : NoDup (map fst m)) by apply serializer_ns_map_nodup.
  constructor.
  - exact Hnd.
  - intros p u Hin. pose proof (forallb_In _ _ _ Hleg Hin) as H. unfold user_prefix_legal in H.
    cbn [fst snd] in H. apply andb_true_iff in H as [H Hx]. apply andb_true_iff in H as [Hp Hu].
    apply negb_true_iff in Hx.
    destruct p as [p|]; cbn.
    + apply andb_true_iff in Hp as [Hp Hnx]. apply andb_true_iff in Hp as [Hnc Hnxml].
      apply negb_true_iff in Hnx, Hnxml.
      repeat split; try assumption.
      * intros ->. rewrite str_eqb_refl in Hnx. discriminate.
      * intros ->. rewrite str_eqb_refl in Hnxml. discriminate.
      * intros ->. rewrite str_eqb_refl in Hx. discriminate.
    + right. split; [exact Hu|]. intros ->. rewrite str_eqb_refl in Hx. discriminate.
  - intros u l1 p l2 Hu Hd Hsplit. exfalso.
    assert (Hg : nm_get m (Some p) = Some u).
    { apply In_nm_get; [exact Hnd|]. rewrite Hsplit. apply in_or_app. right. left. reflexivity. }
    pose proof (user_default_alone user u (Some p) Hu Hd Hg Hleg) as H. discriminate.
  - intros u Hd. right. unfold user_default. fold m. exact Hd.
  - intros u Hu. unfold user_default in Hu. fold m in Hu. rewrite Hu. discriminate.
Qed.

(* add_namespace(uri, prefixed=True) *)
Lemma prefixed_exists_iff u m : prefixed_exists u m = true <-> exists p, p <> [] /\ In (Some p, u) m.
Proof.
  unfold prefixed_exists. rewrite existsb_exists. split.
  - intros [[p u'] [Hin He]]. cbn [fst snd] in He. apply andb_true_iff in He as [Hp He].
    apply str_eqb_eq in He. subst u'. destruct p as [[|x p]|]; try discriminate.
    exists (x :: p). split; [discriminate|exact Hin].
  - intros [p [Hp Hin]]. exists (Some p, u). split; [exact Hin|]. cbn [fst snd].
    rewrite str_eqb_refl, andb_true_r. destruct p; [contradiction|reflexivity].
Qed.

Lemma add_namespace_attr_ok u0 m (ou : option str) :
  minv u0 m -> ouri_ok ou = true ->
  minv u0 (add_namespace_attr ou m) /\ ext m (add_namespace_attr ou m)
  /\ (forall u, ou = Some u -> u <> [] -> exists p, nm_get (add_namespace_attr ou m) (Some p) = Some u).
Proof.
  intros Hinv Hu. unfold add_namespace_attr.
  destruct ou as [[|c u]|].
  - split; [exact Hinv|split; [apply ext_refl|]]. intros u H; inversion H; subst. tauto.
  - set (uu := c :: u) in *. destruct (prefixed_exists uu m) eqn:E.
    + split; [exact Hinv|split; [apply ext_refl|]]. intros x H _; inversion H; subst.
      apply prefixed_exists_iff in E as [p [_ Hin]]. exists p. exact (minv_In_get _ _ _ _ Hinv Hin).
    + assert (Hno : forall q, nm_get m (Some q) <> Some uu).
      { intros q G. pose proof (mi_legal _ _ Hinv _ _ (nm_get_In _ _ _ G)) as Hl. cbn in Hl.
        destruct Hl as [Hnc _].
        assert (prefixed_exists uu m = true); [|congruence].
        apply prefixed_exists_iff. exists q. split; [intros ->; discriminate|apply nm_get_In, G]. }
      pose proof (generate_prefix_ok u0 m uu Hinv Hu Hno) as H.
      destruct (generate_prefix uu m) as [p m']. destruct H as [H1 [H2 [H3 _]]]. cbn [snd].
      split; [exact H1|split; [exact H2|]]. intros x Hx _; inversion Hx; subst. exists p. exact H3.
  - split; [exact Hinv|split; [apply ext_refl|]]. intros u H; discriminate.
Qed.
