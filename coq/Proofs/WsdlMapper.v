(* Proofs/WsdlMapper.v — the mapper theorem: for every document of the fragment that
   satisfies the guard, the services the generated code publishes are exactly `expected`. *)
From Coq Require Import NArith List Bool Lia.
From XV Require Import Base.Str Base.Eqb Base.PyInt Gen.WsdlTables Spec.WsdlSpec Model.Wsdl Model.WsdlCorr
  Proofs.WsdlLemmas Proofs.WsdlParts Proofs.WsdlEnvelope Proofs.WsdlSide.
Import ListNotations.
Open Scope N_scope.

Lemma envelope_input_faults st d style w obm optm f1 f2 :
  envelope st d style w false obm optm f1 = envelope st d style w false obm optm f2.
Proof. reflexivity. Qed.

Lemma fault_class_qname t das : c_qname (fault_class t das) = (t, m_fault).
Proof. destruct das; reflexivity. Qed.

Lemma decode_env_closed te all t nm hmn o body :
  c_qname body = (t, m_body) ->
  decode_root te all (env_closed (t, nm) (Some m_envelope) (Some m_soap_env) hmn o body)
  = Node SOAP_ENV s_Envelope true
      ((match o with
        | None => []
        | Some h => [Node SOAP_ENV s_Header (req_of hmn)
                          (map (decode_attr (decode_class 6 te all) te all (inner0 t s_Header_title h []) SOAP_ENV) h)]
        end) ++ [Node SOAP_ENV s_Body true (decode_class 7 te all body SOAP_ENV)]).
Proof.
  intros Hq. unfold decode_root. destruct o as [h|]; cbn [env_closed c_namespace c_meta_name fst].
  - rewrite decode_class_S.
    replace (children_ns _ m_soap_env) with m_soap_env by reflexivity.
    cbn [c_attrs map].
    erewrite decode_fwd. 2:{ cbn [c_inner find c_qname inner0]. rewrite qn_eqb_refl. reflexivity. }
    erewrite decode_fwd.
    2:{ cbn [c_inner find c_qname inner0]. rewrite qn_eqb_diff by reflexivity. rewrite Hq, qn_eqb_refl. reflexivity. }
    rewrite decode_class_S. reflexivity.
  - rewrite decode_class_S.
    replace (children_ns _ m_soap_env) with m_soap_env by reflexivity.
    cbn [c_attrs map].
    erewrite decode_fwd. 2:{ cbn [c_inner find]. rewrite Hq, qn_eqb_refl. reflexivity. }
    reflexivity.
Qed.

Section Main.
  Variables (te : tenv) (d : definitions) (t : str).
  Hypothesis Ht : d_tns d = Some t.
  Hypothesis Htn : nonempty t = true.
  Hypothesis Hmsgs : forallb message_ok (d_messages d) = true.
  Hypothesis Hsh : no_shadow d = true.

  Lemma b_msg_ok_facts style bm ptm :
    b_msg_ok d style bm ptm = true ->
    exists use bodyns parts dm,
      the_body bm = Some (use, bodyns, parts)
      /\ find_message d (ptm_ns ptm) (ptm_message ptm) = Some dm
      /\ (str_eqb style s_rpc = true ->
          exists u, bodyns = Some u /\ uri_ok u = true
                    /\ resolve_local d (msg_ns dm) (ptm_message ptm) = Some (msg_name dm))
      /\ parts_wf dm parts = true
      /\ forallb (header_wf d bm) (bm_exts bm) = true.
  Proof.
    unfold b_msg_ok. destruct (the_body bm) as [[[use bodyns] parts]|]; [|discriminate].
    destruct (find_message d (ptm_ns ptm) (ptm_message ptm)) as [dm|]; [|discriminate].
    intros H. apply andb_true_iff in H as [H Hh]. apply andb_true_iff in H as [H Hp].
    apply andb_true_iff in H as [_ Hr].
    exists use, bodyns, parts, dm. repeat split; auto.
    intros Hs. rewrite Hs in Hr. cbn [negb orb] in Hr.
    destruct bodyns as [u|]; [|discriminate]. apply andb_true_iff in Hr as [Hu Hl].
    exists u. repeat split; auto.
    destruct (resolve_local d (msg_ns dm) (ptm_message ptm)) as [l|]; [|discriminate].
    cbn in Hl. apply str_eqb_eq in Hl. subst. reflexivity.
  Qed.

  Lemma clean_lengths ps mn :
    Forall (part_clean d) ps -> forallb element_part ps = true ->
    length (build_parts_attributes ps) = length ps
    /\ length (flat_map (fun p => olist (direct_part_item te (req_of mn) p)) ps) = length ps.
  Proof.
    intros Hc He. induction ps as [|p r IH]; [split; reflexivity|].
    inversion Hc as [|? ? Hp Hr]; subst. cbn in He. apply andb_true_iff in He as [He1 He2].
    destruct (IH Hr He2) as [L1 L2].
    assert (inv d t []) as Hnil by (intros c []).
    destruct (element_part_item te d t [] Ht Hnil (fun _ _ => []) (AClass ([],[]) None TagElement None [] []) [] p mn Hp He1)
      as [u [l [Ea [_ Ei]]]].
    unfold build_parts_attributes in *. cbn [flat_map]. rewrite !app_length, Ea, Ei, L1, L2. split; reflexivity.
  Qed.

  Lemma side_correct po name style suffix operation wrapper is_output bm ptm :
    b_msg_ok d style bm ptm = true ->
    (is_output = true -> forallb (fault_wf d) (pto_faults po) = true) ->
    (str_eqb style s_rpc = false -> forallb element_part (selected_of d bm ptm) = true) ->
    (str_eqb style s_rpc = true ->
       forallb (fun p => negb (element_part p)) (selected_of d bm ptm) = true /\ body_parts_of bm = None
       /\ forall dm, find_message d (ptm_ns ptm) (ptm_message ptm) = Some dm ->
                     (match operation with Some o => o | None => msg_name dm end) = wrapper) ->
    exists ms target item,
      map_one_message d po name style (Some m_soap_env) suffix bm (Some ptm) operation is_output = Some (ms ++ [target])
      /\ envelope te d style wrapper is_output (Some bm) (Some ptm) (pto_faults po) = Some item
      /\ c_meta_name target = Some m_envelope /\ c_qname target = (t, name ++ [95] ++ suffix)
      /\ is_tag TagBindingMessage target = true
      /\ (forall c, In c ms -> is_tag TagElement c = true
                               /\ exists dm, find_message_by_name d (msg_name dm) = Some dm /\ c = msg_class t dm)
      /\ forall all, inv d t all -> incl ms all -> decode_root te all target = item.
  Proof.
    intros Hok Hfw Hdoc Hrpc.
    destruct (b_msg_ok_facts _ _ _ Hok) as [use [bodyns [parts [dm [Hbody [Hfm [Hrpcwf [Hpw Hhw]]]]]]]].
    destruct (exts_shape bm use bodyns parts Hbody) as [hs1 [hs2 [Eexts [Hhs1 Hhs2]]]].
    destruct (find_message_facts d t Ht Htn _ _ _ Hfm) as [Hind [Hsuf [Hbn [Hloc [prefix [Esplit Ens]]]]]].
    set (hs := hs1 ++ hs2).
    assert (Hhs : forallb is_header hs = true) by (unfold hs; rewrite forallb_app, Hhs1, Hhs2; reflexivity).
    assert (forallb (header_wf d bm) hs1 = true /\ forallb (header_wf d bm) hs2 = true) as [Hhw1 Hhw2].
    { rewrite Eexts, forallb_app in Hhw. apply andb_true_iff in Hhw as [H1 H2]. cbn in H2. auto. }
    assert (forallb (header_wf d bm) hs = true) as Hhw' by (unfold hs; rewrite forallb_app, Hhw1, Hhw2; reflexivity).
    assert (Hsel : selected_of d bm ptm = select_parts dm parts).
    { unfold selected_of, body_parts_of. rewrite Hfm, Hbody. reflexivity. }
    assert (Hhas : has_header bm = match hs with [] => false | _ => true end).
    { unfold has_header. rewrite Eexts. apply has_header_shape; assumption. }
    set (nm := name ++ [95] ++ suffix).
    (* the envelope class before the fault step *)
    assert (Henv : forall ab,
      ext_attrs d style operation ptm bm (SoapBody use bodyns parts) = Some ab ->
      build_envelope_class d bm (Some ptm) nm style (Some m_soap_env) operation
      = Some (env_closed (t, nm) (Some m_envelope) (Some m_soap_env) None
                (match hs with [] => None | _ => Some (build_parts_attributes (flat_map (hdr_parts d bm) hs)) end)
                (inner0 t m_body ab []))).
    { intros ab Hab. unfold build_envelope_class. rewrite Ht. unfold build_qname. rewrite Eexts.
      change (AClass (t, nm) (Some m_envelope) TagBindingMessage (Some m_soap_env) [] [])
        with (hstate (t, nm) (Some m_envelope) (Some m_soap_env) None).
      destruct (headers_ext_attrs d t Ht Htn Hmsgs Hsh style operation ptm bm hs1 Hhs1 Hhw1) as [F2a _].
      destruct (headers_ext_attrs d t Ht Htn Hmsgs Hsh style operation ptm bm hs2 Hhs2 Hhw2) as [F2b _].
      rewrite (fold_envelope d style operation ptm bm (t, nm) (Some m_envelope) (Some m_soap_env) hs1 hs2 _ _ use bodyns parts ab
                 Hhs1 Hhs2 F2a F2b Hab).
      rewrite <- map_app, concat_map_bpa. reflexivity. }
    destruct (headers_ext_attrs d t Ht Htn Hmsgs Hsh style operation ptm bm hs Hhs Hhw') as [_ [Hhc Hhe]].
    (* header items *)
    assert (Hhdr : forall all, inv d t all -> forall owner,
      map (decode_attr (decode_class 6 te all) te all owner SOAP_ENV) (build_parts_attributes (flat_map (hdr_parts d bm) hs))
      = header_items te d bm).
    { intros all Hinv owner.
      rewrite (header_items_hs te d bm hs1 hs2 use bodyns parts Eexts). fold hs.
      rewrite <- (map_id (build_parts_attributes _)).
      apply (element_parts_items te d t all Ht Hinv _ owner SOAP_ENV (fun a => a) None); auto. }
    (* faults *)
    assert (Hfault : is_output = true -> forall all, inv d t all ->
      exists das, detail_attrs d (pto_faults po) = Some das
        /\ decode_class 6 te all (fault_class t das) SOAP_ENV
           = match fault_item (fault_details te d (pto_faults po)) with Node _ _ _ cs => cs | _ => [] end).
    { intros Ho all Hinv. destruct (detail_attrs_closed d t Ht Htn Hmsgs Hsh _ (Hfw Ho)) as [Ed [Ec Ee]].
      eexists. split; [exact Ed|].
      change 6%nat with (S (S 4)). apply decode_fault_class.
      - intros f owner. rewrite fault_details_closed.
        apply (element_parts_items te d t all Ht Hinv _ owner SOAP_ENV set_min0 (Some O)); auto.
      - rewrite fault_details_closed.
        destruct (clean_lengths (flat_map (fault_parts d) (pto_faults po)) (Some O) Ec Ee) as [L1 L2].
        cbn [req_of] in L2.
        split; intros E; apply length_zero_iff_nil.
        + rewrite L2, <- L1, E. reflexivity.
        + rewrite L1, <- L2, E. reflexivity. }
    unfold map_one_message, envelope. rewrite Hbody, Hfm. fold nm.
    destruct (str_eqb style s_rpc) eqn:Es.
    - (* ---------------- rpc *)
      rewrite c_rpc, Es.
      destruct (Hrpcwf eq_refl) as [u [-> [Hu Hlm]]].
      destruct (Hrpc eq_refl) as [Hty [Hnoparts Hwr]].
      assert (parts = None) as -> by (unfold body_parts_of in Hnoparts; rewrite Hbody in Hnoparts; exact Hnoparts).
      rewrite (message_class_rpc d t Ht Htn ptm dm Hfm Hlm).
      pose proof (body_ext_attrs_rpc d t Ht Htn style operation ptm bm use (Some u) None dm) as Hab.
      rewrite c_rpc in Hab. specialize (Hab Es Hfm). rewrite (Hwr dm Hfm) in Hab.
      rewrite (Henv _ Hab).
      rewrite Hsel in Hty. cbn [select_parts] in Hty.
      destruct is_output eqn:Eo.
      + (* output *)
        destruct (detail_attrs_closed d t Ht Htn Hmsgs Hsh _ (Hfw eq_refl)) as [Ed _].
        rewrite (envelope_fault_closed d po t nm _ _ _ _ _ Ed).
        eexists [msg_class t dm], _, _. split; [reflexivity|]. split; [reflexivity|].
        split; [destruct hs; reflexivity|]. split; [destruct hs; reflexivity|]. split; [destruct hs; reflexivity|]. split.
        { intros c [<-|[]]. split; [reflexivity|]. exists dm. auto. }
        intros all Hinv Hincl.
        rewrite decode_env_closed by reflexivity. rewrite Hhas. cbn [negb select_parts req_of].
        match goal with |- context [decode_class 7 te all ?b SOAP_ENV] =>
          assert (Hb : decode_class 7 te all b SOAP_ENV
                       = [Node u wrapper false (flat_map (fun p => olist (rpc_part_item te p)) (msg_parts dm))]
                         ++ [fault_item (fault_details te d (pto_faults po))]) end.
        { rewrite decode_class_S. replace (children_ns _ SOAP_ENV) with SOAP_ENV by reflexivity.
          unfold body_out. cbn [c_attrs]. rewrite !map_app. cbn [map].
          change (set_min0 (wrapper_attr t wrapper (Some u) (msg_name dm) None)) with (wrapper_attr t wrapper (Some u) (msg_name dm) (Some O)).
          rewrite set_min0_fwd.
          rewrite (decode_wrapper te d t Ht Htn Hmsgs Hsh all 5 _ SOAP_ENV wrapper u dm (Some O) Hinv Hbn
                     (Hincl _ (or_introl eq_refl)) Hind Hu Hty).
          erewrite decode_fwd. 2:{ cbn [c_inner find]. rewrite fault_class_qname, qn_eqb_refl. reflexivity. }
          destruct (Hfault eq_refl all Hinv) as [das' [Ed' Edec]]. rewrite Ed in Ed'. inversion Ed'; subst das'.
          rewrite Edec. reflexivity. }
        rewrite Hb. destruct hs as [|h0 hr]; [reflexivity|].
        rewrite (Hhdr all Hinv). reflexivity.
      + (* input *)
        eexists [msg_class t dm], _, _. split; [reflexivity|]. split; [reflexivity|].
        split; [destruct hs; reflexivity|]. split; [destruct hs; reflexivity|]. split; [destruct hs; reflexivity|]. split.
        { intros c [<-|[]]. split; [reflexivity|]. exists dm. auto. }
        intros all Hinv Hincl.
        rewrite decode_env_closed by reflexivity. rewrite Hhas. cbn [negb select_parts app].
        assert (Hb : decode_class 7 te all (inner0 t m_body [wrapper_attr t wrapper (Some u) (msg_name dm) None] []) SOAP_ENV
                     = [Node u wrapper true (flat_map (fun p => olist (rpc_part_item te p)) (msg_parts dm))]).
        { rewrite decode_class_S. replace (children_ns _ SOAP_ENV) with SOAP_ENV by reflexivity.
          cbn [c_attrs inner0 map].
          rewrite (decode_wrapper te d t Ht Htn Hmsgs Hsh all 5 _ SOAP_ENV wrapper u dm None Hinv Hbn
                     (Hincl _ (or_introl eq_refl)) Hind Hu Hty). reflexivity. }
        rewrite Hb. destruct hs as [|h0 hr]; [reflexivity|].
        rewrite (Hhdr all Hinv). reflexivity.
    - (* ---------------- document *)
      rewrite c_rpc, Es.
      pose proof (body_ext_attrs_doc d t Ht Htn style operation ptm bm use bodyns parts dm) as Hab.
      rewrite c_rpc in Hab. specialize (Hab Es Hfm Hpw).
      rewrite (Henv _ Hab).
      pose proof (Hdoc eq_refl) as Hel. rewrite Hsel in Hel.
      assert (Hselc : Forall (part_clean d) (select_parts dm parts)).
      { unfold select_parts. destruct parts; [apply Forall_filter|]; apply (parts_clean d Hmsgs Hsh); exact Hind. }
      destruct is_output eqn:Eo.
      + destruct (detail_attrs_closed d t Ht Htn Hmsgs Hsh _ (Hfw eq_refl)) as [Ed _].
        rewrite (envelope_fault_closed d po t nm _ _ _ _ _ Ed).
        eexists [], _, _. split; [reflexivity|]. split; [reflexivity|].
        split; [destruct hs; reflexivity|]. split; [destruct hs; reflexivity|]. split; [destruct hs; reflexivity|]. split.
        { intros c []. }
        intros all Hinv Hincl.
        rewrite decode_env_closed by reflexivity. rewrite Hhas. cbn [negb req_of].
        match goal with |- context [decode_class 7 te all ?b SOAP_ENV] =>
          assert (Hb : decode_class 7 te all b SOAP_ENV
                       = flat_map (fun p => olist (direct_part_item te false p)) (select_parts dm parts)
                         ++ [fault_item (fault_details te d (pto_faults po))]) end.
        { rewrite decode_class_S. replace (children_ns _ SOAP_ENV) with SOAP_ENV by reflexivity.
          unfold body_out. cbn [c_attrs]. rewrite !map_app. cbn [map]. rewrite set_min0_fwd.
          rewrite (element_parts_items te d t all Ht Hinv _ _ SOAP_ENV set_min0 (Some O)); auto.
          erewrite decode_fwd. 2:{ cbn [c_inner find]. rewrite fault_class_qname, qn_eqb_refl. reflexivity. }
          destruct (Hfault eq_refl all Hinv) as [das' [Ed' Edec]]. rewrite Ed in Ed'. inversion Ed'; subst das'.
          rewrite Edec. reflexivity. }
        rewrite Hb. destruct hs as [|h0 hr]; [reflexivity|].
        rewrite (Hhdr all Hinv). reflexivity.
      + eexists [], _, _. split; [reflexivity|]. split; [reflexivity|].
        split; [destruct hs; reflexivity|]. split; [destruct hs; reflexivity|]. split; [destruct hs; reflexivity|]. split.
        { intros c []. }
        intros all Hinv Hincl.
        rewrite decode_env_closed by reflexivity. rewrite Hhas. cbn [negb app].
        rewrite ?app_nil_r.
        assert (Hb : decode_class 7 te all (inner0 t m_body (build_parts_attributes (select_parts dm parts)) []) SOAP_ENV
                     = flat_map (fun p => olist (direct_part_item te true p)) (select_parts dm parts)).
        { rewrite decode_class_S. replace (children_ns _ SOAP_ENV) with SOAP_ENV by reflexivity.
          cbn [c_attrs inner0]. rewrite <- (map_id (build_parts_attributes _)).
          apply (element_parts_items te d t all Ht Hinv _ _ SOAP_ENV (fun a => a) None); auto. }
        rewrite Hb. destruct hs as [|h0 hr]; [reflexivity|].
        rewrite (Hhdr all Hinv). reflexivity.
  Qed.
End Main.
