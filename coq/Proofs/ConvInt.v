(* Proofs/ConvInt.v — IntConverter against xs:integer. *)
From Coq Require Import NArith ZArith List Bool Lia.
From XV Require Import Base.Str Base.Dec Base.PyInt Gen.ConvTables Model.ConvInt Model.ConvGuards Spec.XsdPrims Proofs.ConvLemmas.
Import ListNotations.
Open Scope N_scope.

Lemma max_digits_eq : int_max_str_digits = py_max_str_digits.
Proof. reflexivity. Qed.


Lemma sign_digit_not_space sg ds :
  all_digits ds = true -> ds <> [] -> py_int_space (hd 0 (lex_sign sg ++ ds)) = false.
Proof.
  intros H Hne. destruct sg; cbn [lex_sign app hd]; try (vm_compute; reflexivity).
  apply ascii_digit_not_int_space, all_digits_hd; assumption.
Qed.

Lemma split_sign_lex sg ds :
  all_digits ds = true -> ds <> [] -> split_sign (lex_sign sg ++ ds) = (sign_neg sg, ds).
Proof.
  intros H Hne. destruct sg; cbn [lex_sign app sign_neg]; try reflexivity.
  destruct ds as [|c r]; [congruence|]. cbn in H. apply andb_true_iff in H as [Hc _].
  apply is_ascii_digit_range in Hc. unfold split_sign.
  destruct (N.eqb_spec c 45); [lia|]. destruct (N.eqb_spec c 43); [lia|]. reflexivity.
Qed.

(* every xs:integer lexical form (any sign spelling, leading zeros) wrapped in XML
   whitespace is accepted with the XSD value, up to the interpreter's digit limit *)
Lemma int_accepts_xsd i a b :
  wf_integer i = true -> int_sp_in_limit i = true ->
  forallb xml_ws a = true -> forallb xml_ws b = true ->
  int_deser (a ++ lex_integer i ++ b) = Some (val_integer i).
Proof.
  intros Hwf Hlim Ha Hb. destruct i as [sg ds]. unfold wf_integer, int_sp_in_limit in *. cbn [i_sign i_digits] in *.
  apply andb_true_iff in Hwf as [Hd Hne]. apply negb_true_iff, length_zero_iff_nil_b in Hne.
  apply N.leb_le in Hlim. rewrite max_digits_eq in Hlim.
  unfold int_deser, py_int, lex_integer, val_integer. cbn [i_sign i_digits].
  assert (Hcore : lex_sign sg ++ ds <> []) by (destruct sg, ds; cbn; congruence).
  rewrite strip_by_wrap_hd_last; try assumption.
  - rewrite split_sign_lex by assumption. cbn [fst snd].
    rewrite count_digits_all_digits by exact Hd.
    destruct (N.ltb_spec py_max_str_digits (N.of_nat (length ds))); [lia|].
    rewrite digits_us_digits by assumption. reflexivity.
  - eapply forallb_impl; [apply xml_ws_py_int_space|exact Ha].
  - eapply forallb_impl; [apply xml_ws_py_int_space|exact Hb].
  - apply sign_digit_not_space; assumption.
  - rewrite last_app_nonempty by exact Hne.
    apply ascii_digit_not_int_space, all_digits_last; assumption.
Qed.

(* the spelling str(int) uses *)
Definition int_canon (z : Z) : integer_sp :=
  mk_integer_sp (if (z <? 0)%Z then SgMinus else SgNone) (to_dec (Z.abs_N z)).

Lemma int_canon_lex z : lex_integer (int_canon z) = py_str_of_Z z.
Proof. destruct z; reflexivity. Qed.

Lemma int_canon_wf z : wf_integer (int_canon z) = true.
Proof.
  unfold wf_integer, int_canon. cbn [i_digits]. rewrite to_dec_digits. cbn.
  pose proof (to_dec_length_pos (Z.abs_N z)). destruct (length (to_dec (Z.abs_N z))); [lia|reflexivity].
Qed.

Lemma int_canon_val z : val_integer (int_canon z) = z.
Proof.
  unfold val_integer, int_canon. cbn [i_sign i_digits]. rewrite str_val_to_dec.
  destruct z; cbn; try reflexivity.
Qed.

(* the serialized string is in the lexical space of xs:integer and denotes the value *)
Lemma int_ser_valid z s :
  int_ser z = Some s ->
  exists i, wf_integer i = true /\ lex_integer i = s /\ val_integer i = z /\ int_sp_in_limit i = true.
Proof.
  unfold int_ser. destruct (N.ltb_spec int_max_str_digits (int_ndigits z)) as [|Hle]; [discriminate|].
  intros E; inversion E; subst. exists (int_canon z).
  split; [apply int_canon_wf|]. split; [apply int_canon_lex|]. split; [apply int_canon_val|].
  unfold int_sp_in_limit. apply N.leb_le. exact Hle.
Qed.

Lemma int_roundtrip z s : int_ser z = Some s -> int_deser s = Some z.
Proof.
  intros H. apply int_ser_valid in H as [i [Hwf [Hlex [Hval Hlim]]]].
  pose proof (int_accepts_xsd i [] [] Hwf Hlim eq_refl eq_refl) as A.
  cbn [app] in A. rewrite app_nil_r in A. congruence.
Qed.

Lemma int_ser_defined z : int_ndigits z <= int_max_str_digits -> int_ser z = Some (py_str_of_Z z).
Proof.
  intros H. unfold int_ser. destruct (N.ltb_spec int_max_str_digits (int_ndigits z)); [lia|reflexivity].
Qed.

(* the unguarded statements are false of the faithful model: the interpreter's limit *)
Lemma int_ser_total_refuted : exists z, int_ser z = None.
Proof. exists (10 ^ 4300)%Z. vm_compute. reflexivity. Qed.

Lemma int_accepts_xsd_refuted :
  exists i, wf_integer i = true /\ int_deser (lex_integer i) = None.
Proof. exists (mk_integer_sp SgNone (repeat_chr 49 4301)). split; vm_compute; reflexivity. Qed.

(* non-vacuity: a 4300-digit number is inside the guard and converts *)
Example int_guard_nonvacuous :
  let i := mk_integer_sp SgMinus (repeat_chr 57 4300) in
  wf_integer i = true /\ int_sp_in_limit i = true /\ int_deser (lex_integer i) = Some (val_integer i).
Proof. cbv zeta. split; [|split]; vm_compute; reflexivity. Qed.

(* int_datatype: the value lies in the value space of the chosen XSD type *)
Definition xsd_int_range := xsd_integer_type_contains.

Lemma int_datatype_sound z : xsd_int_range (int_datatype z) z = true.
Proof.
  unfold xsd_int_range, int_datatype.
  destruct (find (fun r => ((fst (fst r) <=? z) && (z <=? snd (fst r)))%Z) int_datatype_rows) as [r|] eqn:F.
  - apply find_some in F as [Hin Hr]. cbn in Hin.
    destruct Hin as [<-|[<-|[<-|[]]]]; cbn [fst snd] in Hr |- *; exact Hr.
  - vm_compute. reflexivity.
Qed.
