(* Proofs/ContextStatic.v — a static sufficient condition for the guard of
   history_independent_guarded: every class declares its own namespace and can be
   built; no client calls build_recursive.  Then *every* history is guarded. *)
From Coq Require Import NArith List Bool Lia.
From XV Require Import Base.Str Base.Eqb Model.Context Proofs.ContextEq Proofs.ContextInv Proofs.ContextHist
  Proofs.ContextWitness.
Import ListNotations.
Open Scope N_scope.

(* the metadata of a class that declares its namespace does not depend on the parent *)
Lemma build_meta_declared cd p1 p2 : declares_ns cd = true -> build_meta cd p1 = build_meta cd p2.
Proof.
  unfold declares_ns, build_meta, class_namespace. destruct (c_ns cd); [reflexivity|discriminate].
Qed.

(* worlds only grow *)
Definition extends (w wf : world) : Prop := exists ext, w_classes wf = w_classes w ++ ext.

Lemma extends_refl w : extends w w.
Proof. exists []. rewrite app_nil_r. reflexivity. Qed.

Lemma find_class_in_app_l l ext c cd : find_class_in l c = Some cd -> find_class_in (l ++ ext) c = Some cd.
Proof.
  induction l as [|d l IH]; cbn; [discriminate|]. destruct (N.eqb (c_id d) c); auto.
Qed.

Lemma find_class_extends w wf c cd : extends w wf -> find_class w c = Some cd -> find_class wf c = Some cd.
Proof. intros [ext E] H. unfold find_class in *. rewrite E. apply find_class_in_app_l. exact H. Qed.

Lemma find_class_in_In l c cd : find_class_in l c = Some cd -> In cd l.
Proof.
  induction l as [|d l IH]; cbn; [discriminate|].
  destruct (N.eqb (c_id d) c); intros H; [inversion H; left; reflexivity|right; auto].
Qed.

(* what a trace may contain in a closed world *)
Definition ev_ok (wf : world) (e : tev) : Prop :=
  match e with
  | TBuild c p (Some i) _ => exists cd, find_class wf c = Some cd /\ i = build_meta cd p
  | TRecFail _ => False
  | _ => True
  end.
Definition tr_ok (wf : world) (t : trace) : Prop := Forall (ev_ok wf) t.

Lemma tr_ok_app wf a b : tr_ok wf (a ++ b) <-> tr_ok wf a /\ tr_ok wf b.
Proof. apply Forall_app. Qed.

Section Closed.
Variable wf : world.
Hypothesis Hclosed : world_closed wf = true.

Lemma closed_class cd : In cd (w_classes wf) -> c_ok cd = true /\ declares_ns cd = true.
Proof.
  intros Hin. unfold world_closed in Hclosed. rewrite forallb_forall in Hclosed.
  specialize (Hclosed _ Hin). apply andb_true_iff in Hclosed. exact Hclosed.
Qed.

Lemma closed_ideal w c p : extends w wf -> forall cd, find_class w c = Some cd -> ideal_build w c p = Some (build_meta cd p).
Proof.
  intros He cd Hf. unfold ideal_build. rewrite Hf.
  pose proof (find_class_extends _ _ _ _ He Hf) as Hf'. apply find_class_in_In in Hf'.
  destruct (closed_class _ Hf') as [-> _]. reflexivity.
Qed.

Lemma build_tr w x c p x' om t : extends w wf -> ctx_build w x c p = (x', om, t) ->
  tr_ok wf t /\ (om = None -> find_class w c = None).
Proof.
  intros He E. unfold ctx_build in E.
  assert (Hev : forall g, ev_ok wf (TBuild c p (ideal_build w c p) g)).
  { intros g. cbn. destruct (ideal_build w c p) as [i|] eqn:Hi; [|exact I].
    destruct (ideal_build_some _ _ _ _ Hi) as [cd [Hf [_ ->]]]. exists cd. split; [|reflexivity].
    eapply find_class_extends; eauto. }
  destruct (cache_get (cache x) c) as [m|].
  - inversion E; subst. split; [constructor; [apply Hev|constructor]|discriminate].
  - destruct (ideal_build w c p) as [m|] eqn:Hi.
    + inversion E; subst. split; [|discriminate]. constructor; [|constructor].
      exact (Hev (Some m)).
    + inversion E; subst. split; [constructor; [exact I|constructor]|]. intros _.
      destruct (find_class w c) as [cd|] eqn:Hf; [|reflexivity].
      rewrite (closed_ideal w c p He cd Hf) in Hi. discriminate.
Qed.

Lemma find_types_tr w x q x' l t : ctx_find_types w x q = (x', l, t) -> tr_ok wf t.
Proof.
  unfold ctx_find_types. destruct (is_datatype_qname q); intros E; inversion E; subst.
  - constructor.
  - constructor; [exact I|constructor].
Qed.

Lemma fetch_tr w x c p xt x' om t : extends w wf -> ctx_fetch w x c p xt = (x', om, t) -> tr_ok wf t.
Proof.
  intros He E. unfold ctx_fetch in E. destruct (ctx_build w x c p) as [[x1 om1] t1] eqn:E1.
  destruct (build_tr _ _ _ _ _ _ _ He E1) as [T1 _].
  destruct om1 as [m|]; [|inversion E; subst; exact T1].
  destruct (truthy xt) as [q|]; [|inversion E; subst; exact T1].
  destruct (ostr_eqb (m_tq m) (Some q)); [inversion E; subst; exact T1|].
  unfold ctx_find_subclass in E. destruct (ctx_find_types w x1 q) as [[x2 l] t2] eqn:E2.
  pose proof (find_types_tr _ _ _ _ _ _ E2) as T2.
  destruct (find (subclass_candidate w c) l) as [s|].
  - destruct (ctx_build w x2 s p) as [[x3 om3] t3] eqn:E3.
    destruct (build_tr _ _ _ _ _ _ _ He E3) as [T3 _]. inversion E; subst.
    apply tr_ok_app. split; [exact T1|]. apply tr_ok_app. split; assumption.
  - inversion E; subst. apply tr_ok_app. split; assumption.
Qed.

Lemma lnm_tr w x names c x' b t : extends w wf -> ctx_local_names_match w x names c = (x', b, t) -> tr_ok wf t.
Proof.
  intros He E. unfold ctx_local_names_match in E. destruct (memN c (unsup x)); [inversion E; subst; constructor|].
  destruct (ctx_build w x c None) as [[x1 om] t1] eqn:E1.
  destruct (build_tr _ _ _ _ _ _ _ He E1) as [T1 Hn].
  destruct om; [inversion E; subst; exact T1|]. destruct (find_class w c); inversion E; subst; exact T1.
Qed.

Lemma scan_types_tr l : forall w x names x' cs t,
  extends w wf -> scan_types w x names l = (x', cs, t) -> tr_ok wf t.
Proof.
  induction l as [|c l IH]; intros w x names x' cs t He E; cbn [scan_types] in E.
  - inversion E; subst. constructor.
  - destruct (ctx_local_names_match w x names c) as [[x1 ok] t1] eqn:E1.
    pose proof (lnm_tr _ _ _ _ _ _ _ He E1) as T1.
    destruct (scan_types w x1 names l) as [[x2 cs2] t2] eqn:E2.
    pose proof (IH _ _ _ _ _ _ He E2) as T2. inversion E; subst. apply tr_ok_app. split; assumption.
Qed.

Lemma find_by_fields_tr w x names x' oc t :
  extends w wf -> ctx_find_by_fields w x names = (x', oc, t) -> tr_ok wf t.
Proof.
  intros He E. unfold ctx_find_by_fields in E.
  destruct (scan_types w (ctx_build_xsi w x) names _) as [[x1 cs] t1] eqn:E1.
  pose proof (scan_types_tr _ _ _ _ _ _ _ He E1) as T1.
  inversion E; subst. apply tr_ok_app. split; [exact T1|constructor; [exact I|constructor]].
Qed.

(* clients that never call build_recursive *)
Definition call_norec (c : call) : Prop := match c with CBuildRecursive _ _ => False | _ => True end.
Fixpoint norec (s : script) : Prop :=
  match s with
  | Ret _ => True
  | Call c k => call_norec c /\ forall a, norec (k a)
  end.

Lemma exec_call_tr w x c x' a t : extends w wf -> call_norec c -> exec_call w x c = (x', a, t) -> tr_ok wf t.
Proof.
  intros He Hn E. destruct c as [c pns|c pns xt|q|q|c q|names|names c|c pns| | |p u]; unfold exec_call in E.
  - destruct (ctx_build w x c pns) as [[x1 om] t1] eqn:E1. inversion E; subst. eapply build_tr; eauto.
  - destruct (ctx_fetch w x c pns xt) as [[x1 om] t1] eqn:E1. inversion E; subst. eapply fetch_tr; eauto.
  - unfold ctx_find_type in E. destruct (ctx_find_types w x q) as [[x1 l] t1] eqn:E1. inversion E; subst.
    eapply find_types_tr; eauto.
  - destruct (ctx_find_types w x q) as [[x1 l] t1] eqn:E1. inversion E; subst. eapply find_types_tr; eauto.
  - unfold ctx_find_subclass in E. destruct (ctx_find_types w x q) as [[x1 l] t1] eqn:E1. inversion E; subst.
    eapply find_types_tr; eauto.
  - destruct (ctx_find_by_fields w x names) as [[x1 oc] t1] eqn:E1. inversion E; subst.
    eapply find_by_fields_tr; eauto.
  - destruct (ctx_local_names_match w x names c) as [[x1 b] t1] eqn:E1. inversion E; subst. eapply lnm_tr; eauto.
  - destruct Hn.
  - inversion E; subst. constructor.
  - inversion E; subst. constructor.
  - inversion E; subst. constructor.
Qed.

Lemma run_script_tr s : forall w x x' r t, extends w wf -> norec s -> run_script w x s = (x', r, t) -> tr_ok wf t.
Proof.
  induction s as [r0|c k IH]; intros w x x' r t He Hn E; cbn in E.
  - inversion E; subst. constructor.
  - destruct Hn as [Hc Hk]. destruct (exec_call w x c) as [[x1 a] t1] eqn:E1.
    destruct (run_script w x1 (k a)) as [[x2 r2] t2] eqn:E2. inversion E; subst.
    apply tr_ok_app. split; [eapply exec_call_tr; eauto|eapply IH; eauto].
Qed.

(* a well-formed trace satisfies the request-level guard clauses *)
Lemma tr_ok_quiet t : tr_ok wf t -> quiet t = true.
Proof.
  induction 1 as [|e t He _ IH]; [reflexivity|]. cbn [quiet forallb] in *. fold (quiet t). rewrite IH.
  destruct e as [c p [i|] g| | |]; cbn in *; try reflexivity; contradiction.
Qed.

Lemma tr_ok_builds t c i : tr_ok wf t -> In (c, i) (builds_of t) ->
  exists cd p, find_class wf c = Some cd /\ i = build_meta cd p.
Proof.
  intros H Hin. unfold builds_of in Hin. apply in_flat_map in Hin as [e [He Hin]].
  unfold tr_ok in H. rewrite Forall_forall in H. specialize (H _ He).
  destruct e as [c' p [i'|] g| | |]; cbn in Hin; try contradiction.
  destruct Hin as [Eq|[]]. inversion Eq; subst. cbn in H. destruct H as [cd [Hf ->]]. eauto.
Qed.

Lemma tr_ok_closed t : tr_ok wf t -> ns_closed t = true.
Proof.
  intros H. unfold ns_closed, consistent. apply forallb_forall. intros [c1 i1] H1.
  apply forallb_forall. intros [c2 i2] H2. cbn.
  destruct (N.eqb_spec c1 c2) as [->|_]; [|reflexivity]. cbn.
  destruct (tr_ok_builds _ _ _ H H1) as [cd1 [p1 [Hf1 ->]]].
  destruct (tr_ok_builds _ _ _ H H2) as [cd2 [p2 [Hf2 ->]]].
  rewrite Hf1 in Hf2. inversion Hf2; subst. apply meta_eqb_eq. apply build_meta_declared.
  apply closed_class. eapply find_class_in_In. exact Hf1.
Qed.
End Closed.

(* histories: every world on the way is extended by the final one *)
Definition hop_norec (o : hop) : Prop := match o with HRun s => norec s | HEnv _ => True end.

Lemma env_step_extends w e : extends w (env_step w e).
Proof. destruct e as [cd b|]; cbn; [exists [cd]; reflexivity|exists []; cbn; rewrite app_nil_r; reflexivity]. Qed.

Lemma extends_trans a b c : extends a b -> extends b c -> extends a c.
Proof. intros [e1 E1] [e2 E2]. exists (e1 ++ e2). rewrite E2, E1, app_assoc. reflexivity. Qed.

Lemma hist_world_extends h : forall w x t w' x' t',
  fold_left hist_step h (w, x, t) = (w', x', t') -> extends w w'.
Proof.
  induction h as [|o h IH]; intros w x t w' x' t' E; cbn in E.
  - inversion E; subst. apply extends_refl.
  - destruct o as [e|s].
    + eapply extends_trans; [apply env_step_extends|eapply IH; exact E].
    + destruct (run_script w x s) as [[x1 r1] t1]. eapply IH; exact E.
Qed.

Lemma hist_tr h : forall wf w x t w' x' t',
  world_closed wf = true -> extends w' wf -> Forall hop_norec h -> tr_ok wf t ->
  fold_left hist_step h (w, x, t) = (w', x', t') -> tr_ok wf t'.
Proof.
  induction h as [|o h IH]; intros wf w x t w' x' t' Hc He Hn Ht E; cbn in E.
  - inversion E; subst. exact Ht.
  - inversion Hn; subst. destruct o as [e|s].
    + exact (IH wf (env_step w e) x t w' x' t' Hc He H2 Ht E).
    + destruct (run_script w x s) as [[x1 r1] t1] eqn:E1.
      assert (Hw : extends w wf).
      { eapply extends_trans; [|exact He]. eapply hist_world_extends. exact E. }
      assert (Ht1 : tr_ok wf (t ++ t1)).
      { apply tr_ok_app. split; [exact Ht|]. eapply run_script_tr; eauto. }
      exact (IH wf w x1 (t ++ t1) w' x' t' Hc He H2 Ht1 E).
Qed.

(* Every class declares its own namespace and can be built, nobody calls
   build_recursive, classes appear together with modules: then every history is
   inside the guard, whatever the clients ask for. *)
Theorem history_independent_declared w0 h s :
  world_ok w0 = true -> modules_stable h = true ->
  Forall hop_norec h -> norec s ->
  (let '(w, _, _) := run_hist w0 ctx0 h in world_closed w = true) ->
  history_independent_at w0 h s.
Proof.
  intros Hw Hs Hn Hns Hc. unfold history_independent_at.
  pose proof (history_independent_guarded w0 h s) as G. unfold hist_guard in G.
  destruct (run_hist w0 ctx0 h) as [[w x] t] eqn:E. apply G. clear G.
  unfold run_hist in E.
  assert (Ht : tr_ok w t) by (eapply (hist_tr h w); eauto using extends_refl; constructor).
  destruct (run_script w x s) as [[x1 r1] ts] eqn:E1. destruct (run_script w ctx0 s) as [[x2 r2] tf] eqn:E2.
  cbn [snd].
  assert (Tts : tr_ok w ts) by (eapply run_script_tr; eauto using extends_refl).
  assert (Ttf : tr_ok w tf) by (eapply run_script_tr; eauto using extends_refl).
  assert (Tall : tr_ok w (t ++ ts)) by (apply tr_ok_app; split; assumption).
  rewrite Hw, Hs, (tr_ok_closed w Hc _ Tall), (tr_ok_quiet w _ Tall), (tr_ok_closed w Hc _ Ttf), (tr_ok_quiet w _ Ttf).
  reflexivity.
Qed.
