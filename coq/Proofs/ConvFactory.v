(* Proofs/ConvFactory.v — sort_types is the stable sort by priority; deserialize
   over the sorted candidates is decided by the documented priority order. *)
From Coq Require Import NArith ZArith List Bool Lia Sorting.Permutation Sorting.Sorted String.
From XV Require Import Base.Str Gen.ConvTables Model.ConvFactory.
Import ListNotations.
Open Scope Z_scope.

Definition key_le (a b : pytype) : Prop := sort_key a <= sort_key b.

Lemma sort_types_eq l : sort_types l = fold_right insert_by [] l.
Proof.
  unfold sort_types. destruct l as [|a [|b r]]; reflexivity.
Qed.

Lemma insert_by_perm t l : Permutation (t :: l) (insert_by t l).
Proof.
  induction l as [|x l IH]; cbn; [apply Permutation_refl|].
  destruct (sort_key t <=? sort_key x); [apply Permutation_refl|].
  eapply perm_trans; [apply perm_swap|]. apply perm_skip, IH.
Qed.

Lemma sort_types_perm l : Permutation l (sort_types l).
Proof.
  rewrite sort_types_eq. induction l as [|x l IH]; cbn; [constructor|].
  eapply perm_trans; [apply perm_skip, IH|]. apply insert_by_perm.
Qed.

Lemma insert_by_sorted t l :
  StronglySorted key_le l -> StronglySorted key_le (insert_by t l).
Proof.
  induction l as [|x l IH]; intros H; cbn.
  - constructor; constructor.
  - inversion H as [|? ? Hs Hf]; subst.
    destruct (Z.leb_spec (sort_key t) (sort_key x)) as [Hle|Hgt].
    + constructor; [exact H|]. constructor; [exact Hle|].
      rewrite Forall_forall in *. intros y Hy. unfold key_le in *. specialize (Hf y Hy). lia.
    + constructor; [apply IH, Hs|].
      rewrite Forall_forall in *. intros y Hy.
      apply (Permutation_in _ (Permutation_sym (insert_by_perm t l))) in Hy.
      destruct Hy as [<-|Hy]; [unfold key_le; lia|apply Hf, Hy].
Qed.

Lemma sort_types_sorted l : StronglySorted key_le (sort_types l).
Proof.
  rewrite sort_types_eq. induction l as [|x l IH]; cbn; [constructor|].
  apply insert_by_sorted, IH.
Qed.

Definition has_key (k : Z) (t : pytype) : bool := sort_key t =? k.

Lemma insert_by_stable k t l :
  filter (has_key k) (insert_by t l) = filter (has_key k) (t :: l).
Proof.
  induction l as [|x l IH]; [reflexivity|]. cbn [insert_by].
  destruct (Z.leb_spec (sort_key t) (sort_key x)) as [Hle|Hgt]; [reflexivity|].
  cbn [filter] in *. rewrite IH. unfold has_key.
  destruct (Z.eqb_spec (sort_key t) k), (Z.eqb_spec (sort_key x) k); try reflexivity. lia.
Qed.

(* stability: candidates of equal priority keep their relative order *)
Lemma sort_types_stable k l : filter (has_key k) (sort_types l) = filter (has_key k) l.
Proof.
  rewrite sort_types_eq. induction l as [|x l IH]; [reflexivity|].
  cbn [fold_right]. rewrite insert_by_stable. cbn [filter]. rewrite IH. reflexivity.
Qed.

Section Priority.
  Context {V : Type}.
  Variable conv : pytype -> str -> option V.

  Lemma deserialize_gen_none s l :
    deserialize_gen conv s l = None <-> (forall t, In t l -> conv t s = None).
  Proof.
    induction l as [|x l IH]; cbn; [split; [intros _ t []|reflexivity]|].
    destruct (conv x s) eqn:E.
    - split; [discriminate|]. intros H. specialize (H x (or_introl eq_refl)). congruence.
    - rewrite IH. split.
      + intros H t [<-|Ht]; [exact E|apply H, Ht].
      + intros H t Ht. apply H. right. exact Ht.
  Qed.

  (* the first accepting element of a list: split around it *)
  Lemma deserialize_gen_some s l t v :
    deserialize_gen conv s l = Some (t, v) ->
    exists l1 l2, l = l1 ++ t :: l2 /\ conv t s = Some v /\ (forall x, In x l1 -> conv x s = None).
  Proof.
    induction l as [|x l IH]; cbn; [discriminate|].
    destruct (conv x s) eqn:E.
    - intros H; inversion H; subst. exists [], l. repeat split; [exact E|intros ? []].
    - intros H. destruct (IH H) as [l1 [l2 [-> [Hc Hn]]]].
      exists (x :: l1), l2. repeat split; [exact Hc|]. intros y [<-|Hy]; [exact E|apply Hn, Hy].
  Qed.

  Lemma deserialize_gen_filter s l t v (p : pytype -> bool) :
    deserialize_gen conv s l = Some (t, v) -> p t = true ->
    deserialize_gen conv s (filter p l) = Some (t, v).
  Proof.
    induction l as [|x l IH]; cbn; [discriminate|].
    destruct (conv x s) eqn:E.
    - intros H Hp; inversion H; subst. rewrite Hp. cbn. rewrite E. reflexivity.
    - intros H Hp. destruct (p x); [cbn; rewrite E|]; apply IH; assumption.
  Qed.

  (* no candidate accepts <-> ConverterError, whatever the order *)
  Theorem deserialize_sorted_none s l :
    deserialize_gen conv s (sort_types l) = None <-> (forall t, In t l -> conv t s = None).
  Proof.
    rewrite deserialize_gen_none. split; intros H t Ht; apply H.
    - apply (Permutation_in _ (sort_types_perm l)), Ht.
    - apply (Permutation_in _ (Permutation_sym (sort_types_perm l))), Ht.
  Qed.

  (* the winner is a candidate, its converter produced the value, and no accepting
     candidate has a strictly better (smaller) priority *)
  Theorem deserialize_priority s l t v :
    deserialize_gen conv s (sort_types l) = Some (t, v) ->
    In t l /\ conv t s = Some v
    /\ (forall t', In t' l -> conv t' s <> None -> sort_key t <= sort_key t').
  Proof.
    intros H. destruct (deserialize_gen_some _ _ _ _ H) as [l1 [l2 [E [Hc Hn]]]].
    pose proof (sort_types_sorted l) as S. rewrite E in S.
    split; [|split; [exact Hc|]].
    - apply (Permutation_in _ (Permutation_sym (sort_types_perm l))). rewrite E. apply in_or_app. right. left. reflexivity.
    - intros t' Ht' Ha.
      apply (Permutation_in _ (sort_types_perm l)) in Ht'. rewrite E in Ht'.
      apply in_app_or in Ht' as [Ht'|[<-|Ht']].
      + specialize (Hn t' Ht'). congruence.
      + lia.
      + clear -S Ht'. induction l1 as [|y l1 IH]; cbn in S.
        * inversion S as [|? ? _ Hf]; subst. rewrite Forall_forall in Hf. apply Hf, Ht'.
        * inversion S; subst. apply IH. assumption.
  Qed.

  (* among the candidates that share the winner's priority, the first in the
     order given by the caller wins *)
  Theorem deserialize_priority_tie s l t v :
    deserialize_gen conv s (sort_types l) = Some (t, v) ->
    deserialize_gen conv s (filter (has_key (sort_key t)) l) = Some (t, v).
  Proof.
    intros H. rewrite <- sort_types_stable. apply deserialize_gen_filter; [exact H|].
    unfold has_key. apply Z.eqb_refl.
  Qed.
End Priority.

(* the documented order, as far as the converters modelled here are concerned:
   bytes/enums/unknown (0) < int < bool < float < Decimal < ... < QName < str *)
Lemma documented_order :
  map (fun n => sort_key (TName (lit n)))
      ["bytes"; "int"; "bool"; "float"; "Decimal"; "XmlTime"; "XmlDate"; "XmlDateTime"; "XmlDuration";
       "XmlPeriod"; "QName"; "str"]%string
  = [0; 1; 2; 3; 4; 8; 9; 10; 11; 12; 13; 14].
Proof. vm_compute. reflexivity. Qed.
