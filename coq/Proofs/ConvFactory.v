(* Proofs/ConvFactory.v — sort_types is the stable sort by priority; deserialize
   over the sorted candidates is decided by the documented priority order. *)
From Coq Require Import NArith ZArith List Bool Lia Sorting.Permutation Sorting.Sorted String.
From XV Require Import Base.Str Gen.ConvTables Model.ConvFactory.
Import ListNotations.
Open Scope Z_scope.

Definition key_le (a b : pytype) : Prop := sort_key a <= sort_key b.

Lemma sort_types_eq l : sort_types l = fold_right insert_by [] l.
Proof.
  unfold sort_types. destruct l as [|a [|b r]]; reflexivity.
Qed.

Lemma insert_by_perm t l : Permutation (t :: l) (insert_by t l).
Proof.
  induction l as [|x l IH]; cbn; [apply Permutation_refl|].
  destruct (sort_key t <=? sort_key x); [apply Permutation_refl|].
  eapply perm_trans; [apply perm_swap|]. apply perm_skip, IH.
Qed.

Lemma sort_types_perm l : Permutation l (sort_types l).
Proof.
  rewrite sort_types_eq. induction l as [|x l IH]; cbn; [constructor|].
  eapply perm_trans; [apply perm_skip, IH|]. apply insert_by_perm.
Qed.

Lemma insert_by_sorted t l :
  StronglySorted key_le l -> StronglySorted key_le (insert_by t l).
Proof.
  induction l as [|x l IH]; intros H; cbn.
  - constructor; constructor.
  - inversion H as [|? ? Hs Hf]; subst.
    destruct (Z.leb_spec (sort_key t) (sort_key x)) as [Hle|Hgt].
    + constructor; [exact H|]. constructor; [exact Hle|].
      rewrite Forall_forall in *. intros y Hy. unfold key_le in *. specialize (Hf y Hy). lia.
    + constructor; [apply IH, Hs|].
      rewrite Forall_forall in *. intros y Hy.
      apply (Permutation_in _ (Permutation_sym (insert_by_perm t l))) in Hy.
      destruct Hy as [<-|Hy]; [unfold key_le; lia|apply Hf, Hy].
Qed.

Lemma sort_types_sorted l : StronglySorted key_le (sort_types l).
Proof.
  rewrite sort_types_eq. induction l as [|x l IH]; cbn; [constructor|].
  apply insert_by_sorted, IH.
Qed.

Definition has_key (k : Z) (t : pytype) : bool := sort_key t =? k.

Lemma insert_by_stable k t l :
  filter (has_key k) (insert_by t l) = filter (has_key k) (t :: l).
Proof.
  induction l as [|x l IH]; [reflexivity|]. cbn [insert_by].
  destruct (Z.leb_spec (sort_key t) (sort_key x)) as [Hle|Hgt]; [reflexivity|].
  cbn [filter] in *. rewrite IH. unfold has_key.
  destruct (Z.eqb_spec (sort_key t) k), (Z.eqb_spec (sort_key x) k); try reflexivity. lia.
Qed.

(* stability: candidates of equal priority keep their relative order *)
Lemma sort_types_stable k l : filter (has_key k) (sort_types l) = filter (has_key k) l.
Proof.
  rewrite sort_types_eq. induction l as [|x l IH]; [reflexivity|].
  cbn [fold_right]. rewrite insert_by_stable. cbn [filter]. rewrite IH. reflexivity.
Qed.

Section Priority.
  Context {V : Type}.
  Variable conv : pytype -> str -> option V.

  Lemma deserialize_gen_none s l :
    deserialize_gen conv s l = None <-> (forall t, In t l -> conv t s = None).
  Proof.
    induction l as [|x l IH]; cbn; [split; [intros _ t []|reflexivity]|].
    destruct (conv x s) eqn:E.
    - split; [discriminate|]. intros H. specialize (H x (or_introl eq_refl)). congruence.
    - rewrite IH. split.
      + intros H t [<-|Ht]; [exact E|apply H, Ht].
      + intros H t Ht. apply H. right. exact Ht.
  Qed.

  (* the first accepting element of a list: split around it *)
  Lemma deserialize_gen_some s l t v :
    deserialize_gen conv s l = Some (t, v) ->
    exists l1 l2, l = l1 ++ t :: l2 /\ conv t s = Some v /\ (forall x, In x l1 -> conv x s = None).
  Proof.
    induction l as [|x l IH]; cbn; [discriminate|].
    destruct (conv x s) eqn:E.
    - intros H; inversion H; subst. exists [], l. repeat split; [exact E|intros ? []].
    - intros H. destruct (IH H) as [l1 [l2 [-> [Hc Hn]]]].
      exists (x :: l1), l2. repeat split; [exact Hc|]. intros y [<-|Hy]; [exact E|apply Hn, Hy].
  Qed.

  Lemma deserialize_gen_filter s l t v (p : pytype -> bool) :
    deserialize_gen conv s l = Some (t, v) -> p t = true ->
    deserialize_gen conv s (filter p l) = Some (t, v).
  Proof.
    induction l as [|x l IH]; cbn; [discriminate|].
    destruct (conv x s) eqn:E.
    - intros H Hp; inversion H; subst. rewrite Hp. cbn. rewrite E. reflexivity.
    - intros H Hp. destruct (p x); [cbn; rewrite E|]; apply IH; assumption.
  Qed.

  (* no candidate accepts <-> ConverterError, whatever the order *)
  Theorem deserialize_sorted_none s l :
    deserialize_gen conv s (sort_types l) = None <-> (forall t, In t l -> conv t s = None).
  Proof.
    rewrite deserialize_gen_none. split; intros H t Ht; apply H.
    - apply (Permutation_in _ (sort_types_perm l)), Ht.
    - apply (Permutation_in _ (Permutation_sym (sort_types_perm l))), Ht.
  Qed.

  (* the winner is a candidate, its converter produced the value, and no accepting
     candidate has a strictly better (smaller) priority *)
  Theorem deserialize_priority s l t v :
    deserialize_gen conv s (sort_types l) = Some (t, v) ->
    In t l /\ conv t s = Some v
    /\ (forall t', In t' l -> conv t' s <> None -> sort_key t <= sort_key t').
  Proof.
    intros H. destruct (deserialize_gen_some _ _ _ _ H) as [l1 [l2 [E [Hc Hn]]]].
    pose proof (sort_types_sorted l) as S. rewrite E in S.
    split; [|split; [exact Hc|]].
    - apply (Permutation_in _ (Permutation_sym (sort_types_perm l))). rewrite E. apply in_or_app. right. left. reflexivity.
    - intros t' Ht' Ha.
      apply (Permutation_in _ (sort_types_perm l)) in Ht'. rewrite E in Ht'.
      apply in_app_or in Ht' as [Ht'|[<-|Ht']].
      + specialize (Hn t' Ht'). congruence.
      + lia.
      + clear -S Ht'. induction l1 as [|y l1 IH]; cbn in S.
        * inversion S as [|? ? _ Hf]; subst. rewrite Forall_forall in Hf. apply Hf, Ht'.
        * inversion S; subst. apply IH. assumption.
  Qed.

  (* among the candidates that share the winner's priority, the first in the
     order given by the caller wins *)
  Theorem deserialize_priority_tie s l t v :
    deserialize_gen conv s (sort_types l) = Some (t, v) ->
    deserialize_gen conv s (filter (has_key (sort_key t)) l) = Some (t, v).
  Proof.
    intros H. rewrite <- sort_types_stable. apply deserialize_gen_filter; [exact H|].
    unfold has_key. apply Z.eqb_refl.
  Qed.
End Priority.

(* the documented order, as far as the converters modelled here are concerned:
   bytes/enums/unknown (0) < int < bool < float < Decimal < ... < QName < str *)
Lemma documented_order :
  map (fun n => sort_key (TName (lit n)))
      ["bytes"; "int"; "bool"; "float"; "Decimal"; "XmlTime"; "XmlDate"; "XmlDateTime"; "XmlDuration";
       "XmlPeriod"; "QName"; "str"]%string
  = [0; 1; 2; 3; 4; 8; 9; 10; 11; 12; 13; 14].
Proof. vm_compute. reflexivity. Qed.

(* ---- against the documented order of the specification --------------------------- *)
From XV Require Import Spec.XsdPrims.
Open Scope Z_scope.

Definition name_key (n : str) : Z := sort_key (TName n).

Fixpoint strictly_increasing (l : list Z) : bool :=
  match l with
  | a :: ((b :: _) as r) => (a <? b) && strictly_increasing r
  | _ => true
  end.

Lemma documented_keys_increasing : strictly_increasing (map name_key documented_priority) = true.
Proof. vm_compute. reflexivity. Qed.

Lemma strictly_increasing_forall a l :
  strictly_increasing (a :: l) = true -> Forall (fun b => a < b) l /\ strictly_increasing l = true.
Proof.
  revert a; induction l as [|b r IH]; intros a H; [split; [constructor|reflexivity]|].
  cbn [strictly_increasing] in H. apply andb_true_iff in H as [Hab Hr]. apply Z.ltb_lt in Hab.
  destruct (IH b Hr) as [Fb Sr]. split; [|exact Hr]. constructor; [exact Hab|].
  eapply Forall_impl; [|exact Fb]. cbn. intros; lia.
Qed.

Section Documented.
  Context {V : Type}.
  Variable accepts : str -> option V.

  (* the choice of the specification: an accepting candidate of minimal key *)
  Lemma choose_some order cands v :
    strictly_increasing (map name_key order) = true ->
    choose_by_priority order cands accepts = Some v ->
    exists t, In t order /\ existsb (str_eqb t) cands = true /\ accepts t = Some v
              /\ forall t', In t' order -> existsb (str_eqb t') cands = true -> accepts t' <> None ->
                            name_key t <= name_key t'.
  Proof.
    induction order as [|t r IH]; intros S H; [discriminate|].
    cbn [map] in S. destruct (strictly_increasing_forall _ _ S) as [Ft Sr].
    cbn [choose_by_priority] in H.
    destruct (existsb (str_eqb t) cands) eqn:Ec; [destruct (accepts t) eqn:Ea|].
    - inversion H; subst. exists t. repeat split; [left; reflexivity|exact Ec|exact Ea|].
      intros t' [<-|Ht'] _ _; [lia|]. rewrite Forall_forall in Ft.
      specialize (Ft (name_key t') (in_map name_key r t' Ht')). lia.
    - destruct (IH Sr H) as [x [Hx [Hc [Ha Hm]]]]. exists x. repeat split; [right; exact Hx|exact Hc|exact Ha|].
      intros t' [<-|Ht'] Hc' Ha'; [congruence|apply Hm; assumption].
    - destruct (IH Sr H) as [x [Hx [Hc [Ha Hm]]]]. exists x. repeat split; [right; exact Hx|exact Hc|exact Ha|].
      intros t' [<-|Ht'] Hc' Ha'; [congruence|apply Hm; assumption].
  Qed.

  Lemma choose_none order cands :
    choose_by_priority order cands accepts = None ->
    forall t, In t order -> existsb (str_eqb t) cands = true -> accepts t = None.
  Proof.
    induction order as [|x r IH]; intros H t Ht Hc; [destruct Ht|].
    cbn [choose_by_priority] in H. destruct Ht as [<-|Ht].
    - rewrite Hc in H. destruct (accepts x); [discriminate|reflexivity].
    - destruct (existsb (str_eqb x) cands); [destruct (accepts x); [discriminate|]|]; apply IH; assumption.
  Qed.

  Lemma increasing_injective order a b :
    strictly_increasing (map name_key order) = true ->
    In a order -> In b order -> name_key a = name_key b -> a = b.
  Proof.
    induction order as [|t r IH]; intros S Ha Hb E; [destruct Ha|].
    cbn [map] in S. destruct (strictly_increasing_forall _ _ S) as [Ft Sr]. rewrite Forall_forall in Ft.
    destruct Ha as [<-|Ha], Hb as [<-|Hb]; try reflexivity.
    - specialize (Ft _ (in_map name_key r b Hb)). lia.
    - specialize (Ft _ (in_map name_key r a Ha)). lia.
    - apply IH; assumption.
  Qed.
End Documented.

(* candidates drawn from the documented types: sorting by the table and taking the
   first converter that accepts is exactly the documented choice *)
Theorem deserialize_documented {V} (conv : pytype -> str -> option V) s (names : list str) :
  (forall n, In n names -> In n documented_priority) ->
  option_map snd (deserialize_gen conv s (sort_types (map TName names)))
  = choose_by_priority documented_priority names (fun n => conv (TName n) s).
Proof.
  intros Hdoc. set (acc := fun n => conv (TName n) s).
  pose proof documented_keys_increasing as S.
  assert (Hex : forall n, In n names -> existsb (str_eqb n) names = true).
  { intros n Hn. apply existsb_exists. exists n. split; [exact Hn|apply str_eqb_refl]. }
  assert (Hex' : forall n, existsb (str_eqb n) names = true -> In n names).
  { intros n Hn. apply existsb_exists in Hn as [x [Hx E]]. apply str_eqb_eq in E. subst. exact Hx. }
  destruct (deserialize_gen conv s (sort_types (map TName names))) as [[t v]|] eqn:D.
  - destruct (deserialize_priority conv s _ t v D) as [Hin [Hc Hmin]].
    apply in_map_iff in Hin as [n [<- Hn]]. cbn [option_map snd].
    destruct (choose_by_priority documented_priority names acc) as [v'|] eqn:C.
    + destruct (choose_some acc _ _ _ S C) as [x [Hx [Hxc [Hxa Hxm]]]].
      assert (K1 : name_key n <= name_key x).
      { apply (Hmin (TName x)); [apply in_map, Hex', Hxc|]. unfold acc in Hxa. congruence. }
      assert (K2 : name_key x <= name_key n).
      { apply Hxm; [apply Hdoc, Hn|apply Hex, Hn|]. unfold acc. congruence. }
      assert (x = n) by (apply (increasing_injective documented_priority); [exact S|exact Hx|apply Hdoc, Hn|unfold name_key in *; lia]).
      subst x. unfold acc in Hxa. congruence.
    + pose proof (choose_none acc _ _ C n (Hdoc n Hn) (Hex n Hn)) as X. unfold acc in X. congruence.
  - cbn [option_map]. rewrite deserialize_sorted_none in D.
    destruct (choose_by_priority documented_priority names acc) as [v'|] eqn:C; [|reflexivity].
    destruct (choose_some acc _ _ _ S C) as [x [Hx [Hxc [Hxa _]]]].
    specialize (D (TName x) (in_map TName names x (Hex' x Hxc))). unfold acc in Hxa. congruence.
Qed.
