(* Proofs/ContextInv.v — the cache / index invariant of the XmlContext model and the
   soundness of every context method with respect to the stateless reference
   semantics (`ideal_call`), under the request-level guard clauses. *)
From Coq Require Import NArith List Bool Lia.
From XV Require Import Base.Str Base.Eqb Model.Context Proofs.ContextEq.
Import ListNotations.
Open Scope N_scope.

Ltac csplit := repeat match goal with |- _ /\ _ => split end.

(* every request that should produce metadata produces the canonical one *)
Definition canon_ok (canon : cid -> option meta) (t : trace) : Prop :=
  forall c p i g, In (TBuild c p (Some i) g) t -> canon c = Some i.

Lemma canon_ok_app canon a b : canon_ok canon (a ++ b) <-> canon_ok canon a /\ canon_ok canon b.
Proof.
  unfold canon_ok. split.
  - intros H. split; intros c p i g Hin; apply (H c p i g); apply in_or_app; auto.
  - intros [Ha Hb] c p i g Hin. apply in_app_or in Hin as [Hin|Hin]; eauto.
Qed.

Lemma canon_ok_nil canon : canon_ok canon [].
Proof. intros c p i g []. Qed.

Lemma quiet_app a b : quiet (a ++ b) = quiet a && quiet b.
Proof. apply forallb_app. Qed.

Record Inv (w : world) (canon : cid -> option meta) (x : ctx) : Prop := mkInv {
  inv_cache : forall c m, cache_get (cache x) c = Some m -> canon c = Some m;
  inv_known : forall c m, cache_get (cache x) c = Some m ->
                exists cd, find_class w c = Some cd /\ c_ok cd = true;
  inv_seen : seen x <= w_modules w;
  inv_index : seen x = w_modules w -> xsi x = ideal_index w;
  inv_unsup : forall c, In c (unsup x) -> exists cd, find_class w c = Some cd /\ c_ok cd = false }.

Lemma cache_get_app l c m c' :
  cache_get (l ++ [(c, m)]) c' =
  match cache_get l c' with
  | Some v => Some v
  | None => if N.eqb c c' then Some m else None
  end.
Proof.
  induction l as [|[k v] l IH]; cbn.
  - reflexivity.
  - destruct (N.eqb k c'); auto.
Qed.

(* what a method may do to the state besides answering *)
Definition grows (x x' : ctx) : Prop :=
  forall c m, cache_get (cache x) c = Some m -> cache_get (cache x') c = Some m.

Lemma grows_refl x : grows x x.
Proof. intros c m H; exact H. Qed.
Lemma grows_trans x y z : grows x y -> grows y z -> grows x z.
Proof. intros H1 H2 c m H. auto. Qed.

Lemma ideal_build_some w c p i :
  ideal_build w c p = Some i -> exists cd, find_class w c = Some cd /\ c_ok cd = true /\ i = build_meta cd p.
Proof.
  unfold ideal_build. destruct (find_class w c) as [cd|]; [|discriminate].
  destruct (c_ok cd) eqn:E; [|discriminate]. intros H; inversion H. eauto.
Qed.

Lemma ctx_build_sound w canon x c pns x' om t :
  Inv w canon x -> ctx_build w x c pns = (x', om, t) -> canon_ok canon t ->
  om = ideal_build w c pns /\ Inv w canon x' /\ xsi x' = xsi x /\ seen x' = seen x /\ rec x' = rec x
  /\ grows x x' /\ (forall m, om = Some m -> cache_get (cache x') c = Some m) /\ quiet t = true.
Proof.
  intros I E Hc. unfold ctx_build in E.
  destruct (cache_get (cache x) c) as [m|] eqn:G.
  - inversion E; subst; clear E.
    destruct (inv_known _ _ _ I _ _ G) as [cd [Hf Hok]].
    assert (Hi : ideal_build w c pns = Some (build_meta cd pns)).
    { unfold ideal_build. rewrite Hf, Hok. reflexivity. }
    rewrite Hi in Hc.
    assert (canon c = Some (build_meta cd pns)) by (eapply Hc; left; reflexivity).
    pose proof (inv_cache _ _ _ I _ _ G) as Hm.
    assert (m = build_meta cd pns) by congruence. subst m.
    rewrite Hi. csplit; auto using grows_refl; try (destruct I; assumption).
    intros m Em. inversion Em; subst. exact G.
  - destruct (ideal_build w c pns) as [m|] eqn:Hi.
    + inversion E; subst; clear E. cbn.
      csplit; auto.
      * constructor; cbn.
        -- intros c' m'. rewrite cache_get_app.
           destruct (cache_get (cache x) c') eqn:G'.
           ++ intros Em; inversion Em; subst. eapply inv_cache; eauto.
           ++ destruct (N.eqb_spec c c'); [|discriminate]. intros Em; inversion Em; subst.
              eapply Hc. left. reflexivity.
        -- intros c' m'. rewrite cache_get_app.
           destruct (cache_get (cache x) c') eqn:G'.
           ++ intros Em; inversion Em; subst. eapply inv_known; eauto.
           ++ destruct (N.eqb_spec c c'); [|discriminate]. intros _. subst c'.
              destruct (ideal_build_some _ _ _ _ Hi) as [cd [? [? ?]]]. eauto.
        -- apply I.
        -- apply I.
        -- apply I.
      * intros c' m' G'. cbn. rewrite cache_get_app, G'. reflexivity.
      * intros m' Em. inversion Em; subst. cbn. rewrite cache_get_app, G, N.eqb_refl. reflexivity.
    + inversion E; subst; clear E. csplit; auto using grows_refl; try (destruct I; assumption).
      intros m Em; discriminate.
Qed.

(* the index after build_xsi_cache *)
Lemma ctx_build_xsi_sound w canon x :
  Inv w canon x ->
  let x' := ctx_build_xsi w x in
  Inv w canon x' /\ xsi x' = ideal_index w /\ seen x' = w_modules w /\ cache x' = cache x /\ rec x' = rec x.
Proof.
  intros I. unfold ctx_build_xsi. destruct (N.eqb_spec (w_modules w) (seen x)) as [E|E]; cbn.
  - csplit; auto. apply I. symmetry. exact E.
  - csplit; auto. constructor; cbn; try apply I; auto. lia.
Qed.

Lemma ctx_find_types_sound w canon x q x' l t :
  Inv w canon x -> ctx_find_types w x q = (x', l, t) ->
  l = ideal_lookup w q /\ Inv w canon x' /\ grows x x' /\ canon_ok canon t /\ quiet t = true
  /\ rec x' = rec x.
Proof.
  intros I E. unfold ctx_find_types in E. unfold ideal_lookup.
  destruct (is_datatype_qname q).
  - inversion E; subst. csplit; auto using grows_refl, canon_ok_nil.
  - destruct (ctx_build_xsi_sound w canon x I) as [I' [Hx [Hs [Hc Hr]]]].
    inversion E; subst; clear E. rewrite Hx. csplit; auto.
    + intros c m. rewrite Hc. auto.
    + intros c p i g [H|[]]. discriminate.
Qed.

Lemma ctx_find_type_sound w canon x q x' oc t :
  Inv w canon x -> ctx_find_type w x q = (x', oc, t) ->
  ACls oc = ideal_call w (CFindType q) /\ Inv w canon x' /\ grows x x' /\ canon_ok canon t /\ quiet t = true
  /\ rec x' = rec x.
Proof.
  intros I E. unfold ctx_find_type in E.
  destruct (ctx_find_types w x q) as [[x1 l] t1] eqn:E1. inversion E; subst; clear E.
  destruct (ctx_find_types_sound _ _ _ _ _ _ _ I E1) as [-> [I' [G [C [Q R]]]]].
  csplit; auto.
Qed.

Lemma ctx_find_subclass_sound w canon x c q x' oc t :
  Inv w canon x -> ctx_find_subclass w x c q = (x', oc, t) ->
  oc = find (subclass_candidate w c) (ideal_lookup w q) /\ Inv w canon x' /\ grows x x'
  /\ canon_ok canon t /\ quiet t = true /\ rec x' = rec x.
Proof.
  intros I E. unfold ctx_find_subclass in E.
  destruct (ctx_find_types w x q) as [[x1 l] t1] eqn:E1. inversion E; subst; clear E.
  destruct (ctx_find_types_sound _ _ _ _ _ _ _ I E1) as [-> [I' [G [C [Q R]]]]].
  csplit; auto.
Qed.

Lemma ctx_fetch_sound w canon x c pns xt x' om t :
  Inv w canon x -> ctx_fetch w x c pns xt = (x', om, t) -> canon_ok canon t ->
  om = ideal_fetch w c pns xt /\ Inv w canon x' /\ grows x x' /\ quiet t = true /\ rec x' = rec x.
Proof.
  intros I E Hc. unfold ctx_fetch in E. unfold ideal_fetch.
  destruct (ctx_build w x c pns) as [[x1 om1] t1] eqn:E1.
  destruct om1 as [m|].
  - destruct (truthy xt) as [q|] eqn:Tq.
    + destruct (ostr_eqb (m_tq m) (Some q)) eqn:Eq.
      * inversion E; subst; clear E.
        destruct (ctx_build_sound _ _ _ _ _ _ _ _ I E1 Hc) as [Hm [I1 [_ [_ [R [G [_ Q]]]]]]].
        rewrite <- Hm, Eq. csplit; auto.
      * destruct (ctx_find_subclass w x1 c q) as [[x2 sub] t2] eqn:E2.
        destruct sub as [s|].
        -- destruct (ctx_build w x2 s pns) as [[x3 om3] t3] eqn:E3.
           inversion E; subst; clear E.
           apply canon_ok_app in Hc as [Hc1 Hc23]. apply canon_ok_app in Hc23 as [Hc2 Hc3].
           destruct (ctx_build_sound _ _ _ _ _ _ _ _ I E1 Hc1) as [Hm [I1 [_ [_ [R1 [G1 [_ Q1]]]]]]].
           destruct (ctx_find_subclass_sound _ _ _ _ _ _ _ _ I1 E2) as [Hs [I2 [G2 [_ [Q2 R2]]]]].
           destruct (ctx_build_sound _ _ _ _ _ _ _ _ I2 E3 Hc3) as [Hm3 [I3 [_ [_ [R3 [G3 [_ Q3]]]]]]].
           rewrite <- Hm, Eq, <- Hs. csplit; auto.
           ++ eauto using grows_trans.
           ++ rewrite !quiet_app, Q1, Q2, Q3. reflexivity.
           ++ congruence.
        -- inversion E; subst; clear E.
           apply canon_ok_app in Hc as [Hc1 Hc2].
           destruct (ctx_build_sound _ _ _ _ _ _ _ _ I E1 Hc1) as [Hm [I1 [_ [_ [R1 [G1 [_ Q1]]]]]]].
           destruct (ctx_find_subclass_sound _ _ _ _ _ _ _ _ I1 E2) as [Hs [I2 [G2 [_ [Q2 R2]]]]].
           rewrite <- Hm, Eq, <- Hs. csplit; auto.
           ++ eauto using grows_trans.
           ++ rewrite quiet_app, Q1, Q2. reflexivity.
           ++ congruence.
    + inversion E; subst; clear E.
      destruct (ctx_build_sound _ _ _ _ _ _ _ _ I E1 Hc) as [Hm [I1 [_ [_ [R [G [_ Q]]]]]]].
      rewrite <- Hm. csplit; auto.
  - inversion E; subst; clear E.
    destruct (ctx_build_sound _ _ _ _ _ _ _ _ I E1 Hc) as [Hm [I1 [_ [_ [R [G [_ Q]]]]]]].
    rewrite <- Hm. csplit; auto.
Qed.

(* ---------------------------------------------------------- local_names_match *)
Lemma memN_in c l : memN c l = true <-> In c l.
Proof.
  unfold memN. rewrite existsb_exists. split.
  - intros [y [Hin Hy]]. apply N.eqb_eq in Hy. subst. exact Hin.
  - intros Hin. exists c. split; [exact Hin|apply N.eqb_refl].
Qed.

Lemma lnm_sound w canon x names c x' b t :
  Inv w canon x -> ctx_local_names_match w x names c = (x', b, t) -> canon_ok canon t ->
  b = ideal_names_match w names c /\ Inv w canon x' /\ grows x x' /\ xsi x' = xsi x
  /\ seen x' = seen x /\ rec x' = rec x /\ quiet t = true
  /\ (b = true -> cache_get (cache x') c = ideal_build w c None).
Proof.
  intros I E Hc. unfold ctx_local_names_match in E. unfold ideal_names_match.
  destruct (memN c (unsup x)) eqn:Hu.
  - inversion E; subst. apply memN_in in Hu. destruct (inv_unsup _ _ _ I _ Hu) as [cd [Hf Hok]].
    unfold ideal_build. rewrite Hf, Hok. csplit; auto using grows_refl. discriminate.
  - destruct (ctx_build w x c None) as [[x1 om] t1] eqn:E1.
    assert (Hc1 : canon_ok canon t1).
    { destruct om; [inversion E; subst; exact Hc|]. destruct (find_class w c); inversion E; subst; exact Hc. }
    destruct (ctx_build_sound _ _ _ _ _ _ _ _ I E1 Hc1) as [Hm [I1 [X1 [S1 [R1 [G1 [Cg Q1]]]]]]].
    destruct om as [m|].
    + inversion E; subst; clear E. rewrite <- Hm. csplit; auto.
    + rewrite <- Hm. destruct (find_class w c) as [cd|] eqn:Hf; inversion E; subst; clear E.
      * csplit; auto; try discriminate.
        constructor; cbn; try apply I1. intros c' Hin. apply in_app_or in Hin as [Hin|[<-|[]]].
        -- apply (inv_unsup _ _ _ I1). exact Hin.
        -- exists cd. split; [exact Hf|]. symmetry in Hm. unfold ideal_build in Hm. rewrite Hf in Hm.
           destruct (c_ok cd); [discriminate|reflexivity].
      * csplit; auto. discriminate.
Qed.

Definition cached_ideal (w : world) (x : ctx) (cs : list cid) : Prop :=
  forall c, In c cs -> exists m, ideal_build w c None = Some m /\ cache_get (cache x) c = Some m.

Lemma cached_ideal_grows w x x' cs : grows x x' -> cached_ideal w x cs -> cached_ideal w x' cs.
Proof. intros G H c Hin. destruct (H c Hin) as [m [? ?]]. exists m. auto. Qed.

Lemma scan_types_sound l : forall w canon x names x' cs t,
  Inv w canon x -> scan_types w x names l = (x', cs, t) -> canon_ok canon t ->
  cs = filter (ideal_names_match w names) l
  /\ Inv w canon x' /\ grows x x' /\ xsi x' = xsi x /\ seen x' = seen x /\ rec x' = rec x
  /\ quiet t = true /\ cached_ideal w x' cs.
Proof.
  induction l as [|c l IH]; intros w canon x names x' cs t I E Hc; cbn [scan_types] in E.
  - inversion E; subst. csplit; auto using grows_refl. intros c [].
  - destruct (ctx_local_names_match w x names c) as [[x1 ok] t1] eqn:E1.
    destruct (scan_types w x1 names l) as [[x2 cs2] t2] eqn:E2. inversion E; subst; clear E.
    apply canon_ok_app in Hc as [Hc1 Hc2].
    destruct (lnm_sound _ _ _ _ _ _ _ _ I E1 Hc1) as [Hok [I1 [G1 [X1 [S1 [R1 [Q1 C1]]]]]]].
    destruct (IH _ _ _ _ _ _ _ I1 E2 Hc2) as [-> [I2 [G2 [X2 [S2 [R2 [Q2 C2]]]]]]].
    csplit; auto; try congruence.
    + cbn [filter]. rewrite <- Hok. reflexivity.
    + eauto using grows_trans.
    + rewrite quiet_app, Q1, Q2. reflexivity.
    + intros c' Hin. destruct ok.
      * destruct Hin as [<-|Hin]; [|apply C2; exact Hin].
        specialize (C1 eq_refl). symmetry in Hok. unfold ideal_names_match in Hok.
        destruct (ideal_build w c None) as [m|] eqn:Eb; [|discriminate].
        exists m. split; auto.
      * apply C2; exact Hin.
Qed.

Lemma ctx_find_by_fields_sound w canon x names x' oc t :
  Inv w canon x -> ctx_find_by_fields w x names = (x', oc, t) -> canon_ok canon t ->
  oc = ideal_by_fields w names /\ Inv w canon x' /\ rec x' = rec x /\ quiet t = true.
Proof.
  intros I E Hc. unfold ctx_find_by_fields in E.
  destruct (ctx_build_xsi_sound w canon x I) as [I0 [X0 [S0 [C0 R0]]]].
  set (x0 := ctx_build_xsi w x) in *.
  destruct (scan_types w x0 names _) as [[x1 cs] t1] eqn:E1.
  inversion E; subst oc x' t; clear E.
  apply canon_ok_app in Hc as [Hc1 _].
  destruct (scan_types_sound _ _ _ _ _ _ _ _ I0 E1 Hc1) as [Hcs [I1 [G1 [X1 [S1 [R1 [Q1 C1]]]]]]].
  csplit; auto; [|congruence|rewrite quiet_app, Q1; reflexivity].
  unfold ideal_by_fields, ideal_candidates. rewrite <- X0, <- Hcs.
  f_equal. apply map_ext_in. intros c Hin. destruct (C1 c Hin) as [m [Hb Hg]]. rewrite Hb, Hg. reflexivity.
Qed.

(* ------------------------------------------------------------ build_recursive *)
Definition rec_step (f : nat) (w : world) (m : meta) :=
  fun (acc : ctx * bool * trace) (v : var) =>
    let '(xa, ok, ta) := acc in
    if ok then
      match v_type v with
      | TCls t => let '(xb, ok', tb) := ctx_build_rec f true w xa t (m_ns m) in (xb, ok', ta ++ tb)
      | _ => acc
      end
    else acc.

Lemma ctx_build_rec_S f nested w x c pns :
  ctx_build_rec (S f) nested w x c pns =
  match cache_get (cache x) c with
  | Some _ => (x, true, [])
  | None =>
      let '(x1, om, t1) := ctx_build w x c pns in
      match om with
      | None => (x1, false, if nested then t1 ++ [TRecFail c] else t1)
      | Some m => fold_left (rec_step f w m) (m_vars m) (x1, true, t1)
      end
  end.
Proof. reflexivity. Qed.

Lemma rec_fold_ext f w m vars : forall xa oka ta x' ok t,
  fold_left (rec_step f w m) vars (xa, oka, ta) = (x', ok, t) -> exists tr, t = ta ++ tr.
Proof.
  induction vars as [|v vars IH]; intros xa oka ta x' ok t E; cbn in E.
  - inversion E; subst. exists []. rewrite app_nil_r. reflexivity.
  - destruct oka.
    + destruct (v_type v) as [|tc|]; try (eapply IH; exact E).
      destruct (ctx_build_rec f true w xa tc (m_ns m)) as [[xb ok'] tb].
      destruct (IH _ _ _ _ _ _ E) as [tr ->]. exists (tb ++ tr). rewrite app_assoc. reflexivity.
    + eapply IH; exact E.
Qed.

Definition rec_post (w : world) (canon : cid -> option meta) (x x' : ctx) : Prop :=
  Inv w canon x' /\ grows x x' /\ xsi x' = xsi x /\ seen x' = seen x /\ rec x' = rec x.

Lemma rec_post_refl w canon x : Inv w canon x -> rec_post w canon x x.
Proof. intros I. unfold rec_post. csplit; auto using grows_refl. Qed.

Lemma rec_post_trans w canon x y z : rec_post w canon x y -> rec_post w canon y z -> rec_post w canon x z.
Proof.
  intros [I1 [G1 [X1 [S1 R1]]]] [I2 [G2 [X2 [S2 R2]]]]. unfold rec_post.
  csplit; auto; try congruence. eauto using grows_trans.
Qed.

Lemma build_rec_sound fuel : forall nested w canon x c pns x' ok t,
  Inv w canon x -> ctx_build_rec fuel nested w x c pns = (x', ok, t) -> canon_ok canon t -> quiet t = true ->
  rec_post w canon x x'
  /\ (ok = false -> nested = false /\ cache_get (cache x) c = None /\ ideal_build w c pns = None)
  /\ (fuel <> O -> cache_get (cache x) c = None -> ideal_build w c pns = None -> ok = false).
Proof.
  induction fuel as [|f IH]; intros nested w canon x c pns x' ok t I E Hc Q.
  - cbn in E. inversion E; subst. csplit; auto using rec_post_refl; congruence.
  - rewrite ctx_build_rec_S in E. destruct (cache_get (cache x) c) as [m0|] eqn:G.
    + inversion E; subst. csplit; auto using rec_post_refl; congruence.
    + destruct (ctx_build w x c pns) as [[x1 om] t1] eqn:E1.
      destruct om as [m|].
      * (* built: fold over the vars *)
        destruct (rec_fold_ext _ _ _ _ _ _ _ _ _ _ E) as [tr Ht].
        assert (Hc1 : canon_ok canon t1) by (rewrite Ht in Hc; apply canon_ok_app in Hc; tauto).
        destruct (ctx_build_sound _ _ _ _ _ _ _ _ I E1 Hc1) as [Hm [I1 [X1 [S1 [R1 [G1 [_ _]]]]]]].
        assert (F : forall vars xa oka ta x' ok t,
                  Inv w canon xa -> (oka = false -> quiet ta = false) ->
                  fold_left (rec_step f w m) vars (xa, oka, ta) = (x', ok, t) ->
                  canon_ok canon t -> quiet t = true -> rec_post w canon xa x' /\ ok = true).
        { clear - IH. induction vars as [|v vars IHv]; intros xa oka ta x' ok t Ia Hq E Hc Q; cbn in E.
          - inversion E; subst. split; [apply rec_post_refl; exact Ia|].
            destruct ok; [reflexivity|]. rewrite Hq in Q by reflexivity. discriminate.
          - destruct oka.
            + destruct (v_type v) as [|tc|];
                [exact (IHv _ _ _ _ _ _ Ia Hq E Hc Q)| |exact (IHv _ _ _ _ _ _ Ia Hq E Hc Q)].
              destruct (ctx_build_rec f true w xa tc (m_ns m)) as [[xb ok'] tb] eqn:Eb.
              destruct (rec_fold_ext _ _ _ _ _ _ _ _ _ _ E) as [tr Ht].
              assert (Hcb : canon_ok canon tb).
              { rewrite Ht in Hc. apply canon_ok_app in Hc as [Hc _]. apply canon_ok_app in Hc; tauto. }
              assert (Qb : quiet tb = true).
              { rewrite Ht in Q. rewrite !quiet_app in Q. apply andb_true_iff in Q as [Q _].
                apply andb_true_iff in Q; tauto. }
              destruct (IH _ _ _ _ _ _ _ _ _ Ia Eb Hcb Qb) as [Pb [Hf _]].
              assert (ok' = true). { destruct ok'; [reflexivity|]. destruct (Hf eq_refl); discriminate. }
              subst ok'.
              destruct (IHv _ _ _ _ _ _ (proj1 Pb) (fun H => False_ind _ (diff_true_false H)) E Hc Q) as [P2 ->].
              split; [exact (rec_post_trans _ _ _ _ _ Pb P2)|reflexivity].
            + exact (IHv _ _ _ _ _ _ Ia Hq E Hc Q). }
        destruct (F _ _ _ _ _ _ _ I1 (fun H => False_ind _ (diff_true_false H)) E Hc Q) as [P ->].
        csplit.
        -- eapply rec_post_trans; [|exact P]. unfold rec_post. csplit; auto.
        -- discriminate.
        -- intros _ _ Hn. rewrite Hn in Hm. discriminate.
      * assert (Hc1 : canon_ok canon t1).
        { destruct nested; inversion E; subst; [apply canon_ok_app in Hc; tauto|exact Hc]. }
        destruct (ctx_build_sound _ _ _ _ _ _ _ _ I E1 Hc1) as [Hm [I1 [X1 [S1 [R1 [G1 [_ _]]]]]]].
        destruct nested.
        -- inversion E; subst. rewrite quiet_app in Q. cbn in Q. rewrite andb_false_r in Q. discriminate.
        -- inversion E; subst. csplit; auto. unfold rec_post. csplit; auto.
Qed.
