(* Proofs/ReaderWriters.v — C08, writer half: both writers and the tree serializer. *)
From Coq Require Import NArith List Bool.
From XV Require Import Base.Str Spec.XmlNs Model.Writer Model.TreeBuilder Proofs.WriterSound.
Import ListNotations.

Theorem tree_serializer_is_lxml_sink : forall cfg user evs, run_tree cfg user evs = run_lxml cfg user evs.
Proof. reflexivity. Qed.

Theorem writers_and_tree_agree : forall cfg user evs,
  writer_guard cfg user evs = true -> lxml_domain cfg user evs = true ->
  exists d t, run_native cfg user evs = inl d /\ resolve d = Some t
              /\ run_lxml cfg user evs = inl t /\ run_tree cfg user evs = inl t.
Proof.
  intros cfg user evs Hg Hd. destruct (sinks_agree cfg user evs Hg Hd) as (d & t & H1 & H2 & H3).
  exists d, t. split; [exact H1|]. split; [exact H2|]. split; [exact H3|]. rewrite tree_serializer_is_lxml_sink. exact H3.
Qed.
