(* Proofs/ParserDoc.v — C15, binding layer: under one guard clause per (open) refutation and
   the well-formedness of the exported metadata every stream of parser events ends in a
   value or in one of the documented errors.
   Four clauses (all_required_have_defaults, the bytes-wrapper part of xsi_types_ok,
   tails_blank, init_fields_only) were deleted with their refutations when the defects were
   repaired in /repo (24a005e, 32d0281, 8cca284). *)
From Coq Require Import NArith ZArith List Bool Arith Lia.
From XV Require Import Base.Str Base.Eqb Base.PyInt Model.Bind Model.Parser Model.ParserCorr Spec.Inject
  Proofs.ParserSkip.
Import ListNotations.

Definition rsafe {A} (r : res A) : Prop :=
  match r with ROk _ => True | RErr k => documented k = true end.

(* ================================================================ guards *)
(* --- one clause per open refutation ------------------------------------------------- *)
(* [PyIndexError] no `end` without an open element *)
Fixpoint well_nested_from (depth : nat) (d : list pevent) : bool :=
  match d with
  | [] => true
  | PStart _ _ _ :: r => well_nested_from (S depth) r
  | PEnd _ _ _ :: r => match depth with O => false | S k => well_nested_from k r end
  | PStartNs _ _ :: r => well_nested_from depth r
  end.
Definition well_nested (d : list pevent) : bool := well_nested_from 0 d.

(* --- validity of the converter parameter: resolving an xsi:type value yields a QName or fails
   (the model answers ModelGap otherwise; always true of the real converter, checked per case
   for the recorded tables) *)
Definition xsi_ok_at (c : conv) (attrs : list (qname * str)) (ns : nsmap) : bool :=
  match xsi_type_of c attrs ns with
  | RErr ModelGap => false
  | _ => true
  end.
Definition xsi_types_ok (c : conv) (d : list pevent) : bool :=
  forallb (fun ev => match ev with PStart _ attrs ns => xsi_ok_at c attrs ns | _ => true end) d.

(* --- well-formedness of exported metadata (checked on every real universe by the harness) -- *)
Definition var_role (v : xvar) : N :=
  match v_kind v with
  | KAttributes => 2
  | KAttribute | KText => 0
  | _ => if v_list_element v then 1 else 0
  end%N.
Definition names_ok (m : xmeta) : bool :=
  forallb (fun v => forallb (fun w => negb (str_eqb (v_name v) (v_name w)) || N.eqb (var_role v) (var_role w))
                            (deep_vars m)) (deep_vars m).
Definition elemish (v : xvar) : bool := v_is KElement v || v_is KWildcard v.
Definition kinds_ok (m : xmeta) : bool :=
  forallb (fun kv => v_is KAttribute (snd kv)) (m_attributes m)
  && forallb (v_is KAttributes) (m_any_attributes m)
  && match m_text m with Some t => v_is KText t | None => true end
  && forallb (fun kv => forallb (v_is KElement) (snd kv)) (m_elements m)
  && forallb (v_is KWildcard) (m_wildcards m)
  && forallb (fun ch => forallb (fun kv => elemish (snd kv)) (v_elements ch) && forallb elemish (v_wildcards ch))
             (m_choices m ++ m_wildcards m).
Definition meta_ok (m : xmeta) : bool := kinds_ok m && names_ok m.

Definition has_meta (u : universe) (cl : cls) : bool := is_some (u_meta u cl).
Definition var_closed (u : universe) (v : xvar) : bool :=
  match v_clazz v with Some cl => has_meta u cl | None => true end
  && forallb (fun t => match t with TClass cl => has_meta u cl | _ => true end) (v_types v).
Definition closed (u : universe) : bool :=
  forallb (fun cm => forallb (var_closed u) (deep_vars (snd cm))) (u_metas u)
  && forallb (fun ql => forallb (has_meta u) (snd ql)) (u_xsi u).
Definition universe_ok (u : universe) : bool :=
  forallb (fun cm => meta_ok (snd cm)) (u_metas u) && closed u.
Definition root_ok (u : universe) (root : option cls) : bool :=
  match root with Some r => has_meta u r | None => true end.

(* ================================================================ list / assoc helpers *)
Lemma assoc_In {A} k (l : list (str * A)) v : assoc k l = Some v -> In v (map snd l).
Proof.
  induction l as [|[k' x] l IH]; cbn [assoc map snd]; [discriminate|].
  destruct (str_eqb k k'); [intros H; injection H as ->; left; reflexivity|intros H; right; exact (IH H)].
Qed.
Lemma assoc_In_pair {A} k (l : list (str * A)) v : assoc k l = Some v -> exists k', In (k', v) l.
Proof.
  induction l as [|[k' x] l IH]; cbn [assoc]; [discriminate|].
  destruct (str_eqb k k'); [intros H; injection H as ->; exists k'; left; reflexivity|].
  intros H. destruct (IH H) as [k2 H2]. exists k2. right. exact H2.
Qed.
Lemma assocN_In {A} k (l : list (N * A)) v : assocN k l = Some v -> In (k, v) l.
Proof.
  induction l as [|[k' x] l IH]; cbn [assocN]; [discriminate|].
  destruct (N.eqb_spec k k') as [->|Hne]; [intros H; injection H as ->; left; reflexivity|intros H; right; exact (IH H)].
Qed.

Lemma In_insert v x l : In x (insert_by_index v l) <-> x = v \/ In x l.
Proof.
  induction l as [|y l IH]; cbn [insert_by_index].
  - cbn. intuition.
  - destruct (v_index v <=? v_index y)%N; cbn [In]; [intuition|]. rewrite IH. intuition.
Qed.
Lemma In_sort x l : In x (sort_by_index l) <-> In x l.
Proof.
  unfold sort_by_index. induction l as [|y l IH]; cbn [fold_right]; [reflexivity|].
  rewrite In_insert, IH. cbn [In]. intuition.
Qed.

Section Membership.
  Variable m : xmeta.

  Lemma deep_top v :
    In v (m_wildcards m ++ m_choices m ++ m_any_attributes m ++ map snd (m_attributes m)
          ++ flat_map snd (m_elements m) ++ match m_text m with Some t => [t] | None => [] end) ->
    In v (deep_vars m).
  Proof. intros H. unfold deep_vars, get_all_vars. apply in_or_app. left. apply In_sort. exact H. Qed.

  Lemma deep_attr q v : find_attribute m q = Some v -> In v (deep_vars m).
  Proof.
    intros H. apply deep_top. apply assoc_In in H.
    apply in_or_app; right. apply in_or_app; right. apply in_or_app; right. apply in_or_app; left. exact H.
  Qed.
  Lemma deep_any_attr q v : find_any_attributes m q = Some v -> In v (deep_vars m).
  Proof.
    intros H. apply deep_top. apply find_some in H as [H _].
    apply in_or_app; right. apply in_or_app; right. apply in_or_app; left. exact H.
  Qed.
  Lemma deep_text v : m_text m = Some v -> In v (deep_vars m).
  Proof.
    intros H. apply deep_top. rewrite H.
    do 5 (apply in_or_app; right). left. reflexivity.
  Qed.
  Lemma deep_any_wild v : find_any_wildcard m = Some v -> In v (deep_vars m).
  Proof.
    intros H. apply deep_top. unfold find_any_wildcard in H.
    destruct (m_wildcards m) as [|w r]; [discriminate|]. injection H as ->. left. reflexivity.
  Qed.

  Lemma find_choice_In ch q x : find_choice ch q = Some x -> In x (map snd (v_elements ch) ++ v_wildcards ch).
  Proof.
    unfold find_choice. destruct (assoc q (v_elements ch)) as [y|] eqn:H.
    - intros E. injection E as <-. apply in_or_app. left. exact (assoc_In _ _ _ H).
    - intros E. apply find_some in E as [E _]. apply in_or_app. right. exact E.
  Qed.

  Lemma deep_choice ch x :
    In ch (m_choices m ++ m_wildcards m) -> In x (map snd (v_elements ch) ++ v_wildcards ch) -> In x (deep_vars m).
  Proof.
    intros Hc Hx. unfold deep_vars. apply in_or_app. right. apply in_flat_map. exists ch. split; assumption.
  Qed.

  Lemma deep_children q v : In v (find_children m q) -> In v (deep_vars m).
  Proof.
    unfold find_children. intros H. apply in_app_or in H as [H|H].
    - destruct (assoc q (m_elements m)) as [l|] eqn:Ha; [|destruct H].
      apply deep_top. do 4 (apply in_or_app; right). apply in_or_app; left.
      apply in_flat_map. destruct (assoc_In_pair _ _ _ Ha) as [k Hk]. exists (k, l). split; [exact Hk|exact H].
    - apply in_app_or in H as [H|H].
      + apply in_flat_map in H as [ch [Hch Hx]].
        destruct (find_choice ch q) as [x|] eqn:Hf; [|destruct Hx]. destruct Hx as [<-|[]].
        apply (deep_choice ch x); [apply in_or_app; left; exact Hch|exact (find_choice_In _ _ _ Hf)].
      + unfold find_wildcard in H. destruct (find_by_namespace (m_wildcards m) q) as [w|] eqn:Hw; [|destruct H].
        apply find_some in Hw as [Hw _].
        assert (Hdw : In w (deep_vars m)) by (apply deep_top; apply in_or_app; left; exact Hw).
        destruct (v_elements w) as [|e es] eqn:He.
        * destruct H as [<-|[]]. exact Hdw.
        * destruct (find_choice w q) as [x|] eqn:Hf.
          -- destruct H as [<-|[]]. apply (deep_choice w x); [apply in_or_app; right; exact Hw|exact (find_choice_In _ _ _ Hf)].
          -- destruct H as [<-|[]]. exact Hdw.
  Qed.

  (* kinds *)
  Hypothesis Hk : kinds_ok m = true.

  Lemma kinds_split :
    forallb (fun kv => v_is KAttribute (snd kv)) (m_attributes m) = true
    /\ forallb (v_is KAttributes) (m_any_attributes m) = true
    /\ match m_text m with Some t => v_is KText t | None => true end = true
    /\ forallb (fun kv => forallb (v_is KElement) (snd kv)) (m_elements m) = true
    /\ forallb (v_is KWildcard) (m_wildcards m) = true
    /\ forallb (fun ch => forallb (fun kv => elemish (snd kv)) (v_elements ch) && forallb elemish (v_wildcards ch))
               (m_choices m ++ m_wildcards m) = true.
  Proof.
    unfold kinds_ok in Hk. repeat (apply andb_true_iff in Hk as [Hk ?]). repeat split; assumption.
  Qed.

  Lemma v_is_kind k v : v_is k v = true -> v_kind v = k.
  Proof. unfold v_is. destruct k, (v_kind v); try discriminate; reflexivity. Qed.

  Lemma kind_attr q v : find_attribute m q = Some v -> v_kind v = KAttribute.
  Proof.
    intros H. destruct kinds_split as [H1 _]. destruct (assoc_In_pair _ _ _ H) as [k Hin].
    rewrite forallb_forall in H1. exact (v_is_kind _ _ (H1 _ Hin)).
  Qed.
  Lemma kind_any_attr q v : find_any_attributes m q = Some v -> v_kind v = KAttributes.
  Proof.
    intros H. destruct kinds_split as [_ [H1 _]]. apply find_some in H as [H _].
    rewrite forallb_forall in H1. exact (v_is_kind _ _ (H1 _ H)).
  Qed.
  Lemma kind_text v : m_text m = Some v -> v_kind v = KText.
  Proof. intros H. destruct kinds_split as [_ [_ [H1 _]]]. rewrite H in H1. exact (v_is_kind _ _ H1). Qed.
  Lemma kind_any_wild v : find_any_wildcard m = Some v -> v_kind v = KWildcard.
  Proof.
    intros H. destruct kinds_split as [_ [_ [_ [_ [H1 _]]]]]. unfold find_any_wildcard in H.
    destruct (m_wildcards m) as [|w r]; [discriminate|]. injection H as ->.
    cbn [forallb] in H1. apply andb_true_iff in H1 as [H1 _]. exact (v_is_kind _ _ H1).
  Qed.

  Lemma elemish_choice ch x :
    In ch (m_choices m ++ m_wildcards m) -> In x (map snd (v_elements ch) ++ v_wildcards ch) -> elemish x = true.
  Proof.
    intros Hc Hx. destruct kinds_split as [_ [_ [_ [_ [_ H1]]]]].
    rewrite forallb_forall in H1. specialize (H1 _ Hc). apply andb_true_iff in H1 as [Ha Hb].
    apply in_app_or in Hx as [Hx|Hx].
    - apply in_map_iff in Hx as [[k y] [<- Hy]]. rewrite forallb_forall in Ha. exact (Ha _ Hy).
    - rewrite forallb_forall in Hb. exact (Hb _ Hx).
  Qed.

  Lemma kind_children q v : In v (find_children m q) -> elemish v = true.
  Proof.
    destruct kinds_split as [_ [_ [_ [He [Hw _]]]]].
    unfold find_children. intros H. apply in_app_or in H as [H|H].
    - destruct (assoc q (m_elements m)) as [l|] eqn:Ha; [|destruct H].
      destruct (assoc_In_pair _ _ _ Ha) as [k Hkl]. rewrite forallb_forall in He. specialize (He _ Hkl). cbn [snd] in He.
      rewrite forallb_forall in He. unfold elemish. rewrite (He _ H). reflexivity.
    - apply in_app_or in H as [H|H].
      + apply in_flat_map in H as [ch [Hch Hx]].
        destruct (find_choice ch q) as [x|] eqn:Hf; [|destruct Hx]. destruct Hx as [<-|[]].
        apply (elemish_choice ch x); [apply in_or_app; left; exact Hch|exact (find_choice_In _ _ _ Hf)].
      + unfold find_wildcard in H. destruct (find_by_namespace (m_wildcards m) q) as [w|] eqn:Hfw; [|destruct H].
        apply find_some in Hfw as [Hfw _].
        assert (Hew : elemish w = true).
        { rewrite forallb_forall in Hw. unfold elemish. rewrite (Hw _ Hfw). apply orb_true_r. }
        destruct (v_elements w) as [|e es] eqn:Hel.
        * destruct H as [<-|[]]. exact Hew.
        * destruct (find_choice w q) as [x|] eqn:Hf.
          -- destruct H as [<-|[]]. apply (elemish_choice w x); [apply in_or_app; right; exact Hfw|exact (find_choice_In _ _ _ Hf)].
          -- destruct H as [<-|[]]. exact Hew.
  Qed.
End Membership.

(* ================================================================ node construction (start events) *)
Lemma last_error_In {A} (l : list A) x : last_error l = Some x -> In x l.
Proof.
  induction l as [|y l IH]; [discriminate|]. cbn [last_error]. destruct l as [|z l'].
  - intros H. injection H as ->. left. reflexivity.
  - intros H. right. exact (IH H).
Qed.

Definition node_inv (u : universe) (n : node) : Prop :=
  match n with
  | NElement en => exists cl, In (cl, en_meta en) (u_metas u)
  | _ => True
  end.
Definition built_ok (u : universe) (n : node) : Prop :=
  node_inv u n /\ match n with NWrapper _ | NSkip => False | _ => True end.

Section Build.
  Variable cfg : pconfig.
  Variable c : conv.
  Variable u : universe.
  Hypothesis Hu : universe_ok u = true.

  Definition meta_in (m : xmeta) : Prop := exists cl, In (cl, m) (u_metas u).

  Lemma has_meta_get cl : has_meta u cl = true -> exists m, get_meta u cl = ROk m /\ meta_in m.
  Proof.
    unfold has_meta, get_meta, u_meta. destruct (assocN cl (u_metas u)) as [m|] eqn:H; [|discriminate].
    intros _. exists m. split; [reflexivity|]. exists cl. exact (assocN_In _ _ _ H).
  Qed.

  Lemma meta_in_ok m : meta_in m -> meta_ok m = true.
  Proof.
    intros [cl H]. unfold universe_ok in Hu. apply andb_true_iff in Hu as [H1 _].
    rewrite forallb_forall in H1. exact (H1 _ H).
  Qed.

  Lemma meta_in_closed m v : meta_in m -> In v (deep_vars m) -> var_closed u v = true.
  Proof.
    intros [cl H] Hv. unfold universe_ok in Hu. apply andb_true_iff in Hu as [_ H2].
    unfold closed in H2. apply andb_true_iff in H2 as [H2 _].
    rewrite forallb_forall in H2. specialize (H2 _ H). cbn [snd] in H2.
    rewrite forallb_forall in H2. exact (H2 _ Hv).
  Qed.

  Lemma xsi_types_closed q cl : In cl (ctx_find_types c u q) -> has_meta u cl = true.
  Proof.
    unfold ctx_find_types. destruct (c_from_qname c q); [intros []|].
    unfold find_types. destruct (assoc q (u_xsi u)) as [l|] eqn:H; [|intros []].
    intros Hin. unfold universe_ok in Hu. apply andb_true_iff in Hu as [_ H2].
    unfold closed in H2. apply andb_true_iff in H2 as [_ H2].
    destruct (assoc_In_pair _ _ _ H) as [k Hk].
    rewrite forallb_forall in H2. specialize (H2 _ Hk). cbn [snd] in H2.
    rewrite forallb_forall in H2. exact (H2 _ Hin).
  Qed.

  Lemma ctx_find_type_closed q cl : ctx_find_type c u q = Some cl -> has_meta u cl = true.
  Proof. unfold ctx_find_type. intros H. apply (xsi_types_closed q). exact (last_error_In _ _ H). Qed.

  Lemma fetch_ok cl xt : has_meta u cl = true -> exists m, fetch c u cl xt = ROk m /\ meta_in m.
  Proof.
    intros H. destruct (has_meta_get cl H) as [m [Hm Hin]]. unfold fetch. rewrite Hm. cbn [rbind].
    destruct (truthy_str xt) as [x|]; [|eauto].
    destruct (ostr_eqb (m_target_qname m) (Some x)); [eauto|].
    destruct (find_subclass c u cl x) as [sub|] eqn:Hs; [|eauto].
    unfold find_subclass in Hs. apply find_some in Hs as [Hs _].
    destruct (has_meta_get sub (xsi_types_closed x sub Hs)) as [m2 [Hm2 Hin2]]. eauto.
  Qed.

  Lemma xsi_type_safe attrs ns : xsi_ok_at c attrs ns = true -> rsafe (xsi_type_of c attrs ns).
  Proof.
    unfold xsi_ok_at. destruct (xsi_type_of c attrs ns) as [x|k] eqn:E; [intros _; exact I|].
    unfold xsi_type_of in E. destruct (truthy_str (assoc XSI_TYPE attrs)) as [s|]; [|discriminate].
    destruct (c_deser c [TQName] None ns s) as [[s0|z|b|r|s0|b|s0|e mb|t s0]|]; try (injection E as <-; intros H; try discriminate H; reflexivity).
    destruct s0; [injection E as <-; reflexivity|discriminate].
  Qed.

  Lemma build_element_node_ok p cl d nl attrs ns pos df xt xn :
    has_meta u cl = true ->
    match build_element_node c u p cl d nl attrs ns pos df xt xn with
    | ROk None => True
    | ROk (Some n) => built_ok u n
    | RErr k => documented k = true
    end.
  Proof.
    intros H. unfold build_element_node. destruct (fetch_ok cl xt H) as [m [-> Hin]]. cbn [rbind].
    destruct (match xn with Some b => negb (Bool.eqb (nl || m_nillable m) b) | None => false end); [exact I|].
    split; [exact Hin|exact I].
  Qed.

  Lemma filter_candidates_ok attrs l :
    (forall cl, In (TClass cl) l -> has_meta u cl = true) ->
    exists l', filter_candidates c u attrs l = ROk l'.
  Proof.
    induction l as [|t l IH]; intros H; cbn [filter_candidates]; [eauto|].
    assert (Hf : exists b, filter_fixed_attrs c u attrs t = ROk b).
    { unfold filter_fixed_attrs. destruct t as [ | | | | | | | | | | | | |e|cl]; eauto.
      destruct (has_meta_get cl (H cl (or_introl eq_refl))) as [m [-> _]]. cbn [rbind]. eauto. }
    destruct Hf as [b ->]. cbn [rbind].
    destruct IH as [l' ->]; [intros cl Hc; apply H; right; exact Hc|]. cbn [rbind]. eauto.
  Qed.

  Lemma build_node_ok parent q var attrs ns pos :
    xsi_ok_at c attrs ns = true ->
    var_closed u var = true ->
    match build_node c u parent q var attrs ns pos with
    | ROk None => True
    | ROk (Some n) => built_ok u n
    | RErr k => documented k = true
    end.
  Proof.
    intros Hxo Hc. unfold var_closed in Hc. apply andb_true_iff in Hc as [Hcl Hty].
    unfold build_node. destruct (v_is_clazz_union var).
    - destruct (filter_candidates_ok attrs (v_types var)) as [l' ->].
      { intros cl Hin. rewrite forallb_forall in Hty. exact (Hty _ Hin). }
      cbn [rbind]. split; exact I.
    - pose proof (xsi_type_safe attrs ns Hxo) as Hx.
      destruct (xsi_type_of c attrs ns) as [xt|k]; cbn [rbind]; [|exact Hx].
      destruct (v_clazz var) as [cl|].
      + apply build_element_node_ok. exact Hcl.
      + destruct (negb (v_any_type var) && negb (v_is KWildcard var)); [split; exact I|].
        destruct (match xt with Some x => c_from_qname c x | None => None end) as [[[ty fmt] wr]|] eqn:Hdt.
        * split; exact I.
        * set (cl1 := match xt with Some x => ctx_find_type c u x | None => None end).
          assert (H1 : forall cl, cl1 = Some cl -> has_meta u cl = true).
          { intros cl. unfold cl1. destruct xt as [x|]; [|discriminate]. apply ctx_find_type_closed. }
          destruct cl1 as [cl|] eqn:Hcl1.
          -- pose proof (build_element_node_ok parent cl (v_is KWildcard var) (v_nillable var) attrs ns pos true xt
                           (xsi_nil_of attrs) (H1 cl eq_refl)) as Hb.
             destruct (build_element_node c u parent cl (v_is KWildcard var) (v_nillable var) attrs ns pos true xt (xsi_nil_of attrs))
               as [[n|]|k]; cbn [rbind]; [exact Hb| |exact Hb].
             set (cl2 := if negb (str_eqb (v_process_contents var) s_skip) then ctx_find_type c u q else Some cl).
             assert (H2 : forall cl', cl2 = Some cl' -> has_meta u cl' = true).
             { intros cl'. unfold cl2. destruct (negb (str_eqb (v_process_contents var) s_skip)).
               - apply ctx_find_type_closed.
               - intros E. injection E as <-. exact (H1 cl eq_refl). }
             destruct cl2 as [cl'|]; cbn [rbind]; [|split; exact I].
             pose proof (build_element_node_ok parent cl' false (v_nillable var) attrs ns pos false xt
                           (xsi_nil_of attrs) (H2 cl' eq_refl)) as Hb2.
             destruct (build_element_node c u parent cl' false (v_nillable var) attrs ns pos false xt (xsi_nil_of attrs))
               as [[n|]|k]; [exact Hb2|split; exact I|exact Hb2].
          -- cbn [rbind].
             set (cl2 := if negb (str_eqb (v_process_contents var) s_skip) then ctx_find_type c u q else None).
             assert (H2 : forall cl', cl2 = Some cl' -> has_meta u cl' = true).
             { intros cl'. unfold cl2. destruct (negb (str_eqb (v_process_contents var) s_skip)); [|discriminate].
               apply ctx_find_type_closed. }
             destruct cl2 as [cl'|]; cbn [rbind]; [|split; exact I].
             pose proof (build_element_node_ok parent cl' false (v_nillable var) attrs ns pos false xt
                           (xsi_nil_of attrs) (H2 cl' eq_refl)) as Hb2.
             destruct (build_element_node c u parent cl' false (v_nillable var) attrs ns pos false xt (xsi_nil_of attrs))
               as [[n|]|k]; [exact Hb2|split; exact I|exact Hb2].
  Qed.

  Lemma child_loop_ok en q attrs ns pos w vars :
    xsi_ok_at c attrs ns = true ->
    (forall v, In v vars -> var_closed u v = true) ->
    match child_loop c u en q attrs ns pos w vars with
    | ROk None => True
    | ROk (Some (n, en2)) => built_ok u n /\ en_meta en2 = en_meta en
    | RErr k => documented k = true
    end.
  Proof.
    intros Hxo. induction vars as [|var rest IH]; intros H; cbn [child_loop]; [exact I|].
    assert (Hr : forall v, In v rest -> var_closed u v = true) by (intros v0 Hv; apply H; right; exact Hv).
    destruct (wrapper_mismatch w var); [exact (IH Hr)|].
    set (unique := if v_is KElement var && negb (v_list_element var) then v_index var else 0%N).
    destruct ((unique =? 0)%N || negb (existsb (N.eqb unique) (en_assigned en))); [|exact (IH Hr)].
    pose proof (build_node_ok en q var attrs ns pos Hxo (H var (or_introl eq_refl))) as Hb.
    destruct (build_node c u en q var attrs ns pos) as [[n|]|k]; cbn [rbind]; [|exact (IH Hr)|exact Hb].
    split; [exact Hb|]. destruct (unique =? 0)%N; destruct (truthy_str w); reflexivity.
  Qed.

  Lemma element_child_ok en q attrs ns pos w :
    xsi_ok_at c attrs ns = true ->
    meta_in (en_meta en) ->
    match element_child cfg c u en q attrs ns pos w with
    | ROk (n, en2) => (built_ok u n \/ n = NSkip) /\ en_meta en2 = en_meta en
    | RErr k => documented k = true
    end.
  Proof.
    intros Hxo Hm. unfold element_child.
    pose proof (child_loop_ok en q attrs ns pos w (find_children (en_meta en) q) Hxo) as H.
    destruct (child_loop c u en q attrs ns pos w (find_children (en_meta en) q)) as [[[n en2]|]|k]; cbn [rbind].
    - destruct H as [H1 H2]; [|split; [left; exact H1|exact H2]].
      intros v Hv. apply (meta_in_closed (en_meta en)); [exact Hm|]. exact (deep_children _ _ _ Hv).
    - destruct (fail_unknown_props cfg); [reflexivity|]. split; [right; reflexivity|reflexivity].
    - apply H. intros v Hv. apply (meta_in_closed (en_meta en)); [exact Hm|]. exact (deep_children _ _ _ Hv).
  Qed.
End Build.

(* ================================================================ binding (end events) *)
Section BindSafe.
  Variable cfg : pconfig.
  Variable c : conv.

  Lemma map_res_deser_err tys fmt ns l k :
    map_res (deser c tys fmt ns) l = RErr k -> k = ConverterError.
  Proof.
    induction l as [|x l IH]; cbn [map_res]; [discriminate|].
    unfold deser at 1. destruct (c_deser c tys fmt ns x); cbn [rbind].
    - destruct (map_res (deser c tys fmt ns) l); cbn [rbind]; [discriminate|].
      intros H. injection H as <-. apply IH. reflexivity.
    - intros H. injection H as <-. reflexivity.
  Qed.

  Lemma parse_value_err txt tys d ns tf fmt k :
    parse_value c txt tys d ns tf fmt = RErr k -> k = ConverterError.
  Proof.
    unfold parse_value. destruct txt as [s|]; [|discriminate]. destruct tf as [f|].
    - destruct (map_res (deser c tys fmt ns) (split_ws py_isspace s)) eqn:H; cbn [rbind]; [discriminate|].
      intros E. injection E as <-. exact (map_res_deser_err _ _ _ _ _ H).
    - unfold deser. destruct (c_deser c tys fmt ns s); [discriminate|]. intros E. injection E as <-. reflexivity.
  Qed.

  Lemma parse_var_safe failc m var txt ns tys fmt : rsafe (parse_var c failc m var txt ns tys fmt).
  Proof.
    unfold parse_var.
    destruct (parse_value c txt _ (v_default var) ns (v_tokens_factory var) _) as [x|k] eqn:H; [exact I|].
    rewrite (parse_value_err _ _ _ _ _ _ _ H). destruct failc; [reflexivity|exact I].
  Qed.

  Lemma validate_fixed_safe var x : rsafe (validate_fixed c var x).
  Proof.
    unfold validate_fixed.
    destruct (match default_call (v_default var), x with
              | VP (PFloat a), VP (PFloat b) => str_eqb a s_nan && str_eqb b s_nan
              | VP (PStr a), VP (PStr b) => str_eqb (py_strip a) (py_strip b)
              | _, _ => false end); [exact I|].
    destruct (value_eqb _ x); [exact I|reflexivity].
  Qed.

  (* ---------------------------------------------------------------- params *)
  Lemma In_pset n v p k x : In (k, x) (pset n v p) -> (k = n /\ x = v) \/ In (k, x) p.
  Proof.
    induction p as [|[k0 x0] p IH]; cbn [pset].
    - intros [H|[]]. injection H as <- <-. left. split; reflexivity.
    - destruct (str_eqb_spec n k0) as [->|Hne].
      + intros [H|H]; [injection H as <- <-; left; split; reflexivity|right; right; exact H].
      + intros [H|H]; [right; left; exact H|]. destruct (IH H) as [E|E]; [left; exact E|right; right; exact E].
  Qed.

  Lemma pget_In n p pv : pget n p = Some pv -> In (n, pv) p.
  Proof.
    unfold pget. induction p as [|[k0 x0] p IH]; cbn [assoc]; [discriminate|].
    destruct (str_eqb_spec n k0) as [->|Hne]; [intros H; injection H as ->; left; reflexivity|].
    intros H. right. exact (IH H).
  Qed.

  Lemma pget_pset_same n v p : pget n (pset n v p) = Some v.
  Proof.
    unfold pget. induction p as [|[k0 x0] p IH]; cbn [pset assoc].
    - rewrite str_eqb_refl. reflexivity.
    - destruct (str_eqb n k0) eqn:E; cbn [assoc]; rewrite E; [reflexivity|exact IH].
  Qed.

  Variable m : xmeta.
  Hypothesis Hm : meta_ok m = true.

  Lemma m_kinds : kinds_ok m = true.
  Proof. unfold meta_ok in Hm. apply andb_true_iff in Hm as [H _]. exact H. Qed.
  Lemma m_names : names_ok m = true.
  Proof. unfold meta_ok in Hm. apply andb_true_iff in Hm as [_ H]. exact H. Qed.

  Definition shape (r : N) (pv : pval) : Prop :=
    match r with
    | 0%N => exists v, pv = PV v
    | 1%N => (exists l f, pv = PPend l f) \/ (exists l, pv = PV (VList false l))
    | _ => exists mp, pv = PV (VMap mp)
    end.

  Definition PInv (p : params) : Prop :=
    forall n pv, In (n, pv) p ->
      exists var, In var (deep_vars m) /\ v_name var = n /\ shape (var_role var) pv.

  Lemma PInv_nil : PInv [].
  Proof. intros n pv []. Qed.

  Lemma PInv_pset p var pv :
    PInv p -> In var (deep_vars m) -> shape (var_role var) pv ->
    PInv (pset (v_name var) pv p).
  Proof.
    intros Hp Hv Hs n x Hin. destruct (In_pset _ _ _ _ _ Hin) as [[-> ->]|H]; [|exact (Hp _ _ H)].
    exists var. repeat split; assumption.
  Qed.

  Lemma role_eq v w : In v (deep_vars m) -> In w (deep_vars m) -> v_name v = v_name w -> var_role v = var_role w.
  Proof.
    intros Hv Hw Hn. pose proof m_names as H. unfold names_ok in H.
    rewrite forallb_forall in H. specialize (H _ Hv). rewrite forallb_forall in H. specialize (H _ Hw).
    rewrite Hn, str_eqb_refl in H. cbn [negb orb] in H. apply N.eqb_eq. exact H.
  Qed.

  Lemma stored_shape p var pv :
    PInv p -> In var (deep_vars m) -> pget (v_name var) p = Some pv -> shape (var_role var) pv.
  Proof.
    intros Hp Hv Hg. destruct (Hp _ _ (pget_In _ _ _ Hg)) as [w [Hw [Hn Hs]]].
    rewrite (role_eq var w Hv Hw (eq_sym Hn)). exact Hs.
  Qed.

  Lemma coll_append_ok var f x p :
    PInv p -> In var (deep_vars m) -> var_role var = 1%N ->
    exists p', coll_append (v_name var) f x p = ROk p' /\ PInv p'.
  Proof.
    intros Hp Hv Hr. unfold coll_append.
    assert (Hnew : forall pv, shape 1 pv -> PInv (pset (v_name var) pv p)).
    { intros pv Hs. apply PInv_pset; try assumption. rewrite Hr. exact Hs. }
    destruct (pget (v_name var) p) as [pv|] eqn:Hg.
    - pose proof (stored_shape p var pv Hp Hv Hg) as Hs. rewrite Hr in Hs.
      destruct Hs as [[l [g ->]]|[l ->]].
      + eexists. split; [reflexivity|]. apply Hnew. left. eauto.
      + eexists. split; [reflexivity|]. apply Hnew. right. eauto.
    - eexists. split; [reflexivity|]. apply Hnew. left. eauto.
  Qed.

  Lemma coll_insert0_ok var f x p :
    PInv p -> In var (deep_vars m) -> var_role var = 1%N ->
    exists p', coll_insert0 (v_name var) f x p = ROk p' /\ PInv p'.
  Proof.
    intros Hp Hv Hr. unfold coll_insert0.
    assert (Hnew : forall pv, shape 1 pv -> PInv (pset (v_name var) pv p)).
    { intros pv Hs. apply PInv_pset; try assumption. rewrite Hr. exact Hs. }
    destruct (pget (v_name var) p) as [pv|] eqn:Hg.
    - pose proof (stored_shape p var pv Hp Hv Hg) as Hs. rewrite Hr in Hs.
      destruct Hs as [[l [g ->]]|[l ->]].
      + eexists. split; [reflexivity|]. apply Hnew. left. eauto.
      + eexists. split; [reflexivity|]. apply Hnew. right. eauto.
    - eexists. split; [reflexivity|]. apply Hnew. left. eauto.
  Qed.

  Lemma role_elemish var : elemish var = true -> var_role var = if v_list_element var then 1%N else 0%N.
  Proof.
    unfold elemish, var_role, v_is. destruct (v_kind var); cbn; try discriminate; reflexivity.
  Qed.

  (* ---------------------------------------------------------------- attributes *)
  Variable en : enode.
  Hypothesis Hen : en_meta en = m.

  Lemma bind_attr_ok q var sval p :
    find_attribute m q = Some var -> PInv p ->
    match bind_attr cfg c en var sval p with
    | ROk r => PInv (fst r)
    | RErr k => documented k = true
    end.
  Proof.
    intros Hf Hp. unfold bind_attr.
    pose proof (parse_var_safe (fail_conv_warnings cfg) (en_meta en) var (Some sval) (en_ns en) None None) as Hs.
    destruct (parse_var c (fail_conv_warnings cfg) (en_meta en) var (Some sval) (en_ns en) None None) as [[v ws]|k];
      cbn [rbind]; [|exact Hs].
    destruct (v_init var) eqn:Hi.
    - cbn [fst]. apply PInv_pset; [exact Hp|exact (deep_attr m q var Hf)|].
      unfold var_role. rewrite (kind_attr m m_kinds q var Hf). cbn. eauto.
    - pose proof (validate_fixed_safe var v) as Hv.
      destruct (validate_fixed c var v); cbn [rbind fst]; [exact Hp|exact Hv].
  Qed.

  Lemma bind_any_attr_ok q var sval p :
    find_any_attributes m q = Some var -> PInv p ->
    exists p', bind_any_attr en var q sval p = ROk p' /\ PInv p'.
  Proof.
    intros Hf Hp. unfold bind_any_attr.
    pose proof (deep_any_attr m q var Hf) as Hd.
    assert (Hr : var_role var = 2%N) by (unfold var_role; rewrite (kind_any_attr m m_kinds q var Hf); reflexivity).
    assert (Hnew : forall p0 mp, PInv p0 -> PInv (pset (v_name var) (PV (VMap mp)) p0)).
    { intros p0 mp Hp0. apply PInv_pset; try assumption. rewrite Hr. cbn. eauto. }
    destruct (pmem (v_name var) p) eqn:Hmem.
    - unfold pmem in Hmem. destruct (pget (v_name var) p) as [pv|] eqn:Hg; [|unfold pget in Hg; rewrite Hg in Hmem; discriminate].
      pose proof (stored_shape p var pv Hp Hd Hg) as Hs. rewrite Hr in Hs. destruct Hs as [mp ->].
      eexists. split; [reflexivity|]. apply Hnew. exact Hp.
    - rewrite pget_pset_same. eexists. split; [reflexivity|]. apply Hnew. apply Hnew. exact Hp.
  Qed.

  Lemma bind_attrs_loop_ok attrs : forall p ws,
    PInv p ->
    match bind_attrs_loop cfg c en attrs p ws with
    | ROk r => PInv (fst r)
    | RErr k => documented k = true
    end.
  Proof.
    induction attrs as [|[q sval] attrs IH]; intros p ws Hp; cbn [bind_attrs_loop]; [exact Hp|].
    rewrite Hen.
    assert (Hother :
      match (match find_any_attributes m q with
             | Some var => rbind (bind_any_attr en var q sval p) (fun p' => bind_attrs_loop cfg c en attrs p' ws)
             | None => if fail_unknown_attrs cfg && negb (ostr_eqb (target_uri q) (Some XSI_NS)) then RErr ParserError
                       else bind_attrs_loop cfg c en attrs p ws
             end) with
      | ROk r => PInv (fst r) | RErr k => documented k = true end).
    { destruct (find_any_attributes m q) as [av|] eqn:Ha.
      - destruct (bind_any_attr_ok q av sval p Ha Hp) as [p' [-> Hp']]. cbn [rbind]. exact (IH p' ws Hp').
      - destruct (fail_unknown_attrs cfg && negb (ostr_eqb (target_uri q) (Some XSI_NS))); [reflexivity|exact (IH p ws Hp)]. }
    destruct (find_attribute m q) as [var|] eqn:Hf; [|exact Hother].
    destruct (pmem (v_name var) p); [exact Hother|].
    pose proof (bind_attr_ok q var sval p Hf Hp) as Hb.
    destruct (bind_attr cfg c en var sval p) as [r|k]; cbn [rbind]; [|exact Hb].
    exact (IH (fst r) (ws ++ snd r) Hb).
  Qed.

  (* ---------------------------------------------------------------- children *)
  Lemma bind_var_ok var v p :
    In var (deep_vars m) -> elemish var = true -> PInv p ->
    exists r, bind_var var v p = ROk r /\ PInv (snd r).
  Proof.
    intros Hd He Hp. unfold bind_var. destruct (v_init var) eqn:Hi; [|eexists; split; [reflexivity|exact Hp]].
    pose proof (role_elemish var He) as Hr.
    destruct (v_list_element var).
    - destruct (coll_append_ok var (v_factory var) v p Hp Hd Hr) as [p' [-> Hp']]. cbn [rbind].
      eexists. split; [reflexivity|exact Hp'].
    - destruct (pmem (v_name var) p); [eexists; split; [reflexivity|exact Hp]|].
      eexists. split; [reflexivity|]. cbn [snd]. apply PInv_pset; try assumption. rewrite Hr. cbn. eauto.
  Qed.

  Lemma bind_wild_var_ok var q v p :
    In var (deep_vars m) -> v_is KWildcard var = true -> PInv p ->
    exists p', bind_wild_var c var q v p = ROk p' /\ PInv p'.
  Proof.
    intros Hd Hw Hp. unfold bind_wild_var.
    assert (He : elemish var = true) by (unfold elemish; rewrite Hw; apply orb_true_r).
    pose proof (role_elemish var He) as Hr.
    destruct (v_list_element var).
    - exact (coll_append_ok var (v_factory var) _ p Hp Hd Hr).
    - assert (Hnew : forall x, PInv (pset (v_name var) (PV x) p)).
      { intros x. apply PInv_pset; try assumption. rewrite Hr. cbn. eauto. }
      destruct (pget (v_name var) p) as [pv|] eqn:Hg; [|eexists; split; [reflexivity|apply Hnew]].
      pose proof (stored_shape p var pv Hp Hd Hg) as Hs. rewrite Hr in Hs. destruct Hs as [prev ->].
      destruct prev as [ |pp|t l|cl fs|[[|x0 xs]|] t tl at_ ch|q0 v0 ty|mp]; eexists; (split; [reflexivity|apply Hnew]).
  Qed.

  Lemma bind_object_loop_ok wrapper q v vars : forall p,
    (forall var, In var vars -> In var (deep_vars m) /\ elemish var = true) -> PInv p ->
    exists r, bind_object_loop c wrapper q v vars p = ROk r /\ PInv (snd r).
  Proof.
    induction vars as [|var rest IH]; intros p Hv Hp; cbn [bind_object_loop].
    - eexists. split; [reflexivity|exact Hp].
    - assert (Hrest : forall x, In x rest -> In x (deep_vars m) /\ elemish x = true) by (intros x Hx; apply Hv; right; exact Hx).
      destruct (Hv var (or_introl eq_refl)) as [Hd He].
      destruct (wrapper_mismatch wrapper var); [exact (IH p Hrest Hp)|].
      destruct (v_is KWildcard var) eqn:Hw.
      + destruct (bind_wild_var_ok var q v p Hd Hw Hp) as [p' [-> Hp']]. cbn [rbind].
        eexists. split; [reflexivity|exact Hp'].
      + destruct (bind_var_ok var v p Hd He Hp) as [r [-> Hr]]. cbn [rbind].
        destruct (fst r); [eexists; split; [reflexivity|exact Hr]|exact (IH (snd r) Hrest Hr)].
  Qed.

  Lemma bind_objects_loop_ok objs : forall p wr ws,
    PInv p ->
    exists r, bind_objects_loop c m objs p wr ws = ROk r /\ PInv (fst r).
  Proof.
    induction objs as [|[q v] objs IH]; intros p wr ws Hp; cbn [bind_objects_loop].
    - eexists. split; [reflexivity|exact Hp].
    - destruct q as [qn|].
      + destruct (wrappers_pop qn wr) as [wrapper wr']. cbn [find_children_opt rbind].
        destruct (bind_object_loop_ok wrapper (Some qn) v (find_children m qn) p) as [r [-> Hr]]; [|exact Hp|].
        { intros var Hin. split; [exact (deep_children m qn var Hin)|exact (kind_children m m_kinds qn var Hin)]. }
        cbn [rbind]. exact (IH (snd r) wr' _ Hr).
      + (* a tail entry: bound by nothing *)
        assert (Hf : find_children_opt m None = ROk []).
        { unfold find_children_opt. destruct (_ || _); reflexivity. }
        rewrite Hf. cbn [rbind bind_object_loop fst snd]. exact (IH p wr _ Hp).
  Qed.

  (* ---------------------------------------------------------------- text *)
  Lemma bind_text_ok p text :
    PInv p ->
    match bind_text cfg c en p text with
    | ROk r => PInv (snd (fst r))
    | RErr k => documented k = true
    end.
  Proof.
    intros Hp. unfold bind_text. rewrite Hen. destruct (m_text m) as [var|] eqn:Ht; [|exact Hp].
    destruct (negb (is_some text) && negb (xsi_nil_true en)); [exact Hp|].
    assert (Hr : match (if xsi_nil_true en && negb (is_some (truthy_str text)) then ROk (VNone, [])
                        else parse_var c (fail_conv_warnings cfg) m var text (en_ns en) None None) with
                 | ROk _ => True | RErr k => documented k = true end).
    { destruct (xsi_nil_true en && negb (is_some (truthy_str text))); [exact I|].
      exact (parse_var_safe (fail_conv_warnings cfg) m var text (en_ns en) None None). }
    destruct (if xsi_nil_true en && negb (is_some (truthy_str text)) then ROk (VNone, [])
              else parse_var c (fail_conv_warnings cfg) m var text (en_ns en) None None) as [[v ws]|k];
      cbn [rbind]; [|exact Hr].
    destruct (v_init var) eqn:Hi.
    - cbn [fst snd]. apply PInv_pset; [exact Hp|exact (deep_text m var Ht)|].
      unfold var_role. rewrite (kind_text m m_kinds var Ht). cbn. eauto.
    - pose proof (validate_fixed_safe var v) as Hv.
      destruct (validate_fixed c var v); cbn [rbind fst snd]; [exact Hp|exact Hv].
  Qed.

  Lemma bind_wild_text_ok wv p text tail :
    find_any_wildcard m = Some wv -> PInv p ->
    exists r, bind_wild_text en wv p text tail = ROk r /\ PInv (fst r).
  Proof.
    intros Hw Hp. unfold bind_wild_text.
    pose proof (deep_any_wild m wv Hw) as Hd.
    assert (Hk : v_is KWildcard wv = true) by (unfold v_is; rewrite (kind_any_wild m m_kinds wv Hw); reflexivity).
    assert (He : elemish wv = true) by (unfold elemish; rewrite Hk; apply orb_true_r).
    pose proof (role_elemish wv He) as Hr.
    assert (Hmain : exists r, (if v_list_element wv
              then rbind (coll_insert0 (v_name wv) (v_factory wv) (raw_value (normalize_content text)) p) (fun p' => ROk (p', false))
              else match pget (v_name wv) p with
                   | Some (PPend _ _) => RErr ModelGap
                   | Some (PV prev) =>
                       ROk (pset (v_name wv) (PV (VAny None (normalize_content text) (normalize_content tail)
                                 (parse_any_attributes (en_attrs en) (en_ns en)) (if truthy prev then [prev] else []))) p, true)
                   | None => ROk (pset (v_name wv) (PV (VAny None (normalize_content text) (normalize_content tail)
                                 (parse_any_attributes (en_attrs en) (en_ns en)) [])) p, true)
                   end) = ROk r /\ PInv (fst r)).
    { destruct (v_list_element wv).
      - destruct (coll_insert0_ok wv (v_factory wv) (raw_value (normalize_content text)) p Hp Hd Hr) as [p' [-> Hp']].
        cbn [rbind]. eexists. split; [reflexivity|exact Hp'].
      - assert (Hnew : forall x, PInv (pset (v_name wv) (PV x) p)).
        { intros x. apply PInv_pset; try assumption. rewrite Hr. cbn. eauto. }
        destruct (pget (v_name wv) p) as [pv|] eqn:Hg; [|eexists; split; [reflexivity|apply Hnew]].
        pose proof (stored_shape p wv pv Hp Hd Hg) as Hs. rewrite Hr in Hs. destruct Hs as [prev ->].
        eexists. split; [reflexivity|apply Hnew]. }
    destruct (normalize_content text); [exact Hmain|].
    destruct (normalize_content tail); [exact Hmain|].
    eexists. split; [reflexivity|exact Hp].
  Qed.
End BindSafe.

Lemma map_res_safe {A B} (f : A -> res B) l : (forall x, In x l -> rsafe (f x)) -> rsafe (map_res f l).
Proof.
  induction l as [|x l IH]; intros H; cbn [map_res]; [exact I|].
  pose proof (H x (or_introl eq_refl)) as Hx. destruct (f x) as [y|k]; cbn [rbind]; [|exact Hx].
  assert (Hl : rsafe (map_res f l)) by (apply IH; intros z Hz; apply H; right; exact Hz).
  destruct (map_res f l); cbn [rbind]; [exact I|exact Hl].
Qed.

Section ElementBind.
  Variable cfg : pconfig.
  Variable c : conv.

  Variable en : enode.
  Hypothesis Hm : meta_ok (en_meta en) = true.
  Local Notation m := (en_meta en).

  Lemma bind_content_ok p text tail objs :
    PInv m p ->
    match bind_content cfg c en p text tail objs with
    | ROk r => PInv m (fst (fst (fst r)))
    | RErr k => documented k = true
    end.
  Proof.
    intros Hp. unfold bind_content.
    assert (Hnormal :
      match (rbind (bind_objects_loop c m (skipn (en_position en) objs) p (en_wrappers en) [])
               (fun r => rbind (bind_text cfg c en (fst r) text)
                  (fun t => let '(bt, p', ws') := t in ROk (p', snd r ++ ws', bt)))) with
      | ROk r1 => PInv m (fst (fst r1)) | RErr k => documented k = true end).
    { destruct (bind_objects_loop_ok c m Hm (skipn (en_position en) objs) p (en_wrappers en) [])
        as [r [-> Hr]]; [exact Hp|]. cbn [rbind].
      pose proof (bind_text_ok cfg c m Hm en eq_refl (fst r) text Hr) as Ht.
      destruct (bind_text cfg c en (fst r) text) as [[[bt p'] ws']|k]; cbn [rbind]; [exact Ht|exact Ht]. }
    destruct (find_any_wildcard m) as [wv|] eqn:Hw.
    - assert (Hstep : forall r1 : params * list warning * bool,
                PInv m (fst (fst r1)) ->
                match (let '(p1, ws1, bt) := r1 in
                       if bt then ROk (p1, firstn (en_position en) objs, ws1, false)
                       else rbind (bind_wild_text en wv p1 text tail)
                              (fun r2 => ROk (fst r2, firstn (en_position en) objs, ws1, snd r2))) with
                | ROk r => PInv m (fst (fst (fst r)))
                | RErr k => documented k = true end).
      { intros [[p1 ws1] bt] H1. cbn [fst] in H1. destruct bt; [exact H1|].
        destruct (bind_wild_text_ok m Hm en wv p1 text tail Hw H1) as [r2 [-> H2]]. cbn [rbind].
        exact H2. }
      destruct (v_mixed wv).
      + cbn [rbind].
        pose proof (deep_any_wild m wv Hw) as Hd.
        assert (Hk : v_is KWildcard wv = true) by (unfold v_is; rewrite (kind_any_wild m (m_kinds m Hm) wv Hw); reflexivity).
        assert (HP : forall l, PInv m (pset (v_name wv) (PV (VList false l)) p)).
        { intros l. apply PInv_pset; [exact Hp|exact Hd|].
          rewrite (role_elemish wv) by (unfold elemish; rewrite Hk; apply orb_true_r).
          destruct (v_list_element wv); cbn; [right; eauto|eauto]. }
        exact (Hstep (_, [], false) (HP _)).
      + destruct (rbind (bind_objects_loop c m (skipn (en_position en) objs) p (en_wrappers en) []) _) as [r1|k];
          cbn [rbind]; [apply Hstep; exact Hnormal|exact Hnormal].
    - destruct (rbind (bind_objects_loop c m (skipn (en_position en) objs) p (en_wrappers en) []) _) as [[[p1 ws1] bt]|k];
        cbn [rbind]; [|exact Hnormal].
      exact Hnormal.
  Qed.

  (* cls( **params): the constructor's TypeError (missing required argument, unexpected
     keyword) is a ParserError *)
  Lemma class_factory_safe p : rsafe (class_factory cfg m p).
  Proof.
    unfold class_factory. destruct (existsb _ p); [reflexivity|].
    match goal with |- rsafe (rbind ?X _) => assert (Hs : rsafe X) end.
    { apply map_res_safe. intros v0 _.
      destruct (if v_init v0 then assoc (v_name v0) p else None); [exact I|].
      destruct (v_init v0 && existsb _ _); [reflexivity|exact I]. }
    destruct (map_res _ (get_all_vars m)); cbn [rbind]; [exact I|exact Hs].
  Qed.

  Lemma element_bind_ok q text tail objs : rsafe (element_bind cfg c en q text tail objs).
  Proof.
    unfold element_bind.
    destruct (negb (xsi_nil_true en) || m_nillable m); [|exact I].
    pose proof (bind_attrs_loop_ok cfg c m Hm en eq_refl (en_attrs en) [] [] (PInv_nil m)) as Ha.
    unfold bind_attrs. destruct (bind_attrs_loop cfg c en (en_attrs en) [] []) as [pa|k]; cbn [rbind]; [|exact Ha].
    pose proof (bind_content_ok (fst pa) text tail objs Ha) as Hc.
    destruct (bind_content cfg c en (fst pa) text tail objs) as [[[[p objs'] ws2] tp]|k]; cbn [rbind]; [|exact Hc].
    pose proof (class_factory_safe (evaluate p)) as Hf.
    destruct (class_factory cfg m (evaluate p)); cbn [rbind]; [exact I|exact Hf].
  Qed.
End ElementBind.

Section OtherBinds.
  Variable cfg : pconfig.
  Variable c : conv.

  Lemma primitive_bind_ok m var ns q text tail objs : rsafe (primitive_bind cfg c m var ns q text tail objs).
  Proof.
    unfold primitive_bind.
    pose proof (parse_var_safe c (fail_conv_warnings cfg) m var text ns None None) as Hs.
    destruct (parse_var c (fail_conv_warnings cfg) m var text ns None None) as [[obj ws]|k]; cbn [rbind]; [exact I|exact Hs].
  Qed.

  Lemma standard_bind_ok m var ty fmt wr ns nl dv q text objs :
    rsafe (standard_bind cfg c m var ty fmt wr ns nl dv q text objs).
  Proof.
    unfold standard_bind.
    pose proof (parse_var_safe c (fail_conv_warnings cfg) m var text ns (Some [ty]) fmt) as Hs.
    destruct (parse_var c (fail_conv_warnings cfg) m var text ns (Some [ty]) fmt) as [[obj ws]|k]; cbn [rbind]; [|exact Hs].
    destruct wr; exact I.
  Qed.

  Lemma union_bind_ok replay un q text tail objs : rsafe (union_bind cfg c replay un q text tail objs).
  Proof. unfold union_bind. destruct (truthy (fst _)); [exact I|reflexivity]. Qed.
End OtherBinds.

(* ================================================================ the state invariant *)
Local Open Scope nat_scope.
Fixpoint wrap_ok (Q : list node) : Prop :=
  match Q with
  | [] => True
  | NWrapper _ :: rest => (exists en r, rest = NElement en :: r) /\ wrap_ok rest
  | _ :: rest => wrap_ok rest
  end.

Fixpoint weight (Q : list node) : nat :=
  match Q with
  | [] => 0
  | NUnion un :: rest => S (un_level un + weight rest)
  | _ :: rest => S (weight rest)
  end.

Definition Inv (u : universe) (depth : nat) (st : pstate) : Prop :=
  Forall (node_inv u) (st_queue st) /\ wrap_ok (st_queue st) /\ weight (st_queue st) = depth.

Section Steps.
  Variable cfg : pconfig.
  Variable c : conv.
  Variable u : universe.
  Variable replay : pconfig -> option cls -> list pevent -> outcome.
  Variable root : option cls.
  Hypothesis Hu : universe_ok u = true.
  Hypothesis Hroot : root_ok u root = true.

  Lemma wrap_ok_tail n Q : wrap_ok (n :: Q) -> wrap_ok Q.
  Proof. destruct n; cbn [wrap_ok]; try exact (fun H => H). intros [_ H]. exact H. Qed.

  Lemma wrap_ok_push n Q : (forall q, n <> NWrapper q) -> wrap_ok Q -> wrap_ok (n :: Q).
  Proof. intros Hn H. destruct n; cbn [wrap_ok]; try exact H. exfalso. exact (Hn q eq_refl). Qed.

  Lemma weight_fresh n Q : (forall un, n = NUnion un -> un_level un = 0) -> weight (n :: Q) = S (weight Q).
  Proof. intros H. destruct n; cbn [weight]; try reflexivity. rewrite (H un eq_refl). reflexivity. Qed.

  (* nodes coming out of child(): inv, not a wrapper, a fresh union has level 0 *)
  Definition fresh_ok (n : node) : Prop :=
    node_inv u n /\ (forall q, n <> NWrapper q) /\ (forall un, n = NUnion un -> un_level un = 0).

  Lemma child_loop_fresh en q attrs ns pos w vars n en2 :
    child_loop c u en q attrs ns pos w vars = ROk (Some (n, en2)) ->
    forall un, n = NUnion un -> un_level un = 0 /\ un_events un = [].
  Proof.
    induction vars as [|var rest IH]; cbn [child_loop]; [discriminate|].
    destruct (wrapper_mismatch w var); [exact IH|].
    set (unique := if v_is KElement var && negb (v_list_element var) then v_index var else 0%N).
    destruct ((unique =? 0)%N || negb (existsb (N.eqb unique) (en_assigned en))); [|exact IH].
    destruct (build_node c u en q var attrs ns pos) as [[n0|]|k] eqn:Hb; cbn [rbind]; [|exact IH|discriminate].
    intros H un E. injection H as <- _. subst n0.
    unfold build_node in Hb. destruct (v_is_clazz_union var).
    - destruct (filter_candidates c u attrs (v_types var)); cbn [rbind] in Hb; [|discriminate].
      injection Hb as <-. split; reflexivity.
    - destruct (xsi_type_of c attrs ns) as [xt|]; cbn [rbind] in Hb; [|discriminate].
      assert (Hben : forall p cl d nl df xn un0,
                 build_element_node c u p cl d nl attrs ns pos df xt xn <> ROk (Some (NUnion un0))).
      { intros p cl d nl df xn un0. unfold build_element_node. destruct (fetch c u cl xt); cbn [rbind]; [|discriminate].
        destruct (match xn with Some b => negb (Bool.eqb (nl || m_nillable a) b) | None => false end); discriminate. }
      destruct (v_clazz var); [exfalso; exact (Hben _ _ _ _ _ _ _ Hb)|].
      destruct (negb (v_any_type var) && negb (v_is KWildcard var)); [discriminate|].
      destruct (match xt with Some x => c_from_qname c x | None => None end) as [[[ty fmt] wr]|]; [discriminate|].
      destruct (match xt with Some x => ctx_find_type c u x | None => None end) as [cl|].
      + destruct (build_element_node c u en cl (v_is KWildcard var) (v_nillable var) attrs ns pos true xt (xsi_nil_of attrs))
          as [[n1|]|k] eqn:H1; cbn [rbind] in Hb; [injection Hb as ->; exfalso; exact (Hben _ _ _ _ _ _ _ H1)| |discriminate].
        destruct (if negb (str_eqb (v_process_contents var) s_skip) then ctx_find_type c u q else Some cl) as [cl'|];
          cbn [rbind] in Hb; [|discriminate].
        destruct (build_element_node c u en cl' false (v_nillable var) attrs ns pos false xt (xsi_nil_of attrs))
          as [[n2|]|k] eqn:H2; cbn [rbind] in Hb; [injection Hb as ->; exfalso; exact (Hben _ _ _ _ _ _ _ H2)|discriminate|discriminate].
      + cbn [rbind] in Hb.
        destruct (if negb (str_eqb (v_process_contents var) s_skip) then ctx_find_type c u q else None) as [cl'|];
          cbn [rbind] in Hb; [|discriminate].
        destruct (build_element_node c u en cl' false (v_nillable var) attrs ns pos false xt (xsi_nil_of attrs))
          as [[n2|]|k] eqn:H2; cbn [rbind] in Hb; [injection Hb as ->; exfalso; exact (Hben _ _ _ _ _ _ _ H2)|discriminate|discriminate].
  Qed.

  Lemma element_child_fresh en q attrs ns pos w :
    xsi_ok_at c attrs ns = true ->
    meta_in u (en_meta en) ->
    match element_child cfg c u en q attrs ns pos w with
    | ROk r => fresh_ok (fst r) /\ en_meta (snd r) = en_meta en
    | RErr k => documented k = true
    end.
  Proof.
    intros Hxo Hm. pose proof (element_child_ok cfg c u Hu en q attrs ns pos w Hxo Hm) as H.
    destruct (element_child cfg c u en q attrs ns pos w) as [[n en2]|k] eqn:Hc; [|exact H].
    destruct H as [Hb He]. cbn [fst snd]. split; [|exact He].
    unfold element_child in Hc.
    destruct (child_loop c u en q attrs ns pos w (find_children (en_meta en) q)) as [[[n0 e0]|]|k] eqn:Hl;
      cbn [rbind] in Hc; [| |discriminate].
    - injection Hc as -> ->. destruct Hb as [[Hi Hnw'] | ->].
      + split; [exact Hi|]. split.
        * intros q0 E. subst n. exact Hnw'.
        * intros un0 E. exact (proj1 (child_loop_fresh _ _ _ _ _ _ _ _ _ Hl un0 E)).
      + split; [exact I|]. split; intros; discriminate.
    - destruct (fail_unknown_props cfg); [discriminate|]. injection Hc as <- <-.
      split; [exact I|]. split; intros; discriminate.
  Qed.

  Lemma start_ok depth st q attrs ns :
    xsi_ok_at c attrs ns = true ->
    Inv u depth st ->
    match start cfg c u root st q attrs ns with
    | ROk st' => Inv u (S depth) st'
    | RErr k => documented k = true
    end.
  Proof.
    intros Hxo [Hf [Hwr Hwt]]. unfold start.
    destruct (st_queue st) as [|n Q] eqn:Hq.
    - (* root *)
      unfold root_node. pose proof (xsi_type_safe c attrs ns Hxo) as Hx.
      destruct (xsi_type_of c attrs ns) as [xt|k]; cbn [rbind]; [|exact Hx].
      set (clazz := match root with Some r => Some r | None => _ end).
      assert (Hcl : forall cl, clazz = Some cl -> has_meta u cl = true).
      { intros cl. unfold clazz. destruct root as [r|].
        - intros E. injection E as <-. exact Hroot.
        - destruct (ctx_find_type c u q) as [t|] eqn:E1; [intros E; injection E as <-; exact (ctx_find_type_closed c u Hu q t E1)|].
          destruct xt as [x|]; [|discriminate]. apply (ctx_find_type_closed c u Hu). }
      destruct clazz as [cl|]; cbn [rbind]; [|reflexivity].
      destruct (fetch_ok c u Hu cl xt (Hcl cl eq_refl)) as [meta [-> Hin]]. cbn [rbind].
      unfold Inv, push. rewrite Hq. cbn [st_queue st_objects weight wrap_ok].
      split; [constructor; [exact Hin|constructor]|]. split; [exact I|].
      rewrite <- Hwt. reflexivity.
    - inversion Hf as [|n0 Q0 Hn HQ]; subst.
      assert (Hpush : forall n', fresh_ok n' ->
                 Inv u (S (weight (n :: Q))) (mk_pstate (n' :: n :: Q) (st_objects st) (st_warn st))).
      { intros n' [Hi [Hnw' Hlv]]. unfold Inv. cbn [st_queue st_objects].
        split; [constructor; [exact Hi|exact Hf]|]. split; [apply wrap_ok_push; assumption|].
        apply weight_fresh. exact Hlv. }
      destruct n as [en|m var ns0|m var ty fmt wr ns0 nl dv|var at_ ns0 pos|wq| |un].
      + destruct (is_some (assoc q (m_wrappers (en_meta en)))).
        * unfold Inv, push. rewrite Hq. cbn [st_queue st_objects].
          split; [constructor; [exact I|exact Hf]|]. split; [cbn [wrap_ok]; split; [eauto|exact Hwr]|].
          reflexivity.
        * pose proof (element_child_fresh en q attrs ns (length (st_objects st)) None Hxo Hn) as Hc.
          destruct (element_child cfg c u en q attrs ns (length (st_objects st)) None) as [[n' en2]|k]; cbn [rbind]; [|exact Hc].
          destruct Hc as [[Hi [Hnw' Hlv]] He]. cbn [fst snd] in *.
          unfold Inv. cbn [st_queue st_objects].
          split; [constructor; [exact Hi|constructor; [cbn [node_inv]; rewrite He; exact Hn|exact HQ]]|].
          split; [apply wrap_ok_push; [exact Hnw'|exact Hwr]|].
          rewrite weight_fresh by exact Hlv. reflexivity.
      + reflexivity.
      + reflexivity.
      + unfold push. rewrite Hq. apply (Hpush (NWildcard var attrs ns (length (st_objects st)))). split; [exact I|]. split; intros; discriminate.
      + (* wrapper: the parent is right below *)
        cbn [wrap_ok] in Hwr. destruct Hwr as [[en [r ->]] Hwr2].
        inversion HQ as [|n1 Q1 Hen HQ1]; subst.
        pose proof (element_child_fresh en q attrs ns (length (st_objects st)) (Some wq) Hxo Hen) as Hc.
        destruct (element_child cfg c u en q attrs ns (length (st_objects st)) (Some wq)) as [[n' en2]|k]; cbn [rbind]; [|exact Hc].
        destruct Hc as [[Hi [Hnw' Hlv]] He]. cbn [fst snd] in *.
        unfold Inv. cbn [st_queue st_objects].
        split; [constructor; [exact Hi|constructor; [exact I|constructor; [cbn [node_inv]; rewrite He; exact Hen|exact HQ1]]]|].
        split; [apply wrap_ok_push; [exact Hnw'|cbn [wrap_ok]; split; [eauto|exact Hwr2]]|].
        rewrite weight_fresh by exact Hlv. reflexivity.
      + unfold push. rewrite Hq. apply (Hpush NSkip). split; [exact I|]. split; intros; discriminate.
      + unfold Inv. cbn [st_queue st_objects weight].
        split; [constructor; [exact I|exact HQ]|]. split; [exact Hwr|].
        cbn [un_level]. reflexivity.
  Qed.

  Lemma pend_ok depth st q text tail :
    Inv u (S depth) st ->
    match pend cfg c replay st q text tail with
    | ROk st' => Inv u depth st'
    | RErr k => documented k = true
    end.
  Proof.
    intros [Hf [Hwr Hwt]]. unfold pend.
    destruct (st_queue st) as [|n Q] eqn:Hq; [discriminate|].
    inversion Hf as [|n0 Q0 Hn HQ]; subst.
    pose proof (wrap_ok_tail _ _ Hwr) as HwQ.
    assert (Hpop : forall objs ws, weight Q = depth -> Inv u depth (mk_pstate Q objs ws)).
    { intros objs ws Hw'. unfold Inv. cbn [st_queue]. repeat split; assumption. }
    assert (Hfin : forall r : res (objects * list warning), weight Q = depth -> rsafe r ->
               match finish_end Q st r with ROk st' => Inv u depth st' | RErr k => documented k = true end).
    { intros r Hw' Hr. unfold finish_end. destruct r as [x|k]; cbn [rbind]; [|exact Hr]. apply Hpop; assumption. }
    destruct n as [en|m var ns0|m var ty fmt wr ns0 nl dv|var at_ ns0 pos|wq| |un]; cbn [weight] in Hwt.
    - apply Hfin; [lia|]. apply (element_bind_ok cfg c en). apply (meta_in_ok u Hu). exact Hn.
    - apply Hfin; [lia|]. apply primitive_bind_ok.
    - apply Hfin; [lia|]. apply standard_bind_ok.
    - apply Hpop; lia.
    - apply Hpop; lia.
    - apply Hpop; lia.
    - destruct (un_level un) as [|l] eqn:Hl.
      + pose proof (union_bind_ok cfg c replay un q text tail (st_objects st)) as Hub.
        destruct (union_bind cfg c replay un q text tail (st_objects st)); cbn [rbind]; [|exact Hub].
        apply Hpop; lia.
      + unfold Inv. cbn [st_queue weight un_level].
        split; [constructor; [exact I|exact HQ]|]. split; [exact HwQ|]. lia.
  Qed.

  Lemma run_ok d : forall depth st,
    Inv u depth st -> well_nested_from depth d = true -> xsi_types_ok c d = true ->
    rsafe (run cfg c u replay root st d).
  Proof.
    induction d as [|ev d IH]; intros depth st Hi Hn Hx; cbn [run]; [exact I|].
    cbn [xsi_types_ok forallb] in Hx. apply andb_true_iff in Hx as [Hx1 Hx2].
    destruct ev as [q attrs ns|q text tail|p uri]; cbn [step well_nested_from] in *.
    - pose proof (start_ok depth st q attrs ns Hx1 Hi) as Hs.
      destruct (start cfg c u root st q attrs ns) as [st'|k]; cbn [rbind]; [|exact Hs].
      exact (IH (S depth) st' Hs Hn Hx2).
    - destruct depth as [|depth']; [discriminate|].
      pose proof (pend_ok depth' st q text tail Hi) as Hs.
      destruct (pend cfg c replay st q text tail) as [st'|k]; cbn [rbind]; [|exact Hs].
      exact (IH depth' st' Hs Hn Hx2).
    - cbn [rbind]. exact (IH depth st Hi Hn Hx2).
  Qed.
End Steps.

Lemma Inv_init u : Inv u 0 init_state.
Proof. unfold Inv, init_state. cbn. repeat split; constructor. Qed.

Lemma finish_documented r : rsafe r -> outcome_documented (finish r) = true.
Proof.
  destruct r as [st|k]; cbn [finish outcome_documented rsafe]; [intros _|exact (fun H => H)].
  destruct (last_error (st_objects st)) as [[q [ ]]|]; reflexivity.
Qed.

(* the metadata hypothesis: well-formedness of what XmlContext.build exports (checked in Coq on
   every universe the harness exports) *)
Definition wf_universe (u : universe) : bool := universe_ok u.

(* the guarded theorem: every event stream, fitting the model or not; all hypotheses are
   computable booleans; the only remaining refutation clause is well_nested *)
Theorem outcome_documented_main : forall n cfg c u root d,
  wf_universe u = true -> root_ok u root = true ->          (* exported metadata is well formed and closed *)
  xsi_types_ok c d = true ->                                 (* the converter resolves xsi:type values to QNames *)
  well_nested d = true ->                                    (* clause for PyIndexError *)
  outcome_documented (parse_n n cfg c u root d) = true.
Proof.
  intros n cfg c u root d Hu Hr Hx Hwn.
  rewrite parse_n_unfold. apply finish_documented.
  exact (run_ok cfg c u (replay_n n c u) root Hu Hr d 0 init_state (Inv_init u) Hwn Hx).
Qed.

Corollary outcome_documented_parse : forall cfg c u root d,
  wf_universe u = true -> root_ok u root = true -> xsi_types_ok c d = true -> well_nested d = true ->
  outcome_documented (parse cfg c u root d) = true.
Proof. intros. unfold parse. apply outcome_documented_main; assumption. Qed.

(* ---------------------------------------------------------------- the oracle of harness/c15.py *)
(* bits 0,1: c15_code; bit 2: every hypothesis of C15_outcome_documented holds for this case;
   bit 3: the exported metadata is not well formed (the theorem does not speak about this model) *)
Definition c15_guards (x : corr_case) : bool :=
  let '(cfg, t, u, root, evs, _) := x in
  wf_universe u && root_ok u root && xsi_types_ok (conv_of_table t) evs && well_nested evs.
Definition c15_code_guarded (x : corr_case) : N :=
  let '(_, _, u, _, _, _) := x in
  (c15_code x + (if c15_guards x then 4 else 0) + (if wf_universe u then 0 else 8))%N.
