(* Proofs/WsdlParts.v — message parts: what build_parts_attributes makes of them and what
   the rest of the pipeline (decode_attr) makes of that, against the specification's
   direct_part_item / rpc_part_item. *)
From Coq Require Import NArith List Bool Lia.
From XV Require Import Base.Str Base.Eqb Base.PyInt Gen.WsdlTables Spec.WsdlSpec Model.Wsdl Model.WsdlCorr Proofs.WsdlLemmas.
Import ListNotations.
Open Scope N_scope.

Ltac split_and H :=
  repeat match type of H with
         | (_ && _) = true => let H1 := fresh H in let H2 := fresh H in
                              apply andb_true_iff in H as [H1 H2]; try split_and H1; try split_and H2
         end.

Definition req_of (mn : option nat) : bool := match mn with Some O => false | _ => true end.

(* the attr of a part given by element *)
Definition el_attr (u l : str) (mn : option nat) : attr := Attr l (Some u) None (u, l) false false None mn None.
(* the attr of a part given by type *)
Definition ty_attr (name u l : str) (mn : option nat) : attr :=
  let native := str_eqb u m_xs_uri in
  Attr name (if native then Some [] else Some m_lazy) None (u, l) native false None mn None.

Lemma set_min0_el u l mn : set_min0 (el_attr u l mn) = el_attr u l (Some O).
Proof. reflexivity. Qed.
Lemma set_min0_ty n u l mn : set_min0 (ty_attr n u l mn) = ty_attr n u l (Some O).
Proof. reflexivity. Qed.

Lemma part_attr_element p e u l :
  part_element p = Some e -> part_type p = None -> resolve_qname (part_ns p) e = Some (u, l) ->
  uri_ok u = true -> str_eqb u XSD_NS = false ->
  part_attr p = [el_attr u l None].
Proof.
  intros He Hty Hr Hu Hx. unfold part_attr. rewrite He, Hty.
  destruct (uri_ok_nonempty _ Hu) as [uc [ur Eu]].
  assert (nonempty u = true) as Hne by (subst; reflexivity).
  destruct (resolve_text_split _ _ _ _ Hr Hne) as [prefix [Es [Eg Hl]]].
  destruct e as [|c e']. { cbv in Hr. discriminate. }
  rewrite Es, Eg. cbn [truthy]. unfold build_qname, build_attr, el_attr.
  cbn [ostr_eqb opt_eqb]. rewrite c_xs, Hx. reflexivity.
Qed.

Lemma part_attr_type p ty u l :
  part_element p = None -> part_type p = Some ty -> resolve_qname (part_ns p) ty = Some (u, l) ->
  uri_ok u = true ->
  part_attr p = [ty_attr (part_name p) u l None].
Proof.
  intros He Hty Hr Hu. unfold part_attr. rewrite He, Hty.
  destruct (uri_ok_nonempty _ Hu) as [uc [ur Eu]].
  assert (nonempty u = true) as Hne by (subst; reflexivity).
  destruct (resolve_text_split _ _ _ _ Hr Hne) as [prefix [Es [Eg Hl]]].
  destruct ty as [|c ty']. { cbv in Hr. discriminate. }
  rewrite Es, Eg. cbn [truthy]. unfold build_qname, build_attr, ty_attr.
  cbn [ostr_eqb opt_eqb]. destruct (str_eqb u m_xs_uri); reflexivity.
Qed.

Section Decode.
  Variables (te : tenv) (d : definitions) (t : str) (all : list aclass).
  Hypothesis Ht : d_tns d = Some t.
  Hypothesis Hinv : inv d t all.

  Lemma decode_el_attr rec owner nsch u l mn :
    uri_ok u = true -> is_message_qname d (u, l) = false ->
    decode_attr rec te all owner nsch (el_attr u l mn) = Leaf u l (req_of mn) (TRef u l).
  Proof.
    intros Hu Hq. unfold decode_attr, el_attr.
    cbn [a_native a_forward a_type a_namespace a_name a_min required_of fst snd].
    rewrite (fec_none d t all (u, l) Hinv Ht Hq).
    cbn [ostr_eqb opt_eqb]. rewrite (uri_ok_not_lazy _ Hu), (uri_ok_var _ Hu). reflexivity.
  Qed.

  (* a part given by type, inside a class that has a namespace of its own (an rpc message class) *)
  Lemma decode_ty_attr rec owner nsch name u l mn :
    truthy (c_namespace owner) = true ->
    uri_ok u = true -> is_message_qname d (u, l) = false ->
    decode_attr rec te all owner nsch (ty_attr name u l mn) = Leaf [] name (req_of mn) (mk_tref te u l).
  Proof.
    intros Hown Hu Hq. unfold decode_attr, ty_attr, mk_tref. rewrite <- c_xs.
    cbn [a_native a_forward a_type a_namespace a_name a_min required_of fst snd].
    destruct (str_eqb u m_xs_uri) eqn:Ex.
    - reflexivity.
    - rewrite (fec_none d t all (u, l) Hinv Ht Hq).
      cbn [ostr_eqb opt_eqb]. rewrite str_eqb_refl.
      rewrite simple_base_tenv. unfold lazy_complex_ns. rewrite Hown.
      destruct (tenv_get te (u, l)) as [[b|]|]; reflexivity.
  Qed.

  (* ---- lists of parts *)
  Definition part_clean (p : part) : Prop :=
    part_ok p = true /\ (forall q, part_ref p = Some q -> is_message_qname d q = false).

  Lemma element_part_item rec owner nsch p (mn : option nat) :
    part_clean p -> element_part p = true ->
    exists u l, part_attr p = [el_attr u l None]
      /\ decode_attr rec te all owner nsch (el_attr u l mn) = Leaf u l (req_of mn) (TRef u l)
      /\ direct_part_item te (req_of mn) p = Some (Leaf u l (req_of mn) (TRef u l)).
  Proof.
    intros [Hok Hcl] Hel. unfold part_ok in Hok. unfold element_part in Hel.
    destruct (part_element p) as [e|] eqn:Ee; [|discriminate].
    destruct (part_type p) as [ty|] eqn:Ety. { apply andb_true_iff in Hok as [_ Hf]. discriminate. }
    apply andb_true_iff in Hok as [_ Hok].
    destruct (resolve_qname (part_ns p) e) as [[u l]|] eqn:Er; [|discriminate].
    apply andb_true_iff in Hok as [Hu Hx]. apply negb_true_iff in Hx.
    exists u, l. split; [eapply part_attr_element; eauto|]. split.
    - apply decode_el_attr; [exact Hu|]. apply Hcl. unfold part_ref. rewrite Ee. exact Er.
    - unfold direct_part_item. rewrite Ee, Er. reflexivity.
  Qed.

  (* parts that all are element parts, decoded in place (Body of document style, Header, detail) *)
  Lemma element_parts_items rec owner nsch (adj : attr -> attr) (mn : option nat) ps :
    (forall u l, adj (el_attr u l None) = el_attr u l mn) ->
    Forall part_clean ps -> forallb element_part ps = true ->
    map (decode_attr rec te all owner nsch) (map adj (build_parts_attributes ps))
    = flat_map (fun p => olist (direct_part_item te (req_of mn) p)) ps.
  Proof.
    intros Hadj Hcl Hel. induction ps as [|p r IH]; [reflexivity|].
    inversion Hcl as [|? ? Hp Hr]; subst. cbn in Hel. apply andb_true_iff in Hel as [Hep Her].
    unfold build_parts_attributes in *. cbn [flat_map]. rewrite !map_app, IH by assumption.
    destruct (element_part_item rec owner nsch p mn Hp Hep) as [u [l [Ea [Ed Ei]]]].
    rewrite Ea, Ei. cbn [map olist app]. rewrite Hadj, Ed. reflexivity.
  Qed.

  Lemma type_part_item rec owner nsch p :
    truthy (c_namespace owner) = true ->
    part_clean p -> element_part p = false ->
    exists u l, part_attr p = [ty_attr (part_name p) u l None]
      /\ decode_attr rec te all owner nsch (ty_attr (part_name p) u l None) = Leaf [] (part_name p) true (mk_tref te u l)
      /\ rpc_part_item te p = Some (Leaf [] (part_name p) true (mk_tref te u l)).
  Proof.
    intros Hown [Hok Hcl] Hel. unfold part_ok in Hok. unfold element_part in Hel.
    destruct (part_element p) as [e|] eqn:Ee; [discriminate|].
    apply andb_true_iff in Hok as [_ Hok].
    destruct (part_type p) as [ty|] eqn:Ety; [|discriminate].
    destruct (resolve_qname (part_ns p) ty) as [[u l]|] eqn:Er; [|discriminate].
    exists u, l. split; [eapply part_attr_type; eauto|]. split.
    - apply (decode_ty_attr rec owner nsch (part_name p) u l None Hown Hok).
      apply Hcl. unfold part_ref. rewrite Ee, Ety. exact Er.
    - unfold rpc_part_item. rewrite Ee, Ety, Er. reflexivity.
  Qed.

  (* the parts of an rpc message, all given by type, decoded inside the message class *)
  Lemma type_parts_items rec owner nsch ps :
    truthy (c_namespace owner) = true ->
    Forall part_clean ps -> forallb (fun p => negb (element_part p)) ps = true ->
    map (decode_attr rec te all owner nsch) (build_parts_attributes ps)
    = flat_map (fun p => olist (rpc_part_item te p)) ps.
  Proof.
    intros Hown Hcl Hel. induction ps as [|p r IH]; [reflexivity|].
    inversion Hcl as [|? ? Hp Hr]; subst. cbn in Hel. apply andb_true_iff in Hel as [Hep Her].
    apply negb_true_iff in Hep.
    unfold build_parts_attributes in *. cbn [flat_map]. rewrite map_app, IH by assumption.
    destruct (type_part_item rec owner nsch p Hown Hp Hep) as [u [l [Ea [Ed Ei]]]].
    rewrite Ea, Ei. cbn [map olist app]. rewrite Ed. reflexivity.
  Qed.
End Decode.
