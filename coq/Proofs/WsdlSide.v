(* Proofs/WsdlSide.v — one side (input or output) of one bound operation: the classes
   map_one_message yields and what they decode to, against Spec.envelope. *)
From Coq Require Import NArith List Bool Lia.
From XV Require Import Base.Str Base.Eqb Base.PyInt Gen.WsdlTables Spec.WsdlSpec Model.Wsdl Model.WsdlCorr
  Proofs.WsdlLemmas Proofs.WsdlParts Proofs.WsdlEnvelope.
Import ListNotations.
Open Scope N_scope.

Lemma Forall_filter {A} (P : A -> Prop) f l : Forall P l -> Forall P (filter f l).
Proof.
  induction l as [|x r IH]; intros H; [constructor|]. inversion H; subst. cbn.
  destruct (f x); [constructor|]; auto.
Qed.

Lemma filter_ext_all {A} (f g : A -> bool) l : (forall x, f x = g x) -> filter f l = filter g l.
Proof. intros H. induction l as [|x r IH]; cbn; [reflexivity|]. rewrite H, IH. reflexivity. Qed.

Lemma forallb_filter_imp {A} (f g : A -> bool) l :
  forallb (fun x => negb (f x) || g x) l = true -> forallb g (filter f l) = true.
Proof.
  induction l as [|x r IH]; cbn; [reflexivity|]. intros H. apply andb_true_iff in H as [H1 H2].
  destruct (f x) eqn:E; cbn in *; [rewrite H1|]; auto.
Qed.

Section Side.
  Variables (te : tenv) (d : definitions) (t : str).
  Hypothesis Ht : d_tns d = Some t.
  Hypothesis Htn : nonempty t = true.
  Hypothesis Hmsgs : forallb message_ok (d_messages d) = true.
  Hypothesis Hsh : no_shadow d = true.

  Lemma parts_clean dm : In dm (d_messages d) -> Forall (part_clean d) (msg_parts dm).
  Proof.
    intros Hin. pose proof (proj1 (forallb_forall _ _) Hmsgs dm Hin) as Hm.
    unfold message_ok in Hm. apply andb_true_iff in Hm as [Hm _]. apply andb_true_iff in Hm as [_ Hm2].
    pose proof (proj1 (forallb_forall _ _) Hsh dm Hin) as Hs.
    rewrite forallb_forall in Hm2. rewrite forallb_forall in Hs.
    apply Forall_forall. intros p Hp. split; [apply Hm2; exact Hp|].
    intros q Hq. specialize (Hs p Hp). rewrite Hq in Hs. apply negb_true_iff in Hs. exact Hs.
  Qed.

  Lemma find_message_facts m s dm :
    find_message d m s = Some dm ->
    In dm (d_messages d) /\ find_message_by_name d (text_suffix s) = Some dm
    /\ find_message_by_name d (msg_name dm) = Some dm
    /\ resolve_local d m s = Some (msg_name dm)
    /\ exists prefix, text_split s = (prefix, msg_name dm) /\ ns_get m prefix = Some t.
  Proof.
    unfold find_message. destruct (resolve_local d m s) as [l|] eqn:El; [|discriminate]. intros Hf.
    destruct (find_by_name _ _ _ _ Hf) as [Hn Hin]. subst l.
    destruct (resolve_local_suffix d t m s _ Ht Htn El) as [prefix [Es [Eg Esuf]]].
    unfold find_message_by_name. rewrite !find_named_eq, Esuf. repeat split; auto. eauto.
  Qed.

  (* ---- soap:header *)
  Definition hdr_parts (bm : b_msg) (e : soap_ext) : list part :=
    match e with
    | SoapHeader msg prt _ =>
        match find_message d (bm_ns bm) msg with
        | Some hm => filter (fun p => str_eqb (part_name p) prt) (msg_parts hm)
        | None => []
        end
    | SoapBody _ _ _ => []
    end.

  Definition header_wf (bm : b_msg) (e : soap_ext) : bool :=
    match e with
    | SoapBody _ _ _ => true
    | SoapHeader msg prt use' =>
        ostr_eqb use' (Some s_literal) &&
        match find_message d (bm_ns bm) msg with
        | Some hm => existsb (fun p => str_eqb (part_name p) prt) (msg_parts hm)
                     && forallb (fun p => negb (str_eqb (part_name p) prt) || element_part p) (msg_parts hm)
        | None => false
        end
    end.

  Lemma header_ext_attrs style operation ptm bm e :
    is_header e = true -> header_wf bm e = true ->
    ext_attrs d style operation ptm bm e = Some (build_parts_attributes (hdr_parts bm e))
    /\ Forall (part_clean d) (hdr_parts bm e) /\ forallb element_part (hdr_parts bm e) = true.
  Proof.
    destruct e as [? ? ?|msg prt u]; [discriminate|]. intros _ Hwf. cbn [header_wf] in Hwf.
    apply andb_true_iff in Hwf as [_ Hwf].
    cbn [hdr_parts ext_attrs].
    destruct (find_message d (bm_ns bm) msg) as [hm|] eqn:Ef; [|discriminate].
    apply andb_true_iff in Hwf as [_ Hall].
    destruct (find_message_facts _ _ _ Ef) as [Hin [_ [Hbyname [Hloc _]]]].
    unfold map_binding_message_parts.
    rewrite (any_attr_local_resolved d t _ _ _ Ht Htn Hloc), Hbyname.
    split; [|split].
    - f_equal. f_equal. apply filter_ext_all. intros p. cbn. apply orb_false_r.
    - apply Forall_filter. apply parts_clean. exact Hin.
    - apply forallb_filter_imp. exact Hall.
  Qed.

  Lemma headers_ext_attrs style operation ptm bm hs :
    forallb is_header hs = true -> forallb (header_wf bm) hs = true ->
    Forall2 (fun e ah => ext_attrs d style operation ptm bm e = Some ah) hs
            (map (fun e => build_parts_attributes (hdr_parts bm e)) hs)
    /\ Forall (part_clean d) (flat_map (hdr_parts bm) hs)
    /\ forallb element_part (flat_map (hdr_parts bm) hs) = true.
  Proof.
    induction hs as [|h r IH]; intros Hh Hw.
    - repeat split; constructor.
    - cbn in Hh, Hw. apply andb_true_iff in Hh as [Hh1 Hh2]. apply andb_true_iff in Hw as [Hw1 Hw2].
      destruct (IH Hh2 Hw2) as [F2 [Fc Fe]].
      destruct (header_ext_attrs style operation ptm bm h Hh1 Hw1) as [Ea [Ec Ee]].
      cbn [map flat_map]. repeat split.
      + constructor; assumption.
      + apply Forall_app. split; assumption.
      + rewrite forallb_app, Ee, Fe. reflexivity.
  Qed.

  Lemma concat_map_bpa {A} (f : A -> list part) l :
    concat (map (fun e => build_parts_attributes (f e)) l) = build_parts_attributes (flat_map f l).
  Proof.
    unfold build_parts_attributes. induction l as [|x r IH]; cbn; [reflexivity|].
    rewrite flat_map_app, IH. reflexivity.
  Qed.

  Lemma header_items_hs bm hs1 hs2 use ns parts :
    bm_exts bm = hs1 ++ SoapBody use ns parts :: hs2 ->
    header_items te d bm = flat_map (fun p => olist (direct_part_item te true p)) (flat_map (hdr_parts bm) (hs1 ++ hs2)).
  Proof.
    intros E. unfold header_items. rewrite E.
    change (hs1 ++ SoapBody use ns parts :: hs2) with (hs1 ++ [SoapBody use ns parts] ++ hs2).
    rewrite !flat_map_app. cbn [flat_map app].
    rewrite !flat_map_flat_map. f_equal; apply flat_map_ext_in; intros e _;
      (destruct e as [? ? ?|msg prt u]; cbn [hdr_parts]; [reflexivity|];
       destruct (find_message d (bm_ns bm) msg); reflexivity).
  Qed.

  (* ---- soap:body, document style *)
  Definition parts_wf (dm : message) (parts : option str) : bool :=
    match parts with
    | None => true
    | Some s => let names := split_ws xml_ws s in
                tokens_ascii s && nonempty (concat names)
                && forallb (fun n => existsb (fun p => str_eqb (part_name p) n) (msg_parts dm)) names
    end.

  Lemma body_ext_attrs_doc style operation ptm bm use bodyns parts dm :
    str_eqb style m_rpc = false ->
    find_message d (ptm_ns ptm) (ptm_message ptm) = Some dm -> parts_wf dm parts = true ->
    ext_attrs d style operation ptm bm (SoapBody use bodyns parts)
    = Some (build_parts_attributes (select_parts dm parts)).
  Proof.
    intros Hs Hf Hp. cbn [ext_attrs]. rewrite Hs. cbn [andb].
    destruct (find_message_facts _ _ _ Hf) as [_ [Hsuf _]].
    unfold map_binding_message_parts. rewrite Hsuf. unfold select_parts.
    destruct parts as [ps|]; [|reflexivity].
    cbn [parts_wf] in Hp. apply andb_true_iff in Hp as [Hp _]. apply andb_true_iff in Hp as [Hasc Hne].
    rewrite (split_py_xml _ Hasc).
    destruct (split_ws xml_ws ps) as [|n1 nr] eqn:En; [discriminate|]. reflexivity.
  Qed.

  (* ---- soap:body, rpc style *)
  Definition wrapper_attr (name : str) (bodyns : option str) (l : str) (mn : option nat) : attr :=
    Attr name bodyns None (t, l) false false None mn None.

  Lemma body_ext_attrs_rpc style operation ptm bm use bodyns parts dm :
    str_eqb style m_rpc = true ->
    find_message d (ptm_ns ptm) (ptm_message ptm) = Some dm ->
    ext_attrs d style operation ptm bm (SoapBody use bodyns parts)
    = Some [wrapper_attr (match operation with Some o => o | None => msg_name dm end) bodyns (msg_name dm) None].
  Proof.
    intros Hs Hf. cbn [ext_attrs ext_class_name]. rewrite Hs, str_eqb_refl. cbn [andb].
    destruct (find_message_facts _ _ _ Hf) as [_ [_ [_ [_ [prefix [Es Eg]]]]]].
    unfold map_port_type_message. rewrite Es, Eg. reflexivity.
  Qed.

  Lemma message_class_rpc ptm dm :
    find_message d (ptm_ns ptm) (ptm_message ptm) = Some dm ->
    resolve_local d (msg_ns dm) (ptm_message ptm) = Some (msg_name dm) ->
    build_message_class d (Some ptm) = Some (msg_class t dm).
  Proof.
    intros Hf Hl. destruct (find_message_facts _ _ _ Hf) as [_ [_ [Hbn [_ [prefix [Es Eg]]]]]].
    destruct (resolve_local_suffix d t _ _ _ Ht Htn Hl) as [prefix' [Es' [Eg' _]]].
    rewrite Es in Es'. inversion Es'; subst prefix'.
    unfold build_message_class. rewrite Es, Hbn, Eg'. reflexivity.
  Qed.

  Lemma decode_wrapper all fuel owner nsch name u dm mn :
    inv d t all -> find_message_by_name d (msg_name dm) = Some dm -> In (msg_class t dm) all ->
    In dm (d_messages d) ->
    uri_ok u = true ->
    forallb (fun p => negb (element_part p)) (msg_parts dm) = true ->
    decode_attr (decode_class (S fuel) te all) te all owner nsch (wrapper_attr name (Some u) (msg_name dm) mn)
    = Node u name (req_of mn) (flat_map (fun p => olist (rpc_part_item te p)) (msg_parts dm)).
  Proof.
    intros Hinv Hbn Hin Hind Hu Hty. unfold decode_attr, wrapper_attr.
    cbn [a_native a_forward a_type a_namespace a_name a_min required_of].
    rewrite (fec_some d t all dm Hinv Hbn Hin). rewrite (uri_ok_var _ Hu). f_equal.
    rewrite decode_class_S. cbn [msg_class c_attrs].
    apply (type_parts_items te d t all Ht Hinv).
    - cbn. destruct t; [discriminate|reflexivity].
    - apply parts_clean. exact Hind.
    - exact Hty.
  Qed.

  (* ---- faults *)
  Definition fault_wf (f : pt_msg) : bool :=
    match find_message d (ptm_ns f) (ptm_message f) with
    | Some m => forallb element_part (msg_parts m)
    | None => false
    end.
  Definition fault_parts (f : pt_msg) : list part :=
    match find_message d (ptm_ns f) (ptm_message f) with Some m => msg_parts m | None => [] end.

  Lemma detail_attrs_closed faults :
    forallb fault_wf faults = true ->
    detail_attrs d faults = Some (build_parts_attributes (flat_map fault_parts faults))
    /\ Forall (part_clean d) (flat_map fault_parts faults)
    /\ forallb element_part (flat_map fault_parts faults) = true.
  Proof.
    induction faults as [|f r IH]; intros Hw.
    - repeat split; constructor.
    - cbn in Hw. apply andb_true_iff in Hw as [Hf Hr]. destruct (IH Hr) as [Ed [Ec Ee]].
      unfold fault_wf in Hf. cbn [detail_attrs flat_map]. unfold fault_parts at 1 3 5.
      destruct (find_message d (ptm_ns f) (ptm_message f)) as [m|] eqn:Ef; [|discriminate].
      destruct (find_message_facts _ _ _ Ef) as [Hin [Hsuf _]].
      rewrite Hsuf, Ed. repeat split.
      + unfold build_parts_attributes. rewrite flat_map_app. reflexivity.
      + apply Forall_app. split; [apply parts_clean; exact Hin | exact Ec].
      + rewrite forallb_app, Hf, Ee. reflexivity.
  Qed.

  Lemma fault_details_closed faults :
    fault_details te d faults = flat_map (fun p => olist (direct_part_item te false p)) (flat_map fault_parts faults).
  Proof.
    unfold fault_details. rewrite flat_map_flat_map. apply flat_map_ext_in. intros f _.
    unfold fault_parts. destruct (find_message d (ptm_ns f) (ptm_message f)); reflexivity.
  Qed.
End Side.
