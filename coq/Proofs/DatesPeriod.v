(* Proofs/DatesPeriod.v — XmlPeriod accepts every gDay / gMonth / gMonthDay / gYear / gYearMonth
   lexical form with the components XSD assigns. *)
From Coq Require Import NArith ZArith List Bool Lia ZifyBool.
From XV Require Import Base.Str Base.Dec Base.PyInt Gen.DatesTables Model.Dates Spec.XsdDates
  Proofs.DatesCal Proofs.DatesParse.
Import ListNotations.
Open Scope Z_scope.

Lemma py_strip_core core : nonspace_ends core -> py_strip core = core.
Proof.
  intros H. pose proof (py_strip_wrap [] core [] eq_refl eq_refl H) as S.
  cbn [app] in S. rewrite app_nil_r in S. exact S.
Qed.

Lemma starts_45 tl : exists c r, 45%N :: tl = c :: r /\ py_isspace c = false.
Proof. exists 45%N, tl. split; [reflexivity|exact not_space_45]. Qed.

Definition expect (p : period_sp) : xperiod :=
  let '(y, m, d, o) := val_period p in mk_xperiod y m d o.

(* ---- gDay --------------------------------------------------------------- *)
Lemma gday_accepts d t : wf_period (GDay d t) = true -> period_parse (lex_period (GDay d t)) = Some (expect (GDay d t)).
Proof.
  cbn [wf_period]. intros W. apply andb_true_iff in W as [W Wt]. apply andb_true_iff in W as [W1 W2].
  apply Z.leb_le in W1, W2. assert (Bd : 0 <= d <= 99) by lia.
  cbn [lex_period app].
  assert (NS : nonspace_ends (45%N :: 45%N :: 45%N :: d2 d ++ lex_tz t)).
  { split; [apply starts_45|]. apply (ends_app [45;45;45]%N). apply d2_tz_ends; assumption. }
  unfold period_parse. rewrite (py_strip_core _ NS). cbn [startswith N.eqb Pos.eqb andb].
  unfold parse_date_args. rewrite (py_strip_core _ NS).
  unfold fmt_G_DAY. cbn [run_fmt N.eqb Pos.eqb skip].
  rewrite (parse_var_two _ _ two_d). rewrite (parse_digits_d2 d _ Bd).
  rewrite parse_var_z, parse_offset_lex by exact Wt. cbn [app].
  cbn [p_month p_day oz]. destruct (d =? 0) eqn:E0; [lia|].
  rewrite validate_date_real. unfold real_date. cbn [spec_month_days].
  replace ((1 <=? 1) && (1 <=? 12) && (1 <=? d) && (d <=? 31)) with true by lia.
  reflexivity.
Qed.

(* ---- gMonth and gMonthDay ------------------------------------------------- *)
Lemma not_dashdash_digit a rest : is_ascii_digit a = true -> str_eqb (45%N :: a :: rest) [45;45]%N = false.
Proof.
  intros H. apply is_ascii_digit_range in H. cbn [str_eqb]. destruct (N.eqb_spec a 45); [lia|].
  cbn. reflexivity.
Qed.

Lemma d2_shape n : 0 <= n <= 99 ->
  exists a b, d2 n = [a; b] /\ is_ascii_digit a = true /\ is_ascii_digit b = true.
Proof.
  intros H. exists (Z.to_N (48 + n / 10)), (Z.to_N (48 + n mod 10)). split; [reflexivity|].
  split; apply is_ascii_digit_range; lia.
Qed.

Lemma tz_head t : wf_tz t = true ->
  lex_tz t = [] \/ lex_tz t = [90%N] \/
  exists sg a b c e, lex_tz t = [sg; a; b; 58%N; c; e] /\ (sg = 45%N \/ sg = 43%N)
                     /\ is_ascii_digit a = true /\ is_ascii_digit b = true /\ is_ascii_digit c = true /\ is_ascii_digit e = true.
Proof.
  intros W. destruct t as [| |neg hh mm]; [left; reflexivity|right; left; reflexivity|].
  right; right. cbn [wf_tz] in W.
  destruct (d2_shape hh ltac:(lia)) as [a [b [Eh [Da Db]]]].
  destruct (d2_shape mm ltac:(lia)) as [c [e [Em [Dc De]]]].
  exists (if neg then 45%N else 43%N), a, b, c, e. cbn [lex_tz]. rewrite Eh, Em.
  repeat split; try assumption; destruct neg; auto.
Qed.

Lemma slice_46_gmonth m t : 0 <= m <= 99 -> wf_tz t = true ->
  str_eqb (slice (45%N :: 45%N :: d2 m ++ lex_tz t) 4 6) [45;45]%N = false.
Proof.
  intros Bm Wt. destruct (d2_shape m Bm) as [a [b [E _]]]. rewrite E.
  destruct (tz_head t Wt) as [T|[T|[sg [x [y [c [e [T [_ [Dx _]]]]]]]]]]; rewrite T; try reflexivity.
  unfold slice. cbn [skipn app Nat.sub firstn]. apply is_ascii_digit_range in Dx.
  cbn [str_eqb]. destruct (N.eqb_spec x 45); [lia|]. rewrite andb_false_r. reflexivity.
Qed.

Lemma tz_length t : wf_tz t = true -> length (lex_tz t) = 0%nat \/ length (lex_tz t) = 1%nat \/ length (lex_tz t) = 6%nat.
Proof.
  intros W. destruct (tz_head t W) as [T|[T|[sg [a [b [c [e [T _]]]]]]]]; rewrite T; cbn; auto.
Qed.

Lemma d2_length n : length (d2 n) = 2%nat. Proof. reflexivity. Qed.

Lemma third_not_dash n tl : 0 <= n <= 99 -> startswith [45;45;45]%N (45%N :: 45%N :: d2 n ++ tl) = false.
Proof.
  intros B. destruct (d2_shape n B) as [a [b [E [Da _]]]]. rewrite E. apply is_ascii_digit_range in Da.
  cbn [startswith app]. rewrite !N.eqb_refl. cbn [andb].
  destruct (N.eqb_spec 45 a); [lia|reflexivity].
Qed.

Lemma gmonth_accepts m t : wf_period (GMonth m t) = true -> period_parse (lex_period (GMonth m t)) = Some (expect (GMonth m t)).
Proof.
  cbn [wf_period]. intros W. apply andb_true_iff in W as [W Wt]. apply andb_true_iff in W as [W1 W2].
  apply Z.leb_le in W1, W2. assert (Bm : 0 <= m <= 99) by lia.
  cbn [lex_period app].
  assert (NS : nonspace_ends (45%N :: 45%N :: d2 m ++ lex_tz t)).
  { split; [apply starts_45|]. apply (ends_app [45;45]%N). apply d2_tz_ends; assumption. }
  unfold period_parse. rewrite (py_strip_core _ NS).
  rewrite third_not_dash by exact Bm. cbn [startswith N.eqb Pos.eqb andb].
  rewrite slice_46_gmonth by assumption.
  assert (L : (length (45%N :: 45%N :: d2 m ++ lex_tz t) =? 4)%nat
              || (length (45%N :: 45%N :: d2 m ++ lex_tz t) =? 5)%nat
              || (length (45%N :: 45%N :: d2 m ++ lex_tz t) =? 10)%nat = true).
  { cbn [length]. rewrite app_length, d2_length. destruct (tz_length t Wt) as [E|[E|E]]; rewrite E; reflexivity. }
  rewrite L.
  unfold parse_date_args. rewrite (py_strip_core _ NS).
  unfold fmt_G_MONTH. cbn [run_fmt N.eqb Pos.eqb skip].
  rewrite (parse_var_two _ _ two_m). rewrite (parse_digits_d2 m _ Bm).
  rewrite parse_var_z, parse_offset_lex by exact Wt. cbn [app].
  cbn [p_month p_day oz]. destruct (m =? 0) eqn:E0; [lia|].
  rewrite validate_date_real. unfold real_date.
  assert (1 <= spec_month_days 0 m).
  { unfold spec_month_days. repeat match goal with |- context [match ?x with _ => _ end] => destruct x end; lia. }
  replace ((1 <=? m) && (m <=? 12) && (1 <=? 1) && (1 <=? spec_month_days 0 m)) with true by lia.
  reflexivity.
Qed.

Lemma real_date_leap_years m d : real_date 2000 m d = real_date 0 m d.
Proof. reflexivity. Qed.

Lemma gmonthday_accepts m d t :
  wf_period (GMonthDay m d t) = true -> period_parse (lex_period (GMonthDay m d t)) = Some (expect (GMonthDay m d t)).
Proof.
  cbn [wf_period]. intros W. apply andb_true_iff in W as [Wd Wt].
  destruct (real_date_bounds _ _ _ Wd) as [Bm Bd].
  cbn [lex_period app].
  assert (NS : nonspace_ends (45%N :: 45%N :: d2 m ++ 45%N :: d2 d ++ lex_tz t)).
  { split; [apply starts_45|]. apply (ends_app [45;45]%N). apply ends_app. apply (ends_app [45%N]). apply d2_tz_ends; assumption. }
  unfold period_parse. rewrite (py_strip_core _ NS).
  rewrite third_not_dash by exact Bm. cbn [startswith N.eqb Pos.eqb andb].
  assert (S46 : str_eqb (slice (45%N :: 45%N :: d2 m ++ 45%N :: d2 d ++ lex_tz t) 4 6) [45;45]%N = false).
  { destruct (d2_shape m Bm) as [a [b [E _]]]. destruct (d2_shape d Bd) as [x [y [E' [Dx _]]]]. rewrite E, E'.
    unfold slice. cbn [skipn app Nat.sub firstn]. apply not_dashdash_digit. exact Dx. }
  rewrite S46.
  assert (L : (length (45%N :: 45%N :: d2 m ++ 45%N :: d2 d ++ lex_tz t) =? 4)%nat
              || (length (45%N :: 45%N :: d2 m ++ 45%N :: d2 d ++ lex_tz t) =? 5)%nat
              || (length (45%N :: 45%N :: d2 m ++ 45%N :: d2 d ++ lex_tz t) =? 10)%nat = false).
  { cbn [length]. rewrite app_length, d2_length. cbn [length]. rewrite app_length, d2_length.
    destruct (tz_length t Wt) as [E|[E|E]]; rewrite E; reflexivity. }
  rewrite L.
  unfold parse_date_args. rewrite (py_strip_core _ NS).
  unfold fmt_G_MONTH_DAY. cbn [run_fmt N.eqb Pos.eqb skip].
  rewrite (parse_var_two _ _ two_m). rewrite (parse_digits_d2 m _ Bm). cbn [N.eqb Pos.eqb skip].
  rewrite (parse_var_two _ _ two_d). rewrite (parse_digits_d2 d _ Bd).
  rewrite parse_var_z, parse_offset_lex by exact Wt. cbn [app].
  cbn [p_month p_day oz].
  assert (Hm : 1 <= m) by (unfold real_date in Wd; lia). assert (Hd : 1 <= d) by (unfold real_date in Wd; lia).
  destruct (m =? 0) eqn:E0; [lia|]. destruct (d =? 0) eqn:E1; [lia|].
  rewrite validate_date_real. rewrite <- real_date_leap_years, Wd. reflexivity.
Qed.

(* ---- gYear and gYearMonth -------------------------------------------------- *)
Definition no_chr (c : N) (s : str) : bool := forallb (fun x => negb (N.eqb x c)) s.

Lemma find_chr_none c s : no_chr c s = true -> find_chr c s = None.
Proof.
  induction s as [|x s IH]; cbn; [reflexivity|]. intros H. apply andb_true_iff in H as [Hx Hs].
  apply negb_true_iff in Hx. rewrite Hx, IH by exact Hs. reflexivity.
Qed.

Lemma find_chr_app_hit c a b : no_chr c a = true -> find_chr c (a ++ c :: b) = Some (length a).
Proof.
  induction a as [|x a IH]; cbn; intros H.
  - rewrite N.eqb_refl. reflexivity.
  - apply andb_true_iff in H as [Hx Ha]. apply negb_true_iff in Hx. rewrite Hx, IH by exact Ha. reflexivity.
Qed.

Lemma no_chr_app c a b : no_chr c (a ++ b) = no_chr c a && no_chr c b.
Proof. unfold no_chr. apply forallb_app. Qed.

Lemma no_chr_rev c a : no_chr c (rev a) = no_chr c a.
Proof. unfold no_chr. apply forallb_rev. Qed.

Lemma no_chr_digits c ds : all_digits ds = true -> (c < 48 \/ 57 < c)%N -> no_chr c ds = true.
Proof.
  intros D Hc. induction ds as [|x ds IH]; [reflexivity|]. cbn in D. apply andb_true_iff in D as [Dx D].
  apply is_ascii_digit_range in Dx. cbn. destruct (N.eqb_spec x c); [lia|]. cbn. auto.
Qed.

(* the sign is the only '-' of a year spelling, at index 0 *)
Lemma rfind_year y z :
  wf_year y = true -> no_chr 45 z = true ->
  match rfind_chr 45 (lex_year y ++ z) with Some i => (3 <? i)%nat | None => false end = false.
Proof.
  intros W Hz. unfold wf_year in W. apply andb_true_iff in W as [D _].
  unfold rfind_chr, lex_year. destruct (y_neg y).
  - cbn [app]. change (45%N :: y_digits y ++ z) with ([45%N] ++ (y_digits y ++ z)).
    rewrite rev_app_distr. cbn [rev app].
    rewrite find_chr_app_hit by (rewrite no_chr_rev, no_chr_app, (no_chr_digits 45 _ D) by lia; exact Hz).
    rewrite rev_length. cbn [length app]. rewrite app_length.
    replace (S (length (y_digits y) + length z) - 1 - (length (y_digits y) + length z))%nat with 0%nat by lia.
    reflexivity.
  - cbn [app]. rewrite find_chr_none; [reflexivity|].
    rewrite no_chr_rev, no_chr_app, (no_chr_digits 45 _ D) by lia. exact Hz.
Qed.

Lemma lex_year_length y : wf_year y = true -> (4 <= length (lex_year y))%nat.
Proof.
  intros W. unfold wf_year in W. apply andb_true_iff in W as [_ W]. unfold lex_year. rewrite app_length.
  apply orb_true_iff in W as [W|W]; [apply Nat.eqb_eq in W; lia|].
  apply andb_true_iff in W as [W _]. apply Nat.ltb_lt in W. lia.
Qed.

Lemma rfind_year_month y m z :
  wf_year y = true -> 0 <= m <= 99 -> no_chr 45 z = true ->
  match rfind_chr 45 (lex_year y ++ 45%N :: d2 m ++ z) with Some i => (3 <? i)%nat | None => false end = true.
Proof.
  intros W Bm Hz. pose proof (lex_year_length y W) as L.
  destruct (d2_shape m Bm) as [a [b [E [Da Db]]]]. rewrite E.
  unfold rfind_chr.
  replace (lex_year y ++ 45%N :: [a; b] ++ z) with ((lex_year y ++ [45%N]) ++ ([a; b] ++ z))
    by (rewrite <- app_assoc; reflexivity).
  rewrite rev_app_distr. rewrite (rev_app_distr (lex_year y)). cbn [rev app].
  rewrite find_chr_app_hit.
  - rewrite !app_length, rev_length. cbn [length].
    apply Nat.ltb_lt. lia.
  - change ((rev z ++ [b]) ++ [a]) with (rev ([a; b] ++ z)).
    rewrite no_chr_rev, no_chr_app. rewrite Hz, andb_true_r.
    apply (no_chr_digits 45 [a; b]); [cbn; rewrite Da, Db; reflexivity|lia].
Qed.

(* colon detection *)
Lemma no_colon_year y : wf_year y = true -> no_chr 58 (lex_year y) = true.
Proof.
  intros W. unfold wf_year in W. apply andb_true_iff in W as [D _]. unfold lex_year.
  rewrite no_chr_app, (no_chr_digits 58 _ D) by lia. destruct (y_neg y); reflexivity.
Qed.

Lemma no_colon_d2 n : 0 <= n <= 99 -> no_chr 58 (d2 n) = true.
Proof. intros B. apply no_chr_digits; [apply d2_digits; exact B|lia]. Qed.

Lemma ym_head_spec body t :
  no_chr 58 body = true -> wf_tz t = true -> (4 <= length body)%nat ->
  exists z, ym_head (body ++ lex_tz t) = body ++ z /\ no_chr 45 z = true.
Proof.
  intros Hb Wt L. destruct (tz_head t Wt) as [T|[T|[sg [a [b [c [e [T [Hsg [Da [Db [Dc De]]]]]]]]]]]]; rewrite T; unfold ym_head.
  - rewrite app_nil_r, find_chr_none by exact Hb. exists []. rewrite app_nil_r. auto.
  - rewrite find_chr_none by (rewrite no_chr_app, Hb; reflexivity). exists [90%N]. auto.
  - assert (F : find_chr 58 (body ++ [sg; a; b; 58%N; c; e]) = Some (length body + 3)%nat).
    { replace (body ++ [sg; a; b; 58%N; c; e]) with ((body ++ [sg; a; b]) ++ 58%N :: [c; e]) by (rewrite <- app_assoc; reflexivity).
      rewrite find_chr_app_hit.
      - rewrite app_length. reflexivity.
      - rewrite no_chr_app, Hb. apply is_ascii_digit_range in Da, Db.
        destruct Hsg as [-> | ->]; cbn; destruct (N.eqb_spec a 58); try lia; destruct (N.eqb_spec b 58); try lia; reflexivity. }
    rewrite F. rewrite app_length. cbn [length].
    destruct (Nat.ltb_spec (length body + 6) 6); [lia|].
    replace (length body + 6 - 6)%nat with (length body) by lia.
    rewrite firstn_app, Nat.sub_diag, firstn_all. cbn [firstn]. exists []. auto.
Qed.

Lemma year_not_dashdash y tl : wf_year y = true ->
  startswith [45;45;45]%N (lex_year y ++ tl) = false /\ startswith [45;45]%N (lex_year y ++ tl) = false.
Proof.
  intros W. unfold wf_year in W. apply andb_true_iff in W as [D W].
  assert (Hne : y_digits y <> []).
  { apply orb_true_iff in W as [W|W]; [apply Nat.eqb_eq in W|apply andb_true_iff in W as [W _]; apply Nat.ltb_lt in W];
      destruct (y_digits y); cbn in W; try lia; discriminate. }
  unfold lex_year. destruct (y_digits y) as [|c r] eqn:E; [congruence|].
  cbn in D. apply andb_true_iff in D as [Dc _]. apply is_ascii_digit_range in Dc.
  destruct (y_neg y); cbn [app startswith]; rewrite ?N.eqb_refl; cbn [andb];
    destruct (N.eqb_spec 45 c); try lia; auto.
Qed.

Lemma year_tz_ends y t : wf_year y = true -> wf_tz t = true ->
  exists p c, lex_year y ++ lex_tz t = p ++ [c] /\ py_isspace c = false.
Proof.
  intros W Wt. destruct t as [| |neg hh mm].
  - cbn [lex_tz]. rewrite app_nil_r. unfold wf_year in W. apply andb_true_iff in W as [D W]. unfold lex_year.
    apply ends_app.
    assert (Hne : y_digits y <> []).
    { apply orb_true_iff in W as [W|W]; [apply Nat.eqb_eq in W|apply andb_true_iff in W as [W _]; apply Nat.ltb_lt in W];
        destruct (y_digits y); cbn in W; try lia; discriminate. }
    destruct (@exists_last _ (y_digits y) Hne) as [p [c E]]. exists p, c. split; [exact E|].
    unfold all_digits in D. rewrite E, forallb_app in D. apply andb_true_iff in D as [_ D]. cbn in D.
    rewrite andb_true_r in D. apply ascii_digit_not_space; exact D.
  - apply ends_app. exists [], 90%N. split; [reflexivity|exact not_space_90].
  - apply ends_app. unfold lex_tz. do 3 apply ends_app. apply d2_ends. cbn [wf_tz] in Wt. lia.
Qed.

Lemma tz_rest_nondigit t : rest_nondigit (lex_tz t).
Proof.
  destruct t as [| |neg hh mm]; cbn [lex_tz app rest_nondigit].
  - exact I.
  - exact not_isdigit_90.
  - destruct neg; [exact not_isdigit_45|exact not_isdigit_43].
Qed.

Lemma gyear_accepts y t : wf_period (GYear y t) = true -> year_len_ok y ->
  period_parse (lex_period (GYear y t)) = Some (expect (GYear y t)).
Proof.
  cbn [wf_period]. intros W Hy. apply andb_true_iff in W as [Wy Wt].
  cbn [lex_period].
  assert (NS : nonspace_ends (lex_year y ++ lex_tz t)).
  { split; [apply lex_year_starts; exact Wy|apply year_tz_ends; assumption]. }
  unfold period_parse. rewrite (py_strip_core _ NS).
  destruct (year_not_dashdash y (lex_tz t) Wy) as [N3 N2]. rewrite N3, N2.
  destruct (ym_head_spec (lex_year y) t (no_colon_year y Wy) Wt (lex_year_length y Wy)) as [z [Eh Hz]].
  rewrite Eh. rewrite (rfind_year y z Wy Hz).
  unfold parse_date_args. rewrite (py_strip_core _ NS).
  unfold fmt_G_YEAR. cbn [run_fmt].
  rewrite parse_var_Y. rewrite (parse_year_lex_gen y (lex_tz t) Wy Hy (tz_rest_nondigit t)).
  rewrite parse_var_z, parse_offset_lex by exact Wt. cbn [app].
  cbn [p_month p_day oz]. reflexivity.
Qed.

Lemma gyearmonth_accepts y m t : wf_period (GYearMonth y m t) = true -> year_len_ok y ->
  period_parse (lex_period (GYearMonth y m t)) = Some (expect (GYearMonth y m t)).
Proof.
  cbn [wf_period]. intros W Hy. apply andb_true_iff in W as [W Wt]. apply andb_true_iff in W as [W W2].
  apply andb_true_iff in W as [Wy W1]. apply Z.leb_le in W1, W2. assert (Bm : 0 <= m <= 99) by lia.
  cbn [lex_period app].
  assert (NS : nonspace_ends (lex_year y ++ 45%N :: d2 m ++ lex_tz t)).
  { split; [apply lex_year_starts; exact Wy|]. apply ends_app. apply (ends_app [45%N]). apply d2_tz_ends; assumption. }
  unfold period_parse. rewrite (py_strip_core _ NS).
  destruct (year_not_dashdash y (45%N :: d2 m ++ lex_tz t) Wy) as [N3 N2]. rewrite N3, N2.
  assert (Hbody : no_chr 58 (lex_year y ++ 45%N :: d2 m) = true).
  { rewrite no_chr_app, (no_colon_year y Wy). cbn [no_chr forallb]. change (forallb (fun x => negb (N.eqb x 58)) (d2 m)) with (no_chr 58 (d2 m)).
    rewrite (no_colon_d2 m Bm). reflexivity. }
  assert (Hlen : (4 <= length (lex_year y ++ 45%N :: d2 m))%nat).
  { rewrite app_length. pose proof (lex_year_length y Wy). lia. }
  destruct (ym_head_spec (lex_year y ++ 45%N :: d2 m) t Hbody Wt Hlen) as [z [Eh Hz]].
  replace (lex_year y ++ 45%N :: d2 m ++ lex_tz t) with ((lex_year y ++ 45%N :: d2 m) ++ lex_tz t) at 1
    by (rewrite <- app_assoc; reflexivity).
  rewrite Eh.
  replace ((lex_year y ++ 45%N :: d2 m) ++ z) with (lex_year y ++ 45%N :: d2 m ++ z) by (rewrite <- app_assoc; reflexivity).
  rewrite (rfind_year_month y m z Wy Bm Hz).
  unfold parse_date_args. rewrite (py_strip_core _ NS).
  unfold fmt_G_YEAR_MONTH. cbn [run_fmt].
  rewrite parse_var_Y, parse_year_lex by assumption. cbn [N.eqb Pos.eqb skip].
  rewrite (parse_var_two _ _ two_m). rewrite (parse_digits_d2 m _ Bm).
  rewrite parse_var_z, parse_offset_lex by exact Wt. cbn [app].
  cbn [p_month p_day oz]. destruct (m =? 0) eqn:E0; [lia|].
  rewrite validate_date_real. unfold real_date.
  assert (1 <= spec_month_days 0 m).
  { unfold spec_month_days. repeat match goal with |- context [match ?x with _ => _ end] => destruct x end; lia. }
  replace ((1 <=? m) && (m <=? 12) && (1 <=? 1) && (1 <=? spec_month_days 0 m)) with true by lia.
  reflexivity.
Qed.

Definition period_year_ok (p : period_sp) : Prop :=
  match p with GYear y _ | GYearMonth y _ _ => year_len_ok y | _ => True end.

Theorem period_accepts p : wf_period p = true -> period_year_ok p ->
  period_parse (lex_period p) = Some (expect p).
Proof.
  destruct p as [d t|m t|m d t|y t|y m t]; intros W Y.
  - apply gday_accepts; exact W.
  - apply gmonth_accepts; exact W.
  - apply gmonthday_accepts; exact W.
  - apply gyear_accepts; assumption.
  - apply gyearmonth_accepts; assumption.
Qed.
