(* Proofs/RoundtripParse.v — parser half of the round trip (C01): every stream of parser
   events that READS as the expected tree `eobj` of a fitting instance (Spec/Fits.v `reads`:
   any attribute order, any prefix maps, indentation white space) is bound by NodeParser
   (Model/Parser.v) to that very instance, without warnings. *)
From Coq Require Import NArith ZArith List Bool Lia Arith Sorting.Permutation.
From XV Require Import Base.Str Base.Eqb Base.PyInt Spec.XmlNs Model.Bind Model.EventGen Spec.Fits
  Proofs.RoundtripBase Proofs.RoundtripGen Model.RoundtripCorr Model.Parser.
Import ListNotations.
Open Scope N_scope.

(* ---------------------------------------------------------------- running the parser *)
Section Run.
  Variable cfg : pconfig.
  Variable c : conv.
  Variable u : universe.
  Variable replay : pconfig -> option cls -> list pevent -> outcome.
  Variable root : option cls.

  Notation prun := (Parser.run cfg c u replay root).
  Notation pstep := (Parser.step cfg c u replay root).

  Lemma run_cons st ev rest : prun st (ev :: rest) = rbind (pstep st ev) (fun st' => prun st' rest).
  Proof. reflexivity. Qed.

  Lemma run_app st a b : prun st (a ++ b) = rbind (prun st a) (fun st' => prun st' b).
  Proof.
    revert st; induction a as [|ev a IH]; intros st; [reflexivity|].
    cbn [app Parser.run]. destruct (pstep st ev) as [st'|k]; cbn [rbind]; [apply IH|reflexivity].
  Qed.

  Lemma run_step st ev st' rest : pstep st ev = ROk st' -> prun st (ev :: rest) = prun st' rest.
  Proof. intros H. rewrite run_cons, H. reflexivity. Qed.
End Run.

(* ---------------------------------------------------------------- params *)
Lemma existsb_false_iff' {A} (f : A -> bool) l : (forall x, In x l -> f x = false) -> existsb f l = false.
Proof.
  induction l as [|x r IH]; intros H; [reflexivity|]. cbn [existsb].
  rewrite (H x (or_introl eq_refl)), IH; [reflexivity|]. intros y Hy. apply H. right; exact Hy.
Qed.

Lemma NoDup_app_intro {A} (a b : list A) :
  NoDup a -> NoDup b -> (forall x, In x a -> In x b -> False) -> NoDup (a ++ b).
Proof.
  induction a as [|x a IH]; intros Ha Hb Hd; [exact Hb|]. inversion Ha as [|? ? Hx Ha']; subst.
  cbn [app]. constructor.
  - intros Hi. apply in_app_or in Hi as [Hi|Hi]; [contradiction|]. apply (Hd x (or_introl eq_refl) Hi).
  - apply IH; [exact Ha'|exact Hb|]. intros y Hy1 Hy2. apply (Hd y (or_intror Hy1) Hy2).
Qed.

Lemma NoDup_app_remove_l {A} (a b : list A) : NoDup (a ++ b) -> NoDup b.
Proof. induction a as [|x a IH]; [auto|]. cbn [app]. intros H. inversion H; auto. Qed.

Lemma pset_fresh n v p : ~ In n (map fst p) -> pset n v p = p ++ [(n, v)].
Proof.
  induction p as [|[k x] r IH]; intros H; [reflexivity|]. cbn [pset].
  destruct (str_eqb_spec n k) as [->|_]; [exfalso; apply H; left; reflexivity|].
  cbn [app]. f_equal. apply IH. intros Hin. apply H. right; exact Hin.
Qed.

Lemma pset_replace n v p1 v0 p2 : ~ In n (map fst p1) -> pset n v (p1 ++ (n, v0) :: p2) = p1 ++ (n, v) :: p2.
Proof.
  induction p1 as [|[k x] r IH]; intros H.
  - cbn [app pset]. rewrite str_eqb_refl. reflexivity.
  - cbn [app pset]. destruct (str_eqb_spec n k) as [->|_]; [exfalso; apply H; left; reflexivity|].
    f_equal. apply IH. intros Hin. apply H. right; exact Hin.
Qed.

Lemma pget_none n (p : params) : ~ In n (map fst p) -> pget n p = None.
Proof. apply assoc_none. Qed.

Lemma pmem_false n (p : params) : ~ In n (map fst p) -> pmem n p = false.
Proof. intros H. unfold pmem, pget. rewrite (assoc_none n p H). reflexivity. Qed.

Lemma pget_mid n p1 v0 p2 : ~ In n (map fst p1) -> pget n (p1 ++ (n, v0) :: p2) = Some v0.
Proof.
  unfold pget. induction p1 as [|[k x] r IH]; intros H; cbn [app assoc].
  - rewrite str_eqb_refl. reflexivity.
  - destruct (str_eqb_spec n k) as [->|_]; [exfalso; apply H; left; reflexivity|].
    apply IH. intros Hin. apply H. right; exact Hin.
Qed.

Lemma pget_pset_same k v p : pget k (pset k v p) = Some v.
Proof.
  unfold pget. induction p as [|[k' x] r IH]; cbn [pset assoc]; [rewrite str_eqb_refl; reflexivity|].
  destruct (str_eqb_spec k k') as [->|Hne]; cbn [assoc]; [rewrite str_eqb_refl; reflexivity|].
  destruct (str_eqb_spec k k'); [contradiction|exact IH].
Qed.

Lemma pget_pset_other k k' v p : k' <> k -> pget k' (pset k v p) = pget k' p.
Proof.
  unfold pget. intros Hne. induction p as [|[k0 x] r IH]; cbn [pset assoc].
  - destruct (str_eqb_spec k' k); [contradiction|reflexivity].
  - destruct (str_eqb_spec k k0) as [->|Hn0]; cbn [assoc].
    + destruct (str_eqb_spec k' k0); [contradiction|reflexivity].
    + rewrite IH. reflexivity.
Qed.

Lemma pget_split k v (p : params) : pget k p = Some v -> exists p1 p2, p = p1 ++ (k, v) :: p2 /\ ~ In k (map fst p1).
Proof.
  unfold pget. induction p as [|[k' x] r IH]; cbn [assoc]; [discriminate|].
  destruct (str_eqb_spec k k') as [->|Hne]; intros H.
  - inversion H; subst. exists [], r. split; [reflexivity|intros []].
  - destruct (IH H) as [p1 [p2 [-> Hn]]]. exists ((k', x) :: p1), p2. split; [reflexivity|].
    cbn [map fst]. intros [E|Hi]; [apply Hne; symmetry; exact E|exact (Hn Hi)].
Qed.

Lemma pget_none_inv k (p : params) : pget k p = None -> ~ In k (map fst p).
Proof. intros H Hi. apply assoc_some_in in Hi as [v Hv]. unfold pget in H. congruence. Qed.

Lemma pset_keys k v p : NoDup (map fst p) -> NoDup (map fst (pset k v p)).
Proof.
  intros Hn. destruct (pget k p) as [v0|] eqn:E.
  - destruct (pget_split k v0 p E) as [p1 [p2 [-> Hk]]]. rewrite (pset_replace k v p1 v0 p2 Hk).
    rewrite map_app in *. cbn [map fst] in *. exact Hn.
  - pose proof (pget_none_inv k p E) as Hk. rewrite (pset_fresh k v p Hk). rewrite map_app. cbn [map fst].
    apply NoDup_app_intro; [exact Hn|constructor; [intros []|constructor]|].
    intros x Hx [<-|[]]. exact (Hk Hx).
Qed.


Lemma evaluate_app a b : evaluate (a ++ b) = evaluate a ++ evaluate b.
Proof. apply map_app. Qed.

Lemma evaluate_keys p : map fst (evaluate p) = map fst p.
Proof. unfold evaluate. rewrite map_map. reflexivity. Qed.

(* ---------------------------------------------------------------- atoms as text *)
Lemma atoms_text_one s : atoms_text [AText s] = Some s.
Proof. reflexivity. Qed.

Lemma atoms_text_map {A} (t : A -> str) l : atoms_text (map (fun y => AText (t y)) l) = Some (join [32] (map t l)).
Proof.
  unfold atoms_text. rewrite (map_opt_map atom_text (fun a => match a with AText s => s | AQName _ => [] end)).
  - cbn [option_map]. rewrite map_map. reflexivity.
  - intros a Ha. apply in_map_iff in Ha as [y [<- _]]. reflexivity.
Qed.

Lemma atoms_read_plain ns l s : atoms_plain l = true -> atoms_read ns l s -> atoms_text l = Some s.
Proof.
  intros Hp H. destruct l as [|[s0|q] [|b r]]; try exact H. cbn in Hp. discriminate Hp.
Qed.

Lemma atoms_plain_read ns l s : atoms_plain l = true -> atoms_text l = Some s -> atoms_read ns l s.
Proof.
  intros Hp H. destruct l as [|[s0|q] [|b r]]; try exact H. cbn in Hp. discriminate Hp.
Qed.

(* ---------------------------------------------------------------- leaves *)
Section Leaves.
  Variable c : conv.
  Variable u : universe.
  Variable ok : prim -> bool.
  Hypothesis conv_law : conv_roundtrips c u ok.

  Notation leaf_ok := (leaf_ok c u ok).
  Notation token_ok := (token_ok c u ok py_isspace).
  Notation leaf_text := (leaf_text c u).
  Notation x_text := (x_text c u).

  Lemma leaf_ok_inv t fmt p : leaf_ok t fmt p = true ->
    ok p = true /\ prim_ptype p = t /\ ptext c u fmt p = Some (leaf_text fmt p).
  Proof.
    unfold Fits.leaf_ok, Fits.leaf_text. intros H.
    apply andb_true_iff in H as [H H2]. apply andb_true_iff in H as [H0 H1].
    split; [exact H0|]. split.
    - destruct (prim_ptype p), t; try discriminate H1; try reflexivity;
        cbn [ptype_eqb] in H1; apply N.eqb_eq in H1; subst; reflexivity.
    - destruct (ptext c u fmt p); [reflexivity|discriminate].
  Qed.

  Lemma deser_leaf t fmt ns p : leaf_ok t fmt p = true ->
    deser c [t] fmt ns (leaf_text fmt p) = ROk (VP p).
  Proof.
    intros H. destruct (leaf_ok_inv t fmt p H) as [Hok [Ht Hs]].
    unfold deser. rewrite <- Ht. rewrite (proj1 conv_law fmt ns p _ Hok Hs). reflexivity.
  Qed.

  Lemma token_ok_inv t fmt y : token_ok t fmt y = true ->
    exists p, y = VP p /\ leaf_ok t fmt p = true /\ RoundtripBase.clean py_isspace (leaf_text fmt p).
  Proof.
    unfold Fits.token_ok. destruct y; try discriminate. intros H.
    apply andb_true_iff in H as [H H2]. apply andb_true_iff in H as [H0 H1].
    exists p. split; [reflexivity|]. split; [exact H0|]. split.
    - destruct (Fits.leaf_text c u fmt p); [discriminate|discriminate].
    - apply negb_true_iff. exact H2.
  Qed.

  Lemma deser_tokens t fmt ns l : forallb (token_ok t fmt) l = true ->
    map_res (deser c [t] fmt ns) (split_ws py_isspace (join [32] (map (x_text fmt) l))) = ROk l.
  Proof.
    intros H. rewrite (split_join py_isspace py_space_32).
    - induction l as [|y l IH]; [reflexivity|]. cbn [forallb] in H. apply andb_true_iff in H as [Hy Hl].
      destruct (token_ok_inv t fmt y Hy) as [p [-> [Hp _]]].
      cbn [map map_res RoundtripGen.x_text]. rewrite (deser_leaf t fmt ns p Hp). cbn [rbind].
      rewrite (IH Hl). reflexivity.
    - apply Forall_forall. intros s Hs. apply in_map_iff in Hs as [y [<- Hy]].
      rewrite forallb_forall in H. destruct (token_ok_inv t fmt y (H y Hy)) as [p [-> [_ Hc]]]. exact Hc.
  Qed.
End Leaves.

(* ---------------------------------------------------------------- text of a value *)
Section Texts.
  Variable c : conv.
  Variable u : universe.
  Variable ok : prim -> bool.

  Notation leaf_ok := (leaf_ok c u ok).
  Notation token_ok := (token_ok c u ok py_isspace).
  Notation leaf_text := (leaf_text c u).
  Notation x_text := (x_text c u).
  Notation e_atoms := (e_atoms c u).
  Notation e_data := (e_data c u).

  Definition y_text (fmt : option str) (y : value) : str :=
    match y with
    | VP p => leaf_text fmt p
    | VList _ l => join [32] (map (x_text fmt) l)
    | _ => []
    end.

  (* a leaf or a list of tokens *)
  Inductive vshape (t : ptype) (fmt : option str) : value -> Prop :=
  | vs_leaf p : leaf_ok t fmt p = true -> vshape t fmt (VP p)
  | vs_tokens tf l : forallb (token_ok t fmt) l = true -> vshape t fmt (VList tf l).

  Lemma join_nonempty (a : str) r : a <> [] -> join [32] (a :: r) <> [].
  Proof. destruct r; cbn [join]; destruct a; try congruence; discriminate. Qed.

  Lemma e_data_spec t fmt y : vshape t fmt y ->
    e_data fmt y = (match y_text fmt y with [] => [] | _ => [EData (e_atoms fmt y)] end)
    /\ atoms_text (e_atoms fmt y) = Some (y_text fmt y).
  Proof.
    intros [p Hp|tf l Hl].
    - unfold RoundtripGen.e_data. rewrite (e_atoms_plain_leaf c u ok t fmt p Hp). cbn [y_text]. split; [|reflexivity].
      destruct (leaf_text fmt p); reflexivity.
    - unfold RoundtripGen.e_data. cbn [RoundtripGen.e_atoms y_text]. split; [|apply atoms_text_map].
      destruct l as [|y1 l']; [reflexivity|].
      cbn [forallb] in Hl. apply andb_true_iff in Hl as [H1 _].
      unfold Fits.token_ok in H1. destruct y1; try discriminate.
      apply andb_true_iff in H1 as [H1 _]. apply andb_true_iff in H1 as [_ H1].
      cbn [map RoundtripGen.x_text]. destruct (leaf_text fmt p) as [|ch s] eqn:E; [discriminate|].
      destruct l' as [|y2 l'']; reflexivity.
  Qed.

  (* a leaf, a list of tokens, or a QName *)
  Definition vshapeq (t : ptype) (fmt : option str) (y : value) : Prop :=
    vshape t fmt y \/ (t = TQName /\ exists q, y = VP (PQName q) /\ ok (PQName q) = true /\ qname_ok q = true).
  (* the character data / attribute value `s`, reported under the prefix map `ns`, reads as `y` *)
  Definition vtext (ns : nsmap) (fmt : option str) (y : value) (s : str) : Prop :=
    match y with
    | VP (PQName q) => resolve_qname ns s = Some (Bind.split_qname q)
    | _ => s = y_text fmt y
    end.

  Lemma vtext_plain t fmt y ns s : vshape t fmt y -> (vtext ns fmt y s <-> s = y_text fmt y).
  Proof.
    intros [p Hp|tf l Hl]; [|reflexivity]. destruct p; try reflexivity.
    rewrite (leaf_nq c u ok t fmt s0) in Hp. discriminate Hp.
  Qed.

  Lemma e_atoms_vshape_plain t fmt y : vshape t fmt y -> atoms_plain (e_atoms fmt y) = true.
  Proof.
    intros [p Hp|tf l Hl].
    - rewrite (e_atoms_plain_leaf c u ok t fmt p Hp). reflexivity.
    - cbn [RoundtripGen.e_atoms]. unfold atoms_plain. apply forallb_forall. intros a Ha. apply in_map_iff in Ha as [z [<- _]]. reflexivity.
  Qed.
  Lemma atoms_read_vtext t fmt y ns s : vshapeq t fmt y -> atoms_read ns (e_atoms fmt y) s -> vtext ns fmt y s.
  Proof.
    intros [Hs|[_ [q [-> _]]]] H; [|exact H].
    apply (atoms_read_plain ns _ s (e_atoms_vshape_plain t fmt y Hs)) in H.
    destruct (e_data_spec t fmt y Hs) as [_ Hat]. rewrite Hat in H. inversion H.
    apply (vtext_plain t fmt y ns _ Hs). reflexivity.
  Qed.
End Texts.

Lemma nodefault_none cfg cl : nodefault_free cfg = true ->
  match assocN cl (cf_nodefault cfg) with Some l => l | None => [] end = [].
Proof.
  unfold nodefault_free. intros H. destruct (assocN cl (cf_nodefault cfg)) as [l|] eqn:E; [|reflexivity].
  apply assocN_in in E. rewrite forallb_forall in H. specialize (H _ E). cbn [snd] in H.
  destruct l; [reflexivity|discriminate].
Qed.

Section Main.
  Variable cfg : pconfig.
  Variable c : conv.
  Variable u : universe.
  Variable ok : prim -> bool.
  Variable ign : bool.
  Variable replay : pconfig -> option cls -> list pevent -> outcome.
  Variable root : option cls.
  Variable ord : bool.           (* the readings keep the attribute order (Spec/Fits.v reads_o) *)
  Hypothesis conv_law : conv_roundtrips c u ok.
  Hypothesis Hnodef : nodefault_free cfg = true.
  (* attribute maps come back in the order the attributes are reported: the readings keep the order, or no
     class of the fragment has an attribute map *)
  Hypothesis Hmapsu : ord = true \/ nomaps_u u = true.

  Notation reads := (reads_o ord).
  Notation reads_kids := (reads_kids_o ord).
  Notation reads_attrs := (reads_attrs ord).
  Notation leaf_ok := (leaf_ok c u ok).
  Notation token_ok := (token_ok c u ok py_isspace).
  Notation fits := (fits c u ok py_isspace).
  Notation fits_elem := (fits_elem c u ok py_isspace).
  Notation fits_item := (fits_item c u ok).
  Notation fits_tokens := (fits_tokens c u ok py_isspace).
  Notation fits_attr := (fits_attr c u ok py_isspace).
  Notation fits_text := (fits_text c u ok py_isspace).
  Notation eobj := (eobj c u ign).
  Notation e_attr := (e_attr c u ign).
  Notation e_field := (e_field c u).
  Notation e_items := (e_items c u).
  Notation e_item := (e_item c u).
  Notation e_prim := (e_prim c u).
  Notation e_data := (e_data c u).
  Notation e_atoms := (e_atoms c u).
  Notation y_text := (y_text c u).
  Notation vshape := (vshape c u ok).
  Notation vshapeq := (vshapeq c u ok).
  Notation vtext := (vtext c u).
  Notation wfr := (wfr u).
  Notation prun := (Parser.run cfg c u replay root).
  Notation pstep := (Parser.step cfg c u replay root).

  Lemma is_tuple_f_eq f : is_tuple_f (Some f) = is_tuple f.
  Proof. destruct f; reflexivity. Qed.

  (* ---------------------------------------------------------------- one value from its text *)
  Lemma parse_var_text m var t y ns :
    v_types var = [t] -> vshape t (v_format var) y ->
    match y with
    | VList tp _ => exists tf, v_tokens_factory var = Some tf /\ tp = is_tuple tf
    | _ => v_tokens_factory var = None
    end ->
    parse_var c (fail_conv_warnings cfg) m var (Some (y_text (v_format var) y)) ns None None = ROk (y, []).
  Proof.
    intros Ht Hs Htf. unfold parse_var. cbn [truthy_str]. rewrite Ht.
    destruct Hs as [p Hp|tp l Hl].
    - rewrite Htf. cbn [parse_value y_text]. rewrite (deser_leaf c u ok conv_law t _ ns p Hp). reflexivity.
    - destruct Htf as [tf' [Htf ->]]. rewrite Htf. cbn [parse_value y_text].
      rewrite (deser_tokens c u ok conv_law t _ ns l Hl). cbn [rbind]. rewrite is_tuple_f_eq. reflexivity.
  Qed.

  (* ---------------------------------------------------------------- attributes: emitted or defaulted *)
  Definition tokens_agree (var : xvar) (x : value) : Prop :=
    match x with
    | VList tp _ => exists tf, v_tokens_factory var = Some tf /\ tp = is_tuple tf
    | _ => v_tokens_factory var = None
    end.

  Lemma parse_var_vtext m var t y ns s :
    v_types var = [t] -> vshapeq t (v_format var) y -> tokens_agree var y -> vtext ns (v_format var) y s ->
    parse_var c (fail_conv_warnings cfg) m var (Some s) ns None None = ROk (y, []).
  Proof.
    intros Ht [Hs|[Et [q [-> [Hok Hq]]]]] Htk Hv.
    - apply (vtext_plain c u ok t _ y ns s Hs) in Hv. subst s. apply (parse_var_text m var t y ns Ht Hs Htk).
    - subst t. cbn [RoundtripParse.vtext] in Hv. unfold parse_var. cbn [truthy_str]. rewrite Ht.
      cbn [tokens_agree] in Htk. rewrite Htk. cbn [parse_value]. unfold deser.
      rewrite (proj2 conv_law (v_format var) ns q s Hok Hv). reflexivity.
  Qed.

  Lemma default_call_value d : default_call d = default_value d.
  Proof. destruct d; reflexivity. Qed.

  Lemma py_eq_true_simple t d p :
    simple_default t d = true -> ptype_eqb (prim_ptype p) t = true ->
    py_eq (default_value d) (VP p) = Some true -> default_value d = VP p.
  Proof.
    intros Hd Hp. destruct d as [|dv| | |]; cbn [simple_default] in Hd; try discriminate.
    destruct dv as [|pd| | | | |]; try discriminate.
    destruct pd; try discriminate; destruct t; try discriminate;
        destruct p; try discriminate; cbn [default_value py_eq prim_py_eq]; intros E; inversion E as [E'].
    - apply str_eqb_eq in E'. subst. reflexivity.
    - apply Z.eqb_eq in E'. subst. reflexivity.
    - apply Bool.eqb_prop in E'. subst. reflexivity.
  Qed.

  Lemma attr_cases var x : wf_attr var = true -> fits_attr var x = true ->
    (e_attr var x = [] /\ default_call (v_default var) = x)
    \/ (exists t, e_attr var x = [(Bind.split_qname (v_qname var), e_atoms (v_format var) x)]
                  /\ v_types var = [t] /\ vshapeq t (v_format var) x /\ tokens_agree var x).
  Proof.
    intros Hw Hf. destruct (wf_attr_inv var Hw) as [Hk [Hc [Hcl [Hfa [Hr [t [Ht Hty0]]]]]]].
    unfold Fits.fits_attr, vtype in Hf. rewrite Ht in Hf. unfold RoundtripGen.e_attr.
    destruct Hty0 as [[Hs Hd]|[Et [Htf0 Hd0]]].
    2:{ subst t. rewrite Htf0 in Hf. cbn [ptype_eqb] in Hf.
        destruct x as [|p| | | | |]; try discriminate.
        - left. split; [reflexivity|]. rewrite Hd0. reflexivity.
        - unfold qleaf_ok in Hf. apply andb_true_iff in Hf as [Hokq Hq]. destruct p as [| | | | | |q1| |]; try discriminate Hq.
          cbn [is_array andb].
          destruct (ign && opt_skip var (VP (PQName q1))) eqn:Eo.
          + exfalso. apply andb_true_iff in Eo as [_ Eo]. unfold opt_skip in Eo.
            destruct (v_required var); [discriminate|]. rewrite Hd0 in Eo. cbn [default_value py_eq] in Eo. discriminate Eo.
          + right. exists TQName. split; [reflexivity|]. split; [exact Ht|]. split; [|exact Htf0].
            right. split; [reflexivity|]. exists q1. repeat split; assumption. }
    rewrite (simple_not_qname t Hs) in Hf.
    destruct (v_tokens_factory var) as [tf|] eqn:Etf.
    - destruct x as [| |tp l| | | |]; try discriminate. apply andb_true_iff in Hf as [Hflag Htok].
      assert (Etp : tp = is_tuple tf) by (destruct tp, (is_tuple tf); try reflexivity; discriminate).
      cbn [is_array py_truthy]. destruct l as [|y l'].
      + left. cbn [EventGen.nonempty negb andb]. split; [reflexivity|]. rewrite default_call_value.
        destruct tf, (v_default var); try discriminate Hd; subst; reflexivity.
      + cbn [EventGen.nonempty negb andb].
        destruct (ign && opt_skip var (VList tp (y :: l'))) eqn:Eo.
        * exfalso. apply andb_true_iff in Eo as [_ Eo]. unfold opt_skip in Eo.
          destruct (v_required var); [discriminate|].
          destruct tf, (v_default var); try discriminate Hd; cbn [default_value py_eq] in Eo;
            destruct (Bool.eqb _ tp); discriminate.
        * right. exists t. split; [reflexivity|]. split; [exact Ht|]. split; [left; apply vs_tokens; exact Htok|].
          exists tf. split; [exact Etf|exact Etp].
    - destruct x as [|p| | | | |]; try discriminate.
      + left. split; [reflexivity|]. destruct (v_default var); try discriminate. reflexivity.
      + cbn [is_array andb].
        assert (Hty : ptype_eqb (prim_ptype p) t = true).
        { unfold Fits.leaf_ok in Hf. apply andb_true_iff in Hf as [Hf _]. apply andb_true_iff in Hf as [_ Hf]. exact Hf. }
        destruct (ign && opt_skip var (VP p)) eqn:Eo.
        * left. split; [reflexivity|]. apply andb_true_iff in Eo as [_ Eo]. unfold opt_skip in Eo.
          destruct (v_required var); [discriminate|]. rewrite default_call_value.
          apply (py_eq_true_simple t _ p Hd Hty).
          destruct (py_eq (default_value (v_default var)) (VP p)) as [[|]|]; try discriminate. reflexivity.
        * right. exists t. split; [reflexivity|]. split; [exact Ht|]. split; [left; apply vs_leaf; exact Hf|]. exact Etf.
  Qed.

  (* ---------------------------------------------------------------- the statement proved by induction *)
  Definition elem_name (qn : option qname) (cl : cls) : qname :=
    match qn with
    | Some ((_ :: _) as q) => q
    | _ => match u_meta u cl with Some m => m_qname m | None => [] end
    end.

  (* the xsi:type the serializer adds for an instance of a subclass *)
  Definition xsi_val (xt : option qname) : option qname :=
    match xt with Some ((_ :: _) as q) => Some q | _ => None end.
  Definition xsi_okq (xt : option qname) : Prop :=
    forall q, xsi_val xt = Some q -> ok (PQName q) = true /\ qname_ok q = true.

  (* an attribute map of the class would capture the xsi:type attribute (finding C01-F2) *)
  Definition xsi_free (cl : cls) (xt : option qname) : Prop :=
    xsi_val xt <> None -> forall m, u_meta u cl = Some m -> find_any_attributes m XSI_TYPE = None.
  (* nk: the element keeps xsi:nil="true" - an empty instance of a nillable class whose attribute map (if any)
     does not capture xsi:nil *)
  Definition nil_ok (cl : cls) (o : value) (nk : bool) : Prop :=
    nk = true -> strict_empty u o = true
                 /\ forall m, u_meta u cl = Some m -> m_nillable m = true /\ find_any_attributes m XSI_NIL = None.
  Definition xn_of (nk : bool) : option bool := if nk then Some true else None.
  Lemma xn_true nk : match xn_of nk with Some true => true | _ => false end = nk.
  Proof. destruct nk; reflexivity. Qed.
  Lemma nil_ok_item var k cl' fs' n :
    v_types var = [TClass k] -> fits_item (fits n) var (VObj cl' fs') = true -> fits n cl' (VObj cl' fs') = true ->
    nil_ok cl' (VObj cl' fs') (nil_kept u (v_nillable var || cnil u (VObj cl' fs')) (VObj cl' fs')).
  Proof.
    intros Hty Hfi Hf. unfold nil_ok, nil_kept. intros H. apply andb_true_iff in H as [Hb Hnc]. apply negb_true_iff in Hnc.
    destruct (cnil u (VObj cl' fs')) eqn:Ec.
    - destruct (fits_content c u ok py_isspace _ _ _ Hf Ec) as [Hh|[_ [Hse [m0 [Hm0 [Hn0 Hf0]]]]]]; [rewrite Hh in Hnc; discriminate Hnc|].
      split; [exact Hse|]. intros m1 Hm1. rewrite Hm0 in Hm1. inversion Hm1; subst m1. split; assumption.
    - rewrite orb_false_r in Hb.
      destruct (fits_item_content c u ok _ var k _ Hty Hfi Hb) as [Hh|Hh]; [rewrite Hh in Hnc; discriminate Hnc|].
      rewrite Hh in Ec. discriminate Ec.
  Qed.
  Lemma nil_ok_top cl o n : fits n cl o = true -> nil_ok cl o (nil_kept u (cnil u o) o).
  Proof.
    intros Hf. unfold nil_ok, nil_kept. intros H. apply andb_true_iff in H as [Hb Hnc]. apply negb_true_iff in Hnc.
    destruct (fits_content c u ok py_isspace _ _ _ Hf Hb) as [Hh|[_ [Hse [m0 [Hm0 [Hn0 Hf0]]]]]]; [rewrite Hh in Hnc; discriminate Hnc|].
    split; [exact Hse|]. intros m1 Hm1. rewrite Hm0 in Hm1. inversion Hm1; subst m1. split; assumption.
  Qed.
  Definition obj_parses (k : nat) : Prop :=
    forall cl o qn xt nk, wfr cl -> fits k cl o = true -> xsi_okq xt -> xsi_free cl xt -> nil_ok cl o nk ->
    forall pevs, reads (add_nil_e nk (add_xsi_e xt (eobj k qn o))) pevs ->
    exists attrs ns inner,
      pevs = PStart (elem_name qn cl) attrs ns :: inner
      /\ Parser.xsi_type_of c attrs ns = ROk (xsi_val xt) /\ xsi_nil_of attrs = xn_of nk
      /\ forall m, u_meta u cl = Some m -> forall xtv Q objs W rest,
           prun (mk_pstate (NElement (mk_enode m attrs ns (length objs) false xtv (xn_of nk) [] []) :: Q) objs W) (inner ++ rest)
           = prun (mk_pstate Q (objs ++ [(Some (elem_name qn cl), o)]) W) rest.

  Lemma reads_content_elems ns ekids text kes :
    (forall e, In e ekids -> exists q a k, e = EElem q a k) ->
    match ekids with
    | [] => text = None /\ kes = []
    | [EData atoms] => exists s, atoms_read ns atoms s /\ s <> [] /\ text = Some s /\ kes = []
    | _ =>
        blank_o text = true
        /\ (fix rk (ks : list XmlNs.enode) (kes : list pevent) {struct ks} : Prop :=
              match ks with
              | [] => kes = []
              | k :: r => exists a b, kes = a ++ b /\ reads k a /\ rk r b
              end) ekids kes
    end -> reads_kids ekids kes.
  Proof.
    intros Hall H. destruct ekids as [|e1 r]; [destruct H as [_ ->]; reflexivity|].
    destruct (Hall e1 (or_introl eq_refl)) as [q [a [k ->]]]. destruct H as [_ H]. exact H.
  Qed.

  (* ---------------------------------------------------------------- one object *)
  Section Obj.
    Variable cl : cls.
    Variable fs : list (str * value).
    Variable m : xmeta.
    Hypothesis Hwc : wf_class m = true.
    Hypothesis Hmc : m_clazz m = cl.
    Hypothesis Hnames : map fst fs = map v_name (get_all_vars m).
    Hypothesis Hfa : forall e, In e (m_attributes m) -> fits_attr (snd e) (field_of fs (snd e)) = true.

    Variable xt0 : option qname.      (* the xsi:type attribute of this element, if any *)
    Hypothesis Hxt0 : xsi_okq xt0.
    (* the attribute map of the class, if it has one: its value fits, the readings keep the attribute order,
       and it does not capture xsi:type *)
    Hypothesis Hfm : forall av, m_any_attributes m = [av] -> fits_map ok m av (field_of fs av) = true.
    Hypothesis Hmaps : ord = true \/ m_any_attributes m = [].
    Hypothesis Hxfree : xsi_val xt0 <> None -> find_any_attributes m XSI_TYPE = None.
    Variable nk0 : bool.              (* the element keeps xsi:nil="true" *)
    Hypothesis Hnk0 : nk0 = true -> m_nillable m = true /\ find_any_attributes m XSI_NIL = None.

    Let F (var : xvar) : value := field_of fs var.
    Let avars := get_attribute_vars m.
    Let eats := flat_map (fun var => e_attr var (F var)) avars.
    Let eatsx := eats ++ xsi_attr_e xt0 ++ nil_attr_k nk0.
    (* the attributes bound to fields: everything but xsi:type *)
    Definition decl (attrs : list (qname * str)) : list (qname * str) :=
      filter (fun qs => negb (str_eqb (fst qs) XSI_TYPE)) attrs.

    Definition entry (q : qname) : str * pval :=
      match assoc q (m_attributes m) with
      | Some var => (v_name var, PV (F var))
      | None => ([], PV VNone)
      end.

    (* an attribute the document carries: its field, and the text it carries *)
    Definition carried (ns : nsmap) (q : qname) (s : str) : Prop :=
      exists var t, In (q, var) (m_attributes m) /\ v_qname var = q /\ wf_attr var = true
                    /\ v_types var = [t] /\ vshapeq t (v_format var) (F var) /\ tokens_agree var (F var)
                    /\ vtext ns (v_format var) (F var) s.

    Lemma assoc_attr q var : In (q, var) (m_attributes m) -> assoc q (m_attributes m) = Some var.
    Proof.
      intros H. destruct (wf_class_inv m Hwc) as [F1 F2 F3 F4 F5 F6 F7 F8 F9 F10 F11 F12 F13].
      apply assoc_nodup; assumption.
    Qed.

    Lemma xsi_not_attr : assoc XSI_TYPE (m_attributes m) = None.
    Proof.
      destruct (wf_class_inv m Hwc) as [F1 F2 F3 F4 F5 F6 F7 F8 F9 F10 F11 F12 F13].
      apply assoc_none. intros Hi. apply in_map_iff in Hi as [[q var] [Eq Hin]]. cbn [fst] in Eq. subst q.
      rewrite forallb_forall in F9. specialize (F9 _ Hin). cbn [fst snd] in F9. apply andb_true_iff in F9 as [Hq Hw].
      apply str_eqb_eq in Hq. destruct (wf_attr_inv var Hw) as [_ [_ [_ [_ [Hr _]]]]].
      unfold reserved_name in Hr. rewrite Hq, str_eqb_refl, orb_true_r in Hr. discriminate Hr.
    Qed.

    Lemma xsi_type_uri : ostr_eqb (target_uri XSI_TYPE) (Some XSI_NS) = true.
    Proof. vm_compute. reflexivity. Qed.

    Lemma NoDup_map_inj_in {A B} (g : A -> B) l :
      (forall x y, In x l -> In y l -> g x = g y -> x = y) -> NoDup l -> NoDup (map g l).
    Proof.
      induction l as [|a r IH]; intros Hinj Hn; [constructor|]. inversion Hn as [|? ? Ha Hr]; subst.
      cbn [map]. constructor.
      - intros Hin. apply in_map_iff in Hin as [y [Ey Hy]]. apply Ha.
        rewrite (Hinj a y (or_introl eq_refl) (or_intror Hy) (eq_sym Ey)). exact Hy.
      - apply IH; [|exact Hr]. intros x y Hx Hy. apply Hinj; right; assumption.
    Qed.

    Lemma names_inj x y : In x (get_all_vars m) -> In y (get_all_vars m) -> v_name x = v_name y -> x = y.
    Proof.
      destruct (wf_class_inv m Hwc) as [F1 F2 F3 F4 F5 F6 F7 F8 F9 F10 F11 F12 F13].
      apply (nodup_map_inj v_name); exact F12.
    Qed.

    Lemma avar_common var : In var avars -> var_common var = true.
    Proof.
      intros Ha. destruct (wf_class_avar m var Hwc Ha) as [[Hw _]|[_ Hwv]];
        [destruct (wf_attr_inv var Hw) as [_ [Hc _]]; exact Hc|destruct (wf_anyattr_inv var Hwv) as [_ [_ Hc]]; exact Hc].
    Qed.

    Lemma avar_all var : In var avars -> In var (get_all_vars m).
    Proof. intros H. apply (in_allvars m var Hwc). left; exact H. Qed.

    Lemma nodup_keys_unique {A} (l : list (qname * A)) k a b :
      NoDup (map fst l) -> In (k, a) l -> In (k, b) l -> a = b.
    Proof.
      induction l as [|[k0 x] r IH]; intros Hn Ha Hb; [destruct Ha|]. cbn [map fst] in Hn. inversion Hn as [|? ? Hk Hr]; subst.
      destruct Ha as [Ea|Ha], Hb as [Eb|Hb].
      - congruence.
      - inversion Ea; subst. exfalso. apply Hk. apply in_map_iff. exists (k, b). split; [reflexivity|exact Hb].
      - inversion Eb; subst. exfalso. apply Hk. apply in_map_iff. exists (k, a). split; [reflexivity|exact Ha].
      - apply (IH Hr Ha Hb).
    Qed.

    (* the names in the event: those of the emitted attributes, and xsi:type *)
    Definition xsi_name : list qname :=
      match xsi_val xt0 with Some _ => [XSI_TYPE] | None => [] end ++ (if nk0 then [XSI_NIL] else []).
    Lemma xsi_name_in q : In q xsi_name -> (q = XSI_TYPE /\ xsi_val xt0 <> None) \/ (q = XSI_NIL /\ nk0 = true).
    Proof.
      unfold xsi_name. intros H. apply in_app_or in H as [H|H].
      - destruct (xsi_val xt0); [|destruct H]. destruct H as [<-|[]]. left. split; [reflexivity|discriminate].
      - destruct nk0; [|destruct H]. destruct H as [<-|[]]. right. split; reflexivity.
    Qed.
    Lemma xsi_nil_not_attr : assoc XSI_NIL (m_attributes m) = None.
    Proof.
      destruct (wf_class_inv m Hwc) as [F1 F2 F3 F4 F5 F6 F7 F8 F9 F10 F11 F12 F13].
      apply assoc_none. intros Hi. apply in_map_iff in Hi as [[q var] [Eq Hin]]. cbn [fst] in Eq. subst q.
      rewrite forallb_forall in F9. specialize (F9 _ Hin). cbn [fst snd] in F9. apply andb_true_iff in F9 as [Hq Hw].
      apply str_eqb_eq in Hq. destruct (wf_attr_inv var Hw) as [_ [_ [_ [_ [Hr _]]]]].
      unfold reserved_name in Hr. rewrite Hq, str_eqb_refl in Hr. discriminate Hr.
    Qed.

    Lemma xsi_attr_e_val : xsi_attr_e xt0 = match xsi_val xt0 with
                                            | Some q => [(Bind.split_qname XSI_TYPE, [AQName (Bind.split_qname q)])]
                                            | None => []
                                            end.
    Proof. destruct xt0 as [[|ch q]|]; reflexivity. Qed.

    (* ---- the attribute map *)
    Definition declared (var : xvar) : Prop := wf_attr var = true /\ In (v_qname var, var) (m_attributes m).
    Definition mapval : list (qname * str) :=
      match m_any_attributes m with
      | [av] => match F av with VMap mm => mm | _ => [] end
      | _ => []
      end.
    Definition mapped (q : qname) (s : str) : Prop := In (q, s) mapval.

    Lemma mapvar_val av : is_mapvar m av -> F av = VMap mapval.
    Proof.
      intros [E _]. unfold mapval. rewrite E. destruct (fits_map_inv ok m av _ (Hfm av E)) as [mm [Ex _]].
      unfold F in *. rewrite Ex. reflexivity.
    Qed.

    Lemma mapval_facts : NoDup (map fst mapval)
      /\ forall kv, In kv mapval ->
           (exists av, is_mapvar m av /\ match_namespace av (fst kv) = true)
           /\ assoc (fst kv) (m_attributes m) = None /\ reserved_name (fst kv) = false /\ map_value_ok ok (snd kv) = true.
    Proof.
      unfold mapval. destruct (wf_class_inv m Hwc) as [F1 F2 F3 F4 F5 F6 F7 F8 F9 F10 F11 F12 F13].
      destruct F3 as [E|[av [E Hwv]]]; rewrite E.
      - split; [constructor|intros kv []].
      - destruct (fits_map_inv ok m av _ (Hfm av E)) as [mm [Ex [Hnd Hall]]]. unfold F. rewrite Ex. split; [exact Hnd|].
        intros kv Hkv. destruct (Hall kv Hkv) as [H1 [H2 [H3 H4]]].
        split; [exists av; split; [split; assumption|exact H1]|]. repeat split; assumption.
    Qed.

    Lemma mapval_nomap : m_any_attributes m = [] -> mapval = [].
    Proof. intros E. unfold mapval. rewrite E. reflexivity. Qed.

    Lemma declared_in_avars var : declared var -> In var avars.
    Proof. intros [_ Hin]. apply (declared_in m _ var Hwc Hin). Qed.

    Lemma declared_not_map var : declared var -> forall mm, F var <> VMap mm.
    Proof.
      intros [Hw Hin] mm E. pose proof (Hfa _ Hin) as Hf. cbn [snd] in Hf. unfold F in E. rewrite E in Hf.
      unfold Fits.fits_attr in Hf. destruct (v_tokens_factory var); discriminate Hf.
    Qed.

    Lemma declared_mapvar_neq var av : declared var -> is_mapvar m av -> v_name var <> v_name av.
    Proof.
      intros Hd Hm E. pose proof Hd as [Hw _]. pose proof Hm as [_ Hwv].
      assert (var = av).
      { apply names_inj; [apply avar_all; apply declared_in_avars; exact Hd|apply avar_all; apply (mapvar_in m av Hwc Hm)|exact E]. }
      subst av. destruct (wf_attr_inv var Hw) as [Hk _]. destruct (wf_anyattr_inv var Hwv) as [_ [Hk' _]]. congruence.
    Qed.

    (* the names of the attributes one field contributes *)
    Definition vnames (var : xvar) : list qname :=
      match F var with
      | VMap mm => map fst mm
      | _ => match e_attr var (F var) with [] => [] | _ => [v_qname var] end
      end.
    Definition enames : list qname := flat_map vnames avars ++ xsi_name.

    Lemma vnames_declared var : declared var -> vnames var = [] \/ vnames var = [v_qname var].
    Proof.
      intros Hd. unfold vnames. pose proof (declared_not_map var Hd) as Hn.
      destruct (F var) as [| | | | | |mm0] eqn:Ex; try (destruct (e_attr var _); [left|right]; reflexivity).
      exfalso. apply (Hn mm0). first [exact Ex|reflexivity].
    Qed.

    Lemma vnames_split var : In var avars -> map fst (e_attr var (F var)) = map Bind.split_qname (vnames var).
    Proof.
      intros Hin. destruct (wf_class_avar m var Hwc Hin) as [[Hw Hina]|Hmv].
      - pose proof (declared_not_map var (conj Hw Hina)) as Hn.
        destruct (attr_cases var (F var) Hw (Hfa _ Hina)) as [[E _]|[t [E _]]].
        + unfold vnames. rewrite E. destruct (F var) as [| | | | | |mm0] eqn:Ex; try reflexivity. exfalso. apply (Hn mm0). first [exact Ex|reflexivity].
        + unfold vnames. rewrite E. destruct (F var) as [| | | | | |mm0] eqn:Ex; try reflexivity. exfalso. apply (Hn mm0). first [exact Ex|reflexivity].
      - unfold vnames. rewrite (mapvar_val var Hmv). cbn [RoundtripGen.e_attr]. rewrite !map_map. reflexivity.
    Qed.

    Lemma eats_names : map fst eatsx = map Bind.split_qname enames.
    Proof.
      unfold eatsx, enames, eats. rewrite !map_app. f_equal.
      - assert (H : forall l, incl l avars ->
                  map fst (flat_map (fun var => e_attr var (F var)) l) = map Bind.split_qname (flat_map vnames l)).
        { induction l as [|var r IH]; intros Hi; [reflexivity|]. cbn [flat_map]. rewrite !map_app.
          rewrite (vnames_split var (Hi var (or_introl eq_refl))), IH; [reflexivity|].
          intros x Hx. apply Hi. right; exact Hx. }
        apply H. apply incl_refl.
      - unfold xsi_name. rewrite map_app. f_equal.
        + rewrite xsi_attr_e_val. destruct (xsi_val xt0); reflexivity.
        + unfold nil_attr_k. destruct nk0; reflexivity.
    Qed.

    Lemma enames_nodup : NoDup enames.
    Proof.
      destruct (wf_class_inv m Hwc) as [F1 F2 F3 F4 F5 F6 F7 F8 F9 F10 F11 F12 F13].
      destruct mapval_facts as [Hndm Hmf].
      assert (Hdq : forall e, In e (m_attributes m) -> declared (snd e) /\ v_qname (snd e) = fst e).
      { intros e He. rewrite forallb_forall in F9. specialize (F9 e He). apply andb_true_iff in F9 as [Hq Hw].
        apply str_eqb_eq in Hq. split; [|exact Hq]. split; [exact Hw|]. destruct e as [q0 v0]. cbn [fst snd] in *. rewrite Hq. exact He. }
      assert (Hdecl : NoDup (flat_map vnames (map snd (m_attributes m)))).
      { rewrite flat_map_map. rewrite <- (map_id (flat_map (fun x : qname * xvar => vnames (snd x)) (m_attributes m))).
        apply (nodup_flat_opt (fun e : qname * xvar => fst e) (fun q : qname => q)); [exact F10|].
        intros e He. destruct (Hdq e He) as [Hd Hq]. destruct (vnames_declared (snd e) Hd) as [E|E]; rewrite E; [left; reflexivity|].
        right. eexists; split; [reflexivity|exact Hq]. }
      assert (Hdecl_in : forall q, In q (flat_map vnames (map snd (m_attributes m))) -> In q (map fst (m_attributes m))).
      { intros q Hq. apply in_flat_map in Hq as [var [Hvar Hq]]. apply in_map_iff in Hvar as [e [<- He]].
        destruct (Hdq e He) as [Hd Hqe]. destruct (vnames_declared (snd e) Hd) as [E|E]; rewrite E in Hq; [destruct Hq|].
        destruct Hq as [<-|[]]. rewrite Hqe. apply in_map. exact He. }
      assert (Hav : NoDup (flat_map vnames avars)
                    /\ forall q, In q (flat_map vnames avars) -> In q (map fst mapval) \/ In q (map fst (m_attributes m))).
      { unfold avars. rewrite (avars_eq m Hwc).
        assert (Hperm : Permutation (flat_map vnames (sort_by_index (m_any_attributes m ++ map snd (m_attributes m))))
                                    (flat_map vnames (m_any_attributes m ++ map snd (m_attributes m)))).
        { apply Permutation.Permutation_flat_map. apply sort_perm. }
        assert (Hun : NoDup (flat_map vnames (m_any_attributes m ++ map snd (m_attributes m)))
                      /\ forall q, In q (flat_map vnames (m_any_attributes m ++ map snd (m_attributes m))) ->
                           In q (map fst mapval) \/ In q (map fst (m_attributes m))).
        { rewrite flat_map_app. destruct F3 as [E|[av [E Hwv]]].
          - rewrite E. cbn [flat_map app]. split; [exact Hdecl|]. intros q Hq. right. apply Hdecl_in. exact Hq.
          - rewrite E. cbn [flat_map]. rewrite app_nil_r.
            assert (Ev : vnames av = map fst mapval) by (unfold vnames; rewrite (mapvar_val av (conj E Hwv)); reflexivity).
            rewrite Ev. split.
            + apply NoDup_app_intro; [exact Hndm|exact Hdecl|].
              intros q Hq1 Hq2. apply Hdecl_in in Hq2. apply in_map_iff in Hq1 as [kv [<- Hkv]].
              destruct (Hmf kv Hkv) as [_ [Hna _]]. destruct (assoc_some_in _ _ Hq2) as [v0 Hv0]. congruence.
            + intros q Hq. apply in_app_or in Hq as [Hq|Hq]; [left; exact Hq|right; apply Hdecl_in; exact Hq]. }
        destruct Hun as [Hn1 Hn2]. split.
        - eapply Permutation_NoDup; [apply Permutation_sym; exact Hperm|exact Hn1].
        - intros q Hq. apply Hn2. eapply Permutation_in; [exact Hperm|exact Hq]. }
      destruct Hav as [Hn1 Hn2].
      unfold enames. apply NoDup_app_intro; [exact Hn1| |].
      - unfold xsi_name. destruct (xsi_val xt0), nk0; cbn [app].
        + constructor; [intros [E|[]]; vm_compute in E; discriminate E|constructor; [intros []|constructor]].
        + constructor; [intros []|constructor].
        + constructor; [intros []|constructor].
        + constructor.
      - intros q Hq1 Hq2. apply xsi_name_in in Hq2.
        destruct (Hn2 _ Hq1) as [Hq|Hq].
        + apply in_map_iff in Hq as [kv [Ek Hkv]]. destruct (Hmf kv Hkv) as [_ [_ [Hr _]]].
          unfold reserved_name in Hr. destruct Hq2 as [[-> _]|[-> _]]; rewrite Ek, str_eqb_refl in Hr; [rewrite orb_true_r in Hr|]; discriminate Hr.
        + destruct (assoc_some_in _ _ Hq) as [v0 Hv0].
          destruct Hq2 as [[-> _]|[-> _]]; [rewrite xsi_not_attr in Hv0|rewrite xsi_nil_not_attr in Hv0]; discriminate Hv0.
    Qed.

    (* every attribute of the event comes from one entry of the expected attributes *)
    Lemma attrs_from_eats ns attrs : reads_attrs ns eatsx attrs ->
      NoDup (map fst attrs)
      /\ (forall q s, In (q, s) attrs -> exists ea, In ea eatsx /\ q = clark_of (fst ea) /\ atoms_read ns (snd ea) s)
      /\ (forall ea, In ea eatsx -> exists s, atoms_read ns (snd ea) s /\ In (clark_of (fst ea), s) attrs)
      /\ (ord = true -> map fst attrs = enames).
    Proof.
      intros [Hnd [Hlen [Hall Hord]]].
      assert (Ecl : map (fun ea : XmlNs.qname * list atom => clark_of (fst ea)) eatsx = enames).
      { rewrite <- (map_map fst clark_of), eats_names, map_map.
        rewrite <- (map_id enames) at 2. apply map_ext. intros q. apply clark_split. }
      split; [exact Hnd|]. split; [|split; [exact Hall|intros Ho; rewrite (Hord Ho); exact Ecl]].
      assert (HK1 : incl enames (map fst attrs)).
      { intros q Hq. rewrite <- Ecl in Hq. apply in_map_iff in Hq as [ea [<- Hea]].
        destruct (Hall ea Hea) as [v [_ Hi]]. apply in_map_iff. exists (clark_of (fst ea), v). split; [reflexivity|exact Hi]. }
      assert (HK4 : incl (map fst attrs) enames).
      { apply NoDup_length_incl; [exact enames_nodup| |exact HK1]. rewrite map_length. apply Nat.eq_le_incl.
        rewrite Hlen, <- Ecl, map_length. reflexivity. }
      intros q s Hqs.
      assert (Hq : In q enames) by (apply HK4; apply in_map_iff; exists (q, s); split; [reflexivity|exact Hqs]).
      rewrite <- Ecl in Hq. apply in_map_iff in Hq as [ea [Eq Hea]].
      destruct (Hall ea Hea) as [v [Hv Hi]]. rewrite Eq in Hi.
      rewrite (nodup_keys_unique attrs q s v Hnd Hqs Hi). exists ea. split; [exact Hea|]. split; [symmetry; exact Eq|exact Hv].
    Qed.

    Lemma eats_cases ea : In ea eats ->
      (exists var t, declared var /\ ea = (Bind.split_qname (v_qname var), e_atoms (v_format var) (F var))
                     /\ v_types var = [t] /\ vshapeq t (v_format var) (F var) /\ tokens_agree var (F var))
      \/ (exists kv, In kv mapval /\ ea = (Bind.split_qname (fst kv), [AText (snd kv)])).
    Proof.
      intros Hea. unfold eats in Hea. apply in_flat_map in Hea as [var [Hin Hea]].
      destruct (wf_class_avar m var Hwc Hin) as [[Hw Hina]|Hmv].
      - left. destruct (attr_cases var (F var) Hw (Hfa _ Hina)) as [[E _]|[t [E [Ht [Hs Htk]]]]]; rewrite E in Hea; [destruct Hea|].
        destruct Hea as [<-|[]]. exists var, t. repeat split; assumption.
      - right. rewrite (mapvar_val var Hmv) in Hea. cbn [RoundtripGen.e_attr] in Hea.
        apply in_map_iff in Hea as [kv [<- Hkv]]. exists kv. split; [exact Hkv|reflexivity].
    Qed.

    Lemma reads_attrs_carried ns attrs : reads_attrs ns eatsx attrs ->
      (forall q s, In (q, s) attrs ->
         (q = XSI_TYPE /\ exists xq, xsi_val xt0 = Some xq /\ resolve_qname ns s = Some (Bind.split_qname xq))
         \/ (q <> XSI_TYPE /\ carried ns q s)
         \/ (q <> XSI_TYPE /\ mapped q s)
         \/ (q = XSI_NIL /\ nk0 = true /\ s = EventGen.TRUE_STR))
      /\ (forall var, declared var -> e_attr var (F var) <> [] -> exists s, In (v_qname var, s) attrs)
      /\ NoDup (map fst attrs)
      /\ (xsi_val xt0 = None -> ~ In XSI_TYPE (map fst attrs))
      /\ (forall xq, xsi_val xt0 = Some xq -> exists s, In (XSI_TYPE, s) attrs /\ resolve_qname ns s = Some (Bind.split_qname xq))
      /\ (nk0 = true -> In (XSI_NIL, EventGen.TRUE_STR) attrs)
      /\ (nk0 = false -> ~ In XSI_NIL (map fst attrs)).
    Proof.
      intros Hr. destruct (attrs_from_eats ns attrs Hr) as [Hnd [Hfrom [Hall _]]].
      destruct mapval_facts as [_ Hmf].
      assert (Hcls : forall q s, In (q, s) attrs ->
                (q = XSI_TYPE /\ exists xq, xsi_val xt0 = Some xq /\ resolve_qname ns s = Some (Bind.split_qname xq))
                \/ (q <> XSI_TYPE /\ carried ns q s)
                \/ (q <> XSI_TYPE /\ mapped q s)
                \/ (q = XSI_NIL /\ nk0 = true /\ s = EventGen.TRUE_STR)).
      { intros q s Hqs. destruct (Hfrom q s Hqs) as [ea [Hea [Eq Hv]]].
        unfold eatsx in Hea. apply in_app_or in Hea as [Hea|Hea].
        - destruct (eats_cases ea Hea) as [[var [t [[Hw Hina] [-> [Ht [Hs Htk]]]]]]|[kv [Hkv ->]]]; cbn [fst snd] in *; rewrite clark_split in Eq; subst q.
          + right. left. split.
            * intros Ex. destruct (wf_attr_inv var Hw) as [_ [_ [_ [_ [Hr' _]]]]].
              unfold reserved_name in Hr'. rewrite Ex, str_eqb_refl, orb_true_r in Hr'. discriminate Hr'.
            * exists var, t. repeat split; try assumption. apply (atoms_read_vtext c u ok t _ _ ns s Hs Hv).
          + right. right. left. destruct (Hmf kv Hkv) as [_ [_ [Hres _]]]. split.
            * intros Ex. unfold reserved_name in Hres. rewrite Ex, str_eqb_refl, orb_true_r in Hres. discriminate Hres.
            * cbn [atoms_read atoms_text] in Hv. unfold mapped. assert (Es : s = snd kv) by (cbn in Hv; inversion Hv; reflexivity).
              rewrite Es. destruct kv; exact Hkv.
        - apply in_app_or in Hea as [Hea|Hea].
          + left. rewrite xsi_attr_e_val in Hea. destruct (xsi_val xt0) as [xq|] eqn:Ex; [|destruct Hea]. destruct Hea as [<-|[]].
            cbn [fst snd atoms_read] in *. rewrite clark_split in Eq. split; [exact Eq|]. exists xq. split; [reflexivity|exact Hv].
          + right. right. right. unfold nil_attr_k in Hea. destruct nk0; [|destruct Hea]. destruct Hea as [<-|[]].
            cbn [fst snd atoms_read] in *. rewrite clark_split in Eq. split; [exact Eq|]. split; [reflexivity|].
            cbn in Hv. inversion Hv. reflexivity. }
      assert (Hnt : XSI_NIL <> XSI_TYPE) by (vm_compute; discriminate).
      split; [exact Hcls|]. split; [|split; [exact Hnd|split; [|split; [|split]]]].
      - intros var [Hw Hina] Hne.
        destruct (attr_cases var (F var) Hw (Hfa _ Hina)) as [[E _]|[t [E _]]]; [congruence|].
        destruct (Hall (Bind.split_qname (v_qname var), e_atoms (v_format var) (F var))) as [v [_ Hi]].
        { unfold eatsx, eats. apply in_or_app. left. apply in_flat_map. exists var.
          split; [apply declared_in_avars; split; assumption|]. rewrite E. left; reflexivity. }
        cbn [fst] in Hi. rewrite clark_split in Hi. exists v. exact Hi.
      - intros Hx Hi. apply in_map_iff in Hi as [[q s] [Eq Hqs]]. cbn [fst] in Eq. subst q.
        destruct (Hcls _ _ Hqs) as [[_ [xq [Ex _]]]|[[Hn _]|[[Hn _]|[Hn _]]]]; [congruence|apply Hn; reflexivity|apply Hn; reflexivity|].
        apply Hnt. symmetry. exact Hn.
      - intros xq Hx. destruct (Hall (Bind.split_qname XSI_TYPE, [AQName (Bind.split_qname xq)])) as [v [Hv Hinv]].
        { unfold eatsx. apply in_or_app. right. apply in_or_app. left. rewrite xsi_attr_e_val, Hx. left; reflexivity. }
        cbn [fst snd atoms_read] in *. rewrite clark_split in Hinv. exists v. split; assumption.
      - intros Hk. destruct (Hall (Bind.split_qname XSI_NIL, [AText EventGen.TRUE_STR])) as [v [Hv Hinv]].
        { unfold eatsx. apply in_or_app. right. apply in_or_app. right. unfold nil_attr_k. rewrite Hk. left; reflexivity. }
        cbn [fst snd atoms_read] in *. rewrite clark_split in Hinv. cbn in Hv. inversion Hv; subst v. exact Hinv.
      - intros Hk Hi. apply in_map_iff in Hi as [[q s] [Eq Hqs]]. cbn [fst] in Eq. subst q.
        destruct (Hcls _ _ Hqs) as [[E _]|[[_ Hc]|[[_ Hm]|[_ [E _]]]]]; [exact (Hnt E)| | |congruence].
        + destruct Hc as [var [t [Hin _]]]. pose proof xsi_nil_not_attr as Hxa. rewrite (assoc_attr _ _ Hin) in Hxa. discriminate Hxa.
        + destruct (Hmf _ Hm) as [_ [_ [Hres _]]]. cbn [fst] in Hres. unfold reserved_name in Hres. rewrite str_eqb_refl in Hres. discriminate Hres.
    Qed.

    Lemma pget_app_other k k' v (p : params) : k <> k' -> pget k (p ++ [(k', v)]) = pget k p.
    Proof.
      unfold pget. intros Hne. induction p as [|[k0 x] r IH]; cbn [app assoc].
      - destruct (str_eqb_spec k k'); [contradiction|reflexivity].
      - destruct (str_eqb k k0); [reflexivity|exact IH].
    Qed.

    Lemma filter_none {A} (f : A -> bool) l : (forall x, In x l -> f x = false) -> filter f l = [].
    Proof.
      induction l as [|x r IH]; intros H; [reflexivity|]. cbn [filter]. rewrite (H x (or_introl eq_refl)).
      apply IH. intros y Hy. apply H. right; exact Hy.
    Qed.

    Lemma nodup_app_disj' {A} (a b : list A) : NoDup (a ++ b) -> forall x, In x a -> In x b -> False.
    Proof.
      induction a as [|y a IH]; intros Hn x Ha Hb; [destruct Ha|]. cbn [app] in Hn. inversion Hn as [|? ? Hy Hn']; subst.
      destruct Ha as [->|Ha]; [apply Hy; apply in_or_app; right; exact Hb|apply (IH Hn' x Ha Hb)].
    Qed.

    (* ---- the map attributes come in the order of the map *)
    Definition ismap (qs : qname * str) : bool := existsb (str_eqb (fst qs)) (map fst mapval).

    Lemma ismap_in q s : ismap (q, s) = true <-> In q (map fst mapval).
    Proof.
      unfold ismap. cbn [fst]. rewrite existsb_exists. split.
      - intros [x [Hx E]]. apply str_eqb_eq in E. subst x. exact Hx.
      - intros H. exists q. split; [exact H|apply str_eqb_refl].
    Qed.

    Lemma filter_mid {A} (f : A -> bool) (a b c0 : list A) :
      (forall x, In x a -> f x = false) -> (forall x, In x b -> f x = true) -> (forall x, In x c0 -> f x = false) ->
      filter f (a ++ b ++ c0) = b.
    Proof.
      intros Ha Hb Hc. rewrite !filter_app.
      assert (E1 : filter f a = []) by (induction a as [|x r IH]; [reflexivity|]; cbn [filter]; rewrite (Ha x (or_introl eq_refl)); apply IH; intros y Hy; apply Ha; right; exact Hy).
      assert (E3 : filter f c0 = []) by (induction c0 as [|x r IH]; [reflexivity|]; cbn [filter]; rewrite (Hc x (or_introl eq_refl)); apply IH; intros y Hy; apply Hc; right; exact Hy).
      assert (E2 : filter f b = b) by (induction b as [|x r IH]; [reflexivity|]; cbn [filter]; rewrite (Hb x (or_introl eq_refl)); f_equal; apply IH; intros y Hy; apply Hb; right; exact Hy).
      rewrite E1, E2, E3, app_nil_r. reflexivity.
    Qed.

    Lemma same_keys_eq {A} (l1 l2 : list (qname * A)) :
      map fst l1 = map fst l2 -> NoDup (map fst l2) -> (forall x, In x l1 -> In x l2) -> l1 = l2.
    Proof.
      revert l2. induction l1 as [|[k a] r IH]; intros l2 Hk Hn Hin; destruct l2 as [|[k' a'] r']; try discriminate Hk; [reflexivity|].
      cbn [map fst] in Hk. inversion Hk as [[Ek Er]]. subst k'.
      cbn [map fst] in Hn. inversion Hn as [|? ? Hk' Hr']; subst.
      assert (a = a').
      { destruct (Hin (k, a) (or_introl eq_refl)) as [E|Hi]; [inversion E; reflexivity|].
        exfalso. apply Hk'. apply in_map_iff. exists (k, a). split; [reflexivity|exact Hi]. }
      subst a'. f_equal. apply IH; [exact Er|exact Hr'|].
      intros x Hx. destruct (Hin x (or_intror Hx)) as [E|Hi]; [|exact Hi].
      exfalso. apply Hk'. rewrite <- Er. subst x. apply in_map_iff. exists (k, a). split; [reflexivity|exact Hx].
    Qed.

    Lemma filter_map_fst (f : qname -> bool) (l : list (qname * str)) :
      map fst (filter (fun qs => f (fst qs)) l) = filter f (map fst l).
    Proof. induction l as [|[q s0] r IH]; [reflexivity|]. cbn [filter map fst]. destruct (f q); cbn [map fst]; rewrite IH; reflexivity. Qed.

    Lemma map_part ns attrs : reads_attrs ns eatsx attrs -> filter ismap attrs = mapval.
    Proof.
      intros Hr. destruct (attrs_from_eats ns attrs Hr) as [Hnd [_ [_ Hord]]].
      destruct (reads_attrs_carried ns attrs Hr) as [Hcls _].
      destruct mapval_facts as [Hndm Hmf].
      destruct Hmaps as [Ho|Hno].
      2:{ rewrite (mapval_nomap Hno). apply filter_none. intros x _. unfold ismap. rewrite (mapval_nomap Hno). reflexivity. }
      apply same_keys_eq; [|exact Hndm|].
      - pose proof (filter_map_fst (fun q => existsb (str_eqb q) (map fst mapval)) attrs) as Hfm'.
        cbn beta in Hfm'. fold ismap in Hfm'.
        change (fun qs : qname * str => existsb (str_eqb (fst qs)) (map fst mapval)) with ismap in Hfm'.
        rewrite Hfm'.
        transitivity (filter (fun q : qname => existsb (str_eqb q) (map fst mapval)) enames);
          [apply (f_equal (filter (fun q : qname => existsb (str_eqb q) (map fst mapval)))); exact (Hord Ho)|].
        (* the names: those before the map, the keys of the map, those after *)
        destruct (wf_class_inv m Hwc) as [F1 F2 F3 F4 F5 F6 F7 F8 F9 F10 F11 F12 F13].
        pose proof enames_nodup as Hne.
        destruct F3 as [E|[av [E Hwv]]].
        { rewrite (mapval_nomap E). apply filter_none. intros x _. reflexivity. }
        assert (Hinav : In av avars) by (apply (mapvar_in m av Hwc (conj E Hwv))).
        apply in_split in Hinav as [L1 [L2 EL]].
        assert (Ev : vnames av = map fst mapval) by (unfold vnames; rewrite (mapvar_val av (conj E Hwv)); reflexivity).
        unfold enames in Hne |- *. rewrite EL in Hne |- *. rewrite flat_map_app in Hne |- *. cbn [flat_map] in Hne |- *.
        rewrite Ev in Hne |- *. rewrite <- !app_assoc in Hne |- *.
        assert (Hdisj : forall a b : list qname, NoDup (a ++ map fst mapval ++ b) ->
                  forall x, (In x a \/ In x b) -> existsb (str_eqb x) (map fst mapval) = false).
        { intros a b Hn x Hx. apply existsb_false_iff'. intros y Hy. destruct (str_eqb_spec x y) as [->|_]; [|reflexivity].
          exfalso. destruct Hx as [Hx|Hx].
          - apply (nodup_app_disj' a (map fst mapval ++ b) Hn y Hx). apply in_or_app. left; exact Hy.
          - apply NoDup_app_remove_l in Hn. apply (nodup_app_disj' (map fst mapval) b Hn y Hy Hx). }
        apply filter_mid.
        + intros x Hx. apply (Hdisj _ _ Hne). left; exact Hx.
        + intros x Hx. apply existsb_exists. exists x. split; [exact Hx|apply str_eqb_refl].
        + intros x Hx. apply (Hdisj _ _ Hne). right; exact Hx.
      - intros [q s] Hx. apply filter_In in Hx as [Hqs Him]. apply ismap_in in Him.
        destruct (Hcls q s Hqs) as [[Eq _]|[[_ Hc]|[[_ Hm]|[Eq _]]]]; [| |exact Hm|].
        3:{ exfalso. apply in_map_iff in Him as [kv [Ek Hkv]]. destruct (Hmf kv Hkv) as [_ [_ [Hres _]]].
            unfold reserved_name in Hres. rewrite Ek, Eq, str_eqb_refl in Hres. discriminate Hres. }
        + exfalso. apply in_map_iff in Him as [kv [Ek Hkv]]. destruct (Hmf kv Hkv) as [_ [_ [Hres _]]].
          unfold reserved_name in Hres. rewrite Ek, Eq, str_eqb_refl, orb_true_r in Hres. discriminate Hres.
        + exfalso. destruct Hc as [var [t [Hin _]]]. apply in_map_iff in Him as [kv [Ek Hkv]].
          destruct (Hmf kv Hkv) as [_ [Hna _]]. rewrite Ek, (assoc_attr q var Hin) in Hna. discriminate Hna.
    Qed.

    (* ---- the attribute loop *)
    Definition PInv (p : params) (done : list (qname * str)) : Prop :=
      NoDup (map fst p)
      /\ (forall k pv, In (k, pv) p ->
            (exists var, declared var /\ k = v_name var /\ pv = PV (F var))
            \/ (exists av, is_mapvar m av /\ k = v_name av /\ pv = PV (VMap done) /\ done <> []))
      /\ (forall av, is_mapvar m av -> pget (v_name av) p = match done with [] => None | _ => Some (PV (VMap done)) end).

    Lemma mset_fresh q v (l : list (qname * str)) : ~ In q (map fst l) -> mset q v l = l ++ [(q, v)].
    Proof.
      induction l as [|[k x] r IH]; intros H; [reflexivity|]. cbn [mset].
      destruct (str_eqb_spec q k) as [->|_]; [exfalso; apply H; left; reflexivity|].
      cbn [app]. f_equal. apply IH. intros Hi. apply H. right; exact Hi.
    Qed.

    Lemma no_colon_literal s ns : existsb (N.eqb 58) s = false -> parse_any_attribute s ns = s.
    Proof.
      intros H. unfold parse_any_attribute, text_split.
      assert (E : split_at 58 s = None).
      { induction s as [|ch r IH]; [reflexivity|]. cbn [existsb] in H. apply orb_false_iff in H as [H1 H2].
        cbn [split_at]. rewrite N.eqb_sym in H1. rewrite H1. rewrite (IH H2). reflexivity. }
      rewrite E. reflexivity.
    Qed.

    Lemma find_any_map av q : is_mapvar m av -> match_namespace av q = true -> find_any_attributes m q = Some av.
    Proof. intros [E _] Hm. unfold find_any_attributes, find_by_namespace. rewrite E. cbn [find]. rewrite Hm. reflexivity. Qed.

    Lemma find_any_nomap q : m_any_attributes m = [] -> find_any_attributes m q = None.
    Proof. intros E. unfold find_any_attributes, find_by_namespace. rewrite E. reflexivity. Qed.

    Lemma bind_attrs_loop_ok en : en_meta en = m -> forall attrs p done,
      (forall q s, In (q, s) attrs -> (q = XSI_TYPE /\ xsi_val xt0 <> None) \/ carried (en_ns en) q s \/ mapped q s
                                      \/ (q = XSI_NIL /\ nk0 = true)) ->
      NoDup (map fst attrs) ->
      mapval = done ++ filter ismap attrs ->
      PInv p done ->
      (forall q s var, In (q, s) attrs -> In (q, var) (m_attributes m) -> ~ In (v_name var) (map fst p)) ->
      exists p', bind_attrs_loop cfg c en attrs p [] = ROk (p', [])
        /\ PInv p' mapval
        /\ (forall k, In k (map fst p) -> In k (map fst p'))
        /\ (forall q s var, In (q, s) attrs -> In (q, var) (m_attributes m) -> In (v_name var) (map fst p')).
    Proof.
      intros Hen. destruct mapval_facts as [Hndm Hmf].
      induction attrs as [|[q s] attrs IH]; intros p done Hc Hnd Hmv Hinv Hfresh.
      - cbn [filter] in Hmv. rewrite app_nil_r in Hmv. subst done. exists p. cbn [bind_attrs_loop].
        split; [reflexivity|]. split; [exact Hinv|]. split; [auto|intros q s var []].
      - cbn [map fst] in Hnd. inversion Hnd as [|? ? Hq Hnd']; subst.
        destruct (Hc q s (or_introl eq_refl)) as [[-> Hx]|[Hcar|[Hmp|[-> Hk]]]].
        4:{ (* xsi:nil: no field; an attribute map of this class does not capture it *)
            destruct (Hnk0 Hk) as [_ Hnf].
            cbn [bind_attrs_loop]. rewrite Hen. unfold find_attribute. rewrite xsi_nil_not_attr.
            rewrite Hnf.
            assert (Eu : ostr_eqb (target_uri XSI_NIL) (Some XSI_NS) = true) by (vm_compute; reflexivity).
            rewrite Eu. cbn [negb]. rewrite andb_false_r.
            assert (Ef : filter ismap ((XSI_NIL, s) :: attrs) = filter ismap attrs).
            { cbn [filter]. destruct (ismap (XSI_NIL, s)) eqn:Ei; [|reflexivity]. exfalso.
              apply ismap_in in Ei. apply in_map_iff in Ei as [kv [Ek Hkv]]. destruct (Hmf kv Hkv) as [_ [_ [Hres _]]].
              unfold reserved_name in Hres. rewrite Ek, str_eqb_refl in Hres. discriminate Hres. }
            rewrite Ef in Hmv.
            destruct (IH p done) as [p' [E [Hi' [Hk' Hd']]]]; [intros q' s' H'; apply Hc; right; exact H'|exact Hnd'|exact Hmv|exact Hinv| |].
            { intros q' s' var H1 H2. apply (Hfresh q' s' var); [right; exact H1|exact H2]. }
            exists p'. split; [exact E|]. split; [exact Hi'|]. split; [exact Hk'|].
            intros q' s' var [E'|H1] H2; [|apply (Hd' q' s' var H1 H2)].
            inversion E'; subst. exfalso. pose proof xsi_nil_not_attr as Hxa. rewrite (assoc_attr _ _ H2) in Hxa. discriminate Hxa. }
        + (* xsi:type: no field; an attribute map of this class does not capture it *)
          cbn [bind_attrs_loop]. rewrite Hen. unfold find_attribute. rewrite xsi_not_attr.
          rewrite (Hxfree Hx). rewrite xsi_type_uri. cbn [negb]. rewrite andb_false_r.
          assert (Ef : filter ismap ((XSI_TYPE, s) :: attrs) = filter ismap attrs).
          { cbn [filter]. destruct (ismap (XSI_TYPE, s)) eqn:Ei; [|reflexivity]. exfalso.
            apply ismap_in in Ei. apply in_map_iff in Ei as [kv [Ek Hkv]]. destruct (Hmf kv Hkv) as [_ [_ [Hres _]]].
            unfold reserved_name in Hres. rewrite Ek, str_eqb_refl, orb_true_r in Hres. discriminate Hres. }
          rewrite Ef in Hmv.
          destruct (IH p done) as [p' [E [Hi' [Hk' Hd']]]]; [intros q' s' H'; apply Hc; right; exact H'|exact Hnd'|exact Hmv|exact Hinv| |].
          { intros q' s' var H1 H2. apply (Hfresh q' s' var); [right; exact H1|exact H2]. }
          exists p'. split; [exact E|]. split; [exact Hi'|]. split; [exact Hk'|].
          intros q' s' var [E'|H1] H2; [|apply (Hd' q' s' var H1 H2)].
          inversion E'; subst. exfalso. pose proof xsi_not_attr as Hxa. rewrite (assoc_attr _ _ H2) in Hxa. discriminate Hxa.
        + (* a declared attribute *)
          destruct Hcar as [var [t [Hin [Hqv [Hw [Ht [Hs [Htk Hvt]]]]]]]].
          pose proof (assoc_attr q var Hin) as Ha.
          cbn [bind_attrs_loop]. rewrite Hen. unfold find_attribute. rewrite Ha.
          assert (Hfr : ~ In (v_name var) (map fst p)) by (apply (Hfresh q s var (or_introl eq_refl) Hin)).
          rewrite (pmem_false _ _ Hfr).
          unfold bind_attr. rewrite Hen.
          rewrite (parse_var_vtext m var t (F var) (en_ns en) s Ht Hs Htk Hvt). cbn [rbind].
          destruct (wf_attr_inv var Hw) as [_ [Hcm _]]. destruct (var_common_inv var Hcm) as [Hinit _].
          rewrite Hinit. cbn [rbind fst snd app].
          rewrite (pset_fresh _ _ _ Hfr).
          assert (Hdv : declared var) by (split; [exact Hw|rewrite Hqv; exact Hin]).
          assert (Ef : filter ismap ((q, s) :: attrs) = filter ismap attrs).
          { cbn [filter]. destruct (ismap (q, s)) eqn:Ei; [|reflexivity]. exfalso.
            apply ismap_in in Ei. apply in_map_iff in Ei as [kv [Ek Hkv]]. destruct (Hmf kv Hkv) as [_ [Hna _]].
            rewrite Ek, Ha in Hna. discriminate Hna. }
          rewrite Ef in Hmv.
          destruct Hinv as [Hn1 [Hn2 Hn3]].
          destruct (IH (p ++ [(v_name var, PV (F var))]) done) as [p' [E [Hi' [Hk' Hd']]]];
            [intros q' s' H'; apply Hc; right; exact H'|exact Hnd'|exact Hmv| | |].
          { split; [|split].
            - rewrite map_app. cbn [map fst]. apply NoDup_app_intro; [exact Hn1|constructor; [intros []|constructor]|].
              intros x Hx [<-|[]]. exact (Hfr Hx).
            - intros k pv Hi. apply in_app_or in Hi as [Hi|[E'|[]]]; [apply (Hn2 k pv Hi)|]. inversion E'; subst.
              left. exists var. repeat split; assumption.
            - intros av Hav. rewrite pget_app_other; [apply (Hn3 av Hav)|].
              intros E'. apply (declared_mapvar_neq var av Hdv Hav). symmetry. exact E'. }
          { intros q' s' var' H1 H2 Hi. rewrite map_app in Hi. apply in_app_or in Hi as [Hi|[E'|[]]].
            - apply (Hfresh q' s' var' (or_intror H1) H2 Hi).
            - cbn [fst] in E'.
              assert (var' = var).
              { apply names_inj; [apply avar_all; apply (declared_in m _ var' Hwc H2)|apply avar_all; apply (declared_in m _ var Hwc Hin)|symmetry; exact E']. }
              subst var'. pose proof (assoc_attr q' var H2) as Ha'.
              assert (q' = q).
              { destruct (wf_class_inv m Hwc) as [F1 F2 F3 F4 F5 F6 F7 F8 F9 F10 F11 F12 F13].
                rewrite forallb_forall in F9. pose proof (F9 _ H2) as G1. pose proof (F9 _ Hin) as G2. cbn [fst snd] in G1, G2.
                apply andb_true_iff in G1 as [G1 _], G2 as [G2 _]. apply str_eqb_eq in G1, G2. congruence. }
              subst q'. apply Hq. apply in_map_iff. exists (q, s'). split; [reflexivity|exact H1]. }
          exists p'. split; [exact E|]. split; [exact Hi'|]. split.
          * intros k Hk. apply Hk'. rewrite map_app. apply in_or_app. left; exact Hk.
          * intros q' s' var' [E'|H1] H2; [|apply (Hd' q' s' var' H1 H2)].
            inversion E'; subst. rewrite (assoc_attr _ _ H2) in Ha. inversion Ha; subst.
            apply Hk'. rewrite map_app. apply in_or_app. right. left; reflexivity.
        + (* an entry of the attribute map *)
          unfold mapped in Hmp. destruct (Hmf (q, s) Hmp) as [[av [Hav Hmn]] [Hna [Hres Hvok]]]. cbn [fst snd] in *.
          cbn [bind_attrs_loop]. rewrite Hen. unfold find_attribute. rewrite Hna.
          rewrite (find_any_map av q Hav Hmn).
          assert (Ei : ismap (q, s) = true) by (apply ismap_in; apply in_map_iff; exists (q, s); split; [reflexivity|exact Hmp]).
          cbn [filter] in Hmv. rewrite Ei in Hmv.
          assert (Hqd : ~ In q (map fst done)).
          { rewrite Hmv in Hndm. rewrite map_app in Hndm. intros Hi.
            apply (nodup_app_disj' _ _ Hndm q Hi). cbn [map fst]. left; reflexivity. }
          destruct Hinv as [Hn1 [Hn2 Hn3]].
          unfold map_value_ok in Hvok. apply andb_true_iff in Hvok as [_ Hnc]. apply negb_true_iff in Hnc.
          unfold bind_any_attr.
          set (p1 := if pmem (v_name av) p then p else pset (v_name av) (PV (VMap [])) p).
          assert (Hp1 : pget (v_name av) p1 = Some (PV (VMap done)) /\ NoDup (map fst p1)
                        /\ (forall k pv, In (k, pv) p1 -> k <> v_name av -> In (k, pv) p)
                        /\ (forall k, In k (map fst p) -> In k (map fst p1))
                        /\ (forall k, In k (map fst p1) -> k = v_name av \/ In k (map fst p))).
          { pose proof (Hn3 av Hav) as Hg. unfold p1, pmem. unfold pget in Hg. destruct done as [|d0 dr].
            - rewrite Hg. cbn [is_some].
              pose proof (pget_none_inv _ _ Hg) as Hfr. rewrite (pset_fresh _ _ _ Hfr).
              split; [apply pget_mid; exact Hfr|]. split.
              + rewrite map_app. cbn [map fst]. apply NoDup_app_intro; [exact Hn1|constructor; [intros []|constructor]|].
                intros x Hx [<-|[]]. exact (Hfr Hx).
              + split; [|split].
                * intros k pv Hi Hne. apply in_app_or in Hi as [Hi|[E'|[]]]; [exact Hi|]. inversion E'; subst. congruence.
                * intros k Hk. rewrite map_app. apply in_or_app. left; exact Hk.
                * intros k Hk. rewrite map_app in Hk. apply in_app_or in Hk as [Hk|[E'|[]]]; [right; exact Hk|left; symmetry; exact E'].
            - rewrite Hg. cbn [is_some]. split; [exact Hg|]. split; [exact Hn1|]. split; [auto|]. split; auto. }
          destruct Hp1 as [Hg1 [Hnd1 [Hsub1 [Hk1 Hk1']]]].
          rewrite Hg1. cbn [rbind].
          rewrite (no_colon_literal s (en_ns en) Hnc), (mset_fresh q s done Hqd).
          set (p2 := pset (v_name av) (PV (VMap (done ++ [(q, s)]))) p1).
          assert (Hmv2 : mapval = (done ++ [(q, s)]) ++ filter ismap attrs) by (rewrite <- app_assoc; exact Hmv).
          destruct (pget_split _ _ _ Hg1) as [pa [pb [Ep1 Hpa]]].
          assert (Ep2 : p2 = pa ++ (v_name av, PV (VMap (done ++ [(q, s)]))) :: pb).
          { unfold p2. rewrite Ep1. apply pset_replace. exact Hpa. }
          assert (Hkeys2 : map fst p2 = map fst p1).
          { rewrite Ep2, Ep1, !map_app. reflexivity. }
          destruct (IH p2 (done ++ [(q, s)])) as [p' [E [Hi' [Hk' Hd']]]];
            [intros q' s' H'; apply Hc; right; exact H'|exact Hnd'|exact Hmv2| | |].
          { split; [rewrite Hkeys2; exact Hnd1|split].
            - intros k pv Hi. rewrite Ep2 in Hi. apply in_app_or in Hi as [Hi|[E'|Hi]].
              + assert (Hne : k <> v_name av).
                { intros ->. apply Hpa. apply in_map_iff. exists (v_name av, pv). split; [reflexivity|exact Hi]. }
                assert (Hip : In (k, pv) p) by (apply Hsub1; [rewrite Ep1; apply in_or_app; left; exact Hi|exact Hne]).
                destruct (Hn2 k pv Hip) as [H|[av' [Hav' [Ek _]]]]; [left; exact H|].
                exfalso. apply Hne. rewrite Ek. f_equal.
                destruct Hav as [Ea _], Hav' as [Ea' _]. rewrite Ea in Ea'. inversion Ea'. reflexivity.
              + inversion E'; subst. right. exists av. split; [exact Hav|]. split; [reflexivity|]. split; [reflexivity|]. destruct done; discriminate.
              + assert (Hne : k <> v_name av).
                { intros ->. rewrite Ep1 in Hnd1. rewrite map_app in Hnd1. cbn [map fst] in Hnd1.
                  apply NoDup_remove_2 in Hnd1. apply Hnd1. apply in_or_app. right.
                  apply in_map_iff. exists (v_name av, pv). split; [reflexivity|exact Hi]. }
                assert (Hip : In (k, pv) p) by (apply Hsub1; [rewrite Ep1; apply in_or_app; right; right; exact Hi|exact Hne]).
                destruct (Hn2 k pv Hip) as [H|[av' [Hav' [Ek _]]]]; [left; exact H|].
                exfalso. apply Hne. rewrite Ek. f_equal.
                destruct Hav as [Ea _], Hav' as [Ea' _]. rewrite Ea in Ea'. inversion Ea'. reflexivity.
            - intros av' Hav'.
              assert (av' = av) by (destruct Hav as [Ea _], Hav' as [Ea' _]; rewrite Ea in Ea'; inversion Ea'; reflexivity).
              subst av'. unfold p2. rewrite pget_pset_same. destruct done; reflexivity. }
          { intros q' s' var' H1 H2 Hi. rewrite Hkeys2 in Hi. destruct (Hk1' _ Hi) as [E'|Hi'].
            - apply (declared_mapvar_neq var' av); [|exact Hav|exact E'].
              destruct (wf_class_inv m Hwc) as [F1 F2 F3 F4 F5 F6 F7 F8 F9 F10 F11 F12 F13].
              rewrite forallb_forall in F9. pose proof (F9 _ H2) as G1. cbn [fst snd] in G1. apply andb_true_iff in G1 as [G1 G2].
              apply str_eqb_eq in G1. split; [exact G2|rewrite G1; exact H2].
            - apply (Hfresh q' s' var' (or_intror H1) H2 Hi'). }
          exists p'. split; [exact E|]. split; [exact Hi'|]. split.
          * intros k Hk. apply Hk'. rewrite Hkeys2. apply Hk1. exact Hk.
          * intros q' s' var' [E'|H1] H2; [|apply (Hd' q' s' var' H1 H2)].
            inversion E'; subst. rewrite (assoc_attr _ _ H2) in Hna. discriminate Hna.
    Qed.

    Lemma bind_attrs_ok en attrs :
      en_meta en = m -> en_attrs en = attrs -> reads_attrs (en_ns en) eatsx attrs ->
      exists pa, bind_attrs cfg c en = ROk (pa, [])
        /\ NoDup (map fst pa)
        /\ (forall k pv, In (k, pv) pa -> exists var, In var avars /\ k = v_name var /\ pv = PV (F var))
        /\ (forall var, In var avars -> ~ In (v_name var) (map fst pa) -> default_call (v_default var) = F var).
    Proof.
      intros Hen Hat Hr. destruct (reads_attrs_carried (en_ns en) attrs Hr) as [Hc [Hem [Hnd [Hnox _]]]].
      pose proof (map_part (en_ns en) attrs Hr) as Hmp.
      destruct (bind_attrs_loop_ok en Hen attrs [] []) as [pa [E [[Hn1 [Hn2 Hn3]] [_ Hd]]]].
      - intros q s Hqs. destruct (Hc q s Hqs) as [[Eq [xq [Hx _]]]|[[_ H]|[[_ H]|[Eq [Hk _]]]]];
          [left; split; [exact Eq|congruence]|right; left; exact H|right; right; left; exact H|right; right; right; split; assumption].
      - exact Hnd.
      - cbn [app]. symmetry. exact Hmp.
      - split; [constructor|]. split; [intros k pv []|]. intros av _. reflexivity.
      - intros q s var _ _ [].
      - exists pa. split; [unfold bind_attrs; rewrite Hat; exact E|]. split; [exact Hn1|]. split.
        + intros k pv Hi. destruct (Hn2 k pv Hi) as [[var [Hdv [Ek Ev]]]|[av [Hav [Ek [Ev _]]]]].
          * exists var. split; [apply declared_in_avars; exact Hdv|]. split; assumption.
          * exists av. split; [apply (mapvar_in m av Hwc Hav)|]. split; [exact Ek|]. rewrite (mapvar_val av Hav). exact Ev.
        + intros var Hv Hnot. destruct (wf_class_avar m var Hwc Hv) as [[Hw Hina]|Hmv].
          * destruct (attr_cases var (F var) Hw (Hfa _ Hina)) as [[_ Hdf]|[t [Ee _]]]; [exact Hdf|].
            exfalso. apply Hnot.
            destruct (Hem var (conj Hw Hina)) as [s0 Hqs]; [rewrite Ee; discriminate|].
            apply (Hd (v_qname var) s0 var Hqs Hina).
          * pose proof (Hn3 var Hmv) as Hg. revert Hg. destruct mapval as [|kv0 mr] eqn:Emv; intros Hg.
            -- rewrite (mapvar_val var Hmv), Emv. destruct Hmv as [_ Hwv].
               unfold wf_anyattr in Hwv. apply andb_true_iff in Hwv as [_ Hdf]. destruct (v_default var); try discriminate Hdf. reflexivity.
            -- exfalso. apply Hnot. unfold pget in Hg. apply assoc_in in Hg. apply in_map_iff. exists (v_name var, PV (VMap (kv0 :: mr))). split; [reflexivity|exact Hg].
    Qed.

    (* ---------------------------------------------------------------- child objects -> params *)
    Definition tagged (var : xvar) (x : value) : objects := map (fun y => (Some (v_qname var), y)) (occ var x).
    Definition eentry (var : xvar) (x : value) : params :=
      match occ var x with
      | [] => []
      | l => [(v_name var, match v_factory var with Some f => PPend l (Some f) | None => PV (hd VNone l) end)]
      end.

    Definition is_elem_var (var : xvar) : Prop := wf_elem var = true /\ In (v_qname var, [var]) (m_elements m).

    (* a field bound from child elements: an element field, or the wildcard field *)
    Definition is_wild_var (var : xvar) : Prop := is_wildvar m var.
    Definition is_kid (var : xvar) : Prop := is_elem_var var \/ is_wild_var var.

    Lemma find_children_elem var : is_elem_var var -> exists tl, find_children m (v_qname var) = var :: tl.
    Proof.
      intros [Hw Hin]. destruct (wf_class_inv m Hwc) as [F1 F2 F3 F4 F5 F6 F7 F8 F9 F10 F11 F12 F13].
      unfold find_children. rewrite (assoc_nodup _ _ _ F8 Hin). rewrite F1. cbn [flat_map app]. eexists; reflexivity.
    Qed.

    Lemma wild_facts var : is_wild_var var ->
      v_init var = true /\ v_is KWildcard var = true /\ v_wrapper_qname var = None /\ v_nillable var = false
      /\ v_is KElement var = false /\ v_clazz var = None /\ True /\ v_tokens_factory var = None
      /\ v_elements var = [] /\ v_is KText var = false.
    Proof.
      intros [E [Hw _]]. destruct (wf_wild_inv var Hw) as [Hk [Hc [Hn [Hwr [Hcl [Htf [_ [_ [Hkt [Hke _]]]]]]]]]].
      destruct (var_common_w_inv var Hc) as [Hi [_ [Hany [_ [Hel _]]]]].
      repeat split; assumption.
    Qed.

    Lemma find_children_any wv q : is_wild_var wv -> match_namespace wv q = true -> assoc q (m_elements m) = None ->
      find_children m q = [wv].
    Proof.
      intros Hv Hm Hq. destruct (wf_class_inv m Hwc) as [F1 F2 F3 F4 F5 F6 F7 F8 F9 F10 F11 F12 F13].
      destruct (wild_facts wv Hv) as [_ [_ [_ [_ [_ [_ [_ [_ [Hel _]]]]]]]]]. destruct Hv as [E _].
      unfold find_children. rewrite Hq, F1. cbn [flat_map app].
      unfold find_wildcard, find_by_namespace. rewrite E. cbn [find]. rewrite Hm, Hel. reflexivity.
    Qed.

    Lemma find_children_wild var : is_wild_var var -> find_children m (v_qname var) = [var].
    Proof.
      intros Hv. pose proof Hv as [_ [Hw [Hq _]]]. destruct (wf_wild_inv var Hw) as [_ [_ [_ [_ [_ [_ [_ [Hm _]]]]]]]].
      apply (find_children_any var (v_qname var) Hv Hm Hq).
    Qed.

    Lemma find_children_kid var : is_kid var -> exists tl, find_children m (v_qname var) = var :: tl.
    Proof. intros [H|H]; [apply (find_children_elem var H)|exists []; apply (find_children_wild var H)]. Qed.

    Lemma elem_var_facts var : is_elem_var var ->
      v_init var = true /\ v_is KWildcard var = false /\ True /\ kind_elem var.
    Proof.
      intros [Hw _]. destruct (wf_elem_inv var Hw) as [Hk [Hc _]].
      destruct (var_common_inv var Hc) as [Hi [_ [_ [_ [_ [_ [Hwr _]]]]]]].
      destruct Hk as [Hk1 [Hk2 [Hk3 Hk4]]]. repeat split; assumption.
    Qed.

    (* ---- the wrappers queue *)
    Lemma wrappers_pop_none q wr : ~ In q (map fst wr) -> wrappers_pop q wr = (None, wr).
    Proof.
      induction wr as [|[k x] r IHr]; intros H; [reflexivity|]. cbn [wrappers_pop].
      destruct (str_eqb_spec q k) as [->|_]; [exfalso; apply H; left; reflexivity|].
      rewrite IHr; [reflexivity|]. intros Hi. apply H. right; exact Hi.
    Qed.

    Lemma wrappers_pop_at q w x a b : ~ In q (map fst a) ->
      wrappers_pop q (a ++ (q, w :: x) :: b) = (Some w, a ++ (q, x) :: b).
    Proof.
      induction a as [|[k y] r IHr]; intros H; cbn [app wrappers_pop].
      - rewrite str_eqb_refl. reflexivity.
      - destruct (str_eqb_spec q k) as [->|_]; [exfalso; apply H; left; reflexivity|].
        rewrite IHr; [reflexivity|]. intros Hi. apply H. right; exact Hi.
    Qed.

    Lemma wrappers_push_fresh q w wr : ~ In q (map fst wr) -> wrappers_push q w wr = wr ++ [(q, [w])].
    Proof.
      induction wr as [|[k x] r IHr]; intros H; [reflexivity|]. cbn [wrappers_push app].
      destruct (str_eqb_spec q k) as [->|_]; [exfalso; apply H; left; reflexivity|].
      rewrite IHr; [reflexivity|]. intros Hi. apply H. right; exact Hi.
    Qed.

    Lemma wrappers_push_at q w x a b : ~ In q (map fst a) ->
      wrappers_push q w (a ++ (q, x) :: b) = a ++ (q, x ++ [w]) :: b.
    Proof.
      induction a as [|[k y] r IHr]; intros H; cbn [app wrappers_push].
      - rewrite str_eqb_refl. reflexivity.
      - destruct (str_eqb_spec q k) as [->|_]; [exfalso; apply H; left; reflexivity|].
        rewrite IHr; [reflexivity|]. intros Hi. apply H. right; exact Hi.
    Qed.

    (* the wrapper context of a child: directly below the class element, or inside the wrapper element *)
    Definition wrap_agrees (var : xvar) (wo : option qname) : Prop :=
      match wo with Some w => v_wrapper_qname var = Some w /\ w <> [] | None => True end.

    Lemma wrapper_mismatch_no var wo : wrap_agrees var wo -> wrapper_mismatch wo var = false.
    Proof.
      unfold wrapper_mismatch, wrap_agrees. destruct wo as [w|]; [|reflexivity]. intros [Hw Hne].
      destruct w as [|ch w']; [congruence|]. cbn [truthy_str]. rewrite Hw. cbn [ostr_eqb opt_eqb]. rewrite str_eqb_refl. reflexivity.
    Qed.

    (* one child object of a list field *)
    (* a generic value is bound as it is *)
    Definition kid_value_ok (var : xvar) (y : value) : Prop := is_wild_var var -> is_model_value y = true.

    Lemma bind_object_list var f y rest p p' wr wr' wo ws :
      is_kid var -> kid_value_ok var y -> v_factory var = Some f ->
      wrappers_pop (v_qname var) wr = (wo, wr') -> wrap_agrees var wo ->
      coll_append (v_name var) (Some f) y p = ROk p' ->
      bind_objects_loop c m ((Some (v_qname var), y) :: rest) p wr ws = bind_objects_loop c m rest p' wr' ws.
    Proof.
      intros Hv Hy Hf Hpop Hag Hc. destruct (find_children_kid var Hv) as [tl Efc].
      cbn [bind_objects_loop find_children_opt rbind]. rewrite Hpop. cbn [rbind]. rewrite Efc.
      cbn [bind_object_loop]. rewrite (wrapper_mismatch_no var wo Hag).
      destruct Hv as [Hv|Hv].
      - destruct (elem_var_facts var Hv) as [Hi [Hw _]]. rewrite Hw.
        unfold bind_var. rewrite Hi. unfold v_list_element. rewrite Hf, Hc. reflexivity.
      - destruct (wild_facts var Hv) as [Hi [Hw _]]. rewrite Hw.
        assert (Epg : prepare_generic_value c (Some (v_qname var)) y = y)
          by (unfold prepare_generic_value; destruct (truthy_str _); [rewrite (Hy Hv); reflexivity|reflexivity]).
        unfold bind_wild_var. rewrite Epg. unfold v_list_element. rewrite Hf, Hc. reflexivity.
    Qed.

    Lemma bind_object_single var y rest p wr ws :
      is_kid var -> kid_value_ok var y -> v_factory var = None -> ~ In (v_name var) (map fst p) -> ~ In (v_qname var) (map fst wr) ->
      bind_objects_loop c m ((Some (v_qname var), y) :: rest) p wr ws
      = bind_objects_loop c m rest (p ++ [(v_name var, PV y)]) wr ws.
    Proof.
      intros Hv Hy Hf Hfr Hq. destruct (find_children_kid var Hv) as [tl Efc].
      cbn [bind_objects_loop find_children_opt rbind]. rewrite (wrappers_pop_none _ _ Hq). cbn [rbind].
      rewrite Efc.
      cbn [bind_object_loop]. unfold wrapper_mismatch. cbn [truthy_str].
      destruct Hv as [Hv|Hv].
      - destruct (elem_var_facts var Hv) as [Hi [Hw _]]. rewrite Hw.
        unfold bind_var. rewrite Hi. unfold v_list_element. rewrite Hf.
        rewrite (pmem_false _ _ Hfr). cbn [rbind fst snd]. rewrite (pset_fresh _ _ _ Hfr). reflexivity.
      - destruct (wild_facts var Hv) as [Hi [Hw _]]. rewrite Hw.
        assert (Epg : prepare_generic_value c (Some (v_qname var)) y = y)
          by (unfold prepare_generic_value; destruct (truthy_str _); [rewrite (Hy Hv); reflexivity|reflexivity]).
        unfold bind_wild_var. rewrite Epg. unfold v_list_element. rewrite Hf.
        rewrite (pget_none _ _ Hfr). cbn [rbind fst snd]. rewrite (pset_fresh _ _ _ Hfr). reflexivity.
    Qed.

    Lemma coll_append_fresh name f y p : ~ In name (map fst p) ->
      coll_append name f y p = ROk (p ++ [(name, PPend [y] f)]).
    Proof. intros H. unfold coll_append. rewrite (pget_none _ _ H). rewrite (pset_fresh _ _ _ H). reflexivity. Qed.

    Lemma coll_append_more name f g y l0 p1 p2 : ~ In name (map fst p1) ->
      coll_append name f y (p1 ++ (name, PPend l0 g) :: p2) = ROk (p1 ++ (name, PPend (l0 ++ [y]) g) :: p2).
    Proof. intros H. unfold coll_append. rewrite (pget_mid _ _ _ _ H). rewrite (pset_replace _ _ _ _ _ H). reflexivity. Qed.

    (* the state of the wrappers queue for one field: nothing (the field is not wrapped, its name is
       not a key), or the remaining wrapper names of its items *)
    Inductive wr_for (var : xvar) (k : nat) : list (qname * list qname) -> list (qname * list qname) -> Prop :=
    | wr_plain wr : ~ In (v_qname var) (map fst wr) -> wr_for var k wr wr
    | wr_wrapped w a b : v_wrapper_qname var = Some w -> w <> [] -> ~ In (v_qname var) (map fst a) ->
                         wr_for var k (a ++ (v_qname var, repeat w k) :: b) (a ++ (v_qname var, []) :: b).

    Lemma bind_objects_more var f l : forall l0 p1 p2 rest wr wr' ws,
      is_kid var -> Forall (kid_value_ok var) l -> v_factory var = Some f -> ~ In (v_name var) (map fst p1) ->
      wr_for var (length l) wr wr' ->
      bind_objects_loop c m (map (fun y => (Some (v_qname var), y)) l ++ rest) (p1 ++ (v_name var, PPend l0 (Some f)) :: p2) wr ws
      = bind_objects_loop c m rest (p1 ++ (v_name var, PPend (l0 ++ l) (Some f)) :: p2) wr' ws.
    Proof.
      induction l as [|y l IHl]; intros l0 p1 p2 rest wr wr' ws Hv Hys Hf Hfr Hwr.
      - rewrite app_nil_r. cbn [map app length] in *. inversion Hwr; subst; reflexivity.
      - cbn [map app length] in *. inversion_clear Hys as [|? ? Hy Hys'].
        inversion Hwr as [wr0 Hnk|w a b Hw Hne Hnk]; subst.
        + rewrite (bind_object_list var f y _ _ _ wr' wr' None ws Hv Hy Hf (wrappers_pop_none _ _ Hnk) I
                     (coll_append_more _ (Some f) (Some f) y l0 p1 p2 Hfr)).
          rewrite (IHl (l0 ++ [y]) p1 p2 rest wr' wr' ws Hv Hys' Hf Hfr (wr_plain var _ wr' Hnk)).
          rewrite <- app_assoc. reflexivity.
        + cbn [repeat].
          rewrite (bind_object_list var f y _ _ _ _ _ (Some w) ws Hv Hy Hf (wrappers_pop_at _ w _ a b Hnk) (conj Hw Hne)
                     (coll_append_more _ (Some f) (Some f) y l0 p1 p2 Hfr)).
          rewrite (IHl (l0 ++ [y]) p1 p2 rest _ _ ws Hv Hys' Hf Hfr (wr_wrapped var _ w a b Hw Hne Hnk)).
          rewrite <- app_assoc. reflexivity.
    Qed.

    (* all the child objects of one field *)
    Lemma bind_objects_var var x rest p wr wr' ws :
      is_kid var -> Forall (kid_value_ok var) (occ var x) -> (occ var x <> [] -> ~ In (v_name var) (map fst p)) ->
      (v_factory var = None -> (length (occ var x) <= 1)%nat) ->
      wr_for var (length (occ var x)) wr wr' ->
      bind_objects_loop c m (tagged var x ++ rest) p wr ws
      = bind_objects_loop c m rest (p ++ eentry var x) wr' ws.
    Proof.
      intros Hv Hys Hfr0 Hone Hwr. unfold tagged, eentry.
      destruct (occ var x) as [|y l] eqn:Eo.
      - rewrite app_nil_r. cbn [map app length] in *. inversion Hwr; subst; reflexivity.
      - assert (Hfr : ~ In (v_name var) (map fst p)) by (apply Hfr0; discriminate). clear Hfr0.
        inversion_clear Hys as [|? ? Hy Hys'].
        destruct (v_factory var) as [f|] eqn:Ef.
        + cbn [map app length] in *.
          inversion Hwr as [wr0 Hnk|w a b Hw Hne Hnk]; subst.
          * rewrite (bind_object_list var f y _ _ _ wr' wr' None ws Hv Hy Ef (wrappers_pop_none _ _ Hnk) I
                       (coll_append_fresh _ (Some f) y p Hfr)).
            change (p ++ [(v_name var, PPend [y] (Some f))]) with (p ++ (v_name var, PPend [y] (Some f)) :: []).
            rewrite (bind_objects_more var f l [y] p [] rest wr' wr' ws Hv Hys' Ef Hfr (wr_plain var _ wr' Hnk)). reflexivity.
          * cbn [repeat].
            rewrite (bind_object_list var f y _ _ _ _ _ (Some w) ws Hv Hy Ef (wrappers_pop_at _ w _ a b Hnk) (conj Hw Hne)
                       (coll_append_fresh _ (Some f) y p Hfr)).
            change (p ++ [(v_name var, PPend [y] (Some f))]) with (p ++ (v_name var, PPend [y] (Some f)) :: []).
            rewrite (bind_objects_more var f l [y] p [] rest _ _ ws Hv Hys' Ef Hfr (wr_wrapped var _ w a b Hw Hne Hnk)). reflexivity.
        + specialize (Hone eq_refl). destruct l; [|cbn [length] in Hone; lia].
          cbn [map app hd length] in *.
          inversion Hwr as [wr0 Hnk|w a b Hw Hne Hnk]; subst.
          * apply bind_object_single; assumption.
          * exfalso. destruct Hv as [[Hwe _]|Hv].
            -- destruct (wf_elem_wrapper var w Hwe Hw) as [_ [[f Hf] _]]. congruence.
            -- destruct (wild_facts var Hv) as [_ [_ [Hnw _]]]. congruence.
    Qed.

    (* ---------------------------------------------------------------- cls( **params) *)
    Definition pval_value (pv : pval) : value :=
      match pv with PV v => v | PPend l f => VList (is_tuple_f f) l end.

    Lemma map_res_map {A B} (f : A -> res B) (g : A -> B) l :
      (forall x, In x l -> f x = ROk (g x)) -> map_res f l = ROk (map g l).
    Proof.
      induction l as [|x r IH]; intros H; [reflexivity|]. cbn [map_res map].
      rewrite (H x (or_introl eq_refl)). cbn [rbind]. rewrite IH; [reflexivity|].
      intros y Hy. apply H. right; exact Hy.
    Qed.

    Lemma fields_rebuild (l : list (str * value)) :
      NoDup (map fst l) ->
      map (fun k => (k, match assoc k l with Some x => x | None => VNone end)) (map fst l) = l.
    Proof.
      induction l as [|[k v] r IH]; intros Hn; [reflexivity|]. inversion Hn as [|? ? Hk Hr]; subst.
      cbn [map fst assoc]. rewrite str_eqb_refl. f_equal.
      rewrite <- (IH Hr) at 2. apply map_ext_in. intros k' Hk'.
      destruct (str_eqb_spec k' k) as [->|_]; [contradiction|reflexivity].
    Qed.

    Lemma class_factory_ok p' :
      NoDup (map fst p') ->
      (forall k pv, In (k, pv) p' -> exists var, In var (get_all_vars m) /\ k = v_name var /\ pval_value pv = F var) ->
      (forall var, In var (get_all_vars m) -> ~ In (v_name var) (map fst p') -> default_call (v_default var) = F var) ->
      (forall var, In var (get_all_vars m) -> v_init var = true) ->
      class_factory cfg m (evaluate p') = ROk (VObj cl fs).
    Proof.
      intros Hnd Hin Habs Hinit. unfold class_factory.
      rewrite Hmc. rewrite (nodefault_none cfg cl Hnodef).
      destruct (wf_class_inv m Hwc) as [F1 F2 F3 F4 F5 F6 F7 F8 F9 F10 F11 F12 F13].
      assert (Hex : existsb (fun kv : str * value => negb (existsb (fun v => v_init v && str_eqb (v_name v) (fst kv)) (get_all_vars m)))
                      (evaluate p') = false).
      { apply existsb_false_iff'. intros kv Hkv. unfold evaluate in Hkv. apply in_map_iff in Hkv as [[k pv] [<- Hk]].
        cbn [fst]. destruct (Hin k pv Hk) as [var [Hv [-> _]]]. apply negb_false_iff.
        apply existsb_exists. exists var. split; [exact Hv|]. rewrite (Hinit var Hv), str_eqb_refl. reflexivity. }
      rewrite Hex.
      rewrite (map_res_map _ (fun v => (v_name v, F v))).
      - cbn [rbind]. f_equal. f_equal.
        assert (Hnf : NoDup (map fst fs)) by (rewrite Hnames; exact F12).
        rewrite <- (fields_rebuild fs Hnf). rewrite Hnames, map_map. reflexivity.
      - intros var Hv. rewrite (Hinit var Hv). cbn [andb existsb].
        destruct (assoc (v_name var) (evaluate p')) as [x|] eqn:Ea.
        + apply assoc_in in Ea. unfold evaluate in Ea. apply in_map_iff in Ea as [[k pv] [E Hk]].
          cbn [fst snd] in E. inversion E; subst.
          destruct (Hin _ _ Hk) as [var' [Hv' [En Hval]]].
          pose proof (names_inj var var' Hv Hv' En). subst var'.
          f_equal. f_equal. destruct pv; exact Hval.
        + rewrite Habs; [reflexivity|exact Hv|].
          intros Hk. rewrite <- evaluate_keys in Hk. apply assoc_some_in in Hk as [x Hx]. congruence.
    Qed.

    (* ---------------------------------------------------------------- the values of element fields *)
    Variable n : nat.
    Hypothesis Hfe : forall e v, In e (m_elements m) -> In v (snd e) -> fits_elem (fits n) v (F v) = true.

    Definition item_ok (var : xvar) (y : value) : Prop :=
      match y with
      | VNone => v_nillable var = true /\ v_default var = DNone      (* <f xsi:nil="true"/> *)
                 /\ (forall k, v_types var = [TClass k] -> cls_nillable u k = false)
                 /\ v_tokens_factory var = None
      | _ => match v_tokens_factory var with
             | Some tf => fits_tokens var tf y = true
             | None => fits_item (fits n) var y = true
             end
      end.
    Definition ienode (var : xvar) (y : value) : XmlNs.enode :=
      match v_tokens_factory var with
      | Some _ => e_prim var y
      | None => e_item (eobj n) var y
      end.

    Lemma kid_not_text var : is_kid var -> v_is KText var = false.
    Proof.
      intros [Hv|Hv]; [destruct (elem_var_facts var Hv) as [_ [_ [_ [_ [Hkt _]]]]]; exact Hkt|].
      destruct (wild_facts var Hv) as [_ [_ [_ [_ [_ [_ [_ [_ [_ Hkt]]]]]]]]]. exact Hkt.
    Qed.
    Lemma e_items_occ var x : is_kid var -> e_items (eobj n) var x = map (ienode var) (occ var x).
    Proof.
      intros Hv. pose proof (kid_not_text var Hv) as Hkt.
      unfold RoundtripGen.e_items, occ, ienode.
      destruct x as [|p|tp l|k' f'|q0 t0 tl0 a0 c0|q0 v0 ty0|m0];
        [destruct (v_nillable var), (v_tokens_factory var); reflexivity|..]; rewrite Hkt; try reflexivity;
        destruct (v_tokens_factory var); try reflexivity.
      destruct l as [|y l']; [reflexivity|]. destruct y; reflexivity.
    Qed.

    Lemma e_field_occ var x : is_kid var ->
      e_field (eobj n) var x = match x with
                               | VNone => if v_nillable var then e_wrap var (map (ienode var) (occ var x)) else []
                               | _ => e_wrap var (map (ienode var) (occ var x))
                               end.
    Proof. intros Hv. unfold RoundtripGen.e_field. rewrite (e_items_occ var x Hv). reflexivity. Qed.

    Lemma e_field_cases var x : is_kid var ->
      (e_field (eobj n) var x = [] /\ occ var x = [])
      \/ e_field (eobj n) var x = e_wrap var (map (ienode var) (occ var x)).
    Proof.
      intros Hv. rewrite (e_field_occ var x Hv). destruct x; try (right; reflexivity).
      unfold occ. destruct (v_nillable var); [right; reflexivity|left; split; reflexivity].
    Qed.

    Lemma wf_elem_default var : wf_elem var = true ->
      match v_factory var, v_tokens_factory var with
      | Some f, _ => factory_default f (v_default var) = true
      | None, Some tf => factory_default tf (v_default var) = true
      | None, None => True
      end.
    Proof.
      unfold wf_elem. intros H. apply andb_true_iff in H as [_ H].
      unfold var_type in H. destruct (v_types var) as [|t [|? ?]]; try discriminate.
      clear - H.
      destruct t; destruct (v_factory var) as [f|]; destruct (v_tokens_factory var) as [tf|];
        try exact I; rewrite ?andb_true_iff in H; try (intuition discriminate); intuition.
    Qed.

    Lemma factory_default_call f d tp : factory_default f d = true -> tp = is_tuple f -> default_call d = VList tp [].
    Proof. destruct f, d; try discriminate; intros _ ->; reflexivity. Qed.

    Lemma eqb_bool a b : Bool.eqb a b = true -> a = b.
    Proof. destruct a, b; try reflexivity; discriminate. Qed.

    Lemma item_ok_tok var tf z : v_tokens_factory var = Some tf -> fits_tokens var tf z = true -> item_ok var z.
    Proof. intros Ht H. unfold item_ok. rewrite Ht. destruct z; try exact H. discriminate H. Qed.
    Lemma item_ok_item var z : v_tokens_factory var = None -> fits_item (fits n) var z = true -> item_ok var z.
    Proof.
      intros Ht H. unfold item_ok. rewrite Ht. destruct z; try exact H.
      exfalso. unfold Fits.fits_item in H. destruct (vtype var); discriminate H.
    Qed.
    Lemma item_ok_inv var z : z <> VNone -> item_ok var z ->
      match v_tokens_factory var with
      | Some tf => fits_tokens var tf z = true
      | None => fits_item (fits n) var z = true
      end.
    Proof. intros Hz H. unfold item_ok in H. destruct z; try exact H. congruence. Qed.

    Lemma elem_value_facts var x : is_elem_var var -> fits_elem (fits n) var x = true ->
      Forall (item_ok var) (occ var x)
      /\ (v_factory var = None -> (length (occ var x) <= 1)%nat)
      /\ (forall pv, eentry var x = [(v_name var, pv)] -> pval_value pv = x)
      /\ (occ var x = [] -> default_call (v_default var) = x).
    Proof.
      intros Hv Hf. pose proof Hv as [Hw Hin].
      pose proof (wf_elem_default var Hw) as Hd.
      unfold Fits.fits_elem in Hf. unfold eentry, occ.
      assert (Hvt : v_types var = [vtype var]).
      { unfold vtype. destruct (v_types var) as [|t0 [|? ?]] eqn:Et; try reflexivity;
          unfold wf_elem, var_type in Hw; rewrite Et in Hw; rewrite !andb_false_r in Hw; discriminate. }
      destruct (v_factory var) as [f|] eqn:Ef; destruct (v_tokens_factory var) as [tf|] eqn:Etf.
      - (* list of token lists *)
        destruct x as [| |tp l| | | |]; try discriminate Hf. apply andb_true_iff in Hf as [Hfl Hl].
        apply eqb_bool in Hfl. rewrite forallb_forall in Hl.
        destruct l as [|y l'].
        + split; [constructor|]. split; [discriminate|]. split; [intros pv E; cbn in E; discriminate E|].
          intros _. apply (factory_default_call f); assumption.
        + pose proof (fits_tokens_inv c u ok py_isspace var tf y (vtype var) Hvt (Hl y (or_introl eq_refl))) as [ty [ly [Ey _]]].
          subst y.
          split; [apply Forall_forall; intros z Hz; apply (item_ok_tok var tf z Etf); apply Hl; exact Hz|]. split; [discriminate|].
          split; [|discriminate].
          intros pv E. cbn in E. inversion E; subst. cbn [pval_value]. rewrite is_tuple_f_eq. reflexivity.
      - (* list *)
        destruct x as [| |tp l| | | |]; try discriminate Hf. apply andb_true_iff in Hf as [Hfl Hl].
        apply eqb_bool in Hfl. rewrite forallb_forall in Hl.
        split; [apply Forall_forall; intros z Hz; apply (item_ok_item var z Etf (Hl z Hz))|]. split; [discriminate|]. split.
        + intros pv E. destruct l; [discriminate E|]. cbn in E. inversion E; subst. cbn [pval_value]. rewrite is_tuple_f_eq. reflexivity.
        + intros ->. apply (factory_default_call f); assumption.
      - (* tokens *)
        destruct x as [| |tp l| | | |] eqn:Ex; try (cbn in Hf; discriminate Hf).
        destruct l as [|y l'].
        + apply andb_true_iff in Hf as [Hf _]. apply eqb_bool in Hf. split; [constructor|]. split; [intros _; cbn; lia|]. split; [intros pv E; cbn in E; discriminate E|].
          intros _. apply (factory_default_call tf); assumption.
        + assert (Hy : match y with VList _ _ => False | _ => True end).
          { unfold Fits.fits_tokens in Hf. apply andb_true_iff in Hf as [_ Hf]. cbn [forallb] in Hf.
            apply andb_true_iff in Hf as [Hy _]. destruct (token_is_leaf c u ok py_isspace _ _ _ Hy) as [p [-> _]]. exact I. }
          destruct y; try destruct Hy;
            (split; [constructor; [apply (item_ok_tok var tf _ Etf); exact Hf|constructor]|]; split; [intros _; cbn; lia|]; split;
             [intros pv E; cbn in E; inversion E; subst; reflexivity|discriminate]).
      - (* single *)
        destruct x eqn:Ex.
        + assert (Hdn : v_default var = DNone) by (destruct (v_default var); try discriminate Hf; reflexivity).
          destruct (v_nillable var) eqn:Enl.
          * assert (Hncl : forall k, v_types var = [TClass k] -> cls_nillable u k = false).
            { intros k Hk. rewrite Hdn in Hf. unfold vtype in Hf. rewrite Hk in Hf. cbn [andb] in Hf.
              apply negb_true_iff in Hf. exact Hf. }
            split; [constructor; [split; [exact Enl|split; [exact Hdn|split; [exact Hncl|exact Etf]]]|constructor]|]. split; [intros _; cbn; lia|].
            split; [intros pv E; cbn in E; inversion E; reflexivity|discriminate].
          * split; [constructor|]. split; [intros _; cbn; lia|]. split; [intros pv E; cbn in E; discriminate E|].
            intros _. rewrite Hdn. reflexivity.
        + split; [constructor; [apply (item_ok_item var _ Etf); exact Hf|constructor]|]. split; [intros _; cbn; lia|]. split; [intros pv E; cbn in E; inversion E; reflexivity|discriminate].
        + exfalso. unfold Fits.fits_item in Hf. destruct (vtype var); discriminate Hf.
        + split; [constructor; [apply (item_ok_item var _ Etf); exact Hf|constructor]|]. split; [intros _; cbn; lia|]. split; [intros pv E; cbn in E; inversion E; reflexivity|discriminate].
        + exfalso. unfold Fits.fits_item in Hf. destruct (vtype var); discriminate Hf.
        + exfalso. unfold Fits.fits_item in Hf. destruct (vtype var); discriminate Hf.
        + exfalso. unfold Fits.fits_item in Hf. destruct (vtype var); discriminate Hf.
    Qed.

    Lemma elem_field_facts var : is_elem_var var ->
      Forall (item_ok var) (occ var (F var))
      /\ (v_factory var = None -> (length (occ var (F var)) <= 1)%nat)
      /\ (forall pv, eentry var (F var) = [(v_name var, pv)] -> pval_value pv = F var)
      /\ (occ var (F var) = [] -> default_call (v_default var) = F var).
    Proof.
      intros Hv. apply (elem_value_facts var (F var) Hv). destruct Hv as [_ Hin]. apply (Hfe _ var Hin (or_introl eq_refl)).
    Qed.

    Lemma ienode_elem var y : is_elem_var var -> item_ok var y ->
      exists q a k, ienode var y = EElem q a k.
    Proof.
      intros Hv Hok. pose proof Hv as [Hw Hin].
      assert (Hcase : y = VNone \/ y <> VNone) by (destruct y; [left; reflexivity|right; discriminate..]).
      destruct Hcase as [->|Hyn].
      { unfold ienode. destruct (v_tokens_factory var); cbn [RoundtripGen.e_item]; unfold RoundtripGen.e_prim; eauto. }
      apply (item_ok_inv var y Hyn) in Hok. unfold ienode in *.
      destruct (v_tokens_factory var) as [tf|] eqn:Etf; [unfold RoundtripGen.e_prim; eauto|].
      destruct (wf_elem_inv var Hw) as [_ [_ [[k [Hty [Hcl _]]]|[[t [Hty [Hst _]]]|[[Hty _]|[Hty _]]]]]].
      4:{ destruct (fits_item_any c u ok _ var y Hty Hok) as [sx [-> _]].
          cbn [RoundtripGen.e_item]. unfold RoundtripGen.e_prim. eauto. }
      - destruct (fits_item_class c u ok _ var k y Hty Hok) as [cl' [fs' [-> [[-> Hfk]|[_ Hfk]]]]];
          cbn [RoundtripGen.e_item]; (destruct n as [|n']; [discriminate Hfk|]);
          destruct (fits_inv c u ok py_isspace n' _ _ Hfk) as [fs'' [mk [E [Hmk _]]]]; inversion E; subst;
          cbn [RoundtripGen.eobj]; rewrite Hmk; cbn [add_xsi_e add_nil_e]; eauto.
      - destruct (fits_item_simple c u ok _ var t y Hty Hst Hok) as [p [-> _]].
        cbn [RoundtripGen.e_item]. unfold RoundtripGen.e_prim. eauto.
      - destruct (fits_item_qname c u ok _ var y Hty Hok) as [q1 [-> _]].
        cbn [RoundtripGen.e_item]. unfold RoundtripGen.e_prim. eauto.
    Qed.
    (* ---------------------------------------------------------------- the child elements, one by one *)
    Hypothesis IH : obj_parses n.
    Hypothesis Hwfcl : wfr cl.
    Hypothesis Hmcl : u_meta u cl = Some m.
    Hypothesis Hnest : forall e v k, In e (m_elements m) -> In v (snd e) -> v_clazz v = Some k -> wfr k.
    Variable attrs0 : list (qname * str).
    Variable ns0 : nsmap.
    Variable pos0 : nat.
    Variable xtv0 : option qname.     (* en_xsi_type: only read by a derived factory, which these nodes do not have *)

    Definition enW (asg : list N) (wr : list (qname * list qname)) : enode :=
      mk_enode m attrs0 ns0 pos0 false xtv0 (xn_of nk0) asg wr.
    Lemma xsi_nil_enW asg wr : xsi_nil_true (enW asg wr) = nk0.
    Proof. apply xn_true. Qed.
    Lemma nil_go : negb nk0 || m_nillable m = true.
    Proof.
      destruct (Bool.bool_dec nk0 true) as [H|H]; [rewrite (proj1 (Hnk0 H)); apply orb_true_r|].
      apply Bool.not_true_is_false in H. rewrite H. reflexivity.
    Qed.
    Definition asg_after (var : xvar) (asg : list N) : list N :=
      match v_factory var with None => asg ++ [v_index var] | Some _ => asg end.
    (* the queue entries above the class element: nothing, or the open wrapper element *)
    Definition ctx (wo : option qname) : list node := match wo with Some w => [NWrapper w] | None => [] end.
    Definition wr_after (var : xvar) (wo : option qname) (wr : list (qname * list qname)) :=
      match wo with Some w => wrappers_push (v_qname var) w wr | None => wr end.

    Lemma elem_not_wrapper var : is_elem_var var -> assoc (v_qname var) (m_wrappers m) = None.
    Proof.
      intros [_ Hin]. destruct (wf_class_inv m Hwc) as [F1 F2 F3 F4 F5 F6 F7 F8 F9 F10 F11 F12 F13].
      rewrite forallb_forall in F4. specialize (F4 _ Hin). cbn [fst snd] in F4. apply andb_true_iff in F4 as [F4 _].
      destruct (assoc (v_qname var) (m_wrappers m)); [discriminate F4|reflexivity].
    Qed.

    Lemma wrapper_known var w : is_elem_var var -> v_wrapper_qname var = Some w ->
      exists x, assoc w (m_wrappers m) = Some x.
    Proof.
      intros [_ Hin] Hw. destruct (wf_class_inv m Hwc) as [F1 F2 F3 F4 F5 F6 F7 F8 F9 F10 F11 F12 F13].
      rewrite forallb_forall in F4. specialize (F4 _ Hin). cbn [fst snd] in F4. apply andb_true_iff in F4 as [_ F4].
      cbn [forallb] in F4. rewrite Hw, andb_true_r in F4. destruct (assoc w (m_wrappers m)); [eauto|discriminate F4].
    Qed.

    Lemma start_child var attrs ns asg wr wo Q objs W node :
      is_elem_var var ->
      (v_factory var = None -> ~ In (v_index var) asg) ->
      wrap_agrees var wo ->
      build_node c u (enW asg wr) (v_qname var) var attrs ns (length objs) = ROk (Some node) ->
      pstep (mk_pstate (ctx wo ++ NElement (enW asg wr) :: Q) objs W) (PStart (v_qname var) attrs ns)
      = ROk (mk_pstate (node :: ctx wo ++ NElement (enW (asg_after var asg) (wr_after var wo wr)) :: Q) objs W).
    Proof.
      intros Hv Hasg Hag Hb. pose proof Hv as [Hw Hin].
      destruct (elem_var_facts var Hv) as [Hi [Hwl [_ [Hk _]]]].
      destruct (wf_elem_inv var Hw) as [_ [Hc _]]. destruct (var_common_inv var Hc) as [_ [_ [_ [_ [_ [_ [_ [_ Hidx]]]]]]]].
      destruct (find_children_elem var Hv) as [tl Efc].
      assert (Hloop : child_loop c u (enW asg wr) (v_qname var) attrs ns (length objs) wo (var :: tl)
                      = ROk (Some (node, enW (asg_after var asg) (wr_after var wo wr)))).
      { cbn [child_loop]. rewrite (wrapper_mismatch_no var wo Hag). rewrite Hk.
        unfold v_list_element, asg_after. destruct (v_factory var) as [f|] eqn:Ef.
        - cbn [negb andb N.eqb orb]. rewrite Hb. cbn [rbind N.eqb].
          unfold wr_after. destruct wo as [w|]; [|reflexivity]. destruct Hag as [_ Hne].
          destruct w as [|ch w']; [congruence|]. reflexivity.
        - cbn [negb andb]. destruct (N.eqb_spec (v_index var) 0) as [E|_]; [contradiction|].
          cbn [orb]. change (en_assigned (enW asg wr)) with asg.
          assert (Hex : existsb (N.eqb (v_index var)) asg = false).
          { apply existsb_false_iff'. intros i Hi'. apply N.eqb_neq. intros E. subst i. apply (Hasg eq_refl). exact Hi'. }
          rewrite Hex. cbn [negb]. rewrite Hb. cbn [rbind].
          destruct (N.eqb_spec (v_index var) 0) as [E|_]; [contradiction|].
          unfold wr_after. destruct wo as [w|]; [|reflexivity]. destruct Hag as [_ Hne].
          destruct w as [|ch w']; [congruence|]. reflexivity. }
      destruct wo as [w|]; cbn [ctx app Parser.step start st_queue st_objects st_warn].
      - unfold element_child. change (en_meta (enW asg wr)) with m. rewrite Efc.
        rewrite Hloop. reflexivity.
      - change (en_meta (enW asg wr)) with m. rewrite (elem_not_wrapper var Hv). cbn [is_some].
        unfold element_child. change (en_meta (enW asg wr)) with m. rewrite Efc.
        rewrite Hloop. reflexivity.
    Qed.

    Lemma build_node_prim var ns pos asg wr :
      is_elem_var var -> v_clazz var = None -> is_object var = false ->
      build_node c u (enW asg wr) (v_qname var) var [] ns pos = ROk (Some (NPrimitive m var ns)).
    Proof.
      intros Hv Hcl Hobj. pose proof Hv as [Hw _].
      destruct (elem_var_facts var Hv) as [Hi [Hwl _]].
      destruct (wf_elem_inv var Hw) as [_ [Hc _]]. destruct (var_common_inv var Hc) as [_ [_ [Hany _]]].
      unfold build_node, v_is_clazz_union. rewrite Hcl. unfold Parser.xsi_type_of. cbn [assoc truthy_str rbind].
      rewrite Hany, Hobj, Hwl. reflexivity.
    Qed.

    Lemma build_node_prim_attrs var attrs ns pos asg wr :
      is_elem_var var -> v_clazz var = None -> is_object var = false -> assoc XSI_TYPE attrs = None ->
      build_node c u (enW asg wr) (v_qname var) var attrs ns pos = ROk (Some (NPrimitive m var ns)).
    Proof.
      intros Hv Hcl Hobj Hxt. pose proof Hv as [Hw _].
      destruct (elem_var_facts var Hv) as [Hi [Hwl _]].
      destruct (wf_elem_inv var Hw) as [_ [Hc _]]. destruct (var_common_inv var Hc) as [_ [_ [Hany _]]].
      unfold build_node, v_is_clazz_union. rewrite Hcl. unfold Parser.xsi_type_of. rewrite Hxt. cbn [truthy_str rbind].
      rewrite Hany, Hobj, Hwl. reflexivity.
    Qed.

    Lemma build_node_class var k mk attrs ns pos asg wr :
      is_elem_var var -> v_clazz var = Some k -> v_types var = [TClass k] ->
      u_meta u k = Some mk ->
      Parser.xsi_type_of c attrs ns = ROk None -> forall nk, xsi_nil_of attrs = xn_of nk -> (nk = true -> m_nillable mk = true) ->
      build_node c u (enW asg wr) (v_qname var) var attrs ns pos
      = ROk (Some (NElement (mk_enode mk attrs ns pos false None (xn_of nk) [] []))).
    Proof.
      intros Hv Hcl Hty Hmk Hxt nk Hxn Hn. pose proof Hv as [Hw _].
      unfold build_node, v_is_clazz_union. rewrite Hcl, Hty. change (1 <? N.of_nat (length [TClass k])) with false. cbn iota.
      rewrite Hxt, Hxn. cbn [truthy_str rbind].
      unfold build_element_node, fetch, get_meta. rewrite Hmk. cbn [rbind truthy_str].
      destruct nk; [rewrite (Hn eq_refl), orb_true_r|]; reflexivity.
    Qed.

    (* xsi:type names a strict subclass of the declared class: its metadata, no derived wrapper *)
    Lemma build_node_derived var kd k attrs ns pos asg wr t mk mkd :
      is_elem_var var -> v_clazz var = Some kd -> v_types var = [TClass kd] ->
      u_meta u kd = Some mkd -> u_meta u k = Some mk -> m_clazz mk = k ->
      t <> [] -> m_target_qname mkd <> Some t -> sub_lookup u kd t = Some k -> c_from_qname c t = None ->
      is_subclass u k kd = true ->
      Parser.xsi_type_of c attrs ns = ROk (Some t) -> forall nk, xsi_nil_of attrs = xn_of nk -> (nk = true -> m_nillable mk = true) ->
      build_node c u (enW asg wr) (v_qname var) var attrs ns pos
      = ROk (Some (NElement (mk_enode mk attrs ns pos false (Some t) (xn_of nk) [] []))).
    Proof.
      intros Hv Hcl Hty Hmkd Hmk Hmc' Hne Htg Hsl Hfq Hsub Hxt nk Hxn Hn. pose proof Hv as [Hw _].
      unfold build_node, v_is_clazz_union. rewrite Hcl, Hty. change (1 <? N.of_nat (length [TClass kd])) with false. cbn iota.
      rewrite Hxt, Hxn. cbn [truthy_str rbind].
      unfold build_element_node, fetch, get_meta. rewrite Hmkd. cbn [rbind].
      destruct t as [|ch t']; [congruence|]. cbn [truthy_str].
      match goal with |- context [ostr_eqb ?a ?b] => destruct (ostr_eqb a b) eqn:Eo end.
      { exfalso. apply Htg. destruct (m_target_qname mkd) as [tq|]; [|discriminate Eo].
        cbn [ostr_eqb opt_eqb] in Eo. apply str_eqb_eq in Eo. rewrite Eo. reflexivity. }
      assert (Ef : find_subclass c u kd (ch :: t') = Some k).
      { unfold find_subclass, ctx_find_types. rewrite Hfq. exact Hsl. }
      rewrite Ef, Hmk. cbn [rbind is_some negb andb].
      rewrite Hmc', Hsub. destruct nk; [rewrite (Hn eq_refl), orb_true_r|]; reflexivity.
    Qed.

    Lemma reads_prim0 var y t a :
      vshape t (v_format var) y -> reads (e_prim var y) a ->
      exists ns tail, blank_o tail = true
        /\ a = [PStart (v_qname var) [] ns;
                PEnd (v_qname var) (match y_text (v_format var) y with [] => None | s => Some s end) tail].
    Proof.
      intros Hs Hr. assert (Ene : nil_attr_e var y = []) by (destruct Hs; reflexivity).
      unfold RoundtripGen.e_prim in Hr. rewrite Ene in Hr. cbn [reads_o] in Hr.
      destruct Hr as [attrs [ns [text [tail [kes [Ha [Hra [Htl Hk]]]]]]]]. destruct Hra as [_ [Hlen _]].
      rewrite clark_split in Ha. destruct attrs; [|discriminate Hlen].
      destruct (e_data_spec c u ok t _ y Hs) as [Hd Hat]. rewrite Hd in Hk.
      exists ns, tail. split; [exact Htl|].
      destruct (y_text (v_format var) y) as [|ch s] eqn:Ey.
      - destruct Hk as [-> ->]. exact Ha.
      - destruct Hk as [s' [Hs' [_ [-> ->]]]].
        apply (atoms_read_plain ns _ s' (e_atoms_vshape_plain c u ok t _ y Hs)) in Hs'.
        rewrite Hat in Hs'. inversion Hs' as [Es]. rewrite <- Es in Ha. exact Ha.
    Qed.

    Lemma reads_prim var y t a :
      v_types var = [t] -> vshape t (v_format var) y -> reads (e_prim var y) a ->
      exists ns tail, blank_o tail = true
        /\ a = [PStart (v_qname var) [] ns;
                PEnd (v_qname var) (match y_text (v_format var) y with [] => None | s => Some s end) tail].
    Proof.
      intros Ht Hs Hr. assert (Ene : nil_attr_e var y = []) by (destruct Hs; reflexivity).
      unfold RoundtripGen.e_prim in Hr. rewrite Ene in Hr. cbn [reads_o] in Hr.
      destruct Hr as [attrs [ns [text [tail [kes [Ha [Hra [Htl Hk]]]]]]]]. destruct Hra as [_ [Hlen _]].
      rewrite clark_split in Ha. destruct attrs; [|discriminate Hlen].
      destruct (e_data_spec c u ok t _ y Hs) as [Hd Hat]. rewrite Hd in Hk.
      exists ns, tail. split; [exact Htl|].
      destruct (y_text (v_format var) y) as [|ch s] eqn:Ey.
      - destruct Hk as [-> ->]. exact Ha.
      - destruct Hk as [s' [Hs' [_ [-> ->]]]].
        apply (atoms_read_plain ns _ s' (e_atoms_vshape_plain c u ok t _ y Hs)) in Hs'.
        rewrite Hat in Hs'. inversion Hs' as [Es]. rewrite <- Es in Ha. exact Ha.
    Qed.

    (* a primitive / token element *)
    Lemma prim_item_run var y t a asg wr wo Q objs W rest :
      is_elem_var var -> v_clazz var = None -> v_types var = [t] -> simple_type t = true ->
      vshape t (v_format var) y -> tokens_agree var y ->
      (y_text (v_format var) y = [] -> exists p, y = VP p /\ empty_ok c u var p = true) ->
      (v_factory var = None -> ~ In (v_index var) asg) -> wrap_agrees var wo ->
      reads (e_prim var y) a ->
      prun (mk_pstate (ctx wo ++ NElement (enW asg wr) :: Q) objs W) (a ++ rest)
      = prun (mk_pstate (ctx wo ++ NElement (enW (asg_after var asg) (wr_after var wo wr)) :: Q) (objs ++ [(Some (v_qname var), y)]) W) rest.
    Proof.
      intros Hv Hcl Ht Hst Hs Htk Hemp Hasg Hag Hr. pose proof Hv as [Hw _].
      destruct (reads_prim var y t a Ht Hs Hr) as [ns [tail [Htl ->]]].
      cbn [app].
      assert (Hobj : is_object var = false) by (unfold is_object; rewrite Ht; destruct t; try reflexivity; discriminate Hst).
      rewrite (run_step cfg c u replay root _ _ _ _
                 (start_child var [] ns asg wr wo Q objs W _ Hv Hasg Hag (build_node_prim var ns (length objs) asg wr Hv Hcl Hobj))).
      destruct (wf_class_inv m Hwc) as [F1 F2 F3 F4 F5 F6 F7 F8 F9 F10 F11 F12 F13].
      apply run_step. cbn [Parser.step pend st_queue st_objects st_warn].
      unfold primitive_bind.
      assert (Hpv : parse_var c (fail_conv_warnings cfg) m var
                      (match y_text (v_format var) y with [] => None | s => Some s end) ns None None
                    = ROk ((match y_text (v_format var) y with [] => VNone | _ => y end), [])).
      { destruct (y_text (v_format var) y) as [|ch s] eqn:Ey.
        - destruct (Hemp eq_refl) as [p [-> Hep]]. unfold parse_var. cbn [truthy_str]. rewrite Ht.
          cbn [parse_value]. unfold empty_ok in Hep. cbn [y_text] in Ey. rewrite Ey in Hep. cbn [nonempty_s orb] in Hep.
          apply andb_true_iff in Hep as [Hd _]. apply andb_true_iff in Hd as [_ Hd].
          cbn [tokens_agree] in Htk. rewrite Htk. cbn [is_some].
          destruct (v_default var); try discriminate Hd; reflexivity.
        - rewrite <- Ey. apply (parse_var_text m var t y ns Ht Hs Htk). }
      rewrite Hpv. cbn [rbind]. rewrite F6.
      unfold finish_end. cbn [rbind fst snd st_warn]. rewrite app_nil_r.
      destruct (y_text (v_format var) y) as [|ch s] eqn:Ey.
      - destruct (Hemp eq_refl) as [p [-> Hep]]. unfold empty_ok in Hep. cbn [y_text] in Ey. rewrite Ey in Hep.
        cbn [nonempty_s orb] in Hep. apply andb_true_iff in Hep as [Hep Hp]. apply andb_true_iff in Hep as [Hnl _].
        apply negb_true_iff in Hnl. rewrite Hnl, Ht.
        destruct p as [s0| | | | |b0| | |]; try discriminate Hp; [destruct s0; [|discriminate Hp]|destruct b0; [|discriminate Hp]].
        + inversion Hs as [p' Hlf|]; subst. destruct (leaf_ok_inv c u ok t _ _ Hlf) as [_ [Hty _]].
          cbn [prim_ptype] in Hty. subst t. reflexivity.
        + unfold vtype in Hp. rewrite Ht in Hp. destruct t; try discriminate Hp. reflexivity.
      - destruct Hs; reflexivity.
    Qed.

    (* a nested object *)
    Lemma obj_item_run var k y a asg wr wo Q objs W rest :
      is_elem_var var -> v_clazz var = Some k -> v_types var = [TClass k] ->
      fits_item (fits n) var y = true ->
      (v_factory var = None -> ~ In (v_index var) asg) -> wrap_agrees var wo ->
      reads (e_item (eobj n) var y) a ->
      prun (mk_pstate (ctx wo ++ NElement (enW asg wr) :: Q) objs W) (a ++ rest)
      = prun (mk_pstate (ctx wo ++ NElement (enW (asg_after var asg) (wr_after var wo wr)) :: Q) (objs ++ [(Some (v_qname var), y)]) W) rest.
    Proof.
      intros Hv Hcl Hty Hfy Hasg Hag Hr. pose proof Hv as [Hw Hin].
      assert (Hname : forall k', elem_name (Some (v_qname var)) k' = v_qname var).
      { intros k'. unfold elem_name. pose proof (wf_elem_qname var Hw) as Hq. destruct (v_qname var); [congruence|reflexivity]. }
      destruct (fits_item_class c u ok _ var k y Hty Hfy) as [cl' [fs' [-> [[-> Hfk]|[Hdok Hfk]]]]].
      - (* an instance of the declared class: no xsi:type *)
        cbn [RoundtripGen.e_item] in Hr.
        assert (Ex : xsi_for u var k = None).
        { unfold xsi_for. rewrite Hty. cbn [existsb ptype_eqb]. rewrite N.eqb_refl. reflexivity. }
        rewrite Ex in Hr.
        assert (Hwk : wfr k) by (apply (Hnest _ var k Hin (or_introl eq_refl) Hcl)).
        pose proof (nil_ok_item var k k fs' n Hty Hfy Hfk) as Hnko.
        destruct (IH k (VObj k fs') (Some (v_qname var)) None (nil_kept u (v_nillable var || cnil u (VObj k fs')) (VObj k fs')) Hwk Hfk) with (pevs := a) as [attrs [ns [inner [-> [Hxt [Hxn Hrun]]]]]];
          [intros q Hq; discriminate Hq|intros Hx; exfalso; apply Hx; reflexivity|exact Hnko|exact Hr|].
        rewrite Hname in *.
        destruct (wfr_inv u k Hwk) as [mk [Hmk [_ [Hwck _]]]].
        destruct (wf_class_inv mk Hwck) as [G1 G2 G3 G4 G5 G6 G7 G8 G9 G10 G11 G12 G13].
        cbn [app].
        rewrite (run_step cfg c u replay root _ _ _ _
                   (start_child var attrs ns asg wr wo Q objs W _ Hv Hasg Hag
                      (build_node_class var k mk attrs ns (length objs) asg wr Hv Hcl Hty Hmk Hxt _ Hxn
                         (fun H => proj1 (proj2 (Hnko H) mk Hmk))))).
        apply (Hrun mk Hmk).
      - (* an instance of a strict subclass, announced by xsi:type *)
        cbn [RoundtripGen.e_item] in Hr.
        destruct (derived_ok_inv c u ok var k cl' Hdok)
          as [Hne [Hsub [mk [mkd [t [Hmk [Hmkd [Htq [Htne [Htv [Htg [Hsl [Hfq [Hokt Hqt]]]]]]]]]]]]]].
        assert (Ex : xsi_for u var cl' = Some t).
        { unfold xsi_for. rewrite Hty. cbn [existsb ptype_eqb].
          destruct (N.eqb_spec cl' k) as [E|_]; [contradiction|]. cbn [orb]. rewrite Hmk, Htq.
          unfold EventGen.real_xsi_type. destruct (str_eqb_spec t (v_qname var)) as [E|_]; [contradiction|reflexivity]. }
        rewrite Ex in Hr.
        assert (Hxv : xsi_val (Some t) = Some t) by (destruct t; [congruence|reflexivity]).
        assert (Hwk : wfr cl').
        { apply (wfr_sub u cl m _ var k cl' Hwfcl Hmcl Hin (or_introl eq_refl) Hcl); [congruence|exact Hne|exact Hsub]. }
        pose proof (nil_ok_item var k cl' fs' n Hty Hfy Hfk) as Hnko.
        destruct (IH cl' (VObj cl' fs') (Some (v_qname var)) (Some t) (nil_kept u (v_nillable var || cnil u (VObj cl' fs')) (VObj cl' fs')) Hwk Hfk) with (pevs := a) as [attrs [ns [inner [-> [Hxt [Hxn Hrun]]]]]];
          [intros q Hq; rewrite Hxv in Hq; inversion Hq; subst q; split; assumption
          |intros _ mk0 Hmk0; apply (derived_ok_noxsi c u ok var k cl' mk0 Hdok Hmk0)|exact Hnko|exact Hr|].
        rewrite Hname in *. rewrite Hxv in Hxt.
        destruct (wfr_inv u cl' Hwk) as [mk' [Hmk' [Hmc' [Hwck _]]]]. rewrite Hmk in Hmk'. inversion Hmk'; subst mk'. clear Hmk'.
        destruct (wf_class_inv mk Hwck) as [G1 G2 G3 G4 G5 G6 G7 G8 G9 G10 G11 G12 G13].
        cbn [app].
        rewrite (run_step cfg c u replay root _ _ _ _
                   (start_child var attrs ns asg wr wo Q objs W _ Hv Hasg Hag
                      (build_node_derived var k cl' attrs ns (length objs) asg wr t mk mkd Hv Hcl Hty Hmkd Hmk Hmc'
                         Htne Htg Hsl Hfq Hsub Hxt _ Hxn (fun H => proj1 (proj2 (Hnko H) mk Hmk))))).
        apply (Hrun mk Hmk).
    Qed.

    (* a QName valued element: its text resolves through the prefix map of its own start event *)
    Lemma qname_nontrivial q1 : qname_ok q1 = true -> atoms_trivial [AQName (Bind.split_qname q1)] = false.
    Proof.
      unfold qname_ok. destruct (Bind.split_qname q1) as [uo l]. cbn [snd]. intros H.
      destruct uo; [reflexivity|]. destruct l; [discriminate H|reflexivity].
    Qed.

    Lemma qprim_item_run var q1 a asg wr wo Q objs W rest :
      is_elem_var var -> v_clazz var = None -> v_types var = [TQName] -> v_tokens_factory var = None ->
      ok (PQName q1) = true -> qname_ok q1 = true ->
      (v_factory var = None -> ~ In (v_index var) asg) -> wrap_agrees var wo ->
      reads (e_prim var (VP (PQName q1))) a ->
      prun (mk_pstate (ctx wo ++ NElement (enW asg wr) :: Q) objs W) (a ++ rest)
      = prun (mk_pstate (ctx wo ++ NElement (enW (asg_after var asg) (wr_after var wo wr)) :: Q)
                        (objs ++ [(Some (v_qname var), VP (PQName q1))]) W) rest.
    Proof.
      intros Hv Hcl Ht Htf Hok Hq Hasg Hag Hr. pose proof Hv as [Hw _].
      unfold RoundtripGen.e_prim, RoundtripGen.e_data in Hr. cbn [RoundtripGen.e_atoms] in Hr.
      rewrite (qname_nontrivial q1 Hq) in Hr. cbn [reads_o] in Hr.
      destruct Hr as [attrs [ns [text [tail [kes [Ha [Hra [Htl Hk]]]]]]]]. destruct Hra as [_ [Hlen _]].
      rewrite clark_split in Ha. destruct attrs; [|discriminate Hlen].
      destruct Hk as [s [Hs [Hne [-> ->]]]]. cbn [atoms_read] in Hs. subst a.
      cbn [app].
      assert (Hobj : is_object var = false) by (unfold is_object; rewrite Ht; reflexivity).
      rewrite (run_step cfg c u replay root _ _ _ _
                 (start_child var [] ns asg wr wo Q objs W _ Hv Hasg Hag (build_node_prim var ns (length objs) asg wr Hv Hcl Hobj))).
      destruct (wf_class_inv m Hwc) as [F1 F2 F3 F4 F5 F6 F7 F8 F9 F10 F11 F12 F13].
      destruct (wf_elem_inv var Hw) as [_ [Hc _]]. destruct (var_common_inv var Hc) as [_ [_ [_ [Hn _]]]].
      apply run_step. cbn [Parser.step pend st_queue st_objects st_warn].
      unfold primitive_bind.
      assert (Hpv : parse_var c (fail_conv_warnings cfg) m var (Some s) ns None None = ROk (VP (PQName q1), [])).
      { unfold parse_var. cbn [truthy_str]. rewrite Ht, Htf. cbn [parse_value]. unfold deser.
        rewrite (proj2 conv_law (v_format var) ns q1 s Hok Hs). reflexivity. }
      rewrite Hpv. cbn [rbind]. rewrite F6.
      unfold finish_end. cbn [rbind fst snd st_warn]. rewrite app_nil_r. reflexivity.
    Qed.

    (* None in a nillable field: <f xsi:nil="true"/> *)
    Lemma normalize_blank tl : blank_o tl = true -> normalize_content tl = None.
    Proof.
      destruct tl as [s0|]; [|reflexivity]. cbn [blank_o normalize_content]. intros H.
      unfold py_strip. rewrite (strip_all py_isspace s0 (blank_py s0 H)). reflexivity.
    Qed.

    (* an xs:anyType element holding a str: no class is named like the element, a WildcardNode hands the
       raw text back *)
    Lemma any_item_run var sx a asg wr wo Q objs W rest :
      is_elem_var var -> any_elem var -> leaf_ok TStr (v_format var) (PStr sx) = true ->
      (v_factory var = None -> ~ In (v_index var) asg) -> wrap_agrees var wo ->
      reads (e_prim var (VP (PStr sx))) a ->
      prun (mk_pstate (ctx wo ++ NElement (enW asg wr) :: Q) objs W) (a ++ rest)
      = prun (mk_pstate (ctx wo ++ NElement (enW (asg_after var asg) (wr_after var wo wr)) :: Q)
                        (objs ++ [(Some (v_qname var), VP (PStr sx))]) W) rest.
    Proof.
      intros Hv Hae Hlf Hasg Hag Hr. pose proof Hv as [Hw Hin].
      destruct Hae as [Hty [Hcl [Htf [Hfac [Hnl [Hdf Hat]]]]]].
      destruct (reads_prim0 var (VP (PStr sx)) TStr a (vs_leaf _ _ _ _ _ _ Hlf) Hr) as [ns [tail [Htl ->]]].
      cbn [app].
      pose proof (wfr_any u cl m _ var Hwfcl Hmcl Hin (or_introl eq_refl) Hty) as Hfree.
      destruct (elem_var_facts var Hv) as [Hi [Hwl _]].
      assert (Hb : build_node c u (enW asg wr) (v_qname var) var [] ns (length objs) = ROk (Some (NWildcard var [] ns (length objs)))).
      { unfold build_node, v_is_clazz_union. rewrite Hcl.
        unfold Parser.xsi_type_of. cbn [assoc truthy_str rbind]. rewrite Hat, Hwl. cbn [negb andb].
        unfold ctx_find_type, ctx_find_types. rewrite Hfree.
        destruct (c_from_qname c (v_qname var)); destruct (negb (str_eqb (v_process_contents var) s_skip)); reflexivity. }
      rewrite (run_step cfg c u replay root _ _ _ _ (start_child var [] ns asg wr wo Q objs W _ Hv Hasg Hag Hb)).
      apply run_step. cbn [Parser.step pend st_queue st_objects st_warn].
      unfold wildcard_bind. rewrite skipn_all, firstn_all.
      cbn [map parse_any_attributes]. rewrite (normalize_blank tail Htl), Hwl, Hnl, str_eqb_refl.
      cbn [is_some negb orb].
      destruct sx as [|ch sx']; reflexivity.
    Qed.

    Lemma xsi_type_not_nil : str_eqb XSI_TYPE XSI_NIL = false.
    Proof. vm_compute. reflexivity. Qed.

    Lemma nil_item_run var a asg wr wo Q objs W rest :
      is_elem_var var -> v_nillable var = true -> v_default var = DNone ->
      (forall k, v_types var = [TClass k] -> cls_nillable u k = false) ->
      v_tokens_factory var = None ->
      (v_factory var = None -> ~ In (v_index var) asg) -> wrap_agrees var wo ->
      reads (ienode var VNone) a ->
      prun (mk_pstate (ctx wo ++ NElement (enW asg wr) :: Q) objs W) (a ++ rest)
      = prun (mk_pstate (ctx wo ++ NElement (enW (asg_after var asg) (wr_after var wo wr)) :: Q)
                        (objs ++ [(Some (v_qname var), VNone)]) W) rest.
    Proof.
      intros Hv Hnl Hdn Hncl Htf Hasg Hag Hr. pose proof Hv as [Hw _].
      assert (He : ienode var VNone = EElem (Bind.split_qname (v_qname var)) [(Bind.split_qname XSI_NIL, [AText EventGen.TRUE_STR])] []).
      { unfold ienode. rewrite Htf. cbn [RoundtripGen.e_item]. unfold RoundtripGen.e_prim, nil_attr_e. rewrite Hnl. reflexivity. }
      rewrite He in Hr. cbn [reads_o] in Hr.
      destruct Hr as [attrs [ns [text [tail [kes [Ha [Hra [Htl [-> ->]]]]]]]]].
      destruct Hra as [_ [Hlen [Hall _]]].
      destruct (Hall _ (or_introl eq_refl)) as [v [Hv1 Hv2]]. cbn [fst snd atoms_read] in Hv1, Hv2.
      rewrite clark_split in Hv2. inversion Hv1; subst v.
      destruct attrs as [|a0 [|? ?]]; try discriminate Hlen. destruct Hv2 as [->|[]].
      rewrite clark_split in Ha. subst a. cbn [app].
      destruct (wf_elem_nil var Hw Hnl) as [[t [Ht [Hst Hcl]]]|[k [Ht [Hcl _]]]].
      2:{ (* a class-typed field: the element node answers None (the class is not nillable) *)
          pose proof (Hncl k Ht) as Hnk.
          pose proof Hv as [_ Hin0]. assert (Hwk : wfr k) by (apply (Hnest _ var k Hin0 (or_introl eq_refl) Hcl)).
          destruct (wfr_inv u k Hwk) as [mk [Hmk _]].
          unfold cls_nillable in Hnk. rewrite Hmk in Hnk.
          assert (Hb : build_node c u (enW asg wr) (v_qname var) var [(XSI_NIL, EventGen.TRUE_STR)] ns (length objs)
                       = ROk (Some (NElement (mk_enode mk [(XSI_NIL, EventGen.TRUE_STR)] ns (length objs) false None (Some true) [] [])))).
          { unfold build_node, v_is_clazz_union. rewrite Hcl, Ht. change (1 <? N.of_nat (length [TClass k])) with false. cbn iota.
            assert (Ex : Parser.xsi_type_of c [(XSI_NIL, EventGen.TRUE_STR)] ns = ROk None).
            { unfold Parser.xsi_type_of. cbn [assoc]. rewrite xsi_type_not_nil. reflexivity. }
            rewrite Ex. cbn [rbind].
            assert (En : xsi_nil_of [(XSI_NIL, EventGen.TRUE_STR)] = Some true) by (vm_compute; reflexivity).
            rewrite En. unfold build_element_node, fetch, get_meta. rewrite Hmk. cbn [rbind truthy_str].
            rewrite Hnl. reflexivity. }
          rewrite (run_step cfg c u replay root _ _ _ _ (start_child var _ ns asg wr wo Q objs W _ Hv Hasg Hag Hb)).
          apply run_step. cbn [Parser.step pend st_queue st_objects st_warn].
          unfold element_bind, xsi_nil_true. cbn [en_xsi_nil en_meta en_derived]. rewrite Hnk. cbn [negb orb rbind].
          unfold finish_end. cbn [rbind fst snd st_warn]. rewrite app_nil_r.
          unfold append_tail. rewrite (normalize_blank tail Htl). reflexivity. }
      rewrite (run_step cfg c u replay root _ _ _ _
                 (start_child var _ ns asg wr wo Q objs W _ Hv Hasg Hag
                    (build_node_prim_attrs var [(XSI_NIL, EventGen.TRUE_STR)] ns (length objs) asg wr Hv Hcl
                       ltac:(unfold is_object; rewrite Ht; destruct Hst as [Hst| ->]; [destruct t; try reflexivity; discriminate Hst|reflexivity])
                       ltac:(cbn [assoc]; rewrite xsi_type_not_nil; reflexivity)))).
      destruct (wf_class_inv m Hwc) as [F1 F2 F3 F4 F5 F6 F7 F8 F9 F10 F11 F12 F13].
      apply run_step. cbn [Parser.step pend st_queue st_objects st_warn].
      unfold primitive_bind, parse_var. cbn [truthy_str]. rewrite Ht, Htf, Hdn. cbn [parse_value default_none rbind].
      rewrite Hnl, F6. unfold finish_end. cbn [rbind fst snd st_warn]. rewrite app_nil_r. reflexivity.
    Qed.

    Lemma one_item_run var y a asg wr wo Q objs W rest :
      is_elem_var var -> item_ok var y ->
      (v_factory var = None -> ~ In (v_index var) asg) -> wrap_agrees var wo ->
      reads (ienode var y) a ->
      prun (mk_pstate (ctx wo ++ NElement (enW asg wr) :: Q) objs W) (a ++ rest)
      = prun (mk_pstate (ctx wo ++ NElement (enW (asg_after var asg) (wr_after var wo wr)) :: Q) (objs ++ [(Some (v_qname var), y)]) W) rest.
    Proof.
      intros Hv Hok Hasg Hag Hr. pose proof Hv as [Hw Hin].
      assert (Hcase : y = VNone \/ y <> VNone) by (destruct y; [left; reflexivity|right; discriminate..]).
      destruct Hcase as [->|Hyn].
      { destruct Hok as [Hnl [Hdn [Hncl Htf0]]]. apply (nil_item_run var a asg wr wo Q objs W rest Hv Hnl Hdn Hncl Htf0 Hasg Hag Hr). }
      apply (item_ok_inv var y Hyn) in Hok. unfold ienode in Hr.
      destruct (wf_elem_inv var Hw) as [_ [_ [[k [Hty [Hcl Htf]]]|[[t [Hty [Hst Hcl]]]|[[Hty [Hcl Htf]]|Hae]]]]].
      4:{ pose proof Hae as [Hty [_ [Htf _]]]. rewrite Htf in *.
          destruct (fits_item_any c u ok _ var y Hty Hok) as [sx [-> [Hlf _]]].
          cbn [RoundtripGen.e_item] in Hr.
          apply (any_item_run var sx a asg wr wo Q objs W rest Hv Hae Hlf Hasg Hag Hr). }
      3:{ rewrite Htf in *. destruct (fits_item_qname c u ok _ var y Hty Hok) as [q1 [-> [Hokq Hq]]].
          cbn [RoundtripGen.e_item] in Hr.
          apply (qprim_item_run var q1 a asg wr wo Q objs W rest Hv Hcl Hty Htf Hokq Hq Hasg Hag Hr). }
      - rewrite Htf in *. apply (obj_item_run var k y a asg wr wo Q objs W rest Hv Hcl Hty Hok Hasg Hag Hr).
      - destruct (v_tokens_factory var) as [tf|] eqn:Etf.
        + destruct (fits_tokens_inv c u ok py_isspace var tf y t Hty Hok) as [tp [l [-> [Hne [Htk Htp]]]]].
          assert (Hsh : vshape t (v_format var) (VList tp l)) by (apply vs_tokens; exact Htk).
          assert (Hagt : tokens_agree var (VList tp l)) by (exists tf; split; [exact Etf|exact Htp]).
          assert (Hemp : y_text (v_format var) (VList tp l) = [] -> exists p, VList tp l = VP p /\ empty_ok c u var p = true).
          { intros Hy. exfalso. cbn [y_text] in Hy. destruct l as [|y1 l']; [congruence|].
            cbn [forallb] in Htk. apply andb_true_iff in Htk as [H1 _].
            destruct (token_ok_inv c u ok t _ y1 H1) as [p [-> [_ [Hne' _]]]].
            cbn [map] in Hy. apply (join_nonempty _ (map (x_text c u (v_format var)) l') Hne'). exact Hy. }
          apply (prim_item_run var (VList tp l) t a asg wr wo Q objs W rest Hv Hcl Hty Hst Hsh Hagt Hemp Hasg Hag Hr).
        + destruct (fits_item_simple c u ok _ var t y Hty Hst Hok) as [p [-> Hp]].
          assert (Hsh : vshape t (v_format var) (VP p)) by (apply vs_leaf; exact Hp).
          assert (Hemp : y_text (v_format var) (VP p) = [] -> exists p0, VP p = VP p0 /\ empty_ok c u var p0 = true).
          { intros _. exists p. split; [reflexivity|].
            unfold Fits.fits_item, vtype in Hok. rewrite Hty in Hok.
            destruct t; try discriminate Hst; apply andb_true_iff in Hok as [_ Hok]; exact Hok. }
          apply (prim_item_run var (VP p) t a asg wr wo Q objs W rest Hv Hcl Hty Hst Hsh Etf Hemp Hasg Hag Hr).
    Qed.

    Lemma reads_kids_cons k r kes : reads_kids (k :: r) kes <-> exists a b, kes = a ++ b /\ reads k a /\ reads_kids r b.
    Proof. reflexivity. Qed.

    Lemma reads_kids_app a : forall b kes,
      reads_kids (a ++ b) kes <-> exists k1 k2, kes = k1 ++ k2 /\ reads_kids a k1 /\ reads_kids b k2.
    Proof.
      induction a as [|x a IHa]; intros b kes; cbn [app reads_kids_o].
      - split.
        + intros H. exists [], kes. repeat split. exact H.
        + intros [k1 [k2 [-> [-> H]]]]. exact H.
      - split.
        + intros [p [q [-> [Hp Hq]]]]. apply IHa in Hq as [k1 [k2 [-> [H1 H2]]]].
          exists (p ++ k1), k2. rewrite app_assoc. repeat split; [|exact H2]. exists p, k1. repeat split; assumption.
        + intros [k1 [k2 [-> [[p [q [-> [Hp Hq]]]] H2]]]]. exists p, (q ++ k2). rewrite app_assoc. repeat split; [exact Hp|].
          apply IHa. exists q, k2. repeat split; assumption.
    Qed.

    (* the wrappers queue after the items of one (list) field were started inside the wrapper `wo` *)
    Fixpoint wr_pushes (var : xvar) (wo : option qname) (k : nat) (wr : list (qname * list qname)) :=
      match k with O => wr | S k' => wr_pushes var wo k' (wr_after var wo wr) end.

    (* the items of a list field *)
    Lemma list_items_run var f l : forall kes asg wr wo Q objs W rest,
      is_elem_var var -> v_factory var = Some f -> Forall (item_ok var) l -> wrap_agrees var wo ->
      reads_kids (map (ienode var) l) kes ->
      prun (mk_pstate (ctx wo ++ NElement (enW asg wr) :: Q) objs W) (kes ++ rest)
      = prun (mk_pstate (ctx wo ++ NElement (enW asg (wr_pushes var wo (length l) wr)) :: Q)
                        (objs ++ map (fun y => (Some (v_qname var), y)) l) W) rest.
    Proof.
      induction l as [|y l IHl]; intros kes asg wr wo Q objs W rest Hv Hf Hall Hag Hr.
      - cbn [map reads_kids_o] in Hr. subst kes. rewrite app_nil_r. reflexivity.
      - cbn [map reads_kids_o] in Hr. destruct Hr as [a [b [-> [Ha Hb]]]]. inversion_clear Hall as [|? ? Hy Hl].
        rewrite <- app_assoc.
        rewrite (one_item_run var y a asg wr wo Q objs W (b ++ rest) Hv Hy); [|rewrite Hf; discriminate|exact Hag|exact Ha].
        unfold asg_after. rewrite Hf.
        rewrite (IHl b asg _ wo Q _ W rest Hv Hf Hl Hag Hb). cbn [map length wr_pushes]. rewrite <- app_assoc. reflexivity.
    Qed.

    Lemma wr_pushes_none var k wr : wr_pushes var None k wr = wr.
    Proof. revert wr; induction k; intros wr; [reflexivity|]. cbn [wr_pushes wr_after]. apply IHk. Qed.

    Lemma wr_pushes_some var w k : forall x a b, ~ In (v_qname var) (map fst a) ->
      wr_pushes var (Some w) k (a ++ (v_qname var, x) :: b) = a ++ (v_qname var, x ++ repeat w k) :: b.
    Proof.
      induction k as [|k IHk]; intros x a b Hn; cbn [wr_pushes repeat]; [rewrite app_nil_r; reflexivity|].
      cbn [wr_after]. rewrite (wrappers_push_at _ w x a b Hn). rewrite (IHk _ a b Hn). rewrite <- app_assoc. reflexivity.
    Qed.

    (* ---------------------------------------------------------------- generic elements (the wildcard field) *)
    Hypothesis Hword : ord = true \/ m_wildcards m = [].
    Hypothesis Hfw : forall wv, m_wildcards m = [wv] -> fits_wild u m wv (F wv) = true.

    Lemma wild_ord wv : is_wild_var wv -> ord = true.
    Proof. intros [E _]. destruct Hword as [H|H]; [exact H|congruence]. Qed.

    Lemma skipn_len_app {A} (a b : list A) : skipn (length a) (a ++ b) = b.
    Proof. induction a; [reflexivity|assumption]. Qed.
    Lemma firstn_len_app {A} (a b : list A) : firstn (length a) (a ++ b) = a.
    Proof. induction a as [|x a IHa]; [reflexivity|]. cbn [length app firstn]. rewrite IHa. reflexivity. Qed.

    (* the attributes of a generic element come back as they were reported *)
    Lemma any_attrs_read ns (a : list (qname * str)) attrs :
      ord = true -> NoDup (map fst a) -> forallb any_attr_ok a = true ->
      reads_attrs ns (map (fun kv : qname * str => (Bind.split_qname (fst kv), [AText (snd kv)])) a) attrs ->
      attrs = a /\ parse_any_attributes attrs ns = a.
    Proof.
      intros Ho Hnd Hok [Hnda [Hlen [Hall Hord]]].
      assert (E : a = attrs).
      { apply same_keys_eq.
        - symmetry. etransitivity; [exact (Hord Ho)|]. rewrite map_map. cbn [fst]. apply map_ext. intros kv. apply clark_split.
        - exact Hnda.
        - intros [k v] Hkv. destruct (Hall (Bind.split_qname k, [AText v])) as [v' [Hv' Hi]].
          { apply in_map_iff. exists (k, v). split; [reflexivity|exact Hkv]. }
          cbn [fst snd atoms_read] in Hv', Hi. rewrite clark_split in Hi. cbn in Hv'. inversion Hv'; subst v'. exact Hi. }
      subst attrs. split; [reflexivity|].
      unfold parse_any_attributes. rewrite <- (map_id a) at 2. apply map_ext_in. intros [k v] Hkv. cbn [fst snd].
      rewrite forallb_forall in Hok. specialize (Hok (k, v) Hkv). unfold any_attr_ok in Hok. apply andb_true_iff in Hok as [_ Hnc].
      apply negb_true_iff in Hnc. cbn [snd] in Hnc. rewrite (no_colon_literal v ns Hnc). reflexivity.
    Qed.

    Lemma e_any_elem x : fits_anyel x = true -> exists q a k, e_any x = EElem q a k.
    Proof. intros H. destruct (fits_anyel_inv x H) as [q [s [a [ch [-> _]]]]]. cbn [e_any]. eauto. Qed.

    Definition wtag (wv : xvar) (y : value) : option qname * value := (Some (v_qname wv), y).

    (* the subtree of a generic element, once its WildcardNode is on the queue *)
    Lemma any_inner_run wv : is_wild_var wv -> forall k x, (odepth x <= k)%nat -> fits_anyel x = true ->
      forall a, reads (e_any x) a ->
      exists q attrs ns inner, a = PStart q attrs ns :: inner
        /\ (exists s0 a0 ch0, x = VAny (Some q) s0 None a0 ch0 /\ attrs = a0)
        /\ forall Q objs W rest,
             prun (mk_pstate (NWildcard wv attrs ns (length objs) :: Q) objs W) (inner ++ rest)
             = prun (mk_pstate Q (objs ++ [wtag wv x]) W) rest.
    Proof.
      intros Hwv. pose proof (wild_ord wv Hwv) as Ho.
      destruct (wild_facts wv Hwv) as [_ [Hkw [_ [Hnl _]]]].
      induction k as [|k IHk]; intros x Hd Hf a Hr;
        destruct (fits_anyel_inv x Hf) as [q [s [at0 [ch [-> [Hq [Hnd [Hat [Hs Hch]]]]]]]]]; [cbn [odepth] in Hd; lia|].
      cbn [e_any] in Hr. cbn [reads_o] in Hr.
      destruct Hr as [attrs [ns [text [tail [kes [Hp [Hra [Htl Hk]]]]]]]].
      rewrite clark_split in Hp.
      destruct (any_attrs_read ns at0 attrs Ho Hnd Hat Hra) as [Ea Epa]. subst attrs.
      exists q, at0, ns, (kes ++ [PEnd q text tail]). split; [exact Hp|]. split; [eauto|].
      intros Q objs W rest.
      destruct ch as [|c1 chr].
      - (* no children: the text as it is *)
        cbn [map app] in Hk. rewrite app_nil_r in Hk.
        assert (Ht : kes = [] /\ text = match s with [] => None | _ => Some s end).
        { destruct s as [|c0 s']; [destruct Hk as [-> ->]; split; reflexivity|].
          destruct Hk as [s1 [Hs1 [_ [-> ->]]]]. cbn in Hs1. inversion Hs1. split; reflexivity. }
        destruct Ht as [-> ->]. cbn [app].
        apply run_step. cbn [Parser.step pend st_queue st_objects st_warn].
        unfold wildcard_bind. rewrite skipn_all, firstn_all. cbn [map]. rewrite Epa, (normalize_blank tail Htl), Hkw, Hnl.
        cbn [is_some orb]. rewrite !orb_true_r. unfold wtag. destruct s; reflexivity.
      - (* children: the text is white space *)
        assert (Es : s = []) by (apply Hs; discriminate). subst s. cbn [app] in Hk.
        assert (Hkids : blank_o text = true /\ reads_kids (map e_any (c1 :: chr)) kes).
        { destruct (e_any_elem c1 (Hch c1 (or_introl eq_refl))) as [q1 [a1 [k1 E1]]].
          cbn [map] in Hk |- *. rewrite E1 in Hk |- *. destruct Hk as [Hb Hk]. split; [exact Hb|exact Hk]. }
        destruct Hkids as [Hbt Hkids].
        assert (Hrun : forall l objs0 kes0 rest0, (forall y, In y l -> In y (c1 :: chr)) -> reads_kids (map e_any l) kes0 ->
                  prun (mk_pstate (NWildcard wv at0 ns (length objs) :: Q) objs0 W) (kes0 ++ rest0)
                  = prun (mk_pstate (NWildcard wv at0 ns (length objs) :: Q) (objs0 ++ map (wtag wv) l) W) rest0).
        { induction l as [|y l IHl]; intros objs0 kes0 rest0 Hin Hrk.
          - cbn [map reads_kids_o] in Hrk. subst kes0. cbn [map]. rewrite app_nil_r. reflexivity.
          - cbn [map reads_kids_o] in Hrk. destruct Hrk as [a1 [b1 [-> [Ha1 Hb1]]]].
            assert (Hy : In y (c1 :: chr)) by (apply Hin; left; reflexivity).
            destruct (IHk y) with (a := a1) as [qy [ay [nsy [innery [-> [_ Hry]]]]]];
              [pose proof (odepth_anychild (Some q) (Some []) None at0 (c1 :: chr) y Hy) as Hlt; cbn [odepth] in Hlt, Hd; lia|apply Hch; exact Hy|exact Ha1|].
            rewrite <- app_assoc. cbn [app].
            rewrite (run_step cfg c u replay root _ _
                       (mk_pstate (NWildcard wv ay nsy (length objs0) :: NWildcard wv at0 ns (length objs) :: Q) objs0 W) _); [|reflexivity].
            rewrite (Hry _ objs0 W (b1 ++ rest0)).
            rewrite (IHl _ b1 rest0 (fun z Hz => Hin z (or_intror Hz)) Hb1).
            cbn [map]. rewrite <- app_assoc. reflexivity. }
        rewrite <- app_assoc. rewrite (Hrun (c1 :: chr) objs kes _ (fun y Hy => Hy) Hkids).
        cbn [app]. apply run_step. cbn [Parser.step pend st_queue st_objects st_warn].
        unfold wildcard_bind. rewrite skipn_len_app, firstn_len_app. rewrite map_map. cbn [snd]. rewrite map_id.
        cbn [map]. rewrite Epa, (normalize_blank tail Htl), (normalize_blank text Hbt), Hkw, Hnl.
        cbn [is_some orb]. rewrite !orb_true_r. reflexivity.
    Qed.

    (* a generic element below the class element *)
    Lemma wild_item_run wv y a asg wr Q objs W rest :
      is_wild_var wv -> fits_any_top u m wv y = true -> reads (e_any y) a ->
      prun (mk_pstate (NElement (enW asg wr) :: Q) objs W) (a ++ rest)
      = prun (mk_pstate (NElement (enW asg wr) :: Q) (objs ++ [wtag wv y]) W) rest.
    Proof.
      intros Hwv Hft Hr. unfold fits_any_top in Hft. apply andb_true_iff in Hft as [Hf Htop].
      destruct (any_inner_run wv Hwv (odepth y) y (le_n _) Hf a Hr) as [q [attrs [ns [inner [-> [[s0 [a0 [ch0 [Ey Ea]]]] Hrun]]]]]].
      subst y attrs. apply andb_true_iff in Htop as [Htop H4]. apply andb_true_iff in Htop as [Htop H3]. apply andb_true_iff in Htop as [Htop H2].
      destruct (assoc q (m_elements m)) eqn:Eqe; [discriminate H2|]. destruct (assoc q (m_wrappers m)) eqn:Eqw; [discriminate H3|].
      destruct (find_types u q) eqn:Eft; [|discriminate H4].
      destruct (fits_anyel_inv _ Hf) as [q' [s' [a' [ch' [Ex [_ [_ [Hat _]]]]]]]]. inversion Ex; subst q' s0 a' ch'.
      destruct (wild_facts wv Hwv) as [_ [Hkw [Hnw [_ [Hke [Hcl _]]]]]].
      cbn [app].
      rewrite (run_step cfg c u replay root _ _
                 (mk_pstate (NWildcard wv a0 ns (length objs) :: NElement (enW asg wr) :: Q) objs W) _).
      - apply Hrun.
      - cbn [Parser.step start st_queue st_objects st_warn]. change (en_meta (enW asg wr)) with m. rewrite Eqw. cbn [is_some].
        unfold element_child. change (en_meta (enW asg wr)) with m. rewrite (find_children_any wv q Hwv Htop Eqe).
        cbn [child_loop]. unfold wrapper_mismatch. cbn [truthy_str]. rewrite Hke. cbn [andb N.eqb orb].
        assert (Hb : build_node c u (enW asg wr) q wv a0 ns (length objs) = ROk (Some (NWildcard wv a0 ns (length objs)))).
        { unfold build_node, v_is_clazz_union. rewrite Hcl.
          assert (Ext : Parser.xsi_type_of c a0 ns = ROk None).
          { unfold Parser.xsi_type_of.
            assert (Ea : assoc XSI_TYPE a0 = None).
            { apply assoc_none. intros Hi. apply in_map_iff in Hi as [[k0 v0] [Ek Hkv]]. cbn [fst] in Ek. subst k0.
              rewrite forallb_forall in Hat. specialize (Hat _ Hkv). unfold any_attr_ok in Hat. apply andb_true_iff in Hat as [Hres _].
              apply negb_true_iff in Hres. unfold reserved_name in Hres. cbn [fst] in Hres. rewrite str_eqb_refl, orb_true_r in Hres. discriminate Hres. }
            rewrite Ea. reflexivity. }
          rewrite Ext. cbn [rbind]. rewrite Hkw. rewrite andb_false_r. cbn iota.
          unfold ctx_find_type, ctx_find_types. rewrite Eft.
          destruct (c_from_qname c q); destruct (negb (str_eqb (v_process_contents wv) s_skip)); reflexivity. }
        rewrite Hb. cbn [rbind]. reflexivity.
    Qed.

    Lemma wild_items_run wv l : forall kes asg wr Q objs W rest,
      is_wild_var wv -> Forall (fun y => fits_any_top u m wv y = true) l ->
      reads_kids (map (ienode wv) l) kes ->
      prun (mk_pstate (NElement (enW asg wr) :: Q) objs W) (kes ++ rest)
      = prun (mk_pstate (NElement (enW asg wr) :: Q) (objs ++ map (wtag wv) l) W) rest.
    Proof.
      induction l as [|y l IHl]; intros kes asg wr Q objs W rest Hwv Hall Hr.
      - cbn [map reads_kids_o] in Hr. subst kes. cbn [map]. rewrite app_nil_r. reflexivity.
      - cbn [map reads_kids_o] in Hr. destruct Hr as [a [b [-> [Ha Hb]]]]. inversion_clear Hall as [|? ? Hy Hl].
        assert (Ei : ienode wv y = e_any y).
        { destruct (wild_facts wv Hwv) as [_ [_ [_ [_ [_ [_ [_ [Htf _]]]]]]]]. unfold ienode. rewrite Htf.
          unfold fits_any_top in Hy. apply andb_true_iff in Hy as [Hy _]. destruct (fits_anyel_inv y Hy) as [q [s [a0 [ch [-> _]]]]]. reflexivity. }
        rewrite Ei in Ha. rewrite <- app_assoc.
        rewrite (wild_item_run wv y a asg wr Q objs W (b ++ rest) Hwv Hy Ha).
        rewrite (IHl b asg wr Q _ W rest Hwv Hl Hb). cbn [map]. rewrite <- app_assoc. reflexivity.
    Qed.

    (* the entry one yielded pair (field, value) leaves in the wrappers queue *)
    Definition wentry (var : xvar) (x : value) : list (qname * list qname) :=
      match v_wrapper_qname var, occ var x with
      | Some w, (_ :: _) as l => [(v_qname var, repeat w (length l))]
      | _, _ => []
      end.

    (* all the elements of one yielded pair *)
    Definition asg_field (var : xvar) (x : value) (asg : list N) : list N :=
      match occ var x with [] => asg | _ => asg_after var asg end.

    (* the items of a field bound from child elements *)
    Definition kid_ok (var : xvar) (l : list value) : Prop :=
      (is_elem_var var /\ Forall (item_ok var) l) \/ (is_wild_var var /\ Forall (fun y => fits_any_top u m var y = true) l).
    Lemma kid_ok_kid var l : kid_ok var l -> is_kid var.
    Proof. intros [[H _]|[H _]]; [left|right]; exact H. Qed.
    Lemma kid_item_elem var l y : kid_ok var l -> In y l -> exists q a k, ienode var y = EElem q a k.
    Proof.
      intros [[Hv Hall]|[Hwv Hall]] Hy; rewrite Forall_forall in Hall; specialize (Hall y Hy).
      - apply (ienode_elem var y Hv Hall).
      - destruct (wild_facts var Hwv) as [_ [_ [_ [_ [_ [_ [_ [Htf _]]]]]]]]. unfold ienode. rewrite Htf.
        unfold fits_any_top in Hall. apply andb_true_iff in Hall as [Hall _].
        destruct (fits_anyel_inv y Hall) as [q [s [a0 [ch [-> _]]]]]. cbn [RoundtripGen.e_item e_any]. eauto.
    Qed.
    (* the wildcard field never counts as assigned *)
    Definition asg_k (var : xvar) (x : value) (asg : list N) : list N :=
      if v_is KWildcard var then asg else asg_field var x asg.

    Lemma var_run var x kes asg wr Q objs W rest :
      kid_ok var (occ var x) ->
      (v_factory var = None -> (length (occ var x) <= 1)%nat) ->
      (v_factory var = None -> ~ In (v_index var) asg) ->
      (forall w, v_wrapper_qname var = Some w -> ~ In (v_qname var) (map fst wr)) ->
      reads_kids (e_field (eobj n) var x) kes ->
      prun (mk_pstate (NElement (enW asg wr) :: Q) objs W) (kes ++ rest)
      = prun (mk_pstate (NElement (enW (asg_k var x asg) (wr ++ wentry var x)) :: Q) (objs ++ tagged var x) W) rest.
    Proof.
      intros [[Hv Hall]|[Hwv Hall]] Hone Hasg Hwq Hr.
      2:{ (* the wildcard field *)
          destruct (wild_facts var Hwv) as [_ [Hkw [Hnw _]]].
          unfold asg_k, wentry, tagged. rewrite Hkw, Hnw, app_nil_r.
          destruct (e_field_cases var x (or_intror Hwv)) as [[Ee Eo]|Ee]; rewrite Ee in Hr.
          - cbn [reads_kids_o] in Hr. subst kes. rewrite Eo. cbn [map app]. rewrite app_nil_r. reflexivity.
          - unfold RoundtripGen.e_wrap in Hr. rewrite Hnw in Hr.
            apply (wild_items_run var (occ var x) kes asg wr Q objs W rest Hwv Hall Hr). }
      assert (Eak : asg_k var x asg = asg_field var x asg).
      { unfold asg_k. destruct (elem_var_facts var Hv) as [_ [Hkw _]]. rewrite Hkw. reflexivity. }
      rewrite Eak. clear Eak.
      pose proof Hv as [Hwe _].
      destruct (e_field_cases var x (or_introl Hv)) as [[Ee Eo]|Ee]; rewrite Ee in Hr.
      { cbn [reads_kids_o] in Hr. subst kes. unfold asg_field, tagged, wentry. rewrite Eo.
        destruct (v_wrapper_qname var); cbn [map app]; rewrite !app_nil_r; reflexivity. }
      unfold asg_field, tagged, wentry. unfold RoundtripGen.e_wrap in Hr.
      destruct (v_wrapper_qname var) as [w|] eqn:Ew.
      - (* inside a wrapper element *)
        destruct (wf_elem_wrapper var w Hwe Ew) as [Hne [[f Hf] Htf]].
        assert (Hag : wrap_agrees var (Some w)) by (split; [exact Ew|exact Hne]).
        destruct (wrapper_known var w Hv Ew) as [xw Hxw].
        assert (Hr' : reads_kids [EElem (Bind.split_qname w) [] (map (ienode var) (occ var x))] kes).
        { destruct w as [|ch w']; [congruence|exact Hr]. }
        clear Hr. rename Hr' into Hr.
        cbn [reads_kids_o] in Hr. destruct Hr as [a [b [-> [Ha ->]]]]. rewrite app_nil_r.
        cbn [reads_o] in Ha. destruct Ha as [attrs [ns [text [tail [kes [Hp [Hra [Htl Hk]]]]]]]].
        rewrite clark_split in Hp. subst a.
        assert (Hkids : reads_kids (map (ienode var) (occ var x)) kes).
        { apply (reads_content_elems ns _ text kes); [|exact Hk].
          intros e He. apply in_map_iff in He as [y [<- Hy]].
          rewrite Forall_forall in Hall. apply (ienode_elem var y Hv (Hall y Hy)). }
        cbn [app]. rewrite <- app_assoc. cbn [app].
        rewrite (run_step cfg c u replay root _ _
                   (mk_pstate (NWrapper w :: NElement (enW asg wr) :: Q) objs W) _).
        2:{ cbn [Parser.step start st_queue st_objects st_warn]. change (en_meta (enW asg wr)) with m. rewrite Hxw. reflexivity. }
        change (NWrapper w :: NElement (enW asg wr) :: Q) with (ctx (Some w) ++ NElement (enW asg wr) :: Q).
        rewrite (list_items_run var f _ kes asg wr (Some w) Q objs W _ Hv Hf Hall Hag Hkids).
        rewrite (run_step cfg c u replay root _ _
                   (mk_pstate (NElement (enW asg (wr_pushes var (Some w) (length (occ var x)) wr)) :: Q)
                              (objs ++ map (fun y => (Some (v_qname var), y)) (occ var x)) W) _).
        2:{ reflexivity. }
        unfold asg_after. rewrite Hf.
        destruct (occ var x) as [|y0 l0] eqn:Eo; [cbn [length wr_pushes map]; rewrite !app_nil_r; reflexivity|].
        cbn [length wr_pushes wr_after]. rewrite (wrappers_push_fresh _ w wr (Hwq w eq_refl)).
        change (wr ++ [(v_qname var, [w])]) with (wr ++ (v_qname var, [w]) :: []).
        rewrite (wr_pushes_some var w (length l0) [w] wr [] (Hwq w eq_refl)). reflexivity.
      - (* directly below the class element *)
        rewrite app_nil_r.
        destruct (v_factory var) as [f|] eqn:Ef.
        + change (NElement (enW asg wr) :: Q) with (ctx None ++ NElement (enW asg wr) :: Q).
          rewrite (list_items_run var f _ kes asg wr None Q objs W rest Hv Ef Hall I Hr).
          rewrite wr_pushes_none. unfold asg_after. rewrite Ef. cbn [ctx app].
          destruct (occ var x); reflexivity.
        + specialize (Hone eq_refl). destruct (occ var x) as [|y [|? ?]]; [| |cbn [length] in Hone; lia].
          * cbn [map reads_kids_o] in Hr. subst kes. cbn [map]. rewrite !app_nil_r. reflexivity.
          * cbn [map reads_kids_o] in Hr. destruct Hr as [a [b [-> [Ha ->]]]]. rewrite !app_nil_r.
            inversion_clear Hall as [|? ? Hy _].
            apply (one_item_run var y a asg wr None Q objs W rest Hv Hy (fun _ => Hasg eq_refl) I Ha).
    Qed.

    Lemma asg_field_in var x asg i : In i (asg_field var x asg) -> In i asg \/ (i = v_index var /\ v_factory var = None).
    Proof.
      unfold asg_field, asg_after. destruct (occ var x); [left; assumption|].
      destruct (v_factory var); [left; assumption|]. intros H. apply in_app_or in H as [H|[H|[]]]; [left; exact H|right; split; [symmetry; exact H|reflexivity]].
    Qed.

    Lemma wentry_keys var x k : In k (map fst (wentry var x)) -> k = v_qname var /\ v_wrapper_qname var <> None.
    Proof.
      unfold wentry. destruct (v_wrapper_qname var); [|intros []]. destruct (occ var x); [intros []|].
      intros [H|[]]. split; [symmetry; exact H|discriminate].
    Qed.

    (* ---------------------------------------------------------------- the end of the element *)
    Lemma skipn_app_len {A} (a b : list A) : skipn (length a) (a ++ b) = b.
    Proof. induction a; [reflexivity|assumption]. Qed.
    Lemma firstn_app_len {A} (a b : list A) : firstn (length a) (a ++ b) = a.
    Proof. induction a as [|x a IHa]; [reflexivity|]. cbn [length app firstn]. rewrite IHa. reflexivity. Qed.

    Let evars := get_element_vars m.

    Lemma evars_perm : Permutation (avars ++ evars) (get_all_vars m).
    Proof.
      unfold avars, evars. rewrite (avars_eq m Hwc), (evars_eq m Hwc), (allvars_eq m Hwc).
      eapply Permutation_trans; [|apply Permutation_sym, sort_perm].
      eapply Permutation_trans; [apply Permutation_app; apply sort_perm|].
      rewrite (app_assoc (m_any_attributes m)).
      apply Permutation_app_swap_app.
    Qed.

    Lemma evars_names_nodup : NoDup (map v_name evars) /\ NoDup (map v_index evars).
    Proof.
      destruct (wf_class_inv m Hwc) as [F1 F2 F3 F4 F5 F6 F7 F8 F9 F10 F11 F12 F13].
      pose proof (Permutation_sym evars_perm) as Hp.
      split.
      - pose proof (Permutation_NoDup (Permutation_map v_name Hp) F12) as H. rewrite map_app in H.
        apply NoDup_app_remove_l in H. exact H.
      - pose proof (Permutation_NoDup (Permutation_map v_index Hp) F13) as H. rewrite map_app in H.
        apply NoDup_app_remove_l in H. exact H.
    Qed.

    Lemma avar_evar_disjoint va ve : In va avars -> In ve evars -> v_name va <> v_name ve.
    Proof.
      intros Ha He E.
      destruct (wf_class_inv m Hwc) as [F1 F2 F3 F4 F5 F6 F7 F8 F9 F10 F11 F12 F13].
      pose proof (Permutation_NoDup (Permutation_map v_name (Permutation_sym evars_perm)) F12) as H.
      rewrite map_app in H. revert H. apply in_split in Ha as [l1 [l2 ->]].
      rewrite map_app. cbn [map]. rewrite <- app_assoc. cbn [app]. intros H. apply NoDup_remove_2 in H.
      apply H. apply in_or_app. right. apply in_or_app. right. rewrite E. apply in_map. exact He.
    Qed.

    Lemma evar_all var : In var evars -> In var (get_all_vars m).
    Proof. intros H. apply (in_allvars m var Hwc). right; exact H. Qed.

    Lemma allvars_split var : In var (get_all_vars m) -> In var avars \/ In var evars.
    Proof.
      intros H. apply (Permutation_in _ (Permutation_sym evars_perm)) in H. apply in_app_or in H. exact H.
    Qed.

    (* complex content: all element fields *)
    Lemma evars_qnames_nodup : m_text m = None -> NoDup (map v_qname evars).
    Proof.
      intros Htx. destruct (wf_class_inv m Hwc) as [F1 F2 F3 F4 F5 F6 F7 F8 F9 F10 F11 F12 F13].
      unfold evars. rewrite (evars_eq m Hwc), Htx, app_nil_r. apply sort_nodup_map.
      assert (Hkeys : forall v, In v (flat_map snd (m_elements m)) -> In (v_qname v) (map fst (m_elements m))).
      { intros v Hv. apply in_flat_map in Hv as [[k vs] [He Hv]]. rewrite forallb_forall in F7. specialize (F7 _ He). cbn [fst snd] in F7, Hv.
        destruct vs as [|v2 [|? ?]]; try discriminate F7. destruct Hv as [->|[]]. apply andb_true_iff in F7 as [Hq _].
        apply str_eqb_eq in Hq. rewrite Hq. apply in_map_iff. exists (k, [v]). split; [reflexivity|exact He]. }
      assert (Hel : NoDup (map v_qname (flat_map snd (m_elements m)))).
      { clear -F7 F8. induction (m_elements m) as [|[k vs] r IHr]; [constructor|].
        cbn [forallb fst snd map] in *. apply andb_true_iff in F7 as [Hk Hr]. inversion F8 as [|? ? Hn Hd]; subst.
        destruct vs as [|v [|? ?]]; try discriminate Hk. apply andb_true_iff in Hk as [Hq _]. apply str_eqb_eq in Hq.
        cbn [flat_map app map]. constructor; [|apply IHr; assumption].
        rewrite Hq. intros Hi. apply Hn. apply in_map_iff in Hi as [v' [Ev Hv']]. apply in_flat_map in Hv' as [[k' vs'] [He Hv']].
        rewrite forallb_forall in Hr. specialize (Hr _ He). cbn [fst snd] in Hr, Hv'.
        destruct vs' as [|v2 [|? ?]]; try discriminate Hr. destruct Hv' as [->|[]]. apply andb_true_iff in Hr as [Hq2 _].
        apply str_eqb_eq in Hq2. rewrite <- Ev, Hq2. apply in_map_iff. exists (k', [v']). split; [reflexivity|exact He]. }
      destruct F2 as [E|[wv [E [_ [Hna _]]]]]; rewrite E; cbn [app map]; [exact Hel|].
      constructor; [|exact Hel]. intros Hi. apply in_map_iff in Hi as [v [Ev Hv]]. apply Hkeys in Hv. rewrite Ev in Hv.
      destruct (assoc_some_in _ _ Hv) as [x0 Hx0]. congruence.
    Qed.

    (* ---------------------------------------------------------------- the yielded pairs, in the order of next_value *)
    Let ps := pairs cl fs m.

    Lemma pairs_ok : pairs_spec cl fs m ps.
    Proof. apply (class_pairs_fits c u ok _ _ cl fs m Hwc Hnames Hfe Hfw). Qed.

    Lemma evar_kid : m_text m = None -> forall var, In var evars -> is_kid var.
    Proof.
      intros Htx var Hv. destruct (wf_class_evar m var Hwc Hv) as [[Hw Hi]|[[Ht _]|Hwv]]; [left; split; assumption|congruence|right; exact Hwv].
    Qed.

    (* the values of the wildcard field *)
    Lemma wild_field_facts wv : is_wild_var wv ->
      Forall (fun y => fits_any_top u m wv y = true) (occ wv (F wv))
      /\ (v_factory wv = None -> (length (occ wv (F wv)) <= 1)%nat)
      /\ (forall pv, eentry wv (F wv) = [(v_name wv, pv)] -> pval_value pv = F wv)
      /\ (occ wv (F wv) = [] -> default_call (v_default wv) = F wv).
    Proof.
      intros Hwv. pose proof Hwv as [E [Hww _]]. pose proof (Hfw wv E) as Hf. unfold fits_wild in Hf.
      destruct (wf_wild_inv wv Hww) as [_ [_ [Hnl [_ [_ [Htf [_ [_ [_ [_ [_ Hfd]]]]]]]]]]].
      unfold eentry, occ. rewrite Htf, Hnl.
      destruct (v_factory wv) as [f|] eqn:Ef.
      - destruct Hfd as [-> Hd]. destruct (F wv) as [| |t l| | | |]; try discriminate Hf. destruct t; [discriminate Hf|].
        split; [apply Forall_forall; intros y Hy; rewrite forallb_forall in Hf; apply Hf; exact Hy|].
        split; [discriminate|]. split.
        + intros pv E0. destruct l; [discriminate E0|]. inversion E0; subst. reflexivity.
        + intros ->. rewrite Hd. reflexivity.
      - destruct (F wv) as [| |t l| | | |] eqn:Ex.
        2-7: (assert (Hy : fits_any_top u m wv (F wv) = true) by (rewrite Ex; exact Hf)).
        + split; [constructor|]. split; [intros _; cbn; lia|]. split; [intros pv E0; discriminate E0|]. intros _. rewrite Hfd. reflexivity.
        + unfold fits_any_top in Hf. apply andb_true_iff in Hf as [Hf _]. discriminate Hf.
        + unfold fits_any_top in Hf. apply andb_true_iff in Hf as [Hf _]. discriminate Hf.
        + unfold fits_any_top in Hf. apply andb_true_iff in Hf as [Hf _]. discriminate Hf.
        + split; [constructor; [exact Hf|constructor]|]. split; [intros _; cbn; lia|].
          split; [intros pv E0; inversion E0; reflexivity|discriminate].
        + unfold fits_any_top in Hf. apply andb_true_iff in Hf as [Hf _]. discriminate Hf.
        + unfold fits_any_top in Hf. apply andb_true_iff in Hf as [Hf _]. discriminate Hf.
    Qed.

    Lemma evar_same a b : In a evars -> In b evars -> v_index a = v_index b -> a = b.
    Proof. destruct evars_names_nodup as [_ Hni]. apply (nodup_map_inj v_index evars a b Hni). Qed.

    Lemma evar_qname_inj a b : m_text m = None -> In a evars -> In b evars -> v_qname a = v_qname b -> a = b.
    Proof. intros Htx. apply (nodup_map_inj v_qname evars a b (evars_qnames_nodup Htx)). Qed.

    Lemma evar_name_neq a b : In a evars -> In b evars -> v_index a <> v_index b -> v_name a <> v_name b.
    Proof. intros Ha Hb Hne E. apply Hne. f_equal. apply (names_inj a b (evar_all a Ha) (evar_all b Hb) E). Qed.

    Lemma kid_field_facts var : is_kid var ->
      (forall pv, eentry var (F var) = [(v_name var, pv)] -> pval_value pv = F var)
      /\ (occ var (F var) = [] -> default_call (v_default var) = F var)
      /\ v_init var = true.
    Proof.
      intros [Hv|Hv].
      - destruct (elem_field_facts var Hv) as [_ [_ [H3 H4]]]. destruct (elem_var_facts var Hv) as [Hi _]. repeat split; assumption.
      - destruct (wild_field_facts var Hv) as [_ [_ [H3 H4]]]. destruct (wild_facts var Hv) as [Hi _]. repeat split; assumption.
    Qed.

    Definition pair_ok (vv : xvar * value) : Prop :=
      kid_ok (fst vv) (occ (fst vv) (snd vv))
      /\ (v_factory (fst vv) = None -> (length (occ (fst vv) (snd vv)) <= 1)%nat).

    Lemma pair_facts vv : m_text m = None -> In vv ps -> In (fst vv) evars /\ pair_ok vv.
    Proof.
      intros Htx Hin. destruct (ps_src _ _ _ _ pairs_ok vv Hin) as [Hvar [Hxn Hsrc]].
      destruct vv as [var x]. cbn [fst snd] in *. split; [exact Hvar|].
      unfold pair_ok. cbn [fst snd].
      destruct (evar_kid Htx var Hvar) as [Hv|Hwv].
      2:{ (* the wildcard field *)
          destruct (wild_field_facts var Hwv) as [H1 [H2 _]].
          destruct Hsrc as [Hw|[f [t [l [Hf [Htf [Hwn [El Hil]]]]]]]]; cbn [fst snd] in *.
          - unfold pair_whole in Hw. cbn [fst snd] in Hw. rewrite Hw. split; [right; split; assumption|exact H2].
          - unfold occ in H1. unfold F in H1. rewrite El, Htf in H1. rewrite Forall_forall in H1. pose proof (H1 x Hil) as Hx.
            assert (Ho : occ var x = [x]).
            { unfold occ. rewrite Htf. unfold fits_any_top in Hx. apply andb_true_iff in Hx as [Hx _].
              destruct (fits_anyel_inv x Hx) as [q0 [s0 [a0 [ch0 [-> _]]]]]. reflexivity. }
            rewrite Ho. split; [right; split; [exact Hwv|constructor; [exact Hx|constructor]]|intros _; cbn; lia]. }
      destruct Hsrc as [Hw|[f [t [l [Hf [Htf [Hwn [El Hil]]]]]]]]; cbn [fst snd] in *.
      - unfold pair_whole in Hw. cbn [fst snd] in Hw. rewrite Hw.
        destruct (elem_field_facts var Hv) as [H1 [H2 _]]. split; [left; split; assumption|assumption].
      - pose proof Hv as [Hwe Hine]. pose proof (Hfe _ var Hine (or_introl eq_refl)) as Hfv.
        unfold F in Hfv. rewrite El in Hfv. unfold Fits.fits_elem in Hfv. rewrite Hf, Htf in Hfv.
        apply andb_true_iff in Hfv as [_ Hfl]. rewrite forallb_forall in Hfl. specialize (Hfl x Hil).
        assert (Ho : occ var x = [x]).
        { unfold occ. rewrite Htf.
          destruct (wf_elem_inv var Hwe) as [_ [_ [[k [Hty _]]|[[t0 [Hty [Hst _]]]|[[Hty _]|[Hty _]]]]]].
          - destruct (fits_item_class c u ok _ var k x Hty Hfl) as [cl' [fs' [-> _]]]. reflexivity.
          - destruct (fits_item_simple c u ok _ var t0 x Hty Hst Hfl) as [p [-> _]]. reflexivity.
          - destruct (fits_item_qname c u ok _ var x Hty Hfl) as [q1 [-> _]]. reflexivity.
          - destruct (fits_item_any c u ok _ var x Hty Hfl) as [sx [-> _]]. reflexivity. }
        rewrite Ho. split; [left; split; [exact Hv|]|].
        + constructor; [|constructor]. apply (item_ok_item var x Htf Hfl).
        + intros _. cbn. lia.
    Qed.

    Definition taggedp (vv : xvar * value) : objects := tagged (fst vv) (snd vv).
    Definition wentryp (vv : xvar * value) : list (qname * list qname) := wentry (fst vv) (snd vv).
    Definition idx (vv : xvar * value) : N := v_index (fst vv).
    Definition oncep (vv : xvar * value) : bool := once_b (fst vv).

    Lemma once_nofactory var : v_factory var = None -> once_b var = true.
    Proof. intros H. unfold once_b. rewrite H. reflexivity. Qed.
    Lemma once_wrapped var : v_wrapper_qname var <> None -> once_b var = true.
    Proof. intros H. unfold once_b. destruct (v_wrapper_qname var); [apply orb_true_r|congruence]. Qed.

    Lemma once_tail a l : NoDup (map idx (filter oncep (a :: l))) -> NoDup (map idx (filter oncep l)).
    Proof. cbn [filter]. destruct (oncep a); [|auto]. cbn [map]. intros H. inversion H; assumption. Qed.

    Lemma once_head_other var x l vv :
      NoDup (map idx (filter oncep ((var, x) :: l))) -> once_b var = true -> In vv l -> oncep vv = true ->
      idx vv <> v_index var.
    Proof.
      intros Hnd Ho Hvv Hov E. cbn [filter] in Hnd. unfold oncep at 1 in Hnd. cbn [fst] in Hnd. rewrite Ho in Hnd.
      cbn [map] in Hnd. inversion Hnd as [|? ? Hni _]; subst. apply Hni. apply in_map_iff. exists vv.
      split; [exact E|]. apply filter_In. split; assumption.
    Qed.

    (* events -> objects, pair by pair *)
    Lemma pairs_run l : forall kes asg wr Q objs W rest,
      m_text m = None ->
      (forall vv, In vv l -> In (fst vv) evars /\ pair_ok vv) ->
      NoDup (map idx (filter oncep l)) ->
      (forall vv, In vv l -> oncep vv = true -> ~ In (idx vv) asg /\ ~ In (v_qname (fst vv)) (map fst wr)) ->
      reads_kids (flat_map (fun vv => e_field (eobj n) (fst vv) (snd vv)) l) kes ->
      exists asg', prun (mk_pstate (NElement (enW asg wr) :: Q) objs W) (kes ++ rest)
                   = prun (mk_pstate (NElement (enW asg' (wr ++ flat_map wentryp l)) :: Q) (objs ++ flat_map taggedp l) W) rest.
    Proof.
      induction l as [|[var x] l IHl]; intros kes asg wr Q objs W rest Htx Hall Hnd Hfr Hr.
      - cbn [flat_map reads_kids_o] in Hr. subst kes. exists asg. rewrite !app_nil_r. reflexivity.
      - cbn [flat_map fst snd] in Hr. apply reads_kids_app in Hr as [k1 [k2 [-> [H1 H2]]]].
        destruct (Hall (var, x) (or_introl eq_refl)) as [Hvar [Hio Hone]]. cbn [fst snd] in *.
        rewrite <- app_assoc.
        rewrite (var_run var x k1 asg wr Q objs W (k2 ++ rest) Hio Hone).
        2:{ intros Hf. apply (Hfr (var, x) (or_introl eq_refl) (once_nofactory var Hf)). }
        2:{ intros w Hw. apply (Hfr (var, x) (or_introl eq_refl)). apply once_wrapped. cbn [fst]. congruence. }
        2:{ exact H1. }
        destruct (IHl k2 (asg_k var x asg) (wr ++ wentry var x) Q (objs ++ tagged var x) W rest Htx) as [asg' Hrun].
        + intros vv Hvv. apply Hall. right; exact Hvv.
        + apply (once_tail _ _ Hnd).
        + intros vv Hvv Ho. destruct (Hfr vv (or_intror Hvv) Ho) as [Ha Hq]. split.
          * intros Hi. assert (Hi' : In (idx vv) (asg_field var x asg) \/ In (idx vv) asg) by (unfold asg_k in Hi; destruct (v_is KWildcard var); [right|left]; exact Hi).
            destruct Hi' as [Hi'|Hi']; [|exact (Ha Hi')]. clear Hi. rename Hi' into Hi.
            apply asg_field_in in Hi as [Hi|[Hi Hf]]; [exact (Ha Hi)|].
            apply (once_head_other var x l vv Hnd (once_nofactory var Hf) Hvv Ho). exact Hi.
          * intros Hi. rewrite map_app in Hi. apply in_app_or in Hi as [Hi|Hi]; [exact (Hq Hi)|].
            apply wentry_keys in Hi as [Hk Hw].
            destruct (Hall vv (or_intror Hvv)) as [Hve _].
            pose proof (evar_qname_inj _ _ Htx Hve Hvar Hk) as E.
            apply (once_head_other var x l vv Hnd (once_wrapped var Hw) Hvv Ho). unfold idx. rewrite E. reflexivity.
        + exact H2.
        + exists asg'. rewrite Hrun. cbn [flat_map].
          change (taggedp (var, x)) with (tagged var x). change (wentryp (var, x)) with (wentry var x).
          rewrite <- !app_assoc. reflexivity.
    Qed.

    (* objects -> params: the state of params after a prefix `acc` of the pairs *)
    Definition pentry (var : xvar) (l : list value) : pval :=
      match v_factory var with Some f => PPend l (Some f) | None => PV (hd VNone l) end.
    Definition pv_of (var : xvar) (l : list value) : option pval :=
      match l with [] => None | _ => Some (pentry var l) end.
    Definition Inv (pa p : params) (acc : list (xvar * value)) : Prop :=
      NoDup (map fst p)
      /\ (forall var, In var evars -> pget (v_name var) p = pv_of var (sel var acc))
      /\ (forall k, (forall var, In var evars -> v_name var <> k) -> pget k p = pget k pa).

    Lemma sel_snoc var' var x acc : In var evars -> In var' evars ->
      sel var' (acc ++ [(var, x)]) = sel var' acc ++ (if N.eqb (v_index var) (v_index var') then occ var x else []).
    Proof.
      intros Hv Hv'. rewrite sel_app. f_equal. unfold sel. cbn [flat_map fst snd]. rewrite app_nil_r. unfold same_var.
      destruct (N.eqb_spec (v_index var) (v_index var')) as [E|_]; [|reflexivity].
      rewrite (evar_same var var' Hv Hv' E). reflexivity.
    Qed.

    Lemma inv_skip pa p acc var x : In var evars -> occ var x = [] -> Inv pa p acc -> Inv pa p (acc ++ [(var, x)]).
    Proof.
      intros Hv Ho [I1 [I2 I3]]. split; [exact I1|]. split; [|exact I3].
      intros var' Hv'. rewrite (sel_snoc var' var x acc Hv Hv'), Ho.
      destruct (N.eqb _ _); rewrite app_nil_r; apply I2; exact Hv'.
    Qed.

    Lemma inv_step pa p acc var x : In var evars -> occ var x <> [] -> Inv pa p acc ->
      Inv pa (pset (v_name var) (pentry var (sel var acc ++ occ var x)) p) (acc ++ [(var, x)]).
    Proof.
      intros Hv Ho [I1 [I2 I3]]. split; [apply pset_keys; exact I1|]. split.
      - intros var' Hv'. rewrite (sel_snoc var' var x acc Hv Hv').
        destruct (N.eqb_spec (v_index var) (v_index var')) as [E|Hne].
        + rewrite <- (evar_same var var' Hv Hv' E). rewrite pget_pset_same.
          unfold pv_of. destruct (sel var acc ++ occ var x) eqn:Es; [|reflexivity].
          apply app_eq_nil in Es as [_ Es]. contradiction.
        + rewrite app_nil_r. rewrite pget_pset_other; [apply I2; exact Hv'|].
          apply (evar_name_neq var' var Hv' Hv). intros E. apply Hne. symmetry; exact E.
      - intros k Hk. rewrite pget_pset_other; [apply I3; exact Hk|]. intros E. apply (Hk var Hv). symmetry; exact E.
    Qed.

    (* the keys of the wrappers queue are the element names of wrapped fields *)
    Definition wkeys_ok (a : list (qname * list qname)) : Prop :=
      forall k, In k (map fst a) -> exists v, In v evars /\ v_wrapper_qname v <> None /\ k = v_qname v.

    Lemma bind_objects_pairs pa l : forall acc p a,
      m_text m = None ->
      (forall vv, In vv l -> In (fst vv) evars /\ pair_ok vv) ->
      NoDup (map idx (filter oncep l)) ->
      (forall vv, In vv l -> oncep vv = true -> sel (fst vv) acc = []) ->
      wkeys_ok a ->
      (forall vv, In vv l -> v_wrapper_qname (fst vv) <> None -> ~ In (v_qname (fst vv)) (map fst a)) ->
      Inv pa p acc ->
      exists p', bind_objects_loop c m (flat_map taggedp l) p (a ++ flat_map wentryp l) [] = ROk (p', [])
                 /\ Inv pa p' (acc ++ l).
    Proof.
      induction l as [|[var x] l IHl]; intros acc p a Htx Hall Hnd Hsel Hka Hwa HI.
      - exists p. cbn [flat_map bind_objects_loop]. rewrite !app_nil_r. split; [reflexivity|exact HI].
      - destruct (Hall (var, x) (or_introl eq_refl)) as [Hvar [Hio Hone]]. cbn [fst snd] in *.
        pose proof (kid_ok_kid var _ Hio) as Hv.
        assert (Hvals : Forall (kid_value_ok var) (occ var x)).
        { destruct Hio as [[Hev0 _]|[_ Hf]]; apply Forall_forall; intros y Hy Hwv0.
          - exfalso. destruct (elem_var_facts var Hev0) as [_ [Hk _]]. destruct (wild_facts var Hwv0) as [_ [Hk' _]]. congruence.
          - rewrite Forall_forall in Hf. specialize (Hf y Hy). unfold fits_any_top in Hf. apply andb_true_iff in Hf as [Hf _].
            destruct (fits_anyel_inv y Hf) as [q0 [s0 [a0 [ch0 [-> _]]]]]. reflexivity. }
        cbn [flat_map]. change (taggedp (var, x)) with (tagged var x). change (wentryp (var, x)) with (wentry var x).
        assert (Hrestk : forall k, In k (map fst (flat_map wentryp l)) ->
                  exists vv, In vv l /\ k = v_qname (fst vv) /\ v_wrapper_qname (fst vv) <> None).
        { intros k Hi. apply in_map_iff in Hi as [[k' y] [Ek Hi]]. cbn [fst] in Ek. subst k'.
          apply in_flat_map in Hi as [vv [Hvv Hi]]. exists vv. split; [exact Hvv|].
          apply (wentry_keys (fst vv) (snd vv) k). apply in_map_iff. exists (k, y). split; [reflexivity|exact Hi]. }
        assert (Hsame : forall vv, In vv l -> oncep vv = true -> v_index var <> v_index (fst vv)).
        { intros vv Hvv Ho E. destruct (Hall vv (or_intror Hvv)) as [Hve _].
          assert (Hov : once_b var = true) by (rewrite (evar_same var (fst vv) Hvar Hve E); exact Ho).
          apply (once_head_other var x l vv Hnd Hov Hvv Ho). symmetry. exact E. }
        assert (Htail_sel : forall vv, In vv l -> oncep vv = true -> sel (fst vv) (acc ++ [(var, x)]) = []).
        { intros vv Hvv Ho. destruct (Hall vv (or_intror Hvv)) as [Hve _].
          rewrite (sel_snoc (fst vv) var x acc Hvar Hve). rewrite (Hsel vv (or_intror Hvv) Ho). cbn [app].
          destruct (N.eqb_spec (v_index var) (v_index (fst vv))) as [E|_]; [|reflexivity].
          exfalso. apply (Hsame vv Hvv Ho E). }
        assert (K1 : ~ In (v_qname var) (map fst a)).
        { destruct (v_wrapper_qname var) as [w|] eqn:Ew.
          - apply (Hwa (var, x) (or_introl eq_refl)). cbn [fst]. congruence.
          - intros Hi. destruct (Hka _ Hi) as [v [Hve [Hw Ek]]].
            rewrite (evar_qname_inj var v Htx Hvar Hve Ek) in Ew. congruence. }
        assert (K2 : ~ In (v_qname var) (map fst (flat_map wentryp l))).
        { intros Hi. destruct (Hrestk _ Hi) as [vv [Hvv [Ek Hw]]]. destruct (Hall vv (or_intror Hvv)) as [Hve _].
          pose proof (evar_qname_inj var (fst vv) Htx Hvar Hve Ek) as E.
          apply (Hsame vv Hvv (once_wrapped _ Hw)). rewrite E. reflexivity. }
        assert (Hwstep : exists a', wr_for var (length (occ var x)) (a ++ wentry var x ++ flat_map wentryp l) (a' ++ flat_map wentryp l)
                          /\ wkeys_ok a'
                          /\ (forall vv, In vv l -> v_wrapper_qname (fst vv) <> None -> ~ In (v_qname (fst vv)) (map fst a'))).
        { assert (Hplain : wr_for var (length (occ var x)) (a ++ flat_map wentryp l) (a ++ flat_map wentryp l)).
          { apply wr_plain. rewrite map_app. intros Hi. apply in_app_or in Hi as [Hi|Hi]; [exact (K1 Hi)|exact (K2 Hi)]. }
          assert (Hkeep : forall vv, In vv l -> v_wrapper_qname (fst vv) <> None -> ~ In (v_qname (fst vv)) (map fst a)).
          { intros vv Hvv. apply Hwa. right; exact Hvv. }
          unfold wentry. destruct (v_wrapper_qname var) as [w|] eqn:Ew.
          - destruct (occ var x) as [|y0 l0] eqn:Eo.
            + exists a. cbn [app]. repeat split; assumption.
            + assert (Hne : w <> []).
              { destruct Hv as [[Hwe _]|Hwv0]; [destruct (wf_elem_wrapper var w Hwe Ew) as [Hne _]; exact Hne|].
                destruct (wild_facts var Hwv0) as [_ [_ [Hnw _]]]. congruence. }
              exists (a ++ [(v_qname var, [])]). cbn [app]. rewrite <- app_assoc. cbn [app]. split; [|split].
              * apply wr_wrapped; [exact Ew|exact Hne|exact K1].
              * intros k Hi. rewrite map_app in Hi. apply in_app_or in Hi as [Hi|[Hi|[]]]; [apply Hka; exact Hi|].
                cbn [fst] in Hi. exists var. split; [exact Hvar|]. split; [congruence|symmetry; exact Hi].
              * intros vv Hvv Hw Hi. rewrite map_app in Hi. apply in_app_or in Hi as [Hi|[Hi|[]]]; [exact (Hkeep vv Hvv Hw Hi)|].
                cbn [fst] in Hi. destruct (Hall vv (or_intror Hvv)) as [Hve _].
                pose proof (evar_qname_inj var (fst vv) Htx Hvar Hve Hi) as E.
                apply (Hsame vv Hvv (once_wrapped _ Hw)). rewrite E. reflexivity.
          - exists a. cbn [app]. repeat split; assumption. }
        destruct Hwstep as [a' [Hwrf [Hka' Hwa']]].
        assert (Hcase : exists pnew,
                  bind_objects_loop c m (tagged var x ++ flat_map taggedp l) p (a ++ wentry var x ++ flat_map wentryp l) []
                  = bind_objects_loop c m (flat_map taggedp l) pnew (a' ++ flat_map wentryp l) []
                  /\ Inv pa pnew (acc ++ [(var, x)])).
        { destruct HI as [I1 [I2 I3]]. pose proof (conj I1 (conj I2 I3)) as HI.
          assert (Hocc : occ var x = [] \/ occ var x <> []) by (destruct (occ var x); [left; reflexivity|right; discriminate]).
          destruct Hocc as [Eo|Hne].
          - exists p. split; [|apply inv_skip; assumption].
            rewrite (bind_objects_var var x (flat_map taggedp l) p _ (a' ++ flat_map wentryp l) [] Hv Hvals
                       (fun H => False_ind _ (H Eo)) Hone Hwrf).
            unfold eentry. rewrite Eo, app_nil_r. reflexivity.
          - exists (pset (v_name var) (pentry var (sel var acc ++ occ var x)) p).
            split; [|apply inv_step; assumption].
            destruct (sel var acc) as [|c0 cur] eqn:Ecur.
            + assert (Hfr : ~ In (v_name var) (map fst p)).
              { apply pget_none_inv. rewrite (I2 var Hvar), Ecur. reflexivity. }
              rewrite (bind_objects_var var x (flat_map taggedp l) p _ (a' ++ flat_map wentryp l) [] Hv Hvals
                         (fun _ => Hfr) Hone Hwrf).
              cbn [app]. rewrite (pset_fresh _ _ _ Hfr). unfold eentry, pentry.
              destruct (occ var x); [contradiction|reflexivity].
            + assert (Hno : once_b var = false).
              { destruct (once_b var) eqn:Eob; [|reflexivity].
                pose proof (Hsel (var, x) (or_introl eq_refl) Eob) as Hs. cbn [fst] in Hs. rewrite Ecur in Hs. discriminate Hs. }
              unfold once_b in Hno. destruct (v_factory var) as [f|] eqn:Ef; [|discriminate Hno].
              pose proof (I2 var Hvar) as Hg. rewrite Ecur in Hg. unfold pv_of, pentry in Hg. rewrite Ef in Hg.
              destruct (pget_split _ _ p Hg) as [p1 [p2 [Ep Hk1]]].
              unfold tagged. rewrite Ep.
              rewrite (bind_objects_more var f (occ var x) (c0 :: cur) p1 p2 (flat_map taggedp l) _ (a' ++ flat_map wentryp l) []
                         Hv Hvals Ef Hk1 Hwrf).
              rewrite (pset_replace _ _ p1 _ p2 Hk1). unfold pentry. rewrite Ef. reflexivity. }
        destruct Hcase as [pnew [Hstep HInew]].
        destruct (IHl (acc ++ [(var, x)]) pnew a' Htx) as [p' [Hrun HI']]; try assumption.
        + intros vv Hvv. apply Hall. right; exact Hvv.
        + apply (once_tail _ _ Hnd).
        + exists p'. rewrite Hstep. split; [exact Hrun|].
          rewrite <- app_assoc in HI'. exact HI'.
    Qed.

    Lemma str_dec (a b : str) : {a = b} + {a <> b}.
    Proof. destruct (str_eqb_spec a b); [left|right]; assumption. Qed.

    Lemma end_complex asg q text tail Q objs W :
      m_text m = None -> pos0 = length objs -> reads_attrs ns0 eatsx attrs0 -> blank_o tail = true -> blank_o text = true ->
      pstep (mk_pstate (NElement (enW asg (flat_map wentryp ps)) :: Q) (objs ++ flat_map taggedp ps) W) (PEnd q text tail)
      = ROk (mk_pstate Q (objs ++ [(Some q, VObj cl fs)]) W).
    Proof.
      intros Htx Hpos Hra Htl Hbtx.
      destruct (wf_class_inv m Hwc) as [F1 F2 F3 F4 F5 F6 F7 F8 F9 F10 F11 F12 F13].
      pose proof (evar_kid Htx) as Hev.
      destruct (bind_attrs_ok (enW asg (flat_map wentryp ps)) attrs0 eq_refl eq_refl Hra) as [pa [Hba [Hnd [Hin Habs]]]].
      assert (Hpa_e : forall var, In var evars -> ~ In (v_name var) (map fst pa)).
      { intros var Hv Hi. apply in_map_iff in Hi as [[k pv] [Ek Hk]]. cbn [fst] in Ek. subst k.
        destruct (Hin _ _ Hk) as [va [Hva [En _]]]. apply (avar_evar_disjoint va var Hva Hv). symmetry. exact En. }
      destruct (bind_objects_pairs pa ps [] pa [] Htx) as [p' [Hrun [J1 [J2 J3]]]].
      { intros vv Hvv. apply (pair_facts vv Htx Hvv). }
      { exact (ps_once _ _ _ _ pairs_ok). }
      { intros vv _ _. reflexivity. }
      { intros k []. }
      { intros vv _ _ []. }
      { split; [exact Hnd|]. split; [|reflexivity].
        intros var Hv. cbn [sel flat_map pv_of]. apply pget_none. apply (Hpa_e var Hv). }
      cbn [app] in J2.
      assert (Hsel : forall var, In var evars -> sel var ps = occ var (F var)).
      { intros var Hv. apply (ps_sel _ _ _ _ pairs_ok var Hv). }
      cbn [Parser.step pend st_queue st_objects st_warn]. unfold element_bind.
      rewrite xsi_nil_enW. change (en_meta (enW asg (flat_map wentryp ps))) with m at 1. rewrite nil_go.
      rewrite Hba. cbn [rbind fst snd].
      assert (Ebc : bind_content cfg c (enW asg (flat_map wentryp ps)) pa text tail (objs ++ flat_map taggedp ps)
                    = ROk (p', objs, [], false)).
      { unfold bind_content. change (en_meta (enW asg (flat_map wentryp ps))) with m. unfold find_any_wildcard.
        change (en_position (enW asg (flat_map wentryp ps))) with pos0.
        change (en_wrappers (enW asg (flat_map wentryp ps))) with ([] ++ flat_map wentryp ps).
        rewrite Hpos, skipn_app_len, firstn_app_len.
        destruct F2 as [E|[wv [E [Hww _]]]]; rewrite E; cbn [hd_error].
        - rewrite Hrun. cbn [rbind fst snd]. unfold bind_text. change (en_meta (enW asg (flat_map wentryp ps))) with m. rewrite Htx.
          cbn [rbind app]. reflexivity.
        - destruct (wf_wild_inv wv Hww) as [_ [Hcw _]]. destruct (var_common_w_inv wv Hcw) as [_ [Hmx _]]. rewrite Hmx.
          rewrite Hrun. cbn [rbind fst snd]. unfold bind_text. change (en_meta (enW asg (flat_map wentryp ps))) with m. rewrite Htx.
          cbn [rbind app]. unfold bind_wild_text. rewrite (normalize_blank text Hbtx), (normalize_blank tail Htl). reflexivity. }
      rewrite Ebc. cbn [rbind fst snd]. change (en_meta (enW asg (flat_map wentryp ps))) with m.
      rewrite (class_factory_ok p').
      - cbn [rbind]. change (en_derived (enW asg (flat_map wentryp ps))) with false. cbn iota.
        unfold append_tail. rewrite (normalize_blank tail Htl).
        unfold finish_end. cbn [rbind fst snd st_warn]. rewrite app_nil_r. reflexivity.
      - exact J1.
      - (* every entry is the field's value *)
        intros k pv Hk. pose proof (assoc_nodup k p' pv J1 Hk) as Hg.
        destruct (in_dec str_dec k (map v_name evars)) as [Hi|Hni].
        + apply in_map_iff in Hi as [ve [En Hve]]. subst k. exists ve. split; [apply evar_all; exact Hve|].
          split; [reflexivity|].
          pose proof (J2 ve Hve) as Hp. unfold pget in Hp. rewrite Hg, (Hsel ve Hve) in Hp.
          destruct (kid_field_facts ve (Hev ve Hve)) as [Hval _].
          apply Hval. unfold eentry. unfold pv_of, pentry in Hp.
          destruct (occ ve (F ve)) eqn:Eo; [discriminate Hp|]. inversion Hp. reflexivity.
        + assert (Hg' : pget k pa = Some pv).
          { rewrite <- (J3 k); [exact Hg|]. intros var Hv E. apply Hni. rewrite <- E. apply in_map. exact Hv. }
          apply assoc_in in Hg'. destruct (Hin _ _ Hg') as [va [Hva [En Hpv]]]. exists va.
          split; [apply avar_all; exact Hva|]. split; [exact En|]. rewrite Hpv. reflexivity.
      - (* absent fields take their default *)
        intros var Hv Hnot. destruct (allvars_split var Hv) as [Ha|He].
        + apply (Habs var Ha). intros Hi. apply Hnot.
          apply assoc_some_in in Hi as [pv Hpv].
          assert (Hg : pget (v_name var) p' = Some pv).
          { rewrite (J3 (v_name var)); [exact Hpv|]. intros ve Hve E. apply (avar_evar_disjoint var ve Ha Hve). symmetry. exact E. }
          apply assoc_in in Hg. apply in_map_iff. exists (v_name var, pv). split; [reflexivity|exact Hg].
        + destruct (kid_field_facts var (Hev var He)) as [_ [Hdef _]]. apply Hdef.
          pose proof (J2 var He) as Hp. rewrite (pget_none _ _ Hnot), (Hsel var He) in Hp.
          unfold pv_of in Hp. destruct (occ var (F var)); [reflexivity|discriminate Hp].
      - (* init fields *)
        intros var Hv. destruct (allvars_split var Hv) as [Ha|He].
        + pose proof (avar_common var Ha) as Hc.
          destruct (var_common_inv var Hc) as [Hi _]. exact Hi.
        + destruct (kid_field_facts var (Hev var He)) as [_ [_ Hi]]. exact Hi.
    Qed.

    (* simple content: a Text field, no element fields *)
    Definition text_of (tv : xvar) : option str :=
      match F tv with
      | VNone => None
      | x => match y_text (v_format tv) x with [] => None | s0 => Some s0 end
      end.

    Lemma text_field_shape tv : wf_text tv = true -> fits_text tv (F tv) = true ->
      F tv = VNone /\ v_default tv = DNone
      \/ (exists t, v_types tv = [t] /\ vshape t (v_format tv) (F tv) /\ tokens_agree tv (F tv)
                   /\ (y_text (v_format tv) (F tv) = [] -> default_call (v_default tv) = F tv))
      \/ (exists q1, v_types tv = [TQName] /\ v_tokens_factory tv = None /\ F tv = VP (PQName q1)
                     /\ ok (PQName q1) = true /\ qname_ok q1 = true).
    Proof.
      intros Hw Hf. destruct (wf_text_inv tv Hw) as [_ [_ [t [Ht [_ Hd]]]]].
      unfold Fits.fits_text, vtype in Hf. rewrite Ht in Hf.
      destruct (v_tokens_factory tv) as [tf|] eqn:Etf.
      - right. left. exists t. destruct (F tv) as [| |tp l| | | |]; try discriminate Hf.
        apply andb_true_iff in Hf as [Hfl Htk]. apply eqb_bool in Hfl.
        split; [exact Ht|]. split; [apply vs_tokens; exact Htk|]. split; [exists tf; split; [exact Etf|exact Hfl]|].
        intros Hy. cbn [y_text] in Hy. destruct l as [|y1 l'].
        + apply (factory_default_call tf); assumption.
        + exfalso. cbn [forallb] in Htk. apply andb_true_iff in Htk as [H1 _].
          destruct (token_ok_inv c u ok t _ y1 H1) as [p [-> [_ [Hne' _]]]].
          cbn [map] in Hy. apply (join_nonempty _ (map (x_text c u (v_format tv)) l') Hne'). exact Hy.
      - destruct (F tv) as [|p| | | | |]; try discriminate Hf.
        + left. split; [reflexivity|exact Hd].
        + destruct (ptype_eqb t TQName) eqn:Etq.
          * right. right. unfold qleaf_ok in Hf. apply andb_true_iff in Hf as [Hokq Hq].
            destruct p as [| | | | | |q1| |]; try discriminate Hq.
            assert (Et : t = TQName) by (destruct t; try discriminate Etq; reflexivity). subst t.
            exists q1. repeat split; assumption.
          * right. left. exists t. apply andb_true_iff in Hf as [Hp Hne].
            split; [exact Ht|]. split; [apply vs_leaf; exact Hp|]. split; [exact Etf|].
            intros Hy. cbn [y_text] in Hy. rewrite Hy in Hne. discriminate Hne.
    Qed.

    Lemma text_of_eq tv t : vshape t (v_format tv) (F tv) ->
      text_of tv = match y_text (v_format tv) (F tv) with [] => None | s0 => Some s0 end.
    Proof. intros Hs. unfold text_of. inversion Hs as [p Hp E|tp l Hl E]; reflexivity. Qed.

    Lemma end_simple tv asg wr q tail Q objs W :
      m_text m = Some tv -> fits_text tv (F tv) = true ->
      pos0 = length objs -> reads_attrs ns0 eatsx attrs0 -> blank_o tail = true ->
      (forall q1, F tv <> VP (PQName q1)) -> (nk0 = true -> F tv = VNone) ->
      pstep (mk_pstate (NElement (enW asg wr) :: Q) objs W) (PEnd q (text_of tv) tail)
      = ROk (mk_pstate Q (objs ++ [(Some q, VObj cl fs)]) W).
    Proof.
      intros Htx Hft Hpos Hra Htl Hnq Hnkt.
      destruct (wf_class_inv m Hwc) as [F1 F2 F3 F4 F5 F6 F7 F8 F9 F10 F11 F12 F13].
      rewrite Htx in F11. destruct F11 as [Hwt Hnoe].
      assert (Hevars : evars = [tv]).
      { unfold evars. rewrite (evars_eq m Hwc), Hnoe, Htx, (text_no_wild m tv Hwc Htx). reflexivity. }
      assert (Htv : In tv evars) by (rewrite Hevars; left; reflexivity).
      destruct (wf_text_inv tv Hwt) as [_ [Hcm _]]. destruct (var_common_inv tv Hcm) as [Hinit _].
      destruct (bind_attrs_ok (enW asg wr) attrs0 eq_refl eq_refl Hra) as [pa [Hba [Hnd [Hin Habs]]]].
      assert (Hfresh : ~ In (v_name tv) (map fst pa)).
      { intros Hi. apply in_map_iff in Hi as [[k pv] [Ek Hk]]. cbn [fst] in Ek. subst k.
        destruct (Hin _ _ Hk) as [va [Hva [En _]]]. apply (avar_evar_disjoint va tv Hva Htv). symmetry. exact En. }
      assert (Hinits : forall var, In var (get_all_vars m) -> v_init var = true).
      { intros var Hv. destruct (allvars_split var Hv) as [Ha|He].
        - pose proof (avar_common var Ha) as Hc.
          destruct (var_common_inv var Hc) as [Hi _]. exact Hi.
        - rewrite Hevars in He. destruct He as [<-|[]]. exact Hinit. }
      cbn [Parser.step pend st_queue st_objects st_warn]. unfold element_bind.
      rewrite xsi_nil_enW. change (en_meta (enW asg wr)) with m at 1. rewrite nil_go.
      rewrite Hba. cbn [rbind fst snd].
      unfold bind_content. change (en_meta (enW asg wr)) with m. unfold find_any_wildcard. rewrite (text_no_wild m tv Hwc Htx). cbn [hd_error].
      change (en_position (enW asg wr)) with pos0. change (en_wrappers (enW asg wr)) with wr.
      rewrite Hpos, skipn_all, firstn_all. cbn [bind_objects_loop rbind fst snd].
      unfold bind_text. change (en_meta (enW asg wr)) with m. rewrite Htx.
      rewrite !xsi_nil_enW.
      destruct (Bool.bool_dec nk0 true) as [Hnk|Hnk].
      { (* xsi:nil kept: the Text field is set to None explicitly *)
        pose proof (Hnkt Hnk) as Ex. unfold text_of. rewrite Ex, Hnk.
        cbn [is_some negb andb truthy_str rbind]. rewrite Hinit. cbn [rbind app].
        rewrite (pset_fresh _ _ _ Hfresh).
        replace (PV VNone) with (PV (F tv)) by (rewrite Ex; reflexivity).
        rewrite (class_factory_ok (pa ++ [(v_name tv, PV (F tv))])).
        * cbn [rbind]. change (en_derived (enW asg wr)) with false. cbn iota.
          unfold append_tail. rewrite (normalize_blank tail Htl).
          unfold finish_end. cbn [rbind fst snd st_warn]. rewrite app_nil_r. reflexivity.
        * rewrite map_app. apply NoDup_app_intro; [exact Hnd|constructor; [intros []|constructor]|].
          intros k Hk1 [<-|[]]. exact (Hfresh Hk1).
        * intros k pv Hk0. apply in_app_or in Hk0 as [Hk0|[Hk0|[]]].
          -- destruct (Hin _ _ Hk0) as [va [Hva [En Hpv]]]. exists va. split; [apply avar_all; exact Hva|].
             split; [exact En|]. rewrite Hpv. reflexivity.
          -- inversion Hk0. exists tv. split; [apply evar_all; exact Htv|]. split; reflexivity.
        * intros var Hv Hnot. rewrite map_app in Hnot. destruct (allvars_split var Hv) as [Ha|He].
          -- apply (Habs var Ha). intros Hi. apply Hnot. apply in_or_app. left; exact Hi.
          -- rewrite Hevars in He. destruct He as [<-|[]]. exfalso. apply Hnot. apply in_or_app. right. left. reflexivity.
        * exact Hinits. }
      apply Bool.not_true_is_false in Hnk. rewrite Hnk. cbn [negb andb].
      assert (Hfin : forall p1,
                class_factory cfg m (evaluate p1) = ROk (VObj cl fs) ->
                (do obj <- class_factory cfg m (evaluate p1);
                 ROk (obj, objs, @nil warning ++ @nil warning ++ @nil warning, false))
                = ROk (VObj cl fs, objs, @nil warning, false)) by (intros p1 ->; reflexivity).
      destruct (text_field_shape tv Hwt Hft) as [[Ex Hd]|[[t [Ht [Hs [Htk Hdef]]]]|[q1 [_ [_ [Eq _]]]]]];
        [| |exfalso; apply (Hnq q1 Eq)].
      - (* no text *)
        unfold text_of. rewrite Ex. cbn [is_some negb andb rbind app].
        rewrite (class_factory_ok pa Hnd).
        + cbn [rbind]. change (en_derived (enW asg wr)) with false. cbn iota.
          unfold append_tail. rewrite (normalize_blank tail Htl).
          unfold finish_end. cbn [rbind fst snd st_warn]. rewrite app_nil_r. reflexivity.
        + intros k pv Hk. destruct (Hin _ _ Hk) as [va [Hva [En Hpv]]]. exists va. split; [apply avar_all; exact Hva|].
          split; [exact En|]. rewrite Hpv. reflexivity.
        + intros var Hv Hnot. destruct (allvars_split var Hv) as [Ha|He]; [apply (Habs var Ha Hnot)|].
          rewrite Hevars in He. destruct He as [<-|[]]. rewrite Hd. symmetry. exact Ex.
        + exact Hinits.
      - rewrite (text_of_eq tv t Hs).
        destruct (y_text (v_format tv) (F tv)) as [|ch s0] eqn:Ey.
        + (* empty token list *)
          cbn [is_some negb andb rbind app].
          rewrite (class_factory_ok pa Hnd).
          * cbn [rbind]. change (en_derived (enW asg wr)) with false. cbn iota.
            unfold append_tail. rewrite (normalize_blank tail Htl).
            unfold finish_end. cbn [rbind fst snd st_warn]. rewrite app_nil_r. reflexivity.
          * intros k pv Hk. destruct (Hin _ _ Hk) as [va [Hva [En Hpv]]]. exists va. split; [apply avar_all; exact Hva|].
            split; [exact En|]. rewrite Hpv. reflexivity.
          * intros var Hv Hnot. destruct (allvars_split var Hv) as [Ha|He]; [apply (Habs var Ha Hnot)|].
            rewrite Hevars in He. destruct He as [<-|[]]. apply Hdef. reflexivity.
          * exact Hinits.
        + cbn [is_some negb andb truthy_str].
          change (en_ns (enW asg wr)) with ns0.
          set (pv := parse_var _ _ _ _ _ _ _ _).
          assert (Hpv : pv = ROk (F tv, [])).
          { unfold pv. rewrite <- Ey. apply (parse_var_text m tv t (F tv) ns0 Ht Hs Htk). }
          rewrite Hpv. clear pv Hpv. cbn [rbind]. rewrite Hinit. cbn [rbind app].
          rewrite (pset_fresh _ _ _ Hfresh).
          rewrite (class_factory_ok (pa ++ [(v_name tv, PV (F tv))])).
          * cbn [rbind]. change (en_derived (enW asg wr)) with false. cbn iota.
            unfold append_tail. rewrite (normalize_blank tail Htl).
            unfold finish_end. cbn [rbind fst snd st_warn]. rewrite app_nil_r. reflexivity.
          * rewrite map_app. apply NoDup_app_intro; [exact Hnd|constructor; [intros []|constructor]|].
            intros k Hk1 [<-|[]]. exact (Hfresh Hk1).
          * intros k pv Hk. apply in_app_or in Hk as [Hk|[Hk|[]]].
            -- destruct (Hin _ _ Hk) as [va [Hva [En Hpv]]]. exists va. split; [apply avar_all; exact Hva|].
               split; [exact En|]. rewrite Hpv. reflexivity.
            -- inversion Hk. exists tv. split; [apply evar_all; exact Htv|]. split; reflexivity.
          * intros var Hv Hnot. rewrite map_app in Hnot. destruct (allvars_split var Hv) as [Ha|He].
            -- apply (Habs var Ha). intros Hi. apply Hnot. apply in_or_app. left; exact Hi.
            -- rewrite Hevars in He. destruct He as [<-|[]]. exfalso. apply Hnot. apply in_or_app. right. left. reflexivity.
          * exact Hinits.
    Qed.

    (* simple content whose value is a QName: the text resolves through the prefix map of the start event *)
    Lemma end_simple_q tv asg wr q q1 s tail Q objs W :
      m_text m = Some tv -> fits_text tv (F tv) = true ->
      pos0 = length objs -> reads_attrs ns0 eatsx attrs0 -> blank_o tail = true ->
      F tv = VP (PQName q1) -> s <> [] -> resolve_qname ns0 s = Some (Bind.split_qname q1) -> (nk0 = true -> F tv = VNone) ->
      pstep (mk_pstate (NElement (enW asg wr) :: Q) objs W) (PEnd q (Some s) tail)
      = ROk (mk_pstate Q (objs ++ [(Some q, VObj cl fs)]) W).
    Proof.
      intros Htx Hft Hpos Hra Htl Eq Hne Hres Hnkt.
      assert (Hnkf : nk0 = false).
      { destruct (Bool.bool_dec nk0 true) as [Hnk|Hnk]; [|apply Bool.not_true_is_false; exact Hnk].
        rewrite (Hnkt Hnk) in Eq. discriminate Eq. }
      destruct (wf_class_inv m Hwc) as [F1 F2 F3 F4 F5 F6 F7 F8 F9 F10 F11 F12 F13].
      rewrite Htx in F11. destruct F11 as [Hwt Hnoe].
      assert (Hevars : evars = [tv]).
      { unfold evars. rewrite (evars_eq m Hwc), Hnoe, Htx, (text_no_wild m tv Hwc Htx). reflexivity. }
      assert (Htv : In tv evars) by (rewrite Hevars; left; reflexivity).
      destruct (wf_text_inv tv Hwt) as [_ [Hcm _]]. destruct (var_common_inv tv Hcm) as [Hinit _].
      destruct (bind_attrs_ok (enW asg wr) attrs0 eq_refl eq_refl Hra) as [pa [Hba [Hnd [Hin Habs]]]].
      assert (Hfresh : ~ In (v_name tv) (map fst pa)).
      { intros Hi. apply in_map_iff in Hi as [[k pv] [Ek Hk]]. cbn [fst] in Ek. subst k.
        destruct (Hin _ _ Hk) as [va [Hva [En _]]]. apply (avar_evar_disjoint va tv Hva Htv). symmetry. exact En. }
      assert (Hinits : forall var, In var (get_all_vars m) -> v_init var = true).
      { intros var Hv. destruct (allvars_split var Hv) as [Ha|He].
        - pose proof (avar_common var Ha) as Hc.
          destruct (var_common_inv var Hc) as [Hi _]. exact Hi.
        - rewrite Hevars in He. destruct He as [<-|[]]. exact Hinit. }
      destruct (text_field_shape tv Hwt Hft) as [[Ex _]|[[t [_ [Hs _]]]|[q2 [Ht [Htf [Eq2 [Hokq Hq]]]]]]].
      { rewrite Ex in Eq. discriminate Eq. }
      { rewrite Eq in Hs. inversion Hs as [p Hp E|]. rewrite (leaf_nq c u ok t _ q1) in Hp. discriminate Hp. }
      rewrite Eq in Eq2. inversion Eq2; subst q2. clear Eq2.
      cbn [Parser.step pend st_queue st_objects st_warn]. unfold element_bind.
      rewrite xsi_nil_enW, Hnkf. cbn [negb orb].
      rewrite Hba. cbn [rbind fst snd].
      unfold bind_content. change (en_meta (enW asg wr)) with m. unfold find_any_wildcard. rewrite (text_no_wild m tv Hwc Htx). cbn [hd_error].
      change (en_position (enW asg wr)) with pos0. change (en_wrappers (enW asg wr)) with wr.
      rewrite Hpos, skipn_all, firstn_all. cbn [bind_objects_loop rbind fst snd].
      unfold bind_text. change (en_meta (enW asg wr)) with m. rewrite Htx.
      rewrite !xsi_nil_enW, Hnkf. cbn [negb andb].
      destruct s as [|ch s0]; [congruence|].
      cbn [is_some negb andb truthy_str].
      change (en_ns (enW asg wr)) with ns0.
      set (pv := parse_var _ _ _ _ _ _ _ _).
      assert (Hpv : pv = ROk (F tv, [])).
      { unfold pv. rewrite Eq. apply (parse_var_vtext m tv TQName (VP (PQName q1)) ns0 (ch :: s0) Ht); [|exact Htf|exact Hres].
        right. split; [reflexivity|]. exists q1. repeat split; assumption. }
      rewrite Hpv. clear pv Hpv. cbn [rbind]. rewrite Hinit. cbn [rbind app].
      rewrite (pset_fresh _ _ _ Hfresh).
      rewrite (class_factory_ok (pa ++ [(v_name tv, PV (F tv))])).
      * cbn [rbind]. change (en_derived (enW asg wr)) with false. cbn iota.
        unfold append_tail. rewrite (normalize_blank tail Htl).
        unfold finish_end. cbn [rbind fst snd st_warn]. rewrite app_nil_r. reflexivity.
      * rewrite map_app. apply NoDup_app_intro; [exact Hnd|constructor; [intros []|constructor]|].
        intros k Hk1 [<-|[]]. exact (Hfresh Hk1).
      * intros k pv Hk. apply in_app_or in Hk as [Hk|[Hk|[]]].
        -- destruct (Hin _ _ Hk) as [va [Hva [En Hpv]]]. exists va. split; [apply avar_all; exact Hva|].
           split; [exact En|]. rewrite Hpv. reflexivity.
        -- inversion Hk. exists tv. split; [apply evar_all; exact Htv|]. split; reflexivity.
      * intros var Hv Hnot. rewrite map_app in Hnot. destruct (allvars_split var Hv) as [Ha|He].
        -- apply (Habs var Ha). intros Hi. apply Hnot. apply in_or_app. left; exact Hi.
        -- rewrite Hevars in He. destruct He as [<-|[]]. exfalso. apply Hnot. apply in_or_app. right. left. reflexivity.
      * exact Hinits.
    Qed.

  End Obj.

  Lemma reads_text_content ns rec tv x t text kes :
    v_is KText tv = true -> v_wrapper_qname tv = None -> vshape t (v_format tv) x ->
    match e_field rec tv x with
    | [] => text = None /\ kes = []
    | [EData atoms] => exists s, atoms_read ns atoms s /\ s <> [] /\ text = Some s /\ kes = []
    | _ =>
        blank_o text = true
        /\ (fix rk (ks : list XmlNs.enode) (kes : list pevent) {struct ks} : Prop :=
              match ks with
              | [] => kes = []
              | k :: r => exists a b, kes = a ++ b /\ reads k a /\ rk r b
              end) (e_field rec tv x) kes
    end ->
    text = match y_text (v_format tv) x with [] => None | s0 => Some s0 end /\ kes = [].
  Proof.
    intros Hkt Hnw Hs Hk. destruct (e_data_spec c u ok t _ x Hs) as [Hd Hat].
    assert (He : e_field rec tv x = e_data (v_format tv) x).
    { unfold RoundtripGen.e_field, RoundtripGen.e_items, RoundtripGen.e_wrap. rewrite Hkt, Hnw. destruct Hs; reflexivity. }
    rewrite He, Hd in Hk.
    destruct (y_text (v_format tv) x) as [|ch s0].
    - exact Hk.
    - destruct Hk as [s' [Hs' [_ [-> ->]]]].
      apply (atoms_read_plain ns _ s' (e_atoms_vshape_plain c u ok t _ x Hs)) in Hs'.
      rewrite Hat in Hs'. inversion Hs'. split; reflexivity.
  Qed.

  (* ---------------------------------------------------------------- the induction *)
  Lemma xsi_nil_not_type : XSI_NIL <> XSI_TYPE.
  Proof. vm_compute. discriminate. Qed.

  Lemma obj_parses_step n : obj_parses n -> obj_parses (S n).
  Proof.
    intros IH cl o qn xt nk Hwf Hfit Hxq Hxf Hnk pevs Hr.
    destruct (fits_inv c u ok py_isspace n cl o Hfit) as [fs [m [-> [Hm [Hnames [Hfa [Hfe Hft]]]]]]].
    destruct (wfr_inv u cl Hwf) as [m' [Hm' [Hmc [Hwc Hnest]]]]. rewrite Hm in Hm'. inversion Hm'; subst m'. clear Hm'.
    cbn [RoundtripGen.eobj] in Hr. rewrite Hm in Hr. cbn [add_xsi_e add_nil_e reads_o] in Hr.
    destruct Hr as [attrs [ns [text [tail [kes [Hp [Hra [Htl Hk]]]]]]]].
    rewrite <- app_assoc in Hra.
    assert (Hnk0 : nk = true -> m_nillable m = true /\ find_any_attributes m XSI_NIL = None)
      by (intros H; apply (proj2 (Hnk H) m Hm)).
    assert (Hse : nk = true -> strict_empty u (VObj cl fs) = true) by (intros H; apply (proj1 (Hnk H))).
    rewrite clark_split in Hp.
    assert (Hq : elem_name qn cl = match qn with Some ((_ :: _) as q) => q | _ => m_qname m end).
    { unfold elem_name. rewrite Hm. reflexivity. }
    rewrite <- Hq in Hp.
    exists attrs, ns, (kes ++ [PEnd (elem_name qn cl) text tail]).
    assert (Hfm : forall av, m_any_attributes m = [av] -> fits_map ok m av (field_of fs av) = true)
      by (intros av Hav; apply (fits_mapvar c u ok py_isspace n cl fs m av Hfit Hm Hav)).
    assert (Hmaps : ord = true \/ m_any_attributes m = []).
    { destruct Hmapsu as [Ho|Hno]; [left; exact Ho|right].
      unfold nomaps_u in Hno. rewrite forallb_forall in Hno. specialize (Hno (cl, m) (assocN_in _ _ _ Hm)).
      cbn [snd] in Hno. rewrite Hwc in Hno. cbn [negb orb] in Hno. apply andb_true_iff in Hno as [Hno _].
      destruct (m_any_attributes m); [reflexivity|discriminate Hno]. }
    assert (Hxfree : xsi_val xt <> None -> find_any_attributes m XSI_TYPE = None)
      by (intros Hx0; apply (Hxf Hx0 m Hm)).
    assert (Hfw : forall wv, m_wildcards m = [wv] -> fits_wild u m wv (field_of fs wv) = true)
      by (intros wv Hwv; apply (fits_wildvar c u ok py_isspace n cl fs m wv Hfit Hm Hwv)).
    assert (Hword : ord = true \/ m_wildcards m = []).
    { destruct Hmapsu as [Ho|Hno]; [left; exact Ho|right].
      unfold nomaps_u in Hno. rewrite forallb_forall in Hno. specialize (Hno (cl, m) (assocN_in _ _ _ Hm)).
      cbn [snd] in Hno. rewrite Hwc in Hno. cbn [negb orb] in Hno. apply andb_true_iff in Hno as [_ Hno].
      destruct (m_wildcards m); [reflexivity|discriminate Hno]. }
    destruct (reads_attrs_carried fs m Hwc Hfa xt Hxq Hfm Hxfree nk Hnk0 ns attrs Hra) as [Hcar [_ [Hnda [Hnox [Hx [Hn1 Hn2]]]]]].
    assert (Hnil : xsi_nil_of attrs = xn_of nk).
    { unfold xsi_nil_of. destruct nk.
      - rewrite (assoc_nodup XSI_NIL attrs _ Hnda (Hn1 eq_refl)). vm_compute. reflexivity.
      - rewrite (assoc_none XSI_NIL attrs (Hn2 eq_refl)). reflexivity. }
    assert (Hxty : Parser.xsi_type_of c attrs ns = ROk (xsi_val xt)).
    { unfold Parser.xsi_type_of. destruct (xsi_val xt) as [xq|] eqn:Ex.
      - destruct (Hx xq eq_refl) as [s0 [Hi Hres]].
        rewrite (assoc_nodup XSI_TYPE attrs s0 Hnda Hi).
        destruct (Hxq xq Ex) as [Hokq Hqq].
        destruct s0 as [|ch0 s0'].
        { exfalso. cbn in Hres. inversion Hres as [Hsp]. unfold qname_ok in Hqq. rewrite <- Hsp in Hqq. discriminate Hqq. }
        cbn [truthy_str]. rewrite (proj2 conv_law None ns xq _ Hokq Hres).
        destruct xt as [[|ch q]|]; try discriminate Ex. inversion Ex; subst xq. reflexivity.
      - rewrite (assoc_none XSI_TYPE attrs (Hnox eq_refl)). reflexivity. }
    split; [exact Hp|]. split; [exact Hxty|]. split; [exact Hnil|].
    intros m' Hm' xtv Q objs W rest. rewrite Hm in Hm'. inversion Hm'; subst m'. clear Hm'.
    rewrite <- app_assoc. cbn [app].
    destruct (m_text m) as [tv|] eqn:Htx.
    - (* simple content *)
      destruct (wf_class_inv m Hwc) as [F1 F2 F3 F4 F5 F6 F7 F8 F9 F10 F11 F12 F13].
      rewrite Htx in F11. destruct F11 as [Hwt Hnoe].
      assert (Hevars : get_element_vars m = [tv]) by (rewrite (evars_eq m Hwc), Hnoe, Htx, (text_no_wild m tv Hwc Htx); reflexivity).
      assert (Hpairs : pairs cl fs m = emit1 fs tv).
      { rewrite (pairs_plain cl fs m Hwc Hnames), Hevars; [cbn [flat_map]; apply app_nil_r|].
        intros var Hv. rewrite Hevars in Hv. destruct Hv as [<-|[]].
        apply (wf_text_noseq tv Hwt). }
      assert (Hkf : flat_map (fun vv => e_field (eobj n) (fst vv) (snd vv)) (pairs cl fs m) = e_field (eobj n) tv (field_of fs tv)).
      { rewrite Hpairs. unfold emit1, EventGen.emit, RoundtripGen.e_field. rewrite (wf_text_nonil tv Hwt).
        destruct (field_of fs tv); cbn [flat_map fst snd]; rewrite ?app_nil_r; reflexivity. }
      rewrite Hkf in Hk.
      destruct (wf_text_inv tv Hwt) as [Hkt _].
      assert (Hnkt : nk = true -> field_of fs tv = VNone).
      { intros H. pose proof (Hse H) as Hs0. cbn [strict_empty] in Hs0. rewrite Hm, Hevars in Hs0. cbn [forallb] in Hs0.
        rewrite andb_true_r in Hs0. destruct (field_of fs tv) as [| |tp [|y l]| | | |]; try discriminate Hs0; [reflexivity|].
        rewrite Hkt in Hs0. destruct (v_wrapper_qname tv); discriminate Hs0. }
      destruct (text_field_shape fs tv Hwt Hft) as [[Ex _]|[[t [Ht [Hs _]]]|[q1 [Ht [Htf [Eq [Hokq Hqok]]]]]]].
      + (* no value *)
        assert (Htext : text = text_of fs tv /\ kes = []).
        { unfold text_of. rewrite Ex in *. unfold RoundtripGen.e_field in Hk. rewrite (wf_text_nonil tv Hwt) in Hk. exact Hk. }
        destruct Htext as [-> ->]. cbn [app]. apply run_step.
        apply (end_simple cl fs m Hwc Hmc Hnames Hfa xt Hxq Hfm Hmaps Hxfree nk Hnk0 attrs ns (length objs) xtv tv [] [] (elem_name qn cl) tail Q objs W Htx Hft eq_refl Hra Htl); [|exact Hnkt].
        intros q1 E. rewrite Ex in E. discriminate E.
      + (* a leaf or a token list *)
        assert (Htext : text = text_of fs tv /\ kes = []).
        { rewrite (text_of_eq fs tv t Hs). apply (reads_text_content ns (eobj n) tv _ t text kes Hkt (wf_text_nowrap tv Hwt) Hs Hk). }
        destruct Htext as [-> ->]. cbn [app]. apply run_step.
        apply (end_simple cl fs m Hwc Hmc Hnames Hfa xt Hxq Hfm Hmaps Hxfree nk Hnk0 attrs ns (length objs) xtv tv [] [] (elem_name qn cl) tail Q objs W Htx Hft eq_refl Hra Htl); [|exact Hnkt].
        intros q1 E. rewrite E in Hs. inversion Hs as [p0 Hp0 E'|]. rewrite (leaf_nq c u ok t _ q1) in Hp0. discriminate Hp0.
      + (* a QName *)
        assert (He : e_field (eobj n) tv (field_of fs tv) = [EData [AQName (Bind.split_qname q1)]]).
        { rewrite Eq. unfold RoundtripGen.e_field, RoundtripGen.e_items, RoundtripGen.e_wrap.
          rewrite Hkt, (wf_text_nowrap tv Hwt). unfold RoundtripGen.e_data. cbn [RoundtripGen.e_atoms].
          rewrite (qname_nontrivial q1 Hqok). reflexivity. }
        rewrite He in Hk. destruct Hk as [s [Hs [Hne [-> ->]]]]. cbn [atoms_read] in Hs. cbn [app]. apply run_step.
        apply (end_simple_q cl fs m Hwc Hmc Hnames Hfa xt Hxq Hfm Hmaps Hxfree nk Hnk0 attrs ns (length objs) xtv tv [] [] (elem_name qn cl) q1 s tail Q objs W
                 Htx Hft eq_refl Hra Htl Eq Hne Hs Hnkt).
    - (* complex content *)
      assert (Hpf : forall vv, In vv (pairs cl fs m) -> In (fst vv) (get_element_vars m) /\ pair_ok m n vv).
      { intros vv Hvv. apply (pair_facts cl fs m Hwc Hmc Hnames n Hfe Hwf Hm Hfw vv Htx Hvv). }
      assert (Hkids0 : forall e, In e (flat_map (fun vv => e_field (eobj n) (fst vv) (snd vv)) (pairs cl fs m)) -> exists q a k, e = EElem q a k).
      { intros e He. apply in_flat_map in He as [[var x] [Hvv He]]. cbn [fst snd] in He.
        destruct (Hpf _ Hvv) as [Hvar [Hio _]]. cbn [fst snd] in *.
        pose proof (kid_ok_kid m n var _ Hio) as Hv.
        rewrite (e_field_occ m n var x Hv) in He.
        assert (Hitems : In e (map (ienode n var) (occ var x)) -> exists q a k, e = EElem q a k).
        { intros Hi. apply in_map_iff in Hi as [y [<- Hy]].
          apply (kid_item_elem fs m n Hfe var _ y Hio Hy). }
        assert (He' : In e (e_wrap var (map (ienode n var) (occ var x)))).
        { destruct x; try exact He. destruct (v_nillable var); [exact He|destruct He]. }
        clear He. unfold RoundtripGen.e_wrap in He'. destruct (v_wrapper_qname var) as [[|ch w]|];
          [apply Hitems; exact He'|destruct He' as [<-|[]]; eauto|apply Hitems; exact He']. }
      assert (Hkids : reads_kids (flat_map (fun vv => e_field (eobj n) (fst vv) (snd vv)) (pairs cl fs m)) kes)
        by (apply (reads_content_elems ns _ text kes Hkids0 Hk)).
      destruct (pairs_run cl fs m Hwc Hmc nk n Hfe IH Hwf Hm Hnest attrs ns (length objs) xtv Hword (pairs cl fs m) kes [] [] Q objs W
                  (PEnd (elem_name qn cl) text tail :: rest) Htx Hpf
                  (ps_once _ _ _ _ (class_pairs_fits c u ok _ _ cl fs m Hwc Hnames Hfe Hfw))
                  (fun _ _ _ => conj (fun Hi => Hi) (fun Hi => Hi)) Hkids) as [asg' Hrun].
      unfold enW in Hrun. rewrite Hrun. apply run_step. cbn [app].
      apply (end_complex cl fs m Hwc Hmc Hnames Hfa xt Hxq Hfm Hmaps Hxfree nk Hnk0 n Hfe Hwf Hm attrs ns (length objs) xtv Hfw asg' (elem_name qn cl) text tail Q objs W Htx eq_refl Hra Htl).
      (* the text of an element with child elements is white space *)
      clear - Hk Hkids0. destruct (flat_map (fun vv => e_field (eobj n) (fst vv) (snd vv)) (pairs cl fs m)) as [|k1 r]; [destruct Hk as [-> _]; reflexivity|].
      destruct (Hkids0 k1 (or_introl eq_refl)) as [q1 [a1 [kk1 ->]]]. destruct Hk as [Hb _]. exact Hb.
  Qed.

  Theorem all_parse : forall n, obj_parses n.
  Proof.
    induction n as [|n IHn]; [|apply obj_parses_step; exact IHn].
    intros cl o qn xt nk _ Hfit. discriminate Hfit.
  Qed.
End Main.
