(* Proofs/RoundtripPump.v — the canonical reader stream (C01): `pump_e e` reads as `e` for every
   plain tree, and the expected tree of a fitting instance is plain.  Gives the round trip in the
   form  parse (pump (itree_of_events (generate ...))) = Ok o []. *)
From Coq Require Import NArith ZArith List Bool Lia Arith.
From XV Require Import Base.Str Base.Eqb Base.PyInt Spec.XmlNs Model.Bind Model.EventGen Spec.Fits
  Proofs.RoundtripBase Proofs.RoundtripGen Model.RoundtripCorr Proofs.RoundtripParse.
Import ListNotations.
Open Scope N_scope.

Lemma forallb_map' {A B} (f : B -> bool) (g : A -> B) l : forallb f (map g l) = forallb (fun x => f (g x)) l.
Proof. induction l as [|x r IH]; [reflexivity|]. cbn [map forallb]. rewrite IH. reflexivity. Qed.

(* ---------------------------------------------------------------- plain trees read canonically *)
Lemma atoms_text_plain l : atoms_plain l = true -> atoms_text l = Some (atoms_str l).
Proof.
  intros H. unfold atoms_text, atoms_str.
  rewrite (map_opt_map atom_text (fun a => match a with AText s => s | AQName q => clark_of q end)); [reflexivity|].
  intros a Ha. unfold atoms_plain in H. rewrite forallb_forall in H. specialize (H a Ha). destruct a; [reflexivity|discriminate].
Qed.

Lemma reads_kids_pump ord ks :
  (forall k, In k ks -> reads_o ord k (pump_e k)) -> reads_kids_o ord ks (flat_map pump_e ks).
Proof.
  induction ks as [|k r IH]; intros H; [reflexivity|]. cbn [flat_map reads_kids_o].
  exists (pump_e k), (flat_map pump_e r). split; [reflexivity|]. split; [apply H; left; reflexivity|].
  apply IH. intros x Hx. apply H. right; exact Hx.
Qed.

Section EnodeInd.
  Variable P : XmlNs.enode -> Prop.
  Hypothesis HD : forall a, P (EData a).
  Hypothesis HE : forall q a ks, Forall P ks -> P (EElem q a ks).
  Fixpoint enode_ind' (e : XmlNs.enode) : P e :=
    match e with
    | EData a => HD a
    | EElem q a ks =>
        HE q a ks ((fix go (ks : list XmlNs.enode) : Forall P ks :=
                      match ks with
                      | [] => Forall_nil P
                      | k :: r => Forall_cons k (enode_ind' k) (go r)
                      end) ks)
    end.
End EnodeInd.

(* the canonical stream keeps the attribute order: it is a reading for both values of `ord` *)
Lemma reads_pump ord : forall e, plain_tree e = true -> reads_o ord e (pump_e e).
Proof.
  induction e as [atoms|q eats ekids IH] using enode_ind'; intros Hp; [discriminate Hp|].
  cbn [plain_tree] in Hp. apply andb_true_iff in Hp as [Hp Hk]. apply andb_true_iff in Hp as [Hpa Hnd].
  cbn [reads_o pump_e].
  exists (map (fun a => (clark_of (fst a), atoms_str (snd a))) eats), [],
         (match ekids with [EData atoms] => Some (atoms_str atoms) | _ => None end), None, (flat_map pump_e ekids).
  split; [reflexivity|]. split; [|split; [reflexivity|]].
  - split; [|split; [|split]].
    4:{ intros _. rewrite map_map. reflexivity. }
    + rewrite map_map. cbn [fst]. apply nodup_by_str. exact Hnd.
    + apply map_length.
    + intros ea Hea. exists (atoms_str (snd ea)). split.
      * rewrite forallb_forall in Hpa. apply (atoms_plain_read [] _ _ (Hpa ea Hea)). apply atoms_text_plain. apply (Hpa ea Hea).
      * apply in_map_iff. exists ea. split; [reflexivity|exact Hea].
  - assert (Hkids : forallb plain_tree ekids = true -> forall k, In k ekids -> reads_o ord k (pump_e k)).
    { intros Hall k Hin. rewrite forallb_forall in Hall. rewrite Forall_forall in IH. apply (IH k Hin). apply Hall. exact Hin. }
    destruct ekids as [|k1 r]; [split; reflexivity|].
    destruct k1 as [atoms|q1 a1 k1].
    + destruct r as [|k2 r'].
      * apply andb_true_iff in Hk as [Hpl Hne]. exists (atoms_str atoms).
        split; [apply (atoms_plain_read [] _ _ Hpl); apply atoms_text_plain; exact Hpl|]. split; [|split; reflexivity].
        intros E. rewrite E in Hne. discriminate Hne.
      * cbn [forallb plain_tree] in Hk. discriminate Hk.
    + split; [reflexivity|]. apply (reads_kids_pump ord (EElem q1 a1 k1 :: r)). apply Hkids. exact Hk.
Qed.

(* ---------------------------------------------------------------- the expected tree is plain *)
(* ---------------------------------------------------------------- instances without QName values *)
Lemma noq_list t l : noq (VList t l) = forallb noq l.
Proof. induction l as [|x r IH]; [reflexivity|]. cbn [forallb]. rewrite <- IH. reflexivity. Qed.
Lemma noq_obj cl fs : noq (VObj cl fs) = forallb (fun kv => noq (snd kv)) fs.
Proof. induction fs as [|[k x] r IH]; [reflexivity|]. cbn [forallb snd]. rewrite <- IH. reflexivity. Qed.
Lemma noq_field cl fs var : noq (VObj cl fs) = true -> noq (field_of fs var) = true.
Proof.
  rewrite noq_obj. intros H. unfold field_of. destruct (assoc (v_name var) fs) as [x|] eqn:E; [|reflexivity].
  rewrite forallb_forall in H. apply assoc_in in E. apply (H _ E).
Qed.
Lemma noq_item t l y : noq (VList t l) = true -> In y l -> noq y = true.
Proof. rewrite noq_list. intros H Hy. rewrite forallb_forall in H. apply (H y Hy). Qed.
Lemma noq_occ var x y : noq x = true -> In y (occ var x) -> noq y = true.
Proof.
  intros Hx Hy. unfold occ in Hy.
  destruct x as [|p|t l|k f|? ? ? ? ?|? ? ?|?].
  { destruct (v_nillable var); [destruct Hy as [<-|[]]; reflexivity|destruct Hy]. }
  all: destruct (v_tokens_factory var).
  all: try (destruct Hy as [<-|[]]; exact Hx).
  - destruct l as [|z l']; [destruct Hy|]. destruct z; try (destruct Hy as [<-|[]]; exact Hx).
    apply (noq_item t _ y Hx Hy).
  - apply (noq_item t l y Hx Hy).
Qed.

Section Plain.
  Variable c : conv.
  Variable u : universe.
  Variable ok : prim -> bool.
  Variable ign : bool.

  Notation fits := (fits c u ok py_isspace).
  Notation eobj := (eobj c u ign).
  Notation e_attr := (e_attr c u ign).
  Notation e_atoms := (e_atoms c u).
  Notation e_data := (e_data c u).
  Notation e_prim := (e_prim c u).
  Notation wfr := (wfr u).

  Lemma NoDup_nodup_by l : NoDup l -> nodup_by str_eqb l = true.
  Proof.
    induction 1 as [|x r Hx _ IH]; [reflexivity|]. cbn [nodup_by]. rewrite IH, andb_true_r.
    apply negb_true_iff. apply existsb_false_iff'. intros y Hy. apply str_eqb_neq. intros E. subst. contradiction.
  Qed.

  Lemma plain_data t fmt y : vshape c u ok t fmt y ->
    match e_data fmt y with
    | [] => True
    | [EData atoms] => atoms_plain atoms && negb (match atoms_str atoms with [] => true | _ => false end) = true
    | _ => False
    end.
  Proof.
    intros Hs. destruct (e_data_spec c u ok t fmt y Hs) as [Hd Hat]. rewrite Hd.
    destruct (y_text c u fmt y) as [|ch s] eqn:Ey; [exact I|].
    rewrite (e_atoms_vshape_plain c u ok t fmt y Hs). cbn [andb].
    pose proof (atoms_text_plain _ (e_atoms_vshape_plain c u ok t fmt y Hs)) as Hp. rewrite Hat in Hp. inversion Hp as [E].
    destruct (atoms_str (e_atoms fmt y)); [discriminate E|reflexivity].
  Qed.

  Lemma plain_prim var t y : vshape c u ok t (v_format var) y -> plain_tree (e_prim var y) = true.
  Proof.
    intros Hs. assert (Ene : nil_attr_e var y = []) by (destruct Hs; reflexivity).
    unfold RoundtripGen.e_prim. rewrite Ene. cbn [plain_tree forallb map nodup_by andb].
    pose proof (plain_data t _ y Hs) as H. destruct (e_data (v_format var) y) as [|k1 r]; [reflexivity|].
    destruct k1 as [atoms|? ? ?]; [|destruct H]. destruct r; [exact H|destruct H].
  Qed.

  (* <f xsi:nil="true"/> *)
  Lemma plain_nil var : plain_tree (e_prim var VNone) = true.
  Proof.
    unfold RoundtripGen.e_prim, nil_attr_e, RoundtripGen.e_data. cbn [RoundtripGen.e_atoms].
    destruct (v_nillable var); reflexivity.
  Qed.

  (* generic elements *)
  Lemma plain_any x : forall k, (odepth x <= k)%nat -> fits_anyel x = true -> plain_tree (e_any x) = true.
  Proof.
    intros k. revert x. induction k as [|k IH]; intros x Hd Hf;
      destruct (fits_anyel_inv x Hf) as [q [s [a [ch [-> [Hq [Hnd [Hat [Hs Hch]]]]]]]]]; [cbn [odepth] in Hd; lia|].
    cbn [e_any plain_tree].
    apply andb_true_iff. split; [apply andb_true_iff; split|].
    - apply forallb_forall. intros ea Hea. apply in_map_iff in Hea as [kv [<- _]]. reflexivity.
    - apply NoDup_nodup_by. rewrite map_map. cbn [fst].
      assert (E : map (fun x0 : qname * str => clark_of (Bind.split_qname (fst x0))) a = map fst a).
      { apply map_ext. intros kv. apply clark_split. }
      rewrite E. exact Hnd.
    - assert (Hkids : forallb plain_tree (map e_any ch) = true).
      { apply forallb_forall. intros e He. apply in_map_iff in He as [y [<- Hy]].
        apply IH; [pose proof (odepth_anychild (Some q) (Some s) None a ch y Hy) as Hlt; cbn [odepth] in Hlt, Hd; lia|apply Hch; exact Hy]. }
      destruct ch as [|c1 chr].
      + cbn [map app]. rewrite app_nil_r. destruct s as [|c0 s']; [reflexivity|]. reflexivity.
      + rewrite (Hs ltac:(discriminate)). cbn [app].
        destruct (fits_anyel_inv c1 (Hch c1 (or_introl eq_refl))) as [q1 [s1 [a1 [ch1 [E1 _]]]]].
        cbn [map] in Hkids |- *. rewrite E1 in Hkids |- *. cbn [e_any] in Hkids |- *. exact Hkids.
  Qed.

  Lemma plain_obj : forall n cl o qn nk, wfr cl -> fits n cl o = true -> noq o = true -> exact_classes u n cl o = true ->
    nil_ok u cl o nk ->
    plain_tree (add_nil_e nk (eobj n qn o)) = true.
  Proof.
    induction n as [|n IH]; intros cl o qn nk Hwf Hfit Hnq Hex Hnk; [discriminate|].
    destruct (fits_inv c u ok py_isspace n cl o Hfit) as [fs [m [-> [Hm [Hnames [Hfa [Hfe Hft]]]]]]].
    destruct (wfr_inv u cl Hwf) as [m' [Hm' [Hmc [Hwc Hnest]]]]. rewrite Hm in Hm'. inversion Hm'; subst m'. clear Hm'.
    assert (Hnk0 : nk = true -> m_nillable m = true /\ find_any_attributes m XSI_NIL = None)
      by (intros H; apply (proj2 (Hnk H) m Hm)).
    cbn [RoundtripGen.eobj]. rewrite Hm. cbn [add_nil_e plain_tree].
    apply andb_true_iff. split; [apply andb_true_iff; split|].
    - (* attribute values are text *)
      rewrite forallb_app. apply andb_true_iff. split; [|destruct nk; reflexivity].
      apply forallb_forall. intros ea Hea. apply in_flat_map in Hea as [var [Hvar Hea]].
      destruct (wf_class_avar m var Hwc Hvar) as [[Hwa Hina]|[Hav Hwv]].
      + pose proof (Hfa _ Hina) as Hfv. cbn [snd] in Hfv.
        destruct (attr_cases c u ok ign var _ Hwa Hfv) as [[E _]|[t [E [_ [Hs _]]]]]; rewrite E in Hea; [destruct Hea|].
        destruct Hea as [<-|[]]. cbn [snd].
        destruct Hs as [Hs|[_ [q1 [Eq _]]]]; [apply (e_atoms_vshape_plain c u ok t _ _ Hs)|].
        pose proof (noq_field cl fs var Hnq) as Hnv. rewrite Eq in Hnv. discriminate Hnv.
      + destruct (fits_map_inv ok m var _ (fits_mapvar c u ok py_isspace n cl fs m var Hfit Hm Hav)) as [mm [Ex _]].
        rewrite Ex in Hea. cbn [RoundtripGen.e_attr] in Hea. apply in_map_iff in Hea as [kv [<- _]]. reflexivity.
    - (* attribute names are distinct *)
      apply NoDup_nodup_by.
      assert (Hfm : forall av, m_any_attributes m = [av] -> fits_map ok m av (field_of fs av) = true)
        by (intros av Hav; apply (fits_mapvar c u ok py_isspace n cl fs m av Hfit Hm Hav)).
      assert (Hxq0 : xsi_okq ok None) by (intros q0 Hq0; discriminate Hq0).
      assert (Hxf0 : xsi_val None <> None -> find_any_attributes m XSI_TYPE = None) by (intros H0; exfalso; apply H0; reflexivity).
      pose proof (enames_nodup c u ok ign fs m Hwc Hfa None Hfm Hxf0 nk Hnk0) as Hn.
      pose proof (eats_names c u ok ign fs m Hwc Hfa None Hxq0 Hfm Hxf0 nk Hnk0) as He.
      cbn [xsi_attr_e app] in He.
      rewrite <- (map_map fst clark_of), He, map_map.
      assert (Em : map (fun x : qname => clark_of (Bind.split_qname x)) (enames c u ign fs m None nk) = enames c u ign fs m None nk).
      { rewrite <- (map_id (enames c u ign fs m None nk)) at 2. apply map_ext. intros q0. apply clark_split. }
      rewrite Em. exact Hn.
    - (* content *)
      destruct (m_text m) as [tv|] eqn:Htx.
      + destruct (wf_class_inv m Hwc) as [F1 F2 F3 F4 F5 F6 F7 F8 F9 F10 F11 F12 F13].
        rewrite Htx in F11. destruct F11 as [Hwt Hnoe].
        assert (Hevars : get_element_vars m = [tv]) by (rewrite (evars_eq m Hwc), Hnoe, Htx, (text_no_wild m tv Hwc Htx); reflexivity).
        assert (Hpairs : pairs cl fs m = emit1 fs tv).
        { rewrite (pairs_plain cl fs m Hwc Hnames), Hevars; [cbn [flat_map]; apply app_nil_r|].
          intros var Hv. rewrite Hevars in Hv. destruct Hv as [<-|[]].
          apply (wf_text_noseq tv Hwt). }
        assert (Hkf : flat_map (fun vv => RoundtripGen.e_field c u (eobj n) (fst vv) (snd vv)) (pairs cl fs m)
                      = RoundtripGen.e_field c u (eobj n) tv (field_of fs tv)).
        { rewrite Hpairs. unfold emit1, EventGen.emit, RoundtripGen.e_field. rewrite (wf_text_nonil tv Hwt).
        destruct (field_of fs tv); cbn [flat_map fst snd]; rewrite ?app_nil_r; reflexivity. }
        rewrite Hkf.
        destruct (wf_text_inv tv Hwt) as [Hkt _].
        destruct (text_field_shape c u ok fs tv Hwt Hft) as [[Ex _]|[[t [Ht [Hs _]]]|[q1 [_ [_ [Eq _]]]]]].
        3:{ pose proof (noq_field cl fs tv Hnq) as Hnv. rewrite Eq in Hnv. discriminate Hnv. }
        * unfold RoundtripGen.e_field. rewrite Ex, (wf_text_nonil tv Hwt). reflexivity.
        * assert (He : RoundtripGen.e_field c u (eobj n) tv (field_of fs tv) = e_data (v_format tv) (field_of fs tv)).
          { unfold RoundtripGen.e_field, RoundtripGen.e_items, RoundtripGen.e_wrap.
            rewrite Hkt, (wf_text_nowrap tv Hwt). inversion Hs; reflexivity. }
          rewrite He. pose proof (plain_data t _ _ Hs) as H.
          destruct (e_data (v_format tv) (field_of fs tv)) as [|k1 r]; [reflexivity|].
          destruct k1 as [atoms|? ? ?]; [|destruct H]. destruct r; [exact H|destruct H].
      + assert (Hall : forall e, In e (flat_map (fun vv => RoundtripGen.e_field c u (eobj n) (fst vv) (snd vv)) (pairs cl fs m)) ->
                  (exists q a k, e = EElem q a k) /\ plain_tree e = true).
        { intros e He. apply in_flat_map in He as [[var x] [Hvv He]]. cbn [fst snd] in He.
          assert (Hfw : forall wv, m_wildcards m = [wv] -> fits_wild u m wv (field_of fs wv) = true)
            by (intros wv Hwv; apply (fits_wildvar c u ok py_isspace n cl fs m wv Hfit Hm Hwv)).
          destruct (pair_facts c u ok cl fs m Hwc Hmc Hnames n Hfe Hwf Hm Hfw (var, x) Htx Hvv) as [Hvar [Hio _]]. cbn [fst snd] in *.
          pose proof (kid_ok_kid c u ok m n var _ Hio) as Hkid.
          rewrite (e_field_occ c u ign m n var _ Hkid) in He.
          assert (Hitem : forall y, In y (occ var x) ->
                    (exists q a k, ienode c u ign n var y = EElem q a k) /\ plain_tree (ienode c u ign n var y) = true).
          { destruct Hio as [[Hev Hok0]|[Hwv Hall0]].
            2:{ intros y Hy. rewrite Forall_forall in Hall0. specialize (Hall0 y Hy).
                unfold fits_any_top in Hall0. apply andb_true_iff in Hall0 as [Hfy _].
                destruct (wild_facts m var Hwv) as [_ [_ [_ [_ [_ [_ [_ [Htfw _]]]]]]]].
                unfold ienode. rewrite Htfw.
                destruct (fits_anyel_inv y Hfy) as [q0 [s0 [a0 [ch0 [Ey _]]]]]. rewrite Ey. cbn [RoundtripGen.e_item]. rewrite <- Ey.
                split; [|apply (plain_any y (odepth y) (le_n _) Hfy)].
                rewrite Ey. cbn [e_any]. eauto. }
          assert (Hnx : noq x = true).
          { destruct (ps_src _ _ _ _ (class_pairs_fits c u ok _ _ cl fs m Hwc Hnames Hfe Hfw) (var, x) Hvv) as [_ [_ [Hw|[f0 [t0 [l0 [_ [_ [_ [El Hil]]]]]]]]]]; cbn [fst snd] in *.
            - unfold pair_whole in Hw. cbn [fst snd] in Hw. rewrite Hw. apply (noq_field cl fs var Hnq).
            - apply (noq_item t0 l0 x); [rewrite <- El; apply (noq_field cl fs var Hnq)|exact Hil]. }
          assert (Hexy : forall kd y, v_clazz var = Some kd -> v_tokens_factory var = None -> In y (occ var x) -> y <> VNone ->
                    exact_classes u n kd y = true).
          { intros kd y Hcl Htf Hy Hyn0.
            assert (Hnone : In y (if v_nillable var then [VNone] else []) -> False).
            { destruct (v_nillable var); [intros [E|[]]; congruence|intros []]. }
            cbn [exact_classes] in Hex. rewrite Hm in Hex. apply andb_true_iff in Hex as [_ Hex].
            destruct Hev as [_ Hine]. rewrite forallb_forall in Hex. specialize (Hex _ Hine). cbn [snd forallb] in Hex.
            rewrite andb_true_r, Hcl in Hex.
            destruct (ps_src _ _ _ _ (class_pairs_fits c u ok _ _ cl fs m Hwc Hnames Hfe Hfw) (var, x) Hvv)
              as [_ [Hxn [Hw|[f0 [t0 [l0 [_ [_ [_ [El Hil]]]]]]]]]]; cbn [fst snd] in *.
            - unfold pair_whole in Hw. cbn [fst snd] in Hw. rewrite <- Hw in Hex.
              unfold occ in Hy. rewrite Htf in Hy. destruct x as [| |tt l| | | |]; try (now destruct (Hnone Hy)); try destruct Hy as [<-|[]]; try exact Hex; try congruence.
              rewrite forallb_forall in Hex. apply (Hex y Hy).
            - rewrite El in Hex. rewrite forallb_forall in Hex. specialize (Hex x Hil).
              unfold occ in Hy. rewrite Htf in Hy. destruct x as [| |tt l| | | |]; try (now destruct (Hnone Hy)); try destruct Hy as [<-|[]]; try exact Hex; try congruence.
              destruct n; discriminate Hex. }
          { intros y Hy.
            pose proof Hok0 as Hok.
            rewrite Forall_forall in Hok. specialize (Hok y Hy).
            pose proof Hev as [Hw Hin].
            assert (Hcase : y = VNone \/ y <> VNone) by (destruct y; [left; reflexivity|right; discriminate..]).
            destruct Hcase as [->|Hyn].
            { assert (Ei : ienode c u ign n var VNone = e_prim var VNone) by (unfold ienode; destruct (v_tokens_factory var); reflexivity).
              rewrite Ei. split; [unfold RoundtripGen.e_prim; eauto|apply (plain_nil var)]. }
            apply (item_ok_inv c u ok n var y Hyn) in Hok. unfold ienode.
            pose proof (noq_occ var x y Hnx Hy) as Hny.
            destruct (wf_elem_inv var Hw) as [_ [_ [[k [Hty [Hcl Htf]]]|[[t [Hty [Hst Hcl]]]|[[Hty [_ Htf3]]|[Hty [_ [Htf3 _]]]]]]]].
            4:{ rewrite Htf3 in *. destruct (fits_item_any c u ok _ var y Hty Hok) as [sx [-> [Hp _]]].
                cbn [RoundtripGen.e_item]. split; [unfold RoundtripGen.e_prim; eauto|].
                apply (plain_prim var TStr). apply vs_leaf. exact Hp. }
            3:{ rewrite Htf3 in *. destruct (fits_item_qname c u ok _ var y Hty Hok) as [q1 [-> _]]. discriminate Hny. }
            - pose proof (Hexy k y Hcl Htf Hy Hyn) as Hey.
              rewrite Htf in *. destruct (fits_item_class c u ok _ var k y Hty Hok) as [cl' [fs' [-> Hfk0]]].
              assert (Ecl : cl' = k).
              { destruct n as [|n']; [discriminate Hey|]. cbn [exact_classes] in Hey. apply andb_true_iff in Hey as [Hey _].
                apply N.eqb_eq in Hey. exact Hey. }
              subst cl'.
              assert (Hfk : fits n k (VObj k fs') = true).
              { destruct Hfk0 as [[_ H]|[Hd _]]; [exact H|].
                destruct (derived_ok_inv c u ok var k k Hd) as [Hne _]. congruence. }
              cbn [RoundtripGen.e_item].
              assert (Ex : xsi_for u var k = None).
              { unfold xsi_for. rewrite Hty. cbn [existsb ptype_eqb]. rewrite N.eqb_refl. reflexivity. }
              rewrite Ex, add_xsi_e_none. split.
              + destruct n as [|n']; [discriminate Hfk|].
                destruct (fits_inv c u ok py_isspace n' k _ Hfk) as [fs'' [mk [E [Hmk _]]]]. inversion E; subst.
                cbn [RoundtripGen.eobj]. rewrite Hmk. cbn [add_nil_e]. eauto.
              + apply (IH k); [|exact Hfk|exact Hny|exact Hey|apply (nil_ok_item c u ok var k k fs' n Hty Hok Hfk)].
                apply (Hnest _ var k Hin (or_introl eq_refl) Hcl).
            - destruct (v_tokens_factory var) as [tf|] eqn:Etf.
              + destruct (fits_tokens_inv c u ok py_isspace var tf y t Hty Hok) as [tp [l [-> [_ [Htk _]]]]].
                split; [unfold RoundtripGen.e_prim; eauto|]. apply (plain_prim var t). apply vs_tokens. exact Htk.
              + destruct (fits_item_simple c u ok _ var t y Hty Hst Hok) as [p [-> Hp]].
                cbn [RoundtripGen.e_item]. split; [unfold RoundtripGen.e_prim; eauto|].
                apply (plain_prim var t). apply vs_leaf. exact Hp. } }
          assert (Hitems : In e (map (ienode c u ign n var) (occ var x)) ->
                    (exists q a k, e = EElem q a k) /\ plain_tree e = true).
          { intros Hi. apply in_map_iff in Hi as [y [<- Hy]]. apply Hitem. exact Hy. }
          assert (He' : In e (RoundtripGen.e_wrap var (map (ienode c u ign n var) (occ var x)))).
          { destruct x; try exact He. destruct (v_nillable var); [exact He|destruct He]. }
          clear He. rename He' into He.
          unfold RoundtripGen.e_wrap in He; destruct (v_wrapper_qname var) as [[|ch w]|];
             [apply Hitems; exact He| |apply Hitems; exact He].
          all: destruct He as [<-|[]]; split; [eauto|].
          all: cbn [plain_tree forallb map nodup_by andb].
          all: destruct (map (ienode c u ign n var) (occ var _)) as [|k1 r] eqn:Em; [reflexivity|].
          all: assert (Hk1 : (exists q a k, k1 = EElem q a k) /\ plain_tree k1 = true)
            by (assert (Hin1 : In k1 (k1 :: r)) by (left; reflexivity); rewrite <- Em in Hin1;
                apply in_map_iff in Hin1 as [y [<- Hy]]; apply Hitem; exact Hy).
          all: destruct Hk1 as [[q1 [a1 [kk ->]]] _].
          all: apply forallb_forall; intros e' He'; rewrite <- Em in He';
            apply in_map_iff in He' as [y [<- Hy]]; apply Hitem; exact Hy. }
        destruct (flat_map _ (pairs cl fs m)) as [|k1 r] eqn:Ek; [reflexivity|].
        destruct (Hall k1 (or_introl eq_refl)) as [[q1 [a1 [kk ->]]] _].
        apply forallb_forall. intros e He. apply Hall. exact He.
  Qed.
End Plain.
