(* Proofs/ConvQName.v — QNameConverter against xs:QName / XML Namespaces. *)
From Coq Require Import NArith ZArith List Bool Lia.
From XV Require Import Base.Str Base.Dec Base.PyInt Base.Eqb Gen.PyUnicode Gen.ConvTables
  Model.ConvQName Model.ConvGuards Spec.XsdPrims Proofs.ConvLemmas Proofs.ConvBytes.
Import ListNotations.
Open Scope N_scope.

(* ---- characters ------------------------------------------------------------ *)
(* inclusion of code point range lists, decided on the end points *)
Definition ranges_subset (A B : list (N * N)) : bool :=
  forallb (fun r => existsb (fun r' => (fst r' <=? fst r) && (snd r <=? snd r')) B) A.

Lemma ranges_subset_sound A B c :
  ranges_subset A B = true ->
  existsb (fun r => (fst r <=? c) && (c <=? snd r)) A = true ->
  existsb (fun r => (fst r <=? c) && (c <=? snd r)) B = true.
Proof.
  unfold ranges_subset. rewrite forallb_forall. intros S H.
  apply existsb_exists in H as [r [Hr Hc]]. specialize (S r Hr).
  apply existsb_exists in S as [r' [Hr' Hs]]. apply existsb_exists. exists r'. split; [exact Hr'|].
  apply andb_true_iff in Hc as [C1 C2]. apply andb_true_iff in Hs as [S1 S2].
  apply N.leb_le in C1, C2, S1, S2. apply andb_true_iff. split; apply N.leb_le; lia.
Qed.

Lemma ncname_start_char c : ncname_start c = true -> ncname_char c = true.
Proof. apply ranges_subset_sound. vm_compute. reflexivity. Qed.

Lemma ncname_char_neq c x : ncname_char x = false -> ncname_char c = true -> c <> x.
Proof. intros Hx Hc ->. congruence. Qed.

Lemma nc_not_colon : ncname_char 58 = false. Proof. vm_compute. reflexivity. Qed.
Lemma nc_not_space : ncname_char 32 = false. Proof. vm_compute. reflexivity. Qed.
Lemma nc_not_lbrace : ncname_char 123 = false. Proof. vm_compute. reflexivity. Qed.

Lemma is_ncname_chars s : is_ncname s = true -> s <> [] /\ forallb ncname_char s = true.
Proof.
  destruct s as [|c r]; [discriminate|]. cbn [is_ncname forallb]. intros H.
  apply andb_true_iff in H as [Hc Hr]. split; [discriminate|]. rewrite (ncname_start_char c Hc), Hr. reflexivity.
Qed.

Lemma forallb_not_mem (p : N -> bool) x s : p x = false -> forallb p s = true -> mem x s = false.
Proof.
  intros Hx H. destruct (mem x s) eqn:E; [|reflexivity]. apply mem_In in E.
  rewrite forallb_forall in H. specialize (H x E). congruence.
Qed.

Lemma is_ncname_name_ok s : is_ncname s = true -> name_ok s = true.
Proof.
  intros H. unfold name_ok. rewrite H. destruct (is_ncname_chars s H) as [_ Hc].
  rewrite (forallb_not_mem ncname_char 32 s nc_not_space Hc). reflexivity.
Qed.

Lemma py_strip_id s :
  s <> [] -> py_isspace (hd 0 s) = false -> py_isspace (last s 0) = false -> py_strip s = s.
Proof.
  intros Hne Hh Hl. pose proof (strip_by_wrap_hd_last py_isspace [] s [] eq_refl eq_refl Hne Hh Hl) as A.
  cbn [app] in A. rewrite app_nil_r in A. exact A.
Qed.

Lemma forallb_hd (p : N -> bool) s : s <> [] -> forallb p s = true -> p (hd 0 s) = true.
Proof. destruct s; [congruence|]. cbn. intros _ H. apply andb_true_iff in H. tauto. Qed.

Lemma forallb_last (p : N -> bool) s : s <> [] -> forallb p s = true -> p (last s 0) = true.
Proof. intros Hne H. rewrite forallb_forall in H. apply H, last_in, Hne. Qed.

(* ---- partition / text.split --------------------------------------------------- *)
Lemma partition1_absent sep s : mem sep s = false -> partition1 sep s = (s, []).
Proof.
  induction s as [|c r IH]; [reflexivity|]. cbn [mem existsb partition1]. intros H.
  apply orb_false_iff in H as [Hc Hr]. rewrite N.eqb_sym in Hc. rewrite Hc.
  unfold mem in IH. rewrite (IH Hr). reflexivity.
Qed.

Lemma partition1_at sep a b : mem sep a = false -> partition1 sep (a ++ sep :: b) = (a, b).
Proof.
  induction a as [|c r IH]; cbn [app partition1 mem existsb]; intros H.
  - rewrite N.eqb_refl. reflexivity.
  - apply orb_false_iff in H as [Hc Hr]. rewrite N.eqb_sym in Hc. rewrite Hc.
    unfold mem in IH. rewrite (IH Hr). reflexivity.
Qed.

Lemma text_split_absent sep s : mem sep s = false -> text_split sep s = (None, s).
Proof. intros H. unfold text_split. rewrite partition1_absent by exact H. reflexivity. Qed.

Lemma text_split_at sep a b : mem sep a = false -> b <> [] -> text_split sep (a ++ sep :: b) = (Some a, b).
Proof.
  intros H Hb. unfold text_split. rewrite partition1_at by exact H. destruct b; [congruence|reflexivity].
Qed.

(* ---- prefix maps ---------------------------------------------------------------- *)
Lemma okey_eqb_spec a b : okey_eqb a b = true <-> a = b.
Proof. apply opt_eqb_spec. apply str_eqb_eq. Qed.

Lemma okey_eqb_refl a : okey_eqb a a = true.
Proof. apply okey_eqb_spec. reflexivity. Qed.

Lemma ns_get_env k m : ns_get k m = env_lookup k m.
Proof.
  induction m as [|[k' v] r IH]; [reflexivity|]. cbn [ns_get env_lookup].
  replace (opt_str_eqb k' k) with (okey_eqb k' k) by (destruct k', k; reflexivity).
  rewrite IH. reflexivity.
Qed.

Lemma ns_get_set_same k v m : ns_get k (ns_set k v m) = Some v.
Proof.
  induction m as [|[k' v'] r IH]; cbn [ns_set ns_get].
  - rewrite okey_eqb_refl. reflexivity.
  - destruct (okey_eqb k' k) eqn:E; cbn [ns_get]; rewrite E; [reflexivity|exact IH].
Qed.

Lemma ns_set_nonempty k v m : ns_set k v m <> [].
Proof. destruct m as [|[k' v'] r]; cbn; [discriminate|]. destruct (okey_eqb k' k); discriminate. Qed.

Lemma find_prefix_get u m p :
  nodup_keys m = true -> find_prefix u m = Some p -> ns_get p m = Some u /\ m <> []
  /\ In p (map fst m).
Proof.
  induction m as [|[k v] r IH]; cbn [find_prefix nodup_keys ns_get]; [discriminate|].
  intros Hn H. apply andb_true_iff in Hn as [Hk Hr].
  destruct (str_eqb_spec v u) as [->|Hv].
  - inversion H; subst. rewrite okey_eqb_refl. repeat split; [discriminate|left; reflexivity].
  - destruct (IH Hr H) as [G [_ I]]. split; [|split; [discriminate|right; exact I]].
    destruct (okey_eqb k p) eqn:E; [|exact G]. exfalso.
    apply okey_eqb_spec in E. subst k. apply negb_true_iff in Hk.
    assert (X : existsb (fun e => okey_eqb (fst e) p) r = true).
    { apply existsb_exists. apply in_map_iff in I as [e [E1 E2]]. exists e. split; [exact E2|].
      rewrite E1. apply okey_eqb_refl. }
    congruence.
Qed.

Lemma wf_nsmap_key m p : wf_nsmap m = true -> In p (map fst m) -> wf_prefix_key p = true.
Proof.
  unfold wf_nsmap. intros H I. apply andb_true_iff in H as [H _]. rewrite forallb_forall in H.
  apply in_map_iff in I as [e [E1 E2]]. subst p. apply H, E2.
Qed.

(* ---- resolving a (prefix, local) spelling ------------------------------------------ *)
Definition qlex (po : option str) (local : str) : str :=
  match po with None => local | Some p => p ++ [58] ++ local end.

Definition lookup_uri (po : option str) (m : option nsmap) : option str :=
  match m with
  | Some (e :: mm) => ns_get po (e :: mm)
  | _ => None
  end.

(* a name that survives str.strip(): see Model.ConvGuards.name_edges_ok *)
Definition good_name (s : str) : bool := is_ncname s && name_edges_ok s.
Definition good_prefix (po : option str) : Prop := match po with None => True | Some p => good_name p = true end.

Lemma good_name_parts s :
  good_name s = true -> is_ncname s = true /\ py_isspace (hd 0 s) = false /\ py_isspace (last s 0) = false.
Proof.
  unfold good_name, name_edges_ok. intros H. apply andb_true_iff in H as [H1 H2].
  apply andb_true_iff in H2 as [H2 H3]. apply negb_true_iff in H2, H3. auto.
Qed.

Lemma qlex_facts po local :
  good_name local = true -> good_prefix po ->
  qlex po local <> [] /\ ncname_char (hd 0 (qlex po local)) = true
  /\ py_isspace (hd 0 (qlex po local)) = false /\ py_isspace (last (qlex po local) 0) = false.
Proof.
  intros Hl Hp. destruct (good_name_parts local Hl) as [Nl [Lh Ll]].
  destruct (is_ncname_chars local Nl) as [Ln Lc]. destruct po as [p|]; cbn [qlex].
  - destruct (good_name_parts p Hp) as [Np [Ph _]]. destruct (is_ncname_chars p Np) as [Pn Pc].
    split; [destruct p; [congruence|discriminate]|]. split; [|split].
    + destruct p as [|c r]; [congruence|]. cbn. cbn in Pc. apply andb_true_iff in Pc. tauto.
    + destruct p as [|c r]; [congruence|]. exact Ph.
    + rewrite last_app_nonempty by discriminate.
      rewrite last_app_nonempty by exact Ln. exact Ll.
  - split; [exact Ln|]. split; [apply forallb_hd; assumption|]. split; assumption.
Qed.

Lemma resolve_qlex po local m a b :
  good_name local = true -> good_prefix po ->
  forallb xml_ws a = true -> forallb xml_ws b = true ->
  qname_resolve (a ++ qlex po local ++ b) m
  = if truthy po && negb (truthy (lookup_uri po m)) then None else Some (lookup_uri po m, local).
Proof.
  intros Hl Hp Ha Hb. destruct (qlex_facts po local Hl Hp) as [Qn [Qc [Qh Ql]]].
  destruct (good_name_parts local Hl) as [Nl _].
  unfold qname_resolve, py_strip.
  rewrite strip_by_wrap_hd_last; try assumption.
  2: eapply forallb_impl; [apply xml_ws_py_isspace|exact Ha].
  2: eapply forallb_impl; [apply xml_ws_py_isspace|exact Hb].
  destruct (qlex po local) as [|c rest] eqn:E; [congruence|]. cbn [hd] in Qc.
  destruct (N.eqb_spec c 123) as [->|_]; [rewrite nc_not_lbrace in Qc; discriminate|].
  rewrite <- E.
  assert (TS : text_split 58 (qlex po local) = (po, local)).
  { destruct (is_ncname_chars local Nl) as [Ln Lc]. destruct po as [p|]; cbn [qlex].
    - destruct (good_name_parts p Hp) as [Np _]. destruct (is_ncname_chars p Np) as [_ Pc].
      apply text_split_at; [|exact Ln].
      apply (forallb_not_mem ncname_char 58 p nc_not_colon Pc).
    - apply text_split_absent. apply (forallb_not_mem ncname_char 58 local nc_not_colon Lc). }
  rewrite TS. fold (lookup_uri po m).
  rewrite (is_ncname_name_ok local Nl). reflexivity.
Qed.

(* ---- acceptance of xs:QName literals -------------------------------------------------- *)
Lemma spec_start_in_model : ranges_subset xml_name_start_ranges ncname_start_ranges = true.
Proof. vm_compute. reflexivity. Qed.
Lemma spec_char_in_model : ranges_subset (xml_name_start_ranges ++ xml_name_extra_ranges) ncname_char_ranges = true.
Proof. vm_compute. reflexivity. Qed.

(* is_ncname covers the NCName production (since /repo 4e4ae03) *)
Lemma xsd_ncname_accepted s : xsd_ncname s = true -> is_ncname s = true.
Proof.
  destruct s as [|c r]; [discriminate|]. cbn [xsd_ncname is_ncname]. intros H.
  apply andb_true_iff in H as [Hc Hr]. apply andb_true_iff. split.
  - apply (ranges_subset_sound _ _ c spec_start_in_model Hc).
  - eapply forallb_impl; [|exact Hr]. intros x Hx. apply (ranges_subset_sound _ _ x spec_char_in_model).
    unfold xml_ncname_char, in_cp_ranges in Hx. rewrite existsb_app. exact Hx.
Qed.

(* every xs:QName literal whose prefix is bound (any XML whitespace around it) is
   accepted with the expanded name XML Namespaces assigns, unless str.strip() eats
   its first or last character *)
Lemma qname_accepts_xsd q env a b v :
  wf_qname q = true -> val_qname env q = Some v -> qname_sp_edge_guard q = true ->
  forallb xml_ws a = true -> forallb xml_ws b = true ->
  qname_deser (a ++ lex_qname q ++ b) (Some env) = Some (expanded_name v).
Proof.
  intros Hwf Hv Hg Ha Hb. destruct q as [po local]. unfold wf_qname, qname_sp_edge_guard in *.
  cbn [q_prefix q_local] in *. apply andb_true_iff in Hwf as [Wl Wp]. apply andb_true_iff in Hg as [Gl Gp].
  assert (Nl : good_name local = true) by (unfold good_name; rewrite (xsd_ncname_accepted local Wl), Gl; reflexivity).
  assert (Np : good_prefix po).
  { destruct po as [p|]; [|exact I]. cbn. unfold good_name. rewrite (xsd_ncname_accepted p Wp), Gp. reflexivity. }
  unfold qname_deser. change (lex_qname (mk_qname_sp po local)) with (qlex po local).
  rewrite resolve_qlex by assumption.
  unfold val_qname in Hv. cbn [q_prefix q_local] in Hv.
  destruct po as [p|]; rewrite <- ns_get_env in Hv.
  - destruct (ns_get (Some p) env) as [[|c u]|] eqn:G; try discriminate. injection Hv as <-.
    assert (L : lookup_uri (Some p) (Some env) = Some (c :: u)).
    { destruct env; [discriminate|exact G]. }
    rewrite L. destruct (good_name_parts p Np) as [Np' _]. destruct (is_ncname_chars p Np') as [Pn _].
    destruct p; [congruence|]. reflexivity.
  - cbn [truthy andb]. assert (L : lookup_uri None (Some env) = ns_get None env) by (destruct env; reflexivity).
    rewrite L. destruct (ns_get None env) as [[|c u]|]; injection Hv as <-; reflexivity.
Qed.

(* the unguarded statement is false: U+1680 is a NameStartChar and Python whitespace *)
Lemma qname_accepts_xsd_refuted :
  exists q env v, wf_qname q = true /\ val_qname env q = Some v
                  /\ qname_deser (lex_qname q) (Some env) <> Some (expanded_name v).
Proof.
  exists (mk_qname_sp None [120; 5760]), [], (None, [120; 5760]).
  split; [vm_compute; reflexivity|]. split; [vm_compute; reflexivity|]. vm_compute. discriminate.
Qed.

Example qname_accepts_guard_nonvacuous :
  let q := mk_qname_sp (Some [112; 45; 113]) [97; 769; 3634; 183; 8255] in
  wf_qname q = true /\ qname_sp_edge_guard q = true
  /\ qname_deser ([32; 10] ++ lex_qname q ++ [9]) (Some [(Some [112; 45; 113], [117;114;110;58;97])])
     = Some ([123;117;114;110;58;97;125] ++ [97; 769; 3634; 183; 8255]).
Proof. cbv zeta. repeat split; vm_compute; reflexivity. Qed.

(* ---- round trip --------------------------------------------------------------------------- *)
Lemma clark_nonempty uri local : local <> [] -> clark uri local <> [].
Proof. destruct uri as [[|c u]|]; cbn; try tauto; discriminate. Qed.

Lemma ncname_hd_not_lbrace local : is_ncname local = true -> match local with 123 :: _ => False | _ => True end.
Proof.
  intros H. destruct (is_ncname_chars local H) as [Ln Lc]. destruct local as [|c r]; [exact I|].
  cbn in Lc. apply andb_true_iff in Lc as [Hc _].
  destruct c as [|p]; [exact I|]. do 7 (destruct p; try exact I). vm_compute in Hc. discriminate.
Qed.

Lemma split_qname_local local : is_ncname local = true -> split_qname local = (None, local).
Proof.
  intros H. pose proof (ncname_hd_not_lbrace local H) as B. unfold split_qname.
  destruct local as [|c r]; [reflexivity|]. destruct c as [|p]; [reflexivity|].
  do 7 (destruct p; try reflexivity). contradiction.
Qed.

Lemma split_qname_clark c u local :
  mem 125 (c :: u) = false -> local <> [] ->
  split_qname ([123] ++ (c :: u) ++ [125] ++ local) = (Some (c :: u), local).
Proof.
  intros Hu Hl. cbn [app split_qname].
  pose proof (text_split_at 125 (c :: u) local Hu Hl) as T. cbn [app] in T. rewrite T. reflexivity.
Qed.

Lemma resolve_local local m :
  good_name local = true ->
  qname_resolve local m = Some (lookup_uri None m, local).
Proof.
  intros H. pose proof (resolve_qlex None local m [] [] H I eq_refl eq_refl) as R.
  cbn [qlex app truthy andb] in R. rewrite app_nil_r in R. exact R.
Qed.

Lemma resolve_prefixed pc pr local m :
  good_name local = true -> good_name (pc :: pr) = true ->
  qname_resolve (pc :: pr ++ 58 :: local) m
  = if negb (truthy (lookup_uri (Some (pc :: pr)) m)) then None else Some (lookup_uri (Some (pc :: pr)) m, local).
Proof.
  intros H Hp. pose proof (resolve_qlex (Some (pc :: pr)) local m [] [] H Hp eq_refl eq_refl) as R.
  cbn [qlex app] in R. rewrite app_nil_r in R. rewrite R. reflexivity.
Qed.

Lemma resolve_clark c u local :
  good_name local = true -> mem 125 (c :: u) = false -> is_uri (Some (c :: u)) = true ->
  qname_resolve ([123] ++ (c :: u) ++ [125] ++ local) None = Some (Some (c :: u), local).
Proof.
  intros Hg Hu Hi. destruct (good_name_parts local Hg) as [Hl [_ Ll]].
  destruct (is_ncname_chars local Hl) as [Ln Lc]. unfold qname_resolve.
  rewrite py_strip_id.
  - cbn [app]. cbn [N.eqb Pos.eqb].
    pose proof (text_split_at 125 (c :: u) local Hu Ln) as T. cbn [app] in T. rewrite T. rewrite Hi. cbn [negb].
    rewrite (is_ncname_name_ok local Hl). reflexivity.
  - discriminate.
  - reflexivity.
  - rewrite last_app_nonempty by discriminate.
    rewrite last_app_nonempty by discriminate.
    rewrite last_app_nonempty by exact Ln. exact Ll.
Qed.

Lemma standard_prefixes_ok : forallb (fun r => good_name (snd r)) standard_namespaces = true.
Proof. vm_compute. reflexivity. Qed.

Lemma assoc_str_in k l v : assoc_str k l = Some v -> In (k, v) l.
Proof.
  induction l as [|[k' v'] r IH]; cbn; [discriminate|].
  destruct (str_eqb_spec k' k) as [->|]; intros H; [inversion H; left; reflexivity|right; apply IH, H].
Qed.

Lemma digit_ncname_char c : is_ascii_digit c = true -> ncname_char c = true.
Proof.
  intros H. pose proof H as R. apply is_ascii_digit_range in R.
  assert (T : forallb (fun c => negb (is_ascii_digit c) || ncname_char c) (upto 128) = true) by (vm_compute; reflexivity).
  pose proof (forall_lt _ 128 T c ltac:(lia)) as P. cbn beta in P. rewrite H in P. exact P.
Qed.

Lemma generated_prefix_ok n : good_name (generated_prefix_stem ++ to_dec n) = true.
Proof.
  assert (S : generated_prefix_stem = [110; 115]) by reflexivity. rewrite S.
  unfold good_name. apply andb_true_iff. split.
  - cbn [app is_ncname]. apply andb_true_iff. split; [vm_compute; reflexivity|].
    cbn [forallb]. apply andb_true_iff. split; [vm_compute; reflexivity|].
    eapply forallb_impl; [|apply to_dec_digits]. apply digit_ncname_char.
  - unfold name_edges_ok. cbn [app hd]. apply andb_true_iff. split; [vm_compute; reflexivity|].
    change (110 :: 115 :: to_dec n) with ([110; 115] ++ to_dec n).
    rewrite last_app_nonempty by apply to_dec_nonempty.
    rewrite (ascii_digit_not_space _ (all_digits_last _ (to_dec_digits n) (to_dec_nonempty n))). reflexivity.
Qed.

Lemma free_prefix_ok fuel : forall n m, good_name (free_prefix fuel n m) = true.
Proof.
  induction fuel as [|k IH]; intros n m; cbn [free_prefix]; [apply generated_prefix_ok|].
  destruct (ns_has (Some (generated_prefix_stem ++ to_dec n)) m); [apply IH|apply generated_prefix_ok].
Qed.

Lemma generate_prefix_ok u m p m' :
  generate_prefix u m = (p, m') -> good_name p = true /\ m' = ns_set (Some p) u m.
Proof.
  unfold generate_prefix. remember (assoc_str u standard_namespaces) as o eqn:E.
  intros H. injection H as <- <-. split; [|reflexivity].
  pose proof (free_prefix_ok (S (length m)) (N.of_nat (length m)) m) as FP.
  destruct o as [sp|]; [|exact FP].
  symmetry in E. apply assoc_str_in in E. pose proof standard_prefixes_ok as T. rewrite forallb_forall in T.
  specialize (T _ E). cbn [snd] in T.
  destruct (ns_get (Some sp) m) as [x|]; [destruct (str_eqb x u)|]; try exact T; exact FP.
Qed.

(* serialize then deserialize under the resulting prefix map gives the QName back *)
Ltac use_lookup L :=
  match goal with |- context [lookup_uri ?a ?b] =>
    let T := type of L in
    match T with _ = ?v => replace (lookup_uri a b) with v by (symmetry; exact L) end
  end.

Lemma qname_roundtrip uri local m :
  qname_rt_guard uri local m = true ->
  exists s m', qname_ser (qname_text uri local) m = Some (s, m')
               /\ qname_deser s m' = Some (qname_text uri local).
Proof.
  unfold qname_rt_guard, qname_rt_inputs_ok, qname_text. intros G.
  apply andb_true_iff in G as [G Gedge]. apply andb_true_iff in G as [G Gd]. apply andb_true_iff in G as [G Gc].
  apply andb_true_iff in G as [G Gm]. apply andb_true_iff in G as [Hn Gu].
  assert (Hl : good_name local = true) by (unfold good_name; rewrite Hn; exact Gedge).
  destruct (is_ncname_chars local Hn) as [Ln Lc].
  destruct m as [mm|].
  - (* with a prefix map *)
    destruct uri as [[|c u]|]; [discriminate| |].
    + (* namespace-qualified *)
      apply negb_true_iff in Gu.
      unfold qname_ser. cbn [clark]. rewrite split_qname_clark by assumption.
      cbn [app]. unfold load_prefix.
      unfold wf_nsmap in Gm. pose proof Gm as Gm'. apply andb_true_iff in Gm' as [_ Nd].
      destruct (find_prefix (c :: u) mm) as [p|] eqn:F.
      * destruct (find_prefix_get _ _ _ Nd F) as [Gt [Mn Ip]].
        pose proof (wf_nsmap_key mm p Gm Ip) as Wp.
        assert (L : lookup_uri p (Some mm) = Some (c :: u)) by (destruct mm; [congruence|exact Gt]).
        destruct p as [[|pc pr]|]; [discriminate Wp| |].
        -- eexists. eexists. split; [reflexivity|]. unfold qname_deser.
           rewrite (resolve_prefixed pc pr local (Some mm) Hl Wp). use_lookup L. reflexivity.
        -- eexists. eexists. split; [reflexivity|]. unfold qname_deser.
           rewrite (resolve_local local (Some mm) Hl). use_lookup L. reflexivity.
      * destruct (generate_prefix (c :: u) mm) as [p m'] eqn:Ge.
        destruct (generate_prefix_ok _ _ _ _ Ge) as [Pp ->].
        destruct (good_name_parts p Pp) as [Pp' _]. destruct (is_ncname_chars p Pp') as [Pn _].
        destruct p as [|pc pr]; [congruence|].
        eexists. eexists. split; [reflexivity|]. unfold qname_deser.
        rewrite (resolve_prefixed pc pr local _ Hl Pp).
        assert (L : lookup_uri (Some (pc :: pr)) (Some (ns_set (Some (pc :: pr)) (c :: u) mm)) = Some (c :: u)).
        { pose proof (ns_set_nonempty (Some (pc :: pr)) (c :: u) mm) as Ne.
          pose proof (ns_get_set_same (Some (pc :: pr)) (c :: u) mm) as Gs.
          destruct (ns_set (Some (pc :: pr)) (c :: u) mm); [congruence|exact Gs]. }
        use_lookup L. reflexivity.
    + (* no namespace: the map must not have a default namespace *)
      unfold qname_ser. cbn [clark]. rewrite (split_qname_local local Hn).
      destruct local as [|l0 lr] eqn:El; [congruence|]. rewrite <- El in *.
      eexists. eexists. split; [reflexivity|]. unfold qname_deser.
      rewrite (resolve_local local (Some mm) Hl).
      unfold qname_rt_clause_default, no_default_ns in Gd. apply negb_true_iff in Gd.
      assert (L : truthy (lookup_uri None (Some mm)) = false) by (destruct mm; [reflexivity|exact Gd]).
      destruct (lookup_uri None (Some mm)) as [[|x y]|]; try reflexivity. discriminate.
  - (* Clark notation *)
    unfold qname_ser. eexists. eexists. split; [reflexivity|]. unfold qname_deser.
    destruct uri as [[|c u]|]; [discriminate| |].
    + apply negb_true_iff in Gu. unfold qname_rt_clause_clark, clark_uri_ok in Gc. cbn [clark].
      rewrite (resolve_clark c u local Hl Gu Gc). reflexivity.
    + cbn [clark]. rewrite (resolve_local local None Hl). reflexivity.
Qed.

(* ---- is_uri accepts every plain ASCII namespace name (since fix 7c20cbc: '-' is
   in the character classes of URI_REGEX) -------------------------------------------------- *)
Lemma uri_plain_char_in_class c : uri_plain_char c = true -> in_ranges c uri_chars = true.
Proof.
  intros H.
  assert (L : c < 128).
  { unfold uri_plain_char in H. rewrite !orb_true_iff, !andb_true_iff, !N.leb_le in H.
    destruct H as [[[H|H]|H]|H]; try lia. apply mem_In in H. cbn in H.
    repeat (destruct H as [<-|H]; [lia|]). destruct H. }
  assert (T : forallb (fun c => negb (uri_plain_char c) || in_ranges c uri_chars) (upto 128) = true)
    by (vm_compute; reflexivity).
  pose proof (forall_lt _ 128 T c L) as P. cbn beta in P. rewrite H in P. exact P.
Qed.

Lemma uri_splits_end : forall b a_rev,
  opt_part uri_part1 (rev a_rev ++ b) = true -> uri_splits a_rev b = true.
Proof.
  induction b as [|c t IH]; intros a_rev H.
  - cbn [uri_splits]. rewrite app_nil_r in H. rewrite H. reflexivity.
  - cbn [uri_splits]. rewrite (IH (c :: a_rev)); [apply orb_true_r|].
    cbn [rev]. rewrite <- app_assoc. exact H.
Qed.

Lemma slashes_chars_all k y :
  nonempty_all (fun c => in_ranges c uri_chars) y = true -> slashes_chars k y = true.
Proof. intros H. destruct k; cbn [slashes_chars]; rewrite H; reflexivity. Qed.

Lemma is_uri_accepts_plain u : spec_uri_plain u = true -> is_uri (Some u) = true.
Proof.
  unfold spec_uri_plain. intros H. apply andb_true_iff in H as [Hn Hc].
  destruct u as [|c r]; [discriminate|]. unfold is_uri, uri_search, uri_full.
  rewrite uri_splits_end; [reflexivity|]. cbn [rev app opt_part]. unfold uri_part1.
  rewrite slashes_chars_all; [reflexivity|]. unfold nonempty_all.
  eapply forallb_impl; [|exact Hc]. apply uri_plain_char_in_class.
Qed.

(* Clark notation round trip for every plain ASCII namespace name *)
Lemma qname_roundtrip_clark_plain u local :
  spec_uri_plain u = true -> is_ncname local = true -> name_edges_ok local = true ->
  qname_deser (qname_text (Some u) local) None = Some (qname_text (Some u) local)
  /\ qname_ser (qname_text (Some u) local) None = Some (qname_text (Some u) local, None).
Proof.
  intros Hu Hl He. split; [|reflexivity].
  assert (G : qname_rt_guard (Some u) local None = true).
  { unfold qname_rt_guard, qname_rt_inputs_ok, qname_rt_clause_clark, qname_rt_clause_default, clark_uri_ok, qname_rt_clause_edges.
    rewrite Hl, He, (is_uri_accepts_plain u Hu). cbn [andb]. rewrite !andb_true_r.
    pose proof Hu as Hu'. unfold spec_uri_plain in Hu'. apply andb_true_iff in Hu' as [Hn Hc].
    destruct u as [|c r]; [discriminate|].
    rewrite (forallb_not_mem uri_plain_char 125 (c :: r)); [reflexivity|reflexivity|exact Hc]. }
  destruct (qname_roundtrip (Some u) local None G) as [s [m' [S D]]].
  cbn in S. inversion S; subst. exact D.
Qed.

Example is_uri_accepts_xsi :
  spec_uri_plain [104;116;116;112;58;47;47;119;119;119;46;119;51;46;111;114;103;47;50;48;48;49;47;88;77;76;83;99;104;101;109;97;45;105;110;115;116;97;110;99;101] = true.
Proof. vm_compute. reflexivity. Qed.

(* ---- the unguarded round trip is false: one witness per remaining guard clause ----------- *)
(* clause clark_uri_ok: is_uri only knows ASCII URI references (an IRI here) *)
Lemma qname_roundtrip_clark_refuted :
  exists u local, is_ncname local = true /\
    forall s m', qname_ser (qname_text (Some u) local) None = Some (s, m') -> qname_deser s m' = None.
Proof.
  exists [117;114;110;58;252], [120].
  split; [vm_compute; reflexivity|]. intros s m' H. vm_compute in H. inversion H; subst. vm_compute. reflexivity.
Qed.

(* clause name_edges_ok: str.strip() eats U+1680, an XML NameStartChar *)
Lemma qname_roundtrip_edges_refuted :
  exists local, is_ncname local = true /\
    exists s m', qname_ser (qname_text None local) None = Some (s, m')
                 /\ qname_deser s m' <> Some (qname_text None local).
Proof.
  exists [120; 5760]. split; [vm_compute; reflexivity|].
  eexists. eexists. split; [vm_compute; reflexivity|]. vm_compute. discriminate.
Qed.

(* clause no_default_ns *)
Lemma qname_roundtrip_default_refuted :
  exists local m, is_ncname local = true /\ wf_nsmap m = true /\
    exists s m', qname_ser (qname_text None local) (Some m) = Some (s, m')
                 /\ qname_deser s m' <> Some (qname_text None local).
Proof.
  exists [120], [(None, [117;114;110;58;100])]. split; [vm_compute; reflexivity|]. split; [vm_compute; reflexivity|].
  eexists. eexists. split; [vm_compute; reflexivity|]. vm_compute. discriminate.
Qed.

Example qname_roundtrip_guard_nonvacuous :
  qname_rt_guard (Some [117;114;110;58;97]) [233;46;98] (Some [(None, [117;114;110;58;100]); (Some [112], [117;114;110;58;98])]) = true
  /\ qname_rt_guard (Some [117;114;110;58;97]) [120] None = true
  /\ qname_rt_guard None [120] (Some [(Some [112], [117;114;110;58;98])]) = true.
Proof. repeat split; vm_compute; reflexivity. Qed.
