(* Proofs/SampleBase.v — basic facts about Model/Sample.v used by the C13 proofs:
   attr keys (what Attr.__eq__ compares), find_idx, insert_at, remove_at. *)
From Coq Require Import NArith ZArith List Bool Lia Permutation.
From XV Require Import Base.Str Base.Eqb Gen.SampleTables Model.Sample Model.SampleCorr.
Import ListNotations.
Open Scope N_scope.

Lemma ostr_eqb_eq a b : ostr_eqb a b = true <-> a = b.
Proof. unfold ostr_eqb. apply opt_eqb_spec. apply str_eqb_eq. Qed.

(* ------------------------------------------------------------------ keys *)
Definition key (a : attr) : str * str * option str := (a_tag a, a_name a, a_ns a).

Lemma attr_eqb_key a b : attr_eqb a b = true <-> key a = key b.
Proof.
  unfold attr_eqb, key. rewrite !andb_true_iff, !str_eqb_eq, ostr_eqb_eq. split.
  - intros [[-> ->] ->]. reflexivity.
  - intros E. inversion E. auto.
Qed.

Lemma attr_eqb_false_key a b : attr_eqb a b = false <-> key a <> key b.
Proof.
  split.
  - intros H E. apply attr_eqb_key in E. congruence.
  - intros H. destruct (attr_eqb a b) eqn:E; [|reflexivity]. apply attr_eqb_key in E. contradiction.
Qed.

Lemma attr_eqb_refl a : attr_eqb a a = true.
Proof. apply attr_eqb_key. reflexivity. Qed.

Lemma attr_eqb_sym a b : attr_eqb a b = attr_eqb b a.
Proof.
  destruct (attr_eqb a b) eqn:E1, (attr_eqb b a) eqn:E2; try reflexivity.
  - apply attr_eqb_key in E1. apply attr_eqb_false_key in E2. congruence.
  - apply attr_eqb_key in E2. apply attr_eqb_false_key in E1. congruence.
Qed.

Lemma attr_eqb_congr a a' b : key a = key a' -> attr_eqb a b = attr_eqb a' b.
Proof.
  intros E. destruct (attr_eqb a b) eqn:E1, (attr_eqb a' b) eqn:E2; try reflexivity.
  - apply attr_eqb_key in E1. apply attr_eqb_false_key in E2. congruence.
  - apply attr_eqb_key in E2. apply attr_eqb_false_key in E1. congruence.
Qed.

Lemma attr_eqb_congr_r a b b' : key b = key b' -> attr_eqb a b = attr_eqb a b'.
Proof. intros E. rewrite (attr_eqb_sym a b), (attr_eqb_sym a b'). apply attr_eqb_congr. exact E. Qed.

Definition keys (l : list attr) := map key l.

Lemma key_eq_dec (x y : str * str * option str) : {x = y} + {x <> y}.
Proof.
  destruct x as [[t1 n1] s1], y as [[t2 n2] s2].
  destruct (str_eqb_spec t1 t2); [|right; congruence].
  destruct (str_eqb_spec n1 n2); [|right; congruence].
  destruct s1 as [u1|], s2 as [u2|]; try (right; congruence).
  - destruct (str_eqb_spec u1 u2); [left|right]; congruence.
  - left; congruence.
Qed.

Lemma in_keys l a : In (key a) (keys l) <-> exists x, In x l /\ key x = key a.
Proof. unfold keys. rewrite in_map_iff. split; intros [x [H1 H2]]; exists x; auto. Qed.

Lemma NoDup_keys_inj l x y : NoDup (keys l) -> In x l -> In y l -> key x = key y -> x = y.
Proof.
  induction l as [|a l IH]; cbn; [contradiction|]. intros ND Hx Hy E. inversion ND as [|? ? Hn ND']; subst.
  destruct Hx as [<-|Hx], Hy as [<-|Hy]; auto.
  - exfalso. apply Hn. rewrite E. apply in_map. exact Hy.
  - exfalso. apply Hn. rewrite <- E. apply in_map. exact Hx.
Qed.

(* ------------------------------------------------------------------ find_idx *)
Lemma find_idx_Some l a i : find_idx l a = Some i -> exists x, nth_error l i = Some x /\ key x = key a.
Proof.
  revert i. induction l as [|y l IH]; cbn; [discriminate|]. intros i.
  destruct (attr_eqb y a) eqn:E.
  - intros [= <-]. exists y. split; [reflexivity|]. apply attr_eqb_key. exact E.
  - destruct (find_idx l a) as [j|]; cbn; [|discriminate]. intros [= <-]. apply IH. reflexivity.
Qed.

Lemma find_idx_None l a : find_idx l a = None <-> ~ In (key a) (keys l).
Proof.
  induction l as [|y l IH]; cbn; [tauto|].
  destruct (attr_eqb y a) eqn:E.
  - split; [discriminate|]. intros H. exfalso. apply H. left. apply attr_eqb_key. exact E.
  - apply attr_eqb_false_key in E. destruct (find_idx l a) as [j|]; cbn.
    + split; [discriminate|]. intros H. exfalso. destruct IH as [_ IH].
      assert (Some j = None) by (apply IH; intros Hin; apply H; right; exact Hin). discriminate.
    + split; [|reflexivity]. intros _ [H|H]; [contradiction|]. destruct IH as [IH _]. apply IH; auto.
Qed.

Lemma find_idx_first l a i x : find_idx l a = Some i -> nth_error l i = Some x ->
  forall j y, nth_error l j = Some y -> key y = key a -> (i <= j)%nat.
Proof.
  revert i. induction l as [|z l IH]; cbn; [discriminate|]. intros i.
  destruct (attr_eqb z a) eqn:E.
  - intros [= <-] _ j y _ _. lia.
  - destruct (find_idx l a) as [k|] eqn:F; cbn; [|discriminate]. intros [= <-] Hn j y Hj Ey.
    destruct j as [|j]; cbn in *.
    + inversion Hj; subst. apply attr_eqb_false_key in E. contradiction.
    + apply le_n_S. eapply IH; eauto.
Qed.

(* find with a boolean key test *)
Lemma find_attr_some c k a : find_attr c k = Some a -> In a (c_attrs c) /\ key a = key k.
Proof.
  unfold find_attr. intros H. apply find_some in H as [H1 H2]. split; [exact H1|]. apply attr_eqb_key. exact H2.
Qed.

Lemma find_attr_in_nodup c k a : NoDup (keys (c_attrs c)) -> In a (c_attrs c) -> key a = key k -> find_attr c k = Some a.
Proof.
  unfold find_attr. intros ND Hin E.
  destruct (find (fun a0 => attr_eqb a0 k) (c_attrs c)) as [b|] eqn:F.
  - apply find_some in F as [Hb Eb]. apply attr_eqb_key in Eb. f_equal. eapply NoDup_keys_inj; eauto. congruence.
  - exfalso. eapply find_none in F; eauto. apply attr_eqb_false_key in F. contradiction.
Qed.

Lemma find_attr_congr c k k' : key k = key k' -> find_attr c k = find_attr c k'.
Proof.
  intros E. unfold find_attr. induction (c_attrs c) as [|a l IH]; cbn; [reflexivity|].
  rewrite (attr_eqb_congr_r a k k' E). destruct (attr_eqb a k'); [reflexivity|exact IH].
Qed.

(* ------------------------------------------------------------------ insert_at / remove_at *)
Lemma insert_at_perm {A} pos (ins l : list A) : Permutation (insert_at pos ins l) (ins ++ l).
Proof.
  revert pos. induction l as [|x l IH]; intros [|p]; cbn; try reflexivity.
  - rewrite app_nil_r. reflexivity.
  - rewrite IH. apply Permutation_middle.
Qed.

Lemma remove_at_incl {A} pos (l : list A) x : In x (remove_at pos l) -> In x l.
Proof.
  revert pos. induction l as [|y l IH]; intros [|p]; cbn; auto.
  intros [H|H]; auto. right. eapply IH. exact H.
Qed.

Lemma remove_at_keep {A} pos (l : list A) x y : nth_error l pos = Some x -> In y l -> y <> x -> In y (remove_at pos l).
Proof.
  revert pos. induction l as [|z l IH]; intros [|p]; cbn; try discriminate.
  - intros [= ->] [H|H] Hne; [congruence|exact H].
  - intros Hn [H|H] Hne; [left; exact H|right; eapply IH; eauto].
Qed.

Lemma remove_at_sublist_keys pos (l : list attr) : NoDup (keys l) -> NoDup (keys (remove_at pos l)).
Proof.
  revert pos. induction l as [|z l IH]; intros [|p]; cbn; auto; intros ND; inversion ND; subst; auto.
  constructor; [|apply IH; assumption].
  intros H. apply H1. unfold keys in *. apply in_map_iff in H as [x [E Hx]]. apply in_map_iff. exists x. split; [exact E|].
  eapply remove_at_incl. exact Hx.
Qed.

Lemma NoDup_keys_perm l l' : Permutation l l' -> NoDup (keys l) -> NoDup (keys l').
Proof. intros P. apply Permutation_NoDup. unfold keys. apply Permutation_map. exact P. Qed.

Lemma NoDup_keys_app l1 l2 : NoDup (keys l1) -> NoDup (keys l2) -> (forall x, In x (keys l1) -> ~ In x (keys l2)) ->
  NoDup (keys (l1 ++ l2)).
Proof.
  intros H1 H2 D. unfold keys in *. rewrite map_app. induction (map key l1) as [|k r IH]; cbn; [exact H2|].
  inversion H1; subst. constructor.
  - rewrite in_app_iff. intros [H|H]; [contradiction|]. eapply D; [left; reflexivity|exact H].
  - apply IH; auto. intros x Hx. apply D. right. exact Hx.
Qed.

Lemma NoDup_keys_app_inv l1 l2 : NoDup (keys (l1 ++ l2)) ->
  NoDup (keys l1) /\ NoDup (keys l2) /\ (forall x, In x (keys l1) -> ~ In x (keys l2)).
Proof.
  unfold keys. rewrite map_app. generalize (map key l1) (map key l2). clear. intros a b.
  induction a as [|k r IH]; cbn; intros H.
  - split; [constructor|]. split; [exact H|]. intros x [].
  - inversion H; subst. destruct (IH H3) as [Ha [Hb D]]. split; [|split; [exact Hb|]].
    + constructor; [|exact Ha]. intros Hin. apply H2. apply in_app_iff. left. exact Hin.
    + intros x [<-|Hx]; [|apply D; exact Hx]. intros Hin. apply H2. apply in_app_iff. right. exact Hin.
Qed.

(* ------------------------------------------------------------------ type lists, by qualified name *)
Definition tmem (q : str) (l : list atype) : bool := existsb (fun u => str_eqb (ty_qname u) q) l.
Definition tsub (l1 l2 : list atype) : Prop := forall q, tmem q l1 = true -> tmem q l2 = true.

Lemma tsub_refl l : tsub l l.
Proof. intros q H. exact H. Qed.

Lemma tsub_trans a b c : tsub a b -> tsub b c -> tsub a c.
Proof. intros H1 H2 q H. apply H2, H1, H. Qed.

Lemma tmem_app q l1 l2 : tmem q (l1 ++ l2) = tmem q l1 || tmem q l2.
Proof. unfold tmem. apply existsb_app. Qed.

Lemma str_eqb_sym a b : str_eqb a b = str_eqb b a.
Proof. destruct (str_eqb_spec a b), (str_eqb_spec b a); congruence. Qed.

Lemma tmem_cons q t l : tmem q (t :: l) = str_eqb (ty_qname t) q || tmem q l.
Proof. reflexivity. Qed.

Lemma tmem_unique_aux q : forall l seen,
  tmem q (unique_types_aux seen l) = tmem q l && negb (existsb (str_eqb q) seen).
Proof.
  induction l as [|t r IH]; intros seen; cbn [unique_types_aux]; [reflexivity|].
  rewrite tmem_cons.
  destruct (existsb (str_eqb (ty_qname t)) seen) eqn:E.
  - rewrite IH. destruct (str_eqb (ty_qname t) q) eqn:Q; [|reflexivity]. apply str_eqb_eq in Q. subst q.
    rewrite E. cbn. rewrite andb_false_r. reflexivity.
  - rewrite tmem_cons, IH. cbn [existsb]. destruct (str_eqb (ty_qname t) q) eqn:Q; cbn [orb].
    + apply str_eqb_eq in Q. subst q. rewrite E. reflexivity.
    + rewrite (str_eqb_sym q (ty_qname t)), Q. reflexivity.
Qed.

Lemma tmem_unique q l : tmem q (unique_types l) = tmem q l.
Proof. unfold unique_types. rewrite tmem_unique_aux. cbn. apply andb_true_r. Qed.

Lemma tmem_map_forward q l :
  tmem q (map (fun t => mk_atype (ty_qname t) (ty_native t) false) l) = tmem q l.
Proof. unfold tmem. induction l as [|t r IH]; cbn; [reflexivity|]. rewrite IH. reflexivity. Qed.
