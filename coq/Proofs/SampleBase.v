(* Proofs/SampleBase.v — basic facts about Model/Sample.v used by the C13 proofs. *)
From Coq Require Import NArith ZArith List Bool Lia.
From XV Require Import Base.Str Base.Eqb Gen.SampleTables Model.Sample Model.SampleCorr.
Import ListNotations.
Open Scope N_scope.

Lemma ostr_eqb_eq a b : ostr_eqb a b = true <-> a = b.
Proof. unfold ostr_eqb. apply opt_eqb_spec. apply str_eqb_eq. Qed.

Lemma attr_eqb_refl a : attr_eqb a a = true.
Proof.
  unfold attr_eqb. rewrite !str_eqb_refl. cbn.
  destruct (a_ns a); cbn; [apply str_eqb_refl|reflexivity].
Qed.

Lemma attr_eqb_sym a b : attr_eqb a b = attr_eqb b a.
Proof.
  unfold attr_eqb.
  assert (S : forall x y, str_eqb x y = str_eqb y x).
  { intros x y. destruct (str_eqb_spec x y), (str_eqb_spec y x); congruence. }
  rewrite (S (a_tag a)), (S (a_name a)). f_equal.
  destruct (a_ns a), (a_ns b); cbn; auto.
Qed.

Lemma attr_eqb_trans a b c : attr_eqb a b = true -> attr_eqb b c = true -> attr_eqb a c = true.
Proof.
  unfold attr_eqb. intros H1 H2.
  apply andb_true_iff in H1 as [H1 N1]. apply andb_true_iff in H1 as [T1 M1].
  apply andb_true_iff in H2 as [H2 N2]. apply andb_true_iff in H2 as [T2 M2].
  apply str_eqb_eq in T1, M1, T2, M2. apply ostr_eqb_eq in N1, N2.
  rewrite T1, T2, M1, M2, N1, N2. rewrite !str_eqb_refl. cbn.
  destruct (a_ns c); cbn; [apply str_eqb_refl|reflexivity].
Qed.
