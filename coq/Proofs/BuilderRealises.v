(* Proofs/BuilderRealises.v — the universe Builder.universe_of makes from a well-formed description
   realises that description in the sense of Proofs/EventGenSpec.v: get_attribute_vars /
   get_element_vars of every class are its attribute / content vars in declaration order. *)
From Coq Require Import NArith ZArith List Bool Lia.
From XV Require Import Base.Str Base.Eqb Model.Bind Model.EventGen Spec.MetaSpec Model.Builder
  Proofs.DictCodecBase Proofs.EventGenNames Proofs.EventGenFields Proofs.EventGenSpec Proofs.BuilderSort.
Import ListNotations.
Open Scope N_scope.

(* ---------------------------------------------------------------- insertion-ordered dictionaries *)
Lemma distinct_existsb (k : str) l : distinct (k :: l) = true -> existsb (str_eqb k) l = false /\ distinct l = true.
Proof. cbn. intros H. apply andb_true_iff in H as [H1 H2]. apply negb_true_iff in H1. auto. Qed.

Lemma alist_set_fresh {A} k (v : A) l :
  existsb (str_eqb k) (map fst l) = false -> alist_set k v l = l ++ [(k, v)].
Proof.
  induction l as [|[k' v'] l IH]; cbn; intros H; [reflexivity|].
  apply orb_false_iff in H as [Hk Hl]. rewrite Hk, IH by exact Hl. reflexivity.
Qed.

Lemma alist_append_fresh {A} k (v : A) l :
  existsb (str_eqb k) (map fst l) = false -> alist_append k v l = l ++ [(k, [v])].
Proof.
  induction l as [|[k' v'] l IH]; cbn; intros H; [reflexivity|].
  apply orb_false_iff in H as [Hk Hl]. rewrite Hk, IH by exact Hl. reflexivity.
Qed.

Lemma existsb_app_false (k : str) a b :
  existsb (str_eqb k) a = false -> existsb (str_eqb k) b = false -> existsb (str_eqb k) (a ++ b) = false.
Proof. intros Ha Hb. rewrite existsb_app, Ha, Hb. reflexivity. Qed.

(* fold over the vars, keeping those selected by `sel`, keyed by `key` *)
Lemma fold_set_distinct (sel : xvar -> bool) (key : xvar -> str) (V : list xvar) :
  forall acc,
    distinct (map fst acc ++ map key (filter sel V)) = true ->
    fold_left (fun a v => if sel v then alist_set (key v) v a else a) V acc
    = acc ++ map (fun v => (key v, v)) (filter sel V).
Proof.
  induction V as [|v V IH]; intros acc Hd; cbn [fold_left filter map]; [rewrite app_nil_r; reflexivity|].
  destruct (sel v) eqn:Es; [|apply IH; cbn [filter] in Hd; rewrite Es in Hd; exact Hd].
  cbn [filter] in Hd. rewrite Es in Hd. cbn [map] in Hd.
  assert (Hk : existsb (str_eqb (key v)) (map fst acc) = false).
  { clear IH. induction acc as [|[k0 v0] acc IHa]; [reflexivity|]. cbn [map fst app] in Hd.
    apply distinct_existsb in Hd as [H1 H2]. cbn [map fst existsb].
    rewrite existsb_app in H1. apply orb_false_iff in H1 as [_ H1]. cbn [existsb] in H1. apply orb_false_iff in H1 as [H1 _].
    rewrite str_eqb_sym, H1. cbn [orb]. apply IHa. exact H2. }
  rewrite alist_set_fresh by exact Hk. rewrite IH.
  - rewrite <- app_assoc. reflexivity.
  - rewrite map_app. cbn [map fst]. rewrite <- app_assoc. exact Hd.
Qed.

Lemma fold_append_distinct (sel : xvar -> bool) (key : xvar -> str) (V : list xvar) :
  forall acc,
    distinct (map fst acc ++ map key (filter sel V)) = true ->
    fold_left (fun a v => if sel v then alist_append (key v) v a else a) V acc
    = acc ++ map (fun v => (key v, [v])) (filter sel V).
Proof.
  induction V as [|v V IH]; intros acc Hd; cbn [fold_left filter map]; [rewrite app_nil_r; reflexivity|].
  destruct (sel v) eqn:Es; [|apply IH; cbn [filter] in Hd; rewrite Es in Hd; exact Hd].
  cbn [filter] in Hd. rewrite Es in Hd. cbn [map] in Hd.
  assert (Hk : existsb (str_eqb (key v)) (map fst acc) = false).
  { clear IH. induction acc as [|[k0 v0] acc IHa]; [reflexivity|]. cbn [map fst app] in Hd.
    apply distinct_existsb in Hd as [H1 H2]. cbn [map fst existsb].
    rewrite existsb_app in H1. apply orb_false_iff in H1 as [_ H1]. cbn [existsb] in H1. apply orb_false_iff in H1 as [H1 _].
    rewrite str_eqb_sym, H1. cbn [orb]. apply IHa. exact H2. }
  rewrite alist_append_fresh by exact Hk. rewrite IH.
  - rewrite <- app_assoc. reflexivity.
  - rewrite map_app. cbn [map fst]. rewrite <- app_assoc. exact Hd.
Qed.

(* ---------------------------------------------------------------- qualified names with different local parts differ *)
Lemma clark_local_inj n1 n2 l1 l2 :
  oplain n1 -> oplain n2 -> plain_name l1 = true -> plain_name l2 = true ->
  clark (some_ns n1) l1 = clark (some_ns n2) l2 -> l1 = l2.
Proof.
  intros H1 H2 P1 P2.
  assert (Hb : forall l r, plain_name l = true -> l = 123 :: r -> False).
  { intros l r P ->. unfold plain_name in P. apply negb_true_iff in P. cbn in P. discriminate P. }
  destruct n1 as [[|x1 r1]|], n2 as [[|x2 r2]|]; cbn [some_ns clark]; try (intros E; exact E);
    try (intros E; exfalso; cbn [app] in E; first [apply (Hb _ _ P1 E) | apply (Hb _ _ P2 (eq_sym E))]).
  intros E.
  assert (E' : (x1 :: r1) ++ 125 :: l1 = (x2 :: r2) ++ 125 :: l2) by (cbn [app] in E |- *; congruence).
  destruct (plain_ns_facts _ H1) as [_ B1 _]. destruct (plain_ns_facts _ H2) as [_ B2 _].
  assert (U1 := upto_brace_plain (x1 :: r1) l1 B1). assert (U2 := upto_brace_plain (x2 :: r2) l2 B2).
  rewrite E' in U1. rewrite U1 in U2. congruence.
Qed.

Lemma distinct_map_inj {A} (g h : A -> str) (l : list A) :
  distinct (map g l) = true ->
  (forall x y, In x l -> In y l -> h x = h y -> g x = g y) ->
  distinct (map h l) = true.
Proof.
  induction l as [|x l IH]; intros Hd Hinj; [reflexivity|].
  cbn [map] in *. apply distinct_existsb in Hd as [H1 H2]. cbn [distinct].
  rewrite IH; [|exact H2|intros a b Ha Hb; apply Hinj; right; assumption].
  rewrite andb_true_r. apply negb_true_iff.
  destruct (existsb (str_eqb (h x)) (map h l)) eqn:E; [|reflexivity].
  apply existsb_exists in E as [k [Hk Ek]]. apply str_eqb_eq in Ek. apply in_map_iff in Hk as [y [<- Hy]].
  assert (G : g x = g y) by (apply Hinj; [left; reflexivity|right; exact Hy|exact Ek]).
  assert (T : existsb (str_eqb (g x)) (map g l) = true).
  { apply existsb_exists. exists (g y). split; [apply in_map; exact Hy|rewrite G; apply str_eqb_refl]. }
  congruence.
Qed.

Section Realises.
  Variables (D : mdesc) (pns : cls -> option str).
  Hypothesis Hwf : wf_desc D = true.

  Lemma build_vars_incr cd P fl i :
    (forall f, In f fl -> fd_kind f <> KElements) ->
    incr i (build_vars i P (map (fun f => (cd, f)) fl)).
  Proof.
    revert i. induction fl as [|f fl IH]; intros i Hk; [exact I|]. cbn [map build_vars incr].
    split; [cbn [build_var v_index]; lia|].
    assert (E : fd_kind f <> KElements) by (apply Hk; left; reflexivity).
    assert (E2 : i + 1 + match fd_kind f with KElements => N.of_nat (length (fd_choices f)) | _ => 0 end = i + 1)
      by (destruct (fd_kind f); try contradiction; lia).
    rewrite E2. change (v_index (build_var (i + 1) _ f)) with (i + 1).
    apply IH. intros g Hg. apply Hk. right. exact Hg.
  Qed.

  (* selections of the vars of a class, in the terms of its fields *)
  Lemma select_qnames cns K fl V :
    (K = KElement \/ K = KAttribute) ->
    Forall2 (fun f v => v_kind v = fd_kind f /\ (fd_kind f <> KText -> v_qname v = field_qname f cns)) fl V ->
    map v_qname (filter (v_is K) V) = map (fun f => field_qname f cns) (filter (is_kind K) fl).
  Proof.
    intros HK HR. induction HR as [|f v fl' V' [Hk Hq] _ IH]; [reflexivity|].
    cbn [filter]. unfold v_is at 1, is_kind at 1. rewrite Hk.
    destruct HK as [->| ->]; destruct (fd_kind f) eqn:E; cbn [map]; try exact IH;
      (rewrite IH, Hq by discriminate; reflexivity).
  Qed.

  Lemma filter_nil {A} (p : A -> bool) l : (forall x, In x l -> p x = false) -> filter p l = [].
  Proof.
    induction l as [|x l IH]; intros H; [reflexivity|]. cbn. rewrite (H x (or_introl eq_refl)).
    apply IH. intros y Hy. apply H. right. exact Hy.
  Qed.

  Lemma map_snd_pairs {A B} (k : A -> B) l : map snd (map (fun v => (k v, v)) l) = l.
  Proof. induction l as [|x l IH]; [reflexivity|]. cbn. rewrite IH. reflexivity. Qed.

  Lemma flat_snd_singletons {A B} (k : A -> B) l : flat_map snd (map (fun v => (k v, [v])) l) = l.
  Proof. induction l as [|x l IH]; [reflexivity|]. cbn. rewrite IH. reflexivity. Qed.

  Lemma forall2_weaken {A B} (R S : A -> B -> Prop) l1 l2 :
    (forall x y, In x l1 -> R x y -> S x y) -> Forall2 R l1 l2 -> Forall2 S l1 l2.
  Proof.
    intros H HR. induction HR as [|x y l1' l2' Hxy _ IH]; constructor.
    - apply H; [left; reflexivity|exact Hxy].
    - apply IH. intros a b Ha. apply H. right. exact Ha.
  Qed.

  Theorem build_meta_realises cd :
    In cd (md_classes D) -> oplain (class_P pns cd) ->
    realises_class pns cd (build_meta D cd (pns (cd_id cd))).
  Proof.
    intros Hcd HoP. pose proof (wf_class_of D Hwf cd Hcd) as W.
    pose proof (class_vars_rel D pns Hwf cd Hcd) as HR.
    assert (HVF : Forall2 (fun f v => var_facts f (some_ns (class_P pns cd)) v) (cd_fields cd) (class_vars pns cd)).
    { apply (forall2_weaken (var_of pns cd)); [|exact HR]. intros f v Hf [i ->].
      apply (build_var_facts D); [apply (wfc_fields D cd W f Hf)|exact HoP]. }
    assert (Hkinds : forall v, In v (class_vars pns cd) ->
               v_kind v = KText \/ v_kind v = KElement \/ v_kind v = KAttribute).
    { intros v Hv. destruct (Forall2_in_r _ _ _ v HVF Hv) as [f [Hf VF]].
      rewrite (vf_kind f _ _ VF). apply (wff_kind D f (wf_field_inv D f (wfc_fields D cd W f Hf))). }
    assert (HQ : Forall2 (fun f v => v_kind v = fd_kind f /\ (fd_kind f <> KText -> v_qname v = field_qname f (some_ns (class_P pns cd))))
                         (cd_fields cd) (class_vars pns cd)).
    { apply (forall2_weaken (fun f v => var_facts f (some_ns (class_P pns cd)) v)); [|exact HVF].
      intros f v _ VF. split; [apply (vf_kind f _ _ VF)|apply (vf_qname f _ _ VF)]. }
    assert (Hincr : incr 0 (class_vars pns cd)).
    { apply build_vars_incr. intros f Hf.
      destruct (wff_kind D f (wf_field_inv D f (wfc_fields D cd W f Hf))) as [E|[E|E]]; rewrite E; discriminate. }
    (* distinct keys *)
    assert (Hdattr : distinct (map v_qname (filter (v_is KAttribute) (class_vars pns cd))) = true).
    { rewrite (select_qnames _ KAttribute _ _ (or_intror eq_refl) HQ).
      rewrite <- (wfc_attr_names D cd W). f_equal. apply map_ext_in. intros f Hf. apply filter_In in Hf as [_ Hk].
      unfold field_qname, field_ns. unfold is_kind in Hk. destruct (fd_kind f); try discriminate Hk. reflexivity. }
    assert (Hdelem : distinct (map v_qname (filter (v_is KElement) (class_vars pns cd))) = true).
    { rewrite (select_qnames _ KElement _ _ (or_introl eq_refl) HQ).
      apply (distinct_map_inj field_local); [apply (wfc_elem_names D cd W)|].
      intros f g Hf Hg E. apply filter_In in Hf as [Hf Hkf]. apply filter_In in Hg as [Hg Hkg].
      pose proof (wf_field_inv D f (wfc_fields D cd W f Hf)) as Wf.
      pose proof (wf_field_inv D g (wfc_fields D cd W g Hg)) as Wg.
      unfold field_qname in E.
      assert (Hpl : forall h, In h (cd_fields cd) -> plain_name (field_local h) = true).
      { intros h Hh. pose proof (wf_field_inv D h (wfc_fields D cd W h Hh)) as Wh. unfold field_local.
        pose proof (wff_xml_name D h Wh) as H1. destruct (fd_xml_name h) as [[|x r]|]; try apply (wff_gen D h Wh). exact H1. }
      assert (Hns : forall h, In h (cd_fields cd) -> is_kind KElement h = true ->
                    exists n, oplain n /\ field_ns h (some_ns (class_P pns cd)) = some_ns n).
      { intros h Hh Hk. pose proof (wf_field_inv D h (wfc_fields D cd W h Hh)) as Wh. unfold field_ns.
        unfold is_kind in Hk. destruct (fd_kind h); try discriminate Hk.
        pose proof (wff_ns D h Wh) as Hn. destruct (fd_namespace h) as [n|].
        - exists (Some n). split; [exact Hn|reflexivity].
        - exists (class_P pns cd). split; [exact HoP|reflexivity]. }
      destruct (Hns f Hf Hkf) as [n1 [O1 E1]]. destruct (Hns g Hg Hkg) as [n2 [O2 E2]].
      rewrite E1, E2 in E. apply (clark_local_inj n1 n2); try assumption; apply Hpl; assumption. }
    unfold build_meta. rewrite (all_fields_own _ D cd (wfc_base D cd W)).
    change (build_vars 0 (class_namespace cd (pns (cd_id cd))) (map (fun f => (cd, f)) (cd_fields cd))) with (class_vars pns cd).
    set (V := class_vars pns cd) in *.
    constructor.
    - reflexivity.
    - reflexivity.
    - (* attributes *)
      unfold get_attribute_vars. cbn [m_any_attributes m_attributes].
      rewrite (filter_nil (v_is KAttributes) V).
      2:{ intros v Hv. unfold v_is. destruct (Hkinds v Hv) as [E|[E|E]]; rewrite E; reflexivity. }
      rewrite (fold_set_distinct (v_is KAttribute) v_qname V []) by exact Hdattr.
      cbn [app]. rewrite map_snd_pairs.
      apply (sort_incr 0). apply incr_filter. exact Hincr.
    - (* content *)
      unfold get_element_vars. cbn [m_wildcards m_choices m_elements m_text].
      rewrite (filter_nil (v_is KWildcard) V), (filter_nil (v_is KElements) V).
      2:{ intros v Hv. unfold v_is. destruct (Hkinds v Hv) as [E|[E|E]]; rewrite E; reflexivity. }
      2:{ intros v Hv. unfold v_is. destruct (Hkinds v Hv) as [E|[E|E]]; rewrite E; reflexivity. }
      rewrite (fold_append_distinct (v_is KElement) v_qname V []) by exact Hdelem.
      cbn [app]. rewrite flat_snd_singletons.
      assert (Htext : match last_error (filter (v_is KText) V) with Some t => [t] | None => [] end = filter (v_is KText) V).
      { assert (Hlen : (length (filter (v_is KText) V) <= 1)%nat).
        { pose proof (wfc_one_text D cd W) as H1. apply Nat.leb_le in H1.
          assert (E : length (filter (v_is KText) V) = length (filter (is_kind KText) (cd_fields cd))).
          { clear - HQ. induction HQ as [|f v fl' V' [Hk _] _ IH]; [reflexivity|]. cbn [filter].
            unfold v_is at 1, is_kind at 1. rewrite Hk. destruct (fd_kind f); cbn [length]; rewrite ?IH; reflexivity. }
          rewrite E. exact H1. }
        destruct (filter (v_is KText) V) as [|t [|t2 r]]; try reflexivity. cbn in Hlen. lia. }
      rewrite Htext.
      rewrite (sort_two_filters (v_is KElement) (v_is KText) 0 V Hincr).
      + apply filter_ext_in. intros v Hv. unfold v_is. destruct (Hkinds v Hv) as [E|[E|E]]; rewrite E; reflexivity.
      + intros v Hv. unfold v_is. destruct (v_kind v); reflexivity.
  Qed.
End Realises.

(* ---------------------------------------------------------------- the universe *)
Lemma u_meta_universe_of D pns cd :
  distinctN (map cd_id (md_classes D)) = true -> In cd (md_classes D) ->
  u_meta (universe_of D pns) (cd_id cd) = Some (build_meta D cd (pns (cd_id cd))).
Proof.
  unfold u_meta, universe_of. cbn [u_metas]. generalize (md_classes D) as l.
  induction l as [|c0 l IH]; intros Hd Hin; [contradiction|].
  cbn [map distinctN] in Hd. apply andb_true_iff in Hd as [H1 H2]. cbn [map assocN].
  destruct Hin as [->|Hin]; [rewrite N.eqb_refl; reflexivity|].
  destruct (N.eqb_spec (cd_id cd) (cd_id c0)) as [E|_]; [|apply IH; assumption].
  exfalso. apply negb_true_iff in H1.
  assert (T : existsb (N.eqb (cd_id c0)) (map cd_id l) = true).
  { apply existsb_exists. exists (cd_id cd). split; [apply in_map; exact Hin|rewrite E; apply N.eqb_refl]. }
  congruence.
Qed.

(* ================================================================ the theorem *)
(* EventGenerator on the metadata XmlMetaBuilder makes of a description emits — up to the writer's
   xsi:nil rule — exactly the events the documentation prescribes for that description. *)
Theorem eventgen_matches_metadata (cv : conv) (D : mdesc) (pns : cls -> option str) (ign : bool) (o : value) :
  wf_desc D = true -> no_sequences D = true ->
  typed_value D (S (sdepth o)) o = true ->
  cache_consistent D pns (S (sdepth o)) None o = true ->
  exists evs, generate ign cv (universe_of D pns) o = Ok evs /\ norm_nil evs = spec_events cv D ign o.
Proof.
  intros Hwf Hns H1 H2.
  apply (generate_matches_spec cv D pns ign (universe_of D pns) Hwf Hns); try assumption.
  - intros cd Hcd HoP. exists (build_meta D cd (pns (cd_id cd))). split.
    + apply u_meta_universe_of; [|exact Hcd]. unfold wf_desc in Hwf.
      apply andb_true_iff in Hwf as [Hw _]. apply andb_true_iff in Hw as [_ Hw]. exact Hw.
    + apply build_meta_realises; assumption.
  - reflexivity.
  - apply sdepth_le_vdepth.
Qed.
