(* Proofs/GraphMisc.v — the remaining order-/label-sensitive cores of the generator:
   package assignment, sort_classes / create_class_list, native_types + sort_types,
   sequence renumbering, sorted imports. *)
From Coq Require Import NArith List Bool Arith Lia Permutation Sorted.
From XV Require Import Base.Str Gen.GraphTables Spec.GraphSpec Model.Graph Proofs.GraphBase Proofs.GraphTopo.
Import ListNotations.
Close Scope N_scope.
Open Scope nat_scope.

(* ====================================================================== assign *)
Section Assign.
  Context {A M : Type}.
  Variable eqb : A -> A -> bool.
  Hypothesis eqb_eq : forall x y, eqb x y = true <-> x = y.
  Let memb_In := memb_In eqb eqb_eq.
  Let memb_false := memb_false eqb eqb_eq.

  (* two groups that hold the same class give it the same module *)
  Definition consistent (gs : list (list A * M)) : Prop :=
    forall g1 g2 x, In g1 gs -> In g2 gs -> In x (fst g1) -> In x (fst g2) -> snd g1 = snd g2.

  Definition holds (q : A) (g : list A * M) : bool := memb eqb q (fst g).

  Lemma assign_all_char : forall gs (m : @amap A M) q,
    consistent gs ->
    (forall g, In g gs -> In q (fst g) -> assign_all eqb gs m q = Some (snd g)) /\
    ((forall g, In g gs -> ~ In q (fst g)) -> assign_all eqb gs m q = m q).
  Proof.
    induction gs as [|g r IH]; intros m q Hc.
    - split; [intros g [] | reflexivity].
    - assert (Hcr : consistent r).
      { intros g1 g2 x H1 H2. apply Hc; right; assumption. }
      destruct (IH (assign_one eqb m g) q Hcr) as [IH1 IH2].
      assert (Hunf : assign_all eqb (g :: r) m q = assign_all eqb r (assign_one eqb m g) q) by reflexivity.
      rewrite Hunf. split.
      + intros g0 Hg0 Hq.
        destruct (existsb (holds q) r) eqn:Ex.
        * apply existsb_exists in Ex. destruct Ex as [g' [Hg' Hh]]. unfold holds in Hh. apply memb_In in Hh.
          rewrite (IH1 g' Hg' Hh). f_equal. apply (Hc g' g0 q); [right; exact Hg' | exact Hg0 | exact Hh | exact Hq].
        * assert (Hno : forall g', In g' r -> ~ In q (fst g')).
          { intros g' Hg' Hin. apply memb_In in Hin.
            assert (existsb (holds q) r = true) by (apply existsb_exists; exists g'; split; assumption). congruence. }
          rewrite (IH2 Hno). destruct Hg0 as [->|Hg0]; [|exfalso; apply (Hno g0 Hg0 Hq)].
          unfold assign_one. apply memb_In in Hq. rewrite Hq. reflexivity.
      + intros Hno. rewrite IH2 by (intros g' Hg'; apply Hno; right; exact Hg').
        unfold assign_one. assert (Hq : memb eqb q (fst g) = false) by (apply memb_false; apply Hno; left; reflexivity).
        rewrite Hq. reflexivity.
  Qed.

  Lemma assign_all_perm gs gs' (m : @amap A M) :
    consistent gs -> Permutation gs gs' -> forall q, assign_all eqb gs m q = assign_all eqb gs' m q.
  Proof.
    intros Hc Hp q.
    assert (Hc' : consistent gs').
    { intros g1 g2 x H1 H2. apply Hc; apply (Permutation_in _ (Permutation_sym Hp)); assumption. }
    destruct (assign_all_char gs m q Hc) as [H1 H2]. destruct (assign_all_char gs' m q Hc') as [H1' H2'].
    destruct (existsb (holds q) gs) eqn:Ex.
    - apply existsb_exists in Ex. destruct Ex as [g [Hg Hh]]. unfold holds in Hh. apply memb_In in Hh.
      rewrite (H1 g Hg Hh). symmetry. apply H1'; [apply (Permutation_in _ Hp); exact Hg | exact Hh].
    - assert (Hno : forall g, In g gs -> ~ In q (fst g)).
      { intros g Hg Hin. apply memb_In in Hin.
        assert (existsb (holds q) gs = true) by (apply existsb_exists; exists g; split; assumption). congruence. }
      rewrite (H2 Hno). symmetry. apply H2'. intros g Hg. apply Hno. apply (Permutation_in _ (Permutation_sym Hp)). exact Hg.
  Qed.

  Lemma disjoint_consistent (gs : list (list A * M)) :
    NoDup (concat (map fst gs)) -> consistent gs.
  Proof.
    induction gs as [|g r IH]; cbn; intros Hn g1 g2 x H1 H2 Hx1 Hx2; [contradiction|].
    assert (Hr : NoDup (concat (map fst r))).
    { clear -Hn. induction (fst g) as [|y l IHl]; cbn in Hn; [exact Hn|]. inversion Hn; subst. apply IHl. assumption. }
    assert (Hd : forall g', In g' r -> In x (fst g) -> In x (fst g') -> False).
    { intros g' Hg' Ha Hb. clear -Hn Hg' Ha Hb.
      assert (Hc : In x (concat (map fst r))) by (apply in_concat; exists (fst g'); split; [apply in_map; exact Hg' | exact Hb]).
      induction (fst g) as [|y l IHl]; cbn in *; [contradiction|]. inversion Hn; subst.
      destruct Ha as [->|Ha]; [apply H1; apply in_or_app; right; exact Hc | apply IHl; assumption]. }
    destruct H1 as [<-|H1], H2 as [<-|H2].
    - reflexivity.
    - exfalso. apply (Hd g2 H2 Hx1 Hx2).
    - exfalso. apply (Hd g1 H1 Hx2 Hx1).
    - apply (IH Hr g1 g2 x); assumption.
  Qed.

  (* the order in which the (pairwise disjoint) groups are assigned is irrelevant *)
  Theorem assign_order_irrelevant gs gs' (m : @amap A M) :
    NoDup (concat (map fst gs)) -> Permutation gs gs' ->
    forall q, assign_all eqb gs m q = assign_all eqb gs' m q.
  Proof. intros Hn. apply assign_all_perm. apply disjoint_consistent. exact Hn. Qed.
End Assign.

(* ====================================================================== sort_classes *)
Section SortClasses.
  Context {A : Type}.
  Variable eqb : A -> A -> bool.
  Hypothesis eqb_eq : forall x y, eqb x y = true <-> x = y.
  Variable leb : A -> A -> bool.
  Hypothesis leb_total : forall x y, leb x y = false -> leb y x = true.
  Hypothesis leb_trans : forall x y z, leb x y = true -> leb y z = true -> leb x z = true.
  Hypothesis leb_antisym : forall x y, leb x y = true -> leb y x = true -> x = y.
  Let memb_In := memb_In eqb eqb_eq.

  Definition mkdict (f : A -> list A) (g : list A) : @dict A := map (fun q => (q, f q)) g.

  Lemma mkdict_keys f g : keys (mkdict f g) = g.
  Proof. unfold mkdict, keys. rewrite map_map. cbn. apply map_id. Qed.

  Lemma mkdict_dep f g k x : dep (mkdict f g) k x <-> In k g /\ In x (f k).
  Proof.
    unfold dep, mkdict. split.
    - intros [v [H Hx]]. apply in_map_iff in H. destruct H as [q [E Hq]]. inversion E; subst. split; assumption.
    - intros [Hk Hx]. exists (f k). split; [apply in_map_iff; exists k; split; [reflexivity | exact Hk] | exact Hx].
  Qed.

  Lemma mkdict_equiv f f' g g' :
    NoDup g -> NoDup g' -> seteq g g' -> (forall q, In q g -> seteq (f q) (f' q)) ->
    dict_equiv (mkdict f g) (mkdict f' g').
  Proof.
    intros Hn Hn' Hg Hf. unfold dict_equiv, iskey. rewrite !mkdict_keys.
    split; [exact Hn|]. split; [exact Hn'|]. split; [exact Hg|].
    intros k x. rewrite !mkdict_dep. rewrite <- (Hg k). split; intros [Hk Hx]; (split; [exact Hk|]); apply (Hf k Hk); exact Hx.
  Qed.

  Theorem sort_classes_perm_invariant deps deps' g g' :
    NoDup g -> NoDup g' -> seteq g g' -> (forall q, seteq (deps q) (deps' q)) ->
    sort_classes eqb leb deps g = sort_classes eqb leb deps' g'.
  Proof.
    intros Hn Hn' Hg Hd. unfold sort_classes.
    apply (toposort_flatten_perm_invariant eqb eqb_eq leb leb_total leb_trans leb_antisym).
    apply (mkdict_equiv (fun q => filter (fun x => memb eqb x g) (deps q)) (fun q => filter (fun x => memb eqb x g') (deps' q)));
      try assumption.
    intros q _ x. rewrite !filter_In. rewrite (Hd q x). rewrite (seteq_memb eqb eqb_eq g g' x Hg). tauto.
  Qed.

  Theorem create_class_list_perm_invariant deps deps' g g' :
    NoDup g -> NoDup g' -> seteq g g' -> (forall q, seteq (deps q) (deps' q)) ->
    create_class_list eqb leb deps g = create_class_list eqb leb deps' g'.
  Proof.
    intros Hn Hn' Hg Hd. unfold create_class_list.
    apply (toposort_flatten_perm_invariant eqb eqb_eq leb leb_total leb_trans leb_antisym).
    apply (mkdict_equiv deps deps'); try assumption. intros q _. apply Hd.
  Qed.

  (* sort_classes returns exactly the members of the group, once each *)
  Theorem sort_classes_members deps g l :
    NoDup g -> sort_classes eqb leb deps g = Ok l -> Permutation l g /\ NoDup l.
  Proof.
    intros Hn H. unfold sort_classes in H.
    pose (d := mkdict (fun q => filter (fun x => memb eqb x g) (deps q)) g). fold d in H.
    assert (Hk : keys d = g) by apply mkdict_keys.
    destruct (toposort_flatten_keys eqb eqb_eq leb d l) as [Hp Hl]; [rewrite Hk; exact Hn | exact H |].
    assert (Hx : extra_items eqb (discard_self eqb d) = []).
    { destruct (extra_items eqb (discard_self eqb d)) as [|x r] eqn:Ex; [reflexivity|]. exfalso.
      assert (Hin : In x (extra_items eqb (discard_self eqb d))) by (rewrite Ex; left; reflexivity).
      apply (extra_items_In eqb eqb_eq) in Hin. destruct Hin as [[k Hkx] Hnk].
      apply (discard_self_dep eqb eqb_eq) in Hkx. destruct Hkx as [Hkx _].
      unfold d in Hkx. apply mkdict_dep in Hkx. destruct Hkx as [_ Hxf]. apply filter_In in Hxf.
      destruct Hxf as [_ Hm]. apply memb_In in Hm. apply Hnk. unfold iskey. rewrite discard_self_keys, Hk. exact Hm. }
    rewrite Hx, app_nil_r, Hk in Hp. split; assumption.
  Qed.

  Theorem create_class_list_NoDup deps g l :
    NoDup g -> create_class_list eqb leb deps g = Ok l -> NoDup l.
  Proof.
    intros Hn H. unfold create_class_list in H.
    destruct (toposort_flatten_keys eqb eqb_eq leb (mkdict deps g) l) as [_ Hl]; [rewrite mkdict_keys; exact Hn | exact H | exact Hl].
  Qed.

  Lemma import_classes_NoDup (cl ks : list A) : NoDup cl -> NoDup (import_classes eqb cl ks).
  Proof. intros H. unfold import_classes. apply NoDup_filter. exact H. Qed.
End SortClasses.

(* ====================================================================== imports *)
Definition name_leb (a b : str * str) : bool := str_leb (snd a) (snd b).

Lemma NoDup_map_inj {T U} (f : T -> U) (l : list T) x y :
  NoDup (map f l) -> In x l -> In y l -> f x = f y -> x = y.
Proof.
  induction l as [|a l IH]; cbn; intros Hn Hx Hy E; [contradiction|].
  inversion Hn as [|? ? Ha Hn']; subst.
  destruct Hx as [->|Hx], Hy as [->|Hy].
  - reflexivity.
  - exfalso. apply Ha. rewrite E. apply in_map. exact Hy.
  - exfalso. apply Ha. rewrite <- E. apply in_map. exact Hx.
  - apply IH; assumption.
Qed.

Theorem imports_sorted_unique (imps : list (str * str)) :
  NoDup (map fst imps) ->
  Permutation (sorted_imports imps) imps /\ NoDup (map fst (sorted_imports imps)) /\
  StronglySorted (fun a b => name_leb a b = true) (sorted_imports imps).
Proof.
  intros Hn. unfold sorted_imports. split; [apply isort_perm|]. split.
  - eapply Permutation_NoDup; [|exact Hn]. apply Permutation_map. symmetry. apply isort_perm.
  - apply (isort_sorted name_leb).
    + intros x y _ _. unfold name_leb. apply str_leb_total.
    + intros x y z _ _ _. unfold name_leb. apply str_leb_trans.
Qed.

(* with pairwise distinct local names even the list order of self.imports is irrelevant;
   with equal names the (stable) sort keeps the class_list order, which is itself
   order-independent by create_class_list_perm_invariant *)
Theorem sorted_imports_perm_invariant (imps imps' : list (str * str)) :
  NoDup (map snd imps) -> Permutation imps imps' -> sorted_imports imps = sorted_imports imps'.
Proof.
  intros Hn Hp. unfold sorted_imports. apply isort_perm_eq; try exact Hp.
  - intros x y _ _. apply str_leb_total.
  - intros x y z _ _ _. apply str_leb_trans.
  - intros x y Hx Hy H1 H2. apply (NoDup_map_inj snd imps x y Hn Hx Hy). apply str_leb_antisym; assumption.
Qed.

(* ====================================================================== native types *)
Lemma str_eqb_eq' : forall x y : str, str_eqb x y = true <-> x = y.
Proof. exact str_eqb_eq. Qed.

Section Prio.
  (* generic in the table so that harmless edits of the table keep the proof *)
  Variable table : list (str * N).
  Variable dflt : N.
  Definition gprio (t : str) : N := match assoc_prio table t with Some p => p | None => dflt end.
  Definition gin_table (t : str) : bool := match assoc_prio table t with Some _ => true | None => false end.
  Definition table_ok : bool :=
    nodupb N.eqb (map snd table) && negb (existsb (N.eqb dflt) (map snd table)).

  Lemma assoc_prio_In t p : assoc_prio table t = Some p -> In (t, p) table.
  Proof.
    induction table as [|[k q] r IH]; cbn; [discriminate|].
    destruct (str_eqb t k) eqn:E.
    - intros H. inversion H; subst. apply str_eqb_eq in E. subst. left; reflexivity.
    - intros H. right. apply IH. exact H.
  Qed.

  Lemma N_eqb_eq' : forall x y : N, N.eqb x y = true <-> x = y.
  Proof. exact N.eqb_eq. Qed.

  Lemma gprio_inj_on (ord : list str) :
    table_ok = true ->
    length (filter (fun t => negb (gin_table t)) ord) <= 1 ->
    forall x y, In x ord -> In y ord -> gprio x = gprio y -> x = y.
  Proof.
    unfold table_ok. intros Hok Hg x y Hx Hy E.
    apply andb_true_iff in Hok. destruct Hok as [Hnd Hdf].
    apply (nodupb_NoDup N.eqb N_eqb_eq') in Hnd.
    assert (Hd : forall p, In p (map snd table) -> p <> dflt).
    { intros p Hp Ep. subst p. apply negb_true_iff in Hdf.
      assert (existsb (N.eqb dflt) (map snd table) = true) by (apply existsb_exists; exists dflt; split; [exact Hp | apply N.eqb_refl]).
      congruence. }
    unfold gprio in E.
    destruct (assoc_prio table x) as [p|] eqn:Ex, (assoc_prio table y) as [q|] eqn:Ey.
    - subst q. apply assoc_prio_In in Ex, Ey.
      assert (H := NoDup_map_inj snd table (x, p) (y, p) Hnd Ex Ey eq_refl). congruence.
    - exfalso. apply assoc_prio_In in Ex. apply (Hd p); [apply in_map_iff; exists (x, p); split; [reflexivity|exact Ex] | exact E].
    - exfalso. apply assoc_prio_In in Ey. apply (Hd q); [apply in_map_iff; exists (y, q); split; [reflexivity|exact Ey] | symmetry; exact E].
    - (* both outside the table: the guard leaves room for one only *)
      assert (Hfx : In x (filter (fun t => negb (gin_table t)) ord)) by (apply filter_In; split; [exact Hx | unfold gin_table; rewrite Ex; reflexivity]).
      assert (Hfy : In y (filter (fun t => negb (gin_table t)) ord)) by (apply filter_In; split; [exact Hy | unfold gin_table; rewrite Ey; reflexivity]).
      destruct (filter (fun t => negb (gin_table t)) ord) as [|a [|b r]]; cbn in *; try lia; try contradiction.
      destruct Hfx as [<-|[]], Hfy as [<-|[]]. reflexivity.
  Qed.
End Prio.

Lemma shortcut_is_2 : sort_types_shortcut = 2.
Proof. reflexivity. Qed.

Lemma real_table_ok : table_ok type_priority type_priority_default = true.
Proof. vm_compute. reflexivity. Qed.

Theorem sort_types_order_invariant (ord ord' : list str) :
  NoDup ord -> NoDup ord' -> seteq ord ord' -> native_guard ord = true ->
  sort_types ord = sort_types ord'.
Proof.
  intros Hn Hn' Hs Hg.
  assert (Hp : Permutation ord ord') by (apply NoDup_Permutation; assumption).
  unfold sort_types. rewrite <- (Permutation_length Hp). rewrite shortcut_is_2.
  destruct (Nat.ltb (length ord) 2) eqn:El.
  - apply Nat.ltb_lt in El. destruct ord as [|a [|b r]]; cbn in El; try lia.
    + apply Permutation_nil in Hp. subst. reflexivity.
    + apply Permutation_length_1_inv in Hp. subst. reflexivity.
  - apply isort_perm_eq; try exact Hp.
    + intros x y _ _. unfold prio_leb. rewrite !N.leb_gt, N.leb_le. lia.
    + intros x y z _ _ _. unfold prio_leb. rewrite !N.leb_le. lia.
    + intros x y Hx Hy H1 H2. unfold prio_leb in H1, H2. apply N.leb_le in H1, H2.
      apply (gprio_inj_on type_priority type_priority_default ord real_table_ok); try assumption.
      * unfold native_guard in Hg. apply Nat.leb_le in Hg. exact Hg.
      * change (prio x = prio y). lia.
Qed.

Definition ty_bytes : str := [98;121;116;101;115]%N.
Definition ty_object : str := [111;98;106;101;99;116]%N.
Definition ty_str : str := [115;116;114]%N.
Definition ty_int : str := [105;110;116]%N.

(* without the guard sort_types keeps the order of its argument for the {bytes, object} tie
   (a remark about the function; Attr.native_types no longer feeds it a set order) *)
Theorem sort_types_tie_refuted :
  exists ord ord', NoDup ord /\ NoDup ord' /\ seteq ord ord' /\ sort_types ord <> sort_types ord'.
Proof.
  exists [ty_bytes; ty_object], [ty_object; ty_bytes]. repeat split.
  - repeat constructor; cbn; intuition discriminate.
  - repeat constructor; cbn; intuition discriminate.
  - cbn. tauto.
  - cbn. tauto.
  - vm_compute. discriminate.
Qed.

(* the only python types of xsdata's DataType members outside the priority table *)
Lemma out_of_table_types :
  filter (fun t => negb (in_table t)) datatype_python_types = [ty_bytes; ty_object].
Proof. vm_compute. reflexivity. Qed.

(* ---- native_types: order-preserving de-duplication ---- *)
Lemma nub_In_str (l : list str) x : In x (nub str_eqb l) <-> In x l.
Proof.
  induction l as [|y l IH]; cbn; [tauto|]. rewrite filter_In, IH. split.
  - intros [->|[H _]]; [left; reflexivity | right; exact H].
  - intros [->|H]; [left; reflexivity|]. destruct (str_eqb_spec x y) as [->|Hn]; [left; reflexivity|].
    right. split; [exact H|]. apply negb_true_iff. destruct (str_eqb_spec x y); congruence.
Qed.

Lemma nub_NoDup_str (l : list str) : NoDup (nub str_eqb l).
Proof.
  induction l as [|y l IH]; cbn; [constructor|]. constructor.
  - rewrite filter_In. intros [_ H]. rewrite str_eqb_refl in H. discriminate.
  - apply NoDup_filter. exact IH.
Qed.

Lemma filter_all_id {T} (p : T -> bool) (l : list T) : (forall x, In x l -> p x = true) -> filter p l = l.
Proof.
  induction l as [|y l IH]; cbn; intros H; [reflexivity|].
  rewrite (H y (or_introl eq_refl)). f_equal. apply IH. intros x Hx. apply H. right. exact Hx.
Qed.

Lemma nub_id_str (l : list str) : NoDup l -> nub str_eqb l = l.
Proof.
  induction 1 as [|y l Hy _ IH]; cbn; [reflexivity|]. f_equal. rewrite IH.
  apply filter_all_id. intros x Hx. apply negb_true_iff.
  destruct (str_eqb_spec x y) as [->|_]; [contradiction | reflexivity].
Qed.

Lemma native_types_shape_ok : native_types_is_order_preserving = true.
Proof. reflexivity. Qed.

(* Attr.native_types is a function of the declared type list alone: the members, once each,
   in declared order (so an already duplicate-free declaration is returned unchanged) *)
Theorem native_types_declared_order (types : list str) :
  native_types_is_order_preserving = true /\
  NoDup (native_types types) /\ seteq (native_types types) types /\
  (NoDup types -> native_types types = types) /\
  native_types (native_types types) = native_types types.
Proof.
  split; [exact native_types_shape_ok|]. unfold native_types.
  split; [apply nub_NoDup_str|]. split; [intros x; apply nub_In_str|]. split; [apply nub_id_str|].
  apply nub_id_str. apply nub_NoDup_str.
Qed.

(* ... and sort_types of it is that list, stably sorted by priority *)
Theorem sorted_native_types_spec (types : list str) :
  Permutation (sorted_native_types types) (native_types types) /\
  StronglySorted (fun a b => prio_leb a b = true) (sorted_native_types types).
Proof.
  unfold sorted_native_types, sort_types. rewrite shortcut_is_2.
  destruct (Nat.ltb (length (native_types types)) 2) eqn:El.
  - split; [reflexivity|]. apply Nat.ltb_lt in El.
    destruct (native_types types) as [|a [|b r]]; cbn in El; try lia; repeat constructor.
  - split; [apply isort_perm|]. apply isort_sorted.
    + intros x y _ _. unfold prio_leb. rewrite !N.leb_gt, N.leb_le. lia.
    + intros x y z _ _ _. unfold prio_leb. rewrite !N.leb_le. lia.
Qed.

(* ====================================================================== sequence numbers *)
Open Scope N_scope.

Section Renumber.
  Variable f : N -> N.     (* another labelling: other id() values *)

  Lemma somes_map_truthy (attrs : list (option N)) :
    (forall x, In (Some x) attrs -> (f x = 0 <-> x = 0)) ->
    somes (map seq_truthy (map (option_map f) attrs)) = map f (somes (map seq_truthy attrs)).
  Proof.
    induction attrs as [|[n|] r IH]; intros Hz; [reflexivity| |].
    - assert (Hn := Hz n (or_introl eq_refl)).
      assert (IH' := IH (fun x Hx => Hz x (or_intror Hx))). clear IH.
      change (somes (seq_truthy (Some (f n)) :: map seq_truthy (map (option_map f) r))
              = map f (somes (seq_truthy (Some n) :: map seq_truthy r))).
      unfold seq_truthy at 1 3.
      destruct (N.eqb_spec n 0) as [->|Hne].
      + destruct (N.eqb_spec (f 0) 0) as [_|Hf]; [exact IH' | exfalso; apply Hf; apply Hn; reflexivity].
      + destruct (N.eqb_spec (f n) 0) as [Hf|_]; [exfalso; apply Hne; apply Hn; exact Hf|].
        cbn [somes map]. f_equal. exact IH'.
    - apply (IH (fun x Hx => Hz x (or_intror Hx))).
  Qed.

  Lemma nub_incl (l : list N) x : In x (nub N.eqb l) -> In x l.
  Proof.
    induction l as [|y l IH]; cbn; [tauto|]. intros [->|H]; [left; reflexivity|].
    apply filter_In in H. right. apply IH. apply H.
  Qed.

  Lemma filter_map_inj (r : list N) x :
    (forall y, In y r -> f y = f x -> y = x) ->
    filter (fun y => negb (N.eqb y (f x))) (map f r) = map f (filter (fun y => negb (N.eqb y x)) r).
  Proof.
    induction r as [|y r IHr]; intros Hi; [reflexivity|].
    assert (IH' := IHr (fun z Hz => Hi z (or_intror Hz))). clear IHr.
    assert (Ey : N.eqb (f y) (f x) = N.eqb y x).
    { destruct (N.eqb_spec y x) as [->|Hne]; [apply N.eqb_refl|].
      apply N.eqb_neq. intros E. apply Hne. apply Hi; [left; reflexivity | exact E]. }
    cbn [map filter]. rewrite Ey. destruct (N.eqb y x); cbn [negb map]; [exact IH' | f_equal; exact IH'].
  Qed.

  Lemma nub_map_inj (l : list N) :
    (forall x y, In x l -> In y l -> f x = f y -> x = y) -> nub N.eqb (map f l) = map f (nub N.eqb l).
  Proof.
    induction l as [|x l IH]; intros Hi; [reflexivity|].
    cbn [map nub]. f_equal. rewrite IH by (intros a b Ha Hb; apply Hi; right; assumption).
    apply filter_map_inj. intros y Hy E. apply Hi; [right; apply nub_incl; exact Hy | left; reflexivity | exact E].
  Qed.

  Lemma index_of_map_inj (l : list N) n :
    (forall x, In x l -> f x = f n -> x = n) -> index_of (map f l) (f n) = index_of l n.
  Proof.
    induction l as [|y l IH]; cbn; intros Hi; [reflexivity|].
    destruct (N.eqb_spec n y) as [->|Hne].
    - rewrite N.eqb_refl. reflexivity.
    - destruct (N.eqb_spec (f n) (f y)) as [E|_].
      + exfalso. apply Hne. symmetry. apply Hi; [left; reflexivity | symmetry; exact E].
      + f_equal. apply IH. intros x Hx. apply Hi. right. exact Hx.
  Qed.

  Lemma somes_truthy_In (attrs : list (option N)) n :
    In n (somes (map seq_truthy attrs)) -> In (Some n) attrs /\ n <> 0.
  Proof.
    induction attrs as [|[m|] r IH]; cbn; [tauto| |].
    - destruct (N.eqb_spec m 0) as [->|Hne]; cbn.
      + intros H. destruct (IH H). split; [right|]; assumption.
      + intros [->|H]; [split; [left; reflexivity | exact Hne]|]. destruct (IH H). split; [right|]; assumption.
    - intros H. destruct (IH H). split; [right|]; assumption.
  Qed.

  (* the generated sequence numbers do not depend on the id() values, as long as
     distinct compositors have distinct ids and no id is 0 *)
  Theorem sequence_renumbering_label_invariant (base attrs : list (option N)) :
    (forall x y, In (Some x) attrs -> In (Some y) attrs -> x <> 0 -> y <> 0 -> f x = f y -> x = y) ->
    (forall x, In (Some x) attrs -> (f x = 0 <-> x = 0)) ->
    reset_sequence_numbers base (map (option_map f) attrs) = reset_sequence_numbers base attrs.
  Proof.
    intros Hinj Hz. unfold reset_sequence_numbers, seq_groups.
    rewrite (somes_map_truthy attrs Hz).
    set (L := somes (map seq_truthy attrs)).
    assert (HL : forall x y, In x L -> In y L -> f x = f y -> x = y).
    { intros x y Hx Hy. destruct (somes_truthy_In attrs x Hx), (somes_truthy_In attrs y Hy). apply Hinj; assumption. }
    rewrite (nub_map_inj L HL). rewrite map_map. apply map_ext_in. intros s Hs.
    destruct s as [n|]; cbn; [|reflexivity].
    assert (Hn := Hz n Hs).
    destruct (N.eqb_spec n 0) as [->|Hne].
    - destruct (N.eqb_spec (f 0) 0) as [E|Hf]; [rewrite E; reflexivity | exfalso; apply Hf; apply Hn; reflexivity].
    - destruct (N.eqb_spec (f n) 0) as [Hf|_]; [exfalso; apply Hne; apply Hn; exact Hf|].
      f_equal. f_equal. f_equal. apply index_of_map_inj.
      intros x Hx E. apply nub_incl in Hx. destruct (somes_truthy_In attrs x Hx) as [Hx1 Hx2].
      apply Hinj; assumption.
  Qed.
End Renumber.

(* id() reuse: two distinct xs:sequence compositors that got the same id are merged *)
Theorem sequence_renumbering_collision_refuted :
  exists (f : N -> N) base attrs,
    reset_sequence_numbers base (map (option_map f) attrs) <> reset_sequence_numbers base attrs.
Proof.
  exists (fun _ => 7), [], [Some 11; Some 11; Some 12; Some 12]. vm_compute. discriminate.
Qed.
