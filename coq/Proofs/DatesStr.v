(* Proofs/DatesStr.v — XmlDuration / XmlPeriod are strings (UserString): the value keeps the stripped
   text it was built from, `str()` returns it.  "Formatting a valid value yields an XSD-valid string
   that parses back to an equal value" for these two types: the text is the lexical form itself
   and re-parsing it gives the same text and the same components. *)
From Coq Require Import NArith ZArith List Bool Lia.
From XV Require Import Base.Str Base.PyInt Model.Dates Model.DatesCorr Spec.XsdDates
  Proofs.DatesParse Proofs.DatesDuration Proofs.DatesPeriod.
Import ListNotations.

(* ---- str.strip is idempotent ---- *)
Lemma lstrip_by_split ws s : exists a, s = a ++ lstrip_by ws s /\ forallb ws a = true.
Proof.
  induction s as [|c r IH]; [exists []; split; reflexivity|].
  cbn [lstrip_by]. destruct (ws c) eqn:E.
  - destruct IH as [a [Ea Ha]]. exists (c :: a). split; [cbn; f_equal; exact Ea | cbn; rewrite E; exact Ha].
  - exists []. split; reflexivity.
Qed.

Lemma lstrip_by_head ws s :
  lstrip_by ws s = [] \/ exists c r, lstrip_by ws s = c :: r /\ ws c = false.
Proof.
  induction s as [|c r IH]; [left; reflexivity|].
  cbn [lstrip_by]. destruct (ws c) eqn:E; [exact IH | right; exists c, r; split; [reflexivity | exact E]].
Qed.

Lemma lstrip_by_idem ws s : lstrip_by ws (lstrip_by ws s) = lstrip_by ws s.
Proof.
  destruct (lstrip_by_head ws s) as [E | [c [r [E Hc]]]]; rewrite E; [reflexivity|].
  apply lstrip_by_nonws; exact Hc.
Qed.

(* stripping the right end of a string that starts with a non-space keeps that first character *)
Lemma rstrip_by_keeps_head ws c r : ws c = false -> exists r', rstrip_by ws (c :: r) = c :: r'.
Proof.
  intros Hc. unfold rstrip_by. cbn [rev].
  destruct (lstrip_by_split ws (rev r ++ [c])) as [a [Ea Ha]].
  destruct (lstrip_by ws (rev r ++ [c])) as [|x xs] eqn:EL.
  - rewrite app_nil_r in Ea. rewrite <- Ea in Ha. rewrite forallb_app in Ha.
    apply andb_prop in Ha. destruct Ha as [_ Ha]. cbn in Ha. rewrite Hc in Ha. discriminate.
  - assert (Hlast : exists u, x :: xs = u ++ [c]).
    { destruct (exists_last (l := x :: xs)) as [u [z Ez]]; [discriminate|].
      rewrite Ez in Ea. rewrite app_assoc in Ea. apply app_inj_tail in Ea. destruct Ea as [_ <-].
      exists u. exact Ez. }
    destruct Hlast as [u Eu]. rewrite Eu, rev_app_distr. cbn. eexists; reflexivity.
Qed.

Lemma strip_by_idem ws s : strip_by ws (strip_by ws s) = strip_by ws s.
Proof.
  unfold strip_by. destruct (lstrip_by_head ws s) as [E | [c [r [E Hc]]]]; rewrite E.
  - reflexivity.
  - destruct (rstrip_by_keeps_head ws c r Hc) as [r' ER]. rewrite ER.
    rewrite (lstrip_by_nonws ws c r' Hc). rewrite <- ER.
    unfold rstrip_by. rewrite rev_involutive, lstrip_by_idem. reflexivity.
Qed.

Lemma py_strip_idem s : py_strip (py_strip s) = py_strip s.
Proof. apply strip_by_idem. Qed.

(* ---- xs:duration ---- *)
(* str(XmlDuration(s)) = s.strip(); building the value again from that text gives the same text and the
   same components (the value compares equal as a string, which is how XmlDuration compares) *)
Theorem duration_str_roundtrip s :
  duration_str s = option_map (fun _ => py_strip s) (duration_parse s)
  /\ duration_parse (py_strip s) = duration_parse s
  /\ (forall t, duration_str s = Some t -> duration_str t = Some t).
Proof.
  assert (P : duration_parse (py_strip s) = duration_parse s).
  { unfold duration_parse. rewrite py_strip_idem. reflexivity. }
  split; [reflexivity|]. split; [exact P|].
  intros t. unfold duration_str. destruct (duration_parse s) eqn:E; [|discriminate].
  cbn [option_map]. intros [= <-]. rewrite P. cbn [option_map]. rewrite py_strip_idem. reflexivity.
Qed.

(* the text of a value built from an XSD lexical form is that lexical form: XSD-valid *)
Theorem duration_str_xsd d :
  wf_duration d = true -> digits_fit d -> duration_str (lex_duration d) = Some (lex_duration d).
Proof.
  intros W F. unfold duration_str. rewrite (duration_accepts d W F). cbn [option_map]. f_equal.
  destruct (body_last d W) as [p [c [Eb Hc]]].
  destruct (comp_letter_facts c Hc) as [Cs CT].
  pose proof (py_strip_wrap [] (lex_duration d) []) as S. cbn [app] in S. rewrite app_nil_r in S.
  apply S; try reflexivity. split.
  - rewrite lex_duration_body. destruct (du_sp_neg d); cbn [app]; eexists; eexists; (split; [reflexivity|vm_compute; reflexivity]).
  - rewrite lex_duration_body, Eb. exists ((if du_sp_neg d then [45%N] else []) ++ 80%N :: p), c.
    split; [|exact Cs]. rewrite <- app_assoc. reflexivity.
Qed.

(* ---- g* periods ---- *)
Theorem period_str_roundtrip s :
  period_parse (py_strip s) = period_parse s
  /\ (forall t, period_str s = Some t -> period_str t = Some t).
Proof.
  assert (P : period_parse (py_strip s) = period_parse s).
  { unfold period_parse. rewrite py_strip_idem. reflexivity. }
  split; [exact P|].
  intros t. unfold period_str. destruct (period_parse s) eqn:E; [|discriminate].
  cbn [option_map]. intros [= <-]. rewrite P. cbn [option_map]. rewrite py_strip_idem. reflexivity.
Qed.
