(* Proofs/GenericHolderW.v — C11 for holder classes through the faithful model of
   EventHandler.write (pending start tag, attribute dict, in_tail/tail, the xsi:nil
   pop of flush_start, is_xsi_type re-encoding). *)
From Coq Require Import NArith ZArith List Bool Lia.
From XV Require Import Base.Str Base.Eqb Base.PyInt Gen.GenericTables Spec.Infoset Model.Generic
  Proofs.GenericParse Proofs.GenericWrite Proofs.GenericRoundtrip Proofs.GenericHolder.
Import ListNotations.
Open Scope N_scope.

(* data events that precede the children inside the holder element *)
Definition pre_events (tx : option str) (extra : bool) : list wevent :=
  (match tx with Some s => [WData (Some (PStr s))] | None => [] end)
  ++ (if extra then [WData None] else []).

Lemma elem_starts v : elem_ok v = true -> exists q tl, gen_val v = WStart q :: tl.
Proof.
  destruct v as [[q|] x l ks a | s | q p | c ra sh items]; try discriminate; intros _.
  - exists q. eexists. cbn [gen_val opt_ev option_map app]. reflexivity.
  - exists q. eexists. reflexivity.
Qed.

(* the first child's start event flushes the pending holder tag *)
Lemma start_flushes_pending pq pa it sink q :
  wstep (mkW (Some pq) pa it None sink) (WStart q)
  = wstep (mkW None [] false None (mkF pq (attr_remove xsi_nil_q pa) [] [] false :: sink)) (WStart q).
Proof. reflexivity. Qed.

Lemma wcontent tx extra vs q a g s rest :
  (match tx with Some [] => False | _ => True end) ->
  forallb elem_ok vs = true -> forallb wr_ok vs = true -> forallb attr_wr_ok a = true ->
  wsteps ((pre_events tx extra ++ flat_map gen_val vs) ++ WEnd q :: rest) (mkW (Some q) a false None (g :: s))
  = wsteps rest (mkW None [] false None (add_kid g (INode q a [] (ostr tx) (map tree_of vs) []) :: s)).
Proof.
  intros Htx He Hw Ha.
  pose proof (attr_wr_ok_nil a Ha) as Hnil.
  assert (F : Forall (fun k => elem_ok k = true -> wr_ok k = true -> wr_step_ok k) vs)
    by (apply Forall_forall; intros k _; apply wr_step_ok_all).
  (* after the optional data events the holder element is open with its text *)
  assert (Mid : forall it evs,
             wsteps (flat_map gen_val vs ++ WEnd q :: evs) (mkW None [] it None (mkF q a (ostr tx) [] false :: g :: s))
             = wsteps evs (mkW None [] false None (add_kid g (INode q a [] (ostr tx) (map tree_of vs) []) :: s))).
  { intros it evs. rewrite (wr_forest vs F He Hw).
    cbn [wsteps wstep flush_start w_pending w_attrs w_in_tail w_tail w_sink f_name truthy].
    rewrite str_eqb_refl. unfold frame_tree. cbn [f_name f_atts f_text f_kids].
    rewrite app_nil_r, rev_involutive. reflexivity. }
  rewrite <- app_assoc. unfold pre_events.
  destruct tx as [[|c t]|]; [contradiction| |].
  - (* text first *)
    rewrite <- app_assoc. cbn [app].
    cbn [wsteps wstep flush_start encode_data option_map prim_text truthy
                        w_pending w_attrs w_in_tail w_tail w_sink sink_chars add_text f_kids f_name f_atts f_text app].
    rewrite Hnil.
    destruct extra; cbn [app].
    + cbn [wsteps wstep flush_start encode_data option_map truthy w_pending w_attrs w_in_tail w_tail w_sink].
      apply Mid.
    + apply Mid.
  - destruct extra; cbn [app].
    + (* a qname-less wrapper without text: `data None` opens the holder *)
      cbn [wsteps wstep flush_start encode_data option_map truthy w_pending w_attrs w_in_tail w_tail w_sink].
      apply (Mid true).
    + destruct vs as [|v vs'].
      * (* empty holder: the end event flushes the start *)
        cbn [flat_map app map wsteps wstep flush_start w_pending w_attrs w_in_tail w_tail w_sink f_name truthy].
        rewrite str_eqb_refl. reflexivity.
      * (* the first child's start event flushes the holder's start *)
        cbn in He. apply andb_true_iff in He as [He1 He2].
        destruct (elem_starts v He1) as (qv & tl & Ev).
        cbn [flat_map]. rewrite Ev. rewrite <- !app_assoc. cbn [app wsteps].
        rewrite start_flushes_pending. rewrite Hnil.
        change (match wstep (mkW None [] false None (mkF q a [] [] false :: g :: s)) (WStart qv) with
                | Some st' => wsteps (tl ++ flat_map gen_val vs' ++ WEnd q :: rest) st'
                | None => None
                end)
          with (wsteps ((WStart qv :: tl) ++ flat_map gen_val vs' ++ WEnd q :: rest)
                       (mkW None [] false None (mkF q a [] [] false :: g :: s))).
        rewrite <- Ev.
        replace (gen_val v ++ flat_map gen_val vs' ++ WEnd q :: rest)
          with (flat_map gen_val (v :: vs') ++ WEnd q :: rest) by (cbn [flat_map]; rewrite <- app_assoc; reflexivity).
        assert (He' : forallb elem_ok (v :: vs') = true) by (cbn; rewrite He1, He2; reflexivity).
        rewrite (wr_forest (v :: vs') F He' Hw).
        cbn [wsteps wstep flush_start w_pending w_attrs w_in_tail w_tail w_sink f_name truthy].
        rewrite str_eqb_refl. unfold frame_tree. cbn [f_name f_atts f_text f_kids ostr].
        rewrite app_nil_r, rev_involutive. reflexivity.
Qed.

Lemma write_holder rq ratts tx extra vs :
  nodup_keys ratts = true -> forallb attr_wr_ok ratts = true ->
  (match tx with Some [] => False | _ => True end) ->
  forallb elem_ok vs = true -> forallb wr_ok vs = true ->
  write_tree (WStart rq :: map attr_ev ratts ++ (pre_events tx extra ++ flat_map gen_val vs) ++ [WEnd rq])
  = Some (INode rq ratts [] (ostr tx) (map tree_of vs) []).
Proof.
  intros Hn Ha Htx He Hw. unfold write_tree, winit.
  cbn [wsteps wstep flush_start w_pending w_attrs w_in_tail w_tail w_sink].
  rewrite (wsteps_attrs ratts [] rq false [bottom]) by assumption.
  cbn [app]. rewrite (wcontent tx extra vs rq ratts bottom [] [] Htx He Hw Ha).
  reflexivity.
Qed.

(* the events generated for a holder, in normal form *)
Definition extra_of (c : wcfg) (vs : list gval) : bool :=
  match c_kind c, vs with KSingle, _ :: _ :: _ => true | _, _ => false end.

Lemma text_item_events tx vs :
  flat_map gen_val (text_item tx ++ vs) = pre_events tx false ++ flat_map gen_val vs.
Proof. unfold pre_events. destruct tx; cbn [text_item flat_map gen_val app option_map]; rewrite ?app_nil_r; reflexivity. Qed.

Lemma holder_events reg c o rd ks ratts tx :
  forallb (child_ok reg c rd) ks = true ->
  (c_kind c = KChoice -> tx = None) ->
  gen_root c (mkRobj ratts (holder_value c tx (any_kids o rd [] 0 ks)))
  = Some (WStart (c_rq c) :: map attr_ev ratts
            ++ (pre_events tx (extra_of c (any_kids o rd [] 0 ks)) ++ flat_map gen_val (any_kids o rd [] 0 ks))
            ++ [WEnd (c_rq c)]).
Proof.
  intros Hk Hc. unfold gen_root, holder_value, extra_of. cbn [r_w r_atts].
  set (vs := any_kids o rd [] 0 ks).
  destruct (c_kind c) eqn:K.
  - unfold single_value, pre_events.
    destruct tx as [s|]; destruct vs as [|v1 [|v2 vs']]; cbn [app flat_map option_map];
      rewrite ?gen_wrapper; cbn [app flat_map option_map]; rewrite ?gen_wrapper, ?app_nil_r; reflexivity.
  - rewrite text_item_events. reflexivity.
  - rewrite text_item_events. reflexivity.
  - rewrite (Hc eq_refl). unfold vs.
    rewrite (gen_choice_kids reg c o rd [] ks 0 Hk), opt_concat_some, <- flat_map_concat. reflexivity.
Qed.

Lemma single_events_pre tx vs :
  single_events tx vs
  = pre_events tx (match vs with _ :: _ :: _ => true | _ => false end) ++ flat_map gen_val vs.
Proof.
  rewrite single_events_eq. unfold pre_events.
  destruct vs as [|v1 [|v2 vs']]; rewrite <- app_assoc; reflexivity.
Qed.

(* holder_pre plus the two writer clauses *)
Definition holder_pre_w (reg : list wcfg) (c : wcfg) (t : itree) : bool := holder_pre reg c t && guard_write [] t.

Theorem holder_written_ok reg c o t :
  is_full o -> holder_pre_w reg c t = true ->
  holder_written reg c o t = Some (norm_ws_root (canon [] t)).
Proof.
  intros Ho H. unfold holder_pre_w in H. apply andb_true_iff in H as [H Hgw].
  pose proof (holder_roundtrip_ok reg c o t Ho H) as Spec.
  unfold holder_written. unfold holder_roundtrip in Spec.
  rewrite (holder_captures reg c o t Ho H) in *.
  destruct t as [rq ra rd rx ks rl]. unfold holder_pre in H. cbn [i_name i_atts i_nsd i_text i_kids i_tail] in *.
  apply andb_true_iff in H as [H Hg]. apply andb_true_iff in H as [H Hwf]. apply andb_true_iff in H as [H Hkind].
  apply andb_true_iff in H as [H Hkids]. apply andb_true_iff in H as [H Hws]. apply andb_true_iff in H as [H Htl].
  apply andb_true_iff in H as [H Hxsi]. apply andb_true_iff in H as [Hc Hname].
  pose proof Hg as Hg0.
  apply guard_any_node in Hg as (Gr & Gx & Gs & Gk).
  apply guard_write_node in Hgw as (Wn & Wd & Wk).
  rewrite app_nil_r in *.
  apply g_wf_node_split in Hwf as [Wa Wks]. rewrite app_nil_r in Wks.
  unfold g_rewrite_node, g_nil_node, g_dtclark_node in *. cbn [i_atts] in *.
  set (vs := any_kids o rd [] 0 ks) in *.
  set (tx := normalize_content (cut None rx)) in *.
  set (ratts := if c_amap c then parse_any_attributes rd ra else []) in *.
  assert (Hvs : forallb elem_ok vs = true) by (apply elem_kids; [apply Forall_forall; intros; apply elem_all | exact Wks]).
  assert (Hwr : forallb wr_ok vs = true) by (apply wr_kids; [apply Forall_forall; intros; apply wr_all | exact Gk | exact Wk]).
  assert (Htx : match tx with Some [] => False | _ => True end).
  { pose proof (normalize_nonempty (cut None rx)) as N. fold tx in N. destruct tx as [[|? ?]|]; auto. }
  assert (Hnd : nodup_keys ratts = true).
  { unfold ratts. destruct (c_amap c); [|reflexivity].
    rewrite (nodup_keys_fst _ ra (parse_attrs_keys rd ra)). exact Wa. }
  assert (Hra : forallb attr_wr_ok ratts = true).
  { unfold ratts. destruct (c_amap c); [|reflexivity]. apply attrs_wr_ok; assumption. }
  assert (Hch : c_kind c = KChoice -> tx = None).
  { intros K. rewrite K in Hkind. apply andb_true_iff in Hkind as [Hx _]. unfold tx. apply normalize_all_ws. exact Hx. }
  pose proof (holder_events reg c o rd ks ratts tx Hkids Hch) as HE. fold vs in HE. rewrite HE in *. clear HE.
  rewrite (write_holder (c_rq c) ratts tx (extra_of c vs) vs Hnd Hra Htx Hvs Hwr).
  (* the specification reading gives the same tree, and that one is the expected tree *)
  rewrite <- Spec. symmetry.
  assert (Cn : content_ok (pre_events tx (extra_of c vs) ++ flat_map gen_val vs) tx vs).
  { unfold extra_of. destruct (c_kind c) eqn:K.
    - pose proof (content_single tx vs Hvs Htx) as C. rewrite single_events_pre in C. exact C.
    - rewrite <- text_item_events. apply content_list; assumption.
    - rewrite <- text_item_events. apply content_list; assumption.
    - rewrite <- text_item_events. apply content_list; assumption. }
  apply (wrun_holder (c_rq c) ratts _ tx vs Hnd Cn).
Qed.

From XV Require Import Proofs.GenericRefute.

Example holder_pre_w_nonvacuous :
  holder_pre_w reg_w cfg_single w_ok_holder = true /\ holder_pre_w reg_w cfg_list w_ok_holder = true /\
  holder_pre_w reg_w cfg_mixed w_ok_holder = true /\ holder_pre_w reg_w cfg_choice w_ok_choice = true /\
  holder_pre_w reg_w cfg_list_amap w_ok_amap = true.
Proof. repeat split; vm_compute; reflexivity. Qed.
