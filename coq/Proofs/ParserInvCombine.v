(* Proofs/ParserInvCombine.v — the C09 theorems in the form the harness evaluates: boolean
   guards of Model/ParserInvCorr.v computed on two recorded event streams imply the
   hypotheses of the theorems (soundness of the guards), start-ns events are ignored by the
   parser, and attribute order composes with lookup-equivalent maps. *)
From Coq Require Import NArith ZArith List Bool Arith Lia Sorting.Permutation.
From XV Require Import Base.Str Base.Eqb Base.PyInt Model.Bind Model.Parser Model.ParserCorr Model.Reader Model.ReaderCorr
  Model.ParserInvCorr Spec.Inject Proofs.ParserSkip Proofs.ParserAttrs Proofs.ParserDoc Proofs.ParserFuel
  Proofs.ParserNs Proofs.ReaderMaps Proofs.ReaderAgree Proofs.ParserInvAttrs.
Import ListNotations.

(* ---------------------------------------------------------------- start-ns events are no-ops *)
Lemma run_strip_ns cfg c u replay root : forall evs st,
  run cfg c u replay root st (strip_ns evs) = run cfg c u replay root st evs.
Proof.
  induction evs as [|ev r IH]; intros st; [reflexivity|].
  destruct ev as [q a ns|q t tl|p uri]; cbn [strip_ns filter is_ns_event negb run step].
  - fold (strip_ns r). destruct (start cfg c u root st q a ns); cbn [rbind]; [apply IH|reflexivity].
  - fold (strip_ns r). destruct (pend cfg c replay st q t tl); cbn [rbind]; [apply IH|reflexivity].
  - fold (strip_ns r). cbn [rbind]. apply IH.
Qed.

Lemma strip_ns_length evs : (length (strip_ns evs) <= length evs)%nat.
Proof. unfold strip_ns. induction evs as [|ev r IH]; cbn [filter length]; [lia|]. destruct (negb (is_ns_event ev)); cbn [length]; lia. Qed.

Theorem parse_strip_ns : forall cfg c u root evs,
  parse cfg c u root (strip_ns evs) = parse cfg c u root evs.
Proof.
  intros cfg c u root evs.
  rewrite <- (parse_n_ge (length evs) c u cfg root (strip_ns evs) (strip_ns_length evs)).
  unfold parse. rewrite !parse_n_unfold. rewrite run_strip_ns. reflexivity.
Qed.

(* ---------------------------------------------------------------- soundness of the boolean guards *)
Lemma attrs_eqb_true a b : ReaderCorr.attrs_eqb a b = true -> a = b.
Proof.
  unfold ReaderCorr.attrs_eqb. apply list_eqb_spec. intros [k v] [k' v']. unfold pair_eqb. cbn [fst snd].
  rewrite andb_true_iff, !str_eqb_eq. split; [intros [-> ->]; reflexivity|intros E; inversion E; auto].
Qed.

Lemma pevent_eqb_true x y : ReaderCorr.pevent_eqb x y = true -> x = y.
Proof.
  destruct x, y; cbn [ReaderCorr.pevent_eqb]; try discriminate; intros H.
  - apply andb_true_iff in H as [H Hn]. apply andb_true_iff in H as [Hq Ha].
    apply str_eqb_eq in Hq. apply attrs_eqb_true in Ha.
    assert (ns = ns0).
    { revert Hn. unfold nsmap_eqb. apply list_eqb_spec. intros [k v] [k' v']. unfold pair_eqb. cbn [fst snd].
      rewrite andb_true_iff, ReaderMaps.ostr_eqb_eq, str_eqb_eq. split; [intros [-> ->]; reflexivity|intros E; inversion E; auto]. }
    congruence.
  - apply andb_true_iff in H as [H Hl]. apply andb_true_iff in H as [Hq Hx].
    apply str_eqb_eq in Hq. apply ReaderMaps.ostr_eqb_eq in Hx, Hl. congruence.
  - apply andb_true_iff in H as [Hp Hu]. apply ReaderMaps.ostr_eqb_eq in Hp. apply str_eqb_eq in Hu. congruence.
Qed.

Lemma pevent_equiv_refl x : pevent_equiv x x.
Proof. destruct x; cbn; auto using ns_equiv_refl. Qed.

Lemma pevent_equivb_sound x y : pevent_equivb x y = true -> pevent_equiv x y.
Proof.
  destruct x as [q a ns|q t tl|p uri], y as [q' a' ns'|q' t' tl'|p' uri']; cbn [pevent_equivb]; intros H;
    try (apply pevent_eqb_true in H; discriminate).
  - apply andb_true_iff in H as [H Hn]. apply andb_true_iff in H as [Hq Ha].
    apply str_eqb_eq in Hq. apply attrs_eqb_true in Ha. apply ns_equivb_sound in Hn. cbn. auto.
  - apply pevent_eqb_true in H. injection H as -> -> ->. cbn. auto.
  - apply pevent_eqb_true in H. injection H as -> ->. cbn. auto.
Qed.

Lemma forallb2_pe_sound : forall a b, forallb2_pe a b = true -> Forall2 pevent_equiv a b.
Proof.
  induction a as [|x a IH]; intros [|y b] H; cbn [forallb2_pe] in H; try discriminate; [constructor|].
  apply andb_true_iff in H as [H1 H2]. constructor; [apply pevent_equivb_sound; exact H1|apply IH; exact H2].
Qed.

(* (b1) as evaluated: same events (start-ns aside) up to lookup-equivalent maps *)
Theorem lookup_only_guarded : forall cfg c u root e1 e2,
  conv_lookup_only c ->
  forallb2_pe (strip_ns e1) (strip_ns e2) = true ->
  parse cfg c u root e1 = parse cfg c u root e2.
Proof.
  intros cfg c u root e1 e2 Hc H. rewrite <- (parse_strip_ns cfg c u root e1), <- (parse_strip_ns cfg c u root e2).
  apply parser_uses_lookup_only; [exact Hc|apply forallb2_pe_sound; exact H].
Qed.

(* (a) as evaluated *)
Lemma remove_attr_perm k : forall l v r, remove_attr k l = Some (v, r) -> Permutation l ((k, v) :: r).
Proof.
  induction l as [|[k' w] l IH]; intros v r H; cbn [remove_attr] in H; [discriminate|].
  destruct (str_eqb k k') eqn:E.
  - apply str_eqb_eq in E. subst. injection H as -> ->. apply Permutation_refl.
  - destruct (remove_attr k l) as [[w' r']|]; [|discriminate]. injection H as -> <-.
    eapply perm_trans; [apply perm_skip; apply IH; reflexivity|apply perm_swap].
Qed.

Lemma attrs_permb_sound : forall a b, attrs_permb a b = true -> Permutation a b.
Proof.
  induction a as [|[k v] a IH]; intros b H; cbn [attrs_permb] in H.
  - destruct b; [constructor|discriminate].
  - destruct (remove_attr k b) as [[w b']|] eqn:E; [|discriminate]. apply andb_true_iff in H as [Hv H].
    apply str_eqb_eq in Hv. subst w. eapply perm_trans; [apply perm_skip; apply IH; exact H|].
    apply Permutation_sym. apply remove_attr_perm. exact E.
Qed.

Lemma keys_nodupb_sound : forall a, keys_nodupb a = true -> NoDup (map fst a).
Proof.
  induction a as [|[k v] a IH]; intros H; cbn [keys_nodupb map fst] in *; [constructor|].
  apply andb_true_iff in H as [H1 H2]. constructor; [|apply IH; exact H2].
  intros Hin. apply negb_true_iff in H1. apply in_map_iff in Hin as [[k' v'] [E Hin]]. cbn [fst] in E. subst k'.
  assert (existsb (fun kv => str_eqb k (fst kv)) a = true).
  { apply existsb_exists. exists (k, v'). split; [exact Hin|]. cbn [fst]. apply str_eqb_refl. }
  congruence.
Qed.

(* an intermediate stream: the attributes of the first, the maps of the second *)
Lemma perm_guard_split : forall a b, forallb2 ev_permb a b = true ->
  exists mid, Forall2 pevent_equiv a mid /\ Forall2 ev_perm mid b.
Proof.
  induction a as [|x a IH]; intros [|y b] H; cbn [forallb2] in H; try discriminate.
  - exists []. split; constructor.
  - apply andb_true_iff in H as [H1 H2]. destruct (IH b H2) as (mid & M1 & M2).
    destruct x as [q at_ ns|q t tl|p uri], y as [q' at' ns'|q' t' tl'|p' uri']; cbn [ev_permb] in H1;
      try (apply pevent_eqb_true in H1; discriminate);
      try (apply pevent_eqb_true in H1; injection H1; intros; subst).
    + apply andb_true_iff in H1 as [H1 Hn]. apply andb_true_iff in H1 as [H1 Hk]. apply andb_true_iff in H1 as [Hq Hp].
      apply str_eqb_eq in Hq. subst q'. exists (PStart q at_ ns' :: mid). split; constructor; try assumption.
      * cbn. split; [reflexivity|]. split; [reflexivity|apply ns_equivb_sound; exact Hn].
      * cbn [ev_perm]. repeat split; [apply attrs_permb_sound; exact Hp|apply keys_nodupb_sound; exact Hk].
    + exists (PEnd q' t' tl' :: mid). split; constructor; try assumption; cbn; auto.
    + exists (PStartNs p' uri' :: mid). split; constructor; try assumption; cbn; auto.
Qed.

Theorem attr_order_guarded : forall cfg c u root e1 e2,
  universe_ok u = true -> conv_lookup_only c ->
  forallb2 ev_permb (strip_ns e1) (strip_ns e2) = true ->
  outcome_equiv (parse cfg c u root e1) (parse cfg c u root e2).
Proof.
  intros cfg c u root e1 e2 Hu Hc H. rewrite <- (parse_strip_ns cfg c u root e1), <- (parse_strip_ns cfg c u root e2).
  destruct (perm_guard_split _ _ H) as (mid & M1 & M2).
  rewrite (parser_uses_lookup_only cfg c u root _ _ Hc M1).
  apply attrs_perm_invariant; assumption.
Qed.
Print Assumptions lookup_only_guarded.
Print Assumptions attr_order_guarded.
