(* Proofs/PycodeEq.v — facts about the two equalities of Spec/PyEval.v. *)
From Coq Require Import NArith ZArith List Bool Lia.
From XV Require Import Base.Str Base.Eqb Spec.PyEval Model.Pycode Proofs.PycodeBase.
Import ListNotations.

Lemma lZ_eqb_refl l : lZ_eqb l l = true.
Proof. apply (list_eqb_spec Z.eqb Z.eqb_eq). reflexivity. Qed.
Lemma oZ_eqb_refl o : oZ_eqb o o = true.
Proof. apply (opt_eqb_spec Z.eqb Z.eqb_eq). reflexivity. Qed.
Lemma xkind_eqb_refl k : xkind_eqb k k = true.
Proof. destruct k; reflexivity. Qed.

Lemma numc_eq_refl x : x <> NNan -> numc_eq x x = true.
Proof.
  destruct x as [n a b|s|]; cbn; intros H.
  - apply Z.eqb_refl.
  - apply eqb_reflx.
  - congruence.
Qed.

(* ---------------------------------------------------------------- reflexivity *)
Lemma veq_refl_scalar v : is_container v = false -> veq true v v = true.
Proof.
  intros Hc.
  destruct v; try discriminate Hc; cbn [veq text_of]; try reflexivity;
    try apply str_eqb_refl.
  - (* VBool *) destruct b; reflexivity.
  - (* VInt *) unfold num_eq. cbn [num_of]. apply numc_eq_refl. discriminate.
  - (* VFloat *) unfold num_eq. cbn [num_of same_num_ctor].
    destruct (fl_num bits) eqn:E; [apply numc_eq_refl; discriminate | apply numc_eq_refl; discriminate | reflexivity].
  - (* VDecimal *) unfold num_eq. cbn [num_of same_num_ctor].
    destruct (dec_parse s) as [x|] eqn:E.
    + destruct x; [apply numc_eq_refl; discriminate | apply numc_eq_refl; discriminate | reflexivity].
    + cbn. apply str_eqb_refl.
  - (* VXml *) rewrite xkind_eqb_refl, lZ_eqb_refl, oZ_eqb_refl. reflexivity.
  - (* VStd *) rewrite lZ_eqb_refl, andb_true_r. destruct k; reflexivity.
  - (* VEnum *) rewrite cref_eqb_refl, str_eqb_refl. reflexivity.
  - (* VFlag *) rewrite cref_eqb_refl, Z.eqb_refl. reflexivity.
Qed.

Lemma veq_list_refl l : Forall (fun v => veq true v v = true) l -> veq_list true l l = true.
Proof. induction 1 as [|x r Hx Hr IH]; cbn; [reflexivity|]. rewrite Hx, IH. reflexivity. Qed.

Lemma veq_refl v : veq true v v = true.
Proof.
  induction v using value_ind'.
  - apply veq_refl_scalar; assumption.
  - rewrite veq_VList. apply veq_list_refl; assumption.
  - rewrite veq_VTuple. apply veq_list_refl; assumption.
  - rewrite veq_VSet, Nat.eqb_refl. cbn [andb].
    apply forallb_forall. intros x Hx. apply existsb_exists. exists x. split; [exact Hx|].
    rewrite Forall_forall in H. apply H. exact Hx.
  - rewrite veq_VDict. induction H as [|[k x] r [Hk Hx] Hr IH]; cbn; [reflexivity|].
    cbn in Hk, Hx. rewrite Hk, Hx. exact IH.
  - rewrite veq_VObj, cref_eqb_refl. cbn.
    induction H as [|[n x] r Hx Hr IH]; cbn; [reflexivity|].
    cbn in Hx. rewrite str_eqb_refl, Hx. exact IH.
Qed.

(* ---------------------------------------------------------------- Python == implies the tolerant one *)
Lemma num_eq_mono a b : num_eq false a b = true -> num_eq true a b = true.
Proof.
  unfold num_eq.
  destruct (num_of a) as [[n1 a1 b1|s1|]|], (num_of b) as [[n2 a2 b2|s2|]|]; cbn; intros H;
    try discriminate H; try exact H.
Qed.

Lemma veq_mono a : forall b, veq false a b = true -> veq true a b = true.
Proof.
  induction a using value_ind'; intros b Hab.
  - destruct a; try discriminate H; cbn [veq] in *; try exact Hab; apply num_eq_mono; exact Hab.
  - destruct b; try discriminate Hab. rewrite veq_VList in *.
    revert l0 Hab. induction H as [|x r Hx Hr IH]; intros [|y r'] Hab; cbn in *; try discriminate Hab; [reflexivity|].
    apply andb_true_iff in Hab as [H1 H2]. rewrite (Hx _ H1), (IH _ H2). reflexivity.
  - destruct b; try discriminate Hab. rewrite veq_VTuple in *.
    revert l0 Hab. induction H as [|x r Hx Hr IH]; intros [|y r'] Hab; cbn in *; try discriminate Hab; [reflexivity|].
    apply andb_true_iff in Hab as [H1 H2]. rewrite (Hx _ H1), (IH _ H2). reflexivity.
  - destruct b; try discriminate Hab. rewrite veq_VSet in *.
    apply andb_true_iff in Hab as [Hlen Hab]. rewrite Hlen. cbn [andb].
    apply forallb_forall. intros x Hx. rewrite forallb_forall in Hab.
    specialize (Hab x Hx). apply existsb_exists in Hab as [y [Hy Hxy]].
    apply existsb_exists. exists y. split; [exact Hy|].
    rewrite Forall_forall in H. apply (H x Hx). exact Hxy.
  - destruct b; try discriminate Hab. rewrite veq_VDict in *.
    revert kv0 Hab. induction H as [|[k x] r [Hk Hx] Hr IH]; intros [|[k' x'] r'] Hab; cbn in *; try discriminate Hab; [reflexivity|].
    apply andb_true_iff in Hab as [H12 H3]. apply andb_true_iff in H12 as [H1 H2].
    rewrite (Hk _ H1), (Hx _ H2), (IH _ H3). reflexivity.
  - destruct b; try discriminate Hab. rewrite veq_VObj in *.
    apply andb_true_iff in Hab as [Hc Hab]. rewrite Hc. cbn [andb].
    revert fs0 Hab. induction H as [|[n x] r Hx Hr IH]; intros [|[n' x'] r'] Hab; cbn in *; try discriminate Hab; [reflexivity|].
    apply andb_true_iff in Hab as [H12 H3]. apply andb_true_iff in H12 as [H1 H2].
    rewrite H1, (Hx _ H2), (IH _ H3). reflexivity.
Qed.
