(* Proofs/Dtd.v — theorems about Model/Dtd.v (the faithful model of DtdParser + DtdMapper):
   dtd_capacity_refuted_*   the full-strength capacity statement is false (witnesses by vm_compute)
   dtd_capacity             ... and holds under the guards guard_seq / guard_or
   dtd_attr_defaults        #REQUIRED / #IMPLIED / #FIXED / default -> a field that re-materialises them *)
From Coq Require Import NArith List Bool Arith Lia String.
From XV Require Import Base.Str Base.Eqb Spec.Cm Spec.Dtd Gen.DtdTables Model.Dtd Model.DtdCorr Proofs.Cm.
Import ListNotations.
Local Close Scope N_scope.
Local Open Scope nat_scope.

(* ------------------------------------------------------------------ enat facts *)
Lemma enat_leb_refl a : enat_leb a a = true.
Proof. destruct a; cbn; [apply Nat.leb_refl|reflexivity]. Qed.
Lemma eadd_0_r a : eadd a (Some 0) = a.
Proof. destruct a; cbn; [f_equal; lia|reflexivity]. Qed.
Lemma emax_0_r a : emax a (Some 0) = a.
Proof. destruct a; cbn; [f_equal; lia|reflexivity]. Qed.
Lemma emul_1_l a : emul (Some 1) a = a.
Proof. destruct a as [[|n]|]; cbn; try reflexivity. f_equal. lia. Qed.
Lemma emul_0_r k : emul k (Some 0) = Some 0.
Proof. destruct k as [[|n]|]; reflexivity. Qed.
Lemma enat_leb_eadd a b a' b' : enat_leb a a' = true -> enat_leb b b' = true -> enat_leb (eadd a b) (eadd a' b') = true.
Proof. destruct a, b, a', b'; cbn; auto; try discriminate. rewrite !Nat.leb_le. lia. Qed.
Lemma enat_leb_emax_eadd a b a' b' : enat_leb a a' = true -> enat_leb b b' = true -> enat_leb (emax a b) (eadd a' b') = true.
Proof. destruct a, b, a', b'; cbn; auto; try discriminate. rewrite !Nat.leb_le. lia. Qed.
Lemma enat_leb_none a : enat_leb a None = true.
Proof. destruct a; reflexivity. Qed.
Lemma eadd_none_l b : eadd None b = None. Proof. reflexivity. Qed.
Lemma eadd_none_r a : eadd a None = None. Proof. destruct a; reflexivity. Qed.

(* ------------------------------------------------------------------ cap / minsum are additive *)
Lemma attrs_for_app a b q : attrs_for (a ++ b) q = attrs_for a q ++ attrs_for b q.
Proof. unfold attrs_for. apply filter_app. Qed.
Lemma esum_app a b : esum (a ++ b) = eadd (esum a) (esum b).
Proof.
  unfold esum. induction a as [|x a IH]; cbn [app fold_right].
  - destruct (fold_right eadd (Some 0) b); reflexivity.
  - rewrite IH. apply eadd_assoc.
Qed.
Lemma nsum_app a b : nsum (a ++ b) = nsum a + nsum b.
Proof. unfold nsum. induction a as [|x a IH]; cbn [app fold_right]; lia. Qed.
Lemma cap_app a b q : cap (a ++ b) q = eadd (cap a q) (cap b q).
Proof. unfold cap. rewrite attrs_for_app, map_app. apply esum_app. Qed.
Lemma minsum_app a b q : minsum (a ++ b) q = minsum a q + minsum b q.
Proof. unfold minsum. rewrite attrs_for_app, map_app. apply nsum_app. Qed.
Lemma cap_nil q : cap [] q = Some 0. Proof. reflexivity. Qed.
Lemma minsum_nil q : minsum [] q = 0. Proof. reflexivity. Qed.

(* ------------------------------------------------------------------ the enum tables, as the proofs need them *)
Lemma decode_in tbl : forall v n, decode tbl v = Some n -> In (n, v) tbl.
Proof.
  induction tbl as [|[n0 x] r IH]; intros v n; cbn [decode]; [discriminate|].
  destruct (str_eqb_spec x v) as [E|NE].
  - intros H; inversion H; subst. left; reflexivity.
  - intros H. right. apply IH. exact H.
Qed.

Definition M_ONCE := lit "ONCE". Definition M_OPT := lit "OPT".
Definition M_MULT := lit "MULT". Definition M_PLUS := lit "PLUS".
Definition M_PCDATA := lit "PCDATA". Definition M_ELEMENT := lit "ELEMENT".
Definition M_SEQ := lit "SEQ". Definition M_OR := lit "OR".

Lemma occur_cases occur o : decode dtd_content_occur_members occur = Some o ->
  (occur = S_once /\ o = M_ONCE) \/ (occur = S_opt /\ o = M_OPT) \/
  (occur = S_mult /\ o = M_MULT) \/ (occur = S_plus /\ o = M_PLUS).
Proof.
  intros H. apply decode_in in H. unfold dtd_content_occur_members in H.
  repeat (destruct H as [H|H]; [inversion H; subst; clear H; auto 6|]). destruct H.
Qed.

Lemma type_cases type t : decode dtd_content_type_members type = Some t ->
  (type = S_pcdata /\ t = M_PCDATA) \/ (type = S_element /\ t = M_ELEMENT) \/
  (type = S_seq /\ t = M_SEQ) \/ (type = S_or /\ t = M_OR).
Proof.
  intros H. apply decode_in in H. unfold dtd_content_type_members in H.
  repeat (destruct H as [H|H]; [inversion H; subst; clear H; auto 6|]). destruct H.
Qed.

(* ------------------------------------------------------------------ unfolding lemmas (closed string tests computed once) *)
Definition kid_attrs (x : option dtd_content) (kw : kwargs) (p : path) : list attr :=
  match x with Some l => build_content l kw p | None => [] end.

Lemma bc_element name o l r kw p :
  build_content (DC name M_ELEMENT o l r) kw p = [build_element (oname name) (build_restrictions o kw)].
Proof. reflexivity. Qed.
Lemma bc_seq name o l r kw p :
  build_content (DC name M_SEQ o l r) kw p = kid_attrs l kw (p ++ [false]) ++ kid_attrs r kw (p ++ [true]).
Proof. destruct l, r; reflexivity. Qed.
Lemma bc_or name o l r kw p :
  build_content (DC name M_OR o l r) kw p =
  let kw' := match kw with Some k => Some k | None => Some (0%N, snd (build_occurs o), p) end in
  kid_attrs l kw' (p ++ [false]) ++ kid_attrs r kw' (p ++ [true]).
Proof. destruct l, r; reflexivity. Qed.
Lemma bc_pcdata name o l r kw p :
  build_content (DC name M_PCDATA o l r) kw p = [build_value (build_restrictions o kw)].
Proof. reflexivity. Qed.

Definition kid_cms (x : option raw_content) : option (list cm) :=
  match x with Some l => option_map (fun a => [a]) (cm_of_raw l) | None => Some [] end.
Definition kids_cms (l r : option raw_content) : option (list cm) :=
  match kid_cms l, kid_cms r with Some a, Some b => Some (a ++ b) | _, _ => None end.

Lemma cm_element name occur l r :
  cm_of_raw (RC name S_element occur l r) = match name with Some n => with_occur occur (Elem n) | None => None end.
Proof. destruct l, r; reflexivity. Qed.
Lemma cm_pcdata name occur l r : cm_of_raw (RC name S_pcdata occur l r) = Some (Seq []).
Proof. destruct l, r; reflexivity. Qed.
Lemma cm_seq name occur l r :
  cm_of_raw (RC name S_seq occur l r) = match kids_cms l r with Some k => with_occur occur (Seq k) | None => None end.
Proof.
  unfold kids_cms, kid_cms. destruct l as [l|], r as [r|]; cbn [cm_of_raw].
  - destruct (cm_of_raw l), (cm_of_raw r); reflexivity.
  - destruct (cm_of_raw l); reflexivity.
  - destruct (cm_of_raw r); reflexivity.
  - reflexivity.
Qed.
Lemma cm_or name occur l r :
  cm_of_raw (RC name S_or occur l r) = match kids_cms l r with Some k => with_occur occur (Choice k) | None => None end.
Proof.
  unfold kids_cms, kid_cms. destruct l as [l|], r as [r|]; cbn [cm_of_raw].
  - destruct (cm_of_raw l), (cm_of_raw r); reflexivity.
  - destruct (cm_of_raw l); reflexivity.
  - destruct (cm_of_raw r); reflexivity.
  - reflexivity.
Qed.

(* the attrs of an element node *)
Lemma tag_element_self : str_eqb tag_ELEMENT tag_ELEMENT = true. Proof. apply str_eqb_refl. Qed.
Lemma tag_extension_not_element : str_eqb tag_EXTENSION tag_ELEMENT = false. Proof. reflexivity. Qed.

Lemma attrs_for_value r q : attrs_for [build_value r] q = [].
Proof. destruct r as [[mn mx] ch]. unfold attrs_for, build_value, is_element_attr. cbn [filter a_tag]. rewrite tag_extension_not_element. reflexivity. Qed.

Lemma attrs_for_element n r q :
  attrs_for [build_element n r] q = if str_eqb n q then [build_element n r] else [].
Proof.
  destruct r as [[mn mx] ch]. unfold attrs_for, build_element, is_element_attr. cbn [filter a_tag a_name].
  rewrite tag_element_self. cbn [andb]. destruct (str_eqb n q); reflexivity.
Qed.

Lemma cap_value r q : cap [build_value r] q = Some 0.
Proof. unfold cap. rewrite attrs_for_value. reflexivity. Qed.
Lemma minsum_value r q : minsum [build_value r] q = 0.
Proof. unfold minsum. rewrite attrs_for_value. reflexivity. Qed.

Lemma cap_element_unbounded n mn ch q :
  cap [build_element n (mn, sys_maxsize, ch)] q = if str_eqb n q then None else Some 0.
Proof. unfold cap. rewrite attrs_for_element. destruct (str_eqb n q); reflexivity. Qed.
Lemma cap_element_one n mn ch q :
  cap [build_element n (mn, 1%N, ch)] q = if str_eqb n q then Some 1 else Some 0.
Proof. unfold cap. rewrite attrs_for_element. destruct (str_eqb n q); reflexivity. Qed.
Lemma minsum_element n mn mx ch q :
  minsum [build_element n (mn, mx, ch)] q = if str_eqb n q then N.to_nat mn else 0.
Proof. unfold minsum. rewrite attrs_for_element. destruct (str_eqb n q); cbn; lia. Qed.

Lemma maxcount_elem n q : maxcount (Elem n) q = if str_eqb n q then Some 1 else Some 0.
Proof. unfold maxcount. cbn [maxcountP]. unfold name_eqb.
  destruct (str_eqb_spec q n) as [E|NE]; destruct (str_eqb_spec n q) as [E'|NE']; congruence. Qed.
Lemma mincount_elem n q : mincount (Elem n) q = if str_eqb n q then 1 else 0.
Proof. unfold mincount. cbn [mincountP]. unfold name_eqb.
  destruct (str_eqb_spec q n) as [E|NE]; destruct (str_eqb_spec n q) as [E'|NE']; congruence. Qed.

Lemma maxcount_seq l q : maxcount (Seq l) q = esum (map (fun c => maxcount c q) l).
Proof. reflexivity. Qed.
Lemma maxcount_choice l q : maxcount (Choice l) q = emaxl (map (fun c => maxcount c q) l).
Proof. reflexivity. Qed.
Lemma mincount_seq l q : mincount (Seq l) q = nsum (map (fun c => mincount c q) l).
Proof. reflexivity. Qed.
Lemma maxcount_occ mn mx c q : maxcount (Occ mn mx c) q = emul mx (maxcount c q).
Proof. reflexivity. Qed.
Lemma mincount_occ mn mx c q : mincount (Occ mn mx c) q = mn * mincount c q.
Proof. reflexivity. Qed.

Lemma emaxl_app a b : emaxl (a ++ b) = emax (emaxl a) (emaxl b).
Proof.
  unfold emaxl. induction a as [|x a IH]; cbn [app fold_right].
  - destruct (fold_right emax (Some 0) b); reflexivity.
  - rewrite IH. destruct x, (fold_right emax (Some 0) a), (fold_right emax (Some 0) b); cbn; try reflexivity. f_equal. lia.
Qed.

(* parse_content keeps the shape *)
Lemma parse_content_inv name type occur l r dc :
  parse_content (RC name type occur l r) = Some dc ->
  exists o t l' r',
    decode dtd_content_occur_members occur = Some o /\ decode dtd_content_type_members type = Some t /\
    dc = DC name t o l' r' /\
    match l, l' with Some x, Some y => parse_content x = Some y | None, None => True | _, _ => False end /\
    match r, r' with Some x, Some y => parse_content x = Some y | None, None => True | _, _ => False end.
Proof.
  cbn [parse_content].
  destruct (decode dtd_content_occur_members occur) as [o|]; [|discriminate].
  destruct (decode dtd_content_type_members type) as [t|]; [|discriminate].
  destruct l as [l|], r as [r|].
  - destruct (parse_content l) as [l'|] eqn:El; cbn; [|discriminate].
    destruct (parse_content r) as [r'|] eqn:Er; cbn; [|discriminate].
    intros H; inversion H; subst. exists o, t, (Some l'), (Some r'). auto.
  - destruct (parse_content l) as [l'|] eqn:El; cbn; [|discriminate].
    intros H; inversion H; subst. exists o, t, (Some l'), None. auto.
  - destruct (parse_content r) as [r'|] eqn:Er; cbn; [|discriminate].
    intros H; inversion H; subst. exists o, t, None, (Some r'). auto.
  - intros H; inversion H; subst. exists o, t, None, None. auto.
Qed.

(* induction over the lxml tree *)
Lemma raw_content_ind' (P : raw_content -> Prop) :
  (forall name type occur l r, (forall c, l = Some c -> P c) -> (forall c, r = Some c -> P c) -> P (RC name type occur l r)) ->
  forall c, P c.
Proof.
  intros H. fix IH 1. intros [name type occur l r]. apply H.
  - refine (match l as l0 return (forall c, l0 = Some c -> P c) with Some c0 => fun c E => _ | None => fun c E => _ end).
    + pose proof (IH c0) as Hc0. inversion E; subst. exact Hc0.
    + discriminate.
  - refine (match r as r0 return (forall c, r0 = Some c -> P c) with Some c0 => fun c E => _ | None => fun c E => _ end).
    + pose proof (IH c0) as Hc0. inversion E; subst. exact Hc0.
    + discriminate.
Qed.

(* ------------------------------------------------------------------ occurrence indicators *)
Definition spec_occ (occur : str) : option (nat * enat) :=
  if str_eqb occur S_once then Some (1, Some 1)
  else if str_eqb occur S_opt then Some (0, Some 1)
  else if str_eqb occur S_mult then Some (0, None)
  else if str_eqb occur S_plus then Some (1, None)
  else None.

Lemma with_occur_spec occur c m :
  with_occur occur c = Some m ->
  exists mn mx, spec_occ occur = Some (mn, mx) /\
    forall q, maxcount m q = emul mx (maxcount c q) /\ mincount m q = mn * mincount c q.
Proof.
  unfold with_occur, spec_occ.
  destruct (str_eqb occur S_once).
  { intros H; inversion H; subst. exists 1, (Some 1). split; [reflexivity|]. intros q. rewrite emul_1_l. split; [reflexivity|lia]. }
  destruct (str_eqb occur S_opt).
  { intros H; inversion H; subst. exists 0, (Some 1). split; [reflexivity|]. intros q. split; reflexivity. }
  destruct (str_eqb occur S_mult).
  { intros H; inversion H; subst. exists 0, None. split; [reflexivity|]. intros q. split; reflexivity. }
  destruct (str_eqb occur S_plus); [|discriminate].
  intros H; inversion H; subst. exists 1, None. split; [reflexivity|]. intros q. split; reflexivity.
Qed.

Definition kid_parsed (x : option raw_content) (x' : option dtd_content) : Prop :=
  match x, x' with Some a, Some b => parse_content a = Some b | None, None => True | _, _ => False end.

Definition fmax (q : name) (c : cm) : enat := maxcount c q.
Definition fmin (q : name) (c : cm) : nat := mincount c q.

Lemma kids_cms_inv l r ks : kids_cms l r = Some ks -> exists a b, kid_cms l = Some a /\ kid_cms r = Some b /\ ks = a ++ b.
Proof. unfold kids_cms. destruct (kid_cms l) as [a|], (kid_cms r) as [b|]; try discriminate. intros H; inversion H. eauto. Qed.

(* ------------------------------------------------------------------ A: below a repeated choice everything is unbounded and optional *)
Section Below.
  Variable q : name.

  Definition A_stmt (c : raw_content) : Prop :=
    forall dc m mn ch p, parse_content c = Some dc -> cm_of_raw c = Some m ->
      (maxcount m q = Some 0 \/ cap (build_content dc (Some (mn, sys_maxsize, ch)) p) q = None)
      /\ (mn = 0%N -> minsum (build_content dc (Some (mn, sys_maxsize, ch)) p) q = 0).

  Definition A_kid (x : option raw_content) : Prop :=
    forall x' ks mn ch p, kid_parsed x x' -> kid_cms x = Some ks ->
      ((esum (map (fmax q) ks) = Some 0 /\ emaxl (map (fmax q) ks) = Some 0)
       \/ cap (kid_attrs x' (Some (mn, sys_maxsize, ch)) p) q = None)
      /\ (mn = 0%N -> minsum (kid_attrs x' (Some (mn, sys_maxsize, ch)) p) q = 0).

  Lemma A_kid_of x : (forall c, x = Some c -> A_stmt c) -> A_kid x.
  Proof.
    intros IH x' ks mn ch p Hp Hk. destruct x as [c|], x' as [c'|]; cbn in Hp; try contradiction.
    - cbn [kid_cms] in Hk. destruct (cm_of_raw c) as [m|] eqn:Em; [|discriminate]. inversion Hk; subst.
      destruct (IH c eq_refl c' m mn ch p Hp Em) as [H1 H2]. split; [|exact H2].
      destruct H1 as [H1|H1]; [left|right; exact H1].
      cbn [map]. unfold esum, emaxl, fmax. cbn [fold_right]. rewrite H1. split; reflexivity.
    - inversion Hk; subst. split; [left; split; reflexivity|]. intros _. reflexivity.
  Qed.

  Lemma A_node (mk : list cm -> cm) name occur l r dc m mn ch p t o l' r' ks :
    (mk = Seq \/ mk = Choice) ->
    A_kid l -> A_kid r -> kid_parsed l l' -> kid_parsed r r' ->
    kids_cms l r = Some ks -> with_occur occur (mk ks) = Some m ->
    build_content (DC name t o l' r') (Some (mn, sys_maxsize, ch)) p =
      kid_attrs l' (Some (mn, sys_maxsize, ch)) (p ++ [false]) ++ kid_attrs r' (Some (mn, sys_maxsize, ch)) (p ++ [true]) ->
    dc = DC name t o l' r' ->
    (maxcount m q = Some 0 \/ cap (build_content dc (Some (mn, sys_maxsize, ch)) p) q = None)
    /\ (mn = 0%N -> minsum (build_content dc (Some (mn, sys_maxsize, ch)) p) q = 0).
  Proof.
    intros Hmk Al Ar Pl Pr Hk Hw Hbc ->. rewrite Hbc.
    apply kids_cms_inv in Hk as [a [b [Ka [Kb ->]]]].
    destruct (Al l' a mn ch (p ++ [false]) Pl Ka) as [L1 L2].
    destruct (Ar r' b mn ch (p ++ [true]) Pr Kb) as [R1 R2].
    split.
    - rewrite cap_app.
      destruct L1 as [[Ls Lm]|L1]; [|right; rewrite L1; reflexivity].
      destruct R1 as [[Rs Rm]|R1]; [|right; rewrite R1; apply eadd_none_r].
      left. destruct (with_occur_spec _ _ _ Hw) as [n0 [mx [_ Hq]]]. destruct (Hq q) as [Hmax _]. rewrite Hmax.
      assert (E : maxcount (mk (a ++ b)) q = Some 0).
      { destruct Hmk as [-> | ->].
        - rewrite maxcount_seq. change (fun c => maxcount c q) with (fmax q). rewrite map_app, esum_app, Ls, Rs. reflexivity.
        - rewrite maxcount_choice. change (fun c => maxcount c q) with (fmax q). rewrite map_app, emaxl_app, Lm, Rm. reflexivity. }
      rewrite E. apply emul_0_r.
    - intros E. rewrite minsum_app, (L2 E), (R2 E). reflexivity.
  Qed.

  Lemma A_all : forall c, A_stmt c.
  Proof.
    apply raw_content_ind'. intros name type occur l r IHl IHr. unfold A_stmt. intros dc m mn ch p Hp Hm.
    assert (Al : A_kid l) by (apply A_kid_of; exact IHl).
    assert (Ar : A_kid r) by (apply A_kid_of; exact IHr).
    destruct (parse_content_inv _ _ _ _ _ _ Hp) as [o [t [l' [r' [Ho [Ht [-> [Pl Pr]]]]]]]].
    destruct (type_cases _ _ Ht) as [[-> ->]|[[-> ->]|[[-> ->]|[-> ->]]]].
    - (* pcdata *) rewrite cm_pcdata in Hm. inversion Hm; subst. rewrite bc_pcdata. rewrite cap_value, minsum_value.
      split; [left; reflexivity|reflexivity].
    - (* element *) rewrite cm_element in Hm. destruct name as [n|]; [|discriminate].
      rewrite bc_element. cbn [build_restrictions oname]. rewrite cap_element_unbounded, minsum_element.
      destruct (with_occur_spec _ _ _ Hm) as [n0 [mx [_ Hq]]]. destruct (Hq q) as [Hmax _].
      rewrite Hmax, maxcount_elem. destruct (str_eqb n q).
      + split; [right; reflexivity|]. intros ->. reflexivity.
      + split; [left; apply emul_0_r|reflexivity].
    - (* seq *) rewrite cm_seq in Hm. destruct (kids_cms l r) as [ks|] eqn:Ek; [|discriminate].
      apply (A_node Seq name occur l r _ m mn ch p M_SEQ o l' r' ks); auto using bc_seq.
    - (* or *) rewrite cm_or in Hm. destruct (kids_cms l r) as [ks|] eqn:Ek; [|discriminate].
      apply (A_node Choice name occur l r _ m mn ch p M_OR o l' r' ks); auto using bc_or.
  Qed.
End Below.

(* ------------------------------------------------------------------ B: below a choice that occurs at most once, if nothing repeats *)
Lemma with_occur_bounded occur c m q :
  with_occur occur c = Some m -> occur_bounded occur = true -> maxcount m q = maxcount c q.
Proof.
  intros Hw Hb. destruct (with_occur_spec _ _ _ Hw) as [mn [mx [Hs Hq]]]. destruct (Hq q) as [-> _].
  unfold spec_occ in Hs. unfold occur_bounded in Hb.
  destruct (str_eqb occur S_once); [inversion Hs; apply emul_1_l|].
  destruct (str_eqb occur S_opt); [inversion Hs; apply emul_1_l|]. discriminate.
Qed.

Lemma norep_inv name type occur l r :
  norep (RC name type occur l r) = true ->
  occur_bounded occur = true /\ (forall c, l = Some c -> norep c = true) /\ (forall c, r = Some c -> norep c = true).
Proof.
  cbn [norep]. intros H. apply andb_true_iff in H as [H Hr]. apply andb_true_iff in H as [Ho Hl].
  split; [exact Ho|]. split; intros c ->; assumption.
Qed.

Section BelowOnce.
  Variable q : name.

  Definition B_stmt (c : raw_content) : Prop :=
    forall dc m mn ch p, parse_content c = Some dc -> cm_of_raw c = Some m -> norep c = true ->
      enat_leb (maxcount m q) (cap (build_content dc (Some (mn, 1%N, ch)) p) q) = true
      /\ (mn = 0%N -> minsum (build_content dc (Some (mn, 1%N, ch)) p) q = 0).

  Definition B_kid (x : option raw_content) : Prop :=
    forall x' ks mn ch p, kid_parsed x x' -> kid_cms x = Some ks -> (forall c, x = Some c -> norep c = true) ->
      (enat_leb (esum (map (fmax q) ks)) (cap (kid_attrs x' (Some (mn, 1%N, ch)) p) q) = true
       /\ enat_leb (emaxl (map (fmax q) ks)) (cap (kid_attrs x' (Some (mn, 1%N, ch)) p) q) = true)
      /\ (mn = 0%N -> minsum (kid_attrs x' (Some (mn, 1%N, ch)) p) q = 0).

  Lemma B_kid_of x : (forall c, x = Some c -> B_stmt c) -> B_kid x.
  Proof.
    intros IH x' ks mn ch p Hp Hk Hn. destruct x as [c|], x' as [c'|]; cbn in Hp; try contradiction.
    - cbn [kid_cms] in Hk. destruct (cm_of_raw c) as [m|] eqn:Em; [|discriminate]. inversion Hk; subst.
      destruct (IH c eq_refl c' m mn ch p Hp Em (Hn c eq_refl)) as [H1 H2]. split; [|exact H2].
      cbn [map]. unfold esum, emaxl, fmax. cbn [fold_right kid_attrs]. rewrite eadd_0_r, emax_0_r. split; exact H1.
    - inversion Hk; subst. cbn [kid_attrs map]. rewrite cap_nil. split; [split; reflexivity|]. intros _. reflexivity.
  Qed.

  Lemma B_node (mk : list cm -> cm) name occur l r m mn ch p t o l' r' ks :
    (mk = Seq \/ mk = Choice) ->
    B_kid l -> B_kid r -> kid_parsed l l' -> kid_parsed r r' ->
    (forall c, l = Some c -> norep c = true) -> (forall c, r = Some c -> norep c = true) -> occur_bounded occur = true ->
    kids_cms l r = Some ks -> with_occur occur (mk ks) = Some m ->
    build_content (DC name t o l' r') (Some (mn, 1%N, ch)) p =
      kid_attrs l' (Some (mn, 1%N, ch)) (p ++ [false]) ++ kid_attrs r' (Some (mn, 1%N, ch)) (p ++ [true]) ->
    enat_leb (maxcount m q) (cap (build_content (DC name t o l' r') (Some (mn, 1%N, ch)) p) q) = true
    /\ (mn = 0%N -> minsum (build_content (DC name t o l' r') (Some (mn, 1%N, ch)) p) q = 0).
  Proof.
    intros Hmk Bl Br Pl Pr Nl Nr Hb Hk Hw Hbc. rewrite Hbc.
    apply kids_cms_inv in Hk as [a [b [Ka [Kb ->]]]].
    destruct (Bl l' a mn ch (p ++ [false]) Pl Ka Nl) as [[Ls Lm] L2].
    destruct (Br r' b mn ch (p ++ [true]) Pr Kb Nr) as [[Rs Rm] R2].
    split.
    - rewrite (with_occur_bounded _ _ _ q Hw Hb), cap_app. destruct Hmk as [-> | ->].
      + rewrite maxcount_seq. change (fun c => maxcount c q) with (fmax q). rewrite map_app, esum_app.
        apply enat_leb_eadd; assumption.
      + rewrite maxcount_choice. change (fun c => maxcount c q) with (fmax q). rewrite map_app, emaxl_app.
        apply enat_leb_emax_eadd; assumption.
    - intros E. rewrite minsum_app, (L2 E), (R2 E). reflexivity.
  Qed.

  Lemma B_all : forall c, B_stmt c.
  Proof.
    apply raw_content_ind'. intros name type occur l r IHl IHr. unfold B_stmt. intros dc m mn ch p Hp Hm Hn.
    assert (Bl : B_kid l) by (apply B_kid_of; exact IHl).
    assert (Br : B_kid r) by (apply B_kid_of; exact IHr).
    destruct (norep_inv _ _ _ _ _ Hn) as [Hb [Nl Nr]].
    destruct (parse_content_inv _ _ _ _ _ _ Hp) as [o [t [l' [r' [Ho [Ht [-> [Pl Pr]]]]]]]].
    destruct (type_cases _ _ Ht) as [[-> ->]|[[-> ->]|[[-> ->]|[-> ->]]]].
    - rewrite cm_pcdata in Hm. inversion Hm; subst. rewrite bc_pcdata. rewrite cap_value, minsum_value.
      split; reflexivity.
    - rewrite cm_element in Hm. destruct name as [n|]; [|discriminate].
      rewrite bc_element. cbn [build_restrictions oname]. rewrite cap_element_one, minsum_element.
      rewrite (with_occur_bounded _ _ _ q Hm Hb), maxcount_elem. destruct (str_eqb n q).
      + split; [reflexivity|]. intros ->. reflexivity.
      + split; reflexivity.
    - rewrite cm_seq in Hm. destruct (kids_cms l r) as [ks|] eqn:Ek; [|discriminate].
      apply (B_node Seq name occur l r m mn ch p M_SEQ o l' r' ks); auto using bc_seq.
    - rewrite cm_or in Hm. destruct (kids_cms l r) as [ks|] eqn:Ek; [|discriminate].
      apply (B_node Choice name occur l r m mn ch p M_OR o l' r' ks); auto using bc_or.
  Qed.
End BelowOnce.

(* ------------------------------------------------------------------ C: the top level, under the guards *)
Lemma guard_seq_seq n o l r :
  guard_seq (RC n S_seq o l r) =
  occur_once o && match l with Some x => guard_seq x | None => true end && match r with Some x => guard_seq x | None => true end.
Proof. reflexivity. Qed.
Lemma guard_or_seq n o l r :
  guard_or (RC n S_seq o l r) =
  match l with Some x => guard_or x | None => true end && match r with Some x => guard_or x | None => true end.
Proof. reflexivity. Qed.
Lemma guard_or_or n o l r :
  guard_or (RC n S_or o l r) =
  negb (occur_bounded o) || (match l with Some x => norep x | None => true end && match r with Some x => norep x | None => true end).
Proof. reflexivity. Qed.

Lemma occur_once_spec occur c m : with_occur occur c = Some m -> occur_once occur = true -> m = c.
Proof. unfold with_occur, occur_once. intros H E. rewrite E in H. inversion H. reflexivity. Qed.

Lemma enat_leb_zero a : enat_leb (Some 0) a = true.
Proof. destruct a; reflexivity. Qed.

Section Top.
  Variable q : name.

  Definition C_stmt (c : raw_content) : Prop :=
    forall dc m p, parse_content c = Some dc -> cm_of_raw c = Some m -> guard_seq c = true -> guard_or c = true ->
      enat_leb (maxcount m q) (cap (build_content dc None p) q) = true
      /\ minsum (build_content dc None p) q <= mincount m q.

  Definition C_kid (x : option raw_content) : Prop :=
    forall x' ks p, kid_parsed x x' -> kid_cms x = Some ks ->
      (forall c, x = Some c -> guard_seq c = true) -> (forall c, x = Some c -> guard_or c = true) ->
      enat_leb (esum (map (fmax q) ks)) (cap (kid_attrs x' None p) q) = true
      /\ minsum (kid_attrs x' None p) q <= nsum (map (fmin q) ks).

  Lemma C_kid_of x : (forall c, x = Some c -> C_stmt c) -> C_kid x.
  Proof.
    intros IH x' ks p Hp Hk G1 G2. destruct x as [c|], x' as [c'|]; cbn in Hp; try contradiction.
    - cbn [kid_cms] in Hk. destruct (cm_of_raw c) as [m|] eqn:Em; [|discriminate]. inversion Hk; subst.
      destruct (IH c eq_refl c' m p Hp Em (G1 c eq_refl) (G2 c eq_refl)) as [H1 H2].
      cbn [map]. unfold esum, nsum, fmax, fmin. cbn [fold_right kid_attrs]. rewrite eadd_0_r. split; [exact H1|lia].
    - inversion Hk; subst. cbn [kid_attrs map]. rewrite cap_nil, minsum_nil. split; [reflexivity|cbn; lia].
  Qed.

  Lemma C_all : forall c, C_stmt c.
  Proof.
    apply raw_content_ind'. intros name type occur l r IHl IHr. unfold C_stmt. intros dc m p Hp Hm G1 G2.
    destruct (parse_content_inv _ _ _ _ _ _ Hp) as [o [t [l' [r' [Ho [Ht [-> [Pl Pr]]]]]]]].
    destruct (type_cases _ _ Ht) as [[-> ->]|[[-> ->]|[[-> ->]|[-> ->]]]].
    - (* pcdata *) rewrite cm_pcdata in Hm. inversion Hm; subst. rewrite bc_pcdata, cap_value, minsum_value.
      split; [reflexivity|lia].
    - (* element *) rewrite cm_element in Hm. destruct name as [n|]; [|discriminate]. rewrite bc_element. cbn [oname].
      destruct (occur_cases _ _ Ho) as [[-> ->]|[[-> ->]|[[-> ->]|[-> ->]]]]; inversion Hm; subst; clear Hm.
      + change (build_restrictions M_ONCE None) with (1%N, 1%N, @None path).
        rewrite cap_element_one, minsum_element, maxcount_elem, mincount_elem. destruct (str_eqb n q); split; cbn; auto.
      + change (build_restrictions M_OPT None) with (0%N, 1%N, @None path).
        rewrite cap_element_one, minsum_element. unfold opt. rewrite maxcount_occ, emul_1_l, maxcount_elem.
        destruct (str_eqb n q); split; cbn; auto; lia.
      + change (build_restrictions M_MULT None) with (0%N, sys_maxsize, @None path).
        rewrite cap_element_unbounded, minsum_element. unfold star. rewrite maxcount_occ, maxcount_elem.
        destruct (str_eqb n q); split; cbn; auto; lia.
      + change (build_restrictions M_PLUS None) with (1%N, sys_maxsize, @None path).
        rewrite cap_element_unbounded, minsum_element. unfold plus. rewrite maxcount_occ, mincount_occ, maxcount_elem, mincount_elem.
        destruct (str_eqb n q); split; cbn; auto.
    - (* seq: the group occurs once *)
      rewrite cm_seq in Hm. destruct (kids_cms l r) as [ks|] eqn:Ek; [|discriminate].
      rewrite guard_seq_seq in G1. apply andb_true_iff in G1 as [G1 G1r]. apply andb_true_iff in G1 as [Honce G1l].
      rewrite guard_or_seq in G2. apply andb_true_iff in G2 as [G2l G2r].
      pose proof (occur_once_spec _ _ _ Hm Honce) as ->.
      apply kids_cms_inv in Ek as [a [b [Ka [Kb ->]]]]. rewrite bc_seq.
      destruct (C_kid_of l IHl l' a (p ++ [false]) Pl Ka) as [L1 L2];
        [intros c ->; exact G1l|intros c ->; exact G2l|].
      destruct (C_kid_of r IHr r' b (p ++ [true]) Pr Kb) as [R1 R2];
        [intros c ->; exact G1r|intros c ->; exact G2r|].
      rewrite cap_app, minsum_app, maxcount_seq, mincount_seq.
      change (fun c => maxcount c q) with (fmax q). change (fun c => mincount c q) with (fmin q).
      rewrite !map_app, esum_app, nsum_app. split; [apply enat_leb_eadd; assumption|lia].
    - (* or *)
      rewrite cm_or in Hm. destruct (kids_cms l r) as [ks|] eqn:Ek; [|discriminate].
      rewrite guard_or_or in G2. rewrite bc_or. cbv zeta.
      destruct (occur_bounded occur) eqn:Hb; cbn [negb orb] in G2.
      + (* the choice occurs at most once: nothing below it repeats *)
        apply andb_true_iff in G2 as [Nl Nr].
        assert (Ekw : snd (build_occurs o) = 1%N).
        { destruct (occur_cases _ _ Ho) as [[-> ->]|[[-> ->]|[[-> ->]|[-> ->]]]]; try reflexivity; discriminate. }
        rewrite Ekw.
        pose proof (B_node q Choice name occur l r m 0%N p p M_OR o l' r' ks (or_intror eq_refl)
                      (B_kid_of q l (fun c _ => B_all q c)) (B_kid_of q r (fun c _ => B_all q c)) Pl Pr) as HB.
        destruct HB as [H1 H2]; auto using bc_or.
        * intros c ->; exact Nl.
        * intros c ->; exact Nr.
        * rewrite bc_or in H1, H2. cbv zeta in H1, H2. split; [exact H1|]. rewrite (H2 eq_refl). lia.
      + (* the choice is repeated: everything below is unbounded and optional *)
        assert (Ekw : snd (build_occurs o) = sys_maxsize).
        { destruct (occur_cases _ _ Ho) as [[-> ->]|[[-> ->]|[[-> ->]|[-> ->]]]]; try reflexivity; discriminate. }
        rewrite Ekw.
        pose proof (A_node q Choice name occur l r (DC name M_OR o l' r') m 0%N p p M_OR o l' r' ks (or_intror eq_refl)
                      (A_kid_of q l (fun c _ => A_all q c)) (A_kid_of q r (fun c _ => A_all q c)) Pl Pr Ek Hm) as HA.
        destruct HA as [H1 H2]; auto using bc_or.
        rewrite bc_or in H1, H2. cbv zeta in H1, H2. split.
        * destruct H1 as [H1|H1]; [rewrite H1; apply enat_leb_zero|rewrite H1; apply enat_leb_none].
        * rewrite (H2 eq_refl). lia.
  Qed.
End Top.

(* ------------------------------------------------------------------ the theorems *)
Theorem dtd_capacity c dc m :
  parse_content c = Some dc -> cm_of_raw c = Some m -> dtd_guard c = true ->
  forall q, enat_leb (maxcount m q) (cap (build_content dc None []) q) = true
            /\ minsum (build_content dc None []) q <= mincount m q.
Proof.
  intros Hp Hm Hg q. unfold dtd_guard in Hg. apply andb_true_iff in Hg as [G1 G2].
  exact (C_all q c dc m [] Hp Hm G1 G2).
Qed.

(* every word of the content model fits the attrs the mapper produced *)
Corollary dtd_children_fit c dc m w :
  parse_content c = Some dc -> cm_of_raw c = Some m -> dtd_guard c = true -> lang m w ->
  forall q, ele (count q w) (cap (build_content dc None []) q) /\ minsum (build_content dc None []) q <= count q w.
Proof.
  intros Hp Hm Hg HL q. destruct (dtd_capacity c dc m Hp Hm Hg q) as [H1 H2]. split.
  - eapply ele_trans; [apply count_le_maxcount; exact HL|exact H1].
  - pose proof (mincount_le_count q m w HL). lia.
Qed.

(* ------------------------------------------------------------------ refutations: the statement without guards is false *)
Definition el (n : string) (o : str) : raw_content := RC (Some (lit n)) S_element o None None.
Definition grp (t o : str) (l r : raw_content) : raw_content := RC None t o (Some l) (Some r).

(* (a,b)*  — clause 1 *)
Definition w_seq_star : raw_content := grp S_seq S_mult (el "a" S_once) (el "b" S_once).
(* (a,b)?  — clause 1, the "required" half *)
Definition w_seq_opt : raw_content := grp S_seq S_opt (el "a" S_once) (el "b" S_once).
(* (a*|b)  — clause 2 *)
Definition w_or_member : raw_content := grp S_or S_once (el "a" S_mult) (el "b" S_once).

Definition capacity_holds (c : raw_content) (q : name) : option bool :=
  match parse_content c, cm_of_raw c with
  | Some dc, Some m => Some (enat_leb (maxcount m q) (cap (build_content dc None []) q))
  | _, _ => None
  end.
Definition required_holds (c : raw_content) (q : name) : option bool :=
  match parse_content c, cm_of_raw c with
  | Some dc, Some m => Some (minsum (build_content dc None []) q <=? mincount m q)
  | _, _ => None
  end.

Theorem dtd_capacity_refuted_seq :
  exists c q, capacity_holds c q = Some false /\ guard_seq c = false /\ guard_or c = true.
Proof. exists w_seq_star, (lit "a"). vm_compute. auto. Qed.

Theorem dtd_required_refuted_seq :
  exists c q, required_holds c q = Some false /\ guard_seq c = false /\ guard_or c = true.
Proof. exists w_seq_opt, (lit "a"). vm_compute. auto. Qed.

Theorem dtd_capacity_refuted_or :
  exists c q, capacity_holds c q = Some false /\ guard_seq c = true /\ guard_or c = false.
Proof. exists w_or_member, (lit "a"). vm_compute. auto. Qed.

(* the refuted words themselves: valid for the DTD, yet too many / too few for the attrs *)
Lemma w_seq_star_word : lang (star (Seq [Elem (lit "a"); Elem (lit "b")])) [lit "a"; lit "b"; lit "a"; lit "b"].
Proof.
  assert (H : lang (Seq [Elem (lit "a"); Elem (lit "b")]) [lit "a"; lit "b"]).
  { change [lit "a"; lit "b"] with ([lit "a"] ++ ([lit "b"] ++ [])).
    apply L_seq_cons; [apply L_elem|]. apply L_seq_cons; [apply L_elem|apply L_seq_nil]. }
  change [lit "a"; lit "b"; lit "a"; lit "b"] with (List.concat [[lit "a"; lit "b"]; [lit "a"; lit "b"]]).
  apply L_occ; [cbn; lia|exact I|]. repeat constructor; exact H.
Qed.

(* namespaces (clause 3): a default xmlns declaration on the root qualifies the root class only *)
Definition w_default_ns : list raw_element :=
  [mk_raw_element (lit "root") None S_element (Some (el "child1" S_once))
     [mk_raw_attr None S_xmlns (lit "cdata") S_fixed (Some (lit "http://www.example.com/")) []];
   mk_raw_element (lit "child1") None S_mixed (Some (RC None S_pcdata S_once None None)) []].

Theorem dtd_default_ns_children_unqualified :
  guard_ns w_default_ns = false /\
  option_map (map (fun k => (k_qname k, map (fun a => (a_name a, a_namespace a)) (filter is_element_attr (k_attrs k)))))
             (dtd_classes w_default_ns)
  = Some [(lit "{http://www.example.com/}root", [(lit "child1", None)]); (lit "child1", [])].
Proof. split; vm_compute; reflexivity. Qed.

(* non-vacuity: a realistic content model inside the guards, and what the mapper makes of it *)
(* (a,(b|c)+,d?) *)
Definition w_ok : raw_content :=
  grp S_seq S_once (el "a" S_once)
      (grp S_seq S_once (grp S_or S_plus (el "b" S_once) (el "c" S_once)) (el "d" S_opt)).

Example dtd_guard_nonvacuous :
  dtd_guard w_ok = true /\
  option_map (fun dc => map (fun a => (a_name a, a_min a, a_max a)) (build_content dc None [])) (parse_content w_ok)
  = Some [(lit "a", Some 1%N, Some 1%N); (lit "b", Some 0%N, Some sys_maxsize); (lit "c", Some 0%N, Some sys_maxsize);
          (lit "d", Some 0%N, Some 1%N)].
Proof. split; vm_compute; reflexivity. Qed.

(* ------------------------------------------------------------------ attributes *)
Definition model_enum (a : dtd_attribute) : option (list str) :=
  if str_eqb (da_type a) (lit "ENUMERATION")
  then Some (map (fun m => match a_default m with Some v => v | None => [] end) (snd (build_enumeration a)))
  else None.

Lemma model_enum_values a : str_eqb (da_type a) (lit "ENUMERATION") = true -> model_enum a = Some (da_values a).
Proof.
  unfold model_enum. intros ->. unfold build_enumeration. cbn [snd]. rewrite map_map. cbn [a_default].
  rewrite map_id. reflexivity.
Qed.

Lemma enum_eqb_refl e : enum_eqb e e = true.
Proof.
  destruct e as [l|]; [|reflexivity]. cbn.
  assert (H : forallb (fun v => existsb (str_eqb v) l) l = true).
  { apply forallb_forall. intros v Hv. apply existsb_exists. exists v. split; [exact Hv|apply str_eqb_refl]. }
  rewrite H. reflexivity.
Qed.

Lemma attr_type_cases ty t : decode dtd_attribute_type_members ty = Some t ->
  (ty = S_enumeration /\ t = lit "ENUMERATION") \/ (str_eqb ty S_enumeration = false /\ str_eqb t (lit "ENUMERATION") = false).
Proof.
  intros H. apply decode_in in H. unfold dtd_attribute_type_members in H.
  repeat (destruct H as [H|H]; [inversion H; subst; clear H; first [left; split; reflexivity | right; split; reflexivity]|]).
  destruct H.
Qed.

Lemma attr_default_cases dv d : decode dtd_attribute_default_members dv = Some d ->
  (dv = S_required /\ d = lit "REQUIRED") \/ (dv = S_implied /\ d = lit "IMPLIED") \/
  (dv = S_fixed /\ d = lit "FIXED") \/ (dv = S_none /\ d = lit "NONE").
Proof.
  intros H. apply decode_in in H. unfold dtd_attribute_default_members in H.
  repeat (destruct H as [H|H]; [inversion H; subst; clear H; auto 6|]). destruct H.
Qed.

(* #REQUIRED / #IMPLIED / #FIXED / default  ->  required / optional / fixed / default, enumerations -> the declared tokens *)
Theorem dtd_attr_compat ra da qn d m :
  parse_attribute ra = Some da -> attr_decl_of_raw qn ra = Some d ->
  attr_compat d (afield_of_attr qn (build_attribute m da) (model_enum da)) = true.
Proof.
  unfold parse_attribute, attr_decl_of_raw. intros Hp Hd.
  destruct (decode dtd_attribute_type_members (ra_type ra)) as [t|] eqn:Et; [|discriminate].
  destruct (decode dtd_attribute_default_members (ra_default ra)) as [dk|] eqn:Ed; [|discriminate].
  inversion Hp; subst da; clear Hp.
  destruct (use_of_raw ra) as [u|] eqn:Eu; [|discriminate]. cbn in Hd. inversion Hd; subst d; clear Hd.
  unfold attr_compat. cbn [ad_name ad_enum ad_use afield_of_attr af_name af_enum af_default af_fixed af_required].
  unfold name_eqb. rewrite str_eqb_refl. cbn [andb].
  assert (Henum : enum_eqb (enum_of_raw ra)
                    (model_enum (mk_dtd_attribute (ra_name ra) (ra_prefix ra) t dk (ra_default_value ra) (ra_values ra))) = true).
  { unfold enum_of_raw. destruct (attr_type_cases _ _ Et) as [[E1 ->]|[E1 E2]].
    - rewrite E1. change (str_eqb S_enumeration S_enumeration) with true. cbv iota.
      rewrite model_enum_values by reflexivity. apply enum_eqb_refl.
    - rewrite E1. unfold model_enum. cbn [da_type]. rewrite E2. reflexivity. }
  rewrite Henum. cbn [andb].
  unfold build_attribute. cbn [da_default da_default_value].
  unfold use_of_raw in Eu.
  destruct (attr_default_cases _ _ Ed) as [[E ->]|[[E ->]|[[E ->]|[E ->]]]]; rewrite E in Eu.
  - change (str_eqb S_required S_required) with true in Eu. cbv iota in Eu. inversion Eu; subst u. reflexivity.
  - change (str_eqb S_implied S_required) with false in Eu. change (str_eqb S_implied S_implied) with true in Eu.
    cbv iota in Eu. inversion Eu; subst u. reflexivity.
  - change (str_eqb S_fixed S_required) with false in Eu. change (str_eqb S_fixed S_implied) with false in Eu.
    change (str_eqb S_fixed S_fixed) with true in Eu. cbv iota in Eu.
    destruct (ra_default_value ra) as [v|]; [|discriminate]. cbn in Eu. inversion Eu; subst u.
    change (build_attribute_restrictions (lit "FIXED") (Some v)) with (Some v, true, 1%N).
    cbn [a_default a_fixed a_min]. rewrite str_eqb_refl. reflexivity.
  - change (str_eqb S_none S_required) with false in Eu. change (str_eqb S_none S_implied) with false in Eu.
    change (str_eqb S_none S_fixed) with false in Eu. change (str_eqb S_none S_none) with true in Eu. cbv iota in Eu.
    destruct (ra_default_value ra) as [v|]; [|discriminate]. cbn in Eu. inversion Eu; subst u.
    change (build_attribute_restrictions (lit "NONE") (Some v)) with (Some v, false, 1%N).
    cbn [a_default a_fixed a_min]. rewrite str_eqb_refl. reflexivity.
Qed.

(* ... so an absent attribute re-materialises exactly as the DTD prescribes, a present one is kept,
   a value outside the enumeration or different from the #FIXED one cannot occur in a valid document *)
Theorem dtd_attr_defaults ra da qn d m present :
  parse_attribute ra = Some da -> attr_decl_of_raw qn ra = Some d -> valid_attr d present = true ->
  afield_roundtrip (afield_of_attr qn (build_attribute m da) (model_enum da)) present = Some (effective d present).
Proof. intros Hp Hd Hv. apply attr_compat_sound; [eapply dtd_attr_compat; eauto|exact Hv]. Qed.

(* clause 4 (compound fields): (from|(Tag,sub-item,n1)) is inside guard_seq / guard_or, the mapper keeps capacity per name,
   but all four attrs carry one and the same choice id with max_occurs 1 — CreateCompoundFields folds them into one
   one-item field — while a word of the model has three children *)
Definition w_or_seq : raw_content :=
  grp S_or S_once (el "from" S_once)
      (grp S_seq S_once (el "Tag" S_once) (grp S_seq S_once (el "sub-item" S_once) (el "n1" S_once))).

Theorem dtd_choice_of_sequence_one_choice_id :
  dtd_guard w_or_seq = true /\ guard_orseq w_or_seq = false /\
  option_map (fun dc => map (fun a => (a_max a, a_choice a)) (build_content dc None [])) (parse_content w_or_seq)
  = Some [(Some 1%N, Some []); (Some 1%N, Some []); (Some 1%N, Some []); (Some 1%N, Some [])] /\
  option_map (maxcountP (fun _ => true)) (cm_of_raw w_or_seq) = Some (Some 3).
Proof. repeat split; vm_compute; reflexivity. Qed.
