(* Proofs/Dtd.v — theorems about Model/Dtd.v (the faithful model of DtdParser + DtdMapper):
   dtd_capacity             for EVERY content tree the attrs keep capacity and never over-require
                            (full strength since the fixes 160d460 / 1017a9f in /repo; the former
                            refutations for (a,b)*, (a,b)?, (a*|b) and their guard clauses are gone)
   dtd_attr_defaults        #REQUIRED / #IMPLIED / #FIXED / default -> a field that re-materialises them *)
From Coq Require Import NArith List Bool Arith Lia String.
From XV Require Import Base.Str Base.Eqb Spec.Cm Spec.Dtd Gen.DtdTables Model.Dtd Model.DtdCorr Proofs.Cm.
Import ListNotations.
Local Close Scope N_scope.
Local Open Scope nat_scope.

(* ------------------------------------------------------------------ enat facts *)
Lemma enat_leb_refl a : enat_leb a a = true.
Proof. destruct a; cbn; [apply Nat.leb_refl|reflexivity]. Qed.
Lemma eadd_0_r a : eadd a (Some 0) = a.
Proof. destruct a; cbn; [f_equal; lia|reflexivity]. Qed.
Lemma emax_0_r a : emax a (Some 0) = a.
Proof. destruct a; cbn; [f_equal; lia|reflexivity]. Qed.
Lemma emul_1_l a : emul (Some 1) a = a.
Proof. destruct a as [[|n]|]; cbn; try reflexivity. f_equal. lia. Qed.
Lemma emul_0_r k : emul k (Some 0) = Some 0.
Proof. destruct k as [[|n]|]; reflexivity. Qed.
Lemma enat_leb_eadd a b a' b' : enat_leb a a' = true -> enat_leb b b' = true -> enat_leb (eadd a b) (eadd a' b') = true.
Proof. destruct a, b, a', b'; cbn; auto; try discriminate. rewrite !Nat.leb_le. lia. Qed.
Lemma enat_leb_emax_eadd a b a' b' : enat_leb a a' = true -> enat_leb b b' = true -> enat_leb (emax a b) (eadd a' b') = true.
Proof. destruct a, b, a', b'; cbn; auto; try discriminate. rewrite !Nat.leb_le. lia. Qed.
Lemma enat_leb_none a : enat_leb a None = true.
Proof. destruct a; reflexivity. Qed.
Lemma eadd_none_l b : eadd None b = None. Proof. reflexivity. Qed.
Lemma eadd_none_r a : eadd a None = None. Proof. destruct a; reflexivity. Qed.

(* ------------------------------------------------------------------ cap / minsum are additive *)
Lemma attrs_for_app a b q : attrs_for (a ++ b) q = attrs_for a q ++ attrs_for b q.
Proof. unfold attrs_for. apply filter_app. Qed.
Lemma esum_app a b : esum (a ++ b) = eadd (esum a) (esum b).
Proof.
  unfold esum. induction a as [|x a IH]; cbn [app fold_right].
  - destruct (fold_right eadd (Some 0) b); reflexivity.
  - rewrite IH. apply eadd_assoc.
Qed.
Lemma nsum_app a b : nsum (a ++ b) = nsum a + nsum b.
Proof. unfold nsum. induction a as [|x a IH]; cbn [app fold_right]; lia. Qed.
Lemma cap_app a b q : cap (a ++ b) q = eadd (cap a q) (cap b q).
Proof. unfold cap. rewrite attrs_for_app, map_app. apply esum_app. Qed.
Lemma minsum_app a b q : minsum (a ++ b) q = minsum a q + minsum b q.
Proof. unfold minsum. rewrite attrs_for_app, map_app. apply nsum_app. Qed.
Lemma cap_nil q : cap [] q = Some 0. Proof. reflexivity. Qed.
Lemma minsum_nil q : minsum [] q = 0. Proof. reflexivity. Qed.

(* ------------------------------------------------------------------ the enum tables, as the proofs need them *)
Lemma decode_in tbl : forall v n, decode tbl v = Some n -> In (n, v) tbl.
Proof.
  induction tbl as [|[n0 x] r IH]; intros v n; cbn [decode]; [discriminate|].
  destruct (str_eqb_spec x v) as [E|NE].
  - intros H; inversion H; subst. left; reflexivity.
  - intros H. right. apply IH. exact H.
Qed.

Definition M_ONCE := lit "ONCE". Definition M_OPT := lit "OPT".
Definition M_MULT := lit "MULT". Definition M_PLUS := lit "PLUS".
Definition M_PCDATA := lit "PCDATA". Definition M_ELEMENT := lit "ELEMENT".
Definition M_SEQ := lit "SEQ". Definition M_OR := lit "OR".

Lemma occur_cases occur o : decode dtd_content_occur_members occur = Some o ->
  (occur = S_once /\ o = M_ONCE) \/ (occur = S_opt /\ o = M_OPT) \/
  (occur = S_mult /\ o = M_MULT) \/ (occur = S_plus /\ o = M_PLUS).
Proof.
  intros H. apply decode_in in H. unfold dtd_content_occur_members in H.
  repeat (destruct H as [H|H]; [inversion H; subst; clear H; auto 6|]). destruct H.
Qed.

Lemma type_cases type t : decode dtd_content_type_members type = Some t ->
  (type = S_pcdata /\ t = M_PCDATA) \/ (type = S_element /\ t = M_ELEMENT) \/
  (type = S_seq /\ t = M_SEQ) \/ (type = S_or /\ t = M_OR).
Proof.
  intros H. apply decode_in in H. unfold dtd_content_type_members in H.
  repeat (destruct H as [H|H]; [inversion H; subst; clear H; auto 6|]). destruct H.
Qed.

(* ------------------------------------------------------------------ unfolding lemmas (closed string tests computed once) *)
Definition kid_attrs (x : option dtd_content) (kw : kwargs) (p : path) : list attr :=
  match x with Some l => build_content l kw p | None => [] end.

Lemma bc_element name o l r kw p :
  build_content (DC name M_ELEMENT o l r) kw p = [build_element (oname name) (merge_occurs o kw)].
Proof. reflexivity. Qed.
Lemma bc_seq name o l r kw p :
  build_content (DC name M_SEQ o l r) kw p =
  kid_attrs l (merge_occurs o kw) (p ++ [false]) ++ kid_attrs r (merge_occurs o kw) (p ++ [true]).
Proof. destruct l, r; reflexivity. Qed.
Lemma bc_or name o l r kw p :
  build_content (DC name M_OR o l r) kw p =
  kid_attrs l (or_params o kw p) (p ++ [false]) ++ kid_attrs r (or_params o kw p) (p ++ [true]).
Proof. destruct l, r; reflexivity. Qed.
Lemma bc_pcdata name o l r kw p :
  build_content (DC name M_PCDATA o l r) kw p = [build_value (merge_occurs o kw)].
Proof. reflexivity. Qed.

Definition kid_cms (x : option raw_content) : option (list cm) :=
  match x with Some l => option_map (fun a => [a]) (cm_of_raw l) | None => Some [] end.
Definition kids_cms (l r : option raw_content) : option (list cm) :=
  match kid_cms l, kid_cms r with Some a, Some b => Some (a ++ b) | _, _ => None end.

Lemma cm_element name occur l r :
  cm_of_raw (RC name S_element occur l r) = match name with Some n => with_occur occur (Elem n) | None => None end.
Proof. destruct l, r; reflexivity. Qed.
Lemma cm_pcdata name occur l r : cm_of_raw (RC name S_pcdata occur l r) = Some (Seq []).
Proof. destruct l, r; reflexivity. Qed.
Lemma cm_seq name occur l r :
  cm_of_raw (RC name S_seq occur l r) = match kids_cms l r with Some k => with_occur occur (Seq k) | None => None end.
Proof.
  unfold kids_cms, kid_cms. destruct l as [l|], r as [r|]; cbn [cm_of_raw].
  - destruct (cm_of_raw l), (cm_of_raw r); reflexivity.
  - destruct (cm_of_raw l); reflexivity.
  - destruct (cm_of_raw r); reflexivity.
  - reflexivity.
Qed.
Lemma cm_or name occur l r :
  cm_of_raw (RC name S_or occur l r) = match kids_cms l r with Some k => with_occur occur (Choice k) | None => None end.
Proof.
  unfold kids_cms, kid_cms. destruct l as [l|], r as [r|]; cbn [cm_of_raw].
  - destruct (cm_of_raw l), (cm_of_raw r); reflexivity.
  - destruct (cm_of_raw l); reflexivity.
  - destruct (cm_of_raw r); reflexivity.
  - reflexivity.
Qed.

(* the attrs of an element node *)
Lemma tag_element_self : str_eqb tag_ELEMENT tag_ELEMENT = true. Proof. apply str_eqb_refl. Qed.
Lemma tag_extension_not_element : str_eqb tag_EXTENSION tag_ELEMENT = false. Proof. reflexivity. Qed.

Lemma attrs_for_value r q : attrs_for [build_value r] q = [].
Proof. destruct r as [[mn mx] ch]. unfold attrs_for, build_value, is_element_attr. cbn [filter a_tag]. rewrite tag_extension_not_element. reflexivity. Qed.

Lemma attrs_for_element n r q :
  attrs_for [build_element n r] q = if str_eqb n q then [build_element n r] else [].
Proof.
  destruct r as [[mn mx] ch]. unfold attrs_for, build_element, is_element_attr. cbn [filter a_tag a_name].
  rewrite tag_element_self. cbn [andb]. destruct (str_eqb n q); reflexivity.
Qed.

Lemma cap_value r q : cap [build_value r] q = Some 0.
Proof. unfold cap. rewrite attrs_for_value. reflexivity. Qed.
Lemma minsum_value r q : minsum [build_value r] q = 0.
Proof. unfold minsum. rewrite attrs_for_value. reflexivity. Qed.

(* max_occurs as an extended natural: sys.maxsize (or more) is unbounded *)
Definition E (mx : N) : enat := if (sys_maxsize <=? mx)%N then None else Some (N.to_nat mx).
Lemma E_one : E 1%N = Some 1. Proof. reflexivity. Qed.
Lemma E_max : E sys_maxsize = None. Proof. reflexivity. Qed.

Lemma cap_element n mn mx ch q :
  cap [build_element n (mn, mx, ch)] q = if str_eqb n q then E mx else Some 0.
Proof.
  unfold cap. rewrite attrs_for_element. destruct (str_eqb n q); [|reflexivity].
  cbn [map]. unfold esum. cbn [fold_right]. rewrite eadd_0_r. reflexivity.
Qed.
Lemma minsum_element n mn mx ch q :
  minsum [build_element n (mn, mx, ch)] q = if str_eqb n q then N.to_nat mn else 0.
Proof. unfold minsum. rewrite attrs_for_element. destruct (str_eqb n q); cbn; lia. Qed.

Lemma maxcount_elem n q : maxcount (Elem n) q = if str_eqb n q then Some 1 else Some 0.
Proof. unfold maxcount. cbn [maxcountP]. unfold name_eqb.
  destruct (str_eqb_spec q n) as [E|NE]; destruct (str_eqb_spec n q) as [E'|NE']; congruence. Qed.
Lemma mincount_elem n q : mincount (Elem n) q = if str_eqb n q then 1 else 0.
Proof. unfold mincount. cbn [mincountP]. unfold name_eqb.
  destruct (str_eqb_spec q n) as [E|NE]; destruct (str_eqb_spec n q) as [E'|NE']; congruence. Qed.

Lemma maxcount_seq l q : maxcount (Seq l) q = esum (map (fun c => maxcount c q) l).
Proof. reflexivity. Qed.
Lemma maxcount_choice l q : maxcount (Choice l) q = emaxl (map (fun c => maxcount c q) l).
Proof. reflexivity. Qed.
Lemma mincount_seq l q : mincount (Seq l) q = nsum (map (fun c => mincount c q) l).
Proof. reflexivity. Qed.
Lemma maxcount_occ mn mx c q : maxcount (Occ mn mx c) q = emul mx (maxcount c q).
Proof. reflexivity. Qed.
Lemma mincount_occ mn mx c q : mincount (Occ mn mx c) q = mn * mincount c q.
Proof. reflexivity. Qed.

Lemma emaxl_app a b : emaxl (a ++ b) = emax (emaxl a) (emaxl b).
Proof.
  unfold emaxl. induction a as [|x a IH]; cbn [app fold_right].
  - destruct (fold_right emax (Some 0) b); reflexivity.
  - rewrite IH. destruct x, (fold_right emax (Some 0) a), (fold_right emax (Some 0) b); cbn; try reflexivity. f_equal. lia.
Qed.

(* parse_content keeps the shape *)
Lemma parse_content_inv name type occur l r dc :
  parse_content (RC name type occur l r) = Some dc ->
  exists o t l' r',
    decode dtd_content_occur_members occur = Some o /\ decode dtd_content_type_members type = Some t /\
    dc = DC name t o l' r' /\
    match l, l' with Some x, Some y => parse_content x = Some y | None, None => True | _, _ => False end /\
    match r, r' with Some x, Some y => parse_content x = Some y | None, None => True | _, _ => False end.
Proof.
  cbn [parse_content].
  destruct (decode dtd_content_occur_members occur) as [o|]; [|discriminate].
  destruct (decode dtd_content_type_members type) as [t|]; [|discriminate].
  destruct l as [l|], r as [r|].
  - destruct (parse_content l) as [l'|] eqn:El; cbn; [|discriminate].
    destruct (parse_content r) as [r'|] eqn:Er; cbn; [|discriminate].
    intros H; inversion H; subst. exists o, t, (Some l'), (Some r'). auto.
  - destruct (parse_content l) as [l'|] eqn:El; cbn; [|discriminate].
    intros H; inversion H; subst. exists o, t, (Some l'), None. auto.
  - destruct (parse_content r) as [r'|] eqn:Er; cbn; [|discriminate].
    intros H; inversion H; subst. exists o, t, None, (Some r'). auto.
  - intros H; inversion H; subst. exists o, t, None, None. auto.
Qed.

(* induction over the lxml tree *)
Lemma raw_content_ind' (P : raw_content -> Prop) :
  (forall name type occur l r, (forall c, l = Some c -> P c) -> (forall c, r = Some c -> P c) -> P (RC name type occur l r)) ->
  forall c, P c.
Proof.
  intros H. fix IH 1. intros [name type occur l r]. apply H.
  - refine (match l as l0 return (forall c, l0 = Some c -> P c) with Some c0 => fun c E => _ | None => fun c E => _ end).
    + pose proof (IH c0) as Hc0. inversion E; subst. exact Hc0.
    + discriminate.
  - refine (match r as r0 return (forall c, r0 = Some c -> P c) with Some c0 => fun c E => _ | None => fun c E => _ end).
    + pose proof (IH c0) as Hc0. inversion E; subst. exact Hc0.
    + discriminate.
Qed.

(* ------------------------------------------------------------------ occurrence indicators *)
Definition spec_occ (occur : str) : option (nat * enat) :=
  if str_eqb occur S_once then Some (1, Some 1)
  else if str_eqb occur S_opt then Some (0, Some 1)
  else if str_eqb occur S_mult then Some (0, None)
  else if str_eqb occur S_plus then Some (1, None)
  else None.

Lemma with_occur_spec occur c m :
  with_occur occur c = Some m ->
  exists mn mx, spec_occ occur = Some (mn, mx) /\
    forall q, maxcount m q = emul mx (maxcount c q) /\ mincount m q = mn * mincount c q.
Proof.
  unfold with_occur, spec_occ.
  destruct (str_eqb occur S_once).
  { intros H; inversion H; subst. exists 1, (Some 1). split; [reflexivity|]. intros q. rewrite emul_1_l. split; [reflexivity|lia]. }
  destruct (str_eqb occur S_opt).
  { intros H; inversion H; subst. exists 0, (Some 1). split; [reflexivity|]. intros q. split; reflexivity. }
  destruct (str_eqb occur S_mult).
  { intros H; inversion H; subst. exists 0, None. split; [reflexivity|]. intros q. split; reflexivity. }
  destruct (str_eqb occur S_plus); [|discriminate].
  intros H; inversion H; subst. exists 1, None. split; [reflexivity|]. intros q. split; reflexivity.
Qed.

Definition kid_parsed (x : option raw_content) (x' : option dtd_content) : Prop :=
  match x, x' with Some a, Some b => parse_content a = Some b | None, None => True | _, _ => False end.

Definition fmax (q : name) (c : cm) : enat := maxcount c q.
Definition fmin (q : name) (c : cm) : nat := mincount c q.

Lemma kids_cms_inv l r ks : kids_cms l r = Some ks -> exists a b, kid_cms l = Some a /\ kid_cms r = Some b /\ ks = a ++ b.
Proof. unfold kids_cms. destruct (kid_cms l) as [a|], (kid_cms r) as [b|]; try discriminate. intros H; inversion H. eauto. Qed.

(* ------------------------------------------------------------------ more enat facts *)
Lemma enat_leb_trans a b c : enat_leb a b = true -> enat_leb b c = true -> enat_leb a c = true.
Proof. destruct a, b, c; cbn; auto; try discriminate. rewrite !Nat.leb_le. lia. Qed.
Lemma emul_eadd_distr k a b : emul k (eadd a b) = eadd (emul k a) (emul k b).
Proof. destruct k as [[|x]|], a as [[|a]|], b as [[|b]|]; cbn; try reflexivity; f_equal; lia. Qed.
Lemma emul_emax_le k a b : enat_leb (emul k (emax a b)) (eadd (emul k a) (emul k b)) = true.
Proof.
  destruct k as [[|x]|], a as [[|a]|], b as [[|b]|]; cbn; try reflexivity; try (apply Nat.leb_le; lia).
  all: destruct (Nat.max a b) eqn:E; cbn; try reflexivity; try (apply Nat.leb_le; nia).
Qed.
Lemma emul_inf_idem x : emul None (emul None x) = emul None x.
Proof. destruct x as [[|x]|]; reflexivity. Qed.
Lemma enat_leb_zero a : enat_leb (Some 0) a = true.
Proof. destruct a; reflexivity. Qed.

(* ------------------------------------------------------------------ occurrences: specification side and mapper side *)
Lemma occ_link occur o : decode dtd_content_occur_members occur = Some o ->
  exists mno mxo mn mx,
    spec_occ occur = Some (mno, mxo) /\ build_occurs o = (mn, mx) /\
    ((mn = 0%N /\ mno = 0) \/ (mn = 1%N /\ mno = 1)) /\
    ((mx = 1%N /\ mxo = Some 1) \/ (mx = sys_maxsize /\ mxo = None)).
Proof.
  intros H. destruct (occur_cases _ _ H) as [[-> ->]|[[-> ->]|[[-> ->]|[-> ->]]]].
  - exists 1, (Some 1), 1%N, 1%N. repeat split; auto.
  - exists 0, (Some 1), 0%N, 1%N. repeat split; auto.
  - exists 0, None, 0%N, sys_maxsize. repeat split; auto.
  - exists 1, None, 1%N, sys_maxsize. repeat split; auto.
Qed.

(* the restrictions handed down: min in {0,1}, max in {1, sys.maxsize}, and inside a choice min = 0 *)
Definition kw_ok (mn0 mx0 : N) (ch : option path) : Prop :=
  (mn0 = 0%N \/ mn0 = 1%N) /\ (mx0 = 1%N \/ mx0 = sys_maxsize) /\ (ch <> None -> mn0 = 0%N).

Lemma merge_spec occur o mn0 mx0 ch mno mxo :
  decode dtd_content_occur_members occur = Some o -> spec_occ occur = Some (mno, mxo) -> kw_ok mn0 mx0 ch ->
  exists mn' mx',
    merge_occurs o (mn0, mx0, ch) = (mn', mx', ch) /\ kw_ok mn' mx' ch /\
    N.to_nat mn' = mno * N.to_nat mn0 /\
    (forall x, emul (E mx0) (emul mxo x) = emul (E mx') x).
Proof.
  intros Hd Hs [Hmn [Hmx Hch]].
  destruct (occur_cases _ _ Hd) as [[-> ->]|[[-> ->]|[[-> ->]|[-> ->]]]]; inversion Hs; subst mno mxo; clear Hs Hd;
    destruct Hmn as [-> | ->]; destruct Hmx as [-> | ->];
    (eexists; eexists; split; [reflexivity|]; split;
     [unfold kw_ok; repeat split; auto; intros Hc; specialize (Hch Hc); try discriminate; reflexivity|];
     split; [reflexivity|]; intros x; rewrite ?E_one, ?E_max, ?emul_1_l, ?emul_inf_idem; reflexivity).
Qed.

Lemma or_params_spec occur o mn0 mx0 ch p mno mxo :
  decode dtd_content_occur_members occur = Some o -> spec_occ occur = Some (mno, mxo) -> kw_ok mn0 mx0 ch ->
  exists mx' ch',
    or_params o (mn0, mx0, ch) p = (0%N, mx', ch') /\ kw_ok 0%N mx' ch' /\
    (forall x, emul (E mx0) (emul mxo x) = emul (E mx') x).
Proof.
  intros Hd Hs Hk. destruct (merge_spec _ _ _ _ _ _ _ Hd Hs Hk) as [mn' [mx' [Hm [[Hmn' [Hmx' Hch']] [Hto Hx]]]]].
  unfold or_params. rewrite Hm. destruct ch as [c|].
  - assert (mn' = 0%N) by (apply Hch'; discriminate). subst mn'.
    exists mx', (Some c). repeat split; auto.
  - exists mx', (Some p). repeat split; auto.
Qed.

(* ------------------------------------------------------------------ the capacity invariant, for every content tree *)
Section Capacity.
  Variable q : name.

  Definition G_stmt (c : raw_content) : Prop :=
    forall dc m mn0 mx0 ch p, parse_content c = Some dc -> cm_of_raw c = Some m -> kw_ok mn0 mx0 ch ->
      enat_leb (emul (E mx0) (maxcount m q)) (cap (build_content dc (mn0, mx0, ch) p) q) = true
      /\ minsum (build_content dc (mn0, mx0, ch) p) q <= N.to_nat mn0 * mincount m q.

  Definition G_kid (x : option raw_content) : Prop :=
    forall x' ks mn0 mx0 ch p, kid_parsed x x' -> kid_cms x = Some ks -> kw_ok mn0 mx0 ch ->
      enat_leb (emul (E mx0) (esum (map (fmax q) ks))) (cap (kid_attrs x' (mn0, mx0, ch) p) q) = true
      /\ enat_leb (emul (E mx0) (emaxl (map (fmax q) ks))) (cap (kid_attrs x' (mn0, mx0, ch) p) q) = true
      /\ minsum (kid_attrs x' (mn0, mx0, ch) p) q <= N.to_nat mn0 * nsum (map (fmin q) ks).

  Lemma G_kid_of x : (forall c, x = Some c -> G_stmt c) -> G_kid x.
  Proof.
    intros IH x' ks mn0 mx0 ch p Hp Hk Hok. destruct x as [c|], x' as [c'|]; cbn in Hp; try contradiction.
    - cbn [kid_cms] in Hk. destruct (cm_of_raw c) as [m|] eqn:Em; [|discriminate]. inversion Hk; subst.
      destruct (IH c eq_refl c' m mn0 mx0 ch p Hp Em Hok) as [H1 H2].
      cbn [map kid_attrs]. unfold esum, emaxl, nsum, fmax, fmin. cbn [fold_right]. rewrite eadd_0_r, emax_0_r.
      repeat split; auto. lia.
    - inversion Hk; subst. cbn [kid_attrs map]. rewrite cap_nil, minsum_nil. unfold esum, emaxl, nsum. cbn [fold_right].
      rewrite emul_0_r. repeat split; auto. lia.
  Qed.

  Lemma G_all : forall c, G_stmt c.
  Proof.
    apply raw_content_ind'. intros name type occur l r IHl IHr. unfold G_stmt. intros dc m mn0 mx0 ch p Hp Hm Hok.
    assert (Gl : G_kid l) by (apply G_kid_of; exact IHl).
    assert (Gr : G_kid r) by (apply G_kid_of; exact IHr).
    destruct (parse_content_inv _ _ _ _ _ _ Hp) as [o [t [l' [r' [Ho [Ht [-> [Pl Pr]]]]]]]].
    destruct (type_cases _ _ Ht) as [[-> ->]|[[-> ->]|[[-> ->]|[-> ->]]]].
    - (* #PCDATA: no child *)
      rewrite cm_pcdata in Hm. inversion Hm; subst. rewrite bc_pcdata.
      destruct (merge_occurs o (mn0, mx0, ch)) as [[a b] c]. rewrite cap_value, minsum_value.
      change (maxcount (Seq []) q) with (Some 0). rewrite emul_0_r. split; [reflexivity|lia].
    - (* element *)
      rewrite cm_element in Hm. destruct name as [n|]; [|discriminate]. rewrite bc_element. cbn [oname].
      destruct (with_occur_spec _ _ _ Hm) as [mno [mxo [Hs Hq]]]. destruct (Hq q) as [Hmax Hmin].
      destruct (merge_spec _ _ _ _ _ _ _ Ho Hs Hok) as [mn' [mx' [Hmg [_ [Hto Hx]]]]].
      rewrite Hmg, cap_element, minsum_element, Hmax, Hmin, Hx, maxcount_elem, mincount_elem.
      destruct (str_eqb n q).
      + split; [|nia]. destruct (E mx') as [[|k]|]; cbn; try reflexivity. rewrite Nat.mul_1_r. apply Nat.leb_refl.
      + rewrite emul_0_r. split; [reflexivity|lia].
    - (* sequence group *)
      rewrite cm_seq in Hm. destruct (kids_cms l r) as [ks|] eqn:Ek; [|discriminate].
      destruct (with_occur_spec _ _ _ Hm) as [mno [mxo [Hs Hq]]]. destruct (Hq q) as [Hmax Hmin].
      destruct (merge_spec _ _ _ _ _ _ _ Ho Hs Hok) as [mn' [mx' [Hmg [Hok' [Hto Hx]]]]].
      apply kids_cms_inv in Ek as [a [b [Ka [Kb ->]]]]. rewrite bc_seq, Hmg.
      destruct (Gl l' a mn' mx' ch (p ++ [false]) Pl Ka Hok') as [L1 [_ L3]].
      destruct (Gr r' b mn' mx' ch (p ++ [true]) Pr Kb Hok') as [R1 [_ R3]].
      rewrite cap_app, minsum_app, Hmax, Hmin, Hx, maxcount_seq, mincount_seq.
      change (fun c => maxcount c q) with (fmax q). change (fun c => mincount c q) with (fmin q).
      rewrite !map_app, esum_app, nsum_app, emul_eadd_distr. split; [apply enat_leb_eadd; assumption|nia].
    - (* choice group *)
      rewrite cm_or in Hm. destruct (kids_cms l r) as [ks|] eqn:Ek; [|discriminate].
      destruct (with_occur_spec _ _ _ Hm) as [mno [mxo [Hs Hq]]]. destruct (Hq q) as [Hmax Hmin].
      destruct (or_params_spec _ _ _ _ _ p _ _ Ho Hs Hok) as [mx' [ch' [Hop [Hok' Hx]]]].
      apply kids_cms_inv in Ek as [a [b [Ka [Kb ->]]]]. rewrite bc_or, Hop.
      destruct (Gl l' a 0%N mx' ch' (p ++ [false]) Pl Ka Hok') as [_ [L2 L3]].
      destruct (Gr r' b 0%N mx' ch' (p ++ [true]) Pr Kb Hok') as [_ [R2 R3]].
      rewrite cap_app, minsum_app, Hmax, Hx, maxcount_choice.
      change (fun c => maxcount c q) with (fmax q).
      rewrite !map_app, emaxl_app. split.
      + eapply enat_leb_trans; [apply emul_emax_le|]. apply enat_leb_eadd; assumption.
      + cbn in L3, R3. lia.
  Qed.
End Capacity.

(* ------------------------------------------------------------------ the theorems *)
Lemma kw_ok_top : kw_ok 1%N 1%N None.
Proof. unfold kw_ok. repeat split; auto. intros H; congruence. Qed.

Theorem dtd_capacity c dc m :
  parse_content c = Some dc -> cm_of_raw c = Some m ->
  forall q, enat_leb (maxcount m q) (cap (build_content dc no_kwargs []) q) = true
            /\ minsum (build_content dc no_kwargs []) q <= mincount m q.
Proof.
  intros Hp Hm q. unfold no_kwargs. destruct (G_all q c dc m 1%N 1%N None [] Hp Hm kw_ok_top) as [H1 H2].
  rewrite E_one, emul_1_l in H1. split; [exact H1|]. cbn in H2. lia.
Qed.

(* every word of the content model fits the attrs the mapper produced *)
Corollary dtd_children_fit c dc m w :
  parse_content c = Some dc -> cm_of_raw c = Some m -> lang m w ->
  forall q, ele (count q w) (cap (build_content dc no_kwargs []) q) /\ minsum (build_content dc no_kwargs []) q <= count q w.
Proof.
  intros Hp Hm HL q. destruct (dtd_capacity c dc m Hp Hm q) as [H1 H2]. split.
  - eapply ele_trans; [apply count_le_maxcount; exact HL|exact H1].
  - pose proof (mincount_le_count q m w HL). lia.
Qed.

(* ------------------------------------------------------------------ the former refutation witnesses, now inside the theorem *)
Definition el (n : string) (o : str) : raw_content := RC (Some (lit n)) S_element o None None.
Definition grp (t o : str) (l r : raw_content) : raw_content := RC None t o (Some l) (Some r).

Definition w_seq_star : raw_content := grp S_seq S_mult (el "a" S_once) (el "b" S_once).     (* (a,b)* *)
Definition w_seq_opt : raw_content := grp S_seq S_opt (el "a" S_once) (el "b" S_once).       (* (a,b)? *)
Definition w_or_member : raw_content := grp S_or S_once (el "a" S_mult) (el "b" S_once).     (* (a*|b) *)

Definition attrs_summary (c : raw_content) : option (list (str * option N * option N)) :=
  option_map (fun dc => map (fun a => (a_name a, a_min a, a_max a)) (build_content dc no_kwargs [])) (parse_content c).

(* what failed before 1017a9f / 160d460: a, b exactly once; a at most once *)
Example dtd_former_witnesses :
  attrs_summary w_seq_star = Some [(lit "a", Some 0%N, Some sys_maxsize); (lit "b", Some 0%N, Some sys_maxsize)] /\
  attrs_summary w_seq_opt = Some [(lit "a", Some 0%N, Some 1%N); (lit "b", Some 0%N, Some 1%N)] /\
  attrs_summary w_or_member = Some [(lit "a", Some 0%N, Some sys_maxsize); (lit "b", Some 0%N, Some 1%N)].
Proof. repeat split; vm_compute; reflexivity. Qed.

(* namespaces (clause ns): a default xmlns declaration on the root qualifies the root class only *)
Definition w_default_ns : list raw_element :=
  [mk_raw_element (lit "root") None S_element (Some (el "child1" S_once))
     [mk_raw_attr None S_xmlns (lit "cdata") S_fixed (Some (lit "http://www.example.com/")) []];
   mk_raw_element (lit "child1") None S_mixed (Some (RC None S_pcdata S_once None None)) []].

Theorem dtd_default_ns_children_unqualified :
  guard_ns w_default_ns = false /\
  option_map (map (fun k => (k_qname k, map (fun a => (a_name a, a_namespace a)) (filter is_element_attr (k_attrs k)))))
             (dtd_classes w_default_ns)
  = Some [(lit "{http://www.example.com/}root", [(lit "child1", None)]); (lit "child1", [])].
Proof. split; vm_compute; reflexivity. Qed.

(* a realistic content model and what the mapper makes of it: (a,(b|c)+,d?) *)
Definition w_ok : raw_content :=
  grp S_seq S_once (el "a" S_once)
      (grp S_seq S_once (grp S_or S_plus (el "b" S_once) (el "c" S_once)) (el "d" S_opt)).

Example dtd_mapping_example :
  attrs_summary w_ok
  = Some [(lit "a", Some 1%N, Some 1%N); (lit "b", Some 0%N, Some sys_maxsize); (lit "c", Some 0%N, Some sys_maxsize);
          (lit "d", Some 0%N, Some 1%N)].
Proof. vm_compute; reflexivity. Qed.

(* clause orseq (compound fields): (from|(Tag,sub-item,n1)): the mapper keeps capacity per name (dtd_capacity),
   but all four attrs carry one and the same choice id with max_occurs 1 — CreateCompoundFields folds them into one
   one-item field — while a word of the model has three children *)
Definition w_or_seq : raw_content :=
  grp S_or S_once (el "from" S_once)
      (grp S_seq S_once (el "Tag" S_once) (grp S_seq S_once (el "sub-item" S_once) (el "n1" S_once))).

Theorem dtd_choice_of_sequence_one_choice_id :
  guard_orseq w_or_seq = false /\
  option_map (fun dc => map (fun a => (a_max a, a_choice a)) (build_content dc no_kwargs [])) (parse_content w_or_seq)
  = Some [(Some 1%N, Some []); (Some 1%N, Some []); (Some 1%N, Some []); (Some 1%N, Some [])] /\
  option_map (maxcountP (fun _ => true)) (cm_of_raw w_or_seq) = Some (Some 3).
Proof. repeat split; vm_compute; reflexivity. Qed.

(* ------------------------------------------------------------------ attributes *)
Definition model_enum (a : dtd_attribute) : option (list str) :=
  if str_eqb (da_type a) (lit "ENUMERATION")
  then Some (map (fun m => match a_default m with Some v => v | None => [] end) (snd (build_enumeration a)))
  else None.

Lemma model_enum_values a : str_eqb (da_type a) (lit "ENUMERATION") = true -> model_enum a = Some (da_values a).
Proof.
  unfold model_enum. intros ->. unfold build_enumeration. cbn [snd]. rewrite map_map. cbn [a_default].
  rewrite map_id. reflexivity.
Qed.

Lemma enum_eqb_refl e : enum_eqb e e = true.
Proof.
  destruct e as [l|]; [|reflexivity]. cbn.
  assert (H : forallb (fun v => existsb (str_eqb v) l) l = true).
  { apply forallb_forall. intros v Hv. apply existsb_exists. exists v. split; [exact Hv|apply str_eqb_refl]. }
  rewrite H. reflexivity.
Qed.

Lemma attr_type_cases ty t : decode dtd_attribute_type_members ty = Some t ->
  (ty = S_enumeration /\ t = lit "ENUMERATION") \/ (str_eqb ty S_enumeration = false /\ str_eqb t (lit "ENUMERATION") = false).
Proof.
  intros H. apply decode_in in H. unfold dtd_attribute_type_members in H.
  repeat (destruct H as [H|H]; [inversion H; subst; clear H; first [left; split; reflexivity | right; split; reflexivity]|]).
  destruct H.
Qed.

Lemma attr_default_cases dv d : decode dtd_attribute_default_members dv = Some d ->
  (dv = S_required /\ d = lit "REQUIRED") \/ (dv = S_implied /\ d = lit "IMPLIED") \/
  (dv = S_fixed /\ d = lit "FIXED") \/ (dv = S_none /\ d = lit "NONE").
Proof.
  intros H. apply decode_in in H. unfold dtd_attribute_default_members in H.
  repeat (destruct H as [H|H]; [inversion H; subst; clear H; auto 6|]). destruct H.
Qed.

(* #REQUIRED / #IMPLIED / #FIXED / default  ->  required / optional / fixed / default (with the "&#38;" libxml2
   leaves in the value expanded), enumerations -> the declared tokens *)
Theorem dtd_attr_compat ra da qn d m :
  parse_attribute ra = Some da -> attr_decl_of_raw qn ra = Some d ->
  attr_compat d (afield_of_attr qn (build_attribute m da) (model_enum da)) = true.
Proof.
  unfold parse_attribute, attr_decl_of_raw. intros Hp Hd.
  destruct (decode dtd_attribute_type_members (ra_type ra)) as [t|] eqn:Et; [|discriminate].
  destruct (decode dtd_attribute_default_members (ra_default ra)) as [dk|] eqn:Ed; [|discriminate].
  inversion Hp; subst da; clear Hp.
  destruct (use_of_raw ra) as [u|] eqn:Eu; [|discriminate]. cbn in Hd. inversion Hd; subst d; clear Hd.
  unfold attr_compat. cbn [ad_name ad_enum ad_use afield_of_attr af_name af_enum af_default af_fixed af_required].
  unfold name_eqb. rewrite str_eqb_refl. cbn [andb].
  assert (Henum : enum_eqb (enum_of_raw ra)
                    (model_enum (mk_dtd_attribute (ra_name ra) (ra_prefix ra) t dk
                                                  (option_map expand_amp38 (ra_default_value ra)) (ra_values ra))) = true).
  { unfold enum_of_raw. destruct (attr_type_cases _ _ Et) as [[E1 ->]|[E1 E2]].
    - rewrite E1. change (str_eqb S_enumeration S_enumeration) with true. cbv iota.
      rewrite model_enum_values by reflexivity. apply enum_eqb_refl.
    - rewrite E1. unfold model_enum. cbn [da_type]. rewrite E2. reflexivity. }
  rewrite Henum. cbn [andb].
  unfold build_attribute. cbn [da_default da_default_value].
  unfold use_of_raw in Eu.
  destruct (attr_default_cases _ _ Ed) as [[E ->]|[[E ->]|[[E ->]|[E ->]]]]; rewrite E in Eu.
  - change (str_eqb S_required S_required) with true in Eu. cbv iota in Eu. inversion Eu; subst u. reflexivity.
  - change (str_eqb S_implied S_required) with false in Eu. change (str_eqb S_implied S_implied) with true in Eu.
    cbv iota in Eu. inversion Eu; subst u. reflexivity.
  - change (str_eqb S_fixed S_required) with false in Eu. change (str_eqb S_fixed S_implied) with false in Eu.
    change (str_eqb S_fixed S_fixed) with true in Eu. cbv iota in Eu.
    destruct (ra_default_value ra) as [v|]; [|discriminate]. cbn in Eu. inversion Eu; subst u. cbn [option_map].
    change (build_attribute_restrictions (lit "FIXED") (Some (expand_amp38 v))) with (Some (expand_amp38 v), true, 1%N).
    cbn [a_default a_fixed a_min]. rewrite str_eqb_refl. reflexivity.
  - change (str_eqb S_none S_required) with false in Eu. change (str_eqb S_none S_implied) with false in Eu.
    change (str_eqb S_none S_fixed) with false in Eu. change (str_eqb S_none S_none) with true in Eu. cbv iota in Eu.
    destruct (ra_default_value ra) as [v|]; [|discriminate]. cbn in Eu. inversion Eu; subst u. cbn [option_map].
    change (build_attribute_restrictions (lit "NONE") (Some (expand_amp38 v))) with (Some (expand_amp38 v), false, 1%N).
    cbn [a_default a_fixed a_min]. rewrite str_eqb_refl. reflexivity.
Qed.

Theorem dtd_attr_defaults ra da qn d m present :
  parse_attribute ra = Some da -> attr_decl_of_raw qn ra = Some d -> valid_attr d present = true ->
  afield_roundtrip (afield_of_attr qn (build_attribute m da) (model_enum da)) present = Some (effective d present).
Proof. intros Hp Hd Hv. apply attr_compat_sound; [eapply dtd_attr_compat; eauto|exact Hv]. Qed.

(* the former F7 witness: "R&amp;D" arrives from lxml as R&#38;D and is declared/generated as R&D *)
Example dtd_default_ampersand :
  option_map da_default_value
    (parse_attribute (mk_raw_attr None (lit "a") (lit "cdata") S_none (Some (lit "R&#38;D")) []))
  = Some (Some (lit "R&D")).
Proof. vm_compute; reflexivity. Qed.

(* clause repdup (compound fields): the model  f , Tag , (Tag|k2) repeated  satisfies the property's own side condition (rep_confined),
   the mapper keeps capacity, but Tag is produced twice — once outside any choice, once as a member of the
   repeated choice; the later pipeline merges the two into one list field and k2 stays a field of its own,
   so f,Tag,k2,Tag,Tag is serialized as f,Tag,Tag,Tag,k2 *)
Definition w_rep_dup : raw_content :=
  grp S_seq S_once (el "f" S_once)
      (grp S_seq S_once (el "Tag" S_once) (grp S_or S_mult (el "Tag" S_once) (el "k2" S_once))).

Theorem dtd_repeated_choice_member_outside :
  option_map rep_confined (cm_of_raw w_rep_dup) = Some true /\
  option_map rep_names_unique (cm_of_raw w_rep_dup) = Some false /\
  option_map (fun dc => map (fun a => (a_name a, a_max a, a_choice a)) (build_content dc no_kwargs [])) (parse_content w_rep_dup)
  = Some [(lit "f", Some 1%N, None); (lit "Tag", Some 1%N, None);
          (lit "Tag", Some sys_maxsize, Some [true; true]); (lit "k2", Some sys_maxsize, Some [true; true])].
Proof. repeat split; vm_compute; reflexivity. Qed.

(* clause dupchoice: ((b|o),(b|c)) — b is a member of two different choices; the mapper keeps capacity 2 for b
   (dtd_capacity) with two choice ids and no path; MergeAttributes later takes the two for exclusive branches *)
Definition w_dup_choice : raw_content :=
  grp S_seq S_once (grp S_or S_once (el "b" S_once) (el "o" S_once)) (grp S_or S_once (el "b" S_once) (el "c" S_once)).

Theorem dtd_same_name_in_two_choices :
  option_map (fun dc => choice_dups_ok (build_content dc no_kwargs [])) (parse_content w_dup_choice) = Some false /\
  option_map (fun dc => map (fun a => (a_name a, a_max a, a_choice a)) (build_content dc no_kwargs [])) (parse_content w_dup_choice)
  = Some [(lit "b", Some 1%N, Some [false]); (lit "o", Some 1%N, Some [false]);
          (lit "b", Some 1%N, Some [true]); (lit "c", Some 1%N, Some [true])] /\
  option_map (fun m => maxcount m (lit "b")) (cm_of_raw w_dup_choice) = Some (Some 2).
Proof. repeat split; vm_compute; reflexivity. Qed.
